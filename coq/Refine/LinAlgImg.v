(** * LinAlgImg: one iteration of subspace::image_mod_p, entry by entry (integers, truncating [%]).
    Style: stdlib + lia. *)
From RNT.Model Require Import Base Poly LinAlg.
From RNT.Refine Require Import LinAlgList.
From Coq Require Import Lia List Arith ZArith.
Import ListNotations.
Open Scope Z_scope.

Definition zent (a : zmat) (s q : nat) : Z := nth q (nth s a []) 0.

Lemma zrem_inv a b z : zrem a b = Done z -> b <> 0 /\ z = Z.rem a b.
Proof. unfold zrem. destruct (Z.eqb_spec b 0); [discriminate|]. now intros [= <-]. Qed.

Lemma zent_mapM (f : list Z -> outcome (list Z)) a a' :
  mapM f a = Done a' -> length a' = length a /\
  forall r, (r < length a)%nat -> f (nth r a []) = Done (nth r a' []).
Proof. intros H. apply mapM_inv in H as [L N]. split; auto. Qed.

(** pivot search *)
Lemma img_find_inv : forall cnt j rk c o,
  img_find cnt j rk c = Done o ->
  match o with
  | None => (cnt <= length rk)%nat /\ (cnt <= length c)%nat /\
            forall q, (q < cnt)%nat -> nth q rk 0 = 0 \/ nth q c O <> O
  | Some idx => (j <= idx < j + cnt)%nat /\ (idx - j < length rk)%nat /\ (idx - j < length c)%nat /\
                nth (idx - j) rk 0 <> 0 /\ nth (idx - j) c O = O /\
                forall q, (q < idx - j)%nat -> nth q rk 0 = 0 \/ nth q c O <> O
  end.
Proof.
  induction cnt as [|cn IH]; intros j rk c o H; cbn [img_find] in H.
  - injection H as <-. repeat split; try lia; try (intros; lia).
  - destruct rk as [|x rk']; [discriminate|]. destruct c as [|cj c']; [discriminate|].
    destruct (negb (x =? 0) && Nat.eqb cj 0) eqn:E.
    + injection H as <-. apply andb_prop in E as [E1 E2].
      apply Bool.negb_true_iff, Z.eqb_neq in E1. apply Nat.eqb_eq in E2.
      rewrite Nat.sub_diag. cbn [nth length]. repeat split; try lia; auto; try (intros; lia).
    + apply IH in H. apply Bool.andb_false_iff in E.
      assert (E' : x = 0 \/ cj <> O).
      { destruct E as [E|E]; [left|right].
        - apply Bool.negb_false_iff, Z.eqb_eq in E. auto.
        - apply Nat.eqb_neq in E. auto. }
      destruct o as [idx|].
      * destruct H as (B & L1 & L2 & NZ & CZ & Zs). cbn [length].
        replace (idx - j)%nat with (S (idx - S j)) by lia. cbn [nth].
        repeat split; try lia; auto.
        intros [|q] Hq; cbn [nth]; auto. apply Zs. lia.
      * destruct H as (L1 & L2 & Zs). cbn [length]. repeat split; try lia.
        intros [|q] Hq; cbn [nth]; auto. apply Zs. lia.
Qed.

(** the column loop (subspace.rs:61-72) *)
Lemma img_cols_inv j k p : forall cnt i mat mat',
  img_cols cnt i j k p mat = Done mat' ->
  length mat' = length mat /\
  forall s q, (s < length mat)%nat ->
    zent mat' s q =
      if ((i <=? q) && (q <? i + cnt))%nat && negb (Nat.eqb q j)
      then (if Nat.eqb s k then 0
            else if (k <? s)%nat then Z.rem (zent mat s j * zent mat k q + zent mat s q) p
            else zent mat s q)
      else zent mat s q.
Proof.
  induction cnt as [|c IH]; intros i mat mat' H; cbn [img_cols] in H.
  - injection H as <-. split; auto. intros s q Hs.
    destruct (Nat.leb_spec i q), (Nat.ltb_spec q (i + 0)); cbn; auto; lia.
  - destruct (Nat.eqb_spec i j) as [Heq|Hne].
    + apply IH in H as [L N]. split; auto. intros s q Hs. rewrite N by auto.
      destruct (Nat.eqb_spec q j) as [->|Hq]; cbn [negb]; rewrite ?Bool.andb_false_r; cbn [andb]; auto.
      destruct (Nat.leb_spec (S i) q), (Nat.leb_spec i q), (Nat.ltb_spec q (S i + c)), (Nat.ltb_spec q (i + S c));
        cbn [andb]; auto; lia.
    + bind_inv H as rk Erk. bind_inv H as dd Edd. bind_inv H as rest Erest.
      apply nth_chk_inv in Erk as [Hk Erk]. apply nth_chk_inv in Edd as [Hi Edd].
      set (mat1 := upd mat k (upd rk i 0)) in *.
      apply zent_mapM in Erest as [Lrest Nrest]. rewrite skipn_length in Lrest, Nrest.
      assert (L1 : length mat1 = length mat) by (unfold mat1; now rewrite upd_length).
      apply IH in H as [L N].
      assert (L2 : length (firstn (S k) mat1 ++ rest) = length mat).
      { rewrite app_length, firstn_length. lia. }
      rewrite L2 in *. split; auto. intros s q Hs. rewrite N by auto.
      (* entries of the intermediate matrix *)
      assert (M1 : forall s' q', (s' < length mat)%nat ->
                zent (firstn (S k) mat1 ++ rest) s' q' =
                  if Nat.eqb q' i then
                    (if Nat.eqb s' k then 0
                     else if (k <? s')%nat then Z.rem (zent mat s' j * zent mat k i + zent mat s' i) p
                     else zent mat s' i)
                  else zent mat s' q').
      { intros s' q' Hs'. unfold zent at 1. rewrite nth_firstn_app by lia.
        destruct (Nat.ltb_spec s' (S k)).
        - unfold mat1. rewrite nth_upd. destruct (Nat.eqb_spec s' k) as [->|Hsk]; cbn [andb].
          + replace (k <? length mat)%nat with true by (symmetry; apply Nat.ltb_lt; lia).
            rewrite nth_upd.
            replace (i <? length rk)%nat with true by (symmetry; apply Nat.ltb_lt; lia).
            rewrite Bool.andb_true_r. destruct (Nat.eqb_spec q' i); auto. unfold zent. now rewrite (Erk []).
          + destruct (Nat.ltb_spec k s'); try lia. destruct (Nat.eqb_spec q' i) as [->|]; auto.
        - destruct (Nat.eqb_spec s' k); try lia. destruct (Nat.ltb_spec k s'); try lia.
          specialize (Nrest (s' - S k)%nat ltac:(lia)). rewrite nth_skipn in Nrest.
          replace (S k + (s' - S k))%nat with s' in Nrest by lia.
          unfold img_row_i in Nrest. bind_inv Nrest as x Ex. bind_inv Nrest as y Ey. bind_inv Nrest as z Ez.
          injection Nrest as Nrest.
          apply nth_chk_inv in Ex as [_ Ex]. apply nth_chk_inv in Ey as [Hy Ey]. apply zrem_inv in Ez as [_ ->].
          assert (Es : nth s' mat1 [] = nth s' mat []) by (unfold mat1; apply nth_upd_neq; lia).
          rewrite Es in *. rewrite <- Nrest, nth_upd.
          replace (i <? length (nth s' mat []))%nat with true by (symmetry; apply Nat.ltb_lt; lia).
          rewrite Bool.andb_true_r. destruct (Nat.eqb_spec q' i); auto.
          unfold zent. now rewrite (Ex 0), (Ey 0), (Erk []), (Edd 0). }
      rewrite !M1 by lia.
      assert (Hji : Nat.eqb j i = false) by (apply Nat.eqb_neq; lia). rewrite Hji.
      destruct (Nat.eqb_spec q j) as [->|Hq]; cbn [negb]; rewrite ?Bool.andb_false_r; cbn [andb].
      { now rewrite Hji. }
      rewrite !Bool.andb_true_r.
      destruct (Nat.eqb_spec q i) as [->|Hqi].
      { destruct (Nat.leb_spec (S i) i), (Nat.leb_spec i i), (Nat.ltb_spec i (i + S c)); cbn [andb]; try lia; auto. }
      destruct (Nat.leb_spec (S i) q), (Nat.leb_spec i q), (Nat.ltb_spec q (S i + c)), (Nat.ltb_spec q (i + S c));
        cbn [andb]; auto; try lia.
Qed.

(** one iteration of [for k in 0..n] (subspace.rs:50-79) *)
Lemma img_loop_step cn k m p mat c r res :
  img_loop (S cn) k m p mat c r = Done res ->
  (k < length mat)%nat /\
  (((forall q, (q < m)%nat -> zent mat k q = 0 \/ nth q c O <> O) /\
    img_loop cn (S k) m p mat c (S r) = Done res)
   \/ exists j iv mat',
        (j < m)%nat /\ (j < length c)%nat /\ zent mat k j <> 0 /\ nth j c O = O /\
        (forall q, (q < j)%nat -> zent mat k q = 0 \/ nth q c O <> O) /\
        modinv (zent mat k j) p = Done iv /\
        length mat' = length mat /\
        img_loop cn (S k) m p mat' (upd c j (S k)) r = Done res /\
        forall s q, (k < s < length mat)%nat -> (q < m)%nat ->
          zent mat' s q =
            if Nat.eqb q j then Z.rem (zent mat s j * (p - iv)) p
            else Z.rem (Z.rem (zent mat s j * (p - iv)) p * zent mat k q + zent mat s q) p).
Proof.
  intros H. cbn [img_loop] in H. bind_inv H as rk Erk. bind_inv H as o Eo.
  apply nth_chk_inv in Erk as [Hk Erk]. split; auto.
  apply img_find_inv in Eo. destruct o as [j|].
  2:{ left. destruct Eo as (_ & _ & Zs). split; auto. intros q Hq. unfold zent. rewrite (Erk []). auto. }
  right. destruct Eo as (B & L1 & L2 & NZ & CZ & Zs). rewrite Nat.sub_0_r in *.
  bind_inv H as x Ex. bind_inv H as iv Eiv. bind_inv H as rest Erest. bind_inv H as mat3 E3.
  apply nth_chk_inv in Ex as [_ Ex].
  assert (Xv : x = zent mat k j) by (unfold zent; now rewrite (Erk []), (Ex 0)).
  set (dd := p - iv) in *.
  set (mat1 := upd mat k (upd rk j (p - 1))) in *.
  apply zent_mapM in Erest as [Lrest Nrest]. rewrite skipn_length in Lrest, Nrest.
  assert (Lm1 : length mat1 = length mat) by (unfold mat1; now rewrite upd_length).
  apply img_cols_inv in E3 as [L3 N3].
  assert (L2' : length (firstn (S k) mat1 ++ rest) = length mat).
  { rewrite app_length, firstn_length. lia. }
  rewrite L2' in *.
  exists j, iv, mat3. rewrite <- Xv. repeat split; try lia; auto.
  - now rewrite (Ex 0) in NZ.
  - intros q Hq. unfold zent. rewrite (Erk []). auto.
  - intros s q Hs Hq. rewrite N3 by lia.
    assert (M2 : forall q', zent (firstn (S k) mat1 ++ rest) s q' =
                   if Nat.eqb q' j then Z.rem (zent mat s j * dd) p else zent mat s q').
    { intros q'. unfold zent at 1. rewrite nth_firstn_app by lia.
      destruct (Nat.ltb_spec s (S k)); try lia.
      specialize (Nrest (s - S k)%nat ltac:(lia)). rewrite nth_skipn in Nrest.
      replace (S k + (s - S k))%nat with s in Nrest by lia.
      bind_inv Nrest as y Ey. bind_inv Nrest as z Ez. injection Nrest as Nrest.
      apply nth_chk_inv in Ey as [Hy Ey]. apply zrem_inv in Ez as [_ ->].
      assert (Es : nth s mat1 [] = nth s mat []) by (unfold mat1; apply nth_upd_neq; lia).
      rewrite Es in *. rewrite <- Nrest, nth_upd.
      replace (j <? length (nth s mat []))%nat with true by (symmetry; apply Nat.ltb_lt; lia).
      rewrite Bool.andb_true_r. destruct (Nat.eqb_spec q' j); auto. unfold zent. now rewrite (Ey 0). }
    assert (Mk : forall q', q' <> j -> zent (firstn (S k) mat1 ++ rest) k q' = zent mat k q').
    { intros q' Hq'. unfold zent at 1. rewrite nth_firstn_app by lia.
      destruct (Nat.ltb_spec k (S k)); try lia. unfold mat1. rewrite nth_upd_eq by lia.
      rewrite nth_upd_neq by auto. unfold zent. now rewrite (Erk []). }
    destruct (Nat.leb_spec 0 q), (Nat.ltb_spec q (0 + m)); try lia. cbn [andb].
    destruct (Nat.eqb_spec q j) as [->|Hqj]; cbn [negb andb].
    + rewrite M2. now rewrite Nat.eqb_refl.
    + destruct (Nat.eqb_spec s k); try lia. destruct (Nat.ltb_spec k s); try lia.
      rewrite !M2, Mk by auto. rewrite Nat.eqb_refl.
      destruct (Nat.eqb_spec q j); try lia. auto.
Qed.

(** output phase *)
Lemma img_out_inv matcp : forall c out,
  img_out c matcp = Done out ->
  out = map (fun ci => nth (ci - 1) matcp []) (filter (fun ci => negb (Nat.eqb ci 0)) c) /\
  Forall (fun ci => (ci <= length matcp)%nat) c.
Proof.
  induction c as [|ci c IH]; intros out H; cbn [img_out] in H.
  - injection H as <-. split; auto.
  - destruct ci as [|i].
    + apply IH in H as [-> F]. split; auto. constructor; auto. lia.
    + bind_inv H as row Er. bind_inv H as t Et. injection H as <-.
      destruct (IH t eq_refl) as [-> F]. apply nth_chk_inv in Er as [Hi Er]. cbn [filter Nat.eqb negb map].
      replace (S i - 1)%nat with i by lia. rewrite (Er []). split; auto.
Qed.
