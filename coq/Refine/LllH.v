(** C20: H is unimodular, for every arithmetic record (stdlib + lia + ring on Z). *)
From RNT.Model Require Import Base Lll.
From RNT.Refine Require Import LllTrace LllMat.
From Coq Require Import Lia Relations ZArithRing.

(** Integer matrices: product, row operations (instances of LllMat at the ring Z). *)
Definition zmmul (n : nat) (A B : list (list Z)) : list (list Z) := mmul Z 0 Z.add Z.mul n A B.
Definition zrop := rop Z.
Definition zrop_ok (n : nat) (o : zrop) : Prop := rop_ok Z n o.
Definition zapply_rops (ops : list zrop) (A : list (list Z)) : list (list Z) := apply_rops Z Z.add Z.mul ops A.

(** [H] is obtained from the identity by exchanging adjacent rows and adding integer multiples of
    one row to a different row. *)
Definition elem_reachable (n : nat) (H : list (list Z)) : Prop :=
  exists ops : list zrop, Forall (zrop_ok n) ops /\ H = zapply_rops ops (identity n).

Definition zwf (n : nat) (A : list (list Z)) : Prop := wf Z n n A.

Lemma identity_identR n : identity n = identR Z 0 1 n.
Proof. reflexivity. Qed.

Lemma red_h_row_add n h k l q : zwf n h -> (k < n)%nat -> (l < n)%nat ->
  red_h n h k l q = row_add Z Z.add Z.mul h k l (- q).
Proof.
  intros W Hk Hl. unfold red_h, row_add. f_equal.
  rewrite pre_upd_full by (apply (wf_nth Z n n h); assumption).
  unfold axpy. apply zipw_ext. intros x y. ring.
Qed.

Section Reach.
Context {T : Type} (F : arith T).

Lemma lsteps_reachable n B st :
  lsteps F n (B, identity n) st -> zwf n (snd st) /\ elem_reachable n (snd st).
Proof.
  intros S. unfold lsteps in S.
  refine (clos_refl_trans_ind_left _ (lstep F n) (B, identity n)
            (fun st => zwf n (snd st) /\ elem_reachable n (snd st)) _ _ st S).
  - cbn [snd]. split; [rewrite identity_identR; apply wf_identR|].
    exists []. split; [constructor|reflexivity].
  - intros y z _ [W [ops [Hok Hy]]] St.
    inversion St as [basis h k l q Hl Hk _ _ E1 E2|basis h k Hk E1 E2]; subst; cbn [snd] in *.
    + assert (Hok1 : zrop_ok n (RAdd Z k l (- q))) by (cbn; lia).
      rewrite red_h_row_add by (try assumption; lia).
      split; [exact (wf_apply_rop Z Z.add Z.mul n n (RAdd Z k l (- q)) _ Hok1 W)|].
      exists (ops ++ [RAdd Z k l (- q)]). split; [apply Forall_app; split; [exact Hok|constructor; [exact Hok1|constructor]]|].
      unfold zapply_rops in *. rewrite apply_rops_app. rewrite <- Hy. reflexivity.
    + assert (Hok1 : zrop_ok n (RSwap Z k)) by (cbn; lia).
      split; [exact (wf_apply_rop Z Z.add Z.mul n n (RSwap Z k) _ Hok1 W)|].
      exists (ops ++ [RSwap Z k]). split; [apply Forall_app; split; [exact Hok|constructor; [exact Hok1|constructor]]|].
      unfold zapply_rops in *. rewrite apply_rops_app. rewrite <- Hy. reflexivity.
Qed.
End Reach.

Lemma elem_reachable_inverse n H : elem_reachable n H ->
  exists H', zwf n H /\ zwf n H' /\ zmmul n H' H = identity n /\ zmmul n H H' = identity n.
Proof.
  intros [ops [Hok ->]].
  exists (zapply_rops (rops_inv Z Z.opp ops) (identity n)).
  rewrite identity_identR.
  exact (rops_inverse Z 0 1 Z.add Z.mul Z.sub Z.opp Zth n ops Hok).
Qed.

Theorem lll_H_unimodular : forall (T : Type) (F : arith T) (fuel : nat) (B B' : list (list T)) (H : list (list Z)),
  lll F fuel B = Done (B', H) ->
  let n := length B in
  elem_reachable n H /\
  exists H', zwf n H /\ zwf n H' /\ zmmul n H' H = identity n /\ zmmul n H H' = identity n.
Proof.
  intros T F fuel B B' H R n.
  apply lll_trace in R. destruct R as (_ & _ & S).
  apply lsteps_reachable in S. cbn [snd] in S. destruct S as [_ Re].
  split; [exact Re|]. apply elem_reachable_inverse. exact Re.
Qed.
