(** * LinAlgQc: the theorems of LinAlgMx.v for the model instantiated at BigRational ([fopsQc]). Style: ssreflect. *)
From mathcomp Require Import all_ssreflect ssralg zmodp matrix mxalgebra.
From mathcomp Require Import zify.
From Coq Require Import QArith Qcanon.
From RNT.Model Require Import Base Poly LinAlg.
From RNT.Refine Require Import QcField LinAlgList LinAlgStep LinAlgTotal LinAlgMx LinAlgMxIim LinAlgMxSupp.

Set Implicit Arguments.
Unset Strict Implicit.
Unset Printing Implicit Defensive.
Import GRing.Theory.
Local Close Scope Z_scope.
Local Close Scope Q_scope.
Local Open Scope ring_scope.

Definition Qc_ofz (z : Z) : Qc := Q2Qc (inject_Z z).

(** integer literals as BigRationals, for the examples *)
Definition qz (z : Z) : Qc := Q2Qc (inject_Z z).
Definition qzm (a : list (list Z)) : list (list Qc) := List.map (List.map qz) a.

(** the model's BigRational operations are the field operations of [Qc_fieldType] *)
Lemma fopsQcE : fopsQc = @fops_of Qc_fieldType Qc_ofz.
Proof. by []. Qed.

(** a list of rows read as an [n x m] matrix (entries outside the stored shape read as 0) *)
Definition qmx (n m : nat) (a : list (list Qc)) : 'M[Qc_fieldType]_(n, m) :=
  \matrix_(i, j) List.nth j (List.nth i a [::]) (Q2Qc 0).

Lemma qmxE n m a : qmx n m a = mx_of Qc_ofz n m a.
Proof. by apply/matrixP => i j; rewrite !mxE. Qed.

Theorem inv_ok (a b : list (list Qc)) :
  inv fopsQc a = Done (Ok b) ->
  let n := length a in qmx n n b *m qmx n n a = 1%:M /\ qmx n n a *m qmx n n b = 1%:M.
Proof.
rewrite fopsQcE => /inv_spec_gen /=; rewrite -!qmxE => H.
by split=> //; apply: mulmx1C.
Qed.

Theorem inv_err (a : list (list Qc)) e :
  inv fopsQc a = Done (Err e) -> let n := length a in \det (qmx n n a) = 0.
Proof. by rewrite fopsQcE => /inv_spec_gen /=; rewrite -!qmxE. Qed.

Theorem determinant_ok (a : list (list Qc)) d :
  determinant fopsQc a = Done d -> let n := length a in d = \det (qmx n n a).
Proof. by rewrite fopsQcE => /determinant_spec_gen /=; rewrite -!qmxE. Qed.

(** a list read as a row vector *)
Definition qrv (n : nat) (b : list Qc) : 'rV[Qc_fieldType]_n := \row_j List.nth j b (Q2Qc 0).

Lemma qrvE n b : qrv n b = rv_of Qc_ofz n b.
Proof. by apply/matrixP => i j; rewrite !mxE. Qed.

Theorem solve_ok (a : list (list Qc)) (b x : list Qc) :
  solve_linear_system fopsQc a b = Done (Ok x) ->
  let n := length a in qrv n x *m qmx n n a = qrv n b.
Proof. by rewrite fopsQcE => /solve_spec_gen /=; rewrite -!qmxE -!qrvE. Qed.

Theorem solve_err (a : list (list Qc)) (b : list Qc) e :
  solve_linear_system fopsQc a b = Done (Err e) -> let n := length a in \det (qmx n n a) = 0.
Proof. by rewrite fopsQcE => /solve_spec_gen /=; rewrite -!qmxE. Qed.

(** ** the routines return, and return [Err], exactly as the determinant says (square input) *)

(** every row has as many entries as there are rows *)
Definition square (a : list (list Qc)) : Prop := List.Forall (fun r => length r = length a) a.

Theorem determinant_total (a : list (list Qc)) :
  square a -> exists d, determinant fopsQc a = Done d.
Proof. exact: LinAlgTotal.determinant_total. Qed.

Lemma ok_det_neq0 n (A B : 'M[Qc_fieldType]_n) : B *m A = 1%:M -> \det A != 0.
Proof.
move=> /(congr1 (@matrix.determinant _ n)); rewrite det_mulmx det1 => H.
by apply/eqP => H0; move/eqP: H; rewrite H0 mulr0 eq_sym oner_eq0.
Qed.

Theorem inv_complete (a : list (list Qc)) :
  square a -> let n := length a in \det (qmx n n a) != 0 -> exists b, inv fopsQc a = Done (Ok b).
Proof.
move=> /(LinAlgTotal.inv_total fopsQc) [[b|e] H] /=; first by exists b.
by rewrite (inv_err H) eqxx.
Qed.

Theorem inv_singular (a : list (list Qc)) :
  square a -> let n := length a in \det (qmx n n a) = 0 -> inv fopsQc a = Done (Err MatrixNotInvertible).
Proof.
move=> /(LinAlgTotal.inv_total fopsQc) [[b|[]] H] //= D0.
by case: (inv_ok H) => /ok_det_neq0; rewrite D0 eqxx.
Qed.

Theorem solve_complete (a : list (list Qc)) (b : list Qc) :
  square a -> length b = length a -> let n := length a in \det (qmx n n a) != 0 ->
  exists x, solve_linear_system fopsQc a b = Done (Ok x).
Proof.
move=> Sq Lb; case: (LinAlgTotal.solve_total fopsQc _ _ Sq Lb) => [[x|e] H] /=; first by exists x.
by rewrite (solve_err H) eqxx.
Qed.

Theorem solve_singular (a : list (list Qc)) (b : list Qc) :
  square a -> length b = length a -> let n := length a in \det (qmx n n a) = 0 ->
  solve_linear_system fopsQc a b = Done (Err MatrixNotInvertible).
Proof.
move=> Sq Lb; case: (LinAlgTotal.solve_total fopsQc _ _ Sq Lb) => [[x|[]] H] //= D0.
by move: H; rewrite fopsQcE => /solve_ok_det; rewrite -qmxE D0 eqxx.
Qed.

(** ** triangular::mul_inv_from_right_exact *)
From mathcomp Require Import ssrZ.

Lemma q_of_Z_is_rmorphism : rmorphism (q_of_Z : Z -> Qc).
Proof.
split=> [x y|]; last split=> [x y|].
- change (Q2Qc (inject_Z (x + - y)%Z) = Q2Qc (Qred (inject_Z x) + Qred (- Qred (inject_Z y)))%Q).
  apply/Q2Qc_eq_iff; rewrite !Qred_correct inject_Z_plus inject_Z_opp; exact: Qeq_refl.
- change (Q2Qc (inject_Z (x * y)%Z) = Q2Qc (Qred (inject_Z x) * Qred (inject_Z y))%Q).
  apply/Q2Qc_eq_iff; rewrite !Qred_correct inject_Z_mult; exact: Qeq_refl.
- by apply: Qc_is_canon.
Qed.

Lemma q_of_Z_is_additive : additive (q_of_Z : Z -> Qc).
Proof. by case: q_of_Z_is_rmorphism. Qed.
Canonical q_of_Z_additive := Additive q_of_Z_is_additive.
Canonical q_of_Z_rmorphism := RMorphism q_of_Z_is_rmorphism.

Lemma q_of_Z_inj : injective q_of_Z.
Proof. by move=> x y /Q2Qc_eq_iff /inject_Z_injective. Qed.

(** an integer matrix read as an [n x m] matrix over [Z] *)
Definition zmx (n m : nat) (a : list (list Z)) : 'M[Z]_(n, m) :=
  \matrix_(i, j) List.nth j (List.nth i a [::]) 0%Z.

Lemma q_integer (s : Qc) : q_is_integer s -> q_of_Z (q_to_integer s) = s.
Proof.
rewrite /q_is_integer /q_to_integer => /Pos.eqb_eq E; rewrite E Z.quot_1_r.
apply: Qc_is_canon; rewrite /q_of_Z /= -/(Qred (inject_Z _)) Qred_correct /inject_Z.
by case: s E => [[a d] c] /= ->; exact: Qeq_refl.
Qed.

Lemma mi_dot_inv j : forall (invb : list (list Qc)) (ai : list Z) (s0 s : Qc),
  mi_dot invb ai j s0 = Done s ->
  s = s0 + \sum_(k < length invb)
             (List.nth j (List.nth k invb [::]) (Q2Qc 0) : Qc) * q_of_Z (List.nth k ai 0%Z).
Proof.
elim=> [|row rest IH] ai s0 s /=; first by case=> <-; rewrite big_ord0 addr0.
case: ai => [|x ai] //= H; bind_inv H as y Ey.
move/IH: H => ->; rewrite big_ord_recl /= -addrA; congr (_ + (_ * _ + _)).
by case: (nth_chk_inv _ _ _ Ey) => _ /(_ (Q2Qc 0)).
Qed.

Lemma seq_nth0 n k : (k < n)%coq_nat -> List.nth k (List.seq 0 n) 0%nat = k.
Proof. by move=> H; rewrite List.seq_nth. Qed.

Theorem mul_inv_ok (a b c : list (list Z)) :
  mul_inv_from_right_exact a b = Done (Ok c) ->
  let n := length a in zmx n n c *m zmx n n b = zmx n n a.
Proof.
rewrite /mul_inv_from_right_exact => H.
bind_inv H as brat Eb. bind_inv H as r Er.
case: r Er H => [invb|e] Er H //. bind_inv H as ans Ea. case: H => <-.
set n := length a => /=.
case: (mapM_inv _ _ _ Eb) => Lb Nb; rewrite List.seq_length in Lb Nb.
have Hb (i j : 'I_n) : List.nth j (List.nth i brat [::]) (Q2Qc 0) = q_of_Z (List.nth j (List.nth i b [::]) 0%Z).
  have /ltP Hi := ltn_ord i; have /ltP Hj := ltn_ord j.
  have := Nb i 0%nat [::] Hi; rewrite seq_nth0 // => Hrow.
  bind_inv Hrow as bi Ebi.
  case: (mapM_inv _ _ _ Hrow) => _; rewrite List.seq_length => /(_ j 0%nat (Q2Qc 0) Hj).
  rewrite seq_nth0 // => Hx; bind_inv Hx as x Ex; case: Hx => <-.
  by case: (nth_chk_inv _ _ _ Ebi) => _ /(_ [::]) ->; case: (nth_chk_inv _ _ _ Ex) => _ /(_ 0%Z) ->.
have Li : length invb = n by rewrite (inv_length _ _ _ Er).
case: (mapM_inv _ _ _ Ea) => La Na.
have Hc (i j : 'I_n) : q_of_Z (List.nth j (List.nth i ans [::]) 0%Z) =
    \sum_(k < n) q_of_Z (List.nth k (List.nth i a [::]) 0%Z) * (List.nth j (List.nth k invb [::]) (Q2Qc 0) : Qc).
  have /ltP Hi := ltn_ord i; have /ltP Hj := ltn_ord j.
  have Hrow := Na i [::] [::] Hi.
  case: (mapM_inv _ _ _ Hrow) => _; rewrite List.seq_length => /(_ j 0%nat 0%Z Hj).
  rewrite seq_nth0 // => Hx; bind_inv Hx as s Es. bind_inv Hx as u Eu. case: Hx => <-.
  move: Eu; rewrite /assert_; case E: (q_is_integer s) => // _.
  rewrite q_integer // (mi_dot_inv Es) add0r Li.
  by apply: eq_bigr => k _; rewrite mulrC.
have [I1 _] := inv_ok Er; move: I1; rewrite /= Lb => I1.
apply/matrixP => i j; apply: q_of_Z_inj.
have -> : q_of_Z ((zmx n n ans *m zmx n n b) i j) = (map_mx q_of_Z (zmx n n ans *m zmx n n b)) i j by rewrite [RHS]mxE.
have -> : q_of_Z (zmx n n a i j) = (map_mx q_of_Z (zmx n n a)) i j by rewrite [RHS]mxE.
rewrite map_mxM.
have -> : map_mx q_of_Z (zmx n n ans) = map_mx q_of_Z (zmx n n a) *m qmx n n invb.
  apply/matrixP => r k; rewrite !mxE Hc; apply: eq_bigr => l _; by rewrite !mxE.
have -> : map_mx q_of_Z (zmx n n b) = qmx n n brat.
  by apply/matrixP => r k; rewrite !mxE Hb.
by rewrite -mulmxA I1 mulmx1.
Qed.

Lemma brat_mx (b : list (list Z)) n brat :
  mapM (fun i => bind (nth_chk b i)
                   (fun bi => mapM (fun j => bind (nth_chk bi j) (fun x => Done (q_of_Z x))) (List.seq 0 n)))
       (List.seq 0 n) = Done brat ->
  length brat = n /\ qmx n n brat = map_mx q_of_Z (zmx n n b).
Proof.
move=> Eb; case: (mapM_inv _ _ _ Eb) => Lb Nb; rewrite List.seq_length in Lb Nb; split=> //.
apply/matrixP => i j; rewrite !mxE.
have /ltP Hi := ltn_ord i; have /ltP Hj := ltn_ord j.
have := Nb i 0%nat [::] Hi; rewrite seq_nth0 // => Hrow.
bind_inv Hrow as bi Ebi.
case: (mapM_inv _ _ _ Hrow) => _; rewrite List.seq_length => /(_ j 0%nat (Q2Qc 0) Hj).
rewrite seq_nth0 // => Hx; bind_inv Hx as x Ex; case: Hx => <-.
by case: (nth_chk_inv _ _ _ Ebi) => _ /(_ [::]) ->; case: (nth_chk_inv _ _ _ Ex) => _ /(_ 0%Z) ->.
Qed.

Theorem mul_inv_err (a b : list (list Z)) e :
  mul_inv_from_right_exact a b = Done (Err e) ->
  let n := length a in \det (zmx n n b) = 0.
Proof.
rewrite /mul_inv_from_right_exact => H.
bind_inv H as brat Eb. bind_inv H as r Er.
case: r Er H => [invb|e'] Er H; first by bind_inv H as ans Ea.
case: (brat_mx Eb) => Lb Hb /=.
have := inv_err Er; rewrite /= Lb Hb det_map_mx => /eqP.
by rewrite -(rmorph0 q_of_Z_rmorphism) (eqtype.inj_eq q_of_Z_inj) => /eqP.
Qed.

(** ** subspace::iim *)
Theorem iim_correct (mmat vmat : list (list Qc)) res :
  iim fopsQc mmat vmat = Done res ->
  let n := length mmat in let m := length (List.nth 0 mmat [::]) in let r := length vmat in
  let M := qmx n m mmat in let V := qmx r m vmat in
  match res with
  | Ok x => row_free M /\ qmx r n x *m M = V
  | Err LinearlyDependent => ~~ row_free M
  | Err NotInImage => row_free M /\ forall X : 'M_(r, n), X *m M <> V
  end.
Proof. by rewrite fopsQcE => /iim_spec_gen /=; rewrite -!qmxE. Qed.

(** ** subspace::supplement_basis *)
Theorem supplement_correct (mmat : list (list Qc)) res :
  supplement_basis fopsQc mmat = Done res ->
  let k := length mmat in let n := length (List.nth 0 mmat [::]) in
  match res with
  | Ok B => [/\ length B = n, List.firstn k B = mmat, \det (qmx n n B) != 0 & row_free (qmx k n mmat)]
  | Err _ => ~~ row_free (qmx k n mmat)
  end.
Proof. by rewrite fopsQcE => /supplement_spec_gen /=; rewrite -!qmxE. Qed.

(** ** iim and supplement_basis return, and choose their answer, exactly as the mathematics says
    (rectangular input with at least one row) *)

(** every row has [m] entries *)
Definition rect (m : nat) (a : list (list Qc)) : Prop := List.Forall (fun r => length r = m) a.

Theorem iim_returns (mmat vmat : list (list Qc)) :
  let m := length (List.nth 0 mmat [::]) in
  (0 < length mmat)%coq_nat -> (0 < length vmat)%coq_nat -> rect m mmat -> rect m vmat ->
  exists res, iim fopsQc mmat vmat = Done res.
Proof. exact: LinAlgTotal.iim_total. Qed.

Theorem iim_complete (mmat vmat : list (list Qc)) :
  let n := length mmat in let m := length (List.nth 0 mmat [::]) in let r := length vmat in
  (0 < n)%coq_nat -> (0 < r)%coq_nat -> rect m mmat -> rect m vmat ->
  let M := qmx n m mmat in let V := qmx r m vmat in
  [/\ row_free M -> (exists X : 'M_(r, n), X *m M = V) -> exists x, iim fopsQc mmat vmat = Done (Ok x),
      ~~ row_free M -> iim fopsQc mmat vmat = Done (Err LinearlyDependent)
    & row_free M -> (forall X : 'M_(r, n), X *m M <> V) -> iim fopsQc mmat vmat = Done (Err NotInImage)].
Proof.
move=> n m r Hn Hr Hm Hv M V.
case: (iim_returns Hn Hr Hm Hv) => res H; have := iim_correct H; rewrite -/n -/m -/r -/M -/V.
case: res H => [x|[]] H /=.
- move=> [Hf HX]; split=> //; first by exists x.
    by rewrite Hf.
  by move=> _ /(_ (qmx r n x)).
- move=> Hf; split=> //; first by rewrite (negbTE Hf).
  by rewrite (negbTE Hf).
- move=> [Hf HX]; split=> //; last by rewrite Hf.
  by move=> _ [X /HX].
Qed.

Theorem supplement_returns (mmat : list (list Qc)) :
  (0 < length mmat)%coq_nat -> rect (length (List.nth 0 mmat [::])) mmat ->
  exists res, supplement_basis fopsQc mmat = Done res.
Proof. exact: LinAlgTotal.supplement_total. Qed.

Theorem supplement_complete (mmat : list (list Qc)) :
  let k := length mmat in let n := length (List.nth 0 mmat [::]) in
  (0 < k)%coq_nat -> rect n mmat ->
  (row_free (qmx k n mmat) -> exists B, supplement_basis fopsQc mmat = Done (Ok B)) /\
  (~~ row_free (qmx k n mmat) -> supplement_basis fopsQc mmat = Done (Err InsufficientRank)).
Proof.
move=> k n Hk Hm; case: (supplement_returns Hk Hm) => res H; have := supplement_correct H; rewrite -/k -/n.
case: res H => [B|[]] H /=.
- by move=> [_ _ _ Hf]; split; [exists B|rewrite Hf].
- by move=> Hf; split=> //; rewrite (negbTE Hf).
Qed.

(** ** mul_inv_from_right_exact returns [Ok] whenever an integer quotient exists *)
Lemma q_is_integer_of_Z z : q_is_integer (q_of_Z z).
Proof.
rewrite /q_is_integer /q_of_Z /= -/(Qred (inject_Z z)) Qred_identity //=.
by rewrite Z.gcd_1_r.
Qed.

Definition zrect (m : nat) (a : list (list Z)) : Prop := List.Forall (fun r => length r = m) a.

Lemma mi_dot_total j : forall (invb : list (list Qc)) (ai : list Z) s0,
  (length invb <= length ai)%coq_nat -> List.Forall (fun r => (j < length r)%coq_nat) invb ->
  exists s, mi_dot invb ai j s0 = Done s.
Proof.
elim=> [|row rest IH] ai s0 /=; first by exists s0.
case: ai => [|x ai] /= Hl Hr; first by lia.
have Hrow := List.Forall_inv Hr; have Hrest := List.Forall_inv_tail Hr.
rewrite (nth_chk_lt row j (Q2Qc 0)) //=; apply: IH => //; lia.
Qed.

Theorem mul_inv_complete (a b : list (list Z)) :
  let n := length a in
  zrect n a -> zrect n b -> length b = n ->
  (\det (zmx n n b) = 0 -> mul_inv_from_right_exact a b = Done (Err MatrixNotInvertible)) /\
  (\det (zmx n n b) != 0 -> (exists C : 'M[Z]_n, C *m zmx n n b = zmx n n a) ->
   exists c, mul_inv_from_right_exact a b = Done (Ok c)).
Proof.
move=> n Ha Hb Lb; rewrite /mul_inv_from_right_exact -/n.
(* brat *)
have [brat Eb] : exists brat,
    mapM (fun i => bind (nth_chk b i)
                     (fun bi => mapM (fun j => bind (nth_chk bi j) (fun x => Done (q_of_Z x))) (List.seq 0 n)))
         (List.seq 0 n) = Done brat.
  apply: mapM_total => i /List.in_seq [_ Hi]; rewrite /= in Hi.
  rewrite (nth_chk_lt b i [::]) ?Lb //=.
  apply: mapM_total => j /List.in_seq [_ Hj]; rewrite /= in Hj.
  have Li : length (List.nth i b [::]) = n.
    by move/List.Forall_forall: Hb; apply; apply: List.nth_In; rewrite Lb.
  by rewrite (nth_chk_lt _ j 0%Z) ?Li //=; eexists.
rewrite Eb /=.
case: (brat_mx Eb) => Lbr Hbr.
have Sq : square brat.
  rewrite /square Lbr; apply/List.Forall_forall => row /(List.In_nth _ _ [::]) [i [Hi <-]].
  case: (mapM_inv _ _ _ Eb) => _; rewrite List.seq_length => /(_ i 0%nat [::]); rewrite -Lbr => /(_ Hi).
  rewrite seq_nth0 -?Lbr // => Hrow; bind_inv Hrow as bi Ebi.
  by case: (mapM_inv _ _ _ Hrow); rewrite List.seq_length.
have detE : \det (qmx n n brat) = q_of_Z (\det (zmx n n b)) by rewrite Hbr det_map_mx.
split=> [D0|Dn0 [C HC]].
  by rewrite (inv_singular Sq) //= Lbr detE D0 (rmorph0 q_of_Z_rmorphism).
have Dn0' : \det (qmx n n brat) != 0.
  by rewrite detE -(rmorph0 q_of_Z_rmorphism) (eqtype.inj_eq q_of_Z_inj).
case: (LinAlgTotal.inv_total_rows fopsQc brat Sq) => [[invb|e] [Einv Hinv]]; last first.
  by move: Dn0'; rewrite -Lbr (inv_err Einv) eqxx.
case: Hinv; rewrite Lbr => Li Hiv; rewrite Einv /=.
have [I1 I2] := inv_ok Einv; move: I1 I2; rewrite /= Lbr => I1 I2.
suff [ans ->] : exists ans, mapM (fun ai => mapM (fun j => bind (mi_dot invb ai j (Q2Qc 0))
                        (fun s => bind (assert_ (q_is_integer s)) (fun _ => Done (q_to_integer s))))
                        (List.seq 0 n)) a = Done ans by eexists.
apply: mapM_total => ai /(List.In_nth _ _ [::]) [i [Hi Eai]].
apply: mapM_total => j /List.in_seq [_ Hj]; rewrite /= in Hj.
have Lai : length ai = n.
  by rewrite -Eai; move/List.Forall_forall: Ha; apply; apply: List.nth_In.
have [s Es] : exists s, mi_dot invb ai j (Q2Qc 0) = Done s.
  apply: mi_dot_total; first by rewrite Li Lai.
  by apply/List.Forall_forall => row Hrow; move/List.Forall_forall: Hiv => /(_ row Hrow) ->.
rewrite Es /=; suff -> : q_is_integer s by eexists.
have /ltP Hi' : (i < n)%coq_nat by [].
have /ltP Hj' : (j < n)%coq_nat by [].
pose oi := Ordinal Hi'; pose oj := Ordinal Hj'.
suff -> : s = q_of_Z (C oi oj) by exact: q_is_integer_of_Z.
rewrite (mi_dot_inv Es) add0r Li.
have -> : q_of_Z (C oi oj) = (map_mx q_of_Z C) oi oj by rewrite mxE.
have -> : map_mx q_of_Z C = map_mx q_of_Z (zmx n n a) *m qmx n n invb.
  by rewrite -HC map_mxM -Hbr -mulmxA I2 mulmx1.
rewrite mxE; apply: eq_bigr => l _; rewrite !mxE /= Eai mulrC.
by [].
Qed.
