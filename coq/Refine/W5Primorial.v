(** * W5Primorial: a LOWER bound for the product of the primes up to 2n, and its consequence: a positive
    integer below 2^(2n) / (2n)^(sqrt(2n)+2) is not divisible by all the primes up to 2n.

    From the Bertrand development: 4^n <= 2n C(2n,n) ([BertrandBin.central_bin_lower]), and in C(2n,n) a prime
    p <= s contributes at most 2n ([BertrandVal.central_pow_le]), a prime p > s >= sqrt(2n) at most p
    ([central_logn_le1]), a prime p > 2n nothing ([central_logn_big]):
       C(2n, n) <= (2n)^(s+1) * prod_{p <= 2n} p.
    MathComp style, everything over [nat]; all numbers stay symbolic. *)
From mathcomp Require Import all_ssreflect.
From mathcomp Require Import zify.
From RNT.Refine Require Import BertrandBin BertrandVal.
Set Implicit Arguments.
Unset Strict Implicit.
Unset Printing Implicit Defensive.

Lemma central_upper_primorial n s : 0 < n -> n.*2 < s.+1 ^ 2 ->
  'C(n.*2, n) <= (n.*2) ^ s.+1 * primorial n.*2.
Proof.
move=> n0 lts.
set N := 'C(n.*2, n).
have N0 : 0 < N by rewrite bin_gt0 -addnn leq_addr.
pose M := N + s + n.*2.
have EN : N = \prod_(0 <= p < M.+1) p ^ logn p N.
  by rewrite -{1}(partnT N0) (@widen_partn M) // /M; lia.
rewrite {1}EN (bigID (fun p => p <= s)) /=; apply: leq_mul.
- have -> : n.*2 ^ s.+1 = \prod_(0 <= p < M.+1 | p <= s) n.*2.
    rewrite -[s.+1]subn0 -prod_nat_const_nat (@big_nat_widen _ _ _ 0 s.+1 M.+1) /=; last by rewrite /M; lia.
    by apply: eq_bigl => p; rewrite ltnS.
  by apply: leq_prod => p _; exact: central_pow_le.
- have -> : primorial n.*2 = \prod_(0 <= p < M.+1 | prime p && (p < n.*2.+1)) p.
    by rewrite /primorial (@big_nat_widen _ _ _ 0 n.*2.+1 M.+1) // /M; lia.
  rewrite big_mkcond [X in _ <= X]big_mkcond /=; apply: leq_prod => p _.
  have [les|lts'] := leqP p s; first by case: ifP => // /andP[/prime_gt0].
  rewrite /=.
  case pP: (prime p); last by rewrite lognE pP.
  have p2 : n.*2 < p ^ 2 by apply: leq_trans lts _; rewrite leq_exp2r.
  have le1 := central_logn_le1 n0 p2; rewrite -/N in le1.
  have [leK|ltK] /= := ltnP p n.*2.+1.
    by rewrite -[X in _ <= X]expn1 leq_exp2l // prime_gt1.
  by rewrite /N (central_logn_big n0 ltK).
Qed.

(** the primorial lower bound: 4^n <= (2n)^(s+2) * prod_{p <= 2n} p for any s with 2n < (s+1)^2 *)
Theorem primorial_lower n s : 0 < n -> n.*2 < s.+1 ^ 2 -> 4 ^ n <= n.*2 ^ s.+2 * primorial n.*2.
Proof.
move=> n0 lts; apply: leq_trans (central_bin_lower n0) _.
by rewrite [_ ^ s.+2]expnS -mulnA leq_mul2l central_upper_primorial // orbT.
Qed.

(** a positive number divisible by all primes up to 2n is at least 2^(2n - k (s+2)) when 2n <= 2^k *)
Lemma primes_dvd_lower n s k M : 0 < n -> n.*2 < s.+1 ^ 2 -> n.*2 <= 2 ^ k -> 0 < M ->
  (forall p, prime p -> p <= n.*2 -> p %| M) -> 2 ^ n.*2 <= 2 ^ (k * s.+2) * M.
Proof.
move=> n0 lts lek M0 hdv.
have -> : 2 ^ n.*2 = 4 ^ n by rewrite -mul2n expnM.
apply: leq_trans (primorial_lower n0 lts) _; apply: leq_mul.
- by rewrite expnM leq_exp2r.
- apply: dvdn_leq => //; rewrite /primorial; apply: dvdn_prod_primes => p /andP[_ lep] pP.
  exact: hdv.
Qed.

(** hence a positive number below that bound has a prime up to 2n not dividing it *)
Theorem small_prime_not_dividing n s k M : 0 < n -> n.*2 < s.+1 ^ 2 -> n.*2 <= 2 ^ k -> 0 < M ->
  2 ^ (k * s.+2) * M < 2 ^ n.*2 -> exists p, [/\ prime p, p <= n.*2 & ~~ (p %| M)].
Proof.
move=> n0 lts lek M0 lt.
pose P := fun p => prime p && ~~ (p %| M).
have [/hasP[p]|/hasPn no] := boolP (has P (iota 0 n.*2.+1)).
  by rewrite mem_iota add0n /= ltnS /P => lep /andP[pP nd]; exists p.
have hdv p : prime p -> p <= n.*2 -> p %| M.
  move=> pP lep; have := no p; rewrite mem_iota add0n /= ltnS => /(_ lep).
  by rewrite /P pP /= negbK.
by have := primes_dvd_lower n0 lts lek M0 hdv; rewrite leqNgt lt.
Qed.
