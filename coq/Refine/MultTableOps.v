(** * MultTableOps: closed forms of [MultTable::mul] and [MultTable::trace] on well-shaped
    input, bilinearity of [mul], additivity of [trace] (C14).  Style: ssreflect/MathComp
    over the ring [Z] (ssrZ); no rationals here. *)
From RNT.Model Require Import Base Poly Algebraic MultTable.
From RNT.Model Require Hnf.
From mathcomp Require Import all_ssreflect ssralg.
From mathcomp Require Import ssrZ zify ring.
Set Implicit Arguments.
Unset Strict Implicit.
Unset Printing Implicit Defensive.
Import GRing.Theory.
Local Open Scope ring_scope.

Lemma Lseq_eq a n : List.seq a n = iota a n.
Proof. by elim: n a => //= n IH a; rewrite IH. Qed.

Lemma range0_eq n : Hnf.range 0 n = iota 0 n.
Proof. by rewrite /Hnf.range Lseq_eq Nat.sub_0_r. Qed.

Lemma Llength_eq' A (l : list A) : length l = size l. Proof. by []. Qed.
Lemma Lrepeat_eq' A (x : A) n : List.repeat x n = nseq n x.
Proof. by elim: n => //= n ->. Qed.

Lemma nth_chk_ok A (d : A) (l : seq A) i : (i < size l)%N -> nth_chk l i = Done (nth d l i).
Proof.
rewrite /nth_chk; elim: l i => [|x l IH] [|i] //= h.
by have := IH i h; case: (List.nth_error l i) => // y [->].
Qed.

(** a loop whose body returns normally on every state satisfying the invariant *)
Lemma for_loop_foldl (S : Type) (P : S -> Prop) js (body : nat -> S -> outcome S) g s :
  (forall j s, j \in js -> P s -> body j s = Done (g j s) /\ P (g j s)) -> P s ->
  Hnf.for_loop js body s = Done (foldl (fun s j => g j s) s js)
  /\ P (foldl (fun s j => g j s) s js).
Proof.
elim: js s => [|j js IH] s hb ps //=.
have [-> pg] := hb j s (mem_head _ _) ps; rewrite /bind.
by apply: IH => // j' s' hj'; apply: hb; rewrite inE hj' orbT.
Qed.

(** accumulating loops: each step adds [h j k] to entry [k] *)
Lemma foldl_acc (n : nat) (h : nat -> nat -> Z) (g : nat -> seq Z -> seq Z) js s :
  (forall j s, size s = n -> size (g j s) = n /\
      forall k, (k < n)%N -> nth 0 (g j s) k = nth 0 s k + h j k) ->
  size s = n ->
  size (foldl (fun s j => g j s) s js) = n /\
  forall k, (k < n)%N -> nth 0 (foldl (fun s j => g j s) s js) k = nth 0 s k + \sum_(j <- js) h j k.
Proof.
move=> hg; elim: js s => [|j js IH] s sz /=.
  by split=> // k _; rewrite big_nil addr0.
have [sz' e'] := hg j s sz; have [sz'' e''] := IH _ sz'.
by split=> // k hk; rewrite e'' // e' // big_cons addrA.
Qed.

Lemma addmul_prefix_ok n (res row : seq Z) p : size res = n -> (n <= size row)%N ->
  addmul_prefix n res row p = Done (mkseq (fun k => nth 0 res k + p * nth 0 row k) n).
Proof.
elim: n res row => [|n IH] [|x res] [|y row] // [sr] sw.
rewrite [addmul_prefix _ _ _ _]/= (IH res row sr sw) /bind; congr Done.
apply: (@eq_from_nth _ 0) => [|k]; first by rewrite [LHS]/= !size_mkseq.
rewrite [size _]/= size_mkseq => hk.
rewrite [in RHS]nth_mkseq //; case: k hk => [|k] hk //=.
by rewrite nth_mkseq.
Qed.

(** ** shapes *)
Definition cube (n : nat) (t : table) : bool :=
  (size t == n) && all (fun ti => (size ti == n) && all (fun r => size r == n) ti) t.

Definition T3 (t : table) (i j k : nat) : Z := nth 0 (nth [::] (nth [::] t i) j) k.

Lemma cube_row n t i : cube n t -> (i < n)%N -> size (nth [::] t i) = n.
Proof.
case/andP=> /eqP st /allP h hi.
have hi' : (i < size t)%N by rewrite st.
by have /andP[/eqP] := h _ (mem_nth [::] hi').
Qed.

Lemma cube_cell n t i j : cube n t -> (i < n)%N -> (j < n)%N -> size (nth [::] (nth [::] t i) j) = n.
Proof.
move=> ct hi hj; have sr := cube_row ct hi.
case/andP: ct => /eqP st /allP h.
have hi' : (i < size t)%N by rewrite st.
have /andP[_ /allP h2] := h _ (mem_nth [::] hi').
by apply/eqP/h2/mem_nth; rewrite sr.
Qed.

(** ** [mul] *)
Definition mul_coef (t : table) (a b : seq Z) (n k : nat) : Z :=
  \sum_(i <- iota 0 n) \sum_(j <- iota 0 n) nth 0 a i * nth 0 b j * T3 t i j k.

Theorem mt_mul_closed m n t a b : cube n t -> size a = n -> size b = n ->
  mt_mul m t a b = Done (mkseq (mul_coef t a b n) n).
Proof.
move=> ct sa sb; rewrite /mt_mul !Llength_eq' sa sb /mt_deg.
have -> : length t = n by case/andP: ct => /eqP.
rewrite Nat.eqb_refl; have -> : debug_assert m true = Done tt by case: m.
rewrite /bind range0_eq Lrepeat_eq'.
pose gin i j (s : seq Z) := mkseq (fun k => nth 0 s k + nth 0 a i * nth 0 b j * T3 t i j k) n.
pose gout i (s : seq Z) := foldl (fun s j => gin i j s) s (iota 0 n).
have gin_ok i j s : size s = n -> size (gin i j s) = n /\
    forall k, (k < n)%N -> nth 0 (gin i j s) k = nth 0 s k + nth 0 a i * nth 0 b j * T3 t i j k.
  by move=> sz; rewrite size_mkseq; split=> // k hk; rewrite nth_mkseq.
have gout_ok i s : size s = n -> size (gout i s) = n /\
    forall k, (k < n)%N -> nth 0 (gout i s) k
       = nth 0 s k + \sum_(j <- iota 0 n) nth 0 a i * nth 0 b j * T3 t i j k.
  by move=> sz; apply: foldl_acc sz; apply: gin_ok.
have st : size t = n by case/andP: ct => /eqP.
set body := (X in Hnf.for_loop _ X _).
have hb i s : i \in iota 0 n -> size s = n -> body i s = Done (gout i s) /\ size (gout i s) = n.
  rewrite mem_iota add0n => /andP[_ hi] sz; rewrite /body.
  set body2 := (X in Hnf.for_loop _ X _).
  have hb2 j s' : j \in iota 0 n -> size s' = n ->
      body2 j s' = Done (gin i j s') /\ size (gin i j s') = n.
    rewrite mem_iota add0n => /andP[_ hj] sz'; rewrite /body2.
    rewrite (nth_chk_ok 0) ?sa // (nth_chk_ok 0) ?sb // /bind.
    rewrite (nth_chk_ok [::]) ?st // (nth_chk_ok [::]) ?(cube_row ct) //.
    by rewrite addmul_prefix_ok ?(cube_cell ct) // size_mkseq.
  have [-> _] := for_loop_foldl hb2 sz.
  by split=> //; have [] := gout_ok i s sz.
have [-> _] := for_loop_foldl hb (size_nseq n 0).
have [sz e] := @foldl_acc n (fun i k => \sum_(j <- iota 0 n) nth 0 a i * nth 0 b j * T3 t i j k)
                 gout (iota 0 n) _ gout_ok (size_nseq n 0).
congr Done; apply: (@eq_from_nth _ 0); rewrite ?size_mkseq // sz => k hk.
by rewrite e // nth_nseq hk add0r nth_mkseq.
Qed.

(** ** [trace] *)
Lemma foldl_sum (h : nat -> Z) js (s : Z) :
  foldl (fun s j => s + h j) s js = s + \sum_(j <- js) h j.
Proof.
elim: js s => [|j js IH] s /=; first by rewrite big_nil addr0.
by rewrite IH big_cons addrA.
Qed.

Definition trace_val (t : table) (a : seq Z) (n : nat) : Z :=
  \sum_(i <- iota 0 n) \sum_(j <- iota 0 n) nth 0 a i * T3 t j i j.

Theorem mt_trace_closed n t a : cube n t -> size a = n ->
  mt_trace t a = Done (trace_val t a n).
Proof.
move=> ct sa; rewrite /mt_trace /mt_deg.
have st : size t = n by case/andP: ct => /eqP.
rewrite Llength_eq' st range0_eq.
set body := (X in Hnf.for_loop _ X _).
pose gout i (s : Z) := s + \sum_(j <- iota 0 n) nth 0 a i * T3 t j i j.
have hb i s : i \in iota 0 n -> True -> body i s = Done (gout i s) /\ True.
  rewrite mem_iota add0n => /andP[_ hi] _; rewrite /body; split=> //.
  set body2 := (X in Hnf.for_loop _ X _).
  pose gin j (s' : Z) := s' + nth 0 a i * T3 t j i j.
  have hb2 j s' : j \in iota 0 n -> True -> body2 j s' = Done (gin j s') /\ True.
    rewrite mem_iota add0n => /andP[_ hj] _; rewrite /body2; split=> //.
    rewrite (nth_chk_ok 0) ?sa // (nth_chk_ok [::]) ?st // /bind.
    by rewrite (nth_chk_ok [::]) ?(cube_row ct) // (nth_chk_ok 0) ?(cube_cell ct).
  have [-> _] := @for_loop_foldl Z (fun=> True) (iota 0 n) body2 gin s hb2 I.
  by rewrite foldl_sum.
have [-> _] := @for_loop_foldl Z (fun=> True) (iota 0 n) body gout 0 hb I.
by rewrite foldl_sum add0r.
Qed.

(** ** vectors *)
Definition vadd (a b : seq Z) : seq Z := [seq x.1 + x.2 | x <- zip a b].
Definition vscale (c : Z) (a : seq Z) : seq Z := [seq c * x | x <- a].

Lemma size_vadd a b : size (vadd a b) = minn (size a) (size b).
Proof. by rewrite size_map size_zip. Qed.
Lemma size_vscale c a : size (vscale c a) = size a.
Proof. by rewrite size_map. Qed.

Lemma nth_vadd a b i : size a = size b -> nth 0 (vadd a b) i = nth 0 a i + nth 0 b i.
Proof.
move=> sab; case: (ltnP i (size a)) => hi.
  by rewrite (nth_map (0, 0)) ?size_zip -?sab ?minnn // nth_zip.
by rewrite !nth_default ?addr0 // -?sab // size_vadd -sab minnn.
Qed.

Lemma nth_vscale c a i : nth 0 (vscale c a) i = c * nth 0 a i.
Proof.
case: (ltnP i (size a)) => hi; first by rewrite (nth_map 0).
by rewrite !nth_default ?mulr0 // size_vscale.
Qed.

Lemma mkseq_vadd_vscale (n : nat) (c : Z) (u v : nat -> Z) :
  mkseq (fun k => c * u k + v k) n = vadd (vscale c (mkseq u n)) (mkseq v n).
Proof.
apply: (@eq_from_nth _ 0).
  by rewrite size_vadd size_vscale !size_mkseq minnn.
rewrite size_mkseq => k hk.
by rewrite nth_vadd ?size_vscale ?size_mkseq // nth_vscale !nth_mkseq.
Qed.

(** [P] [mul] is linear in each argument *)
Theorem mt_mul_linear_l m n t a a' b c : cube n t -> size a = n -> size a' = n -> size b = n ->
  exists r r', [/\ mt_mul m t a b = Done r, mt_mul m t a' b = Done r' &
                   mt_mul m t (vadd (vscale c a) a') b = Done (vadd (vscale c r) r')].
Proof.
move=> ct sa sa' sb.
exists (mkseq (mul_coef t a b n) n), (mkseq (mul_coef t a' b n) n).
rewrite !(mt_mul_closed m ct) ?size_vadd ?size_vscale ?sa ?sa' ?minnn //; split=> //.
rewrite -mkseq_vadd_vscale; congr Done; apply: eq_mkseq => k.
rewrite /mul_coef mulr_sumr -big_split /=; apply: eq_bigr => i _.
rewrite mulr_sumr -big_split /=; apply: eq_bigr => j _.
rewrite nth_vadd ?size_vscale ?sa ?sa' // nth_vscale.
by rewrite !mulrDl !mulrA.
Qed.

Theorem mt_mul_linear_r m n t a b b' c : cube n t -> size a = n -> size b = n -> size b' = n ->
  exists r r', [/\ mt_mul m t a b = Done r, mt_mul m t a b' = Done r' &
                   mt_mul m t a (vadd (vscale c b) b') = Done (vadd (vscale c r) r')].
Proof.
move=> ct sa sb sb'.
exists (mkseq (mul_coef t a b n) n), (mkseq (mul_coef t a b' n) n).
rewrite !(mt_mul_closed m ct) ?size_vadd ?size_vscale ?sb ?sb' ?minnn //; split=> //.
rewrite -mkseq_vadd_vscale; congr Done; apply: eq_mkseq => k.
rewrite /mul_coef mulr_sumr -big_split /=; apply: eq_bigr => i _.
rewrite mulr_sumr -big_split /=; apply: eq_bigr => j _.
rewrite nth_vadd ?size_vscale ?sb ?sb' // nth_vscale.
by rewrite mulrDr mulrDl !mulrA [_ * c]mulrC.
Qed.

(** [P] [trace] is additive (and homogeneous) *)
Theorem mt_trace_linear n t a a' c : cube n t -> size a = n -> size a' = n ->
  exists r r', [/\ mt_trace t a = Done r, mt_trace t a' = Done r' &
                   mt_trace t (vadd (vscale c a) a') = Done (c * r + r')].
Proof.
move=> ct sa sa'.
exists (trace_val t a n), (trace_val t a' n).
rewrite !(mt_trace_closed ct) ?size_vadd ?size_vscale ?sa ?sa' ?minnn //; split=> //.
congr Done; rewrite /trace_val mulr_sumr -big_split /=; apply: eq_bigr => i _.
rewrite mulr_sumr -big_split /=; apply: eq_bigr => j _.
rewrite nth_vadd ?size_vscale ?sa ?sa' // nth_vscale.
by rewrite mulrDl !mulrA.
Qed.

Lemma Lnth_eq'' A (d : A) l i : List.nth i l d = nth d l i.
Proof. by elim: l i => [|x l IH] [|i] /=. Qed.
