(** * AlgNormMx: the representation matrix of a multiplication table (C14).

    [Mrep t n a = sum_i a_i T_i] is the integer matrix whose determinant [MultTable::norm]
    returns (MultTableNorm.v).  Here: [v *m Mrep a] is the coordinate vector of [a * v]
    ([MultTable::mul]); if [mul] is associative then [Mrep (a * b) = Mrep b *m Mrep a], hence
    the norm is multiplicative; [MultTable::trace] is the matrix trace of the matrix of
    multiplication from the right, which is [Mrep a] when the table is commutative.
    Style: ssreflect/MathComp, matrices over [Z] (ssrZ). *)
From Coq Require Import QArith Qcanon.
From RNT.Model Require Import Base Poly Algebraic LinAlg MultTable.
From RNT.Model Require Hnf Ideal.
From mathcomp Require Import all_ssreflect ssralg zmodp matrix mxalgebra.
From mathcomp Require Import ssrZ zify ring.
From RNT.Refine Require Import QcField LinAlgQc MultTableOps MultTableNorm.
Set Implicit Arguments.
Unset Strict Implicit.
Unset Printing Implicit Defensive.
Import GRing.Theory.
Local Close Scope Z_scope.
Local Close Scope Q_scope.
Local Open Scope ring_scope.

(** the value of [mul] on a well-shaped table (MultTableOps.mt_mul_closed) *)
Definition tmul (t : table) (n : nat) (a b : seq Z) : seq Z := mkseq (mul_coef t a b n) n.

Lemma size_tmul t n a b : size (tmul t n a b) = n.
Proof. by rewrite size_mkseq. Qed.

Lemma mt_mul_tmul m n t a b : cube n t -> size a = n -> size b = n ->
  mt_mul m t a b = Done (tmul t n a b).
Proof. exact: mt_mul_closed. Qed.

(** the matrix of [x |-> a * x] (row j = coordinates of a * w_j) *)
Definition Mrep (t : table) (n : nat) (a : seq Z) : 'M[Z]_n := \matrix_(j < n, k < n) rep_coef t a n j k.

(** the matrix of [x |-> x * a] (row j = coordinates of w_j * a) *)
Definition Rrep (t : table) (n : nat) (a : seq Z) : 'M[Z]_n :=
  \matrix_(j < n, k < n) \sum_(i <- iota 0 n) nth 0 a i * T3 t j i k.

Definition zrow (n : nat) (v : seq Z) : 'rV[Z]_n := \row_k nth 0 v k.

Lemma zrow_inj n u v : size u = n -> size v = n -> zrow n u = zrow n v -> u = v.
Proof.
move=> su sv e; apply: (@eq_from_nth _ 0); rewrite su // => k hk.
by move/rowP/(_ (Ordinal hk)): e; rewrite !mxE.
Qed.

Lemma sum_ord_iota (n : nat) (F : nat -> Z) : \sum_(j < n) F j = \sum_(j <- iota 0 n) F j.
Proof. by rewrite -(big_mkord xpredT F) /index_iota subn0. Qed.

Lemma zrow_tmul t n a v : zrow n (tmul t n a v) = zrow n v *m Mrep t n a.
Proof.
apply/rowP => k; rewrite !mxE nth_mkseq // /mul_coef exchange_big /=.
rewrite (eq_bigr (fun j : 'I_n => nth 0 v j * rep_coef t a n j k)); last by move=> j _; rewrite !mxE.
rewrite (sum_ord_iota n (fun j => nth 0 v j * rep_coef t a n j k)).
apply: eq_bigr => j _; rewrite /rep_coef mulr_sumr; apply: eq_bigr => i _.
by rewrite mulrA [nth 0 v j * _]mulrC.
Qed.

Lemma zrow_tmul_r t n a v : zrow n (tmul t n v a) = zrow n v *m Rrep t n a.
Proof.
apply/rowP => k; rewrite !mxE nth_mkseq // /mul_coef.
rewrite (eq_bigr (fun j : 'I_n => nth 0 v j * \sum_(i <- iota 0 n) nth 0 a i * T3 t j i k)); last first.
  by move=> j _; rewrite !mxE.
rewrite (sum_ord_iota n (fun j => nth 0 v j * \sum_(i <- iota 0 n) nth 0 a i * T3 t j i k)).
apply: eq_bigr => j _; rewrite mulr_sumr; apply: eq_bigr => i _.
by rewrite mulrA.
Qed.

(** unit vectors and scalar vectors of the model *)
Lemma size_unit_vec n i : size (Ideal.unit_vec n i) = n.
Proof. by rewrite /Ideal.unit_vec size_map Lseq_eq size_iota. Qed.

Lemma nth_unit_vec n i k : (k < n)%N -> nth 0 (Ideal.unit_vec n i) k = (i == k)%:R.
Proof.
move=> hk; rewrite /Ideal.unit_vec Lseq_eq (nth_map 0%N) ?size_iota // nth_iota // add0n.
by case: (Nat.eqb_spec i k) => [->|/eqP/negbTE->]; rewrite ?eqxx.
Qed.

Lemma zrow_unit_vec n (i : 'I_n) : zrow n (Ideal.unit_vec n i) = delta_mx 0 i.
Proof.
apply/rowP => k; rewrite !mxE nth_unit_vec //= eq_sym.
by rewrite -(inj_eq val_inj).
Qed.

Lemma size_scalar_vec n d : size (Ideal.scalar_vec n d) = n.
Proof. by rewrite /Ideal.scalar_vec size_map Lseq_eq size_iota. Qed.

Lemma nth_scalar_vec n d k : (k < n)%N -> nth 0 (Ideal.scalar_vec n d) k = if k == 0%N then d else 0.
Proof.
by move=> hk; rewrite /Ideal.scalar_vec Lseq_eq (nth_map 0%N) ?size_iota // nth_iota // add0n.
Qed.

(** row [i] of [Mrep a] is [a * e_i] *)
Lemma row_Mrep t n a (i : 'I_n) : row i (Mrep t n a) = zrow n (tmul t n a (Ideal.unit_vec n i)).
Proof. by rewrite rowE -zrow_unit_vec zrow_tmul. Qed.

(** ** associativity makes [a |-> Mrep a] an anti-homomorphism, so the norm is multiplicative *)
Definition tassoc (t : table) (n : nat) : Prop :=
  forall x y z : seq Z, size x = n -> size y = n -> size z = n ->
    tmul t n (tmul t n x y) z = tmul t n x (tmul t n y z).

Definition tcomm (t : table) (n : nat) : Prop :=
  forall x y : seq Z, size x = n -> size y = n -> tmul t n x y = tmul t n y x.

Lemma Mrep_tmul t n a b : tassoc t n -> size a = n -> size b = n ->
  Mrep t n (tmul t n a b) = Mrep t n b *m Mrep t n a.
Proof.
move=> ha sa sb; apply/row_matrixP => i.
rewrite row_Mrep [in RHS]rowE mulmxA -zrow_unit_vec -!zrow_tmul.
by rewrite ha // size_unit_vec.
Qed.

Lemma mt_norm_Mrep n t a : cube n t -> size a = n -> mt_norm t a = Done (\det (Mrep t n a)).
Proof. exact: mt_norm_det. Qed.

Theorem mt_norm_mul m n t a b : cube n t -> tassoc t n -> size a = n -> size b = n ->
  exists ab na nb, [/\ mt_mul m t a b = Done ab, mt_norm t a = Done na, mt_norm t b = Done nb
                     & mt_norm t ab = Done (na * nb)].
Proof.
move=> ct ha sa sb.
exists (tmul t n a b), (\det (Mrep t n a)), (\det (Mrep t n b)).
rewrite (mt_mul_tmul m ct sa sb) !(mt_norm_Mrep ct) ?size_tmul //; split=> //.
by rewrite Mrep_tmul // det_mulmx mulrC.
Qed.

(** ** the trace *)
Theorem mt_trace_Rrep n t a : cube n t -> size a = n -> mt_trace t a = Done (\tr (Rrep t n a)).
Proof.
move=> ct sa; rewrite (mt_trace_closed ct sa); congr Done.
rewrite /trace_val /mxtrace exchange_big /=.
rewrite (eq_bigr (fun j : 'I_n => \sum_(i <- iota 0 n) nth 0 a i * T3 t j i j)); last by move=> j _; rewrite mxE.
by rewrite (sum_ord_iota n (fun j => \sum_(i <- iota 0 n) nth 0 a i * T3 t j i j)).
Qed.

Lemma Rrep_Mrep t n a : tcomm t n -> size a = n -> Rrep t n a = Mrep t n a.
Proof.
move=> hc sa; apply/row_matrixP => i.
by rewrite row_Mrep rowE -zrow_unit_vec -zrow_tmul_r hc // size_unit_vec.
Qed.

Theorem mt_trace_Mrep n t a : cube n t -> tcomm t n -> size a = n ->
  mt_trace t a = Done (\tr (Mrep t n a)).
Proof. by move=> ct hc sa; rewrite (mt_trace_Rrep ct sa) Rrep_Mrep. Qed.

(** ** an invertible basis has injective coordinates (neutral statement, as in OrderSolve.v):
    if [solve_linear_system] succeeded against the matrix [a], a vector [x] with
    [x *m a = 0] is zero *)
From RNT.Refine Require OrderSolve LinAlgMx.

Theorem qdot_inj (a : list (list Qc)) (b inv x : list Qc) :
  solve_linear_system fopsQc a b = Done (Ok inv) ->
  (forall j : nat, (j < length a)%nat -> OrderSolve.qdot (length a) x a j = Q2Qc 0) ->
  forall k : nat, (k < length a)%nat -> List.nth k x (Q2Qc 0) = Q2Qc 0.
Proof.
move=> hs h0 k hk; set n := length a in h0 hk *.
have du : qmx n n a \in unitmx.
  by rewrite unitmxE unitfE; move: hs; rewrite fopsQcE => /LinAlgMx.solve_ok_det; rewrite -qmxE.
have e0 : qrv n x *m qmx n n a = 0.
  apply/rowP => j; rewrite !mxE -[RHS](h0 j (ltn_ord j)) OrderSolve.qdot_sum.
  by apply: eq_bigr => i _; rewrite !mxE.
have : qrv n x = 0 by rewrite -(mulmxK du (qrv n x)) e0 mul0mx.
by move/rowP/(_ (Ordinal hk)); rewrite !mxE.
Qed.
