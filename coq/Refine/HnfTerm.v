(** * HnfTerm: total correctness of [hnf_with_u] on rectangular input: no panic, and the
      logarithmic fuel of the inner loop is never exhausted.

      Measure: after the first reduction all entries of rows [0..=k] in the column have the sign
      of the pivot, and with [p] the pivot and [Q] twice-bounding the other entries, [Q * |p|]
      at least halves in every further iteration. *)
From Coq Require Import ZArith List Lia Bool.
From RNT.Model Require Import Base Hnf.
From RNT.Refine Require Import MatZ HnfOps HnfSteps HnfSpec HnfLoop.
Import ListNotations.
Open Scope Z_scope.

(** ** every primitive succeeds on well-shaped arguments *)
Lemma nth_chk_ok {A} (l : list A) i d : (i < length l)%nat -> nth_chk l i = Done (nth i l d).
Proof.
  intros Hi. unfold nth_chk. destruct (nth_error l i) eqn:E.
  - rewrite (nth_error_nth _ _ d E). reflexivity.
  - apply nth_error_None in E. lia.
Qed.

Lemma get_ok a j i n m : shape n m a -> (j < n)%nat -> (i < m)%nat -> get a j i = Done (ent a j i).
Proof.
  intros [Hn Hw] Hj Hi. unfold get. rewrite (nth_chk_ok a j []) by lia. simpl.
  rewrite (nth_chk_ok _ i 0). - reflexivity. - fold (row a j). rewrite (wf_row m); auto; lia.
Qed.

Lemma swap_rows_ok a j k :
  (j < length a)%nat -> (k < length a)%nat -> swap_rows a j k = Done (apply_eop (ESwap j k) a).
Proof.
  intros Hj Hk. unfold swap_rows. rewrite (nth_chk_ok a j []), (nth_chk_ok a k []) by lia. reflexivity.
Qed.

Lemma neg_row_ok a k : (k < length a)%nat -> neg_row a k = Done (apply_eop (ENeg k) a).
Proof. intros Hk. unfold neg_row. rewrite (nth_chk_ok a k []) by lia. reflexivity. Qed.

Lemma submul_prefix_ok w : forall rj rk q,
  length rj = w -> length rk = w -> submul_prefix w rj rk q = Done (vsubmul q rj rk).
Proof.
  induction w as [|w IH]; intros [|x rj] [|y rk] q Hj Hk; simpl in *; try discriminate; auto.
  rewrite IH by lia. reflexivity.
Qed.

Lemma row_submul_ok w a j k q n :
  shape n w a -> (j < n)%nat -> (k < n)%nat ->
  row_submul w a j k q = Done (apply_eop (ESubmul j k q) a).
Proof.
  intros [Hn Hw] Hj Hk. unfold row_submul.
  rewrite (nth_chk_ok a k []), (nth_chk_ok a j []) by lia. simpl.
  fold (row a j) (row a k). rewrite submul_prefix_ok; auto; apply (wf_row w); auto; lia.
Qed.

Lemma floor_div_ok a b : b <> 0 -> floor_div a b = Done (a / b).
Proof.
  intros Hb. assert (E : exists q, floor_div a b = Done q).
  { unfold floor_div, zquot. destruct (b <? 0).
    - destruct (Z.eqb_spec (- b) 0); [lia|]. simpl. eauto.
    - destruct (Z.eqb_spec b 0); [lia|]. simpl. eauto. }
  destruct E as [q E]. rewrite E. apply floor_div_Done in E. destruct E as [_ ->]. reflexivity.
Qed.

Lemma reduce_row_ok m n i b k j a u :
  shape n m a -> shape n n u -> (j < n)%nat -> (k < n)%nat -> (i < m)%nat -> b <> 0 ->
  reduce_row m n i b k j (a, u) =
  Done (apply_eop (ESubmul j k (ent a j i / b)) a, apply_eop (ESubmul j k (ent a j i / b)) u).
Proof.
  intros Ha Hu Hj Hk Hi Hb. unfold reduce_row.
  rewrite (get_ok a j i n m) by auto. simpl. rewrite floor_div_ok by auto. simpl.
  rewrite (row_submul_ok m a j k _ n) by auto. simpl.
  rewrite (row_submul_ok n u j k _ n) by auto. reflexivity.
Qed.

Lemma reduce_loop_ok A0 n m i b k :
  shape n m A0 -> (k < n)%nat -> (i < m)%nat -> b <> 0 -> forall js a u,
  Inv A0 n m a u -> ~ In k js -> (forall j, In j js -> (j < n)%nat) ->
  exists a' u', for_loop js (reduce_row m n i b k) (a, u) = Done (a', u').
Proof.
  intros HS0 Hk Hi Hb. induction js as [|j js IH]; intros a u HI Hnk Hlt.
  - simpl. eauto.
  - cbn [for_loop]. pose proof HI as (Ha & Hu & _).
    assert (Hj : (j < n)%nat) by (apply Hlt; left; auto).
    rewrite (reduce_row_ok m n i b k j a u) by auto. cbn [bind].
    apply IH.
    + apply Inv_op; auto. simpl. repeat split; auto. intro; subst; apply Hnk; left; auto.
    + intro h; apply Hnk; right; auto.
    + intros j' Hj'; apply Hlt; right; auto.
Qed.

Lemma col_all_zero_ok a i n m js :
  shape n m a -> (i < m)%nat -> (forall j, In j js -> (j < n)%nat) ->
  exists b, col_all_zero a i js = Done b /\ (b = false -> exists j, In j js /\ ent a j i <> 0).
Proof.
  intros Ha Hi. induction js as [|j js IH]; intros Hlt; simpl.
  - exists true. split; auto. discriminate.
  - rewrite (get_ok a j i n m) by (auto; apply Hlt; left; auto). simpl.
    destruct (Z.eqb_spec (ent a j i) 0).
    + destruct IH as [b [E Hb]]. { intros; apply Hlt; right; auto. }
      exists b. split; auto. intros Hf. destruct (Hb Hf) as [j' [Hin Hne]]. exists j'. split; [right|]; auto.
    + exists false. split; auto. intros _. exists j. split; [left|]; auto.
Qed.

Lemma col_position_ok a i n m : shape n m a -> (i < m)%nat -> forall len s,
  (s + len <= n)%nat ->
  exists o, col_position a i (seq s len) = Done o /\
    match o with
    | None => forall j, (s <= j < s + len)%nat -> ent a j i = 0
    | Some ind => (s <= ind < s + len)%nat /\ ent a ind i <> 0 /\
                  forall j, (s <= j < ind)%nat -> ent a j i = 0
    end.
Proof.
  intros Ha Hi. induction len as [|len IH]; intros s Hs; simpl.
  - exists None. split; auto. intros; lia.
  - rewrite (get_ok a s i n m) by (auto; lia). simpl.
    destruct (Z.eqb_spec (ent a s i) 0); simpl.
    + destruct (IH (S s) ltac:(lia)) as [o [E Ho]]. exists o. split; auto.
      destruct o as [ind|].
      * destruct Ho as (H1 & H2 & H3). split; [lia|]. split; auto.
        intros j Hj. destruct (Nat.eq_dec j s) as [->|]; auto. apply H3. lia.
      * intros j Hj. destruct (Nat.eq_dec j s) as [->|]; auto. apply Ho. lia.
    + exists (Some s). split; auto. split; [lia|]. split; auto. intros; lia.
Qed.

Lemma min_loop_ok a i n m js : shape n m a -> (i < m)%nat -> (forall j, In j js -> (j < n)%nat) ->
  forall mi, exists mi', for_loop js (min_step a i) mi = Done mi'.
Proof.
  intros Ha Hi. induction js as [|j js IH]; intros Hlt mi; simpl; eauto.
  unfold min_step at 1. rewrite (get_ok a j i n m) by (auto; apply Hlt; left; auto). simpl.
  destruct (negb (ent a j i =? 0)); simpl; apply IH; intros; apply Hlt; right; auto.
Qed.

Lemma pair_min_fst p q : fst (pair_min p q) <= fst p /\ fst (pair_min p q) <= fst q /\
                          (pair_min p q = p \/ pair_min p q = q).
Proof.
  unfold pair_min, pair_le. destruct p as [x i], q as [y j]; simpl.
  destruct (Z.ltb_spec x y); simpl; [repeat split; auto; lia|].
  destruct (Z.eqb_spec x y); simpl; [|repeat split; auto; lia].
  destruct (i <=? j)%nat; simpl; repeat split; auto; lia.
Qed.

Lemma min_loop_spec a i js : forall mi mi',
  for_loop js (min_step a i) mi = Done mi' ->
  fst mi = Z.abs (ent a (snd mi) i) -> ent a (snd mi) i <> 0 ->
  fst mi' = Z.abs (ent a (snd mi') i) /\ ent a (snd mi') i <> 0 /\ fst mi' <= fst mi /\
  forall j, In j js -> ent a j i <> 0 -> fst mi' <= Z.abs (ent a j i).
Proof.
  induction js as [|j js IH]; simpl; intros mi mi' H Hf Hnz.
  - inversion H; subst. repeat split; auto; try lia.
  - ibind H as mi1 E. unfold min_step in E. ibind E as x Ex.
    apply get_Done in Ex. destruct Ex as (_ & _ & ->).
    destruct (Z.eqb_spec (ent a j i) 0) as [Hz|Hz]; simpl in E; inversion E; subst mi1; clear E.
    + destruct (IH _ _ H Hf Hnz) as (H1 & H2 & H3 & H4). repeat split; auto.
      intros j' [<-|Hj'] Hne; [contradiction|auto].
    + destruct (pair_min_fst mi (Z.abs (ent a j i), j)) as (L1 & L2 & Hor). simpl in L2.
      assert (Hf' : fst (pair_min mi (Z.abs (ent a j i), j)) =
                    Z.abs (ent a (snd (pair_min mi (Z.abs (ent a j i), j))) i) /\
                    ent a (snd (pair_min mi (Z.abs (ent a j i), j))) i <> 0).
      { destruct Hor as [->| ->]; simpl; auto. }
      destruct Hf' as [Hf' Hnz'].
      destruct (IH _ _ H Hf' Hnz') as (H1 & H2 & H3 & H4). repeat split; auto; try lia.
      intros j' [<-|Hj'] Hne; [lia|auto].
Qed.

(** ** arithmetic of one reduction *)
Lemma mod_same_sign s x b P :
  (s = 1 \/ s = -1) -> 0 < s * b -> 0 < P -> 0 <= s * x <= P -> (x = 0 \/ s * b <= s * x) ->
  0 <= s * (x mod b) < s * b /\ 2 * (s * (x mod b)) < P.
Proof.
  intros Hs Hb HP Hx Hmin.
  destruct Hs as [-> | ->].
  - assert (0 < b) by lia. pose proof (Z.mod_pos_bound x b ltac:(lia)) as Hm.
    pose proof (Z.div_mod x b ltac:(lia)) as Hd.
    split; [lia|]. destruct Hmin as [-> | Hge].
    + rewrite Z.mod_0_l by lia. lia.
    + assert (1 <= x / b) by (apply Z.div_le_lower_bound; lia). nia.
  - assert (b < 0) by lia. pose proof (Z.mod_neg_bound x b ltac:(lia)) as Hm.
    pose proof (Z.div_mod x b ltac:(lia)) as Hd.
    split; [lia|]. destruct Hmin as [-> | Hge].
    + rewrite Z.mod_0_l by lia. lia.
    + assert (1 <= x / b).
      { rewrite <- (Z.div_opp_opp x b) by lia. apply Z.div_le_lower_bound; lia. }
      nia.
Qed.

Lemma mod_any_sign s x b :
  (s = 1 \/ s = -1) -> 0 < s * b -> 0 <= s * (x mod b) < s * b.
Proof.
  intros [-> | ->] Hb.
  - pose proof (Z.mod_pos_bound x b ltac:(lia)). lia.
  - pose proof (Z.mod_neg_bound x b ltac:(lia)). lia.
Qed.

(** ** bit-length bound on the entries *)
Lemma bits_bound x : Z.abs x < 2 ^ Z.of_nat (bits x).
Proof.
  assert (G : forall p, Zpos p < 2 ^ Z.of_nat (Pos.size_nat p)).
  { induction p as [p IH|p IH|]; cbn [Pos.size_nat]; rewrite ?Nat2Z.inj_succ, ?Z.pow_succ_r by lia; try lia.
    all: try (simpl; lia). }
  destruct x; simpl; [lia| |]; apply G.
Qed.

Lemma row_bits_bound r x : In x r -> (bits x <= row_bits r)%nat.
Proof.
  induction r as [|y r IH]; simpl; [intros []|]. intros [<-|H]; [lia|]. specialize (IH H). lia.
Qed.

Lemma mat_bits_bound (a : mat) r : In r a -> (row_bits r <= mat_bits a)%nat.
Proof.
  induction a as [|y a IH]; simpl; [intros []|]. intros [<-|H]; [lia|]. specialize (IH H). lia.
Qed.

Lemma ent_bound a j c : Z.abs (ent a j c) < 2 ^ Z.of_nat (mat_bits a).
Proof.
  unfold ent, row.
  destruct (Nat.lt_ge_cases j (length a)) as [Hj|Hj].
  - destruct (Nat.lt_ge_cases c (length (nth j a []))) as [Hc|Hc].
    + pose proof (bits_bound (nth c (nth j a []) 0)) as Hb.
      assert (Hle : (bits (nth c (nth j a []) 0%Z) <= mat_bits a)%nat).
      { etransitivity; [apply row_bits_bound; apply nth_In; exact Hc|].
        apply mat_bits_bound. apply nth_In; auto. }
      assert (2 ^ Z.of_nat (bits (nth c (nth j a []) 0)) <= 2 ^ Z.of_nat (mat_bits a)).
      { apply Z.pow_le_mono_r; lia. }
      lia.
    + rewrite (nth_overflow _ 0) by lia. simpl. apply Z.pow_pos_nonneg; lia.
  - rewrite (nth_overflow a []) by lia. destruct c; simpl; apply Z.pow_pos_nonneg; lia.
Qed.

(** ** the inner loop terminates within its fuel *)
Section Inner.
Variables (A0 : mat) (n m i k : nat).
Hypothesis HS0 : shape n m A0.
Hypothesis Hk : (k < n)%nat.
Hypothesis Hi : (i < m)%nat.

Lemma range_lt lo hi : (hi <= n)%nat -> forall j, In j (range lo hi) -> (j < n)%nat.
Proof. intros Hh j Hj. apply in_range in Hj. lia. Qed.

Lemma inner_final a u :
  Inv A0 n m a u -> col_all_zero a i (range 0 k) = Done true ->
  forall fuel, exists r, hnf_inner (S fuel) m n i k a u = Done r.
Proof.
  intros (Ha & Hu & _) E fuel. cbn [hnf_inner]. rewrite E. cbn [bind].
  rewrite (get_ok a k i n m) by auto. cbn [bind].
  destruct (ent a k i <? 0); eauto.
  rewrite neg_row_ok by (destruct Ha; lia). cbn [bind].
  rewrite neg_row_ok by (destruct Hu; lia). cbn [bind]. eauto.
Qed.

Lemma inner_iter a u :
  Inv A0 n m a u -> col_all_zero a i (range 0 k) = Done false ->
  exists j0 a2 u2,
    (j0 <= k)%nat /\ ent a j0 i <> 0 /\
    (forall j, (j <= k)%nat -> ent a j i <> 0 -> Z.abs (ent a j0 i) <= Z.abs (ent a j i)) /\
    Inv A0 n m a2 u2 /\ ent a2 k i = ent a j0 i /\
    (forall j, (j < k)%nat ->
       ent a2 j i = (if (j =? j0)%nat then ent a k i else ent a j i) mod (ent a j0 i)) /\
    forall fuel, hnf_inner (S fuel) m n i k a u = hnf_inner fuel m n i k a2 u2.
Proof.
  intros HI Eaz. pose proof HI as (Ha & Hu & _).
  destruct (col_all_zero_ok a i n m (range 0 k) Ha Hi (range_lt 0 k ltac:(lia))) as [b [Eb Hb]].
  rewrite Eaz in Eb. inversion Eb; subst b; clear Eb.
  destruct (Hb eq_refl) as [jz [Hjz Hjznz]]. apply in_range in Hjz.
  destruct (col_position_ok a i n m Ha Hi k 0%nat ltac:(lia)) as [o [Epos Ho]].
  destruct o as [ind|]; [|exfalso; apply Hjznz, Ho; lia].
  destruct Ho as (Hind & Hindnz & Hbefore).
  replace (seq 0 k) with (range 0 k) in Epos by (unfold range; rewrite Nat.sub_0_r; auto).
  destruct (min_loop_ok a i n m (range (ind + 1) (k + 1)) Ha Hi (range_lt (ind + 1) (k + 1) ltac:(lia))
              (Z.abs (ent a ind i), ind)) as [mi Emin].
  destruct (min_loop_spec a i _ _ _ Emin eq_refl Hindnz) as (M1 & M2 & M3 & M4).
  pose proof (min_loop_index a i _ _ _ Emin) as Hidx. simpl snd in Hidx. simpl fst in M3.
  set (j0 := snd mi) in *.
  assert (Hj0 : (ind <= j0 <= k)%nat).
  { destruct Hidx as [->|Hin]; [lia|apply in_range in Hin; lia]. }
  assert (Hmin : forall j, (j <= k)%nat -> ent a j i <> 0 -> Z.abs (ent a j0 i) <= Z.abs (ent a j i)).
  { intros j Hj Hne. rewrite <- M1.
    destruct (Nat.lt_trichotomy j ind) as [Hlt|[->|Hgt]].
    - exfalso. apply Hne, Hbefore. lia.
    - exact M3.
    - apply M4; auto. apply in_range. lia. }
  assert (Hv : eop_valid n (ESwap j0 k)) by (simpl; lia).
  assert (HI1 := Inv_op A0 n m _ a u HS0 Hv HI).
  set (a1 := apply_eop (ESwap j0 k) a) in *. set (u1 := apply_eop (ESwap j0 k) u) in *.
  pose proof HI1 as (Ha1 & Hu1 & _).
  assert (Hb1 : ent a1 k i = ent a j0 i).
  { unfold a1. rewrite (ent_apply_eop n m); auto. rewrite Nat.eqb_refl. reflexivity. }
  assert (Hnk : ~ In k (range 0 k)) by (rewrite in_range; lia).
  assert (Hbnz : ent a1 k i <> 0) by (rewrite Hb1; exact M2).
  destruct (reduce_loop_ok A0 n m i (ent a1 k i) k HS0 Hk Hi Hbnz (range 0 k) a1 u1 HI1 Hnk
              (range_lt 0 k ltac:(lia))) as [a2 [u2 Ered]].
  destruct (reduce_loop A0 n m i (ent a1 k i) k HS0 Hk _ _ _ _ _ HI1 Hnk (range_NoDup _ _) Ered)
    as (HI2 & Hrows & Hents).
  exists j0, a2, u2. split; [lia|]. split; [exact M2|]. split; [exact Hmin|]. split; [exact HI2|].
  split; [|split].
  - rewrite (ent_row_eq _ _ k i (Hrows k Hk Hnk)). exact Hb1.
  - intros j Hj. assert (Hin : In j (range 0 k)) by (apply in_range; lia).
    destruct (Hents j Hin) as (_ & _ & He). rewrite He.
    assert (E1 : ent a1 j i = if (j =? j0)%nat then ent a k i else ent a j i).
    { unfold a1. rewrite (ent_apply_eop n m); auto; [|lia].
      destruct (Nat.eqb_spec j k); [lia|]. reflexivity. }
    rewrite E1, Hb1. rewrite Z.mod_eq by exact M2. reflexivity.
  - intros fuel. cbn [hnf_inner]. rewrite Eaz. cbn [bind]. rewrite Epos. cbn [bind].
    rewrite (get_ok a ind i n m) by (auto; lia). cbn [bind]. rewrite Emin. cbn [bind]. cbv zeta.
    fold j0. rewrite swap_rows_ok by (destruct Ha; lia). cbn [bind].
    rewrite swap_rows_ok by (destruct Hu; lia). cbn [bind].
    fold a1 u1. rewrite (get_ok a1 k i n m) by auto. cbn [bind].
    destruct (Z.eqb_spec (ent a1 k i) 0) as [E0|_]; [contradiction|]. cbn [negb assert_ bind].
    match goal with |- bind ?x _ = _ => replace x with (@Done (Hnf.mat * Hnf.mat) (a2, u2)) by (symmetry; exact Ered) end.
    cbn [bind]. reflexivity.
Qed.

(** state after at least one reduction: common sign [s], pivot [p], bound [Q] on twice the others *)
Definition Sst (a : mat) (f : nat) : Prop :=
  exists s Q, (s = 1 \/ s = -1) /\ 0 < s * ent a k i /\
    (forall j, (j < k)%nat -> 0 <= s * ent a j i < s * ent a k i /\ 2 * (s * ent a j i) < Q) /\
    Q * (s * ent a k i) <= 2 ^ Z.of_nat f.

Lemma inner_S : forall f a u,
  Inv A0 n m a u -> Sst a f -> forall fuel, (f < fuel)%nat ->
  exists r, hnf_inner fuel m n i k a u = Done r.
Proof.
  induction f as [|f IH]; intros a u HI (s & Q & Hs & Hp & Hrows & HQ) fuel Hf;
    (destruct fuel as [|fuel]; [lia|]); pose proof HI as (Ha & _);
    destruct (col_all_zero_ok a i n m (range 0 k) Ha Hi (range_lt 0 k ltac:(lia))) as [b [Eb Hb]];
    (destruct b; [apply inner_final; auto|]);
    destruct (Hb eq_refl) as [jz [Hjz Hjznz]]; apply in_range in Hjz;
    destruct (inner_iter a u HI Eb) as (j0 & a2 & u2 & Hj0 & Hb0 & Hmin & HI2 & Hpiv & Hent & Hfuel).
  - (* no fuel left in the measure: impossible *)
    exfalso. destruct (Hrows jz ltac:(lia)) as [R1 R2].
    assert (1 <= s * ent a jz i) by (destruct Hs as [-> | ->]; lia).
    simpl in HQ. nia.
  - rewrite Hfuel. apply (IH a2 u2 HI2); [|lia].
    (* the chosen pivot is one of the rows above k *)
    assert (Hj0k : (j0 < k)%nat).
    { destruct (Nat.eq_dec j0 k) as [->|]; [|lia]. exfalso.
      destruct (Hrows jz ltac:(lia)) as [R1 R2]. specialize (Hmin jz ltac:(lia) Hjznz).
      destruct Hs as [-> | ->]; lia. }
    destruct (Hrows j0 Hj0k) as [B1 B2].
    assert (Hsb : 0 < s * ent a j0 i) by (destruct Hs as [-> | ->]; lia).
    exists s, (s * ent a k i). split; auto. rewrite Hpiv. split; auto. split.
    + intros j Hj. rewrite (Hent j Hj).
      apply mod_same_sign; auto.
      * destruct (Nat.eqb_spec j j0); [lia|]. destruct (Hrows j Hj). lia.
      * destruct (Nat.eqb_spec j j0) as [->|Hne].
        -- right. lia.
        -- destruct (Z.eq_dec (ent a j i) 0) as [E0|E0]; [left; auto|right].
           specialize (Hmin j ltac:(lia) E0). destruct (Hrows j Hj).
           destruct Hs as [-> | ->]; lia.
    + rewrite Nat2Z.inj_succ, Z.pow_succ_r in HQ by lia. nia.
Qed.

Lemma inner_G a u B :
  Inv A0 n m a u -> (forall j, (j <= k)%nat -> Z.abs (ent a j i) < 2 ^ Z.of_nat B) ->
  forall fuel, (2 * B + 2 < fuel)%nat -> exists r, hnf_inner fuel m n i k a u = Done r.
Proof.
  intros HI HB fuel Hf. destruct fuel as [|fuel]; [lia|]. pose proof HI as (Ha & _).
  destruct (col_all_zero_ok a i n m (range 0 k) Ha Hi (range_lt 0 k ltac:(lia))) as [b [Eb Hb]].
  destruct b; [apply inner_final; auto|].
  destruct (inner_iter a u HI Eb) as (j0 & a2 & u2 & Hj0 & Hb0 & Hmin & HI2 & Hpiv & Hent & Hfuel).
  rewrite Hfuel. apply (inner_S (2 * B + 1) a2 u2 HI2); [|lia].
  set (b := ent a j0 i) in *.
  assert (Hs : exists s, (s = 1 \/ s = -1) /\ 0 < s * b /\ s * b = Z.abs b).
  { destruct (Z.lt_trichotomy b 0) as [H|[H|H]]; [exists (-1)|contradiction|exists 1]; lia. }
  destruct Hs as (s & Hs & Hsb & Habs).
  exists s, (2 * (s * b)). split; auto. rewrite Hpiv. split; auto. split.
  - intros j Hj. rewrite (Hent j Hj). pose proof (mod_any_sign s (if (j =? j0)%nat then ent a k i else ent a j i) b Hs Hsb). lia.
  - specialize (HB j0 Hj0). fold b in HB. rewrite Habs.
    replace (Z.of_nat (2 * B + 1)) with (Z.of_nat B + Z.of_nat B + 1) by lia.
    rewrite !Z.pow_add_r, Z.pow_1_r by lia.
    assert (0 <= Z.abs b) by lia. nia.
Qed.

Lemma hnf_inner_ok a u :
  Inv A0 n m a u -> exists r, hnf_inner (inner_fuel a) m n i k a u = Done r.
Proof.
  intros HI. apply (inner_G a u (mat_bits a)); auto.
  - intros j _. apply ent_bound.
  - unfold inner_fuel. lia.
Qed.

End Inner.

(** ** the column sweep and the entry points never panic or run out of fuel on rectangular input *)
Lemma range_ltn n lo hi : (hi <= n)%nat -> forall j, In j (range lo hi) -> (j < n)%nat.
Proof. intros Hh j Hj. apply in_range in Hj. lia. Qed.

Lemma hnf_cols_ok A0 n m :
  shape n m A0 -> forall i1 a u k,
  Inv A0 n m a u -> (k < n)%nat -> (i1 <= m)%nat -> exists r, hnf_cols i1 m n a u k = Done r.
Proof.
  intros HS0. induction i1 as [|i IH]; intros a u k HI Hk Hi1.
  - simpl. eauto.
  - cbn [hnf_cols].
    destruct (hnf_inner_ok A0 n m i k HS0 Hk ltac:(lia) a u HI) as [[a1 u1] E1].
    rewrite E1. cbn [bind].
    destruct (hnf_inner_spec A0 n m i k HS0 Hk _ _ _ _ _ HI E1) as (HI1 & _ & _ & _).
    pose proof HI1 as (Ha1 & _).
    rewrite (get_ok a1 k i n m) by (auto; lia). cbn [bind].
    destruct (Z.eqb_spec (ent a1 k i) 0) as [E0|E0].
    + cbn [bind]. change (S k =? 0)%nat with false. cbn [orb].
      destruct (i =? 0)%nat; eauto.
      replace (S k - 1)%nat with k by lia. apply IH; auto; lia.
    + assert (Hnk : ~ In k (range (k + 1) n)) by (rewrite in_range; lia).
      destruct (reduce_loop_ok A0 n m i (ent a1 k i) k HS0 Hk ltac:(lia) E0 (range (k + 1) n) a1 u1 HI1 Hnk
                  (range_ltn n (k + 1) n ltac:(lia))) as [a2 [u2 Ered]].
      destruct (reduce_loop A0 n m i (ent a1 k i) k HS0 Hk _ _ _ _ _ HI1 Hnk (range_NoDup _ _) Ered)
        as (HI2 & _ & _).
      match goal with |- context [for_loop ?js ?f ?s] =>
        replace (for_loop js f s) with (@Done (Hnf.mat * Hnf.mat) (a2, u2)) by (symmetry; exact Ered) end.
      cbn [bind].
      destruct ((k =? 0)%nat || (i =? 0)%nat); eauto.
      apply IH; auto; lia.
Qed.

Theorem hnf_with_u_total A n m :
  shape n m A -> (1 <= n)%nat -> (1 <= m)%nat -> exists H U k, hnf_with_u A = Done (H, U, k).
Proof.
  intros HS Hn Hm. pose proof HS as [Hlen Hwf].
  destruct A as [|a0 A']; [simpl in Hlen; lia|].
  unfold hnf_with_u.
  assert (Hm0 : length a0 = m) by (apply wf_cons in Hwf; tauto).
  rewrite Hm0, Hlen. change (Hnf.identity n) with (idmat n).
  assert (HI0 := Inv_init (a0 :: A') n m HS).
  destruct (hnf_cols_ok (a0 :: A') n m HS m _ _ (n - 1)%nat HI0 ltac:(lia) ltac:(lia)) as [[[a' u'] k'] E].
  rewrite E. cbn [bind].
  assert (Hz0 : forall j c, (j <= n - 1)%nat -> (m <= c)%nat -> ent (a0 :: A') j c = 0).
  { intros j c Hj Hc. unfold ent. apply nth_overflow. rewrite (wf_row m (a0 :: A') j Hwf); [lia|]. rewrite Hlen. lia. }
  assert (Hr0 : hnf_rows m m (skipn (S (n - 1)) (a0 :: A'))).
  { rewrite skipn_all2 by (rewrite Hlen; lia). constructor. }
  destruct (hnf_cols_spec (a0 :: A') n m HS m _ _ (n - 1)%nat _ _ _ HI0 ltac:(lia) ltac:(lia) Hz0 Hr0 E)
    as (([Han _] & _) & Hkn & _).
  destruct (Nat.leb_spec k' (length a')); [eauto|lia].
Qed.
