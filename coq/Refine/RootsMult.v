(** * C12: multiplicities of roots modulo a prime (ssreflect).

    [multm p f x k]: x is a root of f modulo p of multiplicity exactly k, i.e.
    f = (X - x)^k g modulo p for some g with g(x) <> 0 modulo p. For a prime p this k is
    unique ([multm_uniq]), exists whenever f <> 0 modulo p ([multm_exists]) and is additive over
    products ([multm_mul]). Everything is stated over {poly Z} with the congruence [eqpm p]. *)
From Coq Require Import ZArith List Lia Znumtheory.
From mathcomp Require Import all_ssreflect ssralg poly.
From RNT.Model Require Import Base Poly PolyModP FactorModP LinearRoots.
From RNT.Refine Require Import PolyModPArith PolyModPDivList FermatZ PolyZmod PolyModPDiv MonicZ PolyModPGcd FpPoly DrawBounds FpTotal FactorNorm RootsProofs RootsComplete.
From mathcomp Require Import ssrZ zify ring.
Set Implicit Arguments. Unset Strict Implicit. Unset Printing Implicit Defensive.
Import GRing.Theory.
Local Open Scope ring_scope.

Definition multm (p : Z) (f : {poly Z}) (x : Z) (k : nat) : Prop :=
  exists g : {poly Z}, eqpm p f (('X - x%:P) ^+ k * g) /\ ~ rootm p g x.

Lemma multm_eqpm p f f' x k : eqpm p f f' -> multm p f' x k -> multm p f x k.
Proof. move=> E [g [Eg Ng]]. exists g. split=> //. exact: eqpm_trans E Eg. Qed.

Lemma rootm_0 p x : rootm p 0 x.
Proof. by rewrite /rootm horner0. Qed.

Section Prime.
Variable p : Z.
Hypothesis Hp : Znumtheory.prime p.
Let Hp2 := prime_ge_2 _ Hp.
Let Hpp : (0 < p)%ZZ. Proof. lia. Qed.
Let Hp0 : p <> Z0. Proof. lia. Qed.

(** A monic polynomial is not a zero divisor modulo p. *)
Lemma monic_cancel (m h : {poly Z}) : m \is monic -> eqpm p (m * h) 0 -> eqpm p h 0.
Proof.
  move=> Mm E.
  have Mn : m != 0 by apply: monic_neq0.
  have Gn : polyseq m <> [::].
  { move=> E0. move/eqP: Mn; apply. by rewrite -(polyseqK m) E0. }
  have Gc : canonical (polyseq m) := polyseq_canonical m.
  have EP : PZ (polyseq m) = m by rewrite /PZ polyseqK.
  have Gl : ~ (p | List.last (polyseq m) Z0)%ZZ.
  { rewrite -(canonical_lead Gc) EP (monicP Mm) => D.
    have := Zdivide_le p 1 ltac:(lia) ltac:(lia) D. lia. }
  apply: (@small_multiple_zero p (polyseq m) h 0 Hp Gn Gc Gl); first by rewrite EP.
  rewrite size_poly0. case: (polyseq m) Gn => //.
Qed.

Lemma rootm_XsubC_pow x k (g : {poly Z}) : rootm p (('X - x%:P) ^+ k.+1 * g) x.
Proof.
  rewrite /rootm hornerM horner_exp hornerXsubC subrr exprS mul0r mul0r. exact: Z.mod_0_l.
Qed.

(** Uniqueness of the multiplicity. *)
Lemma multm_le f x k k' : multm p f x k -> multm p f x k' -> (k' <= k)%nat.
Proof.
  move=> [g [Eg Ng]] [g' [Eg' Ng']]. rewrite leqNgt. apply/negP => Hlt.
  have [d Hd] : exists d, k' = (k + d.+1)%nat by exists (k' - k).-1; lia.
  apply: Ng.
  have E : eqpm p (('X - x%:P) ^+ k * (g - ('X - x%:P) ^+ d.+1 * g')) 0.
  { have -> : ('X - x%:P) ^+ k * (g - ('X - x%:P) ^+ d.+1 * g')
             = ('X - x%:P) ^+ k * g - ('X - x%:P) ^+ (k + d.+1) * g' :> {poly Z}.
    { rewrite exprD. ring. }
    rewrite -Hd. have -> : (0 : {poly Z}) = f - f by rewrite subrr.
    apply: eqpm_sub; exact: eqpm_sym. }
  have M : ('X - x%:P) ^+ k \is @monic [ringType of Z] by apply: monic_exp; exact: monicXsubC.
  have E' := monic_cancel M E.
  have E'' : eqpm p g (('X - x%:P) ^+ d.+1 * g').
  { case: E' => z Hz. exists z.
    have -> : g = (g - ('X - x%:P) ^+ d.+1 * g') + ('X - x%:P) ^+ d.+1 * g' by ring.
    rewrite Hz. ring. }
  apply: (rootm_eqpm E''). exact: rootm_XsubC_pow.
Qed.

Lemma multm_uniq f x k k' : multm p f x k -> multm p f x k' -> k = k'.
Proof.
  move=> H H'. have := multm_le H H'. have := multm_le H' H. lia.
Qed.

(** Existence for polynomials that do not vanish modulo p. *)
Lemma multm_exists f x : ~ eqpm p f 0 -> exists k, multm p f x k.
Proof.
  move: {-1}(size f) (leqnn (size f)) => n. elim: n f => [|n IH] f Hs Nf.
  - exfalso. apply: Nf. move: Hs. rewrite leqn0 size_poly_eq0 => /eqP ->. exact: eqpm_refl.
  - case: (Z.eq_dec (Z.modulo f.[x] p) Z0) => [Rx|Nx]; last first.
    { exists 0%nat, f. split=> //. rewrite expr0 mul1r. exact: eqpm_refl. }
    have Rt : root (f - f.[x]%:P) x by rewrite /root hornerD hornerN hornerC subrr.
    have [q Hq] := factor_theorem _ _ Rt.
    have [c Hc] := Zmod_divide _ _ Hp0 Rx.
    have Ef : f = ('X - x%:P) * q + p%:P * c%:P.
    { have -> : f = (f - f.[x]%:P) + f.[x]%:P by ring.
      rewrite Hq Hc. have -> : (c * p)%ZZ%:P = p%:P * c%:P :> {poly Z} by rewrite -polyCM; congr (_%:P); lia.
      ring. }
    have Eq : eqpm p f (('X - x%:P) * q) by exists c%:P.
    have Nq : ~ eqpm p q 0.
    { move=> E0. apply: Nf. apply: eqpm_trans Eq _.
      have -> : (0 : {poly Z}) = ('X - x%:P) * 0 by rewrite mulr0. exact: eqpm_mull. }
    have Sq : (size q <= n)%nat.
    { have Nq0 : q != 0.
      { apply/eqP => E0. apply: Nq. rewrite E0. exact: eqpm_refl. }
      have Nf0 : f != 0.
      { apply/eqP => E0. apply: Nf. rewrite E0. exact: eqpm_refl. }
      have S1 : size (q * ('X - x%:P)) = (size q).+1.
      { rewrite size_Mmonic ?monicXsubC // size_XsubC. lia. }
      have S2 : (size (f - f.[x]%:P)%R <= size f)%nat.
      { apply: leq_trans (size_add _ _) _. rewrite size_opp geq_max leqnn /=.
        apply: leq_trans (size_polyC_leq1 _) _. by rewrite size_poly_gt0. }
      rewrite Hq S1 in S2. lia. }
    have [k [g [Eg Ng]]] := IH q Sq Nq.
    exists k.+1, g. split=> //. apply: eqpm_trans Eq _.
    rewrite exprS -mulrA. exact: eqpm_mull.
Qed.

(** Additivity over products. *)
Lemma multm_mul f f' x k k' : multm p f x k -> multm p f' x k' -> multm p (f * f') x (k + k')%nat.
Proof.
  move=> [g [Eg Ng]] [g' [Eg' Ng']]. exists (g * g'). split.
  - have -> : ('X - x%:P) ^+ (k + k') * (g * g') = (('X - x%:P) ^+ k * g) * (('X - x%:P) ^+ k' * g') :> {poly Z}.
    { rewrite exprD. ring. }
    exact: eqpm_mul.
  - move=> R. by case: (rootm_mul_inv Hp R).
Qed.

Lemma multm_0 f x : ~ rootm p f x -> multm p f x 0.
Proof. move=> N. exists f. split=> //. rewrite expr0 mul1r. exact: eqpm_refl. Qed.

Lemma multm_0_noroot f x : multm p f x 0 -> ~ rootm p f x.
Proof.
  move=> [g [Eg Ng]] R. apply: Ng. move: Eg. rewrite expr0 mul1r => Eg.
  exact: (rootm_eqpm (eqpm_sym Eg)).
Qed.

Lemma multm_root f x k : multm p f x k.+1 -> rootm p f x.
Proof. move=> [g [Eg _]]. apply: (rootm_eqpm Eg). exact: rootm_XsubC_pow. Qed.

Lemma multm_1 x : multm p 1 x 0.
Proof.
  apply: multm_0. rewrite /rootm hornerC. rewrite Z.mod_small; first by []. lia.
Qed.

Lemma multm_const (c : Z) x : Z.modulo c p <> Z0 -> multm p c%:P x 0.
Proof. move=> N. apply: multm_0. by rewrite /rootm hornerC. Qed.

(** The linear factor X - a at a point x of [0, p). *)
Lemma multm_XsubC a x : (0 <= x < p)%ZZ ->
  multm p ('X - a%:P) x (if Z.eq_dec (Z.modulo a p) x then 1%nat else 0%nat).
Proof.
  move=> Bx. case: (Z.eq_dec _ _) => [E|N].
  - exists 1. split; last first.
    { rewrite /rootm hornerC Z.mod_small; lia. }
    rewrite expr1 mulr1. exists (- (Z.div a p)%:P).
    have D : a = (x + p * (Z.div a p))%ZZ by have := Z.div_mod a p Hp0; lia.
    rewrite {1}D.
    have -> : (x + p * (Z.div a p))%ZZ%:P = x%:P + p%:P * (Z.div a p)%:P :> {poly Z}.
    { by rewrite -polyCM -polyCD. }
    ring.
  - apply: multm_0. rewrite /rootm hornerXsubC => R. apply: N.
    have E : Z.modulo x p = Z.modulo a p.
    { apply: mod_sub_0 => //. }
    rewrite -E Z.mod_small //.
Qed.

End Prime.
