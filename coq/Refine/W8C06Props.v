(** * W8C06Props (C06, eighth wave): the statements exported to Props/C06.v, in the vocabulary of that file
      ([length], [(1 <= n)%nat], [= true]).  Definitions:
      [weak_order f n o]: o is an n x n rational matrix whose rows span a lattice containing 1 on which
      [Order::get_mult_table] returns (closed under multiplication) -- [is_order] without the normal form;
      [no_larger_order f n o]: every over-order of o lies in the lattice of o (the conclusion of
      [find_integral_basis_maximal_all]); [lattice_sub n o1 o2]: every row of o1 is an integer combination of rows of o2. *)
From RNT.Model Require Import Base Poly Algebraic LinAlg MultTable Order.
From RNT.Model Require Round2.
From Coq Require Import QArith Qcanon.
From mathcomp Require Import all_ssreflect ssralg poly.
From mathcomp Require Import ssrZ zify.
From RNT.Refine Require Import PolyRefine PolyZ.
From RNT.Refine Require Import W8C06Bridge W8C06Main.
From RNT.Refine Require Round2Lattice Round2Det Round2W3Driver Round2W4PZ.
Set Implicit Arguments.
Unset Strict Implicit.
Unset Printing Implicit Defensive.
Import GRing.Theory.
Local Close Scope Z_scope.
Local Close Scope Q_scope.
Local Close Scope Qc_scope.

Definition weak_order (f : list Z) (n : nat) (o : qmat) : Prop :=
  List.length o = n /\ List.Forall (fun r => List.length r = n) o /\
  Round2Lattice.in_spanQ n (Round2Det.one_vec n) o /\ exists T, get_mult_table o f = Done T.

Definition no_larger_order (f : list Z) (n : nat) (o : qmat) : Prop :=
  forall o2, Round2W4PZ.over_order f n o o2 ->
  forall t, (t < n)%coq_nat -> Round2Lattice.in_spanQ n (List.nth t o2 [::]) o.

Definition lattice_sub (n : nat) (o1 o2 : qmat) : Prop :=
  forall t, (t < n)%coq_nat -> Round2Lattice.in_spanQ n (List.nth t o1 [::]) o2.

Lemma weak_lat f n o : weak_order f n o <-> lat_order f n o.
Proof. by split=> [[a [b [c d]]]|[a b c d]]. Qed.

Theorem is_order_weak_order (f : list Z) (n : nat) (o : qmat) : Round2W3Driver.is_order f n o -> weak_order f n o.
Proof. by move/is_order_lat/weak_lat. Qed.

(** [P] a maximal order contains every order *)
Theorem maximal_order_contains (f : list Z) (n : nat) (O1 O2 : qmat) :
  PolyZ.canonZ f = true -> List.length f = n.+1 -> (1 <= n)%coq_nat ->
  weak_order f n O1 -> no_larger_order f n O1 -> weak_order f n O2 -> lattice_sub n O2 O1.
Proof.
move=> cf lf /leP n0 /weak_lat l1 m1 /weak_lat l2.
exact: (maximal_contains cf lf n0 l1 m1 l2).
Qed.

(** [P] two maximal orders have the same lattice *)
Theorem maximal_order_unique (f : list Z) (n : nat) (O1 O2 : qmat) :
  PolyZ.canonZ f = true -> List.length f = n.+1 -> (1 <= n)%coq_nat ->
  weak_order f n O1 -> no_larger_order f n O1 -> weak_order f n O2 -> no_larger_order f n O2 ->
  lattice_sub n O1 O2 /\ lattice_sub n O2 O1.
Proof. by move=> cf lf n1 l1 m1 l2 m2; split; exact: (@maximal_order_contains f n). Qed.

(** [P] the order returned by the driver contains every order of Q[x]/(f) *)
Theorem driver_largest_order (m : mode) (f : list Z) (n : nat) (O O2 : qmat) :
  PolyZ.canonZ f = true -> List.length f = n.+1 -> (1 <= n)%coq_nat -> (2 * Z.of_nat n < two64)%Z ->
  (forall o0 d0, non_monic_initial_order f = Done o0 -> Round2.order_disc m o0 f = Done d0 ->
     d0 <> 0%Z /\ (Z.log2 (Z.abs d0) < two64)%Z) ->
  Round2.find_integral_basis m f = Done O -> weak_order f n O2 -> lattice_sub n O2 O.
Proof.
move=> cf lf /leP n0 small hd E /weak_lat l2.
exact: (driver_contains_every_order cf lf n0 small hd E l2).
Qed.

(** the meaning of [poly_shift]: evaluation at x is evaluation of f at x + k *)
Theorem poly_shift_eval (f : list Z) (k x : Z) : pof opsZ (poly_shift f k) x = pof opsZ f (x + k)%Z.
Proof.
rewrite opsZ_eq !pof_horner Poly_shift horner_comp !hornerE.
by [].
Qed.

Theorem poly_shift_length (f : list Z) (k : Z) : PolyZ.canonZ f = true ->
  PolyZ.canonZ (poly_shift f k) = true /\ List.length (poly_shift f k) = List.length f.
Proof. by move=> cf; split; [exact: canon_shift | exact: size_shift]. Qed.

Theorem poly_scale_length (f : list Z) (c : Z) : PolyZ.canonZ f = true ->
  PolyZ.canonZ (poly_scale f c) = true /\ List.length (poly_scale f c) = List.length f.
Proof. by move=> cf; split; [exact: canon_scale | exact: size_scale]. Qed.

(** [P] theta + k *)
Theorem disc_invariant_shift (m : mode) (f : list Z) (k : Z) (n : nat) (Of Og : qmat) :
  PolyZ.canonZ f = true -> List.length f = n.+1 -> (1 <= n)%coq_nat -> (2 * Z.of_nat n < two64)%Z ->
  (forall o0 d0, non_monic_initial_order f = Done o0 -> Round2.order_disc m o0 f = Done d0 ->
     d0 <> 0%Z /\ (Z.log2 (Z.abs d0) < two64)%Z) ->
  (forall o0 d0, non_monic_initial_order (poly_shift f k) = Done o0 ->
     Round2.order_disc m o0 (poly_shift f k) = Done d0 -> d0 <> 0%Z /\ (Z.log2 (Z.abs d0) < two64)%Z) ->
  Round2.find_integral_basis m f = Done Of -> Round2.find_integral_basis m (poly_shift f k) = Done Og ->
  exists d : Z, Round2.order_disc m Of f = Done d /\ Round2.order_disc m Og (poly_shift f k) = Done d.
Proof. by move=> cf lf /leP n0; exact: W8C06Main.disc_invariant_shift. Qed.

(** [P] c theta, c <> 0 (c = -1: -theta) *)
Theorem disc_invariant_scale (m : mode) (f : list Z) (c : Z) (n : nat) (Of Og : qmat) :
  PolyZ.canonZ f = true -> List.length f = n.+1 -> (1 <= n)%coq_nat -> (2 * Z.of_nat n < two64)%Z -> c <> 0%Z ->
  (forall o0 d0, non_monic_initial_order f = Done o0 -> Round2.order_disc m o0 f = Done d0 ->
     d0 <> 0%Z /\ (Z.log2 (Z.abs d0) < two64)%Z) ->
  (forall o0 d0, non_monic_initial_order (poly_scale f c) = Done o0 ->
     Round2.order_disc m o0 (poly_scale f c) = Done d0 -> d0 <> 0%Z /\ (Z.log2 (Z.abs d0) < two64)%Z) ->
  Round2.find_integral_basis m f = Done Of -> Round2.find_integral_basis m (poly_scale f c) = Done Og ->
  exists d : Z, Round2.order_disc m Of f = Done d /\ Round2.order_disc m Og (poly_scale f c) = Done d.
Proof. by move=> cf lf /leP n0; exact: W8C06Main.disc_invariant_scale. Qed.

Theorem disc_invariant_neg (m : mode) (f : list Z) (n : nat) (Of Og : qmat) :
  PolyZ.canonZ f = true -> List.length f = n.+1 -> (1 <= n)%coq_nat -> (2 * Z.of_nat n < two64)%Z ->
  (forall o0 d0, non_monic_initial_order f = Done o0 -> Round2.order_disc m o0 f = Done d0 ->
     d0 <> 0%Z /\ (Z.log2 (Z.abs d0) < two64)%Z) ->
  (forall o0 d0, non_monic_initial_order (poly_scale f (-1)) = Done o0 ->
     Round2.order_disc m o0 (poly_scale f (-1)) = Done d0 -> d0 <> 0%Z /\ (Z.log2 (Z.abs d0) < two64)%Z) ->
  Round2.find_integral_basis m f = Done Of -> Round2.find_integral_basis m (poly_scale f (-1)) = Done Og ->
  exists d : Z, Round2.order_disc m Of f = Done d /\ Round2.order_disc m Og (poly_scale f (-1)) = Done d.
Proof.
move=> cf lf n1 small hf hg Ef Eg.
have c0 : (-1)%Z <> 0%Z by [].
exact: (disc_invariant_scale cf lf n1 small c0 hf hg Ef Eg).
Qed.

(** the same on the entry point [ib_find] (basis, discriminant, index): the two reported discriminants are equal *)
Lemma ib_find_parts m f O d i : Round2.ib_find m f = Done (O, d, i) ->
  Round2.find_integral_basis m f = Done O /\ Round2.order_disc m O f = Done d.
Proof.
rewrite /Round2.ib_find.
case: (Round2.find_integral_basis m f) => [O'| |] //=.
case E: (Round2.order_disc m O' f) => [d'| |] //=.
case: (non_monic_initial_order f) => [o0| |] //=.
case: (order_index O' o0) => [i'| |] //= [e1 e2 _].
by rewrite -e1 -e2.
Qed.

Theorem ib_find_disc_shift (m : mode) (f : list Z) (k : Z) (n : nat) Of df jf Og dg jg :
  PolyZ.canonZ f = true -> List.length f = n.+1 -> (1 <= n)%coq_nat -> (2 * Z.of_nat n < two64)%Z ->
  (forall o0 d0, non_monic_initial_order f = Done o0 -> Round2.order_disc m o0 f = Done d0 ->
     d0 <> 0%Z /\ (Z.log2 (Z.abs d0) < two64)%Z) ->
  (forall o0 d0, non_monic_initial_order (poly_shift f k) = Done o0 ->
     Round2.order_disc m o0 (poly_shift f k) = Done d0 -> d0 <> 0%Z /\ (Z.log2 (Z.abs d0) < two64)%Z) ->
  Round2.ib_find m f = Done (Of, df, jf) -> Round2.ib_find m (poly_shift f k) = Done (Og, dg, jg) -> df = dg.
Proof.
move=> cf lf n1 small hf hg /ib_find_parts [Ef Df] /ib_find_parts [Eg Dg].
have [d [D1 D2]] := disc_invariant_shift cf lf n1 small hf hg Ef Eg.
by move: D1 D2; rewrite Df Dg => -[->] [->].
Qed.

Theorem ib_find_disc_scale (m : mode) (f : list Z) (c : Z) (n : nat) Of df jf Og dg jg :
  PolyZ.canonZ f = true -> List.length f = n.+1 -> (1 <= n)%coq_nat -> (2 * Z.of_nat n < two64)%Z -> c <> 0%Z ->
  (forall o0 d0, non_monic_initial_order f = Done o0 -> Round2.order_disc m o0 f = Done d0 ->
     d0 <> 0%Z /\ (Z.log2 (Z.abs d0) < two64)%Z) ->
  (forall o0 d0, non_monic_initial_order (poly_scale f c) = Done o0 ->
     Round2.order_disc m o0 (poly_scale f c) = Done d0 -> d0 <> 0%Z /\ (Z.log2 (Z.abs d0) < two64)%Z) ->
  Round2.ib_find m f = Done (Of, df, jf) -> Round2.ib_find m (poly_scale f c) = Done (Og, dg, jg) -> df = dg.
Proof.
move=> cf lf n1 small c0 hf hg /ib_find_parts [Ef Df] /ib_find_parts [Eg Dg].
have [d [D1 D2]] := disc_invariant_scale cf lf n1 small c0 hf hg Ef Eg.
by move: D1 D2; rewrite Df Dg => -[->] [->].
Qed.

(** [P] 1 / theta: g = the reversed coefficient list (x^n f(1/x)), f(0) <> 0 *)
Theorem disc_invariant_recip (m : mode) (f : list Z) (n : nat) (Of Og : qmat) :
  PolyZ.canonZ f = true -> List.length f = n.+1 -> (1 <= n)%coq_nat -> (2 * Z.of_nat n < two64)%Z ->
  List.nth 0 f 0%Z <> 0%Z ->
  (forall o0 d0, non_monic_initial_order f = Done o0 -> Round2.order_disc m o0 f = Done d0 ->
     d0 <> 0%Z /\ (Z.log2 (Z.abs d0) < two64)%Z) ->
  (forall o0 d0, non_monic_initial_order (List.rev f) = Done o0 ->
     Round2.order_disc m o0 (List.rev f) = Done d0 -> d0 <> 0%Z /\ (Z.log2 (Z.abs d0) < two64)%Z) ->
  Round2.find_integral_basis m f = Done Of -> Round2.find_integral_basis m (List.rev f) = Done Og ->
  exists d : Z, Round2.order_disc m Of f = Done d /\ Round2.order_disc m Og (List.rev f) = Done d.
Proof.
move=> cf lf /leP n0 small f0; rewrite Lrev_rev => hf hg Ef Eg.
have f0' : nth 0%Z f 0 != 0%Z by rewrite -Lnth_eq; apply/eqP.
exact: (W8C06Main.disc_invariant_recip cf lf n0 small f0' hf hg Ef Eg).
Qed.

Theorem ib_find_disc_recip (m : mode) (f : list Z) (n : nat) Of df jf Og dg jg :
  PolyZ.canonZ f = true -> List.length f = n.+1 -> (1 <= n)%coq_nat -> (2 * Z.of_nat n < two64)%Z ->
  List.nth 0 f 0%Z <> 0%Z ->
  (forall o0 d0, non_monic_initial_order f = Done o0 -> Round2.order_disc m o0 f = Done d0 ->
     d0 <> 0%Z /\ (Z.log2 (Z.abs d0) < two64)%Z) ->
  (forall o0 d0, non_monic_initial_order (List.rev f) = Done o0 ->
     Round2.order_disc m o0 (List.rev f) = Done d0 -> d0 <> 0%Z /\ (Z.log2 (Z.abs d0) < two64)%Z) ->
  Round2.ib_find m f = Done (Of, df, jf) -> Round2.ib_find m (List.rev f) = Done (Og, dg, jg) -> df = dg.
Proof.
move=> cf lf n1 small f0 hf hg /ib_find_parts [Ef Df] /ib_find_parts [Eg Dg].
have [d [D1 D2]] := disc_invariant_recip cf lf n1 small f0 hf hg Ef Eg.
by move: D1 D2; rewrite Df Dg => -[->] [->].
Qed.

Theorem rev_canon_length (f : list Z) : List.nth 0 f 0%Z <> 0%Z ->
  PolyZ.canonZ (List.rev f) = true /\ List.length (List.rev f) = List.length f.
Proof.
move=> f0; rewrite Lrev_rev; split; last by rewrite !Llength_eq size_rev.
by apply: canon_rev; rewrite -Lnth_eq; apply/eqP.
Qed.
