(** * Fermat's little theorem on [Z], imported from MathComp ([binomial.fermat_little]). MathComp style. *)
From Coq Require Import ZArith Znumtheory Lia.
From mathcomp Require Import all_ssreflect.
From mathcomp Require Import zify.
Set Implicit Arguments.
Unset Strict Implicit.
Unset Printing Implicit Defensive.

Lemma expn_pow m k : (m ^ k)%N = Nat.pow m k.
Proof. by elim: k => //= k <-; rewrite expnS. Qed.

Lemma prime_Z_nat (p : Z) : Znumtheory.prime p -> prime (Z.to_nat p).
Proof.
  move=> Hp. have [Hp1 Hrel] := Hp.
  apply/primeP; split; first lia.
  move=> d /dvdnP [q Hq].
  have Hd : (Z.of_nat d | p)%Z by exists (Z.of_nat q); lia.
  case: (prime_divisors p Hp _ Hd) => [|[|[|]]] H; lia.
Qed.

Lemma modn_Zmod (m d : nat) : (0 < d)%N -> Z.of_nat (m %% d) = (Z.of_nat m mod Z.of_nat d)%Z.
Proof.
  move=> Hd. have Hlt := ltn_pmod m Hd.
  apply: (Z.mod_unique_pos _ _ (Z.of_nat (m %/ d))); first lia.
  have := divn_eq m d. lia.
Qed.

(** Fermat on [Z]: a^p = a (mod p) for prime p and a >= 0. *)
Theorem fermat_Z (p a : Z) : Znumtheory.prime p -> (0 <= a)%Z -> (a ^ p mod p = a mod p)%Z.
Proof.
  move=> Hp Ha. have Hp1 : (1 < p)%Z by case: Hp.
  have Hpn := prime_Z_nat Hp.
  have H := fermat_little (Z.to_nat a) Hpn.
  have Hpos : (0 < Z.to_nat p)%N by lia.
  have := congr1 Z.of_nat H. rewrite !modn_Zmod // expn_pow Nat2Z.inj_pow !Z2Nat.id //; lia.
Qed.
