(** * Termination (fuel sufficiency) of the deterministic Euclidean routines modulo a prime, and
    the specification of [poly_modpow] (ssreflect). *)
From Coq Require Import ZArith List Lia Znumtheory.
From mathcomp Require Import all_ssreflect ssralg poly.
From RNT.Model Require Import Base Poly PolyModP.
From RNT.Refine Require Import PolyModPArith PolyModPDivList FermatZ PolyZmod PolyModPDiv MonicZ PolyModPGcd FpPoly.
From mathcomp Require Import ssrZ zify ring.
Set Implicit Arguments. Unset Strict Implicit. Unset Printing Implicit Defensive.
Import GRing.Theory.
Local Open Scope ring_scope.

Section Prime.
Variable p : Z.
Hypothesis Hp : Znumtheory.prime p.
Let Hp2 := prime_ge_2 _ Hp.
Let Hpp : (0 < p)%ZZ. Proof. lia. Qed.
Let Hp0 : p <> Z0. Proof. lia. Qed.

(** One division of reduced polynomials: returns, the remainder is reduced and shorter. *)
Lemma divrem_reduced_total a b :
  reduced p a -> reduced p b ->
  exists q r, poly_divrem a b p = Done (q, r) /\ reduced p r /\
              (b <> [::] -> (length r < length b)%coq_nat) /\ (b = [::] -> r = a) /\
              eqpm p (PZ a) (PZ q * PZ b + PZ r).
Proof.
  move=> Ra Rb.
  case: (b =P [::]) => [Eb|Nb].
  - exists (from_mono opsZ Z0), a. rewrite Eb. split; first by rewrite /poly_divrem; case: (a).
    split=> //. split=> //. split=> //. rewrite PZ_from_mono. exists 0. ring.
  - have Glc := reduced_good Hpp Rb Nb.
    have [q [r E]] := poly_divrem_total a Hp Glc.
    exists q, r. split=> //.
    have Dp := poly_divrem_spec Hp Nb Glc E.
    have Sh := divrem_post_short Dp.
    case: Dp => D1 [_ [_ [_ [D2 D5]]]].
    split; last by [].
    case: (Nat.lt_ge_cases (length a) (length b)) => Hl.
    + by case: (D5 Hl) => _ ->.
    + by case: (D2 (or_introl Hl)) => _.
Qed.

(** [P] [poly_gcd] returns on reduced arguments: the supplied fuel suffices. *)
Lemma poly_gcd_rec_total : forall fuel a b,
  reduced p a -> reduced p b -> (length b + 2 <= fuel)%coq_nat ->
  exists g, poly_gcd_rec fuel a b p = Done g.
Proof.
  elim=> [|f IH] a b Ra Rb Hf; first lia.
  rewrite /=. have [q [r [E [Rr [L1 [L2 _]]]]]] := divrem_reduced_total Ra Rb.
  rewrite E /=. case: r E Rr L1 L2 => [|r0 r] E Rr L1 L2; first by eexists.
  case: (b =P [::]) => [Eb|Nb].
  - (* b = 0, a <> 0: one more call, which returns at once *)
    rewrite Eb.
    case: f IH Hf => [|f'] IH Hf; first by rewrite Eb /= in Hf; lia.
    rewrite /=. by eexists.
  - apply: IH => //. have := L1 Nb. rewrite /=. lia.
Qed.

Theorem poly_gcd_total a b : reduced p a -> reduced p b -> exists g, poly_gcd a b p = Done g.
Proof. move=> Ra Rb. apply: poly_gcd_rec_total => //. rewrite /gcd_fuel. lia. Qed.

(** [P] [poly_ext_gcd] returns on reduced arguments. *)
Lemma poly_ext_gcd_rec_total : forall fuel a b,
  reduced p a -> reduced p b -> (length b + 2 <= fuel)%coq_nat ->
  exists g u v, poly_ext_gcd_rec fuel a b p = Done (g, u, v).
Proof.
  elim=> [|f IH] a b Ra Rb Hf; first lia.
  rewrite /=. have [q [r [E [Rr [L1 [L2 _]]]]]] := divrem_reduced_total Ra Rb.
  rewrite E /=. case: r E Rr L1 L2 => [|r0 r] E Rr L1 L2; first by do 3 eexists.
  have [g [u0 [v0 Er]]] : exists g u v, poly_ext_gcd_rec f b (r0 :: r) p = Done (g, u, v).
  { case: (b =P [::]) => [Eb|Nb].
    - rewrite Eb.
      case: f IH Hf => [|f'] IH Hf; first by rewrite Eb /= in Hf; lia.
      rewrite /=. by do 3 eexists.
    - apply: IH => //. have := L1 Nb. rewrite /=. lia. }
  rewrite Er /=.
  have [qv ->] := poly_mod_total (pmul opsZ q v0) p Hp0. rewrite /=.
  rewrite /poly_mod_sub. have [v ->] := poly_mod_total (psub opsZ u0 qv) p Hp0. rewrite /=. by do 3 eexists.
Qed.

Theorem poly_ext_gcd_total a b :
  reduced p a -> reduced p b -> exists g u v, poly_ext_gcd a b p = Done (g, u, v).
Proof. move=> Ra Rb. apply: poly_ext_gcd_rec_total => //. rewrite /gcd_fuel. lia. Qed.

(** ** [poly_modpow] *)

(** a = b modulo (g, p): the difference is a multiple of g modulo p. *)
Definition eqpgm (g : list Z) (a b : {poly Z}) : Prop := exists k, eqpm p a (b + PZ g * k).

Lemma eqpgm_refl g a : eqpgm g a a.
Proof. exists 0. rewrite mulr0 addr0. exact: eqpm_refl. Qed.

Lemma eqpgm_trans g b a c : eqpgm g a b -> eqpgm g b c -> eqpgm g a c.
Proof.
  move=> [k1 [z1 H1]] [k2 [z2 H2]]. exists (k1 + k2). exists (z1 + z2). rewrite H1 H2. ring.
Qed.

Lemma eqpgm_mul g a a' b b' : eqpgm g a a' -> eqpgm g b b' -> eqpgm g (a * b) (a' * b').
Proof.
  move=> [k1 [z1 H1]] [k2 [z2 H2]].
  exists (k1 * b' + a' * k2 + PZ g * k1 * k2).
  exists (z1 * (b' + PZ g * k2) + (a' + PZ g * k1) * z2 + p%:P * z1 * z2).
  rewrite H1 H2. ring.
Qed.

Lemma mulmod_spec x y g r :
  reduced p g -> mulmod x y g p = Done r ->
  eqpgm g (PZ r) (PZ x * PZ y) /\ reduced p r /\ (g <> [::] -> (length r < length g)%coq_nat).
Proof.
  move=> Rg. rewrite /mulmod. case Exy: (poly_mod _ p) => [xy| |] //=.
  case Ed: (poly_divrem xy g p) => [[q' r']| |] //=. case=> <-.
  have Rxy := poly_mod_is_reduced Hpp Exy.
  have [q2 [r2 [E2 [Rr [L1 [_ [z Hz]]]]]]] := divrem_reduced_total Rxy Rg.
  rewrite E2 in Ed. case: Ed => Eq Er. subst q2 r2.
  split; last by [].
  have [z2 Hz2] := PZ_poly_mod Hp0 Exy. rewrite PZ_pmul in Hz2.
  exists (- PZ q'). exists (z2 - z).
  have -> : PZ r' = PZ xy - PZ q' * PZ g - p%:P * z by rewrite Hz; ring.
  rewrite Hz2. ring.
Qed.

Lemma poly_modpow_loop_spec g e : forall product current r,
  reduced p g -> poly_modpow_loop e product current g p = Done r ->
  eqpgm g (PZ r) (PZ product * PZ current ^+ (Pos.to_nat e)).
Proof.
  elim: e => [e IH|e IH|] product current r Rg /=.
  - case E1: (mulmod product current g p) => [pr| |] //=.
    case E2: (mulmod current current g p) => [cu| |] //= H.
    have [M1 _] := mulmod_spec Rg E1. have [M2 _] := mulmod_spec Rg E2.
    apply: eqpgm_trans (IH _ _ _ Rg H) _.
    have -> : Pos.to_nat e~1 = (Pos.to_nat e).*2.+1 by lia.
    rewrite exprS -mul2n exprM mulrA expr2.
    apply: eqpgm_mul => //.
    elim: (Pos.to_nat e) => [|n IHn]; first by rewrite !expr0; exact: eqpgm_refl.
    rewrite !exprS. exact: eqpgm_mul.
  - case E2: (mulmod current current g p) => [cu| |] //= H.
    have [M2 _] := mulmod_spec Rg E2.
    apply: eqpgm_trans (IH _ _ _ Rg H) _.
    have -> : Pos.to_nat e~0 = (Pos.to_nat e).*2 by lia.
    rewrite -mul2n exprM expr2.
    apply: eqpgm_mul; first exact: eqpgm_refl.
    elim: (Pos.to_nat e) => [|n IHn]; first by rewrite !expr0; exact: eqpgm_refl.
    rewrite !exprS. exact: eqpgm_mul.
  - case E1: (mulmod product current g p) => [pr| |] //=.
    case E2: (mulmod current current g p) => [cu| |] //=. case=> <-.
    have [M1 _] := mulmod_spec Rg E1. by rewrite expr1.
Qed.

(** [P] [poly_modpow_spec]: for e > 0 the result is x^e modulo (g, p), reduced, shorter than g. *)
Theorem poly_modpow_spec x e g r :
  reduced p g -> (0 < e)%ZZ -> poly_modpow x e g p = Done r ->
  eqpgm g (PZ r) (PZ x ^+ (Z.to_nat e)) /\ reduced p r.
Proof.
  move=> Rg He H. split; last exact: (poly_modpow_reduced Hp Rg H).
  move: H. rewrite /poly_modpow. case: e He => [|e|e] // _ H.
  have := poly_modpow_loop_spec Rg H.
  rewrite PZ_from_mono mul1r. by rewrite Z2Nat.inj_pos.
Qed.

End Prime.
