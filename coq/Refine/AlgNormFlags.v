(** * AlgNormFlags: the boolean table flags used as hypotheses by the C16 theorems
    ([Ideal.table_shape], [Ideal.table_comm], [IdealLaws.table_assoc]) follow from
    commutativity / associativity of [MultTable::mul] on all vectors, and conversely
    ([bil] of IdealMul.v and [tmul] of AlgNormMx.v are the same function on well-shaped
    input: both are the value of [mt_mul]).  Style: ssreflect over the stdlib-list
    statements of IdealMul.v / IdealLaws.v. *)
From Coq Require Import ZArith List.
From RNT.Model Require Import Base MultTable.
From RNT.Model Require Hnf Ideal.
From mathcomp Require Import all_ssreflect ssralg.
From mathcomp Require Import ssrZ zify.
From RNT.Refine Require Import MultTableOps.
From RNT.Refine Require AlgNormMx AlgNormInv IdealMul IdealLaws IdealSpec.
Set Implicit Arguments.
Unset Strict Implicit.
Unset Printing Implicit Defensive.

Section Flags.
Variables (n : nat) (t : table).
Hypothesis ct : cube n t.

Notation tmul := (AlgNormMx.tmul t n).
Notation e := (Ideal.unit_vec n).

Lemma cube_length : length t = n.
Proof. by case/andP: ct => /eqP. Qed.

Lemma cube_tshape : IdealMul.tshape t.
Proof.
rewrite /IdealMul.tshape cube_length.
apply/List.Forall_forall => ti /(@List.In_nth _ _ _ [::]) [i []]; rewrite cube_length => /ltP hi <-.
rewrite Lnth_eq'' Llength_eq' (cube_row ct hi); split=> //.
apply/List.Forall_forall => r /(@List.In_nth _ _ _ [::]) [j []].
rewrite Llength_eq' (cube_row ct hi) => /ltP hj <-.
by rewrite Lnth_eq'' Llength_eq' (cube_cell ct hi hj).
Qed.

Lemma cube_table_shape : Ideal.table_shape t = true.
Proof.
rewrite /Ideal.table_shape /mt_deg cube_length.
apply/List.forallb_forall => ti /(@List.In_nth _ _ _ [::]) [i []]; rewrite cube_length => /ltP hi <-.
rewrite Lnth_eq'' Llength_eq' (cube_row ct hi) Nat.eqb_refl /=.
apply/List.forallb_forall => r /(@List.In_nth _ _ _ [::]) [j []].
rewrite Llength_eq' (cube_row ct hi) => /ltP hj <-.
by rewrite Lnth_eq'' Llength_eq' (cube_cell ct hi hj) Nat.eqb_refl.
Qed.

Lemma bil_tmul (a b : seq Z) : size a = n -> size b = n -> IdealMul.bil t a b = tmul a b.
Proof.
move=> sa sb.
have := @IdealMul.mt_mul_bil Checked t a b cube_tshape.
rewrite cube_length (AlgNormMx.mt_mul_tmul Checked ct sa sb) => h.
by case: (h sa sb).
Qed.

Lemma entry_tmul i j : (i < n)%N -> (j < n)%N -> Ideal.table_entry t i j = tmul (e i) (e j).
Proof.
move=> hi hj; rewrite -bil_tmul ?AlgNormMx.size_unit_vec //.
have := @IdealMul.bil_units t i j cube_tshape; rewrite cube_length => -> //; exact/ltP.
Qed.

Lemma seq_lt i : List.In i (List.seq 0 n) -> (i < n)%N.
Proof. by case/List.in_seq => _ /ltP. Qed.

Theorem tcomm_flag : AlgNormMx.tcomm t n -> Ideal.table_comm t = true.
Proof.
move=> hc; rewrite /Ideal.table_comm /mt_deg cube_length.
apply/List.forallb_forall => i /seq_lt hi; apply/List.forallb_forall => j /seq_lt hj.
rewrite !entry_tmul // (hc (e i) (e j)) ?AlgNormMx.size_unit_vec //.
by apply: IdealSpec.list_eqb_refl; exact: Z.eqb_refl.
Qed.

Theorem tassoc_flag : AlgNormMx.tassoc t n -> IdealLaws.table_assoc t = true.
Proof.
move=> ha; rewrite /IdealLaws.table_assoc cube_length.
apply/List.forallb_forall => i /seq_lt hi; apply/List.forallb_forall => j /seq_lt hj.
apply/List.forallb_forall => k /seq_lt hk.
rewrite !entry_tmul // !bil_tmul ?AlgNormMx.size_tmul ?AlgNormMx.size_unit_vec //.
rewrite ha ?AlgNormMx.size_unit_vec //.
by apply: IdealSpec.list_eqb_refl; exact: Z.eqb_refl.
Qed.

(** conversely, the flags give the laws on all vectors (IdealMul.bil_comm, IdealLaws.bil_assoc) *)
Theorem flag_tcomm : Ideal.table_comm t = true -> AlgNormMx.tcomm t n.
Proof.
move=> hf x y sx sy; rewrite -!bil_tmul //.
by apply: IdealMul.bil_comm => //; rewrite ?cube_length //; exact: cube_tshape.
Qed.

Theorem flag_tassoc : IdealLaws.table_assoc t = true -> AlgNormMx.tassoc t n.
Proof.
move=> hf x y z sx sy sz.
have sbil u v : size (IdealMul.bil t u v) = n.
  by rewrite -Llength_eq' (@IdealMul.bil_length t u v cube_tshape) cube_length.
rewrite -!bil_tmul ?AlgNormMx.size_tmul ?sbil //.
by apply: IdealLaws.bil_assoc => //; rewrite ?cube_length //; exact: cube_tshape.
Qed.

End Flags.

(** the laws of AlgNormMx.v with the boolean flags as hypotheses *)
From mathcomp Require Import matrix.
Import GRing.Theory.
Local Open Scope ring_scope.

Theorem flag_norm_mul m n t a b : cube n t -> IdealLaws.table_assoc t = true ->
  size a = n -> size b = n ->
  exists ab na nb, [/\ mt_mul m t a b = Done ab, mt_norm t a = Done na, mt_norm t b = Done nb
                     & mt_norm t ab = Done (na * nb)].
Proof. by move=> ct hf; apply: AlgNormMx.mt_norm_mul => //; apply: flag_tassoc. Qed.

Theorem flag_trace n t a : cube n t -> Ideal.table_comm t = true -> size a = n ->
  mt_trace t a = Done (\tr (AlgNormMx.Mrep t n a)).
Proof. by move=> ct hf; apply: AlgNormMx.mt_trace_Mrep => //; apply: flag_tcomm. Qed.

Theorem flag_inv_cancel m n t a b d : cube n t -> IdealLaws.table_assoc t = true ->
  (forall v, size v = n -> mt_mul m t v (Ideal.unit_vec n 0) = Done v) ->
  size a = n -> mt_inv t a = Done (b, d) ->
  forall c, size c = n ->
  exists2 ca, mt_mul m t c a = Done ca & mt_mul m t ca b = Done (vscale d c).
Proof. by move=> ct hf; apply: AlgNormInv.mt_inv_cancel => //; apply: flag_tassoc. Qed.

Theorem flag_rep_mul m n t a b ab : cube n t -> IdealLaws.table_assoc t = true ->
  size a = n -> size b = n -> mt_mul m t a b = Done ab ->
  AlgNormMx.Mrep t n ab = AlgNormMx.Mrep t n b *m AlgNormMx.Mrep t n a.
Proof.
move=> ct hf sa sb; rewrite (AlgNormMx.mt_mul_tmul m ct sa sb) => -[<-].
by apply: AlgNormMx.Mrep_tmul => //; apply: flag_tassoc.
Qed.
