(** Round 2 step, third wave (C06): what [kernel_hnf_trunc] and [compute_i_p] compute, as lattices
    (stdlib + lia; built on the HNF development: [hnf_new_correct], [kernel_annihilates],
    [kernel_basis]). *)
From RNT.Model Require Import Base Poly Algebraic LinAlg MultTable Order Round2.
From RNT.Model Require Hnf.
From RNT.Refine Require Import MatZ HnfSpec HnfMain HnfKernel HnfTotal HnfUnique.
From RNT.Refine Require Import Round2Basic Round2Index Round2Lattice.
From Coq Require Import Lia.
Open Scope Z_scope.

(** ** [HNF::new] on any rectangular matrix, the empty one included *)
Lemma hnf_new_nil : Hnf.hnf_new [] = Done [].
Proof. reflexivity. Qed.

Lemma wf_shape m (A : mat) : wf m A -> shape (length A) m A.
Proof. intros H. split; [reflexivity|assumption]. Qed.

Lemma hnf_new_any m A H :
  wf m A -> (1 <= m)%nat -> Hnf.hnf_new A = Done H ->
  hnf_rows m 0 H /\ wf m H /\ same_rowspanZ m H A.
Proof.
  intros W Hm E. destruct A as [|a A].
  - rewrite hnf_new_nil in E. injection E as <-.
    split; [constructor|]. split; [constructor|]. intros v. reflexivity.
  - pose proof (wf_shape m (a :: A) W) as S.
    assert (N : (1 <= length (a :: A))%nat) by (cbn; lia).
    apply hnf_new_Done in E. destruct E as [U [k E]].
    destruct (hnf_with_u_correct _ _ _ _ _ _ S N Hm E) as [HR _].
    split; [assumption|]. split; [apply hnf_rows_wf with 0%nat; assumption|].
    apply (hnf_lattice _ _ _ _ _ _ S N Hm E).
Qed.

Lemma hnf_new_any_total m A : wf m A -> (1 <= m)%nat -> exists H, Hnf.hnf_new A = Done H.
Proof.
  intros W Hm. destruct A as [|a A]; [exists []; reflexivity|].
  apply (hnf_new_total (a :: A) (length (a :: A)) m); [apply wf_shape; assumption|cbn; lia|assumption].
Qed.

(** a normal form with [m] columns has at most [m] rows *)
Lemma hnf_rows_length m lo H : hnf_rows m lo H -> (lo + length H <= m)%nat \/ H = [].
Proof.
  induction 1 as [|lo p r H Hp Hl Hpos Hz Hb HH IH]; [right; reflexivity|].
  left. destruct IH as [IH| ->]; cbn [length]; lia.
Qed.

Lemma hnf_rows_length_le m H : hnf_rows m 0 H -> (length H <= m)%nat.
Proof. intros HH. destruct (hnf_rows_length m 0 H HH) as [L| ->]; cbn; lia. Qed.

(** ** small facts on [lincomb] *)
Lemma lincomb_zero_mat m : forall k c, lincomb m c (repeat (vzero m) k) = vzero m.
Proof.
  induction k as [|k IH]; intros c; [apply lincomb_nil_r|].
  destruct c as [|c0 c]; [reflexivity|]. cbn [repeat lincomb]. rewrite IH.
  apply vzero_all.
  - rewrite vadd_length; rewrite vscale_length, vzero_length; reflexivity.
  - intros i Hi. rewrite nth_vadd by (rewrite vscale_length, !vzero_length; reflexivity).
    rewrite nth_vscale, nth_vzero. lia.
Qed.

Lemma firstn_map2 {A B C} (f : A -> B -> C) : forall w a b,
  firstn w (map2 f a b) = map2 f (firstn w a) (firstn w b).
Proof.
  induction w as [|w IH]; intros a b; [reflexivity|].
  destruct a as [|x a]; [reflexivity|]. destruct b as [|y b]; [reflexivity|].
  cbn [map2 firstn]. rewrite IH. reflexivity.
Qed.

Lemma firstn_vzero w n : (w <= n)%nat -> firstn w (vzero n) = vzero w.
Proof.
  unfold vzero. revert n. induction w as [|w IH]; intros n Hn; [reflexivity|].
  destruct n as [|n]; [lia|]. cbn [repeat firstn]. rewrite IH by lia. reflexivity.
Qed.

Lemma firstn_lincomb w n : (w <= n)%nat -> forall c H, wf n H ->
  lincomb w c (map (firstn w) H) = firstn w (lincomb n c H).
Proof.
  intros Hw. induction c as [|c0 c IH]; intros H W.
  - rewrite !lincomb_nil_l. symmetry. apply firstn_vzero. assumption.
  - destruct H as [|r H]; [cbn [map]; rewrite !lincomb_nil_r; symmetry; apply firstn_vzero; assumption|].
    apply wf_cons in W. destruct W as [Hr W]. cbn [map lincomb].
    rewrite IH by assumption. unfold vadd. rewrite firstn_map2. f_equal.
    unfold vscale. rewrite firstn_map. reflexivity.
Qed.

Lemma lincomb_map_vscale m p : forall c A, wf m A ->
  lincomb m c (map (vscale p) A) = vscale p (lincomb m c A).
Proof.
  induction c as [|c0 c IH]; intros A W.
  - rewrite !lincomb_nil_l. apply vec_ext with m; [apply vzero_length|rewrite vscale_length; apply vzero_length|].
    intros i Hi. rewrite nth_vscale, !nth_vzero. lia.
  - destruct A as [|r A].
    + cbn [map]. rewrite !lincomb_nil_r. apply vec_ext with m; [apply vzero_length|rewrite vscale_length; apply vzero_length|].
      intros i Hi. rewrite nth_vscale, !nth_vzero. lia.
    + pose proof W as W'. apply wf_cons in W. destruct W as [Hr W]. cbn [map].
      assert (Wp : wf m (map (vscale p) A)).
      { apply Forall_forall. intros x Hx. apply in_map_iff in Hx. destruct Hx as [y [<- Hy]].
        rewrite vscale_length. unfold wf in W. rewrite Forall_forall in W. apply W. assumption. }
      apply vec_ext with m.
      * apply lincomb_length. apply wf_cons. split; [rewrite vscale_length; assumption|assumption].
      * rewrite vscale_length. apply lincomb_length. assumption.
      * intros i Hi. rewrite nth_lincomb_cons by (try rewrite vscale_length; assumption).
        rewrite IH by assumption. rewrite !nth_vscale. rewrite nth_lincomb_cons by assumption. lia.
Qed.

Lemma p_rows_idmat deg p : p_rows deg p = map (vscale p) (idmat deg).
Proof.
  unfold p_rows, idmat. rewrite map_map. apply map_ext. intros i.
  unfold vscale, unit_from. rewrite map_map. apply map_ext. intros j.
  destruct (Nat.eqb_spec j i); destruct (Nat.eqb_spec i j); lia.
Qed.

Lemma lincomb_p_rows deg p y : length y = deg -> lincomb deg y (p_rows deg p) = vscale p y.
Proof.
  intros Hy. rewrite p_rows_idmat, lincomb_map_vscale by apply idmat_shape.
  rewrite lincomb_idmat_r by assumption. reflexivity.
Qed.

(** ** [kernel_hnf_trunc]: the projection, on the first [w] coordinates, of the integer left kernel *)
Lemma kernel_hnf_trunc_spec M n m w R :
  shape n m M -> (1 <= n)%nat -> (1 <= m)%nat -> (w <= n)%nat ->
  kernel_hnf_trunc M w = Done R ->
  wf w R /\
  forall x, In_rowspanZ w x R <->
            exists v, length v = n /\ lincomb m v M = vzero m /\ x = firstn w v.
Proof.
  intros S Hn Hm Hw E. unfold kernel_hnf_trunc in E.
  destruct (Hnf.hnf_kernel M) as [ker| |] eqn:EK; cbn [bind] in E; try discriminate.
  destruct (Hnf.hnf_new ker) as [h| |] eqn:EH; cbn [bind] in E; try discriminate.
  injection E as <-.
  destruct (kernel_annihilates M n m ker S Hn Hm EK) as [H [U [k [EU [Eker [Lk [Hk [Wk Ann]]]]]]]].
  destruct (kernel_basis M n m H U k S Hn Hm EU) as [_ Sat]. cbn zeta in Sat. rewrite <- Eker in Sat.
  assert (Hn' : (1 <= n)%nat) by assumption.
  destruct (hnf_new_any n ker h Wk Hn' EH) as [HR [Wh Span]].
  split.
  { apply Forall_forall. intros r Hr. apply in_map_iff in Hr. destruct Hr as [r' [<- Hr']].
    rewrite firstn_length. unfold wf in Wh. rewrite Forall_forall in Wh. rewrite (Wh r' Hr'). lia. }
  intros x. split.
  - intros [c [Lc ->]]. rewrite map_length in Lc.
    exists (lincomb n c h). split; [apply lincomb_length; assumption|]. split.
    + assert (IS : In_rowspanZ n (lincomb n c h) ker) by (apply Span; exists c; auto).
      destruct IS as [d [Ld ->]].
      rewrite lincomb_assoc with (n := n) by (assumption || apply S).
      rewrite Ann. apply lincomb_zero_mat.
    + apply firstn_lincomb; assumption.
  - intros [v [Lv [Zv ->]]].
    assert (IS : In_rowspanZ n v h) by (apply Span; apply Sat; assumption).
    destruct IS as [c [Lc ->]]. exists c. split; [rewrite map_length; assumption|].
    symmetry. apply firstn_lincomb; assumption.
Qed.

Lemma kernel_hnf_trunc_total M n m w :
  shape n m M -> (1 <= n)%nat -> (1 <= m)%nat -> exists R, kernel_hnf_trunc M w = Done R.
Proof.
  intros S Hn Hm. unfold kernel_hnf_trunc.
  destruct (hnf_kernel_total M n m S Hn Hm) as [ker EK]. rewrite EK. cbn [bind].
  destruct (kernel_annihilates M n m ker S Hn Hm EK) as [H [U [k [_ [_ [_ [_ [Wk _]]]]]]]].
  destruct (hnf_new_any_total n ker Wk Hn) as [h EH]. rewrite EH. cbn [bind]. eauto.
Qed.

(** ** [copy_block] *)
Lemma nth_firstn_lt {A} (d : A) : forall n l i, (i < n)%nat -> nth i (firstn n l) d = nth i l d.
Proof.
  induction n as [|n IH]; intros l i Hi; [lia|].
  destruct l as [|x l]; [reflexivity|]. destruct i as [|i]; [reflexivity|].
  cbn [firstn nth]. apply IH. lia.
Qed.

Lemma mapM_nth_chk_firstn {A} (r : list A) n row :
  mapM (fun j => nth_chk r j) (seq 0 n) = Done row -> (n <= length r)%nat /\ row = firstn n r.
Proof.
  intros H. destruct n as [|n].
  { cbn in H. injection H as <-. split; [lia|reflexivity]. }
  destruct r as [|x0 r0] eqn:Er.
  { cbn in H. discriminate. }
  rewrite <- Er in *. clear Er r0.
  apply mapM_seq_Done in H. destruct H as [L N].
  assert (Ln : (S n <= length r)%nat).
  { specialize (N n x0 ltac:(lia)). cbn [plus] in N. apply (nth_chk_Done _ _ _ x0) in N. lia. }
  split; [assumption|].
  apply nth_ext with (d := x0) (d' := x0).
  - rewrite firstn_length. lia.
  - intros i Hi. rewrite L in Hi. specialize (N i x0 Hi). cbn [plus] in N.
    apply (nth_chk_Done _ _ _ x0) in N. destruct N as [_ N]. rewrite <- N.
    rewrite nth_firstn_lt by assumption. reflexivity.
Qed.

Lemma copy_block_spec deg (phiw top : Hnf.mat) :
  copy_block deg phiw = Done top ->
  shape deg deg top /\ (deg <= length phiw)%nat /\
  forall i, (i < deg)%nat -> (deg <= length (nth i phiw []))%nat /\ row top i = firstn deg (nth i phiw []).
Proof.
  unfold copy_block. intros H. apply mapM_seq_Done in H. destruct H as [L N].
  assert (R : forall i, (i < deg)%nat ->
            (i < length phiw)%nat /\ (deg <= length (nth i phiw []))%nat /\ row top i = firstn deg (nth i phiw [])).
  { intros i Hi. specialize (N i [] Hi). cbn [plus] in N.
    destruct (nth_chk phiw i) as [r| |] eqn:Er; cbn [bind] in N; try discriminate.
    apply (nth_chk_Done _ _ _ []) in Er. destruct Er as [Li <-].
    apply mapM_nth_chk_firstn in N. unfold row. tauto. }
  split; [split; [assumption|]|split].
  - apply Forall_forall. intros r Hr. destruct (In_nth _ _ [] Hr) as [i [Hi <-]]. rewrite L in Hi.
    destruct (R i Hi) as [_ [A B]]. unfold row in B. rewrite B, firstn_length. lia.
  - destruct deg as [|d]; [lia|]. destruct (R d ltac:(lia)) as [A _]. lia.
  - intros i Hi. destruct (R i Hi) as [_ B]. exact B.
Qed.

(** ** [compute_i_p]: the lattice I_p *)
Lemma divide_factor p z : (p | z) -> z = p * (z / p).
Proof.
  intros D. destruct (Z.eq_dec p 0) as [->|N].
  - destruct D as [q ->]. rewrite Z.mul_0_r. reflexivity.
  - apply Z.div_exact; [assumption|]. apply Z.mod_divide; assumption.
Qed.

(** [P] compute_i_p_spec.  [Phi] is the [deg x deg] block copied from the vectors
    [pow_mod_p (unit_vec deg i) pow tbl p] (row i = the first [deg] coordinates of e_i ^ pow computed with the
    table mod p).  The rows returned generate exactly the lattice
    { x in Z^deg : sum_i x_i Phi_i = 0 (mod p) }. *)
Theorem compute_i_p_spec deg p pow tbl i_p :
  (1 <= deg)%nat -> compute_i_p deg p pow tbl = Done i_p ->
  exists Phi,
    shape deg deg Phi /\
    (forall i, (i < deg)%nat -> exists r, pow_mod_p (unit_vec deg i) pow tbl p = Done r /\
                                          (deg <= length r)%nat /\ row Phi i = firstn deg r) /\
    wf deg i_p /\
    forall x, In_rowspanZ deg x i_p <->
              length x = deg /\ forall k, (k < deg)%nat -> (p | nth k (lincomb deg x Phi) 0).
Proof.
  intros D1 E. unfold compute_i_p in E.
  destruct (mapM (fun i => pow_mod_p (unit_vec deg i) pow tbl p) (seq 0 deg)) as [phiw| |] eqn:EP;
    cbn [bind] in E; try discriminate.
  destruct (copy_block deg phiw) as [top| |] eqn:EC; cbn [bind] in E; try discriminate.
  apply copy_block_spec in EC. destruct EC as [[Lt Wt] [Lphi Rt]].
  apply mapM_seq_Done in EP. destruct EP as [_ NP].
  destruct (p_rows_shape deg p) as [Lp Wp].
  assert (SM : shape (deg + deg) deg (top ++ p_rows deg p)).
  { split; [rewrite app_length; lia|apply wf_app; split; assumption]. }
  destruct (kernel_hnf_trunc_spec _ _ _ deg _ SM ltac:(lia) D1 ltac:(lia) E) as [Wi Sp].
  exists top. split; [split; assumption|]. split.
  { intros i Hi. exists (nth i phiw []). split; [apply (NP i [] Hi)|]. apply Rt. assumption. }
  split; [assumption|]. intros x. rewrite Sp. split.
  - intros [v [Lv [Zv ->]]].
    assert (Lf : length (firstn deg v) = deg) by (rewrite firstn_length; lia).
    split; [assumption|]. intros k Hk.
    rewrite <- (firstn_skipn deg v) in Zv.
    rewrite lincomb_app in Zv by (assumption || lia).
    rewrite lincomb_p_rows in Zv by (rewrite skipn_length; lia).
    apply (f_equal (fun l => nth k l 0)) in Zv.
    rewrite nth_vzero, nth_vadd, nth_vscale in Zv
      by (rewrite vscale_length, skipn_length, lincomb_length by assumption; lia).
    exists (- nth k (skipn deg v) 0). lia.
  - intros [Lx Dv].
    set (y := map (fun z => - (z / p)) (lincomb deg x top)).
    assert (Ly : length y = deg) by (unfold y; rewrite map_length; apply lincomb_length; assumption).
    exists (x ++ y). split; [rewrite app_length; lia|]. split.
    + rewrite lincomb_app by (assumption || lia). rewrite lincomb_p_rows by assumption.
      apply vzero_all.
      * rewrite vadd_length; rewrite ?vscale_length, lincomb_length by assumption; lia.
      * intros k Hk. rewrite nth_vadd, nth_vscale by (rewrite vscale_length, lincomb_length by assumption; lia).
        unfold y. rewrite nth_map_Z by reflexivity.
        pose proof (divide_factor _ _ (Dv k Hk)). lia.
    + rewrite firstn_app, firstn_all2 by lia. rewrite Lx, Nat.sub_diag. cbn [firstn]. rewrite app_nil_r. reflexivity.
Qed.

(** [P] easy consequences: p Z^deg is contained in I_p; every row of I_p is annihilated mod p *)
Corollary i_p_contains_p deg p pow tbl i_p y :
  (1 <= deg)%nat -> compute_i_p deg p pow tbl = Done i_p -> length y = deg ->
  In_rowspanZ deg (vscale p y) i_p.
Proof.
  intros D1 E Ly. destruct (compute_i_p_spec deg p pow tbl i_p D1 E) as [Phi [[Lt Wt] [_ [_ Sp]]]].
  apply Sp. split; [rewrite vscale_length; assumption|]. intros k Hk.
  rewrite lincomb_scale by assumption. rewrite nth_vscale. exists (nth k (lincomb deg y Phi) 0). lia.
Qed.

Corollary i_p_rows_annihilated deg p pow tbl i_p :
  (1 <= deg)%nat -> compute_i_p deg p pow tbl = Done i_p ->
  exists Phi,
    shape deg deg Phi /\
    (forall i, (i < deg)%nat -> exists r, pow_mod_p (unit_vec deg i) pow tbl p = Done r /\
                                          (deg <= length r)%nat /\ row Phi i = firstn deg r) /\
    forall t, (t < length i_p)%nat -> forall k, (k < deg)%nat -> (p | nth k (lincomb deg (row i_p t) Phi) 0).
Proof.
  intros D1 E. destruct (compute_i_p_spec deg p pow tbl i_p D1 E) as [Phi [S [R [Wi Sp]]]].
  exists Phi. split; [assumption|]. split; [assumption|]. intros t Ht.
  apply Sp. apply row_in_span; assumption.
Qed.

(** When the power map is additive mod p on the order (it is when the table is that of a commutative
    ring and p is prime: x -> x^(p^k) is the k-th power of Frobenius; this is an hypothesis here),
    I_p is the set of x with x^pow = 0 (mod p), [x^pow] computed by the model's own [pow_mod_p]. *)
Definition pow_linear (deg : nat) (p pow : Z) (tbl : table) (Phi : mat) : Prop :=
  forall x, length x = deg ->
    exists r, pow_mod_p x pow tbl p = Done r /\
              forall k, (k < deg)%nat -> (p | nth k r 0 - nth k (lincomb deg x Phi) 0).

Corollary compute_i_p_radical deg p pow tbl i_p :
  (1 <= deg)%nat -> compute_i_p deg p pow tbl = Done i_p ->
  exists Phi,
    shape deg deg Phi /\
    (forall i, (i < deg)%nat -> exists r, pow_mod_p (unit_vec deg i) pow tbl p = Done r /\
                                          (deg <= length r)%nat /\ row Phi i = firstn deg r) /\
    (pow_linear deg p pow tbl Phi ->
     forall x, In_rowspanZ deg x i_p <->
               length x = deg /\ exists r, pow_mod_p x pow tbl p = Done r /\
                                           forall k, (k < deg)%nat -> (p | nth k r 0)).
Proof.
  intros D1 E. destruct (compute_i_p_spec deg p pow tbl i_p D1 E) as [Phi [S [R [Wi Sp]]]].
  exists Phi. split; [assumption|]. split; [assumption|]. intros PL x. rewrite Sp. split.
  - intros [Lx Dv]. split; [assumption|]. destruct (PL x Lx) as [r [Er Dr]]. exists r. split; [assumption|].
    intros k Hk. replace (nth k r 0) with ((nth k r 0 - nth k (lincomb deg x Phi) 0) + nth k (lincomb deg x Phi) 0) by lia.
    apply Z.divide_add_r; auto.
  - intros [Lx [r [Er Dr]]]. split; [assumption|]. destruct (PL x Lx) as [r' [Er' Dr']].
    rewrite Er in Er'. injection Er' as <-. intros k Hk.
    replace (nth k (lincomb deg x Phi) 0) with (nth k r 0 - (nth k r 0 - nth k (lincomb deg x Phi) 0)) by lia.
    apply Z.divide_sub_r; auto.
Qed.
