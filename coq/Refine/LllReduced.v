(** C20: what the model-computed flag [is_lll_reduced] means (stdlib + lia). *)
From RNT.Model Require Import Base Lll.
From Coq Require Import Lia QArith Qcanon.
Open Scope Z_scope.

Definition gs_dflt : list Qc * list Qc := ([], []).
(** |b*_i|^2 and mu_ij read off the Gram-Schmidt table *)
Definition gs_norm (g : list (list Qc * list Qc)) (i : nat) : Qc :=
  qdot (fst (nth i g gs_dflt)) (fst (nth i g gs_dflt)).
Definition gs_mu (g : list (list Qc * list Qc)) (i j : nat) : Qc :=
  nth j (snd (nth i g gs_dflt)) (Q2Qc 0).

(** LLL-reduced with parameter [delta]: the Gram-Schmidt vectors are non-zero, |mu_ij| <= 1/2 for
    j < i, and (delta - mu_{i+1,i}^2) |b*_i|^2 <= |b*_{i+1}|^2. *)
Definition lll_reduced_prop (delta : Qc) (b : list (list Qc)) : Prop :=
  let g := gram_schmidt b in
  length g = length b /\
  (forall i, (i < length b)%nat -> Qclt (Q2Qc 0) (gs_norm g i)) /\
  (forall i j, (j < i)%nat -> (i < length b)%nat -> Qcle (Qc_abs (gs_mu g i j)) Qc_half) /\
  (forall i, (S i < length b)%nat ->
     Qcle (Qcmult (Qcminus delta (Qcmult (gs_mu g (S i) i) (gs_mu g (S i) i))) (gs_norm g i)) (gs_norm g (S i))).

(** shape of the table: row i carries i coefficients *)
Lemma gs_row_length prev bi : forall acc, length (snd (gs_row prev bi acc)) = length prev.
Proof.
  induction prev as [|bs prev IH]; intros acc; cbn [gs_row]; [reflexivity|].
  specialize (IH (qaxpy (Qcdiv (qdot bi bs) (qdot bs bs)) bs acc)).
  destruct (gs_row prev bi (qaxpy (Qcdiv (qdot bi bs) (qdot bs bs)) bs acc)) as [r mus]. cbn [snd length] in *. lia.
Qed.

Lemma gs_from_length rows : forall prev, length (gs_from prev rows) = length rows.
Proof.
  induction rows as [|bi rows IH]; intros prev; cbn [gs_from]; [reflexivity|].
  destruct (gs_row prev bi bi) as [bs mus]. cbn [length]. rewrite IH. reflexivity.
Qed.

Lemma gs_from_mus_length rows : forall prev i, (i < length rows)%nat ->
  length (snd (nth i (gs_from prev rows) gs_dflt)) = (length prev + i)%nat.
Proof.
  induction rows as [|bi rows IH]; intros prev i Hi; cbn [length] in Hi; [lia|].
  cbn [gs_from]. pose proof (gs_row_length prev bi bi) as L.
  destruct (gs_row prev bi bi) as [bs mus]. cbn [snd] in L.
  destruct i as [|i]; cbn [nth snd]; [lia|].
  rewrite IH by lia. rewrite app_length. cbn [length]. lia.
Qed.

Lemma last_nth {A} (l : list A) d : last l d = nth (length l - 1) l d.
Proof.
  induction l as [|a l IH]; [reflexivity|].
  destruct l as [|b l]; [reflexivity|].
  change (last (a :: b :: l) d) with (last (b :: l) d). rewrite IH. cbn [length].
  replace (S (S (length l)) - 1)%nat with (S (S (length l) - 1)) by lia. reflexivity.
Qed.

Lemma Qc_leb_le a b : Qc_leb a b = true -> Qcle a b.
Proof. unfold Qc_leb. intros H. apply Qle_bool_iff in H. exact H. Qed.

Lemma nondegenerate_spec g : nondegenerate g = true ->
  forall i, (i < length g)%nat -> Qclt (Q2Qc 0) (gs_norm g i).
Proof.
  unfold nondegenerate. intros H i Hi. rewrite forallb_forall in H.
  specialize (H (nth i g gs_dflt) (nth_In g gs_dflt Hi)).
  apply Bool.negb_true_iff in H. unfold gs_norm, Qc_leb in *.
  apply Qnot_le_lt. intros L. apply Qle_bool_iff in L. congruence.
Qed.

Lemma size_ok_spec eps g : size_ok eps g = true ->
  forall i j, (i < length g)%nat -> (j < length (snd (nth i g gs_dflt)))%nat ->
  Qcle (Qc_abs (gs_mu g i j)) (Qcplus Qc_half eps).
Proof.
  unfold size_ok. intros H i j Hi Hj. rewrite forallb_forall in H.
  specialize (H (nth i g gs_dflt) (nth_In g gs_dflt Hi)). rewrite forallb_forall in H.
  apply Qc_leb_le. apply H. unfold gs_mu. apply nth_In. exact Hj.
Qed.

Lemma lovasz_ok_spec delta eps : forall g, lovasz_ok delta eps g = true ->
  forall i, (S i < length g)%nat ->
  Qcle (Qcmult (Qcminus (Qcminus delta eps)
                  (Qcmult (last (snd (nth (S i) g gs_dflt)) (Q2Qc 0)) (last (snd (nth (S i) g gs_dflt)) (Q2Qc 0))))
               (gs_norm g i)) (gs_norm g (S i)).
Proof.
  induction g as [|[bs0 mus0] g IH]; intros H i Hi; cbn [length] in Hi; [lia|].
  destruct g as [|[bs1 mus1] g']; cbn [length] in Hi; [lia|].
  cbn [lovasz_ok] in H. apply andb_prop in H. destruct H as [H1 H2].
  destruct i as [|i].
  - unfold gs_norm. cbn [nth fst snd]. apply Qc_leb_le. exact H1.
  - specialize (IH H2 i). unfold gs_norm in *. cbn [nth] in *. apply IH. cbn [length]. lia.
Qed.

Theorem is_lll_reduced_spec b : is_lll_reduced b = true -> lll_reduced_prop Qc_34 b.
Proof.
  unfold is_lll_reduced, is_lll_reduced_eps, lll_reduced_prop. intros H.
  apply andb_prop in H. destruct H as [H H3]. apply andb_prop in H. destruct H as [H1 H2].
  assert (Lg : length (gram_schmidt b) = length b) by (apply gs_from_length).
  assert (Lm : forall i, (i < length b)%nat -> length (snd (nth i (gram_schmidt b) gs_dflt)) = i).
  { intros i Hi. unfold gram_schmidt. rewrite gs_from_mus_length by exact Hi. reflexivity. }
  split; [exact Lg|]. split; [|split].
  - intros i Hi. apply nondegenerate_spec; [exact H1|lia].
  - intros i j Hj Hi. pose proof (size_ok_spec _ _ H2 i j) as S.
    rewrite Lg, Lm in S by exact Hi. specialize (S Hi Hj).
    replace (Qcplus Qc_half (Q2Qc 0)) with Qc_half in S by ring. exact S.
  - intros i Hi. pose proof (lovasz_ok_spec _ _ _ H3 i) as L. rewrite Lg in L. specialize (L Hi).
    rewrite last_nth, Lm in L by exact Hi.
    replace (S i - 1)%nat with i in L by lia.
    replace (Qcminus Qc_34 (Q2Qc 0)) with Qc_34 in L by ring. exact L.
Qed.

(** [C] the run of the exact model with its flag *)
Theorem lll_reduced_partial : forall (B B' : list (list Qc)) (H : list (list Z)),
  lll_exact_checked B = Done (B', H, true) -> lll_reduced_prop Qc_34 B'.
Proof.
  intros B B' H R. unfold lll_exact_checked in R.
  destruct (lll_exact B) as [[b h]| |]; cbn [bind fst snd] in R; try discriminate.
  inversion R; subst. apply is_lll_reduced_spec. assumption.
Qed.
