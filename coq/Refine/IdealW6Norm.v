(** * IdealW6Norm (C16, sixth wave): the lattice identity norm(I + J) * [index of I cap J] = norm(I) * norm(J) and norm
      multiplicativity for COPRIME ideals (I + J = O) of any order with unit e_0 and commutative associative table.
      For full-rank normal forms A, B (bases of I, J): the unimodular U of the normal form of the stacked matrix [A; B]
      gives U [A; B] = [0; H] (H the basis of I + J), K = U11 A = - U12 B is a basis of the intersection, and
      U [[A, A], [B, 0]] = [[0, K], [H, *]], so |det A| |det B| = |det H| |det K|.
      Style: ssreflect/MathComp. *)
From Coq Require Import ZArith List.
From mathcomp Require Import all_ssreflect ssralg zmodp matrix mxalgebra.
From mathcomp Require Import ssrZ zify.
From RNT.Model Require Import Base LinAlg MultTable Ideal.
From RNT.Model Require Hnf.
From RNT.Refine Require Import LinAlgQc MatZ HnfOps HnfSpec HnfMain HnfDet HnfCanon IdealMul IdealSpec IdealLaws DetBridge DetHnf.
From RNT.Refine Require Import IdealW6Core IdealW6Dual IdealW6Prod IdealW6Full.
From RNT.Refine Require DecompW3Proper.
Set Implicit Arguments.
Unset Strict Implicit.
Unset Printing Implicit Defensive.
Import GRing.Theory.
Local Open Scope ring_scope.

Lemma list_of_mx r n (M : 'M[Z]_(r, n)) : exists l : list (list Z), shape r n l /\ zmx r n l = M.
Proof.
exists [seq [seq M i j | j <- enum 'I_n] | i <- enum 'I_r]; split.
  split; first by rewrite -[length _]/(size _) size_map size_enum_ord.
  apply/List.Forall_forall => rw /(List.In_nth _ _ [::]) [i [hi <-]].
  move: hi; rewrite -[length _]/(size _) size_map size_enum_ord => /ltP hi.
  by rewrite Lnth_nth (nth_map (Ordinal hi)) ?size_enum_ord // -[length _]/(size _) size_map size_enum_ord.
apply/matrixP => i j; rewrite mxE !Lnth_nth (nth_map i) ?size_enum_ord // (nth_map j) ?size_enum_ord //.
by rewrite !nth_ord_enum.
Qed.

(** det(A) e_i lies in the row lattice of a square A (adjugate) *)
Lemma det_scaled_units n (A : list (list Z)) : shape n n A -> forall i, (i < n)%nat ->
  In_rowspanZ n (MatZ.vscale (\det (zmx n n A)) (unit_vec n i)) A.
Proof.
move=> [lA wA] i hi.
apply/(rowspan_mx _ wA lA); split; first by rewrite MatZ.vscale_length unit_vec_length.
exists (matrix.row (Ordinal hi) (\adj (zmx n n A))).
rewrite -row_mul mul_adj_mx zrv_vscale -[unit_vec n i]/(unit_vec n (nat_of_ord (Ordinal hi))) zrv_unit_vec.
by apply/rowP => j; rewrite !mxE eqxx /= mulr_natr eq_sym.
Qed.

(** ** the determinant identity *)
Section Blocks.
Variable n : nat.
Variables (A B H : 'M[Z]_n) (U : 'M[Z]_(n + n)).
Hypothesis eU : U *m col_mx A B = col_mx 0 H.
Hypothesis dU : \det U = 1%Z \/ \det U = (-1)%Z.

Let U11 := ulsubmx U. Let U12 := ursubmx U. Let U21 := dlsubmx U. Let U22 := drsubmx U.

Lemma blocks_eq : U11 *m A + U12 *m B = 0 /\ U21 *m A + U22 *m B = H.
Proof.
have := eU; rewrite -{1}(submxK U) mul_block_col => /eq_col_mx [e1 e2].
by split.
Qed.

Definition capK : 'M[Z]_n := ulsubmx U *m A.

Lemma capK_B : capK = - (U12 *m B).
Proof. by have [e1 _] := blocks_eq; apply/eqP; rewrite -subr_eq0 opprK; apply/eqP. Qed.

Lemma abs_det_swap (X Y Zm : 'M[Z]_n) :
  Z.abs (\det (block_mx 0 X Y Zm)) = (Z.abs (\det X) * Z.abs (\det Y))%Z.
Proof.
pose P : 'M[Z]_(n + n) := block_mx 0 1%:M 1%:M 0.
have eP : P *m block_mx 0 X Y Zm = block_mx Y Zm 0 X.
  by rewrite mulmx_block !mul0mx !mul1mx !add0r !addr0.
have PP : P *m P = 1%:M.
  by rewrite mulmx_block !mul0mx !mulmx0 !mul1mx !add0r !addr0 -scalar_mx_block.
have dP : Z.abs (\det P) = 1%Z.
  have := congr1 (@matrix.determinant _ _) PP; rewrite det_mulmx det1.
  by move: (\det P) => x hx; have [->|->] := Z.mul_eq_1 _ _ hx.
have := congr1 (fun M => Z.abs (\det M)) eP; rewrite det_mulmx det_ublock /=.
rewrite -[(_ * _)%R]/(_ * _)%Z -[(\det Y * _)%R]/(_ * _)%Z !Z.abs_mul dP Z.mul_1_l => ->; exact: Z.mul_comm.
Qed.

Theorem det_sum_cap : (Z.abs (\det A) * Z.abs (\det B) = Z.abs (\det H) * Z.abs (\det capK))%Z.
Proof.
have [e1 e2] := blocks_eq.
pose W : 'M[Z]_(n + n) := block_mx A A B 0.
have eW : U *m W = block_mx 0 capK H (U21 *m A).
  by rewrite -{1}(submxK U) mulmx_block e1 e2 !mulmx0 !addr0.
have dW : Z.abs (\det W) = (Z.abs (\det A) * Z.abs (\det B))%Z.
  pose E : 'M[Z]_(n + n) := block_mx 1%:M (- 1%:M) 0 1%:M.
  have dE : \det E = 1 by rewrite det_ublock !det1 mulr1.
  have eE : W *m E = block_mx A 0 B (- B).
    by rewrite mulmx_block !mulmx1 !mulmx0 ?mul0mx !addr0 !mulmxN !mulmx1 addNr.
  have := congr1 (@matrix.determinant _ _) eE; rewrite det_mulmx dE mulr1 det_lblock => ->.
  rewrite -scaleN1r detZ.
  have s1 : Z.abs ((-1 : Z) ^+ n) = 1%Z by rewrite -signr_odd; case: (odd n).
  by rewrite -[(\det A * _)%R]/(_ * _)%Z -[((-1) ^+ n * _)%R]/(_ * _)%Z !Z.abs_mul s1 Z.mul_1_l.
have := congr1 (fun M => Z.abs (\det M)) eW; rewrite det_mulmx /= abs_det_swap.
rewrite -[(\det U * _)%R]/(_ * _)%Z Z.abs_mul dW.
by case: dU => ->; lia.
Qed.

(** the rows of K generate the intersection of the row lattices *)
Hypothesis dH : \det H <> 0%Z.

Lemma capK_spans (v : 'rV[Z]_n) :
  (exists c, v = c *m capK) <-> ((exists x, v = x *m A) /\ (exists y, v = y *m B)).
Proof.
split.
  case=> c ->; split; first by exists (c *m U11); rewrite mulmxA.
  by exists (- (c *m U12)); rewrite capK_B mulmxN mulNmx mulmxA.
case=> [[x ex] [y ey]].
have [V [VU UV]] : exists V : 'M[Z]_(n + n), V *m U = 1%:M /\ U *m V = 1%:M.
  exists (\det U *: \adj U); split.
    by rewrite -scalemxAl mul_adj_mx scale_scalar_mx; case: dU => ->.
  by rewrite -scalemxAr mul_mx_adj scale_scalar_mx; case: dU => ->.
pose xy : 'rV[Z]_(n + n) := row_mx x (- y).
have k0 : xy *m col_mx A B = 0 by rewrite mul_row_col mulNmx -ex -ey subrr.
pose c := xy *m V.
have ec : c *m U = xy by rewrite -mulmxA VU mulmx1.
have : c *m (U *m col_mx A B) = 0 by rewrite mulmxA ec k0.
rewrite eU -{1}(hsubmxK c) mul_row_col mulmx0 add0r => /(zmx_regular_row dH) c20.
exists (lsubmx c).
have : xy = row_mx (lsubmx c) 0 *m U by rewrite -c20 hsubmxK.
rewrite -{1}(submxK U) mul_row_block !mul0mx !addr0 => /eq_row_mx [e1 _].
by rewrite ex e1 mulmxA.
Qed.
End Blocks.

(** ** the lists: two full-rank normal forms and the normal form of the stacked matrix *)
Section Lattices.
Variables (n : nat) (A B H : list (list Z)).
Hypothesis n1 : (1 <= n)%coq_nat.
Hypothesis hrA : hnf_rows n 0 A.
Hypothesis hrB : hnf_rows n 0 B.
Hypothesis lA : length A = n.
Hypothesis lB : length B = n.
Hypothesis EH : Hnf.hnf_new (List.app A B) = Done H.

Let wA := hnf_rows_wf n 0 A hrA.
Let wB := hnf_rows_wf n 0 B hrB.

Theorem lattice_sum_cap :
  exists K : list (list Z),
    [/\ shape n n K,
        forall v, In_rowspanZ n v K <-> (In_rowspanZ n v A /\ In_rowspanZ n v B),
        length H = n
      & (Z.abs (\det (zmx n n A)) * Z.abs (\det (zmx n n B))
         = Z.abs (\det (zmx n n H)) * Z.abs (\det (zmx n n K)))%Z].
Proof.
have sS : shape (n + n) n (List.app A B).
  by split; [rewrite List.app_length lA lB|apply/wf_app].
have hnn : (1 <= n + n)%coq_nat by lia.
have [U [k EU]] := hnf_new_Done _ _ EH.
have [hrH [sU [uU [eUS ek]]]] := hnf_with_u_correct _ (n + n) n H U k sS hnn n1 EU.
have wH := hnf_rows_wf n 0 H hrH.
have [_ [_ spH]] := hnf_new_correct _ (n + n) n H sS hnn n1 EH.
have [dA dApos] := hnf_square_det hrA n1 lA.
(* H has n rows: its lattice contains the full-rank lattice of A *)
have lH : length H = n.
  have d0 : \det (zmx n n A) <> 0%Z by rewrite dA; lia.
  apply: (hnf_full_length hrH d0) => i hi; apply/spH.
  apply: (rows_subset_span n (List.app A B) A sS.2).
    by move=> r hr; apply: List.in_or_app; left.
  exact: (det_scaled_units (conj lA wA)).
have ek' : k = n by lia.
have [dH dHpos] := hnf_square_det hrH n1 lH.
have dH0 : \det (zmx n n H) <> 0%Z by rewrite dH; lia.
pose Um := zmx (n + n) (n + n) U.
have eUm : Um *m col_mx (zmx n n A) (zmx n n B) = col_mx 0 (zmx n n H).
  rewrite -(zmx_cat n n B lA) -(zmx_mmul sU.1 sS.2 sS.1) eUS ek'.
  by rewrite (zmx_cat n n H (List.repeat_length _ n)) zmx_zero_rows.
have dUm := unimodular_det sU uU.
pose Km := capK (zmx n n A) Um.
have [K [sK eK]] := list_of_mx Km.
exists K; split=> //.
  move=> v; rewrite (rowspan_mx v sK.2 sK.1) (rowspan_mx v wA lA) (rowspan_mx v wB lB) eK.
  split.
    case=> lv /(capK_spans eUm dUm dH0) [hx hy]; split; split=> //.
  by case=> [[lv hx] [_ hy]]; split=> //; apply/(capK_spans eUm dUm dH0).
by rewrite eK; exact: (det_sum_cap eUm dUm).
Qed.
End Lattices.

(** ** [P] norm multiplicativity for coprime ideals: the entry points [ideal_add], [ideal_mul], [norm] *)
Lemma square_hnf_norm n (A : list (list Z)) : (1 <= n)%coq_nat -> hnf_rows n 0 A -> length A = n ->
  Hnf.hnf_determinant A = Done (\det (zmx n n A)) /\ (0 < \det (zmx n n A))%Z.
Proof.
move=> n1 hr lA; have [dA dpos] := hnf_square_det hr n1 lA.
have [-> _] := HnfDet.determinant_spec n A hr n1; rewrite dA lA.
have -> : Nat.eqb n 0 = false by apply/Nat.eqb_neq; lia.
by rewrite Nat.eqb_refl.
Qed.

Theorem norm_mul_coprime m I J S P nI nJ :
  let t := i_table I in let n := length t in
  tshape t -> table_comm t = true -> table_assoc t = true -> (1 <= n)%coq_nat ->
  (forall y, length y = n -> bil t y (unit_vec n 0) = y) ->
  wf n (i_hnf I) -> is_hnf (i_hnf I) = true -> length (i_hnf I) = n -> closed_mult t (i_hnf I) ->
  wf n (i_hnf J) -> is_hnf (i_hnf J) = true -> length (i_hnf J) = n -> closed_mult t (i_hnf J) ->
  i_table J = t ->
  ideal_add m I J = Done S -> norm S = Done 1%Z ->
  ideal_mul m I J = Done P -> norm I = Done nI -> norm J = Done nJ ->
  norm P = Done (nI * nJ)%Z.
Proof.
move=> t n Ht Hc Has Hn Hu WI II LI CI WJ IJ LJ CJ TJ ES NS EP NI NJ.
rewrite /norm in NI NJ NS *.
set A := i_hnf I in WI II LI CI NI *; set B := i_hnf J in WJ IJ LJ CJ NJ *.
have hrA := is_hnf_hnf_rows n A WI II.
have hrB := is_hnf_hnf_rows n B WJ IJ.
(* the sum *)
have [TS [IS [WS SS]]] := @add_spec m I J S n WI WJ Hn ES.
have EH : Hnf.hnf_new (List.app A B) = Done (i_hnf S).
  move: ES; rewrite /ideal_add /Hnf.hnf_as_vecs -/A -/B.
  case: (debug_assert _ _) => //= _; case: (Hnf.hnf_new _) => //= h [<-].
  by [].
have [K [sK spK lH eq]] := lattice_sum_cap Hn hrA hrB LI LJ EH.
set H := i_hnf S in IS WS SS EH lH eq NS.
have hrH := is_hnf_hnf_rows n H WS IS.
have [nA dApos] := square_hnf_norm Hn hrA LI.
have [nB dBpos] := square_hnf_norm Hn hrB LJ.
have [nH dHpos] := square_hnf_norm Hn hrH lH.
move: NI NJ NS; rewrite nA nB nH => -[eI] [eJ] [eH].
(* e_0 is in I + J *)
have L := fun x y => bil_length t x y Ht.
have e0H : In_rowspanZ n (unit_vec n 0) H.
  apply/(rowspan_mx _ WS lH); split; first exact: unit_vec_length.
  have n0 : (0 < n)%nat by apply/ltP.
  exists (matrix.row (Ordinal n0) (\adj (zmx n n H))).
  rewrite -row_mul mul_adj_mx eH -[unit_vec n 0]/(unit_vec n (nat_of_ord (Ordinal n0))) zrv_unit_vec.
  by apply/rowP => j; rewrite !mxE eqxx /= eq_sym.
have [i0 [j0 [hi0 hj0 e0]]] := DecompW3Proper.span_app_split WI WJ (proj1 (SS _) e0H).
have li0 : length i0 = n by apply: (span_length n i0 A).
have lj0 : length j0 = n by apply: (span_length n j0 B).
(* I * J = I cap J *)
have [TP [IP [WP SP]]] := @mul_spec m I J P Ht WI WJ Hn EP.
have wPR : wf n (prod_rows t A B) := prod_rows_wf t A B Ht.
have capP v : In_rowspanZ n v (i_hnf P) <-> In_rowspanZ n v K.
  rewrite (SP v) (spK v); split.
    move=> hv; split.
      apply: (span_incl n A (prod_rows t A B) WI) hv; apply/List.Forall_forall => r.
      move=> /List.in_map_iff [[x y] [<- /List.in_prod_iff [hx hy]]] /=.
      apply: CI; first exact: span_row_in.
      by move/List.Forall_forall: WJ; apply.
    apply: (span_incl n B (prod_rows t A B) WJ) hv; apply/List.Forall_forall => r.
    move=> /List.in_map_iff [[x y] [<- /List.in_prod_iff [hx hy]]] /=.
    have lx : length x = n by move/List.Forall_forall: WI; apply.
    have ly : length y = n by move/List.Forall_forall: WJ; apply.
    rewrite bil_comm //; apply: CJ => //; exact: span_row_in.
  case=> hvA hvB.
  have lv : length v = n by apply: (span_length n v A).
  rewrite -(Hu v lv) e0 bil_add_r //; last by rewrite li0 lj0.
  apply: DecompW3Proper.span_vadd => //.
    by rewrite bil_comm //; apply: prod_rows_member.
  exact: prod_rows_member.
(* the determinants *)
have dK : \det (zmx n n K) <> 0%Z.
  move=> d0; move: eq; rewrite d0 /=; lia.
have sP : shape (length (i_hnf P)) n (i_hnf P) by split.
have EP' : Hnf.hnf_new (i_hnf P) = Done (i_hnf P) by apply: (hnf_new_fix _ n).
have hrP := is_hnf_hnf_rows n (i_hnf P) WP IP.
have lP : length (i_hnf P) = n.
  by apply: (hnf_full_length hrP dK) => i hi; apply/capP; exact: (det_scaled_units sK).
have hP1 : (1 <= length (i_hnf P))%coq_nat by rewrite lP.
have := determinant_index_lattice sP sK hP1 Hn capP dK EP'.
move=> ->; congr Done.
move: eq dApos dBpos; rewrite eH -eI -eJ.
move: (\det (zmx n n A)) (\det (zmx n n B)) (Z.abs (\det (zmx n n K))) => a b k e ha hb.
by rewrite (Z.abs_eq a) ?(Z.abs_eq b) in e; lia.
Qed.

(** ** [P] norm(I + J) * norm(I cap J) = norm(I) * norm(J) for full-rank lattices in normal form (any table) *)
Theorem norm_sum_cap m I J S nI nJ nS :
  let t := i_table I in let n := length t in
  (1 <= n)%coq_nat ->
  wf n (i_hnf I) -> is_hnf (i_hnf I) = true -> length (i_hnf I) = n ->
  wf n (i_hnf J) -> is_hnf (i_hnf J) = true -> length (i_hnf J) = n ->
  ideal_add m I J = Done S -> norm I = Done nI -> norm J = Done nJ -> norm S = Done nS ->
  exists C nC,
    [/\ i_table C = t, is_hnf (i_hnf C) = true /\ wf n (i_hnf C),
        forall v, In_rowspanZ n v (i_hnf C) <-> (In_rowspanZ n v (i_hnf I) /\ In_rowspanZ n v (i_hnf J)),
        norm C = Done nC & (nS * nC = nI * nJ)%Z].
Proof.
move=> t n Hn WI II LI WJ IJ LJ ES NI NJ NS.
rewrite /norm in NI NJ NS *.
set A := i_hnf I in WI II LI NI *; set B := i_hnf J in WJ IJ LJ NJ *.
have hrA := is_hnf_hnf_rows n A WI II.
have hrB := is_hnf_hnf_rows n B WJ IJ.
have [TS [IS [WS SS]]] := @add_spec m I J S n WI WJ Hn ES.
have EH : Hnf.hnf_new (List.app A B) = Done (i_hnf S).
  move: ES; rewrite /ideal_add /Hnf.hnf_as_vecs -/A -/B.
  by case: (debug_assert _ _) => //= _; case: (Hnf.hnf_new _) => //= h [<-].
have [K [sK spK lH eq]] := lattice_sum_cap Hn hrA hrB LI LJ EH.
set H := i_hnf S in IS WS SS EH lH eq NS.
have hrH := is_hnf_hnf_rows n H WS IS.
have [nA dApos] := square_hnf_norm Hn hrA LI.
have [nB dBpos] := square_hnf_norm Hn hrB LJ.
have [nH dHpos] := square_hnf_norm Hn hrH lH.
move: NI NJ NS; rewrite nA nB nH => -[eI] [eJ] [eH].
have dK : \det (zmx n n K) <> 0%Z by move=> d0; move: eq; rewrite d0 /=; lia.
have [HC EC] := hnf_new_total0 K n sK.2 Hn.
have [IC [WC SC]] := hnf_new_correct0 K n HC sK.2 Hn EC.
have [/(_ dK) [lC nC] _] := determinant_index sK Hn EC.
exists (mkIdeal HC t), (Z.abs (\det (zmx n n K))); split=> //.
- by move=> v; rewrite /= (SC v) (spK v).
- move: eq dApos dBpos dHpos; rewrite -eI -eJ -eH.
  move: (\det (zmx n n A)) (\det (zmx n n B)) (\det (zmx n n H)) (Z.abs (\det (zmx n n K))) => a b h k e ha hb hh.
  by rewrite (Z.abs_eq a) ?(Z.abs_eq b) ?(Z.abs_eq h) in e; lia.
Qed.

(** ** [P] norm((x) * J) = |norm x| * norm(J): one factor principal, the other any ideal *)
From RNT.Refine Require Import MultTableOps AlgNormMx AlgNormFlags DetIdeal.

Theorem norm_mul_principal_any m (t : table) (x : list Z) (Ix J P : ideal) (nx nJ : Z) :
  let n := length t in
  tshape t -> table_comm t = true -> table_assoc t = true -> (1 <= n)%coq_nat ->
  (forall y, length y = n -> bil t y (unit_vec n 0) = y) ->
  length x = n -> principal m t x = Done Ix -> mt_norm t x = Done nx -> nx <> 0%Z ->
  i_table J = t -> wf n (i_hnf J) -> is_hnf (i_hnf J) = true -> length (i_hnf J) = n -> closed_mult t (i_hnf J) ->
  ideal_mul m Ix J = Done P -> norm J = Done nJ ->
  norm P = Done (Z.abs nx * nJ)%Z.
Proof.
move=> n Ht Hc Has Hn Hu lx Ex Nx nx0 TJ WJ IJ LJ CJ EP NJ.
have ct : cube n t by apply: tshape_cube.
have ha := flag_tassoc ct Has.
have [Tx [Ix1 [Wx Sx]]] := @principal_spec m t x Ix Ht lx Hn Ex.
rewrite /norm in NJ *.
set B := i_hnf J in WJ IJ LJ CJ NJ *.
have hrB := is_hnf_hnf_rows n B WJ IJ.
have [nB dBpos] := square_hnf_norm Hn hrB LJ.
move: NJ; rewrite nB => -[eJ].
have L := fun u v => bil_length t u v Ht.
pose XB := [seq bil t x b | b <- B].
have wXB : wf n XB by apply/List.Forall_forall => r /List.in_map_iff [b [<- _]]; exact: L.
have lXB : length XB = n by rewrite /XB List.map_length.
(* the matrix of XB *)
have eXB : zmx n n XB = zmx n n B *m Mrep t n x.
  apply/row_matrixP => i; rewrite row_mul.
  have hi : (i < length B)%coq_nat by rewrite LJ; apply/ltP.
  have lb : length (List.nth i B [::]) = n by move/List.Forall_forall: WJ; apply; apply: List.nth_In.
  have -> : matrix.row i (zmx n n XB) = zrow n (bil t x (List.nth i B [::])).
    apply/rowP => j; rewrite !mxE /XB.
    rewrite (List.nth_indep _ [::] (bil t x [::])) ?List.map_length //.
    by rewrite (List.map_nth (bil t x)) Lnth_nth.
  have -> : matrix.row i (zmx n n B) = zrow n (List.nth i B [::]).
    by apply/rowP => j; rewrite !mxE Lnth_nth.
  by rewrite (bil_tmul ct lx lb) zrow_tmul.
have dX : \det (Mrep t n x) = nx.
  by move: Nx; rewrite (mt_norm_Mrep ct lx) => -[].
have dXB : \det (zmx n n XB) <> 0%Z.
  rewrite eXB det_mulmx dX => /eqP; rewrite mulf_eq0 => /orP[/eqP e|/eqP e] //.
  by move: dBpos; rewrite e.
(* the lattice of the product *)
have TJ' : i_table J = i_table Ix by rewrite Tx.
have [TP IP WP SP] : [/\ i_table P = t, is_hnf (i_hnf P) = true, wf n (i_hnf P)
     & forall v, In_rowspanZ n v (i_hnf P) <-> In_rowspanZ n v (prod_rows t (i_hnf Ix) B)].
  have := @mul_spec m Ix J P; rewrite /= Tx => /(_ Ht Wx WJ Hn EP) [a1 [a2 [a3 a4]]].
  by split.
have xin : In_rowspanZ n x (i_hnf Ix).
  by apply/Sx; exists (unit_vec n 0); split; [exact: unit_vec_length|rewrite Hu].
have capP v : In_rowspanZ n v (i_hnf P) <-> In_rowspanZ n v XB.
  rewrite (SP v); split.
    apply: (span_incl n XB _ wXB); apply/List.Forall_forall => r.
    move=> /List.in_map_iff [[y b] [<- /List.in_prod_iff [hy hb]]] /=.
    have [c [lc ey]] := proj1 (Sx y) (span_row_in n _ y Wx hy).
    have lb : length b = n by move/List.Forall_forall: WJ; apply.
    rewrite ey bil_assoc //.
    have hcb : In_rowspanZ n (bil t c b) B.
      by rewrite bil_comm //; apply: CJ => //; apply: span_row_in.
    case: hcb => d [ld ->]; rewrite bil_lincomb_r //.
    by apply: span_lincomb.
  apply: (span_incl n (prod_rows t (i_hnf Ix) B) _ (prod_rows_wf t _ B Ht)); apply/List.Forall_forall => r.
  move=> /List.in_map_iff [b [<- hb]].
  by apply: prod_rows_member => //; apply: span_row_in.
have sXB : shape n n XB by split.
have hrP := is_hnf_hnf_rows n (i_hnf P) WP IP.
have lP : length (i_hnf P) = n.
  by apply: (hnf_full_length hrP dXB) => i hi; apply/capP; exact: (det_scaled_units sXB).
have sP : shape (length (i_hnf P)) n (i_hnf P) by split.
have hP1 : (1 <= length (i_hnf P))%coq_nat by rewrite lP.
have EP' : Hnf.hnf_new (i_hnf P) = Done (i_hnf P) by apply: (hnf_new_fix _ n).
rewrite (determinant_index_lattice sP sXB hP1 Hn capP dXB EP'); congr Done.
rewrite eXB det_mulmx dX -eJ -[(_ * _)%R]/(_ * _)%Z Z.abs_mul.
by move: (\det (zmx n n B)) dBpos => b hb; rewrite (Z.abs_eq b); lia.
Qed.
