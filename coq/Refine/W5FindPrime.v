(** * W5FindPrime: C07, the prime search of [get_factors_of_squarefree] stops at the first prime that does not
    divide D = lc(q) * Res(q, q'); when such a prime exists below 2^31 the machine-word copy ([now as i32])
    of the prime returned is the prime itself.

    [good_at q p]: the two tests of the loop body succeed at [p] (whenever the modular routines return);
    [find_prime_stops]: the loop returns a prime [<= p0] for every good prime [p0 < 2^31] at or above the
       start of the search (primes below 2^31 are their own [as i32] copies, so the tests are the honest ones);
    [good_of_ndvd]: a prime not dividing [lc(q) * Res(q, q')] is good (Bezout identity
       [u q' + v q = Res(q', q)] over Z, MathComp [resultant_in_ideal], reduced modulo p: the gcd computed by
       [poly_gcd] divides a non-zero constant). *)
From Coq Require Import ZArith List Lia Znumtheory.
From RNT.Model Require Import Base Poly PolyModP FactorModP Hensel PolyZFactor.
From RNT.Model Require Elementary.
From mathcomp Require Import all_ssreflect ssralg poly polydiv ssrint zmodp matrix mxpoly.
From RNT.Refine Require Import PolyRefine PolyDiv PolyZ PolyModPArith PolyZmod MonicZ FermatZ PolyModPGcd FpPoly FmpField FmpSqf.
From RNT.Refine Require Import ElemProofs PolyZFactorPos PolyZFactorW3Hensel PolyZFactorW3Zass PolyZFactorW3Irred.
From RNT.Refine Require SubresFlag.
From mathcomp Require Import ssrZ zify ring.
Set Implicit Arguments.
Unset Strict Implicit.
Unset Printing Implicit Defensive.
Import GRing.Theory.
Local Open Scope ring_scope.

(** ** the loop *)
Definition good_at (a : seq Z) (p : Z) : Prop :=
  is_multiple_of (lead opsZ a) p = false /\
  forall am amp g, poly_mod a p = Done am -> differential am p = Done amp -> poly_gcd am amp p = Done g ->
                   (pdeg g =? 0)%ZZ = true.

Lemma as_i32_small x : (0 <= x < 2147483648)%ZZ -> as_i32 x = x.
Proof. by rewrite /as_i32 => h; rewrite Z.mod_small; lia. Qed.

Lemma find_prime_stops fuel (a : seq Z) st p pu p0 :
  Znumtheory.prime p0 -> (p0 < 2147483648)%ZZ -> good_at a p0 -> (st <= p0)%ZZ ->
  find_prime fuel a st = Done (p, pu) -> (pu <= p0)%ZZ.
Proof.
move=> hp0 lt0 [g1 g2]; have p02 := prime_ge_2 _ hp0.
elim: fuel st => [|fuel IH] st // le /=.
case en: Elementary.primes_next => [[now st']|t|] //=.
have [est [le1 [hp hmin]]] := primes_next_spec _ _ _ _ en.
have lenow : (now <= p0)%ZZ.
  by case: (Z.le_gt_cases now p0) => // gt; case: (hmin p0) => //; lia.
case: (Z.eq_dec now p0) => [e0|ne].
- rewrite e0 as_i32_small; last by lia.
  rewrite g1; case e1: poly_mod => [am|t|] //=; case e2: differential => [amp|t|] //=.
  case e3: poly_gcd => [g|t|] //=.
  by rewrite (g2 _ _ _ e1 e2 e3); case=> _ <-; lia.
- have lt : (now < p0)%ZZ by lia.
  case em: is_multiple_of; first by apply: IH; lia.
  case: poly_mod => [am|t|] //=; case: differential => [amp|t|] //=; case: poly_gcd => [g|t|] //=.
  by case: ifP => _; [case=> _ <-; lia | apply: IH; lia].
Qed.

(** the prime returned is not wrapped *)
Lemma find_prime_not_wrapped (q : seq Z) p pu p0 :
  Znumtheory.prime p0 -> (p0 < 2147483648)%ZZ -> good_at q p0 ->
  find_prime (prime_fuel q) q 2 = Done (p, pu) -> p = pu /\ (pu <= p0)%ZZ.
Proof.
move=> hp0 lt0 gd efp; have p02 := prime_ge_2 _ hp0.
have le := find_prime_stops hp0 lt0 gd p02 efp.
have [hpu -> _] := find_prime_spec efp; have pu2 := prime_ge_2 _ hpu.
by rewrite as_i32_small //; lia.
Qed.

(** ** good primes *)
Lemma not_multiple_false p x : (p <> 0)%ZZ -> ~ (p | x)%ZZ -> is_multiple_of x p = false.
Proof.
move=> p0 nd; rewrite /is_multiple_of.
have -> : (p =? 0)%ZZ = false by apply/Z.eqb_neq.
by apply/Z.eqb_neq => h; apply: nd; apply/Z.rem_divide.
Qed.

(** Bezout identity with a constant right-hand side dividing lc * Res *)
Lemma bezout_disc (Q : {poly Z}) : (1 < size Q)%N ->
  exists (u v : {poly Z}) (c : Z),
    u * Q^`() + v * Q = c%:P /\ (c | lead_coef Q * mxpoly.resultant Q^`() Q)%ZZ.
Proof.
move=> sQ; have Q0 : Q != 0 by rewrite -size_poly_gt0; lia.
have sQ' := SubresFlag.size_derivZ sQ.
have [s2|s2] := ltnP 2 (size Q).
- have s1 : (1 < size Q^`())%N by rewrite sQ'; lia.
  have [[u v] /= _ e] := resultant_in_ideal s1 sQ.
  by exists u, v, (mxpoly.resultant Q^`() Q); split=> //; exact: Z.divide_factor_r.
- have e2 : size Q = 2%N by lia.
  have eQ' : Q^`() = (lead_coef Q)%:P.
    have s1 : (size Q^`() <= 1)%N by rewrite sQ' e2.
    by rewrite (size1_polyC s1) coef_deriv lead_coefE e2 /= mulr1n.
  by exists 1, 0, (lead_coef Q); rewrite mul1r mul0r addr0 eQ'; split=> //; exact: Z.divide_factor_l.
Qed.

Lemma good_of_ndvd (q : seq Z) (p : Z) : canonZ q -> (1 < size q)%N -> Znumtheory.prime p ->
  ~ (p | lead_coef (Poly q) * mxpoly.resultant (Poly q)^`() (Poly q))%ZZ -> good_at q p.
Proof.
move=> cq sq Hp nd; have Hp2 := prime_ge_2 _ Hp.
have Hp0 : p <> Z0 by lia.
have Hpp : (0 < p)%ZZ by lia.
set Q := Poly q in nd.
have sQ : (1 < size Q)%N by rewrite /Q canon_size_Poly.
have ndlc : ~ (p | lead_coef Q)%ZZ by move=> d; apply: nd; exact: Z.divide_mul_l.
split; first by rewrite (lead_opsZ cq); exact: not_multiple_false.
move=> am amp g e1 e2 e3.
pose n := pnat p; have n_prime := n_prime Hp; have En := En Hp.
have ndlc' : ~ (Z.of_nat n | lead_coef Q)%ZZ by rewrite En.
have [u [v [c [ebz dc]]]] := bezout_disc sQ.
have ndc : ~ (Z.of_nat n | c)%ZZ by rewrite En => d; apply: nd; exact: Z.divide_trans dc.
(* the reductions *)
have Ram := poly_mod_is_reduced Hpp e1.
have eam : redp n (PZ am) = redp n Q by apply/(eqpm_RP Hp); exact: PZ_poly_mod e1.
have rQ0 : redp n Q != 0 by rewrite -size_poly_eq0 size_red //; lia.
have amn : am <> [::] by move=> a0; move: rQ0; rewrite -eam a0 PZ_nil redp0 eqxx.
have e2' : poly_mod (pdiff opsZ am) p = Done amp by move: e2; rewrite /differential; case: (am) amn.
have Ramp := poly_mod_is_reduced Hpp e2'.
have eamp : redp n (PZ amp) = (redp n Q)^`().
  by rewrite -eam -redp_deriv // -PZ_pdiff; apply/(eqpm_RP Hp); exact: PZ_poly_mod e2'.
have [Rg [[s /(eqpm_RP Hp) Hs] [t /(eqpm_RP Hp) Ht]]] := poly_gcd_dvd Hp Ram Ramp e3.
set G := redp n (PZ g) in Hs Ht; rewrite !redpM -/G in Hs Ht.
have G0 : G != 0 by apply/eqP => g0; move: rQ0; rewrite -eam Hs g0 mul0r eqxx.
have dG : G %| (toF n c)%:P.
  rewrite -redpC -ebz redpD !redpM redp_deriv // -eamp -[redp n Q]eam Hs Ht.
  by rewrite dvdp_add // mulrCA dvdp_mulr.
have c0 : (toF n c)%:P != 0 :> {poly 'F_n} by rewrite polyC_eq0; exact: toF_neq0.
have := dvdp_leq c0 dG; rewrite size_polyC; move: c0; rewrite polyC_eq0 => -> /=.
rewrite /G (reduced_size Hp Rg) => lg.
have gn : g <> [::] by move=> g0; move: G0; rewrite /G g0 PZ_nil redp0 eqxx.
by apply/Z.eqb_eq; rewrite /pdeg; case: (g) gn lg => [|x [|y l]] //=.
Qed.

(** ** summary: any prime below 2^31 not dividing lc(q) * Res(q, q') bounds the search *)
Theorem find_prime_small (q : seq Z) (p pu p0 : Z) : canonZ q -> (1 < size q)%N ->
  Znumtheory.prime p0 -> (p0 < 2147483648)%ZZ ->
  ~ (p0 | lead_coef (Poly q) * mxpoly.resultant (Poly q)^`() (Poly q))%ZZ ->
  find_prime (prime_fuel q) q 2 = Done (p, pu) ->
  [/\ p = pu, Znumtheory.prime p & (p <= p0)%ZZ].
Proof.
move=> cq sq hp0 lt0 nd efp.
have [e le] := find_prime_not_wrapped hp0 lt0 (good_of_ndvd cq sq hp0 nd) efp.
by have [hpu _ _] := find_prime_spec efp; rewrite e; split.
Qed.
