(** * DecompW3Top (C17, third wave): the statements about [decompose] itself.

    Hypotheses in list vocabulary: p prime; f monic ([lmonic]) with n + 1 <= 2^64 coefficients; the stored
    basis b is n x n with first row (1, 0, .., 0) (w_0 = 1); t is the table [get_mult_table b f]; the power
    basis is an integer combination of b: [qmmul n Sl b = identity] for an integer matrix Sl (Z[theta] is
    inside the order).  The test "p does not divide the index" is the one [decompose] performs.
    Style: ssreflect/MathComp. *)
From Coq Require Import ZArith List Lia Znumtheory.
From Coq Require Import QArith Qcanon.
From mathcomp Require Import all_ssreflect ssralg poly polydiv ssrint zmodp.
From RNT.Model Require Import Base Poly PolyModP LinAlg MultTable Order FactorModP Ideal PrimeDecomp.
From RNT.Model Require Hnf.
From RNT.Refine Require Import PolyModPArith PolyModPDivList FermatZ PolyZmod PolyModPDiv MonicZ PolyModPGcd FpPoly
  HenselProofs FactorNorm FactorProd FpTotal FmpField FmpSqf FmpProduct FmpIrred FmpDegree FmpSplit FmpFull FmpTotal FmpSafe FmpLists
  DecompDegree DecompW3Factors.
From RNT.Refine Require Import MatZ HnfSpec IdealBasic IdealMul IdealSpec IdealLaws IdealCapZ IdealInv.
From RNT.Refine Require Import PolyRefine PolyZ DecompW3Order DecompW3Proper.
From RNT.Refine Require DecompW3Index DecompW3Solve OrderCanon AlgNormMx AlgNormOrder.
From mathcomp Require Import ssrZ zify ring.
Set Implicit Arguments. Unset Strict Implicit. Unset Printing Implicit Defensive.
Import GRing.Theory.
Local Open Scope ring_scope.

Lemma NoDup_map_in (X Y Z' : Type) (F : X -> Y) (G : X -> Z') (l : list X) :
  (forall x y, List.In x l -> List.In y l -> G x = G y -> F x = F y) ->
  List.NoDup (List.map F l) -> List.NoDup (List.map G l).
Proof.
elim: l => [|x l IH] H /=; first by move=> _; constructor.
move=> /List.NoDup_cons_iff [nin nd]; constructor.
  move=> /List.in_map_iff [y [eG iny]]; apply: nin; apply/List.in_map_iff.
  by exists y; split=> //; apply: H => //=; [right | left].
by apply: IH => // a c ia ic; apply: H; right.
Qed.

Lemma Forall2_Forall_r (X Y : Type) (R : X -> Y -> Prop) l l' :
  List.Forall2 R l l' -> List.Forall (fun y => exists2 x, List.In x l & R x y) l'.
Proof.
elim=> [|x y k k' Rxy _ IH]; constructor; first by exists x => //; left.
by apply: List.Forall_impl IH => y' [x' ix' Rx']; exists x' => //; right.
Qed.

Section Prime.
Variable p : Z.
Hypothesis Hp : Znumtheory.prime p.
Let Hp2 := prime_ge_2 _ Hp.
Let Hpp : (0 < p)%ZZ. Proof. lia. Qed.
Let Hp0 : p <> Z0. Proof. lia. Qed.

Notation pn := (pnat p).
Notation RP l := (redp pn (PZ l)).
Notation FP := (FProd p).

Lemma nth_in_range (l : list Z) i : in_range p l -> (0 <= List.nth i l Z0 < p)%ZZ.
Proof.
move=> R; elim: l i R => [|x l IH] [|i] /= R; try lia.
- by move: R => /List.Forall_cons_iff [].
- by apply: IH; move: R => /List.Forall_cons_iff [].
Qed.

Lemma reduced_RP_inj x y : reduced p x -> reduced p y -> RP x = RP y -> x = y.
Proof.
move=> [Cx Rx] [Cy Ry] /(eqpm_RP Hp) E; apply: canonical_PZ_inj => //; apply: PZ_ext => i.
have := eqpm_coef E i; rewrite !coefPZ.
by rewrite !Z.mod_small //; apply: nth_in_range.
Qed.

Lemma FP_dvd fs g e : List.In (g, e) fs -> (1 <= e)%ZZ -> RP g %| FP fs.
Proof.
elim: fs => [|[g' e'] fs IH] //= [[-> ->]|inl] pe.
  apply: dvdp_mulr; have -> : Z.to_nat e = (Z.to_nat e).-1.+1 by lia.
  by rewrite exprS dvdp_mulr.
by apply: dvdp_mull; apply: IH.
Qed.

(** ** the context of a returned run *)
Variables (f : list Z) (n : nat) (b : list (list Qc)) (t : table) (Sl : list (list Z)).
Hypothesis Hf : lmonic f.
Hypothesis Hl : (Z.of_nat (length f) <= two64)%ZZ.
Hypothesis Lf : length f = n.+1.
Hypothesis n0 : (1 <= n)%coq_nat.
Hypothesis Sb : OrderCanon.qshape n n b.
Hypothesis B0 : List.nth 0 b [::] = Q2Qc 1 :: List.repeat (Q2Qc 0) (n - 1).
Hypothesis gt : get_mult_table b f = Done t.
Hypothesis SS : shape n n Sl.
Hypothesis ES : OrderCanon.qmmul n Sl b = identity fopsQc n.

Let cf : canonZ f.
Proof.
rewrite /canonZ /canon; move: Hf; rewrite /lmonic Llast_eq.
by case: (f) Lf => [|c f'] //= _ ->.
Qed.
Let szf : size f = n.+1 := Lf.
Let monf : seq.nth 0%Z f n = 1%Z.
Proof.
by have := lmonic_nth Hf; rewrite Lf Lnth_eq subn1.
Qed.
Let sb : size b = n := proj1 Sb.
Let rb : forall i, (i < n)%nat -> size (seq.nth [::] b i) = n.
Proof.
move=> i hi; have [lb wb] := Sb.
move/List.Forall_forall: wb; apply; rewrite -Lnth_eq; apply: List.nth_In.
by rewrite lb; apply/ltP.
Qed.
Let w0 : first_is_one b.
Proof. by apply: (@first_row_one b (n - 1)); rewrite -Lnth_eq. Qed.
Let n0' : (0 < n)%nat. Proof. exact/ltP. Qed.

(** everything about one run: a spec for every returned triple *)
Lemma run_specs md r gs r' :
  decompose_full md f b t p r = Done (gs, r') ->
  exists d A,
    [/\ forall i j, (i < n)%nat -> (j < n)%nat ->
          Qcmult (Algebraic.qz d) (List.nth j (List.nth i b [::]) (Q2Qc 0)) = Algebraic.qz (A i j),
        ~ (p | d)%ZZ,
        List.NoDup (List.map (fun x => fst (fst x)) gs)
      & List.Forall (fun x : list Z * ideal * Z =>
          [/\ (2 <= length x.1.1)%coq_nat, (lmonic x.1.1 /\ reduced p x.1.1), lirred p x.1.1, RP x.1.1 %| RP f
            & exists elem Ez, factor_spec p f n b t x.1.1 x.1.2 elem Ez]) gs].
Proof.
move=> /decompose_full_inv [zt [idx [rm [fs [Ezt Eidx [Erm Enz] Ef F2]]]]].
have [E G Pos I D] := factor_facts Hp Hf Hl Ef.
have Ed : deg_alloc f = Done n.
  rewrite /deg_alloc; case: (f) Lf => [|c f'] // L; congr Done.
  by rewrite /pdeg L; lia.
have [d [A [Hd Hscale]]] : exists (d : Z) (A : nat -> nat -> Z), (idx = d \/ idx = (- d)%ZZ) /\
    forall i j, (i < n)%nat -> (j < n)%nat ->
      Qcmult (Algebraic.qz d) (List.nth j (List.nth i b [::]) (Q2Qc 0)) = Algebraic.qz (A i j).
  case: (n) n0 Ed Sb SS ES => [|m] h0 Ed' Sb' SS' ES'; first by lia.
  exact: (DecompW3Index.index_scaling Ed' Sb' SS' ES' Ezt Eidx).
have nd : ~ (p | d)%ZZ.
  move: Erm; rewrite /zrem; case: Z.eqb_spec => // _ [erm] dv.
  have dvi : (p | idx)%ZZ by case: Hd => ->; [|apply/Z.divide_opp_r].
  have : Z.rem idx p = Z0 by apply/Z.rem_divide.
  by rewrite erm => e0; move: Enz; rewrite e0.
exists d, A; split=> //.
  suff -> : List.map (fun x => fst (fst x)) gs = List.map fst fs by [].
  by elim: F2 => [|pm x l l' [_ E1] _ E2] //=; rewrite E2 -E1.
apply: List.Forall_impl (Forall2_Forall_r F2) => x [pm inpm [Ex Epm]].
case: x Ex Epm => [[g P] e] /= Ex Epm; rewrite -Epm /factor_of /= in inpm Ex.
have [Mg [Rg [Lg _]]] : ngood p md (g, e) by move/List.Forall_forall: G; apply.
have Pe : (1 <= e)%ZZ by move/List.Forall_forall: Pos => /(_ _ inpm).
have Ig : lirred p g by move/List.Forall_forall: I => /(_ _ inpm).
have Dg : RP g %| RP f by rewrite E; apply: FP_dvd inpm Pe.
split=> //.
exact: (factor_spec_intro Hp cf szf monf sb rb w0 gt Hscale n0' Mg Rg Lg Dg Ex).
Qed.

(** [P] prime_above_proper, for the triples of [decompose_full] *)
Theorem proper_full md r gs r' :
  decompose_full md f b t p r = Done (gs, r') ->
  List.Forall (fun x : list Z * ideal * Z =>
    [/\ ~ In_rowspanZ n (unit_vec n 0) (i_hnf x.1.2), cap_z x.1.2 = Done p
       & forall md', contains md' x.1.2 (unit_vec n 0) = Done false]) gs.
Proof.
move=> /run_specs [d [A [Hscale nd _ Fa]]].
apply: List.Forall_impl Fa => x [Lg [_ Rg] _ Dg [elem [Ez S]]]; split.
- exact: (factor_proper Hp cf szf monf sb rb w0 gt Hscale n0' nd Lg Rg Dg S).
- exact: (factor_cap_z Hp cf szf monf sb rb w0 gt Hscale n0' nd Lg Rg Dg S).
- move=> md'; exact: (factor_contains Hp cf szf monf sb rb w0 gt Hscale n0' nd md' Lg Rg Dg S).
Qed.

(** [P] primes_distinct, for the triples of [decompose_full] *)
Theorem distinct_full md r gs r' :
  decompose_full md f b t p r = Done (gs, r') ->
  List.NoDup (List.map (fun x : list Z * ideal * Z => i_hnf x.1.2) gs).
Proof.
move=> /run_specs [d [A [Hscale nd ND Fa]]].
have Fa' := (List.Forall_forall _ _).1 Fa.
apply: NoDup_map_in ND => x y ix iy eH.
have [Lx [Mx Rx] Ix Dx [elx [Ezx Sx]]] := Fa' _ ix.
have [Ly [My Ry] Iy Dy [ely [Ezy Sy]]] := Fa' _ iy.
have D1 := factor_same Hp cf szf monf sb rb w0 gt Hscale n0' nd Dx Sx Sy eH.
apply: reduced_RP_inj => //.
have Sx1 : size (RP x.1.1) != 1%nat by rewrite (reduced_size Hp Rx); apply/eqP; lia.
have /eqp_eq := Iy.2 _ Sx1 D1.
by rewrite (monicP (RP_monic p Mx)) (monicP (RP_monic p My)) !scale1r.
Qed.


(** the rows of Sl are the coordinates of the powers of theta *)
Let sS : forall k, (k < n)%nat -> size (seq.nth [::] Sl k) = n.
Proof.
move=> k hk; have [lS wS] := SS.
move/List.Forall_forall: wS; apply; rewrite -Lnth_eq; apply: List.nth_In.
by rewrite lS; apply/ltP.
Qed.
Let HS : forall k, (k < n)%nat ->
  OrderCanon.qlincomb n (seq.nth [::] Sl k) b = seq.nth [::] (identity fopsQc n) k.
Proof.
move=> k hk; rewrite -ES /OrderCanon.qmmul (nth_map [::]) //.
by have [lS _] := SS; rewrite -[size Sl]/(length Sl) lS.
Qed.

(** a returned factor that divides another one modulo p is that one *)
Lemma dvd_same (x y : list Z) : lmonic x -> reduced p x -> (2 <= length x)%coq_nat ->
  lmonic y -> reduced p y -> lirred p y -> RP x %| RP y -> x = y.
Proof.
move=> Mx Rx Lx My Ry Iy D1; apply: reduced_RP_inj => //.
have Sx1 : size (RP x) != 1%nat by rewrite (reduced_size Hp Rx); apply/eqP; lia.
have /eqp_eq := Iy.2 _ Sx1 D1.
by rewrite (monicP (RP_monic p Mx)) (monicP (RP_monic p My)) !scale1r.
Qed.

(** [P] primality, for the triples of [decompose_full]: a product of two elements of the order lies in
    P_i only if one of them does *)
Theorem prime_full md r gs r' :
  decompose_full md f b t p r = Done (gs, r') ->
  List.Forall (fun x : list Z * ideal * Z =>
    forall u v, length u = n -> length v = n ->
      In_rowspanZ n (bil t u v) (i_hnf x.1.2) ->
      In_rowspanZ n u (i_hnf x.1.2) \/ In_rowspanZ n v (i_hnf x.1.2)) gs.
Proof.
move=> /run_specs [d [A [Hscale nd _ Fa]]].
apply: List.Forall_impl Fa => x [Lg [_ Rg] Ig Dg [elem [Ez S]]] u v lu lv.
exact: (factor_prime Hp cf szf monf sb rb w0 gt Hscale n0' nd sS HS Ig Dg S lu lv).
Qed.

(** [P] comaximality, for the triples of [decompose_full]: the sum of two returned ideals with different
    factors is the whole order *)
Theorem comax_full md r gs r' x y md' K :
  decompose_full md f b t p r = Done (gs, r') ->
  List.In x gs -> List.In y gs -> x.1.1 <> y.1.1 ->
  ideal_add md' x.1.2 y.1.2 = Done K ->
  forall v, length v = n -> In_rowspanZ n v (i_hnf K).
Proof.
move=> /run_specs [d [A [Hscale nd _ Fa]]] ix iy ne EK v lv.
have Fa' := (List.Forall_forall _ _).1 Fa.
have [Lx [Mx Rx] Ix Dx [elx [Ezx Sx]]] := Fa' _ ix.
have [Ly [My Ry] Iy Dy [ely [Ezy Sy]]] := Fa' _ iy.
have N : ~~ (RP x.1.1 %| RP y.1.1).
  by apply/negP => D1; apply: ne; apply: (dvd_same Mx Rx Lx My Ry Iy D1).
have [a [b' [aP bP e0]]] := factor_comax Hp cf szf monf sb rb w0 gt Hscale n0' nd sS HS Ix Dx Dy N Sx Sy.
have [ts lt] := tsh cf szf sb rb gt.
have hn : (1 <= n)%coq_nat := n0.
have [_ [_ [WK _]]] := add_spec md' x.1.2 y.1.2 K n (fs_wf Sx) (fs_wf Sy) hn EK.
have [U1 U2] := add_upper md' x.1.2 y.1.2 K n (fs_wf Sx) (fs_wf Sy) hn EK.
have e0K : In_rowspanZ n (unit_vec n 0) (i_hnf K).
  by rewrite e0; apply: span_vadd => //; [apply: U1 | apply: U2].
have CK : closed_mult t (i_hnf K).
  have := add_closed md' x.1.2 y.1.2 K; rewrite /= (fs_table Sx) lt; apply=> //.
  - exact: (fs_wf Sx).
  - exact: (fs_wf Sy).
  - exact: (fs_closed Sx).
  - exact: (fs_closed Sy).
have := CK (unit_vec n 0) v; rewrite lt => /(_ e0K lv).
rewrite (bil_tm cf szf sb rb gt) ?unit_vec_length //.
by rewrite (tmul_unit_l cf szf sb rb w0 gt n0' lv).
Qed.



(** ** absence of panics *)
Lemma deg_alloc_n : deg_alloc f = Done n.
Proof.
rewrite /deg_alloc; case: (f) Lf => [|c f'] // L; congr Done.
by rewrite /pdeg L; lia.
Qed.

Lemma factor_tail_total md elem (e : Z) : length elem = n ->
  exists Pe,
    (do ancilla <- principal md t elem;
     do pelem <- (match n with O => Panic PIndex | S d => Done (p :: List.repeat 0%Z d) end);
     do pz <- principal md t pelem;
     do s <- ideal_add md ancilla pz;
     Done (s, e)) = Done Pe.
Proof.
move=> le; have [ts lt] := tsh cf szf sb rb gt.
have ht : (1 <= length t)%coq_nat by rewrite lt.
have le' : length elem = length t by rewrite lt.
have [anc Ea] := principal_total md t elem ts le' ht.
have [Ta [_ [Wa _]]] := principal_spec md t elem anc ts le' ht Ea.
rewrite Ea /=.
case: (n) n0 lt Wa => [|m] h0 lt' Wa'; first by lia.
rewrite [bind (Done _) _]/=.
have lp : length (p :: List.repeat 0%Z m) = length t by rewrite lt' /= List.repeat_length.
have [pz Ez] := principal_total md t _ ts lp ht.
have [Tz [_ [Wz _]]] := principal_spec md t _ pz ts lp ht Ez.
rewrite Ez /=; rewrite lt' in Wa' Wz.
have hm : (1 <= m.+1)%coq_nat by lia.
have [K EK] := add_total md anc pz m.+1 Wa' Wz hm (etrans Tz (esym Ta)).
by rewrite EK /=; exists (K, e).
Qed.

Lemma factor_total md g e : ngood p md (g, e) -> exists Pe, decompose_factor md f b t p (g, e) = Done Pe.
Proof.
move=> [Mg [Rg [Lg _]]].
have cg : canonZ g.
  rewrite /canonZ /canon; move: Mg; rewrite /lmonic Llast_eq.
  by case: (g) Lg => [|c g'] //= _ ->.
rewrite /decompose_factor deg_alloc_n [bind (Done n) _]/= (from_raw_map_qz cg).
case: Z.leb_spec => hdeg.
  exact: (factor_tail_total md e (List.repeat_length 0%Z n)).
have -> : (pdeg (List.map Algebraic.qz g) <? pdeg f)%ZZ = true by apply/Z.ltb_lt.
rewrite debug_assert_true [bind (Done tt) _]/=.
have [elem Ee] : exists r, to_z_basis_int b (List.map Algebraic.qz g) = Done r.
  case: (n) n0 Sb SS ES => [|m] h0 Sb' SS' ES'; first by lia.
  exact: (DecompW3Index.to_z_basis_int_total g Sb' SS' ES').
rewrite Ee.
have le : length elem = n by rewrite (to_z_basis_int_length _ _ _ Ee); case: Sb.
exact: (factor_tail_total md e le).
Qed.

(** [P] no_panic: the index computation returns; if p divides the index the documented panic; otherwise
    [decompose] returns or runs out of the model's fuel in the randomised loop of the factoriser *)
Theorem no_panic_full md r :
  exists zt idx,
    [/\ trivial_order_monic f = Done zt, order_index b zt = Done idx,
        (p | idx)%ZZ -> decompose md f b t p r = Panic POther
      & ~ (p | idx)%ZZ ->
        (exists res r', decompose md f b t p r = Done (res, r')) \/ decompose md f b t p r = OutOfFuel].
Proof.
have [zt [idx [Ezt Eidx]]] : exists zt idx, trivial_order_monic f = Done zt /\ order_index b zt = Done idx.
  case: (n) n0 deg_alloc_n Sb SS ES => [|m] h0 Ed' Sb' SS' ES'; first by lia.
  exact: (DecompW3Index.index_total Ed' Sb' SS' ES').
exists zt, idx; split=> //.
  move=> dv; apply: (decompose_refuses_index md f b t p r zt idx Ezt Eidx Hp0).
  by apply/Z.rem_divide.
move=> ndv; rewrite /decompose Ezt; cbn [bind]; rewrite Eidx; cbn [bind]; rewrite /zrem.
case: Z.eqb_spec => // _; cbn [bind].
case: Z.eqb_spec => [e0|_]; first by case: ndv; apply/Z.rem_divide.
have Hpu := usize_or_0_ok Hp Hl.
have Em := poly_mod_eq' f p Hp0; set f1 := from_raw _ _ in Em.
have N1 : f1 <> [::].
  have E1 : RP f1 = RP f by apply/(eqpm_RP Hp); apply: PZ_poly_mod Em.
  move=> E0; move: E1; rewrite E0 PZ_nil redp0 => E.
  by move: (monic_neq0 (RP_monic p Hf)); rewrite -E eqxx.
case: (factorize_no_panic_all md r Hp Hl Hpu Em N1) => [[fs [r1 Ef]]|->]; last by right.
left; rewrite Ef; cbn [bind].
have G : List.Forall (ngood p md) fs.
  have H' : factorize_mod_p md f p p r = Done (fs, r1).
    case: Hpu Ef => [->|Hlp] Ef //.
    by rewrite -(@factorize_pusize_irrelevant p Hp md f (usize_or_0 p) p).
  exact: (factorize_normalised Hp (Z.lt_le_incl _ _ Hpp) H').
have [res ->] : exists res, mapM (decompose_factor md f b t p) fs = Done res.
  apply: DecompW3Solve.mapM_total => -[g e] inl.
  by apply: factor_total; move/List.Forall_forall: G; apply.
by exists res, r1.
Qed.

(** [P] norms, for a lower triangular stored basis: norm P_i = p^(deg g_i) *)
Hypothesis Tri : forall i j, (i < j)%coq_nat -> (j < n)%coq_nat ->
  List.nth j (List.nth i b [::]) (Q2Qc 0) = Q2Qc 0.

Let tri : forall i j, (i < j)%nat -> (j < n)%nat -> List.nth j (List.nth i b [::]) (Q2Qc 0) = Q2Qc 0.
Proof. by move=> i j /ltP hi /ltP hj; apply: Tri. Qed.
Let dnz : forall k, (k < n)%nat -> List.nth k (List.nth k b [::]) (Q2Qc 0) <> Q2Qc 0.
Proof.
case: (n) n0 Sb SS ES tri => [|m] h0 Sb' SS' ES' tri'; first by lia.
exact: (DecompW3Index.diag_nonzero Sb' SS' ES' tri').
Qed.

Theorem norm_full md r gs r' :
  decompose_full md f b t p r = Done (gs, r') ->
  List.Forall (fun x : list Z * ideal * Z => norm x.1.2 = Done (p ^ pdeg x.1.1)%ZZ) gs.
Proof.
move=> /run_specs [d [A [Hscale nd _ Fa]]].
apply: List.Forall_impl Fa => x [Lg [Mg Rg] _ Dg [elem [Ez S]]].
exact: (factor_norm Hp cf szf monf sb rb w0 gt Hscale n0' nd sS HS tri dnz Mg Rg Lg Dg S).
Qed.

End Prime.

(** ** the statements about [decompose] (list vocabulary, for Props/C17.v) *)

Lemma Forall_map_iff (X Y : Type) (F : X -> Y) (Q : Y -> Prop) l :
  List.Forall (fun x => Q (F x)) l -> List.Forall Q (List.map F l).
Proof. by elim=> [|x k qx _ IH] /=; constructor. Qed.

(** [P] prime_above_proper *)
Theorem prime_above_proper_std md f b t Sl p r res r' :
  Znumtheory.prime p -> lmonic f -> (Z.of_nat (length f) <= two64)%ZZ ->
  let n := length b in
  length f = S n -> (1 <= n)%coq_nat -> OrderCanon.qshape n n b ->
  List.nth 0 b [::] = Q2Qc 1 :: List.repeat (Q2Qc 0) (n - 1) ->
  get_mult_table b f = Done t -> shape n n Sl -> OrderCanon.qmmul n Sl b = identity fopsQc n ->
  decompose md f b t p r = Done (res, r') ->
  List.Forall (fun Pe : ideal * Z =>
                 ~ In_rowspanZ n (unit_vec n 0) (i_hnf (fst Pe)) /\ cap_z (fst Pe) = Done p /\
                 forall md', contains md' (fst Pe) (unit_vec n 0) = Done false) res.
Proof.
move=> Hp Hf Hl n Lf n0 Sb B0 gt SS ES /decompose_of_full [gs E ->].
apply: Forall_map_iff.
have := proper_full Hp Hf Hl Lf n0 Sb B0 gt SS ES E.
by apply: List.Forall_impl => x [].
Qed.

(** [P] primes_distinct *)
Theorem primes_distinct_std md f b t Sl p r res r' :
  Znumtheory.prime p -> lmonic f -> (Z.of_nat (length f) <= two64)%ZZ ->
  let n := length b in
  length f = S n -> (1 <= n)%coq_nat -> OrderCanon.qshape n n b ->
  List.nth 0 b [::] = Q2Qc 1 :: List.repeat (Q2Qc 0) (n - 1) ->
  get_mult_table b f = Done t -> shape n n Sl -> OrderCanon.qmmul n Sl b = identity fopsQc n ->
  decompose md f b t p r = Done (res, r') ->
  List.NoDup (List.map (fun Pe : ideal * Z => i_hnf (fst Pe)) res).
Proof.
move=> Hp Hf Hl n Lf n0 Sb B0 gt SS ES /decompose_of_full [gs E ->].
rewrite List.map_map.
exact: (distinct_full Hp Hf Hl Lf n0 Sb B0 gt SS ES E).
Qed.

(** [P] primes_prime *)
Theorem primes_prime_std md f b t Sl p r res r' :
  Znumtheory.prime p -> lmonic f -> (Z.of_nat (length f) <= two64)%ZZ ->
  let n := length b in
  length f = S n -> (1 <= n)%coq_nat -> OrderCanon.qshape n n b ->
  List.nth 0 b [::] = Q2Qc 1 :: List.repeat (Q2Qc 0) (n - 1) ->
  get_mult_table b f = Done t -> shape n n Sl -> OrderCanon.qmmul n Sl b = identity fopsQc n ->
  decompose md f b t p r = Done (res, r') ->
  List.Forall (fun Pe : ideal * Z =>
    forall u v, length u = n -> length v = n ->
      In_rowspanZ n (bil t u v) (i_hnf (fst Pe)) ->
      In_rowspanZ n u (i_hnf (fst Pe)) \/ In_rowspanZ n v (i_hnf (fst Pe))) res.
Proof.
move=> Hp Hf Hl n Lf n0 Sb B0 gt SS ES /decompose_of_full [gs E ->].
apply: Forall_map_iff.
exact: (prime_full Hp Hf Hl Lf n0 Sb B0 gt SS ES E).
Qed.

(** [P] primes_comaximal *)
Theorem primes_comaximal_std md f b t Sl p r res r' :
  Znumtheory.prime p -> lmonic f -> (Z.of_nat (length f) <= two64)%ZZ ->
  let n := length b in
  length f = S n -> (1 <= n)%coq_nat -> OrderCanon.qshape n n b ->
  List.nth 0 b [::] = Q2Qc 1 :: List.repeat (Q2Qc 0) (n - 1) ->
  get_mult_table b f = Done t -> shape n n Sl -> OrderCanon.qmmul n Sl b = identity fopsQc n ->
  decompose md f b t p r = Done (res, r') ->
  forall i j dflt md' K, i <> j -> (i < length res)%coq_nat -> (j < length res)%coq_nat ->
    ideal_add md' (fst (List.nth i res dflt)) (fst (List.nth j res dflt)) = Done K ->
    forall v, length v = n -> In_rowspanZ n v (i_hnf K).
Proof.
move=> Hp Hf Hl n Lf n0 Sb B0 gt SS ES /decompose_of_full [gs E ->] i j dflt md' K ne.
rewrite List.map_length => hi hj.
pose d0 : list Z * ideal * Z := ([::], fst dflt, snd dflt).
have ed : dflt = proj_full d0 by rewrite /d0 /proj_full /=; case: (dflt).
rewrite ed !List.map_nth => EK.
have ix := List.nth_In gs d0 hi; have iy := List.nth_In gs d0 hj.
have ND : List.NoDup (List.map (fun x : list Z * ideal * Z => x.1.1) gs).
  have /decompose_full_inv [zt [idx [rm [fs [_ _ _ Ef F2]]]]] := E.
  have [_ _ _ _ D] := factor_facts Hp Hf Hl Ef.
  suff -> : List.map (fun x : list Z * ideal * Z => x.1.1) gs = List.map fst fs by [].
  by elim: F2 => [|pm x l l' [_ E1] _ E2] //=; rewrite E2 -E1.
have neg : (List.nth i gs d0).1.1 <> (List.nth j gs d0).1.1.
  move=> e; apply: ne.
  have := (List.NoDup_nth (List.map (fun x : list Z * ideal * Z => x.1.1) gs) [::]).1 ND i j.
  rewrite List.map_length => /(_ hi hj); apply.
  by rewrite -[[::]]/((fun x : list Z * ideal * Z => x.1.1) d0) !List.map_nth.
exact: (comax_full Hp Hf Hl Lf n0 Sb B0 gt SS ES E ix iy neg EK).
Qed.

(** [P] residue_degrees: norm P_i = p^(deg g_i), and sum e_i deg g_i = n *)
Theorem residue_degrees_std md f b t Sl p r res r' :
  Znumtheory.prime p -> lmonic f -> (Z.of_nat (length f) <= two64)%ZZ ->
  let n := length b in
  length f = S n -> (1 <= n)%coq_nat -> OrderCanon.qshape n n b ->
  List.nth 0 b [::] = Q2Qc 1 :: List.repeat (Q2Qc 0) (n - 1) ->
  (forall i j, (i < j)%coq_nat -> (j < n)%coq_nat -> List.nth j (List.nth i b [::]) (Q2Qc 0) = Q2Qc 0) ->
  get_mult_table b f = Done t -> shape n n Sl -> OrderCanon.qmmul n Sl b = identity fopsQc n ->
  decompose md f b t p r = Done (res, r') ->
  exists gs, decompose_full md f b t p r = Done (gs, r') /\ res = List.map proj_full gs /\
             List.Forall (fun x : list Z * ideal * Z => norm (snd (fst x)) = Done (p ^ pdeg (fst (fst x)))%ZZ) gs /\
             degree_sum (List.map factor_of gs) = pdeg f.
Proof.
move=> Hp Hf Hl n Lf n0 Sb B0 Tri gt SS ES /decompose_of_full [gs E ->]; exists gs; split=> //; split=> //; split.
- exact: (norm_full Hp Hf Hl Lf n0 Sb B0 gt SS ES Tri E).
- exact: (degree_sum_full Hp Hf Hl E).
Qed.

(** [P] no_panic *)
Theorem decompose_no_panic_std md f b t Sl p r :
  Znumtheory.prime p -> lmonic f -> (Z.of_nat (length f) <= two64)%ZZ ->
  let n := length b in
  length f = S n -> (1 <= n)%coq_nat -> OrderCanon.qshape n n b ->
  get_mult_table b f = Done t -> shape n n Sl -> OrderCanon.qmmul n Sl b = identity fopsQc n ->
  exists zt idx,
    trivial_order_monic f = Done zt /\ order_index b zt = Done idx /\
    ((p | idx)%ZZ -> decompose md f b t p r = Panic POther) /\
    (~ (p | idx)%ZZ ->
       (exists res r', decompose md f b t p r = Done (res, r')) \/ decompose md f b t p r = OutOfFuel).
Proof.
move=> Hp Hf Hl n Lf n0 Sb gt SS ES.
have [zt [idx [A1 A2 A3 A4]]] := no_panic_full Hp Hf Hl Lf n0 Sb gt SS ES md r.
by exists zt, idx.
Qed.
