(** * W7MiscSplitFuel (C08): the recursion-depth fuel of [final_split_odd] (odd p, Cantor-Zassenhaus)
      is never what runs out.

      [final_split_odd fuel poly p d result r] threads two fuels: [fuel] bounds the recursion depth
      (supplied as [length poly + 1] by [final_split]) and every call runs its own retry loop of
      [split_retries] attempts (one drawn polynomial per attempt; each coefficient draw has the
      rejection-sampling fuel [draw_fuel]).  All three exhaustions show up as the same [OutOfFuel].
      The theorem here: on a reduced non-zero input and p prime the outcome (value, panic or
      [OutOfFuel], and the draw stream left) is THE SAME for every depth fuel >= [length poly] --
      both pieces of a split are shorter than the input, exactly as for p = 2 -- so whenever
      [final_split] ends in [OutOfFuel] for odd p, it does so with any larger depth fuel too: the
      cause is a retry loop (or a draw), never the depth.  No hypothesis on d, on the factors of
      poly or on the draw stream is needed.  Style: ssreflect. *)
From Coq Require Import ZArith List Lia Znumtheory.
From mathcomp Require Import all_ssreflect ssralg poly polydiv ssrint zmodp.
From RNT.Model Require Import Base Poly PolyModP FactorModP.
From RNT.Refine Require Import PolyModPArith PolyModPDivList FermatZ PolyZmod PolyModPDiv MonicZ PolyModPGcd FpPoly HenselProofs FactorNorm FactorProd FpTotal FmpField FmpSqf FmpProduct FmpIrred FmpDegree FmpSplit FmpFull FmpTotal FmpSafe.
From mathcomp Require Import ssrZ zify ring.
Set Implicit Arguments. Unset Strict Implicit. Unset Printing Implicit Defensive.
Import GRing.Theory.
Local Open Scope ring_scope.

Section Prime.
Variable p : Z.
Hypothesis Hp : Znumtheory.prime p.

Notation n := (pnat p).
Notation RP l := (redp n (PZ l)).

(** a divisor of different degree is shorter *)
Lemma proper_divisor_shorter poly b :
  rnz p poly -> rnz p b -> RP b %| RP poly -> (pdeg b =? pdeg poly)%ZZ = false ->
  (length b < length poly)%coq_nat.
Proof.
move=> Rp Rb Db /Z.eqb_neq; rewrite (pdeg_rnz Hp Rb) (pdeg_rnz Hp Rp).
have := dvdp_leq (rnz_RP Hp Rp) Db.
rewrite -(reduced_size Hp (proj1 Rb)) -(reduced_size Hp (proj1 Rp)).
by move: (size _) (size _) => x y; lia.
Qed.

(** the exact quotient by a non-constant divisor is shorter *)
Lemma quotient_shorter poly b dv :
  rnz p poly -> rnz p b -> rnz p dv -> RP poly = RP dv * RP b -> (pdeg b =? 0)%ZZ = false ->
  (length dv < length poly)%coq_nat.
Proof.
move=> Rp Rb Rd E /Z.eqb_neq; rewrite (pdeg_rnz Hp Rb).
have := size_mul (rnz_RP Hp Rd) (rnz_RP Hp Rb); rewrite -E.
have := rnz_RP Hp Rb; rewrite -size_poly_gt0.
rewrite -(reduced_size Hp (proj1 Rd)) -(reduced_size Hp (proj1 Rp)).
by move: (size _) (size _) (size _) => x y z; lia.
Qed.

Opaque split_retries.
(** ** the outcome does not depend on the depth fuel once it is at least the length of the input *)
Lemma final_split_odd_fuel : forall f1 f2 poly d result r,
  rnz p poly -> (length poly <= f1)%coq_nat -> (length poly <= f2)%coq_nat ->
  final_split_odd f1 poly p d result r = final_split_odd f2 poly p d result r.
Proof.
elim=> [|f1 IH] f2 poly d result r Rp L1 L2.
  by case: Rp => _; case: (poly) L1 => [|x l] //= L1; lia.
case: f2 L2 => [|f2] L2.
  by case: Rp => _; case: (poly) L2 => [|x l] //= L2; lia.
rewrite /=; case: (deg_div poly d) => [k| |] /=; [|by []|by []].
case: (k =? 0)%ZZ; first by [].
case: (k =? 1)%ZZ; first by [].
move: split_retries r => m; elim: m => [|m IHm] r0 /=; first by [].
case: (draw_coeffs (Z.to_nat (2 * d)) p r0) => [[raw r1]| |] /=; [|by []|by []].
case Et: (poly_modpow _ _ poly p) => [tpow| |] /=; [|by []|by []].
case Es: (poly_mod_sub tpow _ p) => [tpow1| |] /=; [|by []|by []].
have Rt1 := poly_mod_sub_reduced Hp Es.
case Eb: (poly_gcd tpow1 poly p) => [b| |] /=; [|by []|by []].
have [Rb [_ [t Ht]]] := gcd_rnz Hp Rt1 Rp Eb.
case: b Eb Rb Ht => [|b0 b'] Eb Rb Ht; first exact: IHm.
case Eb0: (pdeg (b0 :: b') =? 0)%ZZ => /=; first exact: IHm.
case Ebp: (pdeg (b0 :: b') =? pdeg poly)%ZZ => /=; first exact: IHm.
have Db : RP (b0 :: b') %| RP poly by move/(eqpm_RP Hp): Ht; rewrite redpM => ->; exact: dvdp_mulr.
have Lb := proper_divisor_shorter Rp Rb Db Ebp.
rewrite (IH f2 (b0 :: b') d result r1 Rb); [|lia|lia].
case: (final_split_odd f2 (b0 :: b') p d result r1) => [[res1 r2]| |] /=; [|by []|by []].
case Ed: (poly_divrem poly (b0 :: b') p) => [[dv rem]| |] /=; [|by []|by []].
have [Rdv Edv] := quot_RP Hp Rp Rb Ht Ed.
have Ld := quotient_shorter Rp Rb Rdv Edv Eb0.
apply: IH; [exact: Rdv|lia|lia].
Qed.
Transparent split_retries.

(** [P] the depth fuel supplied by [final_split] can be replaced by any larger one *)
Theorem final_split_odd_depth_irrelevant poly d result r fuel :
  rnz p poly -> (length poly + 1 <= fuel)%coq_nat ->
  final_split_odd fuel poly p d result r = final_split_odd (length poly + 1) poly p d result r.
Proof. by move=> Rp L; apply: final_split_odd_fuel => //; lia. Qed.

(** for odd p: [final_split] is [final_split_odd] with any depth fuel >= length + 1; in particular an
    [OutOfFuel] of [final_split] persists under every larger depth fuel *)
Theorem final_split_depth_irrelevant poly d r fuel :
  Z.odd p = true -> rnz p poly -> (length poly + 1 <= fuel)%coq_nat ->
  final_split poly p d r = final_split_odd fuel poly p d [::] r.
Proof. by move=> Op Rp L; rewrite /final_split Op (final_split_odd_depth_irrelevant d [::] r Rp L). Qed.

Theorem final_split_oof_not_depth poly d r :
  Z.odd p = true -> rnz p poly -> final_split poly p d r = OutOfFuel ->
  forall fuel, (length poly + 1 <= fuel)%coq_nat -> final_split_odd fuel poly p d [::] r = OutOfFuel.
Proof. by move=> Op Rp E fuel L; rewrite -(final_split_depth_irrelevant d r Op Rp L). Qed.

End Prime.

(** ** the same with the list-level vocabulary of Props/C08.v *)
Theorem final_split_depth_fuel_list (p : Z) (poly : list Z) (d : Z) (r : rng) (fuel : nat) :
  Znumtheory.prime p -> Z.odd p = true -> canonical poly -> in_range p poly -> poly <> [::] ->
  (length poly + 1 <= fuel)%coq_nat ->
  final_split poly p d r = final_split_odd fuel poly p d [::] r.
Proof. by move=> Hp Op C R N L; apply: final_split_depth_irrelevant. Qed.

Theorem final_split_odd_depth_fuel_list (p : Z) (poly : list Z) (d : Z) (result : list (list Z)) (r : rng) (f1 f2 : nat) :
  Znumtheory.prime p -> canonical poly -> in_range p poly -> poly <> [::] ->
  (length poly <= f1)%coq_nat -> (length poly <= f2)%coq_nat ->
  final_split_odd f1 poly p d result r = final_split_odd f2 poly p d result r.
Proof. by move=> Hp C R N L1 L2; apply: final_split_odd_fuel. Qed.

Theorem final_split_oof_not_depth_list (p : Z) (poly : list Z) (d : Z) (r : rng) :
  Znumtheory.prime p -> Z.odd p = true -> canonical poly -> in_range p poly -> poly <> [::] ->
  final_split poly p d r = OutOfFuel ->
  forall fuel, (length poly + 1 <= fuel)%coq_nat -> final_split_odd fuel poly p d [::] r = OutOfFuel.
Proof. by move=> Hp Op C R N E; apply: final_split_oof_not_depth. Qed.
