(** The integer sub-resultant routine [resultant_smart] (model) against MathComp's resultant:
    conditional on the model's exactness flag, the value returned is the Sylvester determinant.
    ssreflect/MathComp style; uses the Z refinement of PolyZ.v (C09) and ResPRS.v. *)
From RNT.Model Require Import Base Poly Resultant.
From Coq Require Import ZArith.
From mathcomp Require Import all_ssreflect ssralg poly polydiv matrix mxpoly.
From mathcomp Require Import ssrZ zify.
From RNT.Refine Require Import PolyRefine PolyDiv PolyZ ResSylvester ResEuclid ResPRS.
From RNT.Refine Require ResProofs ResProofs2.
Set Implicit Arguments.
Unset Strict Implicit.
Unset Printing Implicit Defensive.
Import GRing.Theory.
Local Open Scope ring_scope.

Local Notation dg p := (size p).-1.

(** ** Bridges between the stdlib-style predicates of ResProofs*.v and the ssreflect ones *)

Lemma canonb_canonZ (p : seq Z) : ResProofs.canonb p = canonZ p.
Proof.
rewrite /ResProofs.canonb /canonZ /canon; case: p => [|x p]; first by symmetry; apply: (oner_neq0 ZInstances.Z_ringType).
by rewrite Llast_eq /=.
Qed.

Lemma canon_canonZ (p : seq Z) : ResProofs2.canon p <-> canonZ p.
Proof. by rewrite -canonb_canonZ; split=> /ResProofs2.canonb_canon. Qed.

Lemma zlast_lead (g : seq Z) : canonZ g -> g != [::] -> zlast g = lead_coef (Poly g).
Proof.
move=> cg ng; rewrite lead_coefE canon_size_Poly // coef_Poly /zlast Llast_eq.
by rewrite nth_last.
Qed.

Lemma pdeg_sizeZ (a : seq Z) : a != [::] -> pdeg a = (Z.of_nat (size a) - 1)%Z.
Proof. by case: a. Qed.

Lemma zodd_natZ (n : nat) : zodd (Z.of_nat n) = odd n.
Proof.
rewrite /zodd -{1}[n]odd_double_half -muln2; move: (n./2) => k.
case: (odd n); [apply/Z.eqb_eq|apply/Z.eqb_neq]; rewrite [nat_of_bool _]/= ?add0n ?add1n.
  by rewrite Nat2Z.inj_succ Nat2Z.inj_mul -Z.add_1_r Z.add_comm Z.mod_add.
by rewrite Nat2Z.inj_mul Z.mod_mul.
Qed.

Lemma sflip_sign (f g : seq Z) (s : Z) : f != [::] -> g != [::] ->
  ResProofs.sflip f g s = s * (-1) ^+ (dg f * dg g).
Proof.
move=> nf ng; rewrite /ResProofs.sflip !pdeg_sizeZ //.
have hf : (0 < size f)%N by rewrite lt0n size_eq0.
have hg : (0 < size g)%N by rewrite lt0n size_eq0.
have -> : (Z.of_nat (size f) - 1 = Z.of_nat (dg f))%Z by move: hf; clear; lia.
have -> : (Z.of_nat (size g) - 1 = Z.of_nat (dg g))%Z by move: hg; clear; lia.
rewrite !zodd_natZ -oddM -signr_odd; case: (odd _); rewrite ?expr1 ?expr0 ?mulr1 //.
by rewrite mulrN1.
Qed.

Lemma Zquot_exact (x d : Z) : (Z.rem x d =? 0)%Z -> x = d * Z.quot x d.
Proof. by move/Z.eqb_eq => h; have := Z.quot_rem' x d; rewrite h Z.add_0_r. Qed.

(** Exactly divided coefficient lists. *)
Lemma Poly_div_coeffs (h : seq Z) (phi : Z) :
  List.forallb (fun c => (Z.rem c phi =? 0)%Z) h ->
  Poly h = phi *: Poly (List.map (fun c => Z.quot c phi) h).
Proof.
rewrite Lforallb_eq Lmap_eq => /allP hex; apply/polyP=> i; rewrite coefZ !coef_Poly.
case: (ltnP i (size h)) => hi; last by rewrite !nth_default ?size_map // mulr0.
by rewrite (nth_map 0) //; apply: Zquot_exact; apply: hex; apply: mem_nth.
Qed.

Lemma div_coeffs_poly (h : seq Z) (phi : Z) ex e1 g' :
  div_coeffs h phi ex = (e1, Done g') -> e1 -> Poly h = phi *: Poly g'.
Proof.
rewrite /div_coeffs; case: h => [|h0 h']; first by case=> _ <-; rewrite /= scaler0.
by case: ifP => // _ [<- <-] /andP[_ hall]; apply: Poly_div_coeffs.
Qed.

(** ** One step of the model = one pseudo-division step on polynomials *)
Lemma sub_step_poly (f g : seq Z) (a b : Z) ex g1 a1 b1 :
    canonZ f -> canonZ g -> g != [::] -> (size g <= size f)%N ->
    sub_step f g a b ex = (true, Done (g, g1, a1, b1)) ->
  let c := lead_coef (Poly g) in let d := (size f - size g)%N in
  [/\ a1 = c, b1 * b ^+ d = c ^+ d * b &
      exists Q P : {poly Z},
        [/\ c ^+ d.+1 *: Poly f = Q * Poly g + P, (size P < size (Poly g))%N
          & P = (a * b ^+ d) *: Poly g1]].
Proof.
move=> cf cg ng le_gf; rewrite /sub_step /pseudo_rem_chk.
have nf : f != [::] by case: (f) (g) ng le_gf => [|? ?] [|? ?].
have dE : (pdeg f - pdeg g)%Z = Z.of_nat (size f - size g).
  by rewrite !pdeg_sizeZ //; move: le_gf; clear; lia.
case: ifP => // _ /=; case E: (pseudo_div_rem f g) => [q h] /=.
have [cq ch defA szh] := pseudo_div_rem_ok cf cg ng le_gf E.
rewrite dE !Zpow_exp.
set phi := (a * _)%Z; set c := lead_coef _; set d := (_ - _)%N.
have cE : last 0 g = c by rewrite /c -zlast_lead // /zlast Llast_eq.
have zE : zlast g = c by rewrite /c -zlast_lead.
case D: (div_coeffs h phi ex) => [e1 [g'| |]] //=; case: ifP => // _ [/andP[he1 hrem] <- <- <-].
have Ph := div_coeffs_poly D he1.
split=> //.
  by rewrite zE in hrem *; rewrite [RHS](Zquot_exact hrem) mulrC.
exists (Poly q), (Poly h); split=> //; first by rewrite -cE.
by rewrite !canon_size_Poly.
Qed.

(** ** After the loop *)
Lemma smart_finish_poly m (rho : Z) (f : seq Z) (gam b s : Z) ex v :
    f != [::] -> b != 0 -> (s = 1 \/ s = -1) -> (size f = 1%N -> s = 1) ->
    (Z.of_nat (size f) <= two64)%Z ->
    rho * b ^+ (dg f).-1 = s * gam ^+ dg f ->
    smart_finish m f [:: gam] b s ex = (true, Done v) -> v = rho.
Proof.
move=> nf nzb hs hs1 hN hinv; rewrite /smart_finish.
have hf : (0 < size f)%N by rewrite lt0n size_eq0.
case: (debug_assert _ _) => //= _.
rewrite pdeg_sizeZ //; case: ifP => [/Z.eqb_eq h0 | /Z.eqb_neq h0].
  case=> _ <-; have sz1 : size f = 1%N by move: h0 hf; clear; lia.
  by move: hinv; rewrite sz1 /= !expr0 !mulr1 (hs1 sz1) => ->.
case: (debug_assert _ _) => //= _.
rewrite ResProofs.u64_norm_ok /=; last by move: h0 hf hN; rewrite /two64; clear; lia.
have -> : (Z.of_nat (size f) - 1 - 1 = Z.of_nat (dg f).-1)%Z by move: h0 hf; clear; lia.
have -> : (Z.of_nat (size f) - 1 = Z.of_nat (dg f))%Z by move: hf; clear; lia.
rewrite !Zpow_exp; case: ifP => // _ [/andP[_ hrem] <-].
have hq := Zquot_exact hrem; set q := Z.quot _ _ in hq *.
have nzbe : b ^+ (dg f).-1 != 0 by rewrite expf_neq0.
have rq : rho = s * q.
  by apply: (mulIf nzbe); rewrite hinv hq mulrAC mulrA.
by rewrite rq; case: hs => ->; rewrite ?mul1r ?mulN1r.
Qed.

(** ** The loop invariant (Cohen 3.3.7 bookkeeping, multiplicative form) *)
Definition linv (rho : Z) (f g : seq Z) (a b s : Z) : Prop :=
  [/\ canonZ f, f != [::], canonZ g, a != 0 & b != 0] /\
  [/\ (s = 1 \/ s = -1), ((size f < size g)%N -> a = 1 /\ b = 1), (size f = 1%N -> s = 1) &
      if g is [::] then rho = 0
      else rho * b ^+ (dg f).-1 * a ^+ dg g = s * resultant (Poly g) (Poly f)].

Lemma Poly1 (x : Z) : Poly [:: x] = x%:P.
Proof. by rewrite /= cons_poly_def mul0r add0r. Qed.

Lemma sflip_pm (f g : seq Z) s : (s = 1 \/ s = -1) ->
  ResProofs.sflip f g s = 1 \/ ResProofs.sflip f g s = -1.
Proof. by rewrite /ResProofs.sflip; case: ifP => _ [] ->; [right|left|left|right]. Qed.

Section Loop.
Variables (m : mode) (N : nat) (rho : Z).
Hypothesis HN : (Z.of_nat N <= two64)%Z.

Lemma smart_loop_poly fuel : forall (f g : seq Z) (a b s : Z) ex v,
  (size f <= N)%N -> (size g <= N)%N -> linv rho f g a b s ->
  smart_loop m fuel f g a b s ex = (true, Done v) -> v = rho.
Proof.
elim: fuel => // k IH f g a b s ex v lf lg [[cf nf cg nza nzb] [hs hab hs1 hinv]].
case: g cg lg hab hinv => [|g0 g'] cg lg hab hinv; first by case=> _ <-.
move: cg lg hab hinv; set g := g0 :: g' => cg lg hab hinv.
have ng : g != [::] by []. have ng' : g <> [::] by [].
have hg : (0 < size g)%N by [].
have gdef : g = g0 :: g' by [].
clearbody g.
rewrite (ResProofs.smart_loop_S' m k f g a b s ex ng').
have sE := sflip_sign s nf ng; have hs' := sflip_pm f g hs.
have hf : (0 < size f)%N by rewrite lt0n size_eq0.
have szF : size (Poly f) = size f by rewrite canon_size_Poly.
have szG : size (Poly g) = size g by rewrite canon_size_Poly.
have nzF : Poly f != 0 by rewrite canon_Poly_eq0.
have nzG : Poly g != 0 by rewrite canon_Poly_eq0.
rewrite !pdeg_sizeZ //.
case: ifP => [/Z.eqb_eq g1 | /Z.eqb_neq g1].
  (* g is a non-zero constant *)
  have sg1 : size g = 1%N by move: g1 hg; clear; lia.
  have eg : g = [:: g0] by move: sg1; rewrite gdef; case: (g').
  have sE' : ResProofs.sflip f g s = s by rewrite sE sg1 /= muln0 expr0 mulr1.
  rewrite sE' [in smart_finish _ _ _ _ _ _]eg => Hfin.
  apply: (@smart_finish_poly m rho f g0 b s ex v nf nzb hs hs1 _ _ Hfin).
    by move: lf HN; clear; lia.
  move: hinv; rewrite sg1 /= !expr0 !mulr1 eg Poly1 resultant_constl szF => ->.
  by [].
case: ifP => [/Z.ltb_lt ltfg | /Z.ltb_ge gefg].
  (* swap *)
  have ltfg' : (size f < size g)%N by move: ltfg; clear; lia.
  have [a1 b1] := hab ltfg'; apply: IH => //.
  split; first by split.
  split=> //.
  - by move=> h; move: ltfg' hf; rewrite h; case: (size f).
  move: hinv; rewrite a1 b1 !expr1n !mulr1 => ->.
  case ef: f nf => [|f0 f'] // _; rewrite -ef.
  by rewrite sE (resultant_swap_idomain nzG nzF) szF szG mulrA (mulnC (dg g)).
(* a sub-resultant step *)
have le_gf : (size g <= size f)%N by move: gefg; clear; lia.
have sg2 : (1 < size g)%N by move: g1 hg; clear; lia.
case S: (sub_step f g a b ex) => [e1 [[[[f1 g1'] a1] b1]| |]] //= L.
have e1t : e1 = true by apply: (ResProofs2.smart_loop_mono _ _ _ _ _ _ _ _ _ _ L).
rewrite e1t in S L.
have cf' : ResProofs2.canon f by apply/canon_canonZ.
have zl : zlast g <> 0%Z.
  by move/canon_canonZ: cg => [] // h; move: ng; rewrite h.
have nza' : a <> 0%Z by apply/eqP.
have nzb' : b <> 0%Z by apply/eqP.
have dle : (pdeg g <= pdeg f)%Z by rewrite !pdeg_sizeZ //; move: le_gf; clear; lia.
have [g2 [a2 [b2 [[ef1 eg1 ea1 eb1] [cg1 [nza1 [nzb1 ltg1]]]]]]] :=
  ResProofs2.sub_step_inv f g a b ex _ cf' ng' zl nza' nzb' dle S.
rewrite ef1 in S L; rewrite -eg1 -ea1 -eb1 in cg1 nza1 nzb1 ltg1.
have [a1E b1E [Q [P [defA szP defP]]]] := sub_step_poly cf cg ng le_gf S.
have ltg1' : (size g1' < size g)%N by rewrite -!Llength_eq; apply/ltP.
have cg1' : canonZ g1' by apply/canon_canonZ.
apply: IH L => //; first by apply: leq_trans (ltnW ltg1') lg.
split; first by split=> //; apply/eqP.
split=> //.
- by rewrite ltnNge (ltnW ltg1').
- by move=> h; move: sg2; rewrite h.
set c := lead_coef (Poly g) in a1E b1E defA.
set d := (size f - size g)%N in b1E defA defP.
have nzc : c != 0 by rewrite lead_coef_eq0.
case eg1' : g1' => [|h0 h'].
  (* the remainder vanished: the resultant is zero *)
  have P0 : P = 0 by rewrite defP eg1' /= scaler0.
  have := @prs_step0 _ (Poly f) (Poly g) Q nzF nzG.
  rewrite szF szG -/c => /(_ le_gf sg2).
  have -> : (dg f - dg g)%N = d by rewrite /d; move: le_gf hg; clear; lia.
  rewrite defA P0 addr0 => /(_ erefl) R0.
  move: hinv; rewrite R0 mulr0 => /eqP; rewrite !mulf_eq0 !expf_eq0.
  by rewrite (negPf nza) (negPf nzb) !andbF !orbF => /eqP.
rewrite -eg1'.
have ng1 : g1' != [::] by rewrite eg1'.
have nzH : Poly g1' != 0 by rewrite canon_Poly_eq0.
have szH : size (Poly g1') = size g1' by rewrite canon_size_Poly.
have nzphi : a * b ^+ d != 0 by rewrite mulf_neq0 ?expf_neq0.
have step := @prs_step _ (Poly f) (Poly g) Q P (Poly g1') (a * b ^+ d) nzF nzG.
rewrite szF szG szH -/c in step.
have dE : (dg f - dg g)%N = d by rewrite /d; move: le_gf hg; clear; lia.
rewrite dE in step.
rewrite szG in szP.
have {}step := step le_gf defA szP defP nzphi nzH.
pose m0 := (dg g).-1.
have gE : dg g = m0.+1 by rewrite /m0; move: sg2; clear; lia.
have fE : (dg f).-1 = (m0 + d)%N by rewrite /m0 /d; move: sg2 le_gf; clear; lia.
have He : (dg f - dg g1' + dg g1' = m0.+1 + d)%N.
  by rewrite /m0 /d; move: sg2 le_gf ltg1'; clear; lia.
rewrite gE fE in hinv; rewrite gE in step.
have := inv_step nza nzb nzc He hinv step b1E.
rewrite sE a1E gE.
have -> : (dg f * m0.+1 = (m0.+1 + d) * m0.+1)%N.
  by congr (_ * _)%N; rewrite /m0 /d; move: sg2 le_gf; clear; lia.
by [].
Qed.

End Loop.

(** [C] [resultant_int_partial]: canonical non-zero inputs; if the run of the integer sub-resultant
    routine returns [v] with exactness flag true, then [v] is the determinant of the Sylvester matrix
    (classical Res(f, g) = MathComp [resultant (Poly g) (Poly f)], see ResSylvester.v).
    Full statement (not proved): the flag is always true (sub-resultant structure theorem). *)
Theorem resultant_int_partial m (f g : seq Z) v :
  ResProofs.canonb f = true -> ResProofs.canonb g = true ->
  ResProofs.len_ok f = true -> ResProofs.len_ok g = true ->
  f <> [::] -> g <> [::] ->
  Resultant.resultant m f g = (true, Done v) ->
  v = \det (Sylvester_mx (Poly g) (Poly f)).
Proof.
rewrite !canonb_canonZ => cf cg /Z.leb_le lf /Z.leb_le lg /eqP nf /eqP ng.
rewrite /Resultant.resultant /resultant_smart.
case ef: f nf => [|f0 f'] // _; rewrite -ef => L.
have HN : (Z.of_nat (maxn (size f) (size g)) <= two64)%Z by rewrite -!Llength_eq in lf lg *; lia.
apply: (smart_loop_poly HN (leq_maxl _ _) (leq_maxr _ _) _ L).
split; first by split=> //; rewrite ef.
split=> //; first by left.
by case eg: g ng => [|g0 g'] // _; rewrite !expr1n !mulr1 mul1r.
Qed.

(** ** Discriminant *)
From mathcomp Require Import ssrnum.
Ltac Zify.zify_post_hook ::= Z.div_mod_to_equations.
From RNT.Refine Require ResProofs3.

Lemma pdiff_nz (f : seq Z) : canonZ f -> (1 < size f)%N -> pdiff opsZ f != [::].
Proof.
move=> cf sf; have cd : canonZ (pdiff opsZ f) by apply: canon_pdiff.
rewrite -(canon_Poly_eq0 cd) opsZ_eq (Poly_pdiff ofZ_natZ).
apply/eqP => /polyP /(_ (size f).-2); rewrite coef_deriv coef0 coef_Poly.
have -> : (size f).-2.+1 = dg f by move: sf; clear; lia.
move/eqP; rewrite Num.Theory.mulrn_eq0 nth_last.
have nf : f != [::] by case: (f) sf.
move: cf; rewrite /canonZ canon_last // => /negPf ->; rewrite orbF.
by move: sf; clear; lia.
Qed.

(** [C] [discriminant_det_partial]: deg f >= 1, canonical; if the run returns [d] with exactness flag
    true then d * lc f = (-1)^(n(n-1)/2) * det Sylvester(f, f') (classical Res(f, f') = MathComp
    [resultant f' f]). Full statement (not proved): the flag is always true. *)
Theorem discriminant_det_partial m (f : seq Z) d :
  ResProofs.canonb f = true -> ResProofs.len_ok f = true -> (1 < size f)%N ->
  discriminant m f = (true, Done d) ->
  d * lead_coef (Poly f) =
  (-1) ^+ ((dg f * (dg f).-1) %/ 2) * \det (Sylvester_mx (Poly f)^`() (Poly f)).
Proof.
move=> cbf lf sf D; have cf : canonZ f by rewrite -canonb_canonZ.
have nf : f != [::] by case: (f) sf.
have [r [Rr dr]] := ResProofs3.discriminant_partial m f d D.
have cd : ResProofs.canonb (pdiff opsZ f) = true by apply: ResProofs3.pdiff_canon.
have ld : ResProofs.len_ok (pdiff opsZ f) = true.
  apply: ResProofs2.len_ok_intro; have := ResProofs2.len_ok_spec _ lf.
  by have /leP := ResProofs3.pdiff_length f; rewrite !Llength_eq; lia.
have nd : pdiff opsZ f <> [::] by apply/eqP/pdiff_nz.
have nf' : f <> [::] by apply/eqP.
have := resultant_int_partial cbf cd lf ld nf' nd Rr.
rewrite opsZ_eq (Poly_pdiff ofZ_natZ) => <-.
rewrite -zlast_lead // [LHS]dr pdeg_sizeZ //.
have -> : (Z.of_nat (size f) - 1 = Z.of_nat (dg f))%Z by move: sf; clear; lia.
have -> : (Z.of_nat (dg f) * (Z.of_nat (dg f) - 1) / 2 = Z.of_nat ((dg f * (dg f).-1) %/ 2))%Z.
  have -> : (Z.of_nat (dg f) * (Z.of_nat (dg f) - 1))%Z = Z.of_nat (dg f * (dg f).-1).
    by rewrite Nat2Z.inj_mul; congr Z.mul; move: sf; clear; lia.
  move: (dg f * _)%N => x; rewrite {1}(divn_eq x 2) Nat2Z.inj_add Nat2Z.inj_mul.
  rewrite Z.div_add_l // Z.div_small ?Z.add_0_r //.
  by have := ltn_pmod x (isT : 0 < 2)%N; move: (x %% 2)%N => y; lia.
rewrite -signr_odd; have -> : Z.odd (Z.of_nat ((dg f * (dg f).-1) %/ 2)) = odd ((dg f * (dg f).-1) %/ 2).
  move: (_ %/ 2)%N => x; rewrite -{1}[x]odd_double_half -muln2 Nat2Z.inj_add Nat2Z.inj_mul.
  by rewrite Z.mul_comm Z.odd_add_mul_2; case: (odd x).
by case: (odd _); rewrite ?expr1 ?expr0 ?mul1r ?mulN1r.
Qed.

(** [C] under the flag, the returned discriminant vanishes exactly when f and f' have a non-constant
    common factor (MathComp [resultant_eq0]): "zero iff repeated factor". *)
Theorem discriminant_eq0_partial m (f : seq Z) d :
  ResProofs.canonb f = true -> ResProofs.len_ok f = true -> (1 < size f)%N ->
  discriminant m f = (true, Done d) ->
  (d == 0) = (1 < size (gcdp (Poly f)^`() (Poly f)))%N.
Proof.
move=> cbf lf sf D; have cf : canonZ f by rewrite -canonb_canonZ.
have nf : f != [::] by case: (f) sf.
have nzl : lead_coef (Poly f) != 0 by rewrite lead_coef_eq0 canon_Poly_eq0.
have := discriminant_det_partial cbf lf sf D; rewrite -resultant_eq0 /resultant => E.
have -> : (d == 0) = (d * lead_coef (Poly f) == 0) by rewrite mulf_eq0 (negPf nzl) orbF.
by rewrite E mulf_eq0 signr_eq0.
Qed.
