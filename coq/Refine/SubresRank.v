(** Rank of the Sylvester matrix over a field: rank = deg p + deg q - deg gcd(p, q). *)
From mathcomp Require Import all_ssreflect ssralg poly polydiv matrix mxalgebra mxpoly.
From mathcomp Require Import zify ring.
From RNT.Refine Require Import ResSylvester.
Set Implicit Arguments.
Unset Strict Implicit.
Unset Printing Implicit Defensive.
Import GRing.Theory.
Local Open Scope ring_scope.

Local Notation dg p := (size p).-1.

Section Rank.
Variable K : fieldType.
Implicit Types p q g u v w : {poly K}.

(** the band matrix of a non-zero polynomial has full row rank *)
Lemma band_row_free k N g : g != 0 -> (k + size g <= N.+1)%N -> row_free (band k N g).
Proof.
move=> nzg le; rewrite -kermx_eq0; apply/rowV0P => u /sub_kermxP.
rewrite mul_rV_band => E.
have sz : (size (rVpoly u * g)%R <= N)%N.
  apply: leq_trans (size_mul_leq _ _) _.
  by have := size_rVpoly u; move: le; move: (size (rVpoly u)) (size g) => x y; lia.
have : rVpoly u * g = 0 by rewrite -(poly_rV_K sz) E linear0.
move/eqP; rewrite mulf_eq0 (negPf nzg) orbF => /eqP E0.
by rewrite -[u]rVpolyK E0 linear0.
Qed.

(** every multiple w g of g = gcd(p, q) of degree < deg p + deg q is u p + v q with deg u < deg q, deg v < deg p *)
Lemma bezout_bounded p q w : p != 0 -> q != 0 ->
    (size (w * gcdp p q)%R <= dg q + dg p)%N ->
  exists u v, [/\ (size u <= dg q)%N, (size v <= dg p)%N & w * gcdp p q = u * p + v * q].
Proof.
move=> nzp nzq szw.
have [[u0 v0] /=] := Bezoutp p q.
case/eqpP=> -[c1 c2] /= /andP [nz1 nz2] E.
have Eg : gcdp p q = (c2^-1 * c1) *: (u0 * p + v0 * q).
  by rewrite -scalerA E scalerA mulVf // scale1r.
pose a := w * ((c2^-1 * c1) *: u0); pose b := w * ((c2^-1 * c1) *: v0).
have Eab : w * gcdp p q = a * p + b * q.
  by rewrite Eg /a /b scalerDr !scalerAl mulrDr !mulrA.
pose u := a %% q; pose v := b + (a %/ q) * p.
have Euv : w * gcdp p q = u * p + v * q.
  by rewrite Eab /u /v {1}(divp_eq a q); ring.
have su : (size u <= dg q)%N.
  by have := ltn_modpN0 a nzq; rewrite -/u; move: (size u) (size q) => x y; lia.
exists u, v; split=> //.
have [->|nzv] := eqVneq v 0; first by rewrite size_poly0.
have : (size (v * q)%R <= dg q + dg p)%N.
  have -> : v * q = w * gcdp p q - u * p by rewrite Euv addrC addKr.
  rewrite (leq_trans (size_add _ _)) // geq_max szw size_opp.
  apply: leq_trans (size_mul_leq _ _) _.
  by move: su; rewrite (polySpred nzp) /=; move: (size u) (dg q) (dg p) => x y z; lia.
rewrite size_mul // (polySpred nzq) /=; move: (size v) (dg q) (dg p) => x y z.
by rewrite addnS /=; lia.
Qed.


Theorem rank_Sylvester p q : p != 0 -> q != 0 ->
  \rank (Sylvester_mx p q) = (dg p + dg q - dg (gcdp p q))%N.
Proof.
move=> nzp nzq; rewrite Sylvester_Syl /Syl.
set g := gcdp p q; set m := dg q; set n := dg p.
have nzg : g != 0 by rewrite gcdp_eq0 (negPf nzp).
have gp : g %| p by apply: dvdp_gcdl.
have gq : g %| q by apply: dvdp_gcdr.
have legp : (dg g <= n)%N by have := dvdp_leq nzp gp; rewrite /n; move: (size g) (size p) => x y; lia.
have legq : (dg g <= m)%N by have := dvdp_leq nzq gq; rewrite /m; move: (size g) (size q) => x y; lia.
pose n' := (m + n - dg g)%N.
have sg : size g = (dg g).+1 by rewrite (polySpred nzg).
have rg : \rank (band n' (m + n) g) = n'.
  apply/eqP; apply: band_row_free => //.
  by rewrite sg /n'; move: legp; clear; lia.
have -> : (n + m - dg g = n')%N by rewrite /n' addnC.
apply/eqP; rewrite eqn_leq; apply/andP; split.
  (* the rows are multiples of g *)
  have Ep : p = p %/ g * g by rewrite divpK.
  have Eq : q = q %/ g * g by rewrite divpK.
  have sp1 : (m + size (p %/ g)%R).-1 = n'.
    by rewrite size_divp //; move: legp (polySpred nzp); rewrite /n' /n; clear; move: m (size p) (dg g) => z x y; lia.
  have sq1 : (n + size (q %/ g)%R).-1 = n'.
    by rewrite size_divp //; move: legq (polySpred nzq); rewrite /n' /m; clear; move: n (size q) (dg g) => z x y; lia.
  rewrite {1}Ep {1}Eq (@bandM _ m n' (m + n)) ?sp1 // (@bandM _ n n' (m + n)) ?sq1 //.
  by rewrite -mul_col_mx; apply: leq_trans (mxrankM_maxr _ _) _; rewrite rg.
(* g X^i is in the row space *)
apply: leq_trans (_ : \rank (band n' (m + n) g) <= _)%N; first by rewrite rg.
apply: mxrankS; apply/row_subP => i.
rewrite rowE mul_rV_band rVpoly_delta.
have szw : (size ('X^i * g)%R <= m + n)%N.
  rewrite size_mul ?(monic_neq0 (monicXn _ _)) // size_polyXn sg /=.
  have := ltn_ord i; rewrite {2}/n'; move: legp.
  by move: (nat_of_ord i) (dg g) (m) (n) => a b c d; lia.
have [u [v [su sv E]]] := bezout_bounded nzp nzq szw.
rewrite E linearD /= -{1}(poly_rV_K su) -{1}(poly_rV_K sv) -!mul_rV_band -mul_row_col.
exact: submxMl.
Qed.

End Rank.
