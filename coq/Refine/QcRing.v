(** * QcRing: MathComp structures (eqType ... fieldType) on Coq's canonical rationals [Qc],
    the model of [BigRational]. Axiom-free; the operations are the stdlib ones by conversion,
    so [Poly.opsQc] is [PolyRefine.ops_of] of this ring. *)
From Coq Require Import ZArith QArith Qcanon.
From mathcomp Require Import all_ssreflect ssralg.
From mathcomp Require Import ssrZ.
Set Implicit Arguments.
Unset Strict Implicit.
Unset Printing Implicit Defensive.

Definition Qc_eqb (x y : Qc) : bool := Qeq_bool x y.

Lemma Qc_eqP : Equality.axiom Qc_eqb.
Proof.
move=> x y; apply: (iffP idP) => [/Qeq_bool_iff /Qc_is_canon|->] //.
by apply/Qeq_bool_iff.
Qed.
Definition Qc_eqMixin := EqMixin Qc_eqP.
Canonical Qc_eqType := EqType Qc Qc_eqMixin.

Definition Qc_enc (x : Qc) : Z * Z := (Qnum x, Zpos (Qden x)).
Definition Qc_dec (p : Z * Z) : Qc := Q2Qc (p.1 # Z.to_pos p.2).
Lemma Qc_encK : cancel Qc_enc Qc_dec.
Proof.
move=> x; apply: Qc_is_canon.
apply: (Qeq_trans _ _ _ (Qred_correct (Qnum x # Qden x))).
by rewrite /Qeq.
Qed.
Definition Qc_choiceMixin := CanChoiceMixin Qc_encK.
Canonical Qc_choiceType := ChoiceType Qc Qc_choiceMixin.
Definition Qc_countMixin := CanCountMixin Qc_encK.
Canonical Qc_countType := CountType Qc Qc_countMixin.

Lemma Qcplus_opp_l (x : Qc) : (- x + x = 0)%Qc.
Proof. by rewrite Qcplus_comm Qcplus_opp_r. Qed.

Definition Qc_zmodMixin := ZmodMixin Qcplus_assoc Qcplus_comm Qcplus_0_l Qcplus_opp_l.
Canonical Qc_zmodType := ZmodType Qc Qc_zmodMixin.

Lemma Qc_1_neq_0 : (1%Qc : Qc) != 0%Qc.
Proof. by []. Qed.

Definition Qc_comRingMixin :=
  ComRingMixin Qcmult_assoc Qcmult_comm Qcmult_1_l Qcmult_plus_distr_l Qc_1_neq_0.
Canonical Qc_ringType := RingType Qc Qc_comRingMixin.
Canonical Qc_comRingType := ComRingType Qc Qcmult_comm.

Lemma Qc_mulVx (x : Qc) : x != 0%Qc -> (/ x * x = 1)%Qc.
Proof. by move=> /eqP x0; rewrite Qcmult_comm Qcmult_inv_r. Qed.
Lemma Qc_inv0 : (/ 0 = 0)%Qc.
Proof. by apply/eqP. Qed.

Definition Qc_fieldUnitMixin := FieldUnitMixin Qc_mulVx Qc_inv0.
Canonical Qc_unitRingType := UnitRingType Qc Qc_fieldUnitMixin.
Canonical Qc_comUnitRingType := [comUnitRingType of Qc].
Lemma Qc_field_axiom : GRing.Field.mixin_of Qc_unitRingType.
Proof. by []. Qed.
Canonical Qc_idomainType := IdomainType Qc (FieldIdomainMixin Qc_field_axiom).
Canonical Qc_fieldType := FieldType Qc Qc_field_axiom.

(** the ring operations are the stdlib ones *)
Import GRing.Theory.
Local Open Scope ring_scope.
Lemma QcaddE (x y : Qc) : x + y = Qcplus x y. Proof. by []. Qed.
Lemma QcoppE (x : Qc) : - x = Qcopp x. Proof. by []. Qed.
Lemma QcsubE (x y : Qc) : x - y = Qcminus x y. Proof. by []. Qed.
Lemma QcmulE (x y : Qc) : x * y = Qcmult x y. Proof. by []. Qed.
Lemma QcinvE (x : Qc) : x^-1 = Qcinv x. Proof. by []. Qed.
Lemma QcdivE (x y : Qc) : x / y = Qcdiv x y. Proof. by []. Qed.
Lemma Qc0E : (0 : Qc) = Q2Qc 0. Proof. by []. Qed.
Lemma Qc1E : (1 : Qc) = Q2Qc 1. Proof. by []. Qed.
Lemma QceqE (x y : Qc) : (x == y) = Qeq_bool x y. Proof. by []. Qed.

(** [Int::from(i32)] / [BigRational::from_integer] *)
Definition Qc_ofZ (z : Z) : Qc := Q2Qc (inject_Z z).

Lemma this_Q2Qc (q : Q) : (this (Q2Qc q) == q)%Q.
Proof. exact: Qred_correct. Qed.

Lemma Qc_ofZ_nat (n : nat) : Qc_ofZ (Z.of_nat n) = n%:R.
Proof.
elim: n => [|n IH]; first by [].
rewrite Nat2Z.inj_succ -Z.add_1_l mulrS -IH QcaddE /Qc_ofZ.
rewrite /Qcplus; apply/Q2Qc_eq_iff.
by rewrite !this_Q2Qc inject_Z_plus.
Qed.
