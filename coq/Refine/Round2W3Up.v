(** Round 2 step, third wave (C06): what one iteration [up_step] of the U_p loop computes, and the
    whole loop: the sub-lattice of I_p of the elements u with x * u in p I_p for every x in I_p
    (products taken with the model's table mod p^2; p^2 Z^n is contained in p I_p, so the reduction
    is immaterial).  stdlib + lia, on top of Round2W3Ip (kernel/HNF) and Round2W3Mul (table product). *)
From RNT.Model Require Import Base Poly Algebraic LinAlg MultTable Order Round2.
From RNT.Model Require Hnf.
From RNT.Refine Require Import MatZ HnfOps HnfSpec HnfMain HnfKernel HnfTotal HnfUnique.
From RNT.Refine Require Import Round2Basic Round2Index Round2Lattice Round2Det Round2W3Ip.
From RNT.Refine Require MultTableOps AlgNormMx Round2W3Mul.
From Coq Require Import Lia.
Open Scope Z_scope.

Notation tmul := AlgNormMx.tmul.
Notation cube := MultTableOps.cube.

(** ** [mapM] of a function that always returns *)
Lemma mapM_map {A B} (f : A -> outcome B) (g : A -> B) : forall l,
  (forall x, In x l -> f x = Done (g x)) -> mapM f l = Done (map g l).
Proof.
  induction l as [|x l IH]; intros H; [reflexivity|].
  cbn [mapM map]. rewrite (H x (or_introl eq_refl)). cbn [bind].
  rewrite IH by (intros y Hy; apply H; right; assumption). reflexivity.
Qed.

Lemma wf_In m (A : mat) r : wf m A -> In r A -> length r = m.
Proof. unfold wf. rewrite Forall_forall. auto. Qed.

Lemma wf_map_len m {X} (g : X -> list Z) (l : list X) : (forall x, In x l -> length (g x) = m) -> wf m (map g l).
Proof.
  intros H. apply Forall_forall. intros r Hr. apply in_map_iff in Hr. destruct Hr as [x [<- Hx]]. auto.
Qed.

(** ** the row span is a Z-module *)
Lemma rowspan_zero m A : wf m A -> In_rowspanZ m (vzero m) A.
Proof.
  intros W. exists (vzero (length A)). split; [apply vzero_length|]. symmetry. apply lincomb_vzero. assumption.
Qed.

Lemma rowspan_add m A v w : wf m A -> In_rowspanZ m v A -> In_rowspanZ m w A -> In_rowspanZ m (vadd v w) A.
Proof.
  intros W [c [Lc ->]] [d [Ld ->]]. exists (vadd c d). split.
  - rewrite vadd_length; lia.
  - symmetry. apply lincomb_add; [lia|assumption].
Qed.

Lemma rowspan_scale m A q v : wf m A -> In_rowspanZ m v A -> In_rowspanZ m (vscale q v) A.
Proof.
  intros W [c [Lc ->]]. exists (vscale q c). split; [rewrite vscale_length; assumption|].
  symmetry. apply lincomb_scale. assumption.
Qed.

Lemma rowspan_length m A v : wf m A -> In_rowspanZ m v A -> length v = m.
Proof. intros W [c [_ ->]]. apply lincomb_length. assumption. Qed.

(** a combination of vectors of the span is in the span *)
Lemma rowspan_lincomb m A : wf m A -> forall c B, wf m B ->
  (forall r, In r B -> In_rowspanZ m r A) -> In_rowspanZ m (lincomb m c B) A.
Proof.
  intros W. induction c as [|c0 c IH]; intros B WB H.
  - rewrite lincomb_nil_l. apply rowspan_zero. assumption.
  - destruct B as [|r B]; [rewrite lincomb_nil_r; apply rowspan_zero; assumption|].
    apply wf_cons in WB. destruct WB as [Hr WB]. cbn [lincomb].
    apply rowspan_add; [assumption| |].
    + apply rowspan_scale; [assumption|]. apply H. left. reflexivity.
    + apply IH; [assumption|]. intros r' Hr'. apply H. right. assumption.
Qed.

Lemma rowspan_mmul_iff m n (N U : mat) u : wf n N -> wf m U -> length U = n ->
  In_rowspanZ m u (mmul m N U) <-> exists c, In_rowspanZ n c N /\ u = lincomb m c U.
Proof.
  intros WN WU LU. split.
  - intros [d [Ld ->]]. rewrite mmul_length in Ld.
    exists (lincomb n d N). split; [exists d; auto|].
    symmetry. apply lincomb_assoc; assumption.
  - intros [c [[d [Ld ->]] ->]]. exists d. split; [rewrite mmul_length; assumption|].
    apply lincomb_assoc; assumption.
Qed.

(** ** congruences *)
Lemma rem_congr x q : (q | x - Z.rem x q).
Proof. exists (Z.quot x q). pose proof (Z.quot_rem' x q). lia. Qed.

Lemma lincomb_congr m q : forall c A B, wf m A -> wf m B -> length A = length B ->
  (forall t k, (q | ent A t k - ent B t k)) ->
  forall k, (q | nth k (lincomb m c A) 0 - nth k (lincomb m c B) 0).
Proof.
  induction c as [|c0 c IH]; intros A B WA WB L H k.
  - rewrite !lincomb_nil_l. exists 0. lia.
  - destruct A as [|a A]; destruct B as [|b B]; try discriminate.
    + rewrite !lincomb_nil_r. exists 0. lia.
    + apply wf_cons in WA. apply wf_cons in WB. destruct WA as [La WA]. destruct WB as [Lb WB].
      rewrite !nth_lincomb_cons by assumption.
      replace (c0 * nth k a 0 + nth k (lincomb m c A) 0 - (c0 * nth k b 0 + nth k (lincomb m c B) 0))
        with (c0 * (nth k a 0 - nth k b 0) + (nth k (lincomb m c A) 0 - nth k (lincomb m c B) 0)) by lia.
      apply Z.divide_add_r.
      * apply Z.divide_mul_r. apply (H O k).
      * apply IH; try assumption; [cbn in L; lia|]. intros t k'. apply (H (S t) k').
Qed.

(** ** the lattice p I_p *)
Definition pI (p : Z) (i_p : mat) : mat := map (vscale p) i_p.

Lemma pI_wf m p i_p : wf m i_p -> wf m (pI p i_p).
Proof. intros W. apply wf_map_len. intros x Hx. rewrite vscale_length. apply (wf_In m i_p); assumption. Qed.

Lemma pI_iff m p i_p v : wf m i_p ->
  In_rowspanZ m v (pI p i_p) <-> exists w, In_rowspanZ m w i_p /\ v = vscale p w.
Proof.
  intros W. unfold pI. split.
  - intros [c [Lc ->]]. rewrite map_length in Lc. exists (lincomb m c i_p).
    split; [exists c; auto|]. apply lincomb_map_vscale. assumption.
  - intros [w [[c [Lc ->]] ->]]. exists c. split; [rewrite map_length; assumption|].
    symmetry. apply lincomb_map_vscale. assumption.
Qed.

(** p^2 Z^m is contained in p I_p when p Z^m is contained in I_p: membership in p I_p only depends
    on the vector modulo p^2 *)
Lemma pI_congr m p i_p a b : wf m i_p ->
  (forall y, length y = m -> In_rowspanZ m (vscale p y) i_p) ->
  length a = m -> length b = m ->
  (forall k, (p * p | nth k a 0 - nth k b 0)) ->
  In_rowspanZ m a (pI p i_p) -> In_rowspanZ m b (pI p i_p).
Proof.
  intros W PZ La Lb D Ha.
  set (y := map2 (fun x z => (z - x) / (p * p)) a b).
  assert (Ly : length y = m) by (unfold y; rewrite map2_length; lia).
  assert (E : b = vadd a (vscale p (vscale p y))).
  { apply vec_ext with m; [assumption| |].
    - rewrite vadd_length; rewrite ?vscale_length; lia.
    - intros k Hk. rewrite nth_vadd by (rewrite !vscale_length; lia). rewrite !nth_vscale.
      unfold y. rewrite nth_map2 by (lia || reflexivity).
      assert (Dk : (p * p | nth k b 0 - nth k a 0)).
      { destruct (D k) as [q Hq]. exists (- q). lia. }
      pose proof (divide_factor _ _ Dk). lia. }
  rewrite E. apply rowspan_add; [apply pI_wf; assumption|assumption|].
  apply pI_iff; [assumption|]. exists (vscale p y). split; [apply PZ; assumption|reflexivity].
Qed.

(** ** closed forms of the pieces of [up_step] *)
Lemma mapM_nth_chk_all {A} (r : list A) : mapM (fun j => nth_chk r j) (seq 0 (length r)) = Done r.
Proof.
  destruct r as [|x0 r0] eqn:Er; [reflexivity|]. rewrite <- Er. clear Er r0.
  rewrite mapM_map with (g := fun j => nth j r x0).
  - f_equal. apply nth_ext with (d := x0) (d' := x0); [rewrite map_length, seq_length; reflexivity|].
    intros i Hi. rewrite map_length, seq_length in Hi.
    rewrite nth_indep with (d' := (fun j => nth j r x0) O) by (rewrite map_length, seq_length; assumption).
    rewrite (map_nth (fun j => nth j r x0)). rewrite seq_nth by assumption. reflexivity.
  - intros j Hj. apply in_seq in Hj. apply nth_chk_ok. lia.
Qed.

Lemma scale_rows_closed deg p i_p : wf deg i_p -> scale_rows deg p i_p = Done (pI p i_p).
Proof.
  intros W. unfold scale_rows, pI. apply mapM_map. intros r Hr.
  pose proof (wf_In deg i_p r W Hr) as Lr. subst deg.
  transitivity (do x <- mapM (fun j => nth_chk r j) (seq 0 (length r)); Done (map (fun x => x * p) x)).
  - clear. generalize (seq 0 (length r)). induction l as [|j l IH]; [reflexivity|].
    cbn [mapM]. destruct (nth_chk r j) as [x| |]; cbn [bind]; try reflexivity.
    rewrite IH. destruct (mapM (fun j0 => nth_chk r j0) l); reflexivity.
  - rewrite mapM_nth_chk_all. cbn [bind]. f_equal. unfold vscale. apply map_ext. intros. lia.
Qed.

Lemma addmul_prefix_vadd : forall n acc r c, length acc = n -> length r = n ->
  addmul_prefix n acc r c = Done (vadd acc (vscale c r)).
Proof.
  induction n as [|n IH]; intros acc r c La Lr.
  - destruct acc; [|discriminate]. reflexivity.
  - destruct acc as [|x acc]; [discriminate|]. destruct r as [|y r]; [discriminate|].
    cbn [addmul_prefix]. rewrite IH by (cbn in *; lia). reflexivity.
Qed.

Lemma vadd_vzero_r m v : length v = m -> vadd v (vzero m) = v.
Proof.
  intros L. apply vec_ext with m; [rewrite vadd_length; rewrite ?vzero_length; lia|assumption|].
  intros k Hk. rewrite nth_vadd by (rewrite vzero_length; lia). rewrite nth_vzero. lia.
Qed.

Lemma vadd_assoc m a b c : length a = m -> length b = m -> length c = m ->
  vadd (vadd a b) c = vadd a (vadd b c).
Proof.
  intros La Lb Lc. apply vec_ext with m.
  - rewrite !vadd_length; rewrite ?vadd_length; lia.
  - rewrite !vadd_length; rewrite ?vadd_length; lia.
  - intros k Hk. rewrite !nth_vadd; rewrite ?vadd_length; lia.
Qed.

Lemma recombine_loop deg (u_p : mat) (row : list Z) : wf deg u_p -> length row = length u_p ->
  forall n s acc, (s + n = length u_p)%nat -> length acc = deg ->
  Hnf.for_loop (seq s n) (fun j acc =>
      do upj <- nth_chk u_p j; do c <- nth_chk row j; addmul_prefix deg acc upj c) acc
  = Done (vadd acc (lincomb deg (skipn s row) (skipn s u_p))).
Proof.
  intros W L. induction n as [|n IH]; intros s acc Hs La.
  - cbn [seq Hnf.for_loop]. rewrite (skipn_all2 u_p) by lia. rewrite lincomb_nil_r.
    rewrite vadd_vzero_r by assumption. reflexivity.
  - cbn [seq Hnf.for_loop].
    rewrite (nth_chk_ok u_p s []) by lia. rewrite (nth_chk_ok row s 0) by lia. cbn [bind].
    assert (Lu : length (nth s u_p []) = deg) by (apply (wf_row deg u_p s W); lia).
    rewrite addmul_prefix_vadd by assumption. cbn [bind].
    rewrite IH; [|lia|rewrite vadd_length; rewrite ?vscale_length; lia].
    rewrite (skipn_nth_cons row 0 s) by lia. rewrite (skipn_nth_cons u_p [] s) by lia.
    cbn [lincomb]. f_equal. apply (vadd_assoc deg); [assumption|rewrite vscale_length; assumption|].
    apply lincomb_length. apply Forall_forall. intros r Hr. apply (wf_In deg u_p r W).
    clear -Hr. revert Hr. generalize (S s). induction u_p as [|x u IH]; intros k Hr.
    + rewrite skipn_nil in Hr. destruct Hr.
    + destruct k as [|k]; [exact Hr|]. right. apply (IH k). exact Hr.
Qed.

Lemma vadd_vzero_l m v : length v = m -> vadd (vzero m) v = v.
Proof.
  intros L. apply vec_ext with m; [rewrite vadd_length; rewrite ?vzero_length; lia|assumption|].
  intros k Hk. rewrite nth_vadd by (rewrite vzero_length; lia). rewrite nth_vzero. lia.
Qed.

Lemma recombine_row_closed deg u_p row : wf deg u_p -> length row = length u_p ->
  recombine_row deg u_p row = Done (lincomb deg row u_p).
Proof.
  intros W L. unfold recombine_row, Hnf.range. rewrite Nat.sub_0_r.
  rewrite (recombine_loop deg u_p row W L (length u_p) O (repeat 0 deg)) by (try apply repeat_length; lia).
  cbn [skipn]. f_equal. apply (vadd_vzero_l deg). apply lincomb_length. assumption.
Qed.

(** the matrix whose kernel [up_step] computes: the products i_p[i] * u_p[j] mod p^2 on top of p I_p *)
Definition up_prods (deg : nat) (p2 : Z) (tbl2 : table) (ipi : list Z) (u_p : mat) : mat :=
  map (fun u => map (fun x => Z.rem x p2) (tmul tbl2 deg ipi u)) u_p.

Lemma up_prods_wf deg p2 tbl2 ipi u_p : wf deg (up_prods deg p2 tbl2 ipi u_p).
Proof. apply wf_map_len. intros x _. rewrite map_length. apply Round2W3Mul.tmul_length. Qed.

Lemma up_step_closed deg p p2 tbl2 i_p i u_p :
  cube deg tbl2 = true -> p2 <> 0 -> wf deg i_p -> wf deg u_p -> (i < length i_p)%nat ->
  up_step deg p p2 tbl2 i_p i u_p =
  (do new_u_p <- kernel_hnf_trunc (up_prods deg p2 tbl2 (row i_p i) u_p ++ pI p i_p) (length u_p);
   do tmp <- mapM (recombine_row deg u_p) new_u_p;
   Hnf.hnf_new tmp).
Proof.
  intros C P2 Wi Wu Hi. unfold up_step.
  rewrite (nth_chk_ok i_p i []) by assumption. cbn [bind].
  assert (Li : length (nth i i_p []) = deg) by (apply (wf_row deg i_p i Wi Hi)).
  rewrite mapM_map with (g := fun u => map (fun x => Z.rem x p2) (tmul tbl2 deg (nth i i_p []) u)).
  - cbn [bind]. rewrite scale_rows_closed by assumption. cbn [bind]. reflexivity.
  - intros u Hu. apply Round2W3Mul.mul_mod_p_closed; try assumption.
    apply (wf_In deg u_p); assumption.
Qed.

(** ** [P] up_step_spec: the new U_p is the sub-lattice of the old one of the elements whose
    product with the generator i_p[i] lies in p I_p *)
Theorem up_step_spec deg p tbl2 i_p i u_p u' :
  cube deg tbl2 = true -> (1 <= deg)%nat -> p <> 0 -> wf deg i_p -> wf deg u_p -> (i < length i_p)%nat ->
  (forall y, length y = deg -> In_rowspanZ deg (vscale p y) i_p) ->
  up_step deg p (p * p) tbl2 i_p i u_p = Done u' ->
  hnf_rows deg 0 u' /\
  forall u, In_rowspanZ deg u u' <->
            In_rowspanZ deg u u_p /\ In_rowspanZ deg (tmul tbl2 deg (row i_p i) u) (pI p i_p).
Proof.
  intros C D1 P0 Wi Wu Hi PZ E.
  assert (P2 : p * p <> 0) by nia.
  rewrite up_step_closed in E by assumption.
  set (ipi := row i_p i) in *. set (prods := up_prods deg (p * p) tbl2 ipi u_p) in *.
  pose proof (up_prods_wf deg (p * p) tbl2 ipi u_p) as Wp. fold prods in Wp.
  pose proof (pI_wf deg p i_p Wi) as Ws.
  assert (Lp : length prods = length u_p) by (unfold prods, up_prods; apply map_length).
  assert (Ls : length (pI p i_p) = length i_p) by (unfold pI; apply map_length).
  assert (SM : shape (length u_p + length i_p) deg (prods ++ pI p i_p)).
  { split; [rewrite app_length; lia|apply wf_app; split; assumption]. }
  destruct (kernel_hnf_trunc (prods ++ pI p i_p) (length u_p)) as [new| |] eqn:EK; cbn [bind] in E; try discriminate.
  destruct (kernel_hnf_trunc_spec _ _ _ (length u_p) _ SM ltac:(lia) D1 ltac:(lia) EK) as [Wn Sp].
  rewrite mapM_map with (g := fun r => lincomb deg r u_p) in E
    by (intros r Hr; apply recombine_row_closed; [assumption|apply (wf_In _ new); assumption]).
  cbn [bind] in E. change (map (fun r => lincomb deg r u_p) new) with (mmul deg new u_p) in E.
  destruct (hnf_new_any deg _ u' (mmul_wf deg new u_p Wu) D1 E) as [HR [Wu' Span]].
  split; [assumption|].
  (* the products with the combination, up to p^2 *)
  assert (CG : forall c k, (p * p | nth k (tmul tbl2 deg ipi (lincomb deg c u_p)) 0 - nth k (lincomb deg c prods) 0)).
  { intros c k. rewrite Round2W3Mul.tmul_lincomb_r by assumption.
    apply lincomb_congr.
    - apply wf_map_len. intros x _. apply Round2W3Mul.tmul_length.
    - assumption.
    - rewrite map_length. lia.
    - intros t k'. unfold ent, row, prods, up_prods.
      destruct (Nat.lt_ge_cases t (length u_p)) as [Ht|Ht].
      + rewrite nth_indep with (d' := tmul tbl2 deg ipi []) by (rewrite map_length; assumption).
        rewrite (map_nth (tmul tbl2 deg ipi)).
        rewrite (nth_indep (map _ u_p)) with (d' := map (fun x => Z.rem x (p * p)) (tmul tbl2 deg ipi []))
          by (rewrite map_length; assumption).
        rewrite (map_nth (fun u => map (fun x => Z.rem x (p * p)) (tmul tbl2 deg ipi u))).
        rewrite nth_map_Z by reflexivity. apply rem_congr.
      + rewrite !nth_overflow with (n := t) by (rewrite map_length; assumption).
        destruct k'; exists 0; reflexivity. }
  intros u. rewrite (Span u).
  rewrite (rowspan_mmul_iff deg (length u_p) new u_p u Wn Wu eq_refl). split.
  - intros [c [Hc ->]]. apply Sp in Hc. destruct Hc as [v [Lv [Zv ->]]].
    assert (Lc : length (firstn (length u_p) v) = length u_p) by (rewrite firstn_length; lia).
    split; [exists (firstn (length u_p) v); auto|].
    rewrite <- (firstn_skipn (length u_p) v) in Zv.
    rewrite lincomb_app in Zv by (assumption || lia).
    set (c := firstn (length u_p) v) in *. set (e := skipn (length u_p) v) in *.
    assert (Le : length e = length i_p) by (unfold e; rewrite skipn_length; lia).
    assert (IP : In_rowspanZ deg (lincomb deg c prods) (pI p i_p)).
    { exists (vscale (-1) e). split; [rewrite vscale_length; lia|].
      rewrite lincomb_scale by assumption.
      apply vec_ext with deg; [apply lincomb_length; assumption|rewrite vscale_length; apply lincomb_length; assumption|].
      intros k Hk. apply (f_equal (fun l => nth k l 0)) in Zv.
      rewrite nth_vadd in Zv by (rewrite !lincomb_length by assumption; reflexivity).
      rewrite nth_vzero in Zv. rewrite nth_vscale. lia. }
    apply (pI_congr deg p i_p (lincomb deg c prods)); try assumption.
    + apply lincomb_length; assumption.
    + apply Round2W3Mul.tmul_length.
    + intros k. destruct (CG c k) as [q Hq]. exists (- q). lia.
  - intros [[c [Lc ->]] HP].
    exists c. split; [|reflexivity]. apply Sp.
    assert (IP : In_rowspanZ deg (lincomb deg c prods) (pI p i_p)).
    { apply (pI_congr deg p i_p (tmul tbl2 deg ipi (lincomb deg c u_p))); try assumption.
      - apply Round2W3Mul.tmul_length.
      - apply lincomb_length; assumption.
      - apply CG. }
    destruct IP as [e [Le Ee]].
    exists (c ++ vscale (-1) e). split; [rewrite app_length, vscale_length; lia|]. split.
    + rewrite lincomb_app by (assumption || lia). rewrite Ee, lincomb_scale by assumption.
      apply vzero_all.
      * rewrite vadd_length; rewrite ?vscale_length, !lincomb_length by assumption; reflexivity.
      * intros k Hk. rewrite nth_vadd by (rewrite vscale_length, !lincomb_length by assumption; reflexivity).
        rewrite nth_vscale. lia.
    + rewrite firstn_app, firstn_all2 by lia. rewrite Lc, Nat.sub_diag. cbn [firstn]. rewrite app_nil_r. reflexivity.
Qed.

(** [P] the iteration never panics on well-shaped data *)
Theorem up_step_total deg p tbl2 i_p i u_p :
  cube deg tbl2 = true -> (1 <= deg)%nat -> p <> 0 -> wf deg i_p -> wf deg u_p -> (i < length i_p)%nat ->
  exists u', up_step deg p (p * p) tbl2 i_p i u_p = Done u' /\ hnf_rows deg 0 u'.
Proof.
  intros C D1 P0 Wi Wu Hi.
  assert (P2 : p * p <> 0) by nia.
  rewrite up_step_closed by assumption.
  set (prods := up_prods deg (p * p) tbl2 (row i_p i) u_p).
  pose proof (up_prods_wf deg (p * p) tbl2 (row i_p i) u_p) as Wp. fold prods in Wp.
  pose proof (pI_wf deg p i_p Wi) as Ws.
  assert (Lp : length prods = length u_p) by (unfold prods, up_prods; apply map_length).
  assert (Ls : length (pI p i_p) = length i_p) by (unfold pI; apply map_length).
  assert (SM : shape (length u_p + length i_p) deg (prods ++ pI p i_p)).
  { split; [rewrite app_length; lia|apply wf_app; split; assumption]. }
  destruct (kernel_hnf_trunc_total _ _ _ (length u_p) SM ltac:(lia) D1) as [new EK].
  rewrite EK. cbn [bind].
  destruct (kernel_hnf_trunc_spec _ _ _ (length u_p) _ SM ltac:(lia) D1 ltac:(lia) EK) as [Wn _].
  rewrite mapM_map with (g := fun r => lincomb deg r u_p)
    by (intros r Hr; apply recombine_row_closed; [assumption|apply (wf_In _ new); assumption]).
  cbn [bind]. change (map (fun r => lincomb deg r u_p) new) with (mmul deg new u_p).
  destruct (hnf_new_any_total deg _ (mmul_wf deg new u_p Wu) D1) as [u' E].
  exists u'. split; [assumption|].
  apply (hnf_new_any deg _ u' (mmul_wf deg new u_p Wu) D1 E).
Qed.

(** ** the whole loop *)
Theorem up_loop_spec deg p tbl2 i_p :
  cube deg tbl2 = true -> (1 <= deg)%nat -> p <> 0 -> wf deg i_p ->
  (forall y, length y = deg -> In_rowspanZ deg (vscale p y) i_p) ->
  forall n s u0 uf, (s + n <= length i_p)%nat -> wf deg u0 ->
  Hnf.for_loop (seq s n) (up_step deg p (p * p) tbl2 i_p) u0 = Done uf ->
  wf deg uf /\ ((1 <= n)%nat -> hnf_rows deg 0 uf) /\
  forall u, In_rowspanZ deg u uf <->
            In_rowspanZ deg u u0 /\
            forall i, (s <= i < s + n)%nat -> In_rowspanZ deg (tmul tbl2 deg (row i_p i) u) (pI p i_p).
Proof.
  intros C D1 P0 Wi PZ. induction n as [|n IH]; intros s u0 uf Hs W0 E.
  - cbn [seq Hnf.for_loop] in E. injection E as <-. split; [assumption|]. split; [lia|].
    intros u. split; [intros H; split; [assumption|intros i Hi; lia]|tauto].
  - rewrite <- Nat.add_1_r in E. rewrite seq_app in E. cbn [seq] in E.
    assert (FA : forall (l1 l2 : list nat) (u : Hnf.mat),
              Hnf.for_loop (l1 ++ l2) (up_step deg p (p * p) tbl2 i_p) u =
              do u1 <- Hnf.for_loop l1 (up_step deg p (p * p) tbl2 i_p) u;
              Hnf.for_loop l2 (up_step deg p (p * p) tbl2 i_p) u1).
    { clear. induction l1 as [|j l1 IH]; intros l2 u; [reflexivity|].
      cbn [app Hnf.for_loop]. destruct (up_step deg p (p * p) tbl2 i_p j u); cbn [bind]; auto. }
    rewrite FA in E.
    destruct (Hnf.for_loop (seq s n) (up_step deg p (p * p) tbl2 i_p) u0) as [u1| |] eqn:E1; cbn [bind] in E; try discriminate.
    destruct (IH s u0 u1 ltac:(lia) W0 E1) as [W1 [_ S1]].
    cbn [Hnf.for_loop] in E.
    destruct (up_step deg p (p * p) tbl2 i_p (s + n) u1) as [u2| |] eqn:E2; cbn [bind] in E; try discriminate.
    injection E as <-.
    destruct (up_step_spec deg p tbl2 i_p (s + n)%nat u1 u2 C D1 P0 Wi W1 ltac:(lia) PZ E2) as [HR S2].
    split; [apply hnf_rows_wf with 0%nat; assumption|]. split; [intros _; assumption|].
    intros u. rewrite S2, S1. split.
    + intros [[A B] G]. split; [assumption|]. intros i Hi.
      destruct (Nat.eq_dec i (s + n)) as [->|Ne]; [assumption|]. apply B. lia.
    + intros [A B]. split; [split; [assumption|]|].
      * intros i Hi. apply B. lia.
      * apply B. lia.
Qed.

Theorem up_loop_total deg p tbl2 i_p :
  cube deg tbl2 = true -> (1 <= deg)%nat -> p <> 0 -> wf deg i_p ->
  forall n s u0, (s + n <= length i_p)%nat -> wf deg u0 ->
  exists uf, Hnf.for_loop (seq s n) (up_step deg p (p * p) tbl2 i_p) u0 = Done uf /\ wf deg uf /\
             ((1 <= n)%nat -> hnf_rows deg 0 uf).
Proof.
  intros C D1 P0 Wi. induction n as [|n IH]; intros s u0 Hs W0.
  - exists u0. split; [reflexivity|]. split; [assumption|lia].
  - cbn [seq Hnf.for_loop].
    destruct (up_step_total deg p tbl2 i_p s u0 C D1 P0 Wi W0 ltac:(lia)) as [u1 [E1 H1]].
    rewrite E1. cbn [bind].
    destruct (IH (S s) u1 ltac:(lia) (hnf_rows_wf _ _ _ H1)) as [uf [Ef [Wf Hf]]].
    exists uf. split; [assumption|]. split; [assumption|]. intros _.
    destruct n as [|n]; [|apply Hf; lia].
    cbn [seq Hnf.for_loop] in Ef. injection Ef as <-. assumption.
Qed.
