(** * [poly_ext_gcd] and [poly_coprime_witness] modulo a prime (ssreflect). *)
From Coq Require Import ZArith List Lia Znumtheory.
From mathcomp Require Import all_ssreflect ssralg poly.
From RNT.Model Require Import Base Poly PolyModP.
From RNT.Refine Require Import PolyModPArith PolyModPDivList FermatZ PolyZmod PolyModPDiv.
From mathcomp Require Import ssrZ zify ring.
Set Implicit Arguments. Unset Strict Implicit. Unset Printing Implicit Defensive.
Import GRing.Theory.
Local Open Scope ring_scope.

(** The leading coefficient (if any) is invertible modulo p. *)
Definition goodlc (p : Z) (x : list Z) : Prop := x <> [::] -> ~ (p | List.last x Z0)%ZZ.

Lemma goodlc_nil p : goodlc p [::].
Proof. by []. Qed.

Lemma last_in_range p x : x <> [::] -> in_range p x -> (0 <= List.last x Z0 < p)%ZZ.
Proof.
  move=> Hx Hr. rewrite last_nth_len.
  have L : (length x - 1 < length x)%coq_nat.
  { case: x Hx {Hr} => [|x0 x] //= _. lia. }
  exact: (proj1 (List.Forall_nth _ _) Hr _ Z0 L).
Qed.

Lemma reduced_goodlc p x : (0 < p)%ZZ -> canonical x -> in_range p x -> goodlc p x.
Proof.
  move=> Hp Hc Hr Hx D.
  have B := last_in_range Hx Hr. have N := canonical_last _ Hc Hx.
  have := Zdivide_le p (List.last x Z0) ltac:(lia) ltac:(lia) D. lia.
Qed.

Lemma lmonic_goodlc p x : (1 < p)%ZZ -> List.last x Z0 = 1%ZZ -> goodlc p x.
Proof. move=> Hp E _ D. rewrite E in D. have := Zdivide_le p 1%ZZ ltac:(lia) ltac:(lia) D. lia. Qed.

(** What the Euclidean recursions need of one division. *)
Lemma divrem_good a b p q r :
  Znumtheory.prime p -> goodlc p a -> goodlc p b ->
  poly_divrem a b p = Done (q, r) ->
  eqpm p (PZ a) (PZ q * PZ b + PZ r) /\ goodlc p r /\
  (b <> [::] -> (length r < length b)%coq_nat) /\ (b = [::] -> r = a).
Proof.
  move=> Hp Ga Gb H. have Hp2 := prime_ge_2 _ Hp.
  case: (b =P [::]) => [Eb|Nb].
  - have E : poly_divrem a b p = Done (from_mono opsZ Z0, a).
    { rewrite Eb /poly_divrem. by case: (a). }
    move: H. rewrite E. case=> <- <-. rewrite PZ_from_mono.
    split; first by (exists 0; ring). by [].
  - have Dp := poly_divrem_spec Hp Nb (Gb Nb) H.
    have Sh := divrem_post_short Dp.
    case: Dp => D1 [_ [_ [_ [D2 D3]]]].
    split=> //. split; last by [].
    case: (Nat.lt_ge_cases (length a) (length b)) => Hl.
    + by case: (D3 Hl) => _ ->.
    + case: (D2 (or_introl Hl)) => _ [Cr Rr]. apply: reduced_goodlc => //. lia.
Qed.

(** [P] [poly_ext_gcd]: the Bezout relation. *)
Lemma poly_ext_gcd_rec_spec p fuel : forall a b g u v,
  Znumtheory.prime p -> goodlc p a -> goodlc p b ->
  poly_ext_gcd_rec fuel a b p = Done (g, u, v) ->
  eqpm p (PZ a * PZ u + PZ b * PZ v) (PZ g) /\ goodlc p g.
Proof.
  elim: fuel => [|f IH] a b g u v Hp Ga Gb //=.
  have Hp2 := prime_ge_2 _ Hp. have Hp0 : p <> Z0 by lia.
  case Ed: (poly_divrem a b p) => [[quo rem]| |] //=.
  have [D1 [Gr _]] := divrem_good Hp Ga Gb Ed.
  case: rem Ed D1 Gr => [|r0 rem] Ed D1 Gr.
  - case=> <- <- <-. rewrite PZ_from_mono. split=> //. exists 0. rewrite /PZ /=. ring.
  - case Er: (poly_ext_gcd_rec f b (r0 :: rem) p) => [[[g' u0] v0]| |] //=.
    case Eqv: (poly_mod _ p) => [qv| |] //=.
    case Ev: (poly_mod_sub u0 qv p) => [v'| |] //=.
    case=> <- <- <-.
    have [[K4 HK4] Gg] := IH _ _ _ _ _ Hp Gb Gr Er.
    split=> //.
    have [K1 HK1] := D1.
    have [K2 HK2] := PZ_poly_mod Hp0 Eqv. rewrite PZ_pmul in HK2.
    have [K3 HK3] := PZ_poly_mod Hp0 Ev. rewrite PZ_psub in HK3.
    exists (K1 * PZ v0 + PZ b * (K3 - K2) + K4).
    rewrite HK3 HK2 HK1.
    apply/eqP; rewrite -subr_eq0; apply/eqP.
    transitivity ((PZ b * PZ u0 + PZ (r0 :: rem) * PZ v0) - (PZ g' + p%:P * K4)); first by ring.
    rewrite HK4. ring.
Qed.

Lemma poly_ext_gcd_spec p a b g u v :
  Znumtheory.prime p -> goodlc p a -> goodlc p b ->
  poly_ext_gcd a b p = Done (g, u, v) ->
  eqpm p (PZ a * PZ u + PZ b * PZ v) (PZ g) /\ goodlc p g.
Proof. exact: poly_ext_gcd_rec_spec. Qed.

(** [P] [coprime_witness_spec]: whenever [poly_coprime_witness] returns (i.e. the gcd it
    computed is a non-zero constant), a u + b v = 1 modulo p. *)
Theorem coprime_witness_spec p a b u v :
  Znumtheory.prime p -> goodlc p a -> goodlc p b ->
  poly_coprime_witness a b p = Done (u, v) ->
  eqpm p (PZ a * PZ u + PZ b * PZ v) 1 /\ canonical u /\ in_range p u /\ canonical v /\ in_range p v.
Proof.
  move=> Hp Ga Gb. have Hp2 := prime_ge_2 _ Hp. have Hp0 : p <> Z0 by lia. have Hpp : (0 < p)%ZZ by lia.
  rewrite /poly_coprime_witness.
  case Eg: (poly_ext_gcd a b p) => [[[g u0] v0]| |] //=.
  have [[K HK] Gg] := poly_ext_gcd_spec Hp Ga Gb Eg.
  case Ed: (pdeg g =? 0)%ZZ => //=.
  have [g0 Eg0] := pdeg0_single _ Ed.
  rewrite Eg0 /coef_at /=.
  case En: (num_extended_gcd g0 p) => [[[gg x] y]| |] //=.
  have -> : (p =? 0)%ZZ = false by apply/Z.eqb_neq.
  case Eu: (poly_mod _ p) => [u'| |] //=. case Ev: (poly_mod _ p) => [v'| |] //=.
  case=> <- <-.
  have [N1 N2] := num_extended_gcd_spec _ _ _ _ _ En.
  have Hg0 : ~ (p | g0)%ZZ by move: (Gg); rewrite Eg0; apply.
  have G1 : gg = 1%ZZ.
  { rewrite N2. apply/Zgcd_1_rel_prime. apply: rel_prime_sym. exact: prime_rel_prime. }
  have [Cu Ru] := @poly_mod_reduced _ _ _ Hpp Eu. have [Cv Rv] := @poly_mod_reduced _ _ _ Hpp Ev.
  split; last by [].
  have [Ku HKu] := PZ_poly_mod Hp0 Eu. rewrite PZ_poly_mul in HKu.
  have [Kv HKv] := PZ_poly_mod Hp0 Ev. rewrite PZ_poly_mul in HKv.
  have Einv : Z.modulo x p = (x - p * (Z.div x p))%ZZ by have := Z.div_mod x p Hp0; lia.
  have EgP : PZ g = g0%:P by rewrite Eg0 /PZ /= cons_poly_def mul0r add0r.
  rewrite EgP in HK.
  (* g0 * (x mod p) = 1 - p * y - g0 * p * (x / p) *)
  exists (Ku * PZ a + Kv * PZ b + (Z.modulo x p)%:P * K - (y + g0 * (Z.div x p))%ZZ%:P).
  rewrite HKu HKv.
  apply/eqP; rewrite -subr_eq0; apply/eqP.
  transitivity ((Z.modulo x p)%:P * (PZ a * PZ u0 + PZ b * PZ v0 - (g0%:P + p%:P * K))
                + ((g0 * Z.modulo x p)%ZZ%:P - 1 + p%:P * (y + g0 * (Z.div x p))%ZZ%:P)).
  - rewrite polyCM. ring.
  - rewrite HK. have -> : (g0 * Z.modulo x p)%ZZ = (1 - p * (y + g0 * (Z.div x p)))%ZZ by rewrite Einv; lia.
    rewrite polyCB polyCM polyC1. ring.
Qed.
