(** * HnfMain: theorems about the entry points [hnf_with_u], [hnf_with_ker], [HNF::new], [HNF::kernel]. *)
From Coq Require Import ZArith List Lia Bool.
From RNT.Model Require Import Base Hnf.
From RNT.Refine Require Import MatZ HnfOps HnfSteps HnfSpec HnfLoop.
Import ListNotations.
Open Scope Z_scope.

(** ** hnf_with_u: shape of H, U unimodular, U * A = [0_k ; H] *)
Theorem hnf_with_u_correct A n m H U k :
  shape n m A -> (1 <= n)%nat -> (1 <= m)%nat -> hnf_with_u A = Done (H, U, k) ->
  hnf_rows m 0 H /\ shape n n U /\ unimodular n U /\
  mmul m U A = repeat (vzero m) k ++ H /\ (k + length H = n)%nat.
Proof.
  intros HS Hn Hm Hrun. pose proof HS as [Hlen Hwf].
  destruct A as [|a0 A']; [simpl in Hlen; lia|].
  unfold hnf_with_u in Hrun.
  assert (Hm0 : length a0 = m) by (apply wf_cons in Hwf; tauto).
  rewrite Hm0, Hlen in Hrun.
  change (Hnf.identity n) with (idmat n) in Hrun.
  ibind Hrun as st E. destruct st as [[a' u'] k'].
  destruct (Nat.leb_spec k' (length a')) as [Hk'|Hk']; [|discriminate].
  inversion Hrun; subst H U k; clear Hrun.
  assert (HI0 := Inv_init (a0 :: A') n m HS).
  assert (Hz0 : forall j c, (j <= n - 1)%nat -> (m <= c)%nat -> ent (a0 :: A') j c = 0).
  { intros j c Hj Hc. unfold ent. apply nth_overflow. rewrite (wf_row m (a0 :: A') j Hwf); [lia|]. rewrite Hlen. lia. }
  assert (Hr0 : hnf_rows m m (skipn (S (n - 1)) (a0 :: A'))).
  { rewrite skipn_all2 by (rewrite Hlen; lia). constructor. }
  destruct (hnf_cols_spec (a0 :: A') n m HS m _ _ (n - 1)%nat _ _ _ HI0 ltac:(lia) ltac:(lia) Hz0 Hr0 E)
    as (HI & Hkn & Hzero & Hrows).
  destruct HI as ([Han Haw] & Hu & Hmul & Huni).
  split; auto. split; auto. split; auto. split.
  - rewrite Hmul. rewrite <- (firstn_skipn k' a') at 1. f_equal.
    apply firstn_zero_rows; [lia|]. intros j Hj. apply vzero_all.
    + apply (wf_row m a'); auto; lia.
    + intros c _. apply (Hzero j c Hj).
  - rewrite skipn_length. lia.
Qed.

(** ** row spans *)
Lemma rowspan_unimodular n m U A :
  shape n m A -> shape n n U -> unimodular n U -> same_rowspanZ m (mmul m U A) A.
Proof.
  intros [HAn HAw] [HUn HUw] [V [[HVn HVw] [HVU _]]] v. split.
  - apply (rowspan_sub m n U A (mmul m U A)); auto.
  - intros Hv.
    assert (EA : A = mmul m V (mmul m U A)).
    { rewrite <- (mmul_assoc m n); auto. rewrite HVU. rewrite mmul_identity_l; auto. split; auto. }
    apply (rowspan_sub m n V (mmul m U A) A); auto.
    + apply mmul_wf; auto.
    + rewrite mmul_length; auto.
Qed.

(** [hnf_lattice]: the rows of H generate exactly the row lattice of A *)
Theorem hnf_lattice A n m H U k :
  shape n m A -> (1 <= n)%nat -> (1 <= m)%nat -> hnf_with_u A = Done (H, U, k) ->
  same_rowspanZ m H A.
Proof.
  intros HS Hn Hm Hrun.
  destruct (hnf_with_u_correct A n m H U k HS Hn Hm Hrun) as (Hrows & HU & Huni & Hmul & _).
  intros v. rewrite <- (rowspan_unimodular n m U A HS HU Huni v). rewrite Hmul.
  symmetry. apply rowspan_zero_rows. apply hnf_rows_wf with 0%nat; auto.
Qed.

(** [hnf_shape] *)
Theorem hnf_shape A n m H U k :
  shape n m A -> (1 <= n)%nat -> (1 <= m)%nat -> hnf_with_u A = Done (H, U, k) ->
  is_hnf H = true /\ wf m H.
Proof.
  intros HS Hn Hm Hrun.
  destruct (hnf_with_u_correct A n m H U k HS Hn Hm Hrun) as (Hrows & _).
  split; [apply hnf_rows_is_hnf with m 0%nat|apply hnf_rows_wf with 0%nat]; auto.
Qed.

(** ** the other entry points in terms of [hnf_with_u] *)
Lemma hnf_with_ker_Done A H K :
  hnf_with_ker A = Done (H, K) ->
  exists U k, hnf_with_u A = Done (H, U, k) /\ K = firstn k U /\ (k <= length U)%nat.
Proof.
  unfold hnf_with_ker. intros E. ibind E as st E1. destruct st as [[w u] k].
  destruct (Nat.leb_spec k (length u)); [|discriminate]. inversion E; subst.
  exists u, k. auto.
Qed.

Lemma hnf_new_Done A H :
  hnf_new A = Done H -> exists U k, hnf_with_u A = Done (H, U, k).
Proof.
  unfold hnf_new. intros E. ibind E as st E1. destruct st as [w K]. inversion E; subst.
  apply hnf_with_ker_Done in E1. destruct E1 as (U & k & E1 & _). eauto.
Qed.

Lemma hnf_kernel_Done A K :
  hnf_kernel A = Done K ->
  exists H U k, hnf_with_u A = Done (H, U, k) /\ K = firstn k U /\ (k <= length U)%nat.
Proof.
  unfold hnf_kernel. intros E. ibind E as st E1. destruct st as [w K']. inversion E; subst.
  apply hnf_with_ker_Done in E1. destruct E1 as (U & k & E1 & E2 & E3). eauto 6.
Qed.

(** [HNF::new]: normal form, same lattice *)
Theorem hnf_new_correct A n m H :
  shape n m A -> (1 <= n)%nat -> (1 <= m)%nat -> hnf_new A = Done H ->
  is_hnf H = true /\ wf m H /\ same_rowspanZ m H A.
Proof.
  intros HS Hn Hm E. apply hnf_new_Done in E. destruct E as (U & k & E).
  destruct (hnf_shape A n m H U k HS Hn Hm E). split; auto. split; auto.
  apply (hnf_lattice A n m H U k); auto.
Qed.

(** ** C03: the kernel rows are the first k rows of U and are annihilated by A *)
Theorem kernel_annihilates A n m K :
  shape n m A -> (1 <= n)%nat -> (1 <= m)%nat -> hnf_kernel A = Done K ->
  exists H U k, hnf_with_u A = Done (H, U, k) /\ K = firstn k U /\
    length K = k /\ (k + length H = n)%nat /\ wf n K /\
    mmul m K A = repeat (vzero m) k.
Proof.
  intros HS Hn Hm E. apply hnf_kernel_Done in E. destruct E as (H & U & k & E & -> & Hk).
  exists H, U, k.
  destruct (hnf_with_u_correct A n m H U k HS Hn Hm E) as (Hrows & [HUn HUw] & Huni & Hmul & Hcnt).
  split; auto. split; auto. split; [rewrite firstn_length; lia|]. split; auto. split.
  - rewrite <- (firstn_skipn k U) in HUw. apply wf_app in HUw. tauto.
  - unfold mmul in *. rewrite <- firstn_map, Hmul.
    rewrite firstn_app, repeat_length, Nat.sub_diag. simpl. rewrite app_nil_r.
    rewrite firstn_all2; auto. rewrite repeat_length; auto.
Qed.
