(** * Fermat's little theorem over Z, transferred from MathComp's [fermat_little] (ssreflect + mczify). *)
From Coq Require Import ZArith Znumtheory Lia Zpow_facts.
From mathcomp Require Import all_ssreflect.
From mathcomp Require Import zify.
Set Implicit Arguments. Unset Strict Implicit. Unset Printing Implicit Defensive.

Lemma expn_pow m k : expn m k = Nat.pow m k.
Proof. by elim: k => //= k <-; rewrite expnS. Qed.

Lemma modn_Zmod m d : (0 < d)%N -> Z.of_nat (m %% d) = Z.modulo (Z.of_nat m) (Z.of_nat d).
Proof.
  move=> Hd.
  have H1 := divn_eq m d.
  have H2 := ltn_pmod m Hd.
  apply: (Z.mod_unique_pos _ _ (Z.of_nat (m %/ d))); first by lia.
  rewrite {1}H1. lia.
Qed.

Lemma prime_Z_nat p : Znumtheory.prime p -> prime (Z.to_nat p).
Proof.
  move=> Hp. have Hp1 := prime_ge_2 _ Hp.
  apply/primeP; split; first by lia.
  move=> d Hd.
  have Hdz : (Z.of_nat d | p)%Z.
  { move/dvdnP: Hd => [k Hk]. exists (Z.of_nat k). lia. }
  case: (prime_divisors _ Hp _ Hdz) => [|[|[|]]] H; apply/orP; [lia|left; apply/eqP; lia|right; apply/eqP; lia|lia].
Qed.

Lemma fermat_nat (n : nat) (x : Z) : prime n ->
  Z.modulo (Z.pow (Z.modulo x (Z.of_nat n)) (Z.of_nat n)) (Z.of_nat n) = Z.modulo x (Z.of_nat n).
Proof.
  move=> Hn. have n0 : (0 < n)%N by apply: prime_gt0.
  have B := Z.mod_pos_bound x (Z.of_nat n) ltac:(lia).
  set a := Z.to_nat (Z.modulo x (Z.of_nat n)).
  have -> : Z.modulo x (Z.of_nat n) = Z.of_nat a by lia.
  have F := fermat_little a Hn.
  rewrite -Nat2Z.inj_pow -expn_pow -modn_Zmod // F modn_Zmod //.
  rewrite Z.mod_small //. lia.
Qed.

Lemma fermat_Z p x : Znumtheory.prime p -> ~ (p | x)%Z -> Z.modulo (Z.pow x (p - 1)) p = 1%Z.
Proof.
  move=> Hp Hx. have Hp1 := prime_ge_2 _ Hp.
  have Hn : prime (Z.to_nat p) := prime_Z_nat Hp.
  have Fz := fermat_nat x Hn.
  have Ep : Z.of_nat (Z.to_nat p) = p by lia.
  rewrite Ep in Fz.
  have Fx : Z.modulo (Z.pow x p) p = Z.modulo x p.
  { rewrite -Fz. rewrite -Zpower_mod //; lia. }
  have D : (p | x * (Z.pow x (p - 1) - 1))%Z.
  { apply: Zmod_divide; first lia.
    have -> : (x * (x ^ (p - 1) - 1) = x ^ p - x)%Z.
    { have {2}-> : p = (1 + (p - 1))%Z by lia. rewrite Z.pow_add_r; lia. }
    rewrite Zminus_mod Fx Z.sub_diag. reflexivity. }
  case: (prime_mult _ Hp _ _ D) => // D1.
  have H := Zdivide_mod _ _ D1.
  rewrite Zminus_mod in H.
  have B := Z.mod_pos_bound (Z.pow x (p - 1)) p ltac:(lia).
  have E1 : Z.modulo 1 p = 1%Z by rewrite Z.mod_small; lia.
  rewrite E1 in H.
  move: B H. set y := Z.modulo (x ^ (p - 1)) p. move=> B H.
  have [E|E] : (y - 1 = 0 \/ y - 1 = -1)%Z.
  { have [L|L] : (0 <= y - 1 < p \/ y - 1 = -1)%Z by lia.
    - left. rewrite Z.mod_small in H; lia.
    - by right. }
  - lia.
  - exfalso. have Y : y = 0%Z by lia. apply: Hx.
    (* p | x^(p-1) -> p | x *)
    have Dp : (p | Z.pow x (p - 1))%Z by apply: Zmod_divide; [lia|exact: Y].
    have Hk : (0 <= p - 1)%Z by lia.
    move: Dp. move: (p - 1)%Z Hk. apply: natlike_ind.
    + rewrite Z.pow_0_r => D0. have := Zdivide_le p 1 ltac:(lia) ltac:(lia) D0. lia.
    + move=> k Hk IH. rewrite Z.pow_succ_r // => Dk. by case: (prime_mult _ Hp _ _ Dk).
Qed.
