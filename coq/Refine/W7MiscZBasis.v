(** * W7MiscZBasis (C14): [Order::to_z_basis] (order.rs:123-130) returns THE rational coordinate
      vector of an element on a full-rank basis.

      For a basis b of n rows of length n with non-zero determinant and a coefficient list a of
      length <= n: [to_z_basis b a] returns a vector x of length n with sum_k x_k b_k = a, and x is
      the only vector of length n with that property.  On a singular square basis the outcome is
      the panic of [expect] on [Err(MatrixNotInvertible)].  Style: ssreflect/MathComp. *)
From RNT.Model Require Import Base Poly Algebraic LinAlg MultTable Order.
From Coq Require Import QArith Qcanon.
From mathcomp Require Import all_ssreflect ssralg poly polydiv matrix mxalgebra.
From mathcomp Require Import ssrZ zify.
From RNT.Refine Require Import QcRing PolyRefine PolyDiv PolyZ PolyQ AlgMul AlgQuot MultTableOps MultTableGet TableAgrees.
From RNT.Refine Require LinAlgQc LinAlgStep LinAlgTotal OrderSolve.
Set Implicit Arguments.
Unset Strict Implicit.
Unset Printing Implicit Defensive.
Import GRing.Theory.
Local Open Scope ring_scope.

(** the solution vector has the length of the right-hand side *)
Lemma solve_loop_length cnt : forall row n (a : list (list Qc)) (b x : list Qc),
  solve_loop fopsQc cnt row n a b = Done (Ok x) -> (cnt + row)%coq_nat = n -> length a = n -> length b = n ->
  length x = n.
Proof.
elim: cnt => [|cnt IH] row n a b x; first by move=> [<-].
move=> H Hn La Lb.
have hrow : (row < n)%coq_nat by lia.
case: (@LinAlgStep.solve_loop_step _ fopsQc _ _ _ _ _ _ H La Lb hrow) => [[//]|[nxt [a' [b' [_ [_ [_ [La' [Lb' [H' _]]]]]]]]]].
by apply: (IH _ _ _ _ _ H') => //; lia.
Qed.

Lemma solve_length (a : list (list Qc)) (b x : list Qc) :
  solve_linear_system fopsQc a b = Done (Ok x) -> length x = length a.
Proof.
rewrite /solve_linear_system /assert_; case E: (Nat.eqb _ _) => //= H.
move/Nat.eqb_eq: E => E.
by apply: (solve_loop_length H) => //; lia.
Qed.

(** only the first n coefficients of the argument are read *)
Lemma coefs_upto_Poly n (a : seq Qc) : coefs_upto n (polyseq (Poly a)) = coefs_upto n a.
Proof.
rewrite /coefs_upto !Lmap_eq; apply: eq_map => k.
by rewrite opsQc_eq !(@coef_at_nth _ Qc_ofZ) coef_Poly.
Qed.

Section ZBasis.
Variable n : nat.
Variable b : seq (seq Qc).
Hypothesis sb : size b = n.
Hypothesis rb : forall i, (i < n)%N -> size (nth [::] b i) = n.

Lemma square_b : LinAlgQc.square b.
Proof.
apply/List.Forall_forall => r /(List.In_nth _ _ [::]) [i [hi <-]].
move: hi; rewrite !Llength_eq sb => /ltP hi.
by rewrite Lnth_eq rb.
Qed.

Lemma length_coefs_upto (a : seq Qc) : length (coefs_upto n a) = length b.
Proof. by rewrite /coefs_upto List.map_length List.seq_length Llength_eq sb. Qed.

(** coordinates read as a row vector times the basis matrix *)
Lemma of_coords_mx (x : seq Qc) (c : 'I_n) :
  (of_coords n b x)`_c = (LinAlgQc.qrv n x *m LinAlgQc.qmx n n b) ord0 c.
Proof.
rewrite /of_coords -qdot_coef OrderSolve.qdot_sum mxE.
by apply: eq_bigr => i _; rewrite !mxE.
Qed.

(** partial correctness: whatever is returned has length n and reproduces the element *)
Theorem to_z_basis_ok (a x : seq Qc) : (size a <= n)%N ->
  to_z_basis b a = Done x -> size x = n /\ of_coords n b x = Poly a.
Proof.
move=> sa; rewrite /to_z_basis Llength_eq sb.
case E: (solve_linear_system _ _ _) => [[x'|e]| |] //= [<-]; split.
  by rewrite -Llength_eq (solve_length E) Llength_eq.
apply: solve_coords => //; first by rewrite (leq_trans (size_Poly _)).
by rewrite coefs_upto_Poly.
Qed.

(** on a full-rank basis the coordinates of an element are unique *)
Theorem coords_unique (x y : seq Qc) : \det (LinAlgQc.qmx n n b) != 0 ->
  size x = n -> size y = n -> of_coords n b x = of_coords n b y -> x = y.
Proof.
move=> db sx sy e.
have ub : LinAlgQc.qmx n n b \in unitmx by rewrite unitmxE unitfE.
have ev : LinAlgQc.qrv n x = LinAlgQc.qrv n y.
  apply: (can_inj (mulmxK ub)).
  by apply/rowP => c; rewrite -!of_coords_mx e.
apply: (@eq_from_nth _ 0) => [|k]; first by rewrite sx sy.
rewrite sx => hk; move/rowP/(_ (Ordinal hk)): ev.
by rewrite !mxE /= !Lnth_eq.
Qed.

(** [P] to_z_basis_spec *)
Theorem to_z_basis_spec (a : seq Qc) : \det (LinAlgQc.qmx n n b) != 0 -> (size a <= n)%N ->
  exists x, [/\ to_z_basis b a = Done x, size x = n, of_coords n b x = Poly a
              & forall y, size y = n -> of_coords n b y = Poly a -> y = x].
Proof.
move=> db sa.
have [x E] : exists x, solve_linear_system fopsQc b (coefs_upto n a) = Done (Ok x).
  apply: LinAlgQc.solve_complete; [exact: square_b|exact: length_coefs_upto|].
  by rewrite /= Llength_eq sb.
have Ez : to_z_basis b a = Done x by rewrite /to_z_basis Llength_eq sb E.
have [sx ex] := to_z_basis_ok sa Ez.
exists x; split=> // y sy ey.
by apply: coords_unique => //; rewrite ey.
Qed.

(** on a singular (square) basis: the [expect] on the solver's [Err] *)
Theorem to_z_basis_singular (a : seq Qc) : \det (LinAlgQc.qmx n n b) = 0 -> to_z_basis b a = Panic PUnwrap.
Proof.
move=> d0; rewrite /to_z_basis Llength_eq sb.
rewrite (@LinAlgQc.solve_singular b (coefs_upto n a)) //; first exact: square_b.
- exact: length_coefs_upto.
- by rewrite /= Llength_eq sb.
Qed.
End ZBasis.
