(** * IdealMul: [MultTable::mul] on a well-shaped table is the bilinear map
      [bil t a b = sum_i sum_j a_i b_j T_ij], and its algebra (stdlib + lia).

    [table_shape t = true] says the table has [n] rows of [n] vectors of length [n];
    vectors [a], [b] have length [n].  Then no bounds check and no debug assertion fires. *)
From Coq Require Import ZArith List Lia Bool.
From RNT.Model Require Import Base MultTable Ideal.
From RNT.Model Require Hnf.
From RNT.Refine Require Import MatZ HnfOps HnfSteps HnfLoop.
Import ListNotations.
Open Scope Z_scope.

(** ** vectors *)
Lemma vadd_vzero_r m v : length v = m -> vadd v (vzero m) = v.
Proof.
  intros H. apply vec_ext with m; auto.
  - rewrite vadd_length; rewrite ?vzero_length; auto.
  - intros i Hi. rewrite nth_vadd, nth_vzero by (rewrite vzero_length; auto). lia.
Qed.

Lemma vadd_vzero_l m v : length v = m -> vadd (vzero m) v = v.
Proof.
  intros H. apply vec_ext with m; auto.
  - rewrite vadd_length; rewrite ?vzero_length; auto.
  - intros i Hi. rewrite nth_vadd, nth_vzero by (rewrite vzero_length; auto). lia.
Qed.

Lemma vscale_vzero q m : vscale q (vzero m) = vzero m.
Proof.
  apply vec_ext with m; rewrite ?vscale_length, ?vzero_length; auto.
  intros i Hi. rewrite nth_vscale, nth_vzero. lia.
Qed.

Ltac vlen :=
  repeat first [rewrite vscale_length | rewrite vzero_length | rewrite lincomb_length by auto
               | rewrite vadd_length]; auto; try lia.

(** ** sums of rows that are themselves sums / multiples *)
Lemma lincomb_map_length {X} m c (f : X -> list Z) xs :
  (forall x, length (f x) = m) -> length (lincomb m c (map f xs)) = m.
Proof.
  intros H. apply lincomb_length. unfold wf. rewrite Forall_forall. intros r Hr.
  apply in_map_iff in Hr. destruct Hr as [x [<- _]]. apply H.
Qed.

Lemma wf_map {X} m (f : X -> list Z) xs : (forall x, In x xs -> length (f x) = m) -> wf m (map f xs).
Proof.
  intros H. unfold wf. rewrite Forall_forall. intros r Hr.
  apply in_map_iff in Hr. destruct Hr as [x [<- Hx]]. apply H; auto.
Qed.

Lemma lincomb_rows_add {X} m c (f g : X -> list Z) xs :
  (forall x, In x xs -> length (f x) = m) -> (forall x, In x xs -> length (g x) = m) ->
  lincomb m c (map (fun x => vadd (f x) (g x)) xs) =
  vadd (lincomb m c (map f xs)) (lincomb m c (map g xs)).
Proof.
  revert c; induction xs as [|x xs IH]; intros c Hf Hg.
  - simpl. rewrite !lincomb_nil_r. symmetry. apply vadd_vzero_r, vzero_length.
  - destruct c as [|c0 c].
    + rewrite !lincomb_nil_l. symmetry. apply vadd_vzero_r, vzero_length.
    + assert (Hfx : length (f x) = m) by (apply Hf; left; auto).
      assert (Hgx : length (g x) = m) by (apply Hg; left; auto).
      assert (Wf : wf m (map f xs)) by (apply wf_map; intros; apply Hf; right; auto).
      assert (Wg : wf m (map g xs)) by (apply wf_map; intros; apply Hg; right; auto).
      assert (Wfg : wf m (map (fun x => vadd (f x) (g x)) xs)).
      { apply wf_map. intros y Hy. rewrite vadd_length; [apply Hf|rewrite Hf, Hg]; auto; right; auto. }
      assert (Hfgx : length (vadd (f x) (g x)) = m) by (rewrite vadd_length; lia).
      assert (W1 : wf m (f x :: map f xs)) by (apply wf_cons; auto).
      assert (W2 : wf m (g x :: map g xs)) by (apply wf_cons; auto).
      cbn [map]. apply vec_ext with m.
      * apply lincomb_length. apply wf_cons. split; auto.
      * rewrite vadd_length; rewrite !lincomb_length; auto.
      * intros i Hi.
        rewrite nth_vadd by vlen.
        rewrite !nth_lincomb_cons by auto.
        rewrite IH; [|intros; apply Hf; right; auto|intros; apply Hg; right; auto].
        rewrite !nth_vadd by vlen. lia.
Qed.

Lemma lincomb_rows_scale {X} m q c (f : X -> list Z) xs :
  (forall x, In x xs -> length (f x) = m) ->
  lincomb m c (map (fun x => vscale q (f x)) xs) = vscale q (lincomb m c (map f xs)).
Proof.
  revert c; induction xs as [|x xs IH]; intros c Hf.
  - simpl. rewrite !lincomb_nil_r. symmetry. apply vscale_vzero.
  - destruct c as [|c0 c].
    + rewrite !lincomb_nil_l. symmetry. apply vscale_vzero.
    + assert (Hfx : length (f x) = m) by (apply Hf; left; auto).
      assert (Wf : wf m (map f xs)) by (apply wf_map; intros; apply Hf; right; auto).
      assert (Wq : wf m (map (fun x => vscale q (f x)) xs)).
      { apply wf_map. intros y Hy. rewrite vscale_length. apply Hf; right; auto. }
      assert (Hqx : length (vscale q (f x)) = m) by (rewrite vscale_length; auto).
      cbn [map]. apply vec_ext with m.
      * apply lincomb_length. apply wf_cons. split; auto.
      * rewrite vscale_length. apply lincomb_length. apply wf_cons; auto.
      * intros i Hi. rewrite nth_vscale.
        rewrite !nth_lincomb_cons by auto.
        rewrite IH by (intros; apply Hf; right; auto).
        rewrite !nth_vscale. lia.
Qed.

Lemma lincomb_const_zero {X} m c (xs : list X) : lincomb m c (map (fun _ => vzero m) xs) = vzero m.
Proof.
  revert c; induction xs as [|x xs IH]; intros c; [rewrite lincomb_nil_r; auto|].
  destruct c as [|c0 c]; [rewrite lincomb_nil_l; auto|].
  cbn [map]. apply vec_ext with m; rewrite ?vzero_length; auto.
  - apply lincomb_length. apply wf_cons. split; [apply vzero_length|].
    apply wf_map. intros; apply vzero_length.
  - intros i Hi. rewrite nth_lincomb_cons; [|apply vzero_length|apply wf_map; intros; apply vzero_length].
    rewrite IH. rewrite !nth_vzero. lia.
Qed.

(** interchange of two finite sums *)
Lemma lincomb_swap {X Y} m (a b : list Z) (xs : list X) (ys : list Y) (F : X -> Y -> list Z) :
  (forall x y, length (F x y) = m) ->
  lincomb m a (map (fun x => lincomb m b (map (fun y => F x y) ys)) xs) =
  lincomb m b (map (fun y => lincomb m a (map (fun x => F x y) xs)) ys).
Proof.
  intros HF. revert a; induction xs as [|x xs IH]; intros a.
  - simpl. rewrite lincomb_nil_r.
    replace (map (fun y : Y => lincomb m a []) ys) with (map (fun _ : Y => vzero m) ys)
      by (apply map_ext; intros; rewrite lincomb_nil_r; auto).
    symmetry. apply lincomb_const_zero.
  - destruct a as [|a0 a].
    + rewrite lincomb_nil_l.
      replace (map (fun y : Y => lincomb m [] (map (fun x0 : X => F x0 y) (x :: xs))) ys)
        with (map (fun _ : Y => vzero m) ys)
        by (apply map_ext; intros; rewrite lincomb_nil_l; auto).
      symmetry. apply lincomb_const_zero.
    + cbn [map]. cbn [lincomb].
      rewrite IH.
      rewrite <- (lincomb_rows_scale m a0 b (fun y => F x y) ys) by (intros; apply HF).
      rewrite <- lincomb_rows_add.
      * reflexivity.
      * intros; rewrite vscale_length; apply HF.
      * intros; apply lincomb_map_length; intros; apply HF.
Qed.

(** ** the bilinear map of a table *)
Definition bil (t : table) (a b : list Z) : list Z :=
  lincomb (length t) a (map (fun ti => lincomb (length t) b ti) t).

Definition tshape (t : table) : Prop :=
  Forall (fun ti => length ti = length t /\ Forall (fun tij => length tij = length t) ti) t.

Lemma table_shape_tshape t : table_shape t = true -> tshape t.
Proof.
  unfold table_shape, tshape, mt_deg. intros H. rewrite forallb_forall in H.
  apply Forall_forall. intros ti Hti. specialize (H ti Hti).
  apply andb_true_iff in H. destruct H as [H1 H2]. apply Nat.eqb_eq in H1. split; auto.
  rewrite forallb_forall in H2. apply Forall_forall. intros tij Hij.
  apply Nat.eqb_eq. apply H2; auto.
Qed.

Lemma tshape_wf t ti : tshape t -> In ti t -> wf (length t) ti.
Proof. intros H Hi. unfold tshape in H. rewrite Forall_forall in H. apply (H ti Hi). Qed.

Lemma tshape_len t ti : tshape t -> In ti t -> length ti = length t.
Proof. intros H Hi. unfold tshape in H. rewrite Forall_forall in H. apply (H ti Hi). Qed.

Lemma inner_length t b ti : tshape t -> In ti t -> length (lincomb (length t) b ti) = length t.
Proof. intros H Hi. apply lincomb_length. apply tshape_wf; auto. Qed.

Lemma inner_wf t b : tshape t -> wf (length t) (map (fun ti => lincomb (length t) b ti) t).
Proof. intros H. apply wf_map. intros ti Hi. apply inner_length; auto. Qed.

Lemma bil_length t a b : tshape t -> length (bil t a b) = length t.
Proof. intros H. unfold bil. apply lincomb_length. apply inner_wf; auto. Qed.

(** linearity in the left argument *)
Lemma bil_add_l t a a' b : tshape t -> length a = length a' ->
  bil t (vadd a a') b = vadd (bil t a b) (bil t a' b).
Proof. intros H Hl. unfold bil. apply lincomb_add; auto. apply inner_wf; auto. Qed.

Lemma bil_scale_l t q a b : tshape t -> bil t (vscale q a) b = vscale q (bil t a b).
Proof. intros H. unfold bil. apply lincomb_scale. apply inner_wf; auto. Qed.

Lemma bil_lincomb_l t c A b : tshape t -> wf (length t) A ->
  bil t (lincomb (length t) c A) b = lincomb (length t) c (map (fun a => bil t a b) A).
Proof.
  intros H HA. unfold bil. rewrite lincomb_assoc; auto. apply inner_wf; auto.
Qed.

(** linearity in the right argument *)
Lemma map_ext_in' {X Y} (f g : X -> Y) l : (forall x, In x l -> f x = g x) -> map f l = map g l.
Proof. apply map_ext_in. Qed.

Lemma bil_add_r t a b b' : tshape t -> length b = length b' ->
  bil t a (vadd b b') = vadd (bil t a b) (bil t a b').
Proof.
  intros H Hl. unfold bil.
  rewrite (map_ext_in' (fun ti => lincomb (length t) (vadd b b') ti)
             (fun ti => vadd (lincomb (length t) b ti) (lincomb (length t) b' ti))).
  - apply lincomb_rows_add; intros; apply inner_length; auto.
  - intros ti Hi. apply lincomb_add; auto. apply tshape_wf; auto.
Qed.

Lemma bil_scale_r t q a b : tshape t -> bil t a (vscale q b) = vscale q (bil t a b).
Proof.
  intros H. unfold bil.
  rewrite (map_ext_in' (fun ti => lincomb (length t) (vscale q b) ti)
             (fun ti => vscale q (lincomb (length t) b ti))).
  - apply lincomb_rows_scale; intros; apply inner_length; auto.
  - intros ti Hi. apply lincomb_scale. apply tshape_wf; auto.
Qed.

Lemma bil_zero_r t a : tshape t -> bil t a (vzero (length t)) = vzero (length t).
Proof.
  intros H. unfold bil.
  rewrite (map_ext_in' (fun ti => lincomb (length t) (vzero (length t)) ti) (fun _ => vzero (length t))).
  - apply lincomb_const_zero.
  - intros ti Hi. apply lincomb_vzero. apply tshape_wf; auto.
Qed.

Lemma bil_lincomb_r t a d B : tshape t -> wf (length t) B ->
  bil t a (lincomb (length t) d B) = lincomb (length t) d (map (fun b => bil t a b) B).
Proof.
  intros H HB. revert d; induction B as [|b B IH]; intros d.
  - rewrite lincomb_nil_r. simpl. rewrite lincomb_nil_r. apply bil_zero_r; auto.
  - destruct d as [|d0 d].
    + rewrite !lincomb_nil_l. apply bil_zero_r; auto.
    + apply wf_cons in HB. destruct HB as [Hb HB].
      cbn [map lincomb]. rewrite bil_add_r; auto.
      * rewrite bil_scale_r; auto. rewrite IH; auto.
      * rewrite vscale_length, lincomb_length; auto.
Qed.

(** products of unit vectors are the table entries *)
Lemma unit_vec_unit_from n i : unit_vec n i = unit_from 0 n i.
Proof. reflexivity. Qed.

Lemma unit_vec_length n i : length (unit_vec n i) = n.
Proof. apply unit_from_length. Qed.

Lemma row_map_nth {X} (f : X -> list Z) (l : list X) i d :
  (i < length l)%nat -> row (map f l) i = f (nth i l d).
Proof.
  intros Hi. unfold row. rewrite nth_indep with (d' := f d) by (rewrite map_length; auto).
  apply map_nth.
Qed.

Lemma bil_units t i j : tshape t -> (i < length t)%nat -> (j < length t)%nat ->
  bil t (unit_vec (length t) i) (unit_vec (length t) j) = table_entry t i j.
Proof.
  intros H Hi Hj. unfold bil.
  change (unit_vec (length t) i) with (unit_from 0 (length t) i).
  change (unit_vec (length t) j) with (unit_from 0 (length t) j).
  rewrite lincomb_unit.
  2:{ apply inner_wf; auto. }
  2:{ lia. }
  2:{ rewrite map_length. apply le_n. }
  rewrite Nat.sub_0_r. rewrite (row_map_nth _ t i []) by auto. cbv beta.
  assert (Hin : In (nth i t []) t) by (apply nth_In; auto).
  rewrite lincomb_unit; [|apply tshape_wf; auto|lia|rewrite (tshape_len t _ H Hin); lia].
  rewrite Nat.sub_0_r. reflexivity.
Qed.

(** every vector is the combination of the unit vectors with its own coefficients *)
Lemma lincomb_idmat n a : length a = n -> lincomb n a (idmat n) = a.
Proof.
  intros Hl. apply vec_ext with n; auto.
  - apply lincomb_length. apply idmat_shape.
  - intros i Hi. subst n.
    (* entry i of sum_k a_k e_k *)
    assert (G : forall s (c : list Z) i, nth i (lincomb (s + length c) c (map (fun k => unit_from 0 (s + length c) k) (seq s (length c)))) 0
                                       = if (i <? s)%nat then 0 else nth (i - s) c 0).
    { clear. intros s c. revert s. induction c as [|c0 c IH]; intros s i.
      - simpl. rewrite nth_vzero. destruct (i <? s)%nat; auto. destruct (i - s)%nat; auto.
      - cbn [length seq map].
        rewrite nth_lincomb_cons; [|apply unit_from_length|apply wf_map; intros; apply unit_from_length].
        replace (s + S (length c))%nat with (S s + length c)%nat by lia.
        rewrite IH.
        unfold unit_from.
        destruct (Nat.lt_ge_cases i (S s + length c)) as [Hlt|Hge].
        + rewrite nth_indep with (d' := (fun j => if (s =? j)%nat then 1 else 0) 0%nat)
            by (rewrite map_length, seq_length; auto).
          rewrite (map_nth (fun j => if (s =? j)%nat then 1 else 0) (seq 0 (S s + length c)) 0%nat i).
          rewrite seq_nth by auto. cbn [Nat.add].
          destruct (Nat.eqb_spec s i) as [->|Hne].
          * rewrite Nat.ltb_irrefl. replace (i <? S i)%nat with true by (symmetry; apply Nat.ltb_lt; lia).
            rewrite Nat.sub_diag. simpl. lia.
          * destruct (Nat.ltb_spec i s); destruct (Nat.ltb_spec i (S s)); try lia.
            replace (i - s)%nat with (S (i - S s)) by lia. simpl. lia.
        + rewrite nth_overflow by (rewrite map_length, seq_length; lia).
          destruct (Nat.ltb_spec i (S s)); destruct (Nat.ltb_spec i s); try lia.
          rewrite !nth_overflow; simpl; try lia. }
    specialize (G 0%nat a i). cbn [Nat.add] in G. unfold idmat. rewrite G.
    rewrite Nat.sub_0_r. reflexivity.
Qed.

(** commutativity of the table on unit vectors extends to all vectors *)
Lemma table_comm_entries t : table_comm t = true ->
  forall i j, (i < length t)%nat -> (j < length t)%nat -> table_entry t i j = table_entry t j i.
Proof.
  unfold table_comm, mt_deg. intros H i j Hi Hj. rewrite forallb_forall in H.
  assert (Hi' : In i (seq 0 (length t))) by (apply in_seq; lia).
  assert (Hj' : In j (seq 0 (length t))) by (apply in_seq; lia).
  specialize (H i Hi'). rewrite forallb_forall in H. specialize (H j Hj').
  revert H. generalize (table_entry t i j) (table_entry t j i). clear.
  induction l as [|x l IH]; intros [|y l'] H; simpl in H; try discriminate; auto.
  apply andb_true_iff in H. destruct H as [H1 H2]. apply Z.eqb_eq in H1. f_equal; auto.
Qed.

Lemma bil_as_double_sum t a b : tshape t -> length a = length t -> length b = length t ->
  bil t a b = lincomb (length t) a (map (fun i => lincomb (length t) b
                 (map (fun j => table_entry t i j) (seq 0 (length t)))) (seq 0 (length t))).
Proof.
  intros H Ha Hb. set (n := length t).
  rewrite <- (lincomb_idmat n a Ha) at 1. unfold n. rewrite bil_lincomb_l; auto; [|apply idmat_shape].
  f_equal. unfold idmat. rewrite map_map. apply map_ext_in. intros i Hi. apply in_seq in Hi.
  rewrite <- (lincomb_idmat (length t) b Hb) at 1. rewrite bil_lincomb_r; auto; [|apply idmat_shape].
  f_equal. unfold idmat. rewrite map_map. apply map_ext_in. intros j Hj. apply in_seq in Hj.
  rewrite <- !unit_vec_unit_from. apply bil_units; auto; lia.
Qed.

Lemma table_entry_length t i j : tshape t -> (i < length t)%nat -> (j < length t)%nat ->
  length (table_entry t i j) = length t.
Proof.
  intros H Hi Hj. rewrite <- bil_units; auto. apply bil_length; auto.
Qed.

Lemma bil_comm t a b : tshape t -> table_comm t = true ->
  length a = length t -> length b = length t -> bil t a b = bil t b a.
Proof.
  intros H Hc Ha Hb. rewrite (bil_as_double_sum t a b), (bil_as_double_sum t b a); auto.
  set (n := length t).
  set (F := fun i j : nat => if ((i <? n) && (j <? n))%nat%bool then table_entry t i j else vzero n).
  assert (HF : forall i j, length (F i j) = n).
  { intros i j. unfold F. destruct (Nat.ltb_spec i n); destruct (Nat.ltb_spec j n); simpl;
      try apply vzero_length. apply table_entry_length; auto. }
  assert (E1 : forall (c d : list Z),
             lincomb n c (map (fun i => lincomb n d (map (fun j => table_entry t i j) (seq 0 n))) (seq 0 n))
             = lincomb n c (map (fun i => lincomb n d (map (fun j => F i j) (seq 0 n))) (seq 0 n))).
  { intros c d. f_equal. apply map_ext_in. intros i Hi. apply in_seq in Hi. f_equal.
    apply map_ext_in. intros j Hj. apply in_seq in Hj. unfold F.
    destruct (Nat.ltb_spec i n); destruct (Nat.ltb_spec j n); simpl; auto; lia. }
  rewrite E1. rewrite (lincomb_swap n a b (seq 0 n) (seq 0 n) F HF).
  f_equal. apply map_ext_in. intros j Hj. apply in_seq in Hj. f_equal.
  apply map_ext_in. intros i Hi. apply in_seq in Hi. unfold F.
  destruct (Nat.ltb_spec i n); destruct (Nat.ltb_spec j n); simpl; try lia.
  apply table_comm_entries; auto.
Qed.

(** ** the loops of [mt_mul] *)
Fixpoint foldM {X St : Type} (g : X -> St -> outcome St) (xs : list X) (s : St) : outcome St :=
  match xs with
  | [] => Done s
  | x :: r => do s' <- g x s; foldM g r s'
  end.

Lemma for_loop_seq_list {X St} (xs : list X) (g : X -> St -> outcome St) (body : nat -> St -> outcome St) :
  forall k, (forall idx x, nth_error xs idx = Some x -> forall s, body (k + idx)%nat s = g x s) ->
  forall s, Hnf.for_loop (seq k (length xs)) body s = foldM g xs s.
Proof.
  induction xs as [|x xs IH]; intros k Hb s; [reflexivity|].
  cbn [length seq Hnf.for_loop foldM].
  rewrite <- (Hb 0%nat x eq_refl s). rewrite Nat.add_0_r.
  destruct (body k s); cbn [bind]; auto.
  apply IH. intros idx y Hy s'. rewrite <- (Hb (S idx) y Hy s'). f_equal. lia.
Qed.

Lemma addmul_prefix_Done n res row prod :
  length res = n -> length row = n ->
  addmul_prefix n res row prod = Done (vadd res (vscale prod row)).
Proof.
  revert res row; induction n as [|n IH]; intros res row Hr Hw.
  - destruct res, row; simpl in *; try discriminate. reflexivity.
  - destruct res as [|x res], row as [|y row]; simpl in *; try discriminate.
    rewrite IH by lia. reflexivity.
Qed.

Lemma nth_error_combine {X Y} (l : list X) (l' : list Y) i x y :
  nth_error (combine l l') i = Some (x, y) -> nth_error l i = Some x /\ nth_error l' i = Some y.
Proof.
  revert l' i; induction l as [|a l IH]; intros [|b l'] [|i] H; simpl in *; try discriminate.
  - inversion H; auto.
  - apply IH; auto.
Qed.

Lemma nth_chk_some {X} (l : list X) i x : nth_error l i = Some x -> nth_chk l i = Done x.
Proof. unfold nth_chk. intros ->. reflexivity. Qed.

(** inner loop: [result += (a_i b_j) T_ij] over [j] *)
Lemma inner_fold n ai (b : list Z) (ti : list (list Z)) : forall res,
  length res = n -> wf n ti -> length b = length ti ->
  foldM (fun (p : Z * list Z) r => addmul_prefix n r (snd p) (ai * fst p)) (combine b ti) res
  = Done (vadd res (vscale ai (lincomb n b ti))).
Proof.
  revert ti; induction b as [|b0 b IH]; intros [|t0 ti] res Hr Hw Hl; simpl in Hl; try discriminate.
  - simpl. rewrite vscale_vzero, vadd_vzero_r; auto.
  - apply wf_cons in Hw. destruct Hw as [Ht0 Hw].
    cbn [combine foldM fst snd]. rewrite addmul_prefix_Done; auto. cbn [bind].
    rewrite IH; auto; [|rewrite vadd_length; rewrite ?vscale_length; lia].
    f_equal. cbn [lincomb].
    assert (Hlc : length (lincomb n b ti) = n) by (apply lincomb_length; auto).
    apply vec_ext with n.
    + rewrite !vadd_length; rewrite ?vscale_length; try lia. rewrite vadd_length; rewrite ?vscale_length; lia.
    + rewrite vadd_length; rewrite ?vscale_length; try lia. rewrite vadd_length; rewrite ?vscale_length; lia.
    + intros i Hi.
      rewrite !nth_vadd; rewrite ?vscale_length; try lia.
      * rewrite !nth_vscale. rewrite nth_vadd by (rewrite vscale_length; lia). rewrite nth_vscale. lia.
      * rewrite vadd_length; rewrite ?vscale_length; lia.
      * rewrite vadd_length; rewrite ?vscale_length; lia.
Qed.

Lemma outer_fold n (b : list Z) (a : list Z) (t : list (list (list Z))) : forall res,
  length res = n -> Forall (fun ti => wf n ti /\ length ti = length b) t -> length a = length t ->
  foldM (fun (p : Z * list (list Z)) r =>
           foldM (fun (q : Z * list Z) r => addmul_prefix n r (snd q) (fst p * fst q)) (combine b (snd p)) r)
        (combine a t) res
  = Done (vadd res (lincomb n a (map (fun ti => lincomb n b ti) t))).
Proof.
  revert t; induction a as [|a0 a IH]; intros [|t0 t] res Hr Ht Hl; simpl in Hl; try discriminate.
  - simpl. rewrite vadd_vzero_r; auto.
  - apply Forall_cons_iff in Ht. destruct Ht as [[Hw0 Hl0] Ht'].
    cbn [combine foldM fst snd]. rewrite inner_fold; auto. cbn [bind].
    assert (Hl1 : length (lincomb n b t0) = n) by (apply lincomb_length; auto).
    rewrite IH; auto; [|rewrite vadd_length; rewrite ?vscale_length; lia].
    f_equal. cbn [map lincomb].
    assert (Hl2 : length (lincomb n a (map (fun ti => lincomb n b ti) t)) = n).
    { apply lincomb_length. apply wf_map. intros ti Hi. rewrite Forall_forall in Ht'.
      apply lincomb_length. apply (Ht' ti Hi). }
    apply vec_ext with n.
    + vlen.
    + vlen.
    + intros i Hi. rewrite !nth_vadd by vlen. lia.
Qed.

Lemma repeat_vzero n : repeat 0 n = vzero n.
Proof. reflexivity. Qed.

(** [mt_mul] computes [bil] *)
Theorem mt_mul_bil m t a b :
  tshape t -> length a = length t -> length b = length t ->
  mt_mul m t a b = Done (bil t a b).
Proof.
  intros H Ha Hb. unfold mt_mul, mt_deg.
  assert (E1 : Nat.eqb (length a) (length b) = true) by (apply Nat.eqb_eq; lia).
  assert (E2 : Nat.eqb (length a) (length t) = true) by (apply Nat.eqb_eq; lia).
  rewrite E1, E2. replace (debug_assert m true) with (Done tt) by (destruct m; reflexivity).
  cbn [bind]. unfold Hnf.range. rewrite Nat.sub_0_r. rewrite Ha.
  set (n := length t).
  assert (Hct : length (combine a t) = n) by (rewrite combine_length; unfold n; lia).
  rewrite <- Hct at 1.
  rewrite (for_loop_seq_list (combine a t)
            (fun (p : Z * list (list Z)) r =>
               foldM (fun (q : Z * list Z) r => addmul_prefix n r (snd q) (fst p * fst q)) (combine b (snd p)) r)).
  - rewrite outer_fold.
    + rewrite repeat_vzero, vadd_vzero_l; auto. apply bil_length; auto.
    + apply repeat_length.
    + apply Forall_forall. intros ti Hi. split; [apply tshape_wf; auto|].
      rewrite (tshape_len t ti H Hi). lia.
    + lia.
  - intros idx [ai ti] Hn s. cbn [Nat.add fst snd].
    apply nth_error_combine in Hn. destruct Hn as [Hai Hti].
    assert (Hin : In ti t) by (eapply nth_error_In; eauto).
    assert (Hcb : length (combine b ti) = n).
    { rewrite combine_length, (tshape_len t ti H Hin). unfold n. lia. }
    rewrite <- Hcb at 1.
    apply for_loop_seq_list.
    intros jdx [bj tij] Hn2 s'. cbn [Nat.add fst snd].
    apply nth_error_combine in Hn2. destruct Hn2 as [Hbj Htij].
    rewrite (nth_chk_some a idx ai Hai). cbn [bind].
    rewrite (nth_chk_some b jdx bj Hbj). cbn [bind].
    rewrite (nth_chk_some t idx ti Hti). cbn [bind].
    rewrite (nth_chk_some ti jdx tij Htij). cbn [bind].
    reflexivity.
Qed.
