(** First facts about the mod-p models (placeholders of the executable-model milestone;
    the real theorems are in PolyModP*.v). *)
From RNT.Model Require Import Base Poly PolyModP FactorModP Hensel LinearRoots.
Open Scope Z_scope.

Lemma squarefree_zero_panics md p pu : squarefree md [] p pu = Panic POther.
Proof. reflexivity. Qed.

Lemma lift_factorization_e1 p c fs : lift_factorization p 1 c fs = Done fs.
Proof. reflexivity. Qed.

Lemma roots_of_constant md c p r :
  p <> 0 -> p <> 2 -> c mod p <> 0 -> find_linear_factors md [c] p r = Done ([], r).
Proof.
  intros Hp H2 Hc. unfold find_linear_factors, poly_mod.
  destruct (Z.eqb_spec p 0) as [|_]; [contradiction|].
  cbn [map bind from_raw strip opsZ is0 reqb r0].
  destruct (Z.eqb_spec (c mod p) 0) as [|_]; [contradiction|].
  destruct (Z.eqb_spec p 2) as [|_]; [contradiction|].
  reflexivity.
Qed.
