(** * PolyZFactorMain: C07, what [poly_z::factorize] guarantees for every draw stream (MathComp).

    The subset recombination only ever splits off primitive parts of exact divisors, so the list
    returned by [get_factors_of_squarefree] multiplies back to its argument; [factorize] then divides
    the primitive part of the input by each of these polynomials as often as possible. *)
From RNT.Model Require Import Base Poly PolyModP FactorModP Hensel PolyZFactor.
From RNT.Model Require Resultant.
From mathcomp Require Import all_ssreflect ssralg poly.
From mathcomp Require Import ssrZ zify.
From RNT.Refine Require Import PolyRefine PolyDiv PolyZ PolyZFactorMult.
Set Implicit Arguments.
Unset Strict Implicit.
Unset Printing Implicit Defensive.
Import GRing.Theory.
Local Open Scope ring_scope.

(** primitive with positive leading coefficient (and stored normalised) *)
Definition prim_pos (g : seq Z) : Prop :=
  [/\ canonZ g, (0 < last 0 g)%Z
    & forall d, (forall x, List.In x g -> (d | x)%Z) -> (d | 1)%Z].

(** [f^e] for an entry of the returned list, and the product over a list of entries *)
Definition fpow (fe : seq Z * Z) : {poly Z} := Poly fe.1 ^+ Z.to_nat fe.2.
Definition fprod (l : seq (seq Z * Z)) : {poly Z} := \prod_(fe <- l) fpow fe.

(** every entry was divided out as often as possible: [f] does not divide what was left at the time,
    i.e. the final cofactor times the powers extracted later *)
Fixpoint maximal (cof : {poly Z}) (l : seq (seq Z * Z)) : Prop :=
  if l is fe :: t then
    (fe.1 != [::] -> forall Q : {poly Z}, cof * fprod t <> Q * Poly fe.1) /\ maximal cof t
  else True.

Lemma Poly1 : Poly [:: 1%Z] = 1 :> {poly Z}.
Proof. by rewrite /= cons_poly_def mul0r add0r. Qed.

(** ** normal forms *)
Lemma from_rawZ_canon (s : seq Z) : canonZ (from_raw opsZ s).
Proof. by rewrite /canonZ /from_raw opsZ_eq; exact: strip_canon. Qed.

Lemma poly_mod_canon (f : seq Z) p t : poly_mod f p = Done t -> canonZ t.
Proof.
rewrite /poly_mod; case: f => [|x f]; first by case=> <-.
case: ifP => // _ [<-].
exact: (from_rawZ_canon (List.map (fun c => c mod p)%Z (x :: f))).
Qed.

Lemma symmetric_canon md prod pe pe2 s : PolyZFactor.symmetric md prod pe pe2 = Done s -> canonZ s.
Proof.
rewrite /PolyZFactor.symmetric; case: u64_norm => [u|t|] //=.
case ep: poly_mod => [t|t|] //= [<-].
rewrite /canonZ opsZ_eq; apply: canon_psub; first exact: (poly_mod_canon ep).
by rewrite -opsZ_eq; exact: from_rawZ_canon.
Qed.

(** ** one subset *)
Lemma try_subset_spec md (a : seq Z) lca pe pe2 lifted idx pp a' : canonZ a ->
  try_subset md a lca pe pe2 lifted idx = Done (Some (pp, a')) ->
  [/\ prim_pos pp, canonZ a' & Poly a = Poly a' * Poly pp].
Proof.
move=> ca; rewrite /try_subset.
case: subset_prod => [prod0|t|] //=.
case es: PolyZFactor.symmetric => [prod|t|] //=.
case ed: div_exact => [q|] //.
case ed2: (div_exact a _) => [a''|] // [epp ea']; rewrite -{}ea' in ed2 *.
have cprod := symmetric_canon es.
have prod0' : prod != [::] by apply: contra_eqN ed => /eqP ->; rewrite div_exact_nil_r.
have [_ cpp lpos prim _] := cont_pp_main cprod prod0' (surjective_pairing (cont_pp prod)).
rewrite epp in cpp lpos prim ed2.
have [_ ca' ea] := (div_exact_iff a'' ca cpp).1 ed2.
by split.
Qed.

(** ** the enumeration of the masks only answers with a mask on which the body succeeded *)
Lemma find_subset_spec R m d acc (test : list nat -> outcome (option R)) idx x :
  find_subset m d acc test = Done (Some (idx, x)) -> test idx = Done (Some x).
Proof.
elim: m d acc => [|m IH] [|d] acc /=.
- by case et: (test acc) => [[y|]|t|] //= [<- <-].
- by [].
- by case et: (test acc) => [[y|]|t|] //= [<- <-].
- case: ifP => // _.
  case e1: (find_subset m d.+1 acc test) => [[[i1 x1]|]|t|] //=.
    by case=> ei ex; apply: (IH d.+1 acc); rewrite e1 ei ex.
  exact: IH.
Qed.

(** ** the recombination loop *)
Lemma recombine_spec fuel md pe pe2 d (a : seq Z) lifted res out : canonZ a ->
  recombine fuel md pe pe2 d a lifted res = Done out ->
  exists pps lastf,
    [/\ out = res ++ pps ++ [:: lastf], canonZ lastf,
        Poly a = Poly lastf * \prod_(g <- pps) Poly g
      & forall g, g \in pps -> prim_pos g].
Proof.
elim: fuel d a lifted res => [|fuel IH] d a lifted res ca //=.
case: ifP => _; last first.
  by case=> <-; exists [::], a; split=> //; rewrite big_nil mulr1.
case: assert_ => [_|t|] //=.
case ef: find_subset => [[[idx [pp a']]|]|t|] //=; last exact: IH.
have [ppp ca' ea] := try_subset_spec ca (find_subset_spec ef).
move/(IH _ _ _ _ ca') => [pps [lastf [eo cl el hp]]].
exists (pp :: pps), lastf; split=> //.
- by rewrite eo -!catA.
- by rewrite big_cons ea el -mulrA [Poly pp * _]mulrC.
- by move=> g; rewrite inE => /orP [/eqP ->|/hp].
Qed.

(** ** [get_factors_of_squarefree]: the returned polynomials multiply back to the argument; all but
    the last one are primitive parts (primitive, positive leading coefficient) *)
Lemma get_factors_spec md (a : seq Z) r fs r' : canonZ a ->
  get_factors_of_squarefree md a r = Done (fs, r') ->
  exists pps lastf,
    [/\ fs = pps ++ [:: lastf], canonZ lastf,
        Poly a = Poly lastf * \prod_(g <- pps) Poly g
      & forall g, g \in pps -> prim_pos g].
Proof.
move=> ca; rewrite /get_factors_of_squarefree.
case: coef_bound => [bound|t|] //=.
case: find_prime => [[p pusize]|t|] //=.
case: exp_loop => [[pe e]|t|] //=.
case: factorize_mod_p => [[factors r1]|t|] //=.
case: assert_ => [_|t|] //=.
case: lift_factorization => [lifted|t|] //=.
case er: recombine => [res|t|] //= [<- _].
by have [pps [lastf [-> cl el hp]]] := recombine_spec ca er; exists pps, lastf.
Qed.

(** ** the multiplicity loops *)
Lemma extract_all_spec fs (a : seq Z) res cof l : canonZ a -> (forall g, g \in fs -> canonZ g) ->
  extract_all fs a res = Done (cof, l) ->
  exists l',
    [/\ l = res ++ l', map fst l' = fs, canonZ cof, Poly a = Poly cof * fprod l'
      & (forall fe, fe \in l' -> (0 <= fe.2)%Z) /\ maximal (Poly cof) l'].
Proof.
elim: fs a res => [|f fs IH] a res ca cfs /=.
  by case=> <- <-; exists [::]; split=> //; rewrite ?cats0 // /fprod big_nil mulr1.
case em: mult_loop => [[a1 e]|t|] //=.
have cf : canonZ f by apply: cfs; rewrite inE eqxx.
have [ca1 le ea dn] := mult_loop_spec ca cf em.
move/(IH _ _ ca1) => [|l'' [el emap cc ec [hnn hmax]]].
  by move=> g hg; apply: cfs; rewrite inE hg orbT.
exists ((f, e) :: l''); split=> //=.
- by rewrite el -catA.
- by rewrite emap.
- by rewrite /fprod big_cons -/(fprod l'') /fpow /= ea ec Z.sub_0_r -mulrA [fprod _ * _]mulrC.
split.
  by move=> fe; rewrite inE => /orP [/eqP -> //=|/hnn].
split=> // f0 Q; rewrite -ec.
exact: (div_exact_none ca1 cf f0 dn).
Qed.

(** the loops never panic, and the fuel suffices when every divisor is non-constant *)
Lemma extract_all_no_panic fs (a : seq Z) res t : extract_all fs a res <> Panic t.
Proof.
elim: fs a res => [|f fs IH] a res //=.
case em: mult_loop => [[a1 e]|t'|] /=.
- exact: IH.
- by case: (mult_loop_no_panic em).
- by [].
Qed.

Lemma extract_all_done fs (a : seq Z) res : canonZ a -> a != [::] ->
  (forall g, g \in fs -> canonZ g /\ (1 < size g)%N) ->
  exists cof l, extract_all fs a res = Done (cof, l).
Proof.
elim: fs a res => [|f fs IH] a res ca a0 hfs /=; first by exists a, res.
have [cf f1] : canonZ f /\ (1 < size f)%N by apply: hfs; rewrite inE eqxx.
have [a1 [e em]] : exists a' e', mult_loop (length a + 1) a f 0 = Done (a', e').
  by apply: mult_loop_fuel => //; rewrite Llength_eq addn1.
rewrite em /=.
have [ca1 le ea dn] := mult_loop_spec ca cf em.
apply: IH => //; last by move=> g hg; apply: hfs; rewrite inE hg orbT.
have: Poly a != 0 by rewrite canon_Poly_eq0.
by rewrite ea -(canon_Poly_eq0 ca1); apply: contraNneq => ->; rewrite mul0r.
Qed.
