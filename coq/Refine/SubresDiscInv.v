(** [discriminant] (model) is invariant under the changes of variable x -> x + c and x -> -x; in general
    disc f(ax+b) = a^(n(n-1)) disc f. ssreflect/MathComp style. *)
From RNT.Model Require Import Base Poly Resultant.
From Coq Require Import ZArith.
From mathcomp Require Import all_ssreflect ssralg poly polydiv matrix mxpoly.
From mathcomp Require Import ssrZ zify ring.
From RNT.Refine Require Import PolyRefine PolyZ ResEuclid ResInt SubresFlag SubresSpec SubresAffine.
From RNT.Refine Require ResProofs.
Set Implicit Arguments.
Unset Strict Implicit.
Unset Printing Implicit Defensive.
Import GRing.Theory.
Local Open Scope ring_scope.

Local Notation dg p := (size p).-1.

(** the defining relation of the discriminant at the level of MathComp polynomials *)
Definition is_disc (F : {poly Z}) (d : Z) : Prop :=
  d * lead_coef F = (-1) ^+ ((dg F * (dg F).-1) %/ 2) * resultant F^`() F.

Lemma is_disc_affine (a b : Z) (F : {poly Z}) (dF dG : Z) : a != 0 -> (1 < size F)%N ->
  is_disc F dF -> is_disc (F \Po (a *: 'X + b%:P)) dG -> dG = a ^+ (dg F * (dg F).-1) * dF.
Proof.
move=> nza sF; set l := _ + _; rewrite /is_disc => HF HG.
have sl : size l = 2%N.
  by rewrite /l -mul_polyC size_MXaddC polyC_eq0 (negPf nza) size_polyC nza.
have ll : lead_coef l = a.
  by rewrite lead_coefE sl /= /l coefD coefZ coefX coefC /= mulr1 addr0.
have dl : l^`() = a%:P by rewrite /l derivD derivZ derivX derivC addr0 alg_polyC.
have nzF : F != 0 by rewrite -size_poly_gt0; apply: leq_trans sF.
have sF' : size F^`() = dg F by apply: size_derivZ.
have nzF' : F^`() != 0 by rewrite -size_poly_gt0 sF'; move: sF; clear; move: (size F) => x; lia.
have nzl : lead_coef F != 0 by rewrite lead_coef_eq0.
move: HG; rewrite size_comp_poly2 // lead_coef_comp ?sl // ll deriv_comp dl [_ * a%:P]mulrC mul_polyC.
have nzc : F^`() \Po l != 0 by rewrite comp_poly_eq0 ?sl.
rewrite -[F \Po l]scale1r resultant_scale ?oner_neq0 // expr1n mulr1 size_comp_poly2 //.
rewrite resultant_affine // sF' => HG.
have nzK : lead_coef F * a ^+ dg F != 0 by rewrite mulf_neq0 ?expf_neq0.
apply: (mulIf nzK); rewrite HG.
move: HF; move: ((-1) ^+ _) (resultant _ _) (a ^+ dg F) (a ^+ (_ * _)) (lead_coef F) => s r x y lc HF.
have -> : s * (x * (y * r)) = x * y * (s * r) by ring.
by rewrite -HF; ring.
Qed.

Section Model.
Variables (m : mode) (f g : seq Z).
Hypothesis cf : ResProofs.canonb f = true.
Hypothesis cg : ResProofs.canonb g = true.
Hypothesis lf : ResProofs.len_ok f = true.
Hypothesis lg : ResProofs.len_ok g = true.
Hypothesis sf : (1 < size f)%N.

Lemma discriminant_affine_model (a b : Z) : a != 0 -> Poly g = Poly f \Po (a *: 'X + b%:P) ->
  exists df dg', [/\ discriminant m f = (true, Done df), discriminant m g = (true, Done dg')
                   & dg' = a ^+ ((size f).-1 * (size f).-2) * df].
Proof.
move=> nza Eg.
have cf' : canonZ f by rewrite -canonb_canonZ.
have cg' : canonZ g by rewrite -canonb_canonZ.
have sl : size (a *: 'X + b%:P : {poly Z}) = 2%N.
  by rewrite -mul_polyC size_MXaddC polyC_eq0 (negPf nza) size_polyC nza.
have sg : size g = size f.
  by rewrite -(canon_size_Poly cg') Eg size_comp_poly2 // canon_size_Poly.
have sg1 : (1 < size g)%N by rewrite sg.
have [df [Df Hf]] := discriminant_spec m cf lf sf.
have [dg' [Dg Hg]] := discriminant_spec m cg lg sg1.
exists df, dg'; split=> //.
have sF : (1 < size (Poly f))%N by rewrite canon_size_Poly.
have := @is_disc_affine a b (Poly f) df dg' nza sF.
rewrite /is_disc -Eg !canon_size_Poly // sg; apply=> //.
by rewrite Hg sg.
Qed.

(** [P] invariance under x -> x + c *)
Theorem discriminant_shift (c : Z) : Poly g = Poly f \Po ('X + c%:P) ->
  exists d, discriminant m f = (true, Done d) /\ discriminant m g = (true, Done d).
Proof.
move=> Eg; have one0 : (1 : Z) != 0 by [].
have [|df [dg' [Df Dg Edg]]] := @discriminant_affine_model 1 c one0; first by rewrite scale1r.
by exists df; split=> //; rewrite Dg Edg expr1n mul1r.
Qed.

(** [P] invariance under x -> -x *)
Theorem discriminant_negx : Poly g = Poly f \Po (- 'X) ->
  exists d, discriminant m f = (true, Done d) /\ discriminant m g = (true, Done d).
Proof.
move=> Eg; have n10 : (-1 : Z) != 0 by [].
have [|df [dg' [Df Dg Edg]]] := @discriminant_affine_model (-1) 0 n10; first by rewrite scaleN1r addr0.
exists df; split=> //; rewrite Dg Edg -signr_odd oddM /=.
have -> : odd (size f).-1 && odd (size f).-2 = false.
  by move: sf; case: (size f) => [|[|n]] //= _; rewrite andNb.
by rewrite expr0 mul1r.
Qed.

End Model.

(** concrete instances of the hypotheses, for the non-vacuity examples *)
Lemma polyC_Znat (n : nat) : (Z.of_nat n)%:P = n%:R :> {poly Z}.
Proof.
rewrite -[n%:R]/(1 *+ n) -polyC1 -polyCMn; congr (_%:P).
by elim: n => // n IH; rewrite Nat2Z.inj_succ mulrS -IH; lia.
Qed.

Lemma shift_ex_poly : Poly [:: 5; 4; 3; 1]%Z = Poly [:: 3; 1; 0; 1]%Z \Po ('X + 1%:P) :> {poly Z}.
Proof.
rewrite /= !cons_poly_def !(comp_polyD, comp_polyM, comp_polyX, comp_polyC) !mul0r !add0r ?addr0.
by rewrite (polyC_Znat 5) (polyC_Znat 4) (polyC_Znat 3) polyC1; ring.
Qed.

Lemma negx_ex_poly : Poly [:: 3; -1; 0; -1]%Z = Poly [:: 3; 1; 0; 1]%Z \Po (- 'X) :> {poly Z}.
Proof.
rewrite /= !cons_poly_def !(comp_polyD, comp_polyM, comp_polyX, comp_polyC) !mul0r !add0r ?addr0.
have -> : ((-1)%Z)%:P = -1 :> {poly Z} by rewrite -polyC1 -polyCN.
by rewrite (polyC_Znat 3) polyC1; ring.
Qed.
