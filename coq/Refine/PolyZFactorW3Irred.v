(** * PolyZFactorW3Irred: C07, [get_factors_of_squarefree] returns irreducible polynomials when the
    precision it chooses is large enough for every true factor (MathComp + the list-level theorems of
    C08 and C11).

    The run establishes the invariant of Refine/PolyZFactorW3Zass.v: the prime found by [find_prime] is
    a prime not dividing the leading coefficient (provided it was not wrapped by [as i32]), the modular
    factors are monic, irreducible and pairwise distinct modulo p and multiply to the input (C08), the
    lifted factors are monic, congruent to them modulo p and multiply to the input modulo p^e (C11). *)
From Coq Require Import ZArith List Lia Znumtheory.
From RNT.Model Require Import Base Poly PolyModP FactorModP Hensel PolyZFactor.
From RNT.Model Require Elementary.
From mathcomp Require Import all_ssreflect ssralg poly polydiv ssrint zmodp.
From RNT.Refine Require Import PolyRefine PolyDiv PolyZ PolyModPArith PolyZmod MonicZ FermatZ FpPoly FmpField FmpSqf FmpSplit.
From RNT.Refine Require Import HenselProofs C08Lists C11Lists FmpLists ElemProofs.
From RNT.Refine Require Import PolyZFactorBasic PolyZFactorMult PolyZFactorMain PolyZFactorPos PolyZFactorEnum.
From RNT.Refine Require Import PolyZFactorW3Run PolyZFactorW3Hensel PolyZFactorW3Subset PolyZFactorW3Masks PolyZFactorW3Zass.
From mathcomp Require Import ssrZ zify ring.
Set Implicit Arguments.
Unset Strict Implicit.
Unset Printing Implicit Defensive.
Import GRing.Theory.
Local Open Scope ring_scope.

(** ** the prime search *)
Lemma find_prime_spec fuel a st p pu : find_prime fuel a st = Done (p, pu) ->
  [/\ Znumtheory.prime pu, p = as_i32 pu & is_multiple_of (lead opsZ a) p = false].
Proof.
elim: fuel st => [|fuel IH] st //=.
case en: Elementary.primes_next => [[now st']|t|] //=.
have [_ [_ [hp _]]] := primes_next_spec _ _ _ _ en.
case em: is_multiple_of; first exact: IH.
case: poly_mod => [am|t|] //=; case: differential => [amp|t|] //=; case: poly_gcd => [g|t|] //=.
by case: ifP => _; [case=> <- <- | exact: IH].
Qed.

Lemma not_multiple p x : Znumtheory.prime p -> is_multiple_of x p = false -> ~ (p | x)%ZZ.
Proof.
move=> hp; have hp2 := prime_ge_2 _ hp; rewrite /is_multiple_of.
have -> : (p =? 0)%ZZ = false by apply/Z.eqb_neq; lia.
move/Z.eqb_neq => h d; apply: h; apply/Z.rem_divide => //; lia.
Qed.

(** the exponent loop returns a power of p *)
Lemma exp_loop_pow p bound pe e : (2 <= p)%ZZ ->
  exp_loop (exp_fuel bound) 1 p bound 0 = Done (pe, e) -> (0 <= e)%ZZ /\ pe = (p ^ e)%ZZ.
Proof.
move=> hp; have [e' [-> [he _]]] := PolyZFactorBasic.exp_loop_spec p bound hp.
by case=> <- <-.
Qed.

(** ** from the lists of C08 / C11 to the invariant *)
Section Bridge.
Variable p : Z.
Hypothesis Hp : Znumtheory.prime p.
Let Hp2 := prime_ge_2 _ Hp.
Let Hp0 : p <> Z0. Proof. lia. Qed.
Notation n := (pnat p).
Notation h := (fun g : list Z => redp n (PZ g)).

Lemma nth_in_range (f : list Z) i : in_range p f -> (0 <= List.nth i f Z0 < p)%ZZ.
Proof.
move=> hf; elim: f i hf => [|x f IH] [|i] hf /=; try lia.
- by move/List.Forall_cons_iff: hf => [].
- by apply: IH; move/List.Forall_cons_iff: hf => [].
Qed.

Lemma reduced_inj (f g : list Z) : reduced p f -> reduced p g -> h f = h g -> f = g.
Proof.
move=> [cf rf] [cg rg] /(eqpm_RP Hp) e; apply: canonical_PZ_inj => //.
apply/polyP => i; have := eqpm_coef e i; rewrite !coefPZ.
by rewrite !Z.mod_small //; exact: nth_in_range.
Qed.

Definition mgood (f : list Z) : Prop := [/\ lmonic f, reduced p f & irreducible_mod p f].

Lemma mgood_monic f : mgood f -> h f \is monic.
Proof.
case=> mf _ _; have := lmonic_monic mf => m1.
rewrite monicE lead_coef_red; first by rewrite (monicP m1) rmorph1.
- exact: (n_prime Hp).
- rewrite (En Hp) (monicP m1) => /Z.divide_1_r; lia.
Qed.

Lemma mgood_irred f : mgood f -> irreducible_poly (h f).
Proof. by case=> _ rf irf; exact: (irreducible_mod_lirred Hp rf irf). Qed.

Lemma mgood_coprime f g : mgood f -> mgood g -> f <> g -> coprimep (h f) (h g).
Proof.
move=> gf gg ne; apply: (irred_coprime (mgood_irred gf)); apply/negP => d.
have [sg irg] := mgood_irred gg.
have sf : size (h f) != 1%N by have [s1 _] := mgood_irred gf; case: (size (h f)) s1 => [|[|k]].
have := irg _ sf d; rewrite eqp_monic; try exact: mgood_monic.
move/eqP => e; apply: ne; case: gf gg => _ rf _ [_ rg _]; exact: reduced_inj.
Qed.

Lemma mgood_pairwise (fs : list (list Z)) : List.NoDup fs -> List.Forall mgood fs ->
  pairwise (fun x y : {poly 'F_n} => coprimep x y) (map h fs).
Proof.
elim: fs => [|f fs IH] // /List.NoDup_cons_iff [nin nd] /List.Forall_cons_iff [gf gfs] /=.
rewrite IH // andbT.
elim: fs nin gfs {IH nd} => [|g fs IH] // nin /List.Forall_cons_iff [gg gfs] /=.
rewrite IH //; last by move=> hin; apply: nin; right.
rewrite andbT; apply: mgood_coprime => // e; apply: nin; left; exact: esym.
Qed.

(** the lifted factors inherit everything modulo p *)
Lemma lifted_images (gs fs : list (list Z)) :
  List.Forall2 (fun g f => peqmod p g f /\ lmonic g /\ length g = length f) gs fs ->
  map h gs = map h fs /\ all (fun l : {poly Z} => l \is monic) (map PZ gs).
Proof.
elim=> [|g f gs' fs' [e1 [mg _]] _ [IH1 IH2]] //=; split.
- by rewrite IH1; congr (_ :: _); apply/(eqpm_RP Hp)/(peqmodP _ _ Hp0).
- by rewrite IH2 andbT; exact: lmonic_monic.
Qed.

Lemma lifted_ok_of (gs fs : list (list Z)) : List.NoDup fs -> List.Forall mgood fs ->
  List.Forall2 (fun g f => peqmod p g f /\ lmonic g /\ length g = length f) gs fs ->
  lifted_ok n (map PZ gs).
Proof.
move=> nd gfs /lifted_images [eh hm]; split=> //.
- move=> l /mapP [g hg ->].
  have : h g \in map h gs by apply/mapP; exists g.
  rewrite eh => /mapP [f hf ->]; apply: mgood_irred.
  move/List.Forall_forall: gfs; apply.
  by elim: (fs) hf => [|x s IH] //; rewrite inE => /orP [/eqP ->|/IH]; [left | right].
- by have := mgood_pairwise nd gfs; rewrite -eh !pairwise_map.
Qed.

Lemma PZprod_lsprod (gs : list (list Z)) : PZprod gs = lsprod (map PZ gs).
Proof. by elim: gs => [|g gs IH] /=; rewrite ?lsprod_nil // lsprod_cons IH. Qed.

(** the product clause of C08 with all exponents 1 *)
Lemma lfprod_ones (out : list (list Z * Z)) : forallb (fun fe => (snd fe =? 1)%ZZ) out ->
  PZ (lfprod out) = PZprod (List.map fst out).
Proof.
rewrite /lfprod PZ_lprod; elim: out => [|[g ex] out IH] //= /andP [/Z.eqb_eq -> /IH ->].
by rewrite PZ_lpow expr1.
Qed.

End Bridge.

(** ** [get_factors_of_squarefree] *)

(** [prec_ok pe q]: every factorisation [q = u v] in Z[x] has [2 |lc(v) u_i| < pe] for all
    coefficients -- the purpose of the bound computed by the code (Landau-Mignotte); a hypothesis here *)
Definition prec_ok (pe : Z) (q : seq Z) : Prop :=
  forall u v : {poly Z}, Poly q = u * v -> forall i, (2 * Z.abs (lead_coef v * u`_i) < pe)%ZZ.

Theorem get_factors_irreducible md (q : seq Z) r fs r' bound p pe e :
  canonZ q -> (1 < size q)%N -> md = Checked \/ (Z.of_nat (length q) <= two64)%ZZ ->
  coef_bound md q = Done bound ->
  find_prime (prime_fuel q) q 2 = Done (p, p) ->
  exp_loop (exp_fuel bound) 1 p bound 0 = Done (pe, e) ->
  prec_ok pe q ->
  get_factors_of_squarefree md q r = Done (fs, r') ->
  forall f, f \in fs -> irreducible_poly (Poly f).
Proof.
move=> cq sq hmd eb efp eel hprec; have q0 : q != [::] by case: (q) sq.
 rewrite /get_factors_of_squarefree eb /= efp /= eel /=.
have [Hp _ nmul] := find_prime_spec efp.
have Hp2 := prime_ge_2 _ Hp; have Hp0 : p <> Z0 by lia.
have [he epe] := exp_loop_pow Hp2 eel.
have ndlc : ~ (p | lead_coef (Poly q))%ZZ.
  by rewrite -(lead_opsZ cq); exact: not_multiple.
pose n := pnat p; have n_prime := n_prime Hp; have En := En Hp.
have ndlc' : ~ (Z.of_nat n | lead_coef (Poly q))%ZZ by rewrite En.
(* e >= 1 *)
have lq0 : lead_coef (Poly q) != 0 by rewrite lead_coef_eq0 canon_Poly_eq0.
have pe2 : (2 < pe)%ZZ.
  have := hprec (Poly q) 1 (esym (mulr1 _)) (size (Poly q)).-1.
  rewrite lead_coef1 Z.mul_1_l -lead_coefE; move/eqP: lq0; lia.
have e1 : (1 <= e)%ZZ.
  case: (Z.leb_spec 1 e) => // lt; have e0 : e = Z0 by lia.
  by move: pe2; rewrite epe e0 Z.pow_0_r; lia.
pose en := Z.to_nat e.
have en0 : (0 < en)%N by rewrite /en; lia.
have epe' : pe = (Z.of_nat n) ^+ en by rewrite epe En -Zpow_exp /en Z2Nat.id.
case efm: factorize_mod_p => [[out r1]|t|] //=.
case eas: assert_ => [uu|t|] //=.
have ones : forallb (fun fe => (snd fe =? 1)%ZZ) out by move: eas; rewrite /assert_; case: forallb.
case elf: lift_factorization => [lifted|t|] //=.
case erc: recombine => [res|t|] //= [<- _].
(* C08 *)
have [f1 ef1] : exists f1, poly_mod q p = Done f1.
  by rewrite /poly_mod; case: (q) => [|x s]; [exists [::] | move/Z.eqb_neq: Hp0 => ->; eexists].
have f1n : f1 <> [::].
  move=> f10; have := PZ_poly_mod Hp0 ef1; rewrite f10 PZ_nil => /eqpm_sym /(eqpm_RP Hp).
  rewrite redp0 => /eqP; rewrite -size_poly_eq0 -/n size_red // => /eqP s0.
  by move: lq0; rewrite lead_coef_eq0 -size_poly_eq0 -PZE s0.
have hpu : p = p \/ (Z.of_nat (length q) <= p)%ZZ by left.
have hnorm := factorize_normalised_list Hp (Z.lt_le_incl _ _ (Z.lt_le_trans _ _ _ Z.lt_0_2 Hp2)) efm.
have hprod := factorize_product_all Hp hmd hpu ef1 f1n efm.
have [hirr hnd] := factorize_irreducible_all Hp hpu ef1 f1n efm.
set factors := List.map fst out in elf hnd.
have gfs : List.Forall (mgood p) factors.
  apply/List.Forall_forall => f /List.in_map_iff [ge [<- hin]].
  move/List.Forall_forall: hnorm => /(_ _ hin) [mf [cf [rf _]]].
  move/List.Forall_forall: hirr => /(_ _ hin) irf.
  by split.
(* the product modulo p, with the true leading coefficient *)
have eprod : eqpm p (PZ q) ((lead_coef (Poly q))%:P * PZprod factors).
  move/(peqmodP _ _ Hp0): hprod; rewrite PZ_pmul PZ_single (lfprod_ones ones) -/factors => e0.
  apply/(eqpm_RP Hp); move/(eqpm_RP Hp): e0; rewrite !redpM !redpC -/n => e0.
  have mon : redp n (PZprod factors) \is monic.
    rewrite PZprod_lsprod red_lsprod // big_map big_seq; apply: monic_prod => f hf.
    apply: (mgood_monic Hp); move/List.Forall_forall: gfs; apply.
    by elim: (factors) hf => [|x s IH] //; rewrite inE => /orP [/eqP ->|/IH]; [left | right].
  have := congr1 lead_coef e0; rewrite !mul_polyC !lead_coefZ (monicP mon) !mulr1 PZE lead_coef_red // => elc.
  by rewrite -PZE e0 elc mul_polyC.
(* C11 *)
have fne : factors <> [::].
  move=> f0; move: eprod; rewrite f0 /= mulr1 => /(eqpm_RP Hp); rewrite redpC -/n => e0.
  have : (size (redp n (PZ q)) <= 1)%N by rewrite e0 size_polyC; case: (_ != 0).
  by rewrite size_red // PZE canon_size_Poly // leqNgt sq.
have mfs : List.Forall lmonic factors.
  by apply/List.Forall_forall => f hf; move/List.Forall_forall: gfs => /(_ _ hf) [].
have elast : List.last q Z0 = lead_coef (Poly q) by rewrite (lead_coef_canon cq) Llast_eq.
have hc : peqmod p q (pmul opsZ (from_mono opsZ (List.last q Z0)) (lprod factors)).
  by apply/(peqmodP _ _ Hp0); rewrite PZ_pmul PZ_from_mono PZ_lprod elast.
have ndl : ~ (p | List.last q Z0)%ZZ by rewrite elast.
have [hF2 [hpe _]] := lift_factorization_list_spec Hp e1 ndl fne mfs hc elf.
have ok := lifted_ok_of Hp hnd gfs hF2.
have inv : rinv n en q lifted.
  split=> //.
  move/(peqmodP _ _ _): hpe; rewrite PZ_pmul PZ_from_mono PZ_lprod elast PZprod_lsprod mul_polyC.
  by rewrite -epe -epe'; apply; lia.
have hmd1 : mindeg n en q lifted 1.
  by move=> m u v _ /andP [c0 c1]; move: c0 c1; case: (count id m).
have sL : (0 < size lifted)%N.
  have : length lifted = length factors by elim: hF2 => [|g f gs' fs' _ _ IH] //=; rewrite IH.
  by rewrite Llength_eq => ->; case: (factors) fne.
have hb : hbound n en q by move=> u v euv i; rewrite -epe'; exact: hprec.
rewrite epe' in erc.
have [fs' [-> hfs]] := recombine_irreducible n_prime en0 inv hb hmd1 (ltn0Sn 0) sL erc.
exact: hfs.
Qed.
