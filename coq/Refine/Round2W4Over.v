(** Round 2 step, fourth wave (C06): an over-order O'' of an order O, seen from O.  O = S O'' (integer matrix S),
    N Z^n inside the row lattice of S (N O'' inside O).  The set L = { v in Z^n : v S in N Z^n } of coordinate
    vectors (w.r.t. O) of the elements of N O'' contains N Z^n and satisfies L * L in N L for the product of the
    exact table T of O, because O'' is closed under multiplication ([Order::get_mult_table] returns on it).
    Style: ssreflect, polynomials over [QcRing] (as Round2W3Lift). *)
From RNT.Model Require Import Base Poly Algebraic LinAlg MultTable Order.
From Coq Require Import QArith Qcanon.
From mathcomp Require Import all_ssreflect ssralg poly polydiv.
From mathcomp Require Import ssrZ zify ring.
From RNT.Refine Require Import QcRing PolyRefine PolyDiv PolyZ PolyQ AlgMul AlgQuot MultTableOps MultTableGet TableAgrees.
From RNT.Refine Require OrderSolve OrderIndex LinAlgQc AlgNormMx AlgNormOrder MatZ Round2Lattice Round2W3Up Round2W3Lift Round2W3Mul.
Set Implicit Arguments.
Unset Strict Implicit.
Unset Printing Implicit Defensive.
Import GRing.Theory.
Local Open Scope ring_scope.

Section Over.
Variables (f : seq Z) (n : nat).
Hypothesis cf : canonZ f.
Hypothesis szf : size f = n.+1.
Let F := Fq f.
Variables (o : seq (seq Qc)) (T : table).
Hypothesis so : size o = n.
Hypothesis ro : forall i, (i < n)%N -> size (nth [::] o i) = n.
Hypothesis gt : get_mult_table o f = Done T.
Variables (o2 : seq (seq Qc)) (T2 : table).
Hypothesis so2 : size o2 = n.
Hypothesis ro2 : forall i, (i < n)%N -> size (nth [::] o2 i) = n.
Hypothesis gt2 : get_mult_table o2 f = Done T2.
Variable S : seq (seq Z).
Hypothesis sS : MatZ.shape n n S.
Hypothesis eS : forall t j, (t < n)%coq_nat -> (j < n)%coq_nat ->
  List.nth j (List.nth t o [::]) Algebraic.q0 = Round2Lattice.combQ (List.nth t S [::]) o2 j.
Variable N : Z.
Hypothesis N0 : N <> 0%Z.
Hypothesis HN : forall y : seq Z, size y = n -> MatZ.In_rowspanZ n (MatZ.vscale N y) S.

Let lS : size S = n := sS.1.
Let wS : MatZ.wf n S := sS.2.

Lemma size_Srow t : (t < n)%N -> size (nth [::] S t) = n.
Proof.
move=> ht; have := MatZ.wf_row n S t wS; rewrite /MatZ.row Lnth_eq; apply.
by rewrite [length S]lS; apply/ltP.
Qed.

(** the element with coordinates v w.r.t. O has coordinates v S w.r.t. O'' *)
Lemma oc_change (v : seq Z) : size v = n ->
  of_coords n o (map qz v) = of_coords n o2 (map qz (MatZ.lincomb n v S)).
Proof.
move=> sv.
rewrite (@Round2W3Lift.oc_lincomb n o2 v S (fun t => Poly (nth [::] o t)) wS) ?sv ?lS //; last first.
  move=> t ht; symmetry.
  apply: (Round2W3Lift.poly_of_comb so2 ro2 (ro ht) (size_Srow ht)) => j hj.
  by rewrite -!Lnth_eq; apply: eS => //; apply/ltP.
rewrite -(big_mkord xpredT (fun t => qz (nth 0%Z v t) *: Poly (nth [::] o t))) /index_iota subn0.
rewrite /of_coords; apply: eq_big_seq => t _.
by rewrite Round2W3Lift.nth_map_qz.
Qed.

Definition inL (v : seq Z) : Prop :=
  size v = n /\ exists c : seq Z, size c = n /\ MatZ.lincomb n v S = MatZ.vscale N c.

Lemma inL_N (y : seq Z) : size y = n -> inL (MatZ.vscale N y).
Proof.
move=> sy; split; first by rewrite -Llength_eq MatZ.vscale_length.
exists (MatZ.lincomb n y S); split; first by rewrite -Llength_eq MatZ.lincomb_length.
rewrite (MatZ.lincomb_scale n N y S) //.
Qed.

Lemma qzN : qz N != 0.
Proof. exact: Round2W3Lift.qz_eq0. Qed.

Theorem inL_mul (a b : seq Z) : inL a -> inL b ->
  exists c, [/\ size c = n, inL c & AlgNormMx.tmul T n a b = MatZ.vscale N c].
Proof.
move=> [sa [ca [sca ea]]] [sb [cb [scb eb]]].
pose g := AlgNormMx.tmul T2 n ca cb.
have sg : size g = n by rewrite AlgNormMx.size_tmul.
have [c [lc ec]] := HN sg.
have sc : size c = n by rewrite -lS.
exists c; split=> //.
  by split=> //; exists g.
apply: (AlgNormOrder.of_coords_inj so gt); rewrite ?AlgNormMx.size_tmul //.
  by rewrite -Llength_eq MatZ.vscale_length.
rewrite (AlgNormOrder.tmul_agrees cf szf so ro gt sa sb).
rewrite (oc_change sa) (oc_change sb) ea eb !Round2W3Lift.oc_vscale.
rewrite -scalerAl -scalerAr scalerA modpZl.
rewrite -(AlgNormOrder.tmul_agrees cf szf so2 ro2 gt2 sca scb) -/g.
rewrite (oc_change sc) -ec Round2W3Lift.oc_vscale scalerA.
by [].
Qed.
End Over.

(** the same with hypotheses on [length] / [Forall] *)
Theorem inL_mul_list (f : seq Z) (n : nat) (o : seq (seq Qc)) (T : table) (o2 : seq (seq Qc)) (T2 : table)
    (S : seq (seq Z)) (N : Z) :
  canonZ f -> size f = n.+1 ->
  size o = n -> List.Forall (fun r => size r = n) o -> get_mult_table o f = Done T ->
  size o2 = n -> List.Forall (fun r => size r = n) o2 -> get_mult_table o2 f = Done T2 ->
  MatZ.shape n n S ->
  (forall t j, (t < n)%coq_nat -> (j < n)%coq_nat ->
     List.nth j (List.nth t o [::]) Algebraic.q0 = Round2Lattice.combQ (List.nth t S [::]) o2 j) ->
  (forall y : seq Z, size y = n -> MatZ.In_rowspanZ n (MatZ.vscale N y) S) ->
  forall a b, inL n S N a -> inL n S N b ->
  exists c, size c = n /\ inL n S N c /\ AlgNormMx.tmul T n a b = MatZ.vscale N c.
Proof.
move=> cf szf so wo gt so2 wo2 gt2 sS eS HN a b La Lb.
have [c [sc Lc ec]] := inL_mul cf szf so (Round2W3Lift.rows_size so wo) gt so2 (Round2W3Lift.rows_size so2 wo2)
  gt2 sS eS HN La Lb.
by exists c.
Qed.
