(** C20: [Cholesky::find] + [find_value] + [find_short_vectors] in exact arithmetic (goal G2).

    For a symmetric positive definite rational matrix Q, [cholesky_find arithQ Q] returns a decomposition
    q with positive diagonal such that [find_value q x] is x^T Q x for every integer vector x; hence
    [find_short_vectors] on it enumerates exactly the non-zero integer vectors with x^T Q x <= c, one of
    each pair +-x.  (stdlib; the loops are in CholLoops.v, the algebra in CholAlg.v.) *)
From RNT.Model Require Import Base Lll.
From RNT.Refine Require Import LllMat LllGS LllShort LllSqrt LllShortSpec CholAlg CholLoops.
From Coq Require Import Lia QArith Qcanon.
Open Scope Z_scope.

Local Notation F := arithQ.
Local Notation "x +q y" := (Qcplus x y) (at level 50, left associativity).
Local Notation "x *q y" := (Qcmult x y) (at level 40, left associativity).
Local Notation "x -q y" := (Qcminus x y) (at level 50, left associativity).
Local Notation q0 := (Q2Qc 0).

(** ** the loops of [find_value] as sums *)
Lemma for_range_rsum lo hi (h : nat -> Qc) : for_range lo hi (fun j u => u +q h j) q0 = rsum lo hi h.
Proof.
  unfold for_range, rsum. generalize (hi - lo)%nat as d. induction d as [|d IH]; [reflexivity|].
  rewrite seq_S, fold_left_app. cbn [fold_left qsum]. rewrite IH. reflexivity.
Qed.

Lemma qvalue_qsum q x : qvalue q x = qsum (length q) (term q x).
Proof.
  unfold qvalue, pv. rewrite Nat.sub_0_r. rewrite <- fold_left_right_add.
  rewrite <- rsum_0, <- for_range_rsum. unfold for_range. rewrite Nat.sub_0_r. reflexivity.
Qed.

(** ** the value of the decomposition is the value of the form *)
Section Value.
Variable Q q : list (list Qc).
Hypothesis Hsym : msym (length Q) Q.
Hypothesis Lq : length q = length Q.
Hypothesis Hdiag : forall a, (a < length Q)%nat -> gq q a a = schur Q a a a.
Hypothesis Hup : forall a b, (a < b < length Q)%nat -> gq q a b = Qcdiv (schur Q a a b) (schur Q a a a).
Hypothesis Hpiv : forall i, (i < length Q)%nat -> schur Q i i i <> q0.

Lemma term_Tx (x : list Z) i : (i < length Q)%nat ->
  term q x i = Tx (length Q) Q (fun j => Qc_of_Z (nth j x 0)) i.
Proof.
  intros Hi. unfold term, Tx, uval, qz. rewrite for_range_rsum, Lq, Nat.add_1_r. rewrite (Hdiag i Hi).
  assert (E : rsum (S i) (length Q) (fun j => gq q i j *q Qc_of_Z (nth j x 0))
              = Qcdiv (sx (length Q) Q (fun j => Qc_of_Z (nth j x 0)) i) (schur Q i i i)).
  { unfold sx, Qcdiv. rewrite Qcmult_comm. rewrite <- rsum_scale. apply rsum_ext. intros j Hj.
    rewrite (Hup i j) by lia. unfold Qcdiv. ring. }
  rewrite E. reflexivity.
Qed.

Lemma qvalue_qform (x : list Z) :
  qvalue q x = qform (length Q) Q (fun j => Qc_of_Z (nth j x 0)).
Proof.
  rewrite (qform_squares (length Q) Q Hsym _ Hpiv). rewrite qvalue_qsum, Lq.
  apply qsum_ext. intros i Hi. apply term_Tx. exact Hi.
Qed.
End Value.

Lemma pos_nonzero (d : Qc) : Qclt q0 d -> d <> q0.
Proof. intros H. apply not_eq_sym, Qclt_not_eq. exact H. Qed.

(** [P] main theorem, hypothesis "all pivots positive" *)
Theorem cholesky_find_spec_pivots : forall Q : list (list Qc),
  square (length Q) Q -> msym (length Q) Q -> pivots_pos Q ->
  exists q, cholesky_find arithQ Q = Done q /\ length q = length Q /\ posdiag q /\
    (forall i, (i < length Q)%nat -> gq q i i = schur Q i i i) /\
    forall x : list Z, length x = length Q ->
      qvalue q x = qform (length Q) Q (fun i => Qc_of_Z (nth i x 0)) /\
      find_value arithQ q (map (fofZ arithQ) x) = Done (qform (length Q) Q (fun i => Qc_of_Z (nth i x 0))).
Proof.
  intros Q HQ Hsym Hpiv.
  destruct (cholesky_find_entries Q HQ) as (q & E & W & Hd & Hu & _).
  exists q. split; [exact E|]. pose proof (proj1 W) as Lq. split; [exact Lq|].
  split; [|split; [exact Hd|]].
  - intros i Hi. rewrite Lq in Hi. unfold gq. rewrite (Hd i Hi). apply Hpiv. exact Hi.
  - intros x Lx.
    assert (V : qvalue q x = qform (length Q) Q (fun i => Qc_of_Z (nth i x 0))).
    { apply qvalue_qform; try assumption. intros i Hi. apply pos_nonzero. apply Hpiv. exact Hi. }
    split; [exact V|]. rewrite find_value_qvalue by congruence. rewrite V. reflexivity.
Qed.

(** [P] the link to the matrix notion: positive definite => pivots positive (for the vector x with
    x_i = 1, x_j = 0 for j > i and the x_i' for i' < i found by back substitution, the first i squares
    vanish and x^T Q x = A^(i)_ii) *)
Theorem posdef_pivots_pos : forall Q,
  square (length Q) Q -> msym (length Q) Q -> posdef (length Q) Q -> pivots_pos Q.
Proof. intros Q _ Hsym Hp i Hi. exact (posdef_pivots (length Q) Q Hsym Hp i Hi). Qed.

(** [P] and conversely (so the two hypotheses are interchangeable) *)
Theorem pivots_pos_posdef : forall Q, msym (length Q) Q -> pivots_pos Q -> posdef (length Q) Q.
Proof. intros Q Hsym Hp. exact (pivots_posdef (length Q) Q Hsym Hp). Qed.

(** [P] goal statement *)
Theorem cholesky_find_spec : forall Q : list (list Qc),
  square (length Q) Q -> msym (length Q) Q -> posdef (length Q) Q ->
  exists q, cholesky_find arithQ Q = Done q /\ length q = length Q /\ posdiag q /\
    forall x : list Z, length x = length Q ->
      find_value arithQ q (map (fofZ arithQ) x) = Done (qform (length Q) Q (fun i => Qc_of_Z (nth i x 0))).
Proof.
  intros Q HQ Hsym Hp.
  destruct (cholesky_find_spec_pivots Q HQ Hsym (posdef_pivots_pos Q HQ Hsym Hp)) as (q & E & L & P & _ & V).
  exists q. split; [exact E|]. split; [exact L|]. split; [exact P|]. intros x Lx. exact (proj2 (V x Lx)).
Qed.

(** [P] the enumeration on the decomposition of a positive definite Gram matrix: the list has no
    repetition, every member is a non-zero integer vector reported with its value x^T Q x <= c, and of
    every non-zero integer vector y with y^T Q y <= c exactly one of y, -y is in the list. *)
Theorem short_vectors_gram_spec : forall (Q : list (list Qc)) (c : Qc) (q : list (list Qc)) (l : list (Qc * list Z)),
  square (length Q) Q -> msym (length Q) Q -> posdef (length Q) Q ->
  cholesky_find arithQ Q = Done q -> find_short_vectors arithQ q c = Done l ->
  let val := fun y : list Z => qform (length Q) Q (fun i => Qc_of_Z (nth i y 0)) in
  NoDup (map snd l) /\
  (forall v y, In (v, y) l -> length y = length Q /\ forallb (Z.eqb 0) y = false /\ v = val y /\ Qcle v c) /\
  (forall y, length y = length Q -> forallb (Z.eqb 0) y = false -> Qcle (val y) c ->
     (In y (map snd l) /\ ~ In (vneg y) (map snd l)) \/ (~ In y (map snd l) /\ In (vneg y) (map snd l))).
Proof.
  intros Q c q l HQ Hsym Hp Eq El val.
  destruct (cholesky_find_spec_pivots Q HQ Hsym (posdef_pivots_pos Q HQ Hsym Hp)) as (q' & E & L & P & _ & V).
  rewrite Eq in E. inversion E; subst q'. clear E.
  destruct (short_vectors_spec q c l P El) as (ND & _ & Cm).
  split; [exact ND|]. split.
  - intros v y Hin. pose proof (short_vectors_sound q c l El) as S. rewrite Forall_forall in S.
    destruct (S _ Hin) as (Ly & NZ & FV & Hc). cbn [fst snd] in *.
    rewrite L in Ly. split; [exact Ly|]. split; [exact NZ|]. split; [|exact Hc].
    rewrite (proj2 (V y Ly)) in FV. inversion FV. reflexivity.
  - intros y Ly NZ Hc. apply Cm; [congruence|exact NZ|]. rewrite (proj1 (V y Ly)). exact Hc.
Qed.

(** ** non-vacuity: the Gram matrix of the root lattice A3 *)
Definition gramA3 : list (list Qc) := map (map Qc_of_Z) [[2; 1; 0]; [1; 2; 1]; [0; 1; 2]].

Example gramA3_square : square (length gramA3) gramA3.
Proof. split; [reflexivity|]. repeat constructor. Qed.

Example gramA3_msym : msym (length gramA3) gramA3.
Proof.
  intros i j Hi Hj. cbn [length gramA3 map] in Hi, Hj.
  destruct i as [|[|[|i]]]; [| | |lia]; (destruct j as [|[|[|j]]]; [| | |lia]); reflexivity.
Qed.

Example gramA3_pivots_pos : pivots_pos gramA3.
Proof.
  intros i Hi. cbn [length gramA3 map] in Hi.
  destruct i as [|[|[|i]]]; [| | |lia]; vm_compute; reflexivity.
Qed.

Example gramA3_posdef : posdef (length gramA3) gramA3.
Proof. exact (pivots_pos_posdef gramA3 gramA3_msym gramA3_pivots_pos). Qed.

(** the decomposition: pivots 2, 3/2, 4/3 *)
Example gramA3_cholesky :
  match cholesky_find arithQ gramA3 with
  | Done q => map (map this) q
  | _ => []
  end = [[2 # 1; 1 # 2; 0 # 1]; [0 # 1; 3 # 2; 2 # 3]; [0 # 1; 0 # 1; 4 # 3]]%Q.
Proof. vm_compute. reflexivity. Qed.

Example gramA3_cholesky_done : exists q, cholesky_find arithQ gramA3 = Done q /\
  map (map this) q = [[2 # 1; 1 # 2; 0 # 1]; [0 # 1; 3 # 2; 2 # 3]; [0 # 1; 0 # 1; 4 # 3]]%Q.
Proof.
  destruct (cholesky_find arithQ gramA3) as [q| | ] eqn:E.
  - exists q. split; [reflexivity|]. pose proof gramA3_cholesky as H. rewrite E in H. exact H.
  - pose proof gramA3_cholesky as H. rewrite E in H. discriminate H.
  - pose proof gramA3_cholesky as H. rewrite E in H. discriminate H.
Qed.

(** the value on x = (1, -1, 1): 2 + 2 + 2 - 2 - 2 = 2 *)
Example gramA3_value :
  match cholesky_find arithQ gramA3 with
  | Done q => match find_value arithQ q (map (fofZ arithQ) [1; -1; 1]) with Done v => this v | _ => 0%Q end
  | _ => 0%Q
  end = (2 # 1)%Q.
Proof. vm_compute. reflexivity. Qed.

(** the enumeration with c = 2: the 12 minimal vectors of A3, one of each pair +-x, each with value 2 *)
Example gramA3_short :
  match cholesky_find arithQ gramA3 with
  | Done q => match find_short_vectors arithQ q (Qc_of_Z 2) with
              | Done l => map (fun vx => (this (fst vx), snd vx)) l
              | _ => []
              end
  | _ => []
  end = [((2 # 1)%Q, [0; 0; -1]); ((2 # 1)%Q, [-1; 1; -1]); ((2 # 1)%Q, [0; 1; -1]);
         ((2 # 1)%Q, [0; -1; 0]); ((2 # 1)%Q, [1; -1; 0]); ((2 # 1)%Q, [-1; 0; 0])].
Proof. vm_compute. reflexivity. Qed.
