(** * Rabin-Monier, part 3: from the units of Z/n to a count of natural numbers in [1, n) (MathComp style). *)
From mathcomp Require Import all_ssreflect all_fingroup.
From mathcomp Require Import ssralg finalg zmodp.
From RNT.Refine Require Import RabinMonierGroup RabinMonierCases.
Set Implicit Arguments.
Unset Strict Implicit.
Unset Printing Implicit Defensive.
Import GroupScope GRing.Theory.
Local Open Scope ring_scope.

(** [a] is a strong liar for [n], where n - 1 = d 2^s: a^d = 1 or a^(d 2^r) = -1 (mod n) for some r < s. *)
Definition nliar (n d s a : nat) : bool :=
  (a ^ d %% n == 1)%N || has (fun r => a ^ (d * 2 ^ r) %% n == n.-1)%N (iota 0 s).

Lemma totient_le_pred n : (1 < n)%N -> (totient n <= n.-1)%N.
Proof.
move=> n_gt1; rewrite totient_count_coprime big_ltn ?(ltnW n_gt1) //.
rewrite /coprime gcdn0 (gtn_eqF n_gt1) add0n.
apply: leq_trans (_ : \sum_(1 <= i < n) 1 <= _)%N; first by apply: leq_sum => i _; case: (_ == _).
by rewrite sum_nat_const_nat muln1 subn1.
Qed.

Section Count.
Variables n d s : nat.
Hypothesis n_gt1 : (1 < n)%N.
Hypothesis d_gt0 : (0 < d)%N.

Lemma nliar_coprime a : nliar n d s a -> coprime n a.
Proof.
have n_gt0 := ltnW n_gt1.
case/orP=> [/eqP E|/hasP[r _ /eqP E]].
  by rewrite -(@coprime_pexpr d) // -coprime_modr E coprimen1.
have e_gt0 : (0 < d * 2 ^ r)%N by rewrite muln_gt0 d_gt0 expn_gt0.
rewrite -(coprime_pexpr _ _ e_gt0) -coprime_modr E.
by rewrite -[X in coprime X _](prednK n_gt0) coprimeSn.
Qed.

Definition unit_of (a : nat) : {unit 'Z_n} := insubd (1%g : {unit 'Z_n}) (a%:R : 'Z_n).

Lemma val_unit_of a : coprime n a -> val (unit_of a) = a%:R.
Proof. by move=> co; rewrite /unit_of insubdK // unfold_in unitZpE. Qed.

Lemma nliar_uliar a : nliar n d s a -> uliar d s (unit_of a).
Proof.
move=> La; have Ea := val_unit_of (nliar_coprime La).
case/orP: La => [E|/hasP[r rs /eqP E]]; apply/orP; [left|right].
  by rewrite Ea -natrX natr_eq1.
move: rs; rewrite mem_iota add0n /= => rs; apply/existsP; exists (Ordinal rs) => /=.
rewrite Ea -natrX natr_eqN1 // /dvdn -addn1 -modnDml E addn1 prednK ?modnn //.
exact: ltnW.
Qed.

Lemma nliar_count_units :
  (count (nliar n d s) (iota 1 n.-1) <= #|[set u : {unit 'Z_n} | uliar d s u]|)%N.
Proof.
rewrite -size_filter; set l := filter _ _.
have l_in a : a \in l -> [/\ nliar n d s a, (0 < a)%N & (a < n)%N].
  rewrite mem_filter mem_iota => /and3P[La a_gt0]; rewrite add1n prednK ?(ltnW n_gt1) //.
have inj_l : {in l &, injective unit_of}.
  move=> a a' /l_in[La _ a_lt] /l_in[La' _ a'_lt] /(congr1 val).
  rewrite !val_unit_of ?nliar_coprime // => /eqP.
  by rewrite eq_natr_mod // !modn_small // => /eqP.
have Ul : uniq (map unit_of l) by rewrite map_inj_in_uniq // filter_uniq // iota_uniq.
rewrite -(size_map unit_of) cardE; apply: uniq_leq_size Ul _.
move=> u /mapP[a /l_in[La _ _] ->].
by rewrite mem_enum inE nliar_uliar.
Qed.

End Count.

(** [P] Rabin-Monier on natural numbers: an odd composite n > 9 with n - 1 = d 2^s, d odd, has at most phi(n)/4
    strong liars in [1, n). *)
Theorem rabin_monier_nat n d s : (9 < n)%N -> odd n -> ~~ prime n -> odd d -> n.-1 = (d * 2 ^ s)%N ->
  (4 * count (nliar n d s) (iota 1 n.-1) <= totient n)%N.
Proof.
move=> n_gt9 n_odd n_npr d_odd Ends.
have n_gt1 : (1 < n)%N by apply: leq_trans n_gt9.
have d_gt0 : (0 < d)%N by rewrite odd_gt0.
apply: leq_trans (rabin_monier_units n_gt9 n_odd n_npr d_odd Ends).
by rewrite leq_mul2l /= nliar_count_units.
Qed.

Corollary rabin_monier_nat_pred n d s : (9 < n)%N -> odd n -> ~~ prime n -> odd d -> n.-1 = (d * 2 ^ s)%N ->
  (4 * count (nliar n d s) (iota 1 n.-1) <= n.-1)%N.
Proof.
move=> n_gt9 n_odd n_npr d_odd Ends.
apply: leq_trans (rabin_monier_nat n_gt9 n_odd n_npr d_odd Ends) _.
by apply: totient_le_pred; apply: leq_trans n_gt9.
Qed.

