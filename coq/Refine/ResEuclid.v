(** Constants, zero, the Euclid recursion of [resultant_rational] over MathComp polynomials and its
    correctness w.r.t. MathComp's [resultant]; symmetry, Euclid recurrence, scaling law.
    ssreflect/MathComp style. Recall (ResSylvester.v): the classical Res(A, B) is [resultant B A]. *)
From mathcomp Require Import all_ssreflect ssralg poly polydiv matrix mxalgebra mxpoly.
From mathcomp Require Import zify.
From RNT.Refine Require Import ResSylvester.
Set Implicit Arguments.
Unset Strict Implicit.
Unset Printing Implicit Defensive.
Import GRing.Theory.
Local Open Scope ring_scope.


Local Notation dg p := (size p).-1.

Section Consts.
Variable R : comRingType.
Implicit Types p q r : {poly R}.

Lemma dg_polyC (c : R) : dg c%:P = 0%N.
Proof. by rewrite size_polyC; case: (c != 0). Qed.

Lemma resultant_constl (c : R) q : resultant c%:P q = c ^+ dg q.
Proof.
rewrite /resultant Sylvester_Syl Syl_mkS dg_polyC.
have ->: mkS (dg q) (dg q + 0) c%:P q = c%:M.
  apply/matrixP=> i j; rewrite !mxE.
  have ->: (i < dg q)%N by have := ltn_ord i; lia.
  by rewrite coefCM coefXn eq_sym mulr_natr.
by rewrite det_scalar addn0.
Qed.

Lemma resultant_constr p (c : R) : resultant p c%:P = c ^+ dg p.
Proof.
rewrite /resultant Sylvester_Syl Syl_mkS dg_polyC.
have ->: mkS 0 (0 + dg p) p c%:P = c%:M.
  by apply/matrixP=> i j; rewrite !mxE ltn0 subn0 coefCM coefXn eq_sym mulr_natr.
by rewrite det_scalar.
Qed.

Lemma resultant_0r p : resultant p 0 = 0 ^+ dg p.
Proof. by rewrite -polyC0 resultant_constr. Qed.

Lemma resultant_0l q : resultant 0 q = 0 ^+ dg q.
Proof. by rewrite -polyC0 resultant_constl. Qed.

End Consts.

Section Euclid.
Variable F : fieldType.
Implicit Types A B : {poly F}.

(** The recursion implemented by [resultant_rational] (src/resultant.rs:10-31), over MathComp polynomials. *)
Fixpoint res_euclid (n : nat) A B : F :=
  if n is n'.+1 then
    if (A == 0) || (B == 0) then 0
    else if size B == 1%N then B`_0 ^+ dg A
    else let R := A %% B in
         if R == 0 then 0
         else (-1) ^+ (dg A * dg B) * lead_coef B ^+ (dg A - dg R) * res_euclid n' B R
  else 0.

Definition emu A B : nat := (2 * size B + (size A < size B))%N.

Lemma signr_sq (n : nat) : (-1) ^+ n * (-1) ^+ n = 1 :> F.
Proof. by rewrite -exprD addnn -signr_odd odd_double. Qed.

Lemma res_euclid_correct n A B : A != 0 -> B != 0 -> (emu A B < n)%N ->
  res_euclid n A B = resultant B A /\ (-1) ^+ (dg A * dg B) * res_euclid n A B = resultant A B.
Proof.
elim: n A B => // n IHn A B nzA nzB; rewrite /emu ltnS => le_n.
rewrite /= (negPf nzA) (negPf nzB) /=.
case: (size B =P 1%N) => [szB | /eqP szB].
  have /size_poly1P [c nzc defB] : size B == 1%N by apply/eqP.
  rewrite defB coefC eqxx resultant_constl resultant_constr dg_polyC muln0 expr0 mul1r.
  by [].
have dB_gt0 : (0 < dg B)%N.
  by rewrite -subn1 subn_gt0 ltn_neqAle eq_sym szB lt0n size_poly_eq0.
have := divp_eq A B; set Q := A %/ B; set R := A %% B => defA.
have ltRB : (size R < size B)%N by rewrite ltn_modp.
case: (ltnP (size A) (size B)) => [ltAB | leBA].
  (* swap step: R = A *)
  have defR : R = A by rewrite /R modp_small.
  rewrite defR (negPf nzA) subnn expr0 mulr1.
  have [|E1 E2] := IHn B A nzB nzA; first by rewrite /emu; move: le_n ltAB; lia.
  split; first by rewrite -E2 mulnC.
  by rewrite mulrA signr_sq mul1r E1.
have szQ : ((dg B + size Q).-1 <= dg A)%N.
  by rewrite size_divp //; move: leBA; rewrite (polySpred nzB) (polySpred nzA) /=; lia.
have leRA : (dg R <= dg A)%N by move: ltRB leBA; lia.
case: (eqVneq R 0) => [R0 | nzR].
  (* B divides A and B is not constant: both resultants vanish *)
  rewrite mulr0; split.
    rewrite (resultant_redr defA szQ leRA) R0 resultant_0r expr0n.
    by rewrite (gtn_eqF dB_gt0) mulr0.
  rewrite (resultant_redl defA szQ leRA) R0 resultant_0l expr0n.
  by rewrite (gtn_eqF dB_gt0) mulr0.
have [|E1 E2] := IHn B R nzB nzR.
  by rewrite /emu; move: le_n ltRB; move: (size R) (size B) (size A) => a b c; lia.
split.
  rewrite (resultant_redr defA szQ leRA) -E2 E1 exprMn -exprM mulrACA -exprD -mulnDr subnK //.
  by rewrite (mulnC (dg B)) mulrA.
by rewrite !mulrA signr_sq mul1r (resultant_redl defA szQ leRA) E1.
Qed.

End Euclid.

Section Corollaries.
Variable F : fieldType.
Implicit Types A B : {poly F}.

(** Symmetry of MathComp's resultant over a field. *)
Lemma resultant_swap A B : A != 0 -> B != 0 ->
  resultant A B = (-1) ^+ (dg A * dg B) * resultant B A.
Proof.
move=> nzA nzB; have [|<- <-] := @res_euclid_correct F (emu A B).+1 A B nzA nzB; last by [].
exact: ltnSn.
Qed.

(** The Euclid recurrence (DESIGN C04 [res_recurrence]), in MathComp's argument order:
    the classical Res(A, B) is [resultant B A]. *)
Lemma res_recurrence A B : A != 0 -> B != 0 -> A %% B != 0 ->
  resultant B A =
  (-1) ^+ (dg A * dg B) * lead_coef B ^+ (dg A - dg (A %% B)) * resultant (A %% B) B.
Proof.
move=> nzA nzB nzR.
have szB : size B != 1%N.
  apply: contraNneq nzR => /eqP/size_poly1P[c nzc ->].
  by rewrite modpC.
have ltRB : (size (A %% B)%R < size B)%N by rewrite ltn_modp.
have [|<- _] := @res_euclid_correct F (emu A B).+1 A B nzA nzB; first exact: ltnSn.
have [|<- _] := @res_euclid_correct F (emu A B) B (A %% B) nzB nzR.
  by rewrite /emu; move: ltRB; move: (size (A %% B)) (size B) (size A) => a b c; lia.
by rewrite /= (negPf nzA) (negPf nzB) (negPf szB) (negPf nzR).
Qed.

End Corollaries.

Section Scale.
Variable R : idomainType.
Implicit Types p q : {poly R}.

Lemma bandZ k N (c : R) p : band k N (c *: p) = c *: band k N p.
Proof.
apply/row_matrixP=> i; rewrite !rowE -scalemxAr !mul_rV_band.
by rewrite -scalerAr linearZ.
Qed.

(** Scaling law (multilinearity of the determinant). *)
Lemma resultant_scale (s t : R) p q : s != 0 -> t != 0 ->
  resultant (s *: p) (t *: q) = s ^+ dg q * t ^+ dg p * resultant p q.
Proof.
move=> nzs nzt; rewrite /resultant !Sylvester_Syl !size_scale // /Syl !bandZ.
set m := dg q; set n := dg p.
have ->: col_mx (s *: band m (m + n) p) (t *: band n (m + n) q)
      = block_mx s%:M 0 0 t%:M *m col_mx (band m (m + n) p) (band n (m + n) q).
  by rewrite mul_block_col !mul_scalar_mx !mul0mx addr0 add0r.
by rewrite det_mulmx det_ublock !det_scalar.
Qed.

End Scale.

Section Convention.
Variable R : comRingType.
(** Witness of the argument-order convention of MathComp's Sylvester matrix:
    [resultant ('X - a) ('X - b) = b - a], whereas the classical Res(X - a, X - b) = a - b. *)
Lemma resultant_linear_convention (a b : R) : resultant ('X - a%:P) ('X - b%:P) = b - a.
Proof.
have def_q : 'X - b%:P = 1 * ('X - a%:P) + (a - b)%:P by rewrite mul1r polyCB addrA subrK.
rewrite (@resultant_redr _ _ _ 1 (a - b)%:P def_q) ?size_XsubC ?size_poly1 ?dg_polyC //.
by rewrite resultant_constr lead_coefXsubC size_XsubC /= !expr1 mulr1 mulN1r opprB.
Qed.
End Convention.
