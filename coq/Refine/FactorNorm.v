(** * C08 [normalised]: every pair returned by [factorize_mod_p] is (monic reduced g of degree
    >= 1, multiplicity >= 1) (ssreflect). Structural invariants of squarefree / degree /
    final_split: all intermediate polynomials are reduced and non-zero. *)
From Coq Require Import ZArith List Lia Znumtheory.
From mathcomp Require Import all_ssreflect ssralg poly.
From RNT.Model Require Import Base Poly PolyModP FactorModP.
From RNT.Refine Require Import PolyModPArith PolyModPDivList FermatZ PolyZmod PolyModPDiv MonicZ PolyModPGcd FpPoly.
From mathcomp Require Import ssrZ zify ring.
Set Implicit Arguments. Unset Strict Implicit. Unset Printing Implicit Defensive.
Import GRing.Theory.
Local Open Scope ring_scope.

(** reduced and non-zero *)
Definition rnz (p : Z) (x : list Z) : Prop := reduced p x /\ x <> [::].

Lemma reduced_eq0 p x : (0 < p)%ZZ -> reduced p x -> eqpm p (PZ x) 0 -> x = [::].
Proof.
  move=> Hp [C R] E0. case: x C R E0 => [|c l] // C R E0. exfalso.
  have Hn : (c :: l) <> [::] by [].
  have := canonical_last _ C Hn. have B := last_in_range_aux p _ Hn R.
  have := eqpm_coef E0 (length (c :: l) - 1)%coq_nat.
  rewrite coefPZ -last_nth_len coef0 Z.mod_0_l; last lia.
  rewrite Z.mod_small //.
Qed.

Section Prime.
Variable p : Z.
Hypothesis Hp : Znumtheory.prime p.
Let Hp2 := prime_ge_2 _ Hp.

Lemma Hpp : (0 < p)%ZZ. Proof. lia. Qed.
Lemma Hp0 : p <> Z0. Proof. lia. Qed.

(** gcd of two polynomials, not both zero, is non-zero. *)
Lemma poly_gcd_rec_nz fuel : forall a b g,
  reduced p a -> reduced p b -> a <> [::] \/ b <> [::] ->
  poly_gcd_rec fuel a b p = Done g -> g <> [::].
Proof.
  elim: fuel => [|f IH] a b g Ra Rb Hn //=.
  case Ed: (poly_divrem a b p) => [[quo rem]| |] //=.
  have [D1 [_ [D3 D4]]] := divrem_good Hp (reduced_good Hpp Ra) (reduced_good Hpp Rb) Ed.
  have Rrem : reduced p rem.
  { case: (b =P [::]) => [Eb|Nb]; first by rewrite (D4 Eb).
    have Dp := poly_divrem_spec Hp Nb (reduced_good Hpp Rb Nb) Ed.
    case: Dp => _ [_ [_ [_ [D2 D5]]]].
    case: (Nat.lt_ge_cases (length a) (length b)) => Hl.
    + by case: (D5 Hl) => _ ->.
    + by case: (D2 (or_introl Hl)) => _. }
  case: rem Ed D1 D3 D4 Rrem => [|r0 rem] Ed D1 D3 D4 Rrem.
  - case=> <-. move=> Eb. case: Hn => // Ha. apply: Ha. by rewrite -(D4 Eb).
  - apply: IH => //. by right.
Qed.

Lemma gcd_rnz a b g :
  reduced p a -> rnz p b -> poly_gcd a b p = Done g ->
  rnz p g /\ (exists s, eqpm p (PZ a) (PZ g * s)) /\ (exists t, eqpm p (PZ b) (PZ g * t)).
Proof.
  move=> Ra [Rb Nb] H. have [Rg [Hs Ht]] := poly_gcd_dvd Hp Ra Rb H.
  split=> //. split=> //. apply: (poly_gcd_rec_nz Ra Rb _ H). by right.
Qed.

Lemma gcd_rnz_l a b g :
  rnz p a -> reduced p b -> poly_gcd a b p = Done g ->
  rnz p g /\ (exists s, eqpm p (PZ a) (PZ g * s)) /\ (exists t, eqpm p (PZ b) (PZ g * t)).
Proof.
  move=> [Ra Na] Rb H. have [Rg [Hs Ht]] := poly_gcd_dvd Hp Ra Rb H.
  split=> //. split=> //. apply: (poly_gcd_rec_nz Ra Rb _ H). by left.
Qed.

(** exact quotient by a divisor *)
Lemma quot_rnz a g (t : {poly Z}) q r :
  rnz p a -> rnz p g -> eqpm p (PZ a) (PZ g * t) ->
  poly_divrem a g p = Done (q, r) ->
  rnz p q /\ eqpm p (PZ a) (PZ q * PZ g).
Proof.
  move=> [Ra Na] [Rg Ng] Ht Ed.
  have Hl : (length g <= length a)%coq_nat \/ a = [::].
  { case: (Nat.lt_ge_cases (length a) (length g)) => Hlt; last by left.
    right.
    have S1 : (size (PZ a) < length g)%nat by rewrite (canonical_size (proj1 Ra)); lia.
    have Z1 := small_multiple_zero Hp Ng (proj1 Rg) (reduced_good Hpp Rg Ng) (eqpm_sym Ht) S1.
    apply: (reduced_eq0 Hpp Ra).
    apply: eqpm_trans Ht _. have -> : (0 : {poly Z}) = PZ g * 0 by rewrite mulr0. exact: eqpm_mull. }
  have [_ [Eq Rq]] := divrem_exact Hp Rg Ng Ht Hl Ed.
  split=> //. split=> // Eq0. apply: Na. apply: (reduced_eq0 Hpp Ra).
  apply: eqpm_trans Eq _. rewrite Eq0 /PZ /= mul0r. exact: eqpm_refl.
Qed.

(** quotient is reduced whatever the operands *)
Lemma quot_reduced a b q r : poly_divrem a b p = Done (q, r) -> reduced p q.
Proof.
  rewrite /poly_divrem. case: a => [|a0 a']; first by case=> <- _; exact: reduced_nil.
  case: b => [|b0 b']; first by case=> <- _; exact: reduced_nil.
  case: (Nat.ltb _ _); first by case=> <- _; exact: reduced_nil.
  case: (assert_ _) => [_| |] //=. case: (modinv _ p) => [iv| |] //=.
  have -> : (p =? 0)%ZZ = false by apply/Z.eqb_neq; exact: Hp0.
  case E: (divrem_loop _ _ _ _ _ _ _) => [q0 r0]. case=> <- _.
  split; first exact: from_raw_canonical. apply: strip_Forall.
  exact: (divrem_loop_quo_range _ _ _ _ _ _ _ _ _ Hpp (List.Forall_nil _) E).
Qed.


(** ** squarefree *)

Definition mult_ok (md : mode) (e : Z) : Prop := md = Checked -> (1 <= e)%ZZ.

Definition sqgood (md : mode) (ge : list Z * Z) : Prop :=
  rnz p (fst ge) /\ (2 <= length (fst ge))%coq_nat /\ mult_ok md (snd ge).

Lemma u64_norm_checked x y : u64_norm Checked x = Done y -> y = x /\ (0 <= x)%ZZ.
Proof.
  rewrite /u64_norm. case: (Z.leb_spec 0 x) => H0 //=. case: (Z.ltb_spec x two64) => H1 //=.
  by case=> <-.
Qed.

Lemma mult_ok_mul md e k y : mult_ok md e -> (1 <= k)%ZZ -> u64_norm md (Z.mul e k) = Done y -> mult_ok md y.
Proof.
  move=> He Hk H Hmd. rewrite Hmd in H. have [-> _] := u64_norm_checked H.
  have := He Hmd. nia.
Qed.

Lemma pdeg_len2 (g : list Z) : g <> [::] -> (pdeg g =? 0)%ZZ = false -> (2 <= length g)%coq_nat.
Proof.
  case: g => [|c [|c1 g]] // _. rewrite /pdeg [length _]/=. lia.
Qed.

Lemma pdeg_nil_nz : (pdeg (@nil Z) =? 0)%ZZ = false.
Proof. by []. Qed.

(** the inner loop never returns when t = v = 0 *)
Lemma sqf_inner_nil md pusize : forall fuel e k result ex,
  sqf_inner fuel md p pusize e [::] [::] k result = Done ex -> False.
Proof.
  elim=> [|f IH] e k result ex //=.
  case: (u64_norm md _) => [ek| |] //=. exact: IH.
Qed.

Lemma pth_root_raw_range t pusize : in_range p t -> forall cnt i, in_range p (pth_root_raw cnt i pusize t).
Proof.
  move=> Rt. elim=> [|c IH] i /=; first by constructor.
  constructor; last exact: IH.
  rewrite /coef_at. case: (Nat.lt_ge_cases (Z.to_nat (pusize * i)) (length t)) => Hi.
  - exact: (proj1 (List.Forall_nth _ _) Rt _ Z0 Hi).
  - rewrite List.nth_overflow; last exact: Hi. have := Hpp. rewrite /=. lia.
Qed.

Lemma sqf_inner_good md pusize : forall fuel e t v k result ex,
  (0 <= pusize)%ZZ -> rnz p t -> rnz p v -> mult_ok md e -> (0 <= k)%ZZ ->
  List.Forall (sqgood md) result ->
  sqf_inner fuel md p pusize e t v k result = Done ex ->
  match ex with
  | SqBreak res' => List.Forall (sqgood md) res'
  | SqContinue t0' e' res' => List.Forall (sqgood md) res' /\ reduced p t0' /\ mult_ok md e'
  end.
Proof.
  move=> fuel e t v k result ex Hpu. elim: fuel e t v k result ex => [|f IH] e t v k result ex Rt Rv He Hk Fr //=.
  case: (Z.eqb_spec (pdeg v) 0) => Hv.
  - case: (Z.eqb_spec (pdeg t) 0) => Ht; first by case=> <-.
    case: (Z.eqb_spec pusize 0) => Hpu0 //.
    case: t Rt Ht => [|t0 t'] Rt Ht; first by case: Rt.
    case Ee: (u64_norm md _) => [e'| |] //=. case=> <-.
    split=> //. split.
    + split; first exact: from_raw_canonical. apply: strip_Forall. apply: pth_root_raw_range. by case: Rt => [[]].
    + apply: (mult_ok_mul He _ Ee). lia.
  - case Ew: (poly_gcd t v p) => [w| |] //=.
    have [Rw [[s Hs] [tt Htt]]] := gcd_rnz (proj1 Rt) Rv Ew.
    case Ea: (poly_divrem v w p) => [[aek rem1]| |] //=.
    case Et: (poly_divrem t w p) => [[t' rem2]| |] //=.
    have [Raek _] := quot_rnz Rv Rw Htt Ea.
    have [Rt' _] := quot_rnz Rt Rw Hs Et.
    case: (Z.eqb_spec (pdeg aek) 0) => Hae /=.
    + apply: IH => //. lia.
    + case Ek: (u64_norm md _) => [ek| |] //=. apply: IH => //; first lia.
      apply/List.Forall_app; split=> //. constructor; last by constructor.
      split=> //. split; first by apply: pdeg_len2; [case: Raek|apply/Z.eqb_neq].
      apply: (mult_ok_mul He _ Ek). lia.
Qed.

Lemma sqf_outer_nil md pusize : forall fuel e result out,
  sqf_outer fuel md p pusize e [::] result = Done out -> False.
Proof.
  case=> [|f] e result out //=.
  by do 4 (case: (u64_norm md _) => [?| |] //=).
Qed.

Lemma differential_reduced f r : differential f p = Done r -> reduced p r.
Proof.
  rewrite /differential. case: f => [|c f]; first by case=> <-; exact: reduced_nil.
  exact: (poly_mod_is_reduced Hpp).
Qed.

Lemma sqf_outer_good md pusize : forall fuel e t0 result out,
  (0 <= pusize)%ZZ -> reduced p t0 -> mult_ok md e -> List.Forall (sqgood md) result ->
  sqf_outer fuel md p pusize e t0 result = Done out -> List.Forall (sqgood md) out.
Proof.
  move=> fuel e t0 result out Hpu. elim: fuel e t0 result out => [|f IH] e t0 result out R0 He Fr //.
  case: (t0 =P [::]) => [->|N0]; first by move/sqf_outer_nil.
  rewrite [sqf_outer _ _ _ _ _ _ _]/=.
  case: (Z.eqb_spec (pdeg t0) 0) => H0; first by case=> <-.
  case Ed: (differential t0 p) => [der| |] //=.
  case Et: (poly_gcd t0 der p) => [t| |] //=.
  have [Rt [[s Hs] _]] := gcd_rnz_l (conj R0 N0) (differential_reduced Ed) Et.
  case Ev: (poly_divrem t0 t p) => [[v rem]| |] //=.
  have [Rv _] := quot_rnz (conj R0 N0) Rt Hs Ev.
  match goal with |- context [sqf_inner ?a ?b ?c ?d ?e0 ?f0 ?g ?h ?i] =>
    destruct (sqf_inner a b c d e0 f0 g h i) as [ex| |] eqn:Ei end => //=.
  have := sqf_inner_good Hpu Rt Rv He (Z.le_refl 0) Fr Ei.
  case: ex {Ei} => [res'|t0' e' res']; first by move=> F; case=> <-.
  move=> [F [R' He']]. exact: IH.
Qed.

Lemma squarefree_good md poly pusize out :
  (0 <= pusize)%ZZ -> squarefree md poly p pusize = Done out -> List.Forall (sqgood md) out.
Proof.
  move=> Hpu. rewrite /squarefree. case: poly => [|c l] //.
  move: (length (c :: l) + 2)%coq_nat => fuel.
  case Em: (poly_mod _ p) => [t0| |] //=.
  move=> H. have He : mult_ok md 1%ZZ by move=> _.
  have Fn : List.Forall (sqgood md) [::] by constructor.
  exact: (sqf_outer_good Hpu (poly_mod_is_reduced Hpp Em) He Fn H).
Qed.


(** ** degree *)

Definition dgood (ge : list Z * Z) : Prop := rnz p (fst ge) /\ (1 <= snd ge)%ZZ.

Lemma poly_mod_sub_reduced a b r : poly_mod_sub a b p = Done r -> reduced p r.
Proof. exact: (poly_mod_is_reduced Hpp). Qed.

Lemma degree_loop_good : forall fuel x v w d result v' out,
  rnz p v -> (0 <= d)%ZZ -> List.Forall dgood result ->
  degree_loop fuel p x v w d result = Done (v', out) ->
  rnz p v' /\ List.Forall dgood out.
Proof.
  elim=> [|f IH] x v w d result v' out Rv Hd Fr //=.
  case: (Z.leb_spec (2 * d + 2) (pdeg v)) => _; last by case=> <- <-.
  case Ew: (poly_modpow w p v p) => [w1| |] //=.
  case Ex: (poly_mod_sub w1 x p) => [wx| |] //=.
  case Ea: (poly_gcd wx v p) => [ad| |] //=.
  have [Rad [_ [t Ht]]] := gcd_rnz (poly_mod_sub_reduced Ex) Rv Ea.
  case: (Z.ltb_spec 0 (pdeg ad)) => _.
  - case Ev: (poly_divrem v ad p) => [[vq rem]| |] //=.
    have [Rvq _] := quot_rnz Rv Rad Ht Ev.
    case Ew2: (poly_divrem w1 vq p) => [[q2 w2]| |] //=.
    apply: IH => //; first lia.
    apply/List.Forall_app; split=> //. constructor; last by constructor. split=> //=. lia.
  - apply: IH => //. lia.
Qed.

Lemma degree_good poly out : rnz p poly -> degree poly p = Done out -> List.Forall dgood out.
Proof.
  move=> Rp. rewrite /degree.
  move: (length poly + 1)%coq_nat => fuel.
  case E: (degree_loop fuel p poly_x poly poly_x 0 [::]) => [[v res]| |] //=.
  have [Rv Fr] := degree_loop_good Rp (Z.le_refl 0) (List.Forall_nil _) E.
  case: (Z.ltb_spec 0 (pdeg v)) => Hv; case=> <- //.
  apply/List.Forall_app; split=> //. constructor; last by constructor. split=> //=. lia.
Qed.

(** ** final_split *)

Opaque split_retries.
Lemma final_split_odd_good : forall fuel poly d result r out r',
  rnz p poly -> List.Forall (rnz p) result ->
  final_split_odd fuel poly p d result r = Done (out, r') -> List.Forall (rnz p) out.
Proof.
  elim=> [|f IH] poly d result r out r' Rp Fr //=.
  case: (deg_div poly d) => [k| |] //=.
  case: (k =? 0)%ZZ => //. case: (k =? 1)%ZZ.
  - case=> <- _. apply/List.Forall_app; split=> //. by constructor.
  - move: split_retries r => n. elim: n => [|n IHn] r0 //=.
    case: (draw_coeffs _ p r0) => [[raw r1]| |] //=.
    case: (poly_modpow _ _ poly p) => [tpow| |] //=.
    case Es: (poly_mod_sub tpow _ p) => [tpow1| |] //=.
    case Eb: (poly_gcd tpow1 poly p) => [b| |] //=.
    have [Rb [_ [t Ht]]] := gcd_rnz (poly_mod_sub_reduced Es) Rp Eb.
    case: b Eb Rb Ht => [|b0 b'] Eb Rb Ht; first exact: IHn.
    case: ((pdeg (b0 :: b') =? 0)%ZZ || (pdeg (b0 :: b') =? pdeg poly)%ZZ); first exact: IHn.
    case E1: (final_split_odd f (b0 :: b') p d result r1) => [[res1 r2]| |] //=.
    have F1 := IH _ _ _ _ _ _ Rb Fr E1.
    case Ed: (poly_divrem poly (b0 :: b') p) => [[dv rem]| |] //=.
    have [Rdv _] := quot_rnz Rp Rb Ht Ed.
    exact: IH.
Qed.
Transparent split_retries.

End Prime.

(** the trace-like map of [final_split_2] (modulus 2) *)
Lemma nth_mul_x2 (t : list Z) i :
  List.nth i (pmul opsZ t [:: Z0; Z0; 1%ZZ]) Z0 = if (i < 2)%nat then Z0 else List.nth (i - 2)%nat t Z0.
Proof.
  rewrite -!coefPZ PZ_pmul.
  have -> : PZ [:: Z0; Z0; 1%ZZ] = 'X^2.
  { rewrite /PZ /= !cons_poly_def. rewrite mul0r add0r polyC0 addr0 polyC1 mul1r addr0 expr2. by []. }
  by rewrite coefMXn coefPZ.
Qed.

Lemma pmul_canonical a b : canonical (pmul opsZ a b).
Proof.
  rewrite /pmul. case: a => [|x a] //. case: b => [|y b] //. exact: from_raw_canonical.
Qed.

Lemma mul_x2_reduced t : reduced 2 t -> reduced 2 (pmul opsZ t (from_raw opsZ [:: Z0; Z0; 1%ZZ])).
Proof.
  move=> [Ct Rt]. split; first exact: pmul_canonical.
  apply: Forall_nth_range => k _.
  have -> : from_raw opsZ [:: Z0; Z0; 1%ZZ] = [:: Z0; Z0; 1%ZZ] by [].
  rewrite nth_mul_x2. case: (k < 2)%nat; first lia.
  case: (Nat.lt_ge_cases (k - 2)%nat (length t)) => Hi.
  - exact: (proj1 (List.Forall_nth _ _) Rt _ Z0 Hi).
  - rewrite List.nth_overflow; lia.
Qed.

Lemma trace_loop_reduced : forall n c t poly out,
  reduced 2 c -> reduced 2 poly -> trace_loop n c t poly = Done out -> reduced 2 out.
Proof.
  have P2 := prime_2. have H2 : (0 < 2)%ZZ by [].
  elim=> [|n IH] c t poly out Rc Rp /=; first by case=> <-.
  case E1: (poly_mod _ 2) => [c1| |] //=.
  case E2: (poly_divrem c1 poly 2) => [[q c2]| |] //=.
  apply: IH => //.
  have R1 := poly_mod_is_reduced H2 E1.
  case: (poly =P [::]) => [Eg|Ng].
  - have [_ [_ [_ D4]]] := divrem_good P2 (reduced_good H2 R1) (reduced_good H2 Rp) E2.
    by rewrite (D4 Eg).
  - have Dp := poly_divrem_spec P2 Ng (reduced_good H2 Rp Ng) E2.
    case: Dp => _ [_ [_ [_ [D2 D5]]]].
    case: (Nat.lt_ge_cases (length c1) (length poly)) => Hl.
    + by case: (D5 Hl) => _ ->.
    + by case: (D2 (or_introl Hl)) => _.
Qed.

Lemma final_split_2_good : forall fuel poly d result out,
  rnz 2 poly -> List.Forall (rnz 2) result ->
  final_split_2 fuel poly d result = Done out -> List.Forall (rnz 2) out.
Proof.
  have P2 := prime_2.
  elim=> [|f IH] poly d result out Rp Fr //=.
  case: (deg_div poly d) => [k| |] //=.
  case: (k =? 0)%ZZ => //. case: (k =? 1)%ZZ.
  - case=> <-. apply/List.Forall_app; split=> //. by constructor.
  - have Rx : reduced 2 poly_x.
    { rewrite /poly_x /=. split; first by []. by repeat constructor. }
    move: (length poly + 2)%coq_nat poly_x Rx => n. elim: n => [|n IHn] t Rt //=.
    case Ec: (trace_loop _ t t poly) => [c| |] //=.
    have Rc := trace_loop_reduced Rt (proj1 Rp) Ec.
    case Eb: (poly_gcd poly c 2) => [b| |] //=.
    have [Rb [[s Hs] _]] := gcd_rnz_l P2 Rp Rc Eb.
    case: ((pdeg b =? 0)%ZZ || (pdeg b =? pdeg poly)%ZZ).
    + apply: IHn. exact: mul_x2_reduced.
    + case E1: (final_split_2 f b d result) => [res1| |] //=.
      have F1 := IH _ _ _ _ Rb Fr E1.
      case Ed: (poly_divrem poly b 2) => [[dv rem]| |] //=.
      have [Rdv _] := quot_rnz P2 Rp Rb Hs Ed.
      exact: IH.
Qed.

(** ** normalisation and the top level *)

Section Top.
Variable p : Z.
Hypothesis Hp : Znumtheory.prime p.
Let Hp2 := prime_ge_2 _ Hp.

Definition ngood (md : mode) (ge : list Z * Z) : Prop :=
  lmonic (fst ge) /\ reduced p (fst ge) /\ (2 <= length (fst ge))%coq_nat /\ mult_ok md (snd ge).

Lemma final_split_good poly d r out r' :
  rnz p poly -> final_split poly p d r = Done (out, r') -> List.Forall (rnz p) out.
Proof.
  move=> Rp. rewrite /final_split. case Eo: (Z.odd p).
  - exact: (final_split_odd_good Hp Rp (List.Forall_nil _)).
  - have E2 : p = 2%ZZ.
    { have Hev : Z.even p = true by rewrite -Z.negb_odd Eo.
      move/Z.even_spec: Hev => [k Hk].
      have D : (2 | p)%ZZ by exists k; lia.
      case: (prime_divisors _ Hp _ D); lia. }
    case Ef: (final_split_2 _ poly d [::]) => [res| |] //=. case=> <- _.
    rewrite E2 in Rp. rewrite E2. exact: (final_split_2_good Rp (List.Forall_nil _) Ef).
Qed.

Lemma normalise_good md : forall spl d e result out,
  List.Forall (rnz p) spl -> (1 <= d)%ZZ -> mult_ok md e -> List.Forall (ngood md) result ->
  normalise_factors spl p d e result = Done out -> List.Forall (ngood md) out.
Proof.
  have Hpp : (0 < p)%ZZ by lia. have Hp0 : p <> Z0 by lia. have Hp1 : (1 < p)%ZZ by lia.
  elim=> [|factor rest IH] d e result out Fs Hd He Fr /=; first by case=> <-.
  have [Rf Nf] : rnz p factor by move: Fs => /List.Forall_cons_iff [].
  have Frest : List.Forall (rnz p) rest by move: Fs => /List.Forall_cons_iff [].
  case: (Z.eqb_spec (pdeg factor) d) => Hdeg //=.
  case Ei: (modinv _ p) => [inv| |] //=.
  case Em: (poly_mod _ p) => [factor'| |] //=.
  apply: IH => //. apply/List.Forall_app; split=> //. constructor; last by constructor.
  have Ld : Z.to_nat d = (length factor - 1)%coq_nat.
  { move: Hdeg. rewrite /pdeg. case: (factor) Nf => [|c l] // _. lia. }
  have Elast : coef_at opsZ factor (Z.to_nat d) = List.last factor Z0 by rewrite /coef_at Ld -last_nth_len.
  have Glc : ~ (p | List.last factor Z0)%ZZ := reduced_good Hpp Rf Nf.
  rewrite Elast in Ei. have Hinv := modinv_spec Hp Glc Ei.
  have Nth : forall i, List.nth i (pmul opsZ factor (from_mono opsZ inv)) Z0 = (List.nth i factor Z0 * inv)%ZZ.
  { move=> i. by rewrite -!coefPZ PZ_pmul PZ_from_mono coefMC. }
  have [L M] : length factor' = (length factor - 1).+1 /\ lmonic factor'.
  { apply: (poly_mod_monic_top Hp1 Em).
    - rewrite Nth -last_nth_len Z.mul_comm. exact: Hinv.
    - move=> k Hk. rewrite Nth List.nth_overflow; last lia. by rewrite Z.mul_0_l Zmod_0_l. }
  split=> //=. split; first exact: (poly_mod_is_reduced Hpp Em).
  split=> //. lia.
Qed.

Lemma split_degrees_good md : forall degrees e result r out r',
  List.Forall (dgood p) degrees -> mult_ok md e -> List.Forall (ngood md) result ->
  split_degrees degrees p e result r = Done (out, r') -> List.Forall (ngood md) out.
Proof.
  elim=> [|[prod d] rest IH] e result r out r' Fd He Fr /=; first by case=> <- _.
  have [[Rp /= Hd] Frest] : dgood p (prod, d) /\ List.Forall (dgood p) rest by move: Fd => /List.Forall_cons_iff.
  case: (pdeg prod =? 0)%ZZ; first exact: IH.
  case Ef: (final_split prod p d r) => [[spl r1]| |] //=.
  have Fs := final_split_good Rp Ef.
  case En: (normalise_factors spl p d e result) => [result'| |] //=.
  apply: IH => //. exact: (normalise_good Fs Hd He Fr En).
Qed.

Lemma split_sqfree_good md : forall sq result r out r',
  List.Forall (sqgood p md) sq -> List.Forall (ngood md) result ->
  split_sqfree sq p result r = Done (out, r') -> List.Forall (ngood md) out.
Proof.
  elim=> [|[s e] rest IH] result r out r' Fs Fr /=; first by case=> <- _.
  have [[Rs [_ /= He]] Frest] : sqgood p md (s, e) /\ List.Forall (sqgood p md) rest by move: Fs => /List.Forall_cons_iff.
  case Ed: (degree s p) => [degrees| |] //=.
  have Fd := degree_good Hp Rs Ed.
  case Es: (split_degrees degrees p e result r) => [[result' r1]| |] //=.
  apply: IH => //. exact: (split_degrees_good Fd He Fr Es).
Qed.

(** [P] [normalised]: every returned pair is (monic, canonical, coefficients in [0,p), degree >= 1)
    and, in the dev profile, has multiplicity >= 1 (in release a wrapped [e *= pusize] could give 0
    for absurd pusize; no claim there). *)
Theorem factorize_normalised md poly pusize r out r' :
  (0 <= pusize)%ZZ ->
  factorize_mod_p md poly p pusize r = Done (out, r') -> List.Forall (ngood md) out.
Proof.
  move=> Hpu. rewrite /factorize_mod_p.
  case Em: (poly_mod poly p) => [poly1| |] //=.
  case Es: (squarefree md poly1 p pusize) => [sq| |] //=.
  have Fs := squarefree_good Hp Hpu Es.
  exact: (split_sqfree_good Fs (List.Forall_nil _)).
Qed.

End Top.
