(** * LinAlgImgTotal: subspace::image_mod_p returns (no index/division panic, its assert_eq holds) on every
    rectangular matrix with at least one row, for every non-zero modulus. Style: stdlib + lia. *)
From RNT.Model Require Import Base Poly LinAlg.
From RNT.Refine Require Import LinAlgList LinAlgTotal LinAlgImg.
From Coq Require Import Lia List Arith ZArith.
Import ListNotations.
Open Scope Z_scope.

Lemma zrem_nz a p : p <> 0 -> zrem a p = Done (Z.rem a p).
Proof. intros H. unfold zrem. destruct (Z.eqb_spec p 0); [contradiction|reflexivity]. Qed.

Lemma modpow_pos_total p : p <> 0 -> forall e pr cu, exists r, modpow_pos e pr cu p = Done r.
Proof.
  intros Hp. induction e as [e IH|e IH|]; intros pr cu; cbn [modpow_pos]; rewrite ?zrem_nz by auto; cbn [bind]; eauto.
Qed.

Lemma modinv_total x p : p <> 0 -> exists r, modinv x p = Done r.
Proof.
  intros Hp. unfold modinv, modpow. destruct (p - 2); eauto. now apply modpow_pos_total.
Qed.

Lemma img_find_total : forall cnt j rk c,
  (cnt <= length rk)%nat -> (cnt <= length c)%nat -> exists o, img_find cnt j rk c = Done o.
Proof.
  induction cnt as [|cn IH]; intros j rk c H1 H2; cbn [img_find]; eauto.
  destruct rk as [|x rk]; [cbn in H1; lia|]. destruct c as [|cj c]; [cbn in H2; lia|].
  destruct (negb (x =? 0) && Nat.eqb cj 0); eauto. apply IH; cbn in *; lia.
Qed.

Definition count_nz (c : list nat) : nat := length (filter (fun v => negb (Nat.eqb v 0)) c).

Lemma count_nz_upd c j x : (j < length c)%nat -> nth j c O = O -> x <> O ->
  count_nz (upd c j x) = S (count_nz c).
Proof.
  unfold count_nz. revert j; induction c as [|y t IH]; intros [|j] Hj Hn Hx; cbn in *; try lia.
  - subst y. cbn. destruct (Nat.eqb_spec x 0); [contradiction|]. reflexivity.
  - destruct (negb (Nat.eqb y 0)); cbn [length]; rewrite IH; auto; lia.
Qed.

Lemma Forall_upd {A} (P : A -> Prop) l i x : Forall P l -> P x -> Forall P (upd l i x).
Proof.
  intros H Hx. revert i. induction H as [|y t Hy Ht IH]; intros [|i]; cbn; try constructor; auto.
Qed.

Lemma img_cols_total j k m p : p <> 0 -> (j < m)%nat -> forall cnt i mat,
  (i + cnt <= m)%nat -> rows_len m mat -> (k < length mat)%nat ->
  exists mat', img_cols cnt i j k p mat = Done mat' /\ rows_len m mat' /\ length mat' = length mat.
Proof.
  intros Hp Hj. induction cnt as [|c IH]; intros i mat Hi Hm Hk; cbn [img_cols]; eauto.
  destruct (Nat.eqb i j); [apply IH; auto; lia|].
  rewrite (nth_chk_lt mat k []) by lia. cbn [bind].
  assert (Lk : length (nth k mat []) = m) by (apply rows_len_nth; auto).
  rewrite (nth_chk_lt (nth k mat []) i 0) by lia. cbn [bind].
  set (mat1 := upd mat k (upd (nth k mat []) i 0)).
  assert (H1 : rows_len m mat1) by (apply rows_len_upd; auto; now rewrite upd_length).
  assert (L1 : length mat1 = length mat) by (unfold mat1; now rewrite upd_length).
  destruct (mapM_rows (img_row_i i j (nth i (nth k mat []) 0) p) m (skipn (S k) mat1)) as (rest & -> & Hrest & Lrest).
  { intros r Lr. unfold img_row_i. rewrite (nth_chk_lt r j 0), (nth_chk_lt r i 0) by lia. cbn [bind].
    rewrite zrem_nz by auto. cbn [bind]. eexists. split; [reflexivity|]. now rewrite upd_length. }
  { now apply rows_len_skipn. }
  cbn [bind]. rewrite skipn_length in Lrest.
  destruct (IH (S i) (firstn (S k) mat1 ++ rest)) as (mat' & E & H' & L'); try lia.
  { apply rows_len_app; auto. now apply rows_len_firstn. }
  { rewrite app_length, firstn_length. lia. }
  exists mat'. repeat split; auto. rewrite L', app_length, firstn_length. lia.
Qed.

Lemma img_loop_total m p : p <> 0 -> forall cnt k mat c r,
  rows_len m mat -> (cnt + k = length mat)%nat -> length c = m ->
  Forall (fun ci => (ci <= k)%nat) c -> (count_nz c + r = k)%nat ->
  exists c' r', img_loop cnt k m p mat c r = Done (c', r') /\
                Forall (fun ci => (ci <= length mat)%nat) c' /\ (count_nz c' + r' = length mat)%nat.
Proof.
  intros Hp. induction cnt as [|cn IH]; intros k mat c r Hm Hn Lc Hle Hcnt; cbn [img_loop].
  { exists c, r. repeat split; auto; try lia. eapply Forall_impl; [|exact Hle]. cbn. intros; lia. }
  rewrite (nth_chk_lt mat k []) by lia. cbn [bind].
  assert (Lk : length (nth k mat []) = m) by (apply rows_len_nth; auto; lia).
  destruct (img_find_total m 0 (nth k mat []) c) as [o Eo]; try lia.
  rewrite Eo. cbn [bind]. pose proof (img_find_inv _ _ _ _ _ Eo) as Ho. destruct o as [j|].
  2:{ apply IH; auto; try lia. eapply Forall_impl; [|exact Hle]. cbn. intros; lia. }
  destruct Ho as (B & L1 & L2 & NZ & CZ & _). rewrite Nat.sub_0_r in *.
  rewrite (nth_chk_lt (nth k mat []) j 0) by lia. cbn [bind].
  destruct (modinv_total (nth j (nth k mat []) 0) p Hp) as [iv ->]. cbn [bind].
  set (mat1 := upd mat k (upd (nth k mat []) j (p - 1))).
  assert (H1 : rows_len m mat1) by (apply rows_len_upd; auto; now rewrite upd_length).
  assert (Lm1 : length mat1 = length mat) by (unfold mat1; now rewrite upd_length).
  destruct (mapM_rows (fun rs => do y <- nth_chk rs j; do z <- zrem (y * (p - iv)) p; Done (upd rs j z))
              m (skipn (S k) mat1)) as (rest & -> & Hrest & Lrest).
  { intros rs Lr. rewrite (nth_chk_lt rs j 0) by lia. cbn [bind]. rewrite zrem_nz by auto. cbn [bind].
    eexists. split; [reflexivity|]. now rewrite upd_length. }
  { now apply rows_len_skipn. }
  cbn [bind]. rewrite skipn_length in Lrest.
  destruct (img_cols_total j k m p Hp ltac:(lia) m 0%nat (firstn (S k) mat1 ++ rest)) as (mat3 & -> & H3 & L3); try lia.
  { apply rows_len_app; auto. now apply rows_len_firstn. }
  { rewrite app_length, firstn_length. lia. }
  cbn [bind].
  assert (L3' : length mat3 = length mat) by (rewrite L3, app_length, firstn_length; lia).
  destruct (IH (S k) mat3 (upd c j (S k)) r) as (c' & r' & E & Hc' & Hcnt'); auto; try lia.
  { now rewrite upd_length. }
  { apply Forall_upd; [|lia]. eapply Forall_impl; [|exact Hle]. cbn. intros; lia. }
  { rewrite count_nz_upd; auto; lia. }
  exists c', r'. rewrite L3' in *. auto.
Qed.

Lemma img_out_total (matcp : zmat) : forall c,
  Forall (fun ci => (ci <= length matcp)%nat) c -> exists out, img_out c matcp = Done out.
Proof.
  induction c as [|ci c IH]; intros H; cbn [img_out]; eauto.
  pose proof (Forall_inv H) as Hci. pose proof (Forall_inv_tail H) as Hc. cbn beta in Hci.
  destruct (IH Hc) as [out E]. destruct ci as [|i]; eauto.
  rewrite (nth_chk_lt matcp i []) by lia. cbn [bind]. rewrite E. cbn [bind]. eauto.
Qed.

Lemma repeat_count_nz m : count_nz (repeat O m) = O.
Proof. unfold count_nz. induction m; cbn; auto. Qed.

Theorem image_mod_p_total (matcp : zmat) (p : Z) :
  p <> 0 -> (0 < length matcp)%nat -> rows_len (length (nth 0 matcp [])) matcp ->
  exists out, image_mod_p matcp p = Done out.
Proof.
  intros Hp Hn Hm. unfold image_mod_p. rewrite (nth_chk_lt matcp 0 []) by lia. cbn [bind].
  destruct (img_loop_total (length (nth 0 matcp [])) p Hp (length matcp) 0 matcp
              (repeat O (length (nth 0 matcp []))) 0) as (c & r & -> & Hc & Hcnt); auto.
  - apply repeat_length.
  - apply Forall_forall. intros x Hx. apply repeat_spec in Hx. lia.
  - now rewrite repeat_count_nz.
  - cbn [bind]. fold (count_nz c).
    replace (Nat.eqb (count_nz c) (length matcp - r)) with true by (symmetry; apply Nat.eqb_eq; lia).
    cbn [bind assert_]. now apply img_out_total.
Qed.
