(** * OrderW3Dual (C14): [MultTable::get_inv_diff] returns the dual lattice of the trace form.

      For an n x n x n table t with [mt_inv_diff t = Done (l, N)]: with Tr the integer matrix of the
      trace form, Tr_ij = trace(w_i w_j) ([DetInvDiff.trace_form]), the scaled inverse l * Tr^-1 is
      an integer matrix Int with Int * Tr = Tr * Int = l, and N is the normal form of Int.  Hence an
      integer vector v lies in the row lattice of N iff v * Tr is divisible by l, i.e. iff
      trace((v / l) * w) is an integer for every integer vector w -- where trace(v * w) is what
      [MultTable::trace] returns on what [MultTable::mul] returns.  No commutativity or
      associativity of the table is needed.  Style: ssreflect/MathComp. *)
From Coq Require Import ZArith List.
From mathcomp Require Import all_ssreflect ssralg zmodp matrix mxalgebra.
From mathcomp Require Import ssrZ zify.
From Coq Require Import QArith Qcanon.
From RNT.Model Require Import Base Poly Algebraic LinAlg MultTable Ideal.
From RNT.Model Require Hnf.
From RNT.Refine Require Import QcField LinAlgQc LinAlgList MatZ HnfSpec HnfMain IdealMul DetBridge DetHnf DetOrder DetIdeal DetInvDiffA DetInvDiff.
From RNT.Refine Require MultTableOps.
Set Implicit Arguments.
Unset Strict Implicit.
Unset Printing Implicit Defensive.
Import GRing.Theory.
Local Close Scope Z_scope.
Local Close Scope Q_scope.
Local Close Scope Qc_scope.
Local Open Scope ring_scope.

Import MultTableOps.

(** ** the trace of a product is the bilinear form of the trace matrix *)
Lemma iota_ord (n : nat) (F : nat -> Z) : \sum_(i <- iota 0 n) F i = \sum_(i < n) F i.
Proof.
have -> : iota 0 n = index_iota 0 n by rewrite /index_iota subn0.
by rewrite big_mkord.
Qed.

(** the trace of the basis element w_k *)
Definition bk (t : table) (n k : nat) : Z := \sum_(j < n) T3 t j k j.

Lemma trace_val_bk t (a : list Z) n : trace_val t a n = \sum_(k < n) seq.nth 0%Z a k * bk t n k.
Proof.
rewrite /trace_val iota_ord; apply: eq_bigr => k _.
by rewrite iota_ord /bk big_distrr.
Qed.

Lemma trace_form_bk t n (i j : 'I_n) : trace_form t n i j = \sum_(k < n) T3 t i j k * bk t n k.
Proof. by rewrite mxE trace_val_bk. Qed.

Lemma trace_mul_form m n t (v w : list Z) : cube n t -> size v = n -> size w = n ->
  exists vw, [/\ mt_mul m t v w = Done vw, size vw = n
    & mt_trace t vw = Done (\sum_(i < n) \sum_(j < n) seq.nth 0%Z v i * seq.nth 0%Z w j * trace_form t n i j)].
Proof.
move=> ct sv sw.
exists (mkseq (mul_coef t v w n) n); split; first exact: mt_mul_closed.
  by rewrite size_mkseq.
rewrite (mt_trace_closed ct (size_mkseq _ _)) trace_val_bk; congr Done.
transitivity (\sum_(k < n) \sum_(i < n) \sum_(j < n)
                seq.nth 0%Z v i * seq.nth 0%Z w j * T3 t i j k * bk t n k).
  apply: eq_bigr => k _; rewrite nth_mkseq // /mul_coef iota_ord big_distrl; apply: eq_bigr => i _.
  by rewrite iota_ord big_distrl.
rewrite exchange_big; apply: eq_bigr => i _ /=.
rewrite exchange_big; apply: eq_bigr => j _ /=.
by rewrite trace_form_bk big_distrr; apply: eq_bigr => k _; rewrite -mulrA.
Qed.

(** ** the scaled inverse of the trace matrix *)
Lemma inv_diff_scaled_inverse n t l h : cube n t -> (0 < n)%nat -> mt_inv_diff t = Done (l, h) ->
  exists int : list (list Z),
    [/\ (0 < l)%Z, shape n n int, Hnf.hnf_new int = Done h,
        zmx n n int *m trace_form t n = l%:M & trace_form t n *m zmx n n int = l%:M].
Proof.
move=> ct n0 E.
have lt : length t = n by case/andP: ct => /eqP.
have [tr [d [int [Etr [Er [lpos [Li [lint' [wint [eint Eh]]]]]]]]]] := mt_inv_diff_inv t l h E.
rewrite /mt_deg lt in Etr lint' wint eint Li.
have [ltr etr] := trace_matrix_mx ct Etr.
have [dtr tdr] := inv_ok Er; move: dtr tdr; rewrite /= ltr etr => dtr tdr.
have eint' : mxQ n n int = q_of_Z l *: qmx n n d.
  apply/matrixP => i j; rewrite !mxE.
  have /ltP hi := ltn_ord i; have /ltP hj := ltn_ord j.
  by rewrite mulrC; exact: (eint i j hi hj).
exists int; split=> //.
- move: (trace_form t n) dtr => T dtr.
  have H : mxQ n n int *m map_mx q_of_Z T = map_mx q_of_Z (l%:M : 'M[Z]_n).
    by rewrite eint' -scalemxAl dtr map_scalar_mx scalemx1.
  rewrite /mxQ -map_mxM in H.
  apply/matrixP => i j; apply: q_of_Z_inj.
  by move/matrixP: H => /(_ i j); rewrite [LHS]mxE [RHS]mxE.
- move: (trace_form t n) tdr => T tdr.
  have H : map_mx q_of_Z T *m mxQ n n int = map_mx q_of_Z (l%:M : 'M[Z]_n).
    by rewrite eint' -scalemxAr tdr map_scalar_mx scalemx1.
  rewrite /mxQ -map_mxM in H.
  apply/matrixP => i j; apply: q_of_Z_inj.
  by move/matrixP: H => /(_ i j); rewrite [LHS]mxE [RHS]mxE.
Qed.

(** ** [P] inv_diff_dual, matrix form: v in the lattice of N  <->  v * Tr = l * c for an integer c *)
Theorem inv_diff_dual_mx n t l h : cube n t -> (0 < n)%nat -> mt_inv_diff t = Done (l, h) ->
  forall v : list Z,
  In_rowspanZ n v h <->
  (length v = n /\ exists c : 'rV[Z]_n, zrv n v *m trace_form t n = l *: c).
Proof.
move=> ct n0 E v.
have hn : (1 <= n)%coq_nat by apply/leP.
have [int [lpos sI Eh IT TI]] := inv_diff_scaled_inverse ct n0 E.
have [_ [wh sp]] := hnf_new_correct int n n h sI hn hn Eh.
rewrite (sp v) (rowspan_mx v sI.2 sI.1).
move: (trace_form t n) (zmx n n int) IT TI => T I IT TI.
split; case=> lv [c ec]; split=> //.
- by exists c; rewrite ec -mulmxA IT mul_mx_scalar.
- exists c.
  have : zrv n v *m T *m I = l *: c *m I by rewrite ec.
  rewrite -mulmxA TI mul_mx_scalar -scalemxAl.
  move: (c *m I) (zrv n v) => R V H.
  apply/matrixP => i j; move/matrixP: H => /(_ i j); rewrite !mxE.
  by apply: mulfI; apply/eqP; lia.
Qed.

(** ** [P] inv_diff_dual: v in the lattice of N  <->  l | trace(v * w) for every integer w *)
Theorem inv_diff_dual m n t l h : cube n t -> (0 < n)%nat -> mt_inv_diff t = Done (l, h) ->
  forall v : list Z, size v = n ->
  (In_rowspanZ n v h <->
   forall w : list Z, size w = n ->
   exists vw tr, [/\ mt_mul m t v w = Done vw, mt_trace t vw = Done tr & Z.divide l tr]).
Proof.
move=> ct n0 E v sv.
have [int [lpos _ _ _ _]] := inv_diff_scaled_inverse ct n0 E.
rewrite (inv_diff_dual_mx ct n0 E); split.
- case=> _ [c ec] w sw.
  have [vw [E1 _ E2]] := trace_mul_form m ct sv sw.
  exists vw; eexists; split; [exact: E1|exact: E2|].
  move: (trace_form t n) ec => T ec.
  exists (\sum_(j < n) seq.nth 0%Z w j * c 0 j).
  rewrite exchange_big /= -[(_ * l)%Z]/((\sum_(j < n) seq.nth 0%Z w j * c 0 j) * l) big_distrl /=.
  apply: eq_bigr => j _.
  move/matrixP: ec => /(_ 0 j); rewrite [LHS]mxE [RHS]mxE => ej.
  rewrite -mulrA [c 0 j * l]mulrC -ej big_distrr /=.
  by apply: eq_bigr => i _; rewrite mxE Lnth_nth [RHS]mulrCA mulrA.
- move=> H; split; first by rewrite -[length v]/(size v).
  move: (trace_form t n) (@trace_mul_form m n t v) H => T tmf H.
  have dv (j : 'I_n) : Z.divide l ((zrv n v *m T) 0 j).
    have sw : size (unit_vec n j) = n by rewrite -[size _]/(length _) unit_vec_length.
    have [vw [tr [E1 E2 dvd]]] := H _ sw.
    have [vw' [E1' _ E2']] := tmf _ ct sv sw.
    move: E1'; rewrite E1 => -[e]; move: E2'; rewrite -e E2 => -[etr].
    suff <- : tr = (zrv n v *m T) 0 j by [].
    rewrite etr mxE; apply: eq_bigr => i _.
    rewrite (bigD1 j) //= nth_unit_vec // eqxx mulr1 big1 ?addr0 => [|j' ne].
      by rewrite mxE Lnth_nth.
    rewrite nth_unit_vec //.
    have -> : (nat_of_ord j == nat_of_ord j') = false.
      by apply/negbTE; move: ne; rewrite -val_eqE eq_sym.
    by rewrite mulr0 mul0r.
  exists (\row_j Z.div ((zrv n v *m T) 0 j) l).
  apply/matrixP => i j; rewrite ord1 [RHS]mxE [X in _ = _ * X]mxE.
  exact: (Znumtheory.Zdivide_Zdiv_eq _ _ lpos (dv j)).
Qed.
