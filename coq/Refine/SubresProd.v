(** The product formula for the resultant over an algebraically closed field,
    Res(A, B) = lc(A)^deg B * prod_{A(alpha) = 0} B(alpha), through the Euclid recurrence (no matrices), the
    multiplicativity of the resultant (transferred to Z[x] through the embedding into algC), and
    disc(f g) = disc f * disc g * Res(f, g)^2 for the model's [discriminant]. ssreflect/MathComp style. *)
From RNT.Model Require Import Base Poly Resultant.
From Coq Require Import ZArith.
From mathcomp Require Import all_ssreflect ssralg ssrnum ssrint poly polydiv matrix mxpoly algC.
From mathcomp Require Import ssrZ zify ring.
From RNT.Refine Require Import ResSylvester ResEuclid ResPRS.
From RNT.Refine Require Import PolyRefine PolyZ ResInt SubresFlag SubresSpec SubresDiscInv.
From RNT.Refine Require ResProofs.
Set Implicit Arguments.
Unset Strict Implicit.
Unset Printing Implicit Defensive.
Import GRing.Theory.
Local Open Scope ring_scope.

Local Notation dg p := (size p).-1.

Section Closed.
Variable F : closedFieldType.
Implicit Types (A B C : {poly F}) (ra rb : seq F).

Definition rprod ra B : F := \prod_(z <- ra) B.[z].
Definition ofroots (a : F) ra : {poly F} := a *: \prod_(z <- ra) ('X - z%:P).

Lemma prod_const_seq (T : Type) (r : seq T) (c : F) : \prod_(z <- r) c = c ^+ size r.
Proof. by elim: r => [|x r IH]; rewrite ?big_nil ?big_cons ?expr0 //= exprS IH. Qed.

Lemma size_ofroots a ra : a != 0 -> size (ofroots a ra) = (size ra).+1.
Proof. by move=> nza; rewrite /ofroots size_scale // size_prod_XsubC. Qed.

Lemma lead_ofroots a ra : lead_coef (ofroots a ra) = a.
Proof. by rewrite /ofroots lead_coefZ (eqP (monic_prod_XsubC _ _ _)) mulr1. Qed.

Lemma horner_ofroots a ra x : (ofroots a ra).[x] = a * \prod_(z <- ra) (x - z).
Proof.
rewrite /ofroots hornerZ horner_prod; congr (_ * _).
by apply: eq_bigr => z _; rewrite hornerXsubC.
Qed.

Lemma rprod_sym a b ra rb :
  a ^+ size rb * rprod ra (ofroots b rb) =
  (-1) ^+ (size ra * size rb) * (b ^+ size ra * rprod rb (ofroots a ra)).
Proof.
rewrite /rprod (eq_bigr _ (fun z _ => horner_ofroots b rb z)) big_split /= prod_const_seq.
rewrite (eq_bigr _ (fun z _ => horner_ofroots a ra z)) big_split /= prod_const_seq.
rewrite exchange_big /=.
have -> : \prod_(j <- rb) \prod_(i <- ra) (i - j) =
          (-1) ^+ (size ra * size rb) * \prod_(j <- rb) \prod_(i <- ra) (j - i).
  rewrite exprM -(prod_const_seq rb) -big_split /=; apply: eq_bigr => j _.
  rewrite -(prod_const_seq ra) -big_split /=; apply: eq_bigr => i _.
  by rewrite mulN1r opprB.
move: (a ^+ _) (b ^+ _) ((-1) ^+ _) (\prod_(j <- rb) _) => x y s P.
by rewrite mulrCA [x * _]mulrCA [in RHS]mulrCA.
Qed.

Lemma root_ofroots b rb z : z \in rb -> (ofroots b rb).[z] = 0.
Proof.
move=> hz; rewrite /ofroots hornerZ; apply/eqP; rewrite mulf_eq0; apply/orP; right.
by apply/eqP/rootP; rewrite root_prod_XsubC.
Qed.

Theorem resultant_roots n : forall A B a ra, (size B <= n)%N ->
  a != 0 -> A = ofroots a ra -> B != 0 -> resultant B A = a ^+ dg B * rprod ra B.
Proof.
elim: n => [|n IHn] A B a ra leB nza EA nzB.
  by move: leB; rewrite leqn0 size_poly_eq0 (negPf nzB).
have nzA : A != 0 by rewrite EA -size_poly_gt0 size_ofroots.
have dA : dg A = size ra by rewrite EA size_ofroots.
case: (size B =P 1%N) => [szB | /eqP szB].
  have /size_poly1P [c nzc ->] : size B == 1%N by apply/eqP.
  rewrite resultant_constl dA size_polyC nzc expr0 mul1r /rprod.
  by rewrite (eq_bigr (fun=> c)) ?prod_const_seq // => z _; rewrite hornerC.
have dB_gt0 : (0 < dg B)%N.
  by rewrite -subn1 subn_gt0 ltn_neqAle eq_sym szB lt0n size_poly_eq0.
have [b [rb [nzb EB]]] : exists b rb, b != 0 /\ B = ofroots b rb.
  have [rb E] := closed_field_poly_normal B.
  by exists (lead_coef B), rb; split; rewrite ?lead_coef_eq0.
have dB : dg B = size rb by rewrite EB size_ofroots.
have lcB : lead_coef B = b by rewrite EB lead_ofroots.
have rootB z : z \in rb -> B.[z] = 0 by move=> hz; rewrite EB root_ofroots.
(* the value of A at the roots of B is that of R = A mod B *)
have modE : rprod rb A = rprod rb (A %% B).
  rewrite /rprod big_seq [RHS]big_seq; apply: eq_bigr => z hz.
  by rewrite {1}(divp_eq A B) hornerD hornerM (rootB _ hz) mulr0 add0r.
(* symmetry *)
have sym : a ^+ dg B * rprod ra B = (-1) ^+ (dg A * dg B) * (b ^+ dg A * rprod rb A).
  by have := rprod_sym a b ra rb; rewrite -EA -EB -dA -dB.
rewrite sym.
have [R0 | nzR] := eqVneq (A %% B) 0.
  (* B divides A *)
  have -> : resultant B A = 0.
    have [|<- _] := @res_euclid_correct F (emu A B).+1 A B nzA nzB; first exact: ltnSn.
    by rewrite /= (negPf nzA) (negPf nzB) (negPf szB) R0 eqxx.
  rewrite modE R0 /rprod; case: (rb) dB dB_gt0 => [->|z rb' _ _] //.
  by rewrite big_cons horner0 mul0r !mulr0.
rewrite (res_recurrence nzA nzB nzR) lcB -mulrA; congr (_ * _).
have ltR : (size (A %% B)%R < size B)%N by rewrite ltn_modp.
rewrite (IHn B (A %% B) b rb) //; last by rewrite -ltnS; apply: leq_trans ltR leB.
rewrite modE mulrA -exprD subnK //.
by have := leq_modp A B; move: (size (A %% B)%R) (size A) => x y; lia.
Qed.

(** multiplicativity in the (MathComp) first argument *)
Theorem resultant_mull A B C : A != 0 -> B != 0 -> C != 0 ->
  resultant (B * C) A = resultant B A * resultant C A.
Proof.
move=> nzA nzB nzC; have [ra Era] := closed_field_poly_normal A.
have nza : lead_coef A != 0 by rewrite lead_coef_eq0.
have nzBC : B * C != 0 by rewrite mulf_neq0.
rewrite (resultant_roots (leqnn _) nza Era nzBC) (resultant_roots (leqnn _) nza Era nzB).
rewrite (resultant_roots (leqnn _) nza Era nzC) size_mul //.
have -> : (size B + size C).-1.-1 = (dg B + dg C)%N.
  have sB : (0 < size B)%N by rewrite size_poly_gt0.
  have sC : (0 < size C)%N by rewrite size_poly_gt0.
  by move: sB sC; move: (size B) (size C) => x y; lia.
rewrite exprD /rprod (eq_bigr _ (fun z _ => hornerM B C z)) big_split /=.
by rewrite mulrACA.
Qed.

End Closed.

(** ** Transfer to Z[x] *)
Definition ZtoC (z : Z) : algC := (int_of_Z z)%:~R.
Lemma ZtoC_is_rmorphism : rmorphism ZtoC.
Proof.
have -> : ZtoC = intr \o int_of_Z by [].
exact: (GRing.RMorphism.class [rmorphism of (intr : int -> algC) \o int_of_Z]).
Qed.
Canonical ZtoC_additive := Additive ZtoC_is_rmorphism.
Canonical ZtoC_rmorphism := RMorphism ZtoC_is_rmorphism.
Lemma ZtoC_inj : injective ZtoC.
Proof. by move=> x y /intr_inj /(can_inj int_of_ZK). Qed.
Lemma ZtoC_eq0 x : (ZtoC x == 0) = (x == 0).
Proof. by rewrite -(rmorph0 ZtoC_rmorphism) (inj_eq ZtoC_inj). Qed.

Section OverZ.
Implicit Types (A B C : {poly Z}).

Theorem resultant_mull_Z A B C : A != 0 -> B != 0 -> C != 0 ->
  resultant (B * C) A = resultant B A * resultant C A.
Proof.
move=> nzA nzB nzC; apply: ZtoC_inj; rewrite rmorphM /=.
rewrite !map_resultant_gen ?ZtoC_eq0 ?lead_coef_eq0 ?mulf_neq0 // rmorphM /=.
by rewrite resultant_mull // map_poly_eq0_id0 // ZtoC_eq0 lead_coef_eq0.
Qed.

Theorem resultant_mulr_Z A B C : A != 0 -> B != 0 -> C != 0 ->
  resultant A (B * C) = resultant A B * resultant A C.
Proof.
move=> nzA nzB nzC; have nzBC : B * C != 0 by rewrite mulf_neq0.
rewrite !(resultant_swap_idomain nzA) // resultant_mull_Z // size_mul //.
have sB : (0 < size B)%N by rewrite size_poly_gt0.
have sC : (0 < size C)%N by rewrite size_poly_gt0.
have -> : (size B + size C).-1.-1 = (dg B + dg C)%N by move: sB sC; move: (size B) (size C) => x y; lia.
by rewrite mulnDr exprD mulrACA.
Qed.

End OverZ.


Lemma half_sum_even (x y k : nat) : ~~ odd x -> ~~ odd y ->
  ((x + y + k.*2) %/ 2 = x %/ 2 + y %/ 2 + k)%N.
Proof.
move=> ox oy; have ex := odd_double_half x; have ey := odd_double_half y.
rewrite (negPf ox) add0n in ex; rewrite (negPf oy) add0n in ey.
by rewrite !divn2 -{1}ex -{1}ey -!doubleD doubleK.
Qed.

Lemma even_mul_pred (n : nat) : ~~ odd (n * n.-1)%N.
Proof. by case: n => // n; rewrite oddM /= andNb. Qed.

(** disc(F G) = disc F * disc G * Res(F, G)^2 at the level of the defining relation *)
Lemma is_disc_mul (F G : {poly Z}) (dF dG dFG : Z) : (1 < size F)%N -> (1 < size G)%N ->
  is_disc F dF -> is_disc G dG -> is_disc (F * G) dFG ->
  dFG = dF * dG * resultant G F ^+ 2.
Proof.
move=> sF sG; rewrite /is_disc => HF HG HFG.
have nzF : F != 0 by rewrite -size_poly_gt0; apply: leq_trans sF.
have nzG : G != 0 by rewrite -size_poly_gt0; apply: leq_trans sG.
have sF' : size F^`() = dg F by apply: size_derivZ.
have sG' : size G^`() = dg G by apply: size_derivZ.
have nzF' : F^`() != 0 by rewrite -size_poly_gt0 sF'; move: sF; clear; move: (size F) => x; lia.
have nzG' : G^`() != 0 by rewrite -size_poly_gt0 sG'; move: sG; clear; move: (size G) => x; lia.
have sFG : size (F * G) = (dg F + dg G).+1.
  by rewrite size_mul //; move: sF sG; clear; move: (size F) (size G) => x y; lia.
have sFG1 : (1 < size (F * G)%R)%N by rewrite sFG; move: sF; clear; move: (size F) => x; lia.
have sD : size (F * G)^`() = (dg F + dg G)%N by rewrite size_derivZ // sFG.
(* Res((FG)', F) and Res((FG)', G) *)
have EF : resultant (F * G)^`() F = resultant F^`() F * resultant G F.
  have def : (F * G)^`() = G^`() * F + F^`() * G by rewrite derivM addrC [F * _]mulrC.
  rewrite (@resultant_redl _ _ _ G^`() (F^`() * G) def).
  - have -> : (dg (F * G)^`() - dg (F^`() * G)%R = 0)%N.
      by rewrite sD size_mul // sF'; move: sF sG; clear; move: (size G) (size F) => x y; lia.
    by rewrite expr0 mul1r resultant_mull_Z.
  - by rewrite sD sG'; move: sF sG; clear; move: (size G) (size F) => x y; lia.
  - by rewrite sD size_mul // sF'; move: sF sG; clear; move: (size G) (size F) => x y; lia.
have EG : resultant (F * G)^`() G = resultant G^`() G * resultant F G.
  have def : (F * G)^`() = F^`() * G + G^`() * F by rewrite derivM [F * _]mulrC.
  rewrite (@resultant_redl _ _ _ F^`() (G^`() * F) def).
  - have -> : (dg (F * G)^`() - dg (G^`() * F)%R = 0)%N.
      by rewrite sD size_mul // sG'; move: sF sG; clear; move: (size G) (size F) => x y; lia.
    by rewrite expr0 mul1r resultant_mull_Z.
  - by rewrite sD sF'; move: sF sG; clear; move: (size G) (size F) => x y; lia.
  - by rewrite sD size_mul // sG'; move: sF sG; clear; move: (size G) (size F) => x y; lia.
have nzD : (F * G)^`() != 0 by rewrite -size_poly_gt0 sD; move: sF; clear; move: (size F) => x; lia.
have Eres : resultant (F * G)^`() (F * G) =
            resultant F^`() F * resultant G^`() G * ((-1) ^+ (dg F * dg G) * resultant G F ^+ 2).
  rewrite resultant_mulr_Z // EF EG (resultant_swap_idomain nzF nzG) expr2.
  by move: (resultant F^`() F) (resultant G^`() G) (resultant G F) ((-1) ^+ _) => a b c s; ring.
have nzl : lead_coef F * lead_coef G != 0 by rewrite mulf_neq0 ?lead_coef_eq0.
apply: (mulIf nzl); rewrite -lead_coefM HFG Eres sFG /=.
have -> : (((dg F + dg G) * (dg F + dg G).-1) %/ 2 =
           (dg F * (dg F).-1) %/ 2 + (dg G * (dg G).-1) %/ 2 + dg F * dg G)%N.
  rewrite -half_sum_even ?even_mul_pred //; congr (_ %/ 2)%N.
  by rewrite -muln2; move: sF sG; clear; move: (size F) (size G) => x y; nia.
rewrite !exprD lead_coefM.
have -> : dF * dG * resultant G F ^+ 2 * (lead_coef F * lead_coef G) =
          (dF * lead_coef F) * (dG * lead_coef G) * resultant G F ^+ 2 by ring.
rewrite HF HG.
have ss : (-1) ^+ (dg F * dg G) * (-1) ^+ (dg F * dg G) = 1 :> Z by rewrite -exprD addnn -signr_odd odd_double.
move: ss; move: ((-1) ^+ (dg F * dg G)) ((-1) ^+ (_ %/ 2)) ((-1) ^+ (_ %/ 2)) => s s1 s2 ss.
move: (resultant F^`() F) (resultant G^`() G) (resultant G F ^+ 2) => a b c.
have -> : s2 * s1 * s * (a * b * (s * c)) = (s * s) * (s2 * a * (s1 * b) * c) by ring.
by rewrite ss mul1r.
Qed.

(** [P] model level: disc(f g) = disc f * disc g * Res(f, g)^2 *)
Theorem discriminant_mul_model m (f g fg : seq Z) :
  ResProofs.canonb f = true -> ResProofs.canonb g = true -> ResProofs.canonb fg = true ->
  ResProofs.len_ok f = true -> ResProofs.len_ok g = true -> ResProofs.len_ok fg = true ->
  (1 < size f)%N -> (1 < size g)%N -> Poly fg = Poly f * Poly g ->
  exists df dg' dfg r,
    [/\ discriminant m f = (true, Done df), discriminant m g = (true, Done dg'),
        discriminant m fg = (true, Done dfg), Resultant.resultant m f g = (true, Done r)
      & dfg = df * dg' * r ^+ 2].
Proof.
move=> cf cg cfg lf lg lfg sf sg E.
have cf' : canonZ f by rewrite -canonb_canonZ.
have cg' : canonZ g by rewrite -canonb_canonZ.
have cfg' : canonZ fg by rewrite -canonb_canonZ.
have sF : (1 < size (Poly f))%N by rewrite canon_size_Poly.
have sG : (1 < size (Poly g))%N by rewrite canon_size_Poly.
have nzF : Poly f != 0 by rewrite -size_poly_gt0; apply: leq_trans sF.
have nzG : Poly g != 0 by rewrite -size_poly_gt0; apply: leq_trans sG.
have sfg : (1 < size fg)%N.
  rewrite -(canon_size_Poly cfg') E size_mul //.
  by move: sF sG; move: (size (Poly f)) (size (Poly g)) => x y; lia.
have nf : f <> [::] by case: (f) sf.
have ng : g <> [::] by case: (g) sg.
have [df [Df Hf]] := discriminant_spec m cf lf sf.
have [dg' [Dg Hg]] := discriminant_spec m cg lg sg.
have [dfg [Dfg Hfg]] := discriminant_spec m cfg lfg sfg.
have R := resultant_int_spec m cf cg lf lg nf ng.
exists df, dg', dfg, (\det (Sylvester_mx (Poly g) (Poly f))); split=> //.
apply: (@is_disc_mul (Poly f) (Poly g)) => //.
- by rewrite /is_disc canon_size_Poly.
- by rewrite /is_disc canon_size_Poly.
- by rewrite /is_disc -E canon_size_Poly.
Qed.

Corollary resultant_roots_eq (F : closedFieldType) (A B : {poly F}) (a : F) (ra : seq F) :
  a != 0 -> A = a *: \prod_(z <- ra) ('X - z%:P) -> B != 0 ->
  resultant B A = a ^+ (size B).-1 * \prod_(z <- ra) B.[z].
Proof. exact: (@resultant_roots F (size B) A B a ra (leqnn _)). Qed.

(** a concrete instance of the hypothesis, for the non-vacuity example ([%Z] is int_scope here) *)
Lemma mul_ex_poly :
  Poly [:: Zneg 2; Zneg 1; Zpos 1] = Poly [:: Zpos 1; Zpos 1] * Poly [:: Zneg 2; Zpos 1] :> {poly Z}.
Proof.
rewrite /= !cons_poly_def !mul0r !add0r.
have -> : (Zneg 2)%:P = - (1 + 1) :> {poly Z} by rewrite -polyC1 -polyCD -polyCN.
have -> : (Zneg 1)%:P = -1 :> {poly Z} by rewrite -polyC1 -polyCN.
have -> : (Zpos 1)%:P = 1 :> {poly Z} by rewrite -polyC1.
by ring.
Qed.
