(** * Hensel lifting (Cohen 3.5.5): one step, then the multi-factor lift (ssreflect). *)
From Coq Require Import ZArith List Lia Znumtheory.
From mathcomp Require Import all_ssreflect ssralg poly.
From RNT.Model Require Import Base Poly PolyModP Hensel.
From RNT.Refine Require Import PolyModPArith PolyModPDivList FermatZ PolyZmod PolyModPDiv MonicZ PolyModPGcd.
From mathcomp Require Import ssrZ zify ring.
Set Implicit Arguments. Unset Strict Implicit. Unset Printing Implicit Defensive.
Import GRing.Theory.
Local Open Scope ring_scope.

(** ** The coefficientwise maps as polynomials *)

Lemma poly_div_eq' l q : q <> Z0 -> poly_div l q = Done (from_raw opsZ (List.map (fun c => Z.div c q) l)).
Proof.
  move=> Hq. rewrite /poly_div. case: l => [|x l] //.
  by have -> : (q =? 0)%ZZ = false by apply/Z.eqb_neq.
Qed.

Lemma poly_div_nth l q r i : q <> Z0 -> poly_div l q = Done r -> List.nth i r Z0 = Z.div (List.nth i l Z0) q.
Proof.
  move=> Hq. rewrite poly_div_eq' //. case=> <-.
  by rewrite /from_raw strip_nth (@lnth_map0 (fun c => Z.div c q)).
Qed.

Lemma PZ_poly_div_exact l q r (K : {poly Z}) :
  q <> Z0 -> poly_div l q = Done r -> PZ l = q%:P * K -> PZ r = K.
Proof.
  move=> Hq H E. apply/polyP => i. rewrite coefPZ (poly_div_nth i Hq H) -coefPZ E coefCM.
  rewrite /GRing.mul /= Z.mul_comm. exact: Z.div_mul.
Qed.

Lemma poly_mod_done l m : m <> Z0 -> exists r, poly_mod l m = Done r.
Proof. exact: poly_mod_total. Qed.

(** ** One Hensel step *)

Section Step.
Variables (p q : Z) (c a b u v : list Z).
Hypothesis Hp : (1 < p)%ZZ.
Hypothesis Hq : (0 < q)%ZZ.
Hypothesis Hpq : (p | q)%ZZ.
Hypothesis Ha : lmonic a.
Hypothesis Hcab : eqpm q (PZ c) (PZ a * PZ b).
Hypothesis Huv : eqpm p (PZ a * PZ u + PZ b * PZ v) 1.

Lemma gcd_pq : Z.gcd p q = p.
Proof. have H := Z.divide_gcd_iff p q ltac:(lia). exact: (proj1 H Hpq). Qed.

Theorem hensel_step a1 b1 qr :
  hensel_lift p q c a b u v = Done (a1, b1, qr) ->
  qr = Z.mul q p /\
  eqpm qr (PZ c) (PZ a1 * PZ b1) /\ eqpm q (PZ a1) (PZ a) /\ eqpm q (PZ b1) (PZ b) /\
  lmonic a1 /\ length a1 = length a /\
  canonical a1 /\ in_range qr a1 /\ canonical b1 /\ in_range qr b1.
Proof.
  rewrite /hensel_lift gcd_pq.
  have Hq0 : q <> Z0 by lia. have Hp0 : p <> Z0 by lia.
  have Hqp : (1 < Z.mul q p)%ZZ by nia. have Hqp0 : Z.mul q p <> Z0 by lia.
  case Ecq: (poly_div _ q) => [cq| |] //=.
  case Ef: (poly_mod cq p) => [f| |] //=.
  case Edr: (poly_divrem _ a p) => [[t rm]| |] //=.
  case Ea1: (poly_mod _ (Z.mul q p)) => [a1'| |] //=.
  case Eb1: (poly_mod _ (Z.mul q p)) => [b1'| |] //=.
  case=> <- <- <-.
  (* witnesses *)
  have [K1 HK1] := Hcab.
  have Hcq : PZ cq = K1.
  { apply: (PZ_poly_div_exact Hq0 Ecq). rewrite PZ_psub PZ_pmul HK1. ring. }
  have [K3 HK3] := PZ_poly_mod Hp0 Ef. rewrite Hcq in HK3.
  have [K2 HK2] := Huv.
  have Dpost := poly_divrem_spec_monic Hp Ha Edr.
  have [[K6 HK6] _] := Dpost.
  have Lrm := divrem_post_short Dpost.
  have [q' Hq'] := Hpq.
  have [K4 HK4] := PZ_poly_mod Hqp0 Ea1.
  have [K5 HK5] := PZ_poly_mod Hqp0 Eb1.
  rewrite PZ_padd PZ_poly_mul PZ_psub !PZ_pmul in HK4.
  rewrite PZ_padd PZ_poly_mul PZ_padd !PZ_pmul in HK5.
  rewrite PZ_pmul in HK6.
  have Eq : q%:P = q'%:P * p%:P :> {poly Z} by rewrite -polyCM; congr (_%:P); rewrite Hq'.
  have Eqp : (Z.mul q p)%:P = q%:P * p%:P :> {poly Z} by rewrite -polyCM.
  split=> //.
  split.
  { (* c = a1 b1 mod q p *)
    have E3 : K1 = PZ f - p%:P * K3 by rewrite HK3; ring.
    set A := PZ a in HK1 HK2 HK4 HK5 *. set B := PZ b in HK1 HK2 HK4 HK5 *.
    set U := PZ u in HK2 HK4 HK5 *. set V := PZ v in HK2 HK4 HK5 *.
    set F := PZ f in E3 HK4 HK5 *. set T := PZ t in HK4 HK5 *.
    exists (- (F * K2 + K3 + q'%:P * (V * F - A * T) * (U * F + B * T)
               + K4 * (B + (U * F + B * T) * q%:P)
               + (A + (V * F - A * T) * q%:P) * K5
               + q%:P * p%:P * K4 * K5)).
    rewrite HK4 HK5 HK1 E3 Eqp.
    apply/eqP; rewrite -subr_eq0; apply/eqP.
    transitivity (q%:P * F * (1 + p%:P * K2 - (A * U + B * V))).
    - rewrite !Eq. ring.
    - rewrite HK2. ring. }
  split.
  { exists ((PZ v * PZ f - PZ a * PZ t) + p%:P * K4). rewrite HK4 Eqp. ring. }
  split.
  { exists ((PZ u * PZ f + PZ b * PZ t) + p%:P * K5). rewrite HK5 Eqp. ring. }
  (* a1 is monic of the degree of a *)
  have Hqpp : (0 < Z.mul q p)%ZZ by lia.
  have [Ca1 Ra1] := @poly_mod_reduced _ _ _ Hqpp Ea1.
  have [Cb1 Rb1] := @poly_mod_reduced _ _ _ Hqpp Eb1.
  have La : (0 < length a)%coq_nat by case: (a) (lmonic_nonnil Ha) => //= *; lia.
  have Epoly : PZ v * PZ f - PZ a * PZ t = p%:P * K6 + PZ rm by rewrite HK6; ring.
  have Top : length a1' = (length a - 1).+1 /\ lmonic a1'.
  { apply: (poly_mod_monic_top Hqp Ea1).
    - (* coefficient deg a: 1 + q * (multiple of p) *)
      rewrite -coefPZ PZ_padd PZ_poly_mul PZ_psub !PZ_pmul coefD coefMC Epoly coefD coefCM.
      rewrite (coefPZ rm) List.nth_overflow; last lia.
      rewrite coefPZ (lmonic_nth Ha).
      have -> : (1 + (p * K6`_(length a - 1) + 0) * q)%R = (1 + K6`_(length a - 1) * (q * p))%ZZ by lia.
      rewrite Z.mod_add // Z.mod_small //; lia.
    - move=> k Hk.
      rewrite -coefPZ PZ_padd PZ_poly_mul PZ_psub !PZ_pmul coefD coefMC Epoly coefD coefCM.
      rewrite (coefPZ rm) List.nth_overflow; last lia.
      rewrite coefPZ List.nth_overflow; last lia.
      have -> : (0 + (p * K6`_k + 0) * q)%R = (0 + K6`_k * (q * p))%ZZ by lia.
      by rewrite Z.mod_add. }
  case: Top => Top1 Top2.
  split=> //. split; first lia. by [].
Qed.

(** [P] no panic under the preconditions. *)
Lemma hensel_step_total : exists a1 b1 qr, hensel_lift p q c a b u v = Done (a1, b1, qr).
Proof.
  rewrite /hensel_lift gcd_pq.
  have Hq0 : q <> Z0 by lia. have Hp0 : p <> Z0 by lia.
  have Hqp0 : Z.mul q p <> Z0 by nia.
  have [cq ->] : exists r, poly_div (psub opsZ c (pmul opsZ a b)) q = Done r.
  { rewrite /poly_div. case: (psub _ _ _) => [|x l]; first by eexists.
    have -> : (q =? 0)%ZZ = false by apply/Z.eqb_neq. by eexists. }
  rewrite /=. have [f ->] := poly_mod_done cq Hp0. rewrite /=.
  have [t [rm ->]] := @poly_divrem_total_gen (pmul opsZ v f) a p Hp0 ltac:(rewrite Ha; lia).
  rewrite /=.
  have [a1 ->] := poly_mod_done (padd opsZ a (poly_mul (psub opsZ (pmul opsZ v f) (pmul opsZ a t)) q)) Hqp0.
  rewrite /=.
  have [b1 ->] := poly_mod_done (padd opsZ b (poly_mul (padd opsZ (pmul opsZ u f) (pmul opsZ b t)) q)) Hqp0.
  rewrite /=. by do 3 eexists.
Qed.

End Step.

(** ** Products of lists of polynomials *)

Fixpoint PZprod (fs : list (list Z)) : {poly Z} :=
  if fs is f :: fs' then PZ f * PZprod fs' else 1.

Lemma PZprod_rcons fs g : PZprod (fs ++ [:: g]) = PZprod fs * PZ g.
Proof. elim: fs => [|f fs IH] /=; first by rewrite mul1r mulr1. rewrite IH. ring. Qed.

(** The list-level product used in the statements of Props. *)
Definition lprod (fs : list (list Z)) : list Z :=
  List.fold_right (fun f acc => pmul opsZ f acc) [:: 1%ZZ] fs.

Lemma PZ_lprod fs : PZ (lprod fs) = PZprod fs.
Proof.
  elim: fs => [|f fs IH] /=; first by rewrite /PZ /= cons_poly_def mul0r add0r.
  by rewrite PZ_pmul IH.
Qed.

(** Two monic lists congruent modulo m > 1 have the same length. *)
Lemma lmonic_eqpm_length m x y :
  (1 < m)%ZZ -> lmonic x -> lmonic y -> eqpm m (PZ x) (PZ y) -> length x = length y.
Proof.
  move=> Hm Hx Hy E. have CE := eqpm_coef E.
  have one_mod : Z.modulo 1 m = 1%ZZ by rewrite Z.mod_small; lia.
  have Lx : (0 < length x)%coq_nat by case: (x) (lmonic_nonnil Hx) => //= *; lia.
  have Ly : (0 < length y)%coq_nat by case: (y) (lmonic_nonnil Hy) => //= *; lia.
  case: (Nat.lt_trichotomy (length x) (length y)) => [Hlt|[//|Hgt]]; exfalso.
  - have := CE (length y - 1)%coq_nat.
    rewrite !coefPZ (lmonic_nth Hy) List.nth_overflow; last lia.
    rewrite one_mod Zmod_0_l. lia.
  - have := CE (length x - 1)%coq_nat.
    rewrite !coefPZ (lmonic_nth Hx) List.nth_overflow; last lia.
    rewrite one_mod Zmod_0_l. lia.
Qed.

(** ** [accumulate] *)

Definition prevacc (current : list Z) (accs : list (list Z)) (j : nat) : list Z :=
  if j is j'.+1 then List.nth j' accs [::] else current.

Lemma accumulate_spec q : (1 < q)%ZZ -> forall factors current accs,
  lmonic current -> List.Forall lmonic factors ->
  accumulate factors current q = Done accs ->
  length accs = length factors /\
  forall j, (j < length factors)%coq_nat ->
    lmonic (List.nth j accs [::]) /\
    eqpm q (PZ (List.nth j accs [::])) (PZ (prevacc current accs j) * PZ (List.nth j factors [::])) /\
    (length (List.nth j accs [::]) + 1 = length (prevacc current accs j) + length (List.nth j factors [::]))%coq_nat /\
    eqpm q (PZ (List.nth j accs [::])) (PZ current * PZprod (List.firstn j.+1 factors)).
Proof.
  move=> Hq. have Hq0 : q <> Z0 by lia.
  elim=> [|f rest IH] current accs Hc Hf /=.
  - case=> <-. split=> // j Hj. lia.
  - case Ecur: (poly_mod _ q) => [cur| |] //=.
    case Eacc: (accumulate rest cur q) => [acc| |] //=.
    case=> <-.
    have Hf0 : lmonic f by move: Hf => /List.Forall_cons_iff [].
    have Hfr : List.Forall lmonic rest by move: Hf => /List.Forall_cons_iff [].
    have [Mcur Lcur] := lmonic_mul_mod Hq Hc Hf0 Ecur.
    have Ecur' : eqpm q (PZ cur) (PZ current * PZ f).
    { have := PZ_poly_mod Hq0 Ecur. by rewrite PZ_pmul. }
    have [L IHj] := IH cur acc Mcur Hfr Eacc.
    split; first by rewrite /= L.
    case=> [|j] Hj.
    + rewrite /=. split=> //. split=> //. split; first lia.
      by rewrite mulr1.
    + have Hj' : (j < length rest)%coq_nat by move: Hj => /=; lia.
      have [J1 [J2 [J3 J4]]] := IHj j Hj'.
      rewrite [List.nth j.+1 _ _]/=. split=> //.
      have -> : prevacc current (cur :: acc) j.+1 = prevacc cur acc j by case: (j).
      split=> //. split=> //.
      rewrite [List.firstn _ _]/= [PZprod _]/=.
      apply: eqpm_trans J4 _.
      have -> : PZ current * (PZ f * PZprod (List.firstn j.+1 rest)) = (PZ current * PZ f) * PZprod (List.firstn j.+1 rest) by ring.
      exact: eqpm_mulr.
Qed.

(** ** The backwards loop of [hensel_lift_multiple] *)

(** What is known of one lifted factor [g] relative to the factor [f] it comes from. *)
Definition lifted (q qp : Z) (g f : list Z) : Prop :=
  eqpm q (PZ g) (PZ f) /\ lmonic g /\ length g = length f /\ canonical g /\ in_range qp g.

Lemma nth_chk_done (T : Type) (l : list T) i x d :
  nth_chk l i = Done x -> (i < length l)%coq_nat /\ List.nth i l d = x.
Proof.
  rewrite /nth_chk. case E: (List.nth_error l i) => [y|] //. case=> <-.
  split; first by apply/List.nth_error_Some; rewrite E.
  exact: List.nth_error_nth.
Qed.

Lemma firstn_S_nth (T : Type) (l : list T) i d :
  (i < length l)%coq_nat -> List.firstn i.+1 l = List.firstn i l ++ [:: List.nth i l d].
Proof.
  elim: l i => [|x l IH] i Hl; first by move: Hl => /=; lia.
  case: i Hl => [|i] Hl //. rewrite [LHS]/= [List.firstn i.+1 (x :: l)]/= [List.nth _ _ _]/=.
  congr (_ :: _). apply: IH. move: Hl => /=; lia.
Qed.

Lemma nth_tl (T : Type) (l : list T) i d : List.nth i (List.tl l) d = List.nth i.+1 l d.
Proof. by case: l => [|x l] //=; case: i. Qed.

Lemma length_tl (T : Type) (l : list T) : length (List.tl l) = (length l).-1.
Proof. by case: l. Qed.

Section Multi.
Variables (p q : Z).
Hypothesis Hp : Znumtheory.prime p.
Hypothesis Hq : (0 < q)%ZZ.
Hypothesis Hpq : (p | q)%ZZ.

Lemma lift_down_spec accs factors : forall (cnt : nat) product result res prod0,
  (cnt < length factors)%coq_nat ->
  (forall j : nat, (j <= cnt)%coq_nat -> lmonic (List.nth j accs [::])) ->
  (forall j : nat, (j < cnt)%coq_nat ->
     eqpm q (PZ (List.nth j.+1 accs [::])) (PZ (List.nth j accs [::]) * PZ (List.nth j.+1 factors [::])) /\
     (length (List.nth j.+1 accs [::]) + 1 = length (List.nth j accs [::]) + length (List.nth j.+1 factors [::]))%coq_nat) ->
  (forall j : nat, (1 <= j)%coq_nat /\ (j <= cnt)%coq_nat -> lmonic (List.nth j factors [::])) ->
  eqpm q (PZ product) (PZ (List.nth cnt accs [::])) -> lmonic product ->
  length product = length (List.nth cnt accs [::]) -> canonical product -> in_range (Z.mul q p) product ->
  lift_down cnt p q accs factors product result = Done (res, prod0) ->
  exists gs, res = result ++ List.rev gs /\
    List.Forall2 (lifted q (Z.mul q p)) gs (List.firstn cnt (List.tl factors)) /\
    eqpm (Z.mul q p) (PZ product) (PZ prod0 * PZprod gs) /\
    lifted q (Z.mul q p) prod0 (List.nth 0 accs [::]).
Proof.
  have Hp2 := prime_ge_2 _ Hp. have Hp1 : (1 < p)%ZZ by lia.
  have Hqp : (1 < Z.mul q p)%ZZ by nia.
  elim=> [|i IH] product result res prod0 Hcnt Macc Hacc Mf Eprod Mprod Lprod Cprod Rprod;
    rewrite [lift_down _ _ _ _ _ _ _]/=.
  - case=> <- <-. exists [::]. rewrite /= List.app_nil_r mulr1.
    split=> //. split; first by constructor. split; first exact: eqpm_refl.
    by [].
  - case Ea: (nth_chk accs i) => [acc| |] //=.
    case Ef: (nth_chk factors i.+1) => [fi| |] //=.
    case Ew: (poly_coprime_witness acc fi p) => [[u v]| |] //=.
    case Eh: (hensel_lift p q product acc fi u v) => [[[a1 b1] qr]| |] //=.
    move=> Erec.
    have [_ Eacc] := @nth_chk_done _ _ _ _ [::] Ea.
    have [_ Efi] := @nth_chk_done _ _ _ _ [::] Ef.
    have Macc_i : lmonic acc by rewrite -Eacc; apply: Macc; lia.
    have Mfi : lmonic fi by rewrite -Efi; apply: Mf; lia.
    have [W _] := coprime_witness_spec Hp (lmonic_goodlc Hp1 Macc_i) (lmonic_goodlc Hp1 Mfi) Ew.
    have [Hi1 Hi2] := Hacc i ltac:(lia).
    have Hcab : eqpm q (PZ product) (PZ acc * PZ fi).
    { apply: eqpm_trans Eprod _. by rewrite -Eacc -Efi. }
    have [Eqr [S1 [S2 [S3 [S4 [S5 [S6 [S7 [S8 S9]]]]]]]]] := hensel_step Hp1 Hq Hpq Macc_i Hcab W Eh.
    rewrite Eqr in S1 S7 S9.
    have [Mb1 Lb1] := monic_factor Hqp S4 Mprod S8 S9 S1.
    have [gs' [G1 [G2 [G3 G4]]]] := IH a1 (result ++ [:: b1]) res prod0 ltac:(lia)
       (fun j Hj => Macc j ltac:(lia)) (fun j Hj => Hacc j ltac:(lia)) (fun j Hj => Mf j ltac:(lia))
       ltac:(by rewrite Eacc) S4 ltac:(by rewrite Eacc) S6 S7 Erec.
    exists (gs' ++ [:: b1]).
    split; first by rewrite G1 List.rev_unit -List.app_assoc.
    split.
    { rewrite -/(List.firstn i.+1 (List.tl factors)). rewrite (@firstn_S_nth _ _ i [::]); last by rewrite length_tl; lia.
      apply: List.Forall2_app => //. constructor; last by constructor.
      rewrite nth_tl Efi. split=> //. split=> //. split=> //.
      move: Lb1. rewrite Lprod S5 -Eacc -Efi. lia. }
    split=> //.
    rewrite PZprod_rcons. apply: eqpm_trans S1 _.
    have -> : PZ prod0 * (PZprod gs' * PZ b1) = (PZ prod0 * PZprod gs') * PZ b1 by ring.
    exact: eqpm_mulr.
Qed.

End Multi.

(** ** [hensel_lift_multiple] *)

Section Multiple.
Variables (p q : Z).
Hypothesis Hp : Znumtheory.prime p.
Hypothesis Hq : (0 < q)%ZZ.
Hypothesis Hpq : (p | q)%ZZ.

Lemma q_gt1 : (1 < q)%ZZ.
Proof.
  have Hp2 := prime_ge_2 _ Hp. have := Zdivide_le p q ltac:(lia) Hq Hpq. lia.
Qed.

Theorem hensel_lift_multiple_spec c factors res qr :
  factors <> [::] -> List.Forall lmonic factors ->
  eqpm q (PZ c) (PZprod factors) -> lmonic c -> canonical c -> in_range (Z.mul q p) c ->
  hensel_lift_multiple p q c factors = Done (res, qr) ->
  qr = Z.mul q p /\
  List.Forall2 (lifted q (Z.mul q p)) res factors /\
  eqpm (Z.mul q p) (PZ c) (PZprod res).
Proof.
  move=> Hne Hf Ec Mc Cc Rc.
  have Hp2 := prime_ge_2 _ Hp. have Hq1 := q_gt1.
  have Hgcd : Z.gcd p q = p by have H := Z.divide_gcd_iff p q ltac:(lia); exact: (proj1 H Hpq).
  rewrite /hensel_lift_multiple.
  case: factors Hne Hf Ec => [|f0 rest] // _ Hf Ec.
  set factors := f0 :: rest in Hf Ec *.
  case Eacc: (accumulate factors (from_mono opsZ 1%ZZ) q) => [accs| |] //=.
  case Eld: (lift_down _ p q accs factors c [::]) => [[result product]| |] //=.
  rewrite Hgcd. case=> <- <-. split=> //.
  have M1 : lmonic (from_mono opsZ 1%ZZ) by [].
  have [La Hacc] := accumulate_spec Hq1 M1 Hf Eacc.
  have Ln : (length rest < length factors)%coq_nat by rewrite /factors /=; lia.
  have Hlast := Hacc (length rest) Ln.
  have Ecacc : eqpm q (PZ c) (PZ (List.nth (length rest) accs [::])).
  { apply: eqpm_trans Ec _. apply: eqpm_sym. case: Hlast => _ [_ [_ H4]].
    move: H4. rewrite PZ_from_mono mul1r.
    have -> : List.firstn (length rest).+1 factors = factors by apply: List.firstn_all2; rewrite /factors /=; lia.
    by []. }
  have Lc : length c = length (List.nth (length rest) accs [::]).
  { apply: (lmonic_eqpm_length Hq1 Mc _ Ecacc). by case: Hlast. }
  have Lfac : length factors = (length rest).+1 by [].
  have H1 : forall j : nat, (j <= length rest)%coq_nat -> lmonic (List.nth j accs [::]).
  { move=> j Hj. have Hj' : (j < length factors)%coq_nat by rewrite Lfac; lia. by case: (Hacc j Hj'). }
  have H2 : forall j : nat, (j < length rest)%coq_nat ->
     eqpm q (PZ (List.nth j.+1 accs [::])) (PZ (List.nth j accs [::]) * PZ (List.nth j.+1 factors [::])) /\
     (length (List.nth j.+1 accs [::]) + 1 = length (List.nth j accs [::]) + length (List.nth j.+1 factors [::]))%coq_nat.
  { move=> j Hj. have Hj' : (j.+1 < length factors)%coq_nat by rewrite Lfac; lia.
    by case: (Hacc j.+1 Hj') => _ [X [Y _]]. }
  have H3 : forall j : nat, (1 <= j)%coq_nat /\ (j <= length rest)%coq_nat -> lmonic (List.nth j factors [::]).
  { move=> j [Hj1 Hj2]. apply: (proj1 (List.Forall_forall _ _) Hf). apply: List.nth_In. rewrite Lfac. lia. }
  rewrite Nat.sub_0_r in Eld.
  have [gs [G1 [G2 [G3 G4]]]] := @lift_down_spec p q Hp Hq Hpq accs factors (length rest) c [::] result product Ln
     H1 H2 H3 Ecacc Mc Lc Cc Rc Eld.
  have -> : List.rev (result ++ [:: product]) = product :: gs.
  { by rewrite G1 /= List.rev_unit List.rev_involutive. }
  have Eft : List.firstn (length rest) (List.tl factors) = rest by rewrite /factors /= List.firstn_all.
  rewrite Eft in G2.
  split.
  - constructor=> //.
    case: G4 => [G41 [G42 [G43 [G44 G45]]]].
    have H0 : (0 < length factors)%coq_nat by rewrite Lfac; lia.
    have [A1 [A2 [A3 A4]]] := Hacc 0%nat H0.
    split.
    { apply: eqpm_trans G41 _. move: A2. by rewrite /prevacc PZ_from_mono mul1r. }
    split=> //. split=> //. rewrite G43. move: A3. rewrite /prevacc /from_mono /= . lia.
  - rewrite [PZprod _]/=. exact: G3.
Qed.

End Multiple.

(** ** [lift_factorization] *)

Lemma Forall2_compose (A : Type) (R1 R2 R3 : A -> A -> Prop) (l1 l2 l3 : list A) :
  (forall x y z, R1 x y -> R2 y z -> R3 x z) ->
  List.Forall2 R1 l1 l2 -> List.Forall2 R2 l2 l3 -> List.Forall2 R3 l1 l3.
Proof.
  move=> H F1. elim: F1 l3 => [|x y l1' l2' Hxy _ IH] l3 F2; inversion F2; subst; constructor; eauto.
Qed.

Lemma poly_mul_nth (c : list Z) m i : List.nth i (poly_mul c m) Z0 = Z.mul (List.nth i c Z0) m.
Proof.
  rewrite /poly_mul. case: c => [|x c]; first by case: i.
  by rewrite /from_raw strip_nth (@lnth_map0 (fun y => Z.mul y m)).
Qed.

Lemma lift_loop_S n p c lc cur res :
  lift_loop n.+1 p c lc cur res =
  bind (num_extended_gcd lc (Z.mul cur p)) (fun t => let '(_, x, _) := t in
    if (Z.mul cur p =? 0)%ZZ then Panic PDiv0
    else bind (poly_mod (poly_mul c (Z.modulo x (Z.mul cur p))) (Z.mul cur p)) (fun divided =>
         bind (hensel_lift_multiple p cur divided res) (fun t2 => let '(sub, _) := t2 in
         lift_loop n p c lc (Z.mul cur p) sub))).
Proof. by []. Qed.

Section Lift.
Variables (p : Z) (c : list Z) (factors0 : list (list Z)).
Hypothesis Hp : Znumtheory.prime p.
Hypothesis Hlc : ~ (p | lead opsZ c)%ZZ.

Let lc := lead opsZ c.

(** Loop invariant at modulus [cur]. *)
Definition lift_inv (cur : Z) (res : list (list Z)) : Prop :=
  List.Forall2 (fun g f => eqpm p (PZ g) (PZ f) /\ lmonic g /\ length g = length f) res factors0 /\
  eqpm cur (PZ c) (lc%:P * PZprod res).

Lemma lift_loop_spec : forall (n k : nat) cur res out,
  (1 <= k)%coq_nat -> cur = Z.pow p (Z.of_nat k) -> res <> [::] ->
  lift_inv cur res -> lift_loop n p c lc cur res = Done out ->
  lift_inv (Z.pow p (Z.of_nat (k + n))) out /\
  ((0 < n)%coq_nat -> List.Forall (fun g => canonical g /\ in_range (Z.pow p (Z.of_nat (k + n))) g) out).
Proof.
  have Hp2 := prime_ge_2 _ Hp.
  elim=> [|n IH] k cur res out Hk Ecur Hne Inv.
  - rewrite /=. case=> <-. rewrite addn0 -Ecur. split=> // H0. lia.
  - rewrite lift_loop_S.
    set next := Z.mul cur p.
    have Hcur : (0 < cur)%ZZ by rewrite Ecur; apply: Z.pow_pos_nonneg; lia.
    have Enext : next = Z.pow p (Z.of_nat k.+1).
    { rewrite /next Ecur Nat2Z.inj_succ Z.pow_succ_r; lia. }
    have Hnext : (1 < next)%ZZ by rewrite /next; nia.
    have Hnext0 : next <> Z0 by lia.
    have Hpcur : (p | cur)%ZZ.
    { exists (Z.pow p (Z.of_nat (k - 1))). rewrite Ecur.
      have -> : Z.of_nat k = Z.succ (Z.of_nat (k - 1)) by lia.
      rewrite Z.pow_succ_r; lia. }
    case Eg: (num_extended_gcd lc next) => [[[gg x] y]| |] //; rewrite [bind _ _]/=.
    have -> : (next =? 0)%ZZ = false by apply/Z.eqb_neq.
    case Ediv: (poly_mod _ next) => [divided| |] //; rewrite [bind _ _]/=.
    case Em: (hensel_lift_multiple p cur divided res) => [[sub qr]| |] //; rewrite [bind _ _]/=.
    move=> Erec.
    (* the inverse of lc modulo next *)
    have [N1 N2] := num_extended_gcd_spec _ _ _ _ _ Eg.
    have G1 : gg = 1%ZZ.
    { rewrite N2 Enext. apply/Zgcd_1_rel_prime. apply: Zpow_facts.rel_prime_Zpower_r; first lia.
      apply: rel_prime_sym. exact: prime_rel_prime. }
    set invlc := Z.modulo x next in Ediv.
    have [z Hz] : exists z, Z.mul lc invlc = (1 + next * z)%ZZ.
    { exists (- y - lc * (Z.div x next))%ZZ. rewrite /invlc.
      have := Z.div_mod x next Hnext0. nia. }
    (* divided *)
    have Lc0 : (0 < length c)%coq_nat.
    { case: (c) Hlc => [|c0 c'] /=; last lia. move=> H. exfalso. apply: H. exact: Z.divide_0_r. }
    have [Ld Md] : length divided = (length c - 1).+1 /\ lmonic divided.
    { apply: (poly_mod_monic_top Hnext Ediv).
      - rewrite poly_mul_nth -last_nth_len. rewrite -/(lead opsZ c) -/lc Hz.
        rewrite (Z.mul_comm next z) Z.mod_add // Z.mod_small //; lia.
      - move=> j Hj. rewrite poly_mul_nth List.nth_overflow; last lia. by rewrite Zmod_0_l. }
    have Hnextp : (0 < next)%ZZ by lia.
    have [Cd Rd] := @poly_mod_reduced _ _ _ Hnextp Ediv.
    have [Kd HKd] := PZ_poly_mod Hnext0 Ediv. rewrite PZ_poly_mul in HKd.
    case: Inv => [F2 [Kc HKc]].
    have Mres : List.Forall lmonic res.
    { elim: F2 => [|g f l1 l2 [_ [Mg _]] _ IHf]; constructor=> //. }
    have Epre : eqpm cur (PZ divided) (PZprod res).
    { exists (p%:P * Kd + Kc * invlc%:P + (p * z)%ZZ%:P * PZprod res).
      rewrite HKd HKc.
      have -> : next%:P = cur%:P * p%:P :> {poly Z} by rewrite -polyCM.
      have E1 : lc%:P * invlc%:P = 1 + cur%:P * (p * z)%ZZ%:P :> {poly Z}.
      { rewrite -!polyCM -polyC1 -polyCD. congr (_%:P). move: Hz; rewrite /next => Hz'. lia. }
      apply/eqP; rewrite -subr_eq0; apply/eqP.
      transitivity (PZprod res * (lc%:P * invlc%:P - (1 + cur%:P * (p * z)%ZZ%:P))); first by ring.
      rewrite E1. ring. }
    have [Eqr [S1 S2]] := hensel_lift_multiple_spec Hp Hcur Hpcur Hne Mres Epre Md Cd Rd Em.
    rewrite -/next in S1 S2.
    have Hsub : sub <> [::].
    { move=> E. move: S1. rewrite E => H. inversion H. by subst res. }
    have Inv' : lift_inv next sub.
    { split.
      - apply: (Forall2_compose _ S1 F2) => g' g f [L1 [L2 [L3 _]]] [Q1 [Q2 Q3]].
        split; last by (split=> //; rewrite L3).
        apply: eqpm_trans Q1.
        case: Hpcur => w Hw. apply: (@eqpm_weaken p w). by rewrite Z.mul_comm -Hw.
      - case: S2 => Ks HKs.
        exists (lc%:P * Ks - lc%:P * Kd - z%:P * PZ c).
        have E1 : lc%:P * invlc%:P = 1 + next%:P * z%:P :> {poly Z}.
        { rewrite -!polyCM -polyC1 -polyCD. congr (_%:P). move: Hz; rewrite /next => Hz'. lia. }
        apply/eqP; rewrite -subr_eq0; apply/eqP.
        transitivity (lc%:P * (PZ divided - (PZprod sub + next%:P * Ks))
                      - lc%:P * (PZ divided - (PZ c * invlc%:P + next%:P * Kd))
                      - PZ c * (lc%:P * invlc%:P - (1 + next%:P * z%:P))); first by ring.
        rewrite -HKs -HKd E1. ring. }
    have [I1 I2] := IH k.+1 next sub out ltac:(lia) Enext Hsub Inv' Erec.
    have Ek : (k.+1 + n)%nat = (k + n.+1)%nat by lia.
    rewrite Ek in I1 I2. split=> // _.
    case: (Nat.eq_dec n 0) => [En|En]; last by apply: I2; lia.
    move: Erec. rewrite En /=. case=> <-.
    have -> : (k + 1)%nat = k.+1 by lia.
    rewrite -Enext.
    elim: S1 => [|g f l1 l2 [_ [_ [_ [Cg Rg]]]] _ IHf]; constructor=> //.
Qed.

(** [P] [lift_factorization_spec] (partial correctness: the routine returns whenever every
    Bezout witness exists, i.e. the accumulated products are coprime to the next factor mod p). *)
Theorem lift_factorization_spec e gs :
  (1 <= e)%ZZ -> factors0 <> [::] -> List.Forall lmonic factors0 ->
  eqpm p (PZ c) (lc%:P * PZprod factors0) ->
  lift_factorization p e c factors0 = Done gs ->
  List.Forall2 (fun g f => eqpm p (PZ g) (PZ f) /\ lmonic g /\ length g = length f) gs factors0 /\
  eqpm (Z.pow p e) (PZ c) (lc%:P * PZprod gs) /\
  ((2 <= e)%ZZ -> List.Forall (fun g => canonical g /\ in_range (Z.pow p e) g) gs) /\
  (e = 1%ZZ -> gs = factors0).
Proof.
  move=> He Hne Mf Ec. rewrite /lift_factorization -/lc => H.
  have Inv : lift_inv (Z.pow p (Z.of_nat 1)) factors0.
  { split; last by rewrite Z.pow_1_r.
    elim: Mf => [|f l Hf _ IHf]; constructor=> //. split; first exact: eqpm_refl. by []. }
  have H' : lift_loop (Z.to_nat (e - 1)) p c lc (Z.pow p (Z.of_nat 1)) factors0 = Done gs by rewrite Z.pow_1_r.
  have [[I1 I2] I3] := @lift_loop_spec (Z.to_nat (e - 1)) 1 _ factors0 gs (le_n 1) erefl Hne Inv H'.
  have Ee : Z.of_nat (1 + Z.to_nat (e - 1)) = e by lia.
  rewrite Ee in I2 I3.
  split=> //. split=> //. split.
  - move=> H2. apply: I3. lia.
  - move=> E. move: H. by rewrite E /=; case.
Qed.

End Lift.
