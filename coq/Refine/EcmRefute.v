(** * The "whatever the generator draws" reading of C01 is false of any faithful model:
    witnesses, checked by computation (and replayed against the real code by vp/props/c01.py). *)
From Coq Require Import ZArith List Bool Lia Znumtheory.
From RNT.Model Require Import Base Elementary Ecm EcmParallel.
Open Scope Z_scope.

Lemma not_prime_9 : ~ prime 9.
Proof.
  intros [_ H]. specialize (H 3 ltac:(lia)). apply Zgcd_1_rel_prime in H. vm_compute in H. discriminate.
Qed.

(** Draw stream of 80 zero bytes: every Miller-Rabin base is 1, 9 is accepted as a prime. *)
Definition zero_draws : rng := rng_of (repeat 0 80).

Lemma driver_zero_draws_9 m : Ecm.factorize_verbose 10 m 9 4 zero_draws = Done ([(9, 1)], 0, rng_of []).
Proof. destruct m; vm_compute; reflexivity. Qed.

Lemma driver_parallel_zero_draws_9 m : EcmParallel.factorize_verbose 10 m 9 4 zero_draws = Done ([(9, 1)], 0, rng_of []).
Proof. destruct m; vm_compute; reflexivity. Qed.

(** [P, refutation] Some n >= 1 and some draw stream make the driver return a composite base. *)
Theorem driver_all_draws_refuted :
  exists x r cfuel m b1 l c r', 1 <= x /\
    Ecm.factorize_verbose cfuel m x b1 r = Done (l, c, r') /\ exists pe, In pe l /\ ~ prime (fst pe).
Proof.
  exists 9, zero_draws, 10%nat, Wrapping, 4, [(9, 1)], 0, (rng_of []).
  split; [lia|]. split; [apply driver_zero_draws_9|].
  exists (9, 1). split; [left; reflexivity|exact not_prime_9].
Qed.

Theorem driver_parallel_all_draws_refuted :
  exists x r cfuel m b1 l c r', 1 <= x /\
    EcmParallel.factorize_verbose cfuel m x b1 r = Done (l, c, r') /\ exists pe, In pe l /\ ~ prime (fst pe).
Proof.
  exists 9, zero_draws, 10%nat, Wrapping, 4, [(9, 1)], 0, (rng_of []).
  split; [lia|]. split; [apply driver_parallel_zero_draws_9|].
  exists (9, 1). split; [left; reflexivity|exact not_prime_9].
Qed.

(** Dev profile: the first primality test of 15 sees the witness 2, the second one (inside
    [debug_assert!(!is_prime(n))] of [ecm]) sees only the base 1 and the assertion fails. *)
Definition assert_draws : rng := rng_of ([0; 0; 0; 16] ++ repeat 0 80).

Theorem driver_dev_assert_refuted :
  exists x r cfuel b1, 1 <= x /\ Ecm.factorize_verbose cfuel Checked x b1 r = Panic PAssert.
Proof.
  exists 15, assert_draws, 10%nat, 4. split; [lia|]. vm_compute. reflexivity.
Qed.

Theorem driver_parallel_dev_assert_refuted :
  exists x r cfuel b1, 1 <= x /\ EcmParallel.factorize_verbose cfuel Checked x b1 r = Panic PAssert.
Proof.
  exists 15, assert_draws, 10%nat, 4. split; [lia|]. vm_compute. reflexivity.
Qed.
