(** * W8C06Hnf (C06, eighth wave): a finitely generated subgroup of Z^n that contains d Z^n (d <> 0) has a basis.
      For an integer matrix G (m rows of length n >= 1) and d <> 0 there is an n x n integer matrix H whose rows generate
      the same subgroup of Z^n as the rows of G together with d Z^n, and X H = d for an integer matrix X (so det H <> 0).
      H is the model's [HNF::new] of [G; d I] (C02: [hnf_new_total], [hnf_new_correct]; full rank: Round2W3Det).
      Style: ssreflect/MathComp. *)
From Coq Require Import ZArith List.
From mathcomp Require Import all_ssreflect ssralg zmodp matrix mxalgebra.
From mathcomp Require Import ssrZ zify.
From RNT.Model Require Import Base Round2.
From RNT.Model Require Hnf.
From RNT.Refine Require Import QcField LinAlgQc MatZ HnfSpec HnfMain HnfTotal DetBridge.
From RNT.Refine Require Round2Lattice Round2W3Det IdealW6Full IdealW6Nak.
Set Implicit Arguments.
Unset Strict Implicit.
Unset Printing Implicit Defensive.
Import GRing.Theory.
Local Close Scope Z_scope.
Local Open Scope ring_scope.

Definition mxl (m n : nat) (G : 'M[Z]_(m, n)) : list (list Z) :=
  [seq [seq G i j | j <- enum 'I_n] | i <- enum 'I_m].

Lemma mxl_length m n (G : 'M[Z]_(m, n)) : length (mxl G) = m.
Proof. by rewrite -[length _]/(size _) size_map size_enum_ord. Qed.

Lemma mxl_wf m n (G : 'M[Z]_(m, n)) : wf n (mxl G).
Proof.
apply/List.Forall_forall => r /List.in_map_iff [i [<- _]].
by rewrite -[length _]/(size _) size_map size_enum_ord.
Qed.

Lemma zmx_mxl m n (G : 'M[Z]_(m, n)) : zmx m n (mxl G) = G.
Proof.
apply/matrixP => i j; rewrite mxE !Lnth_nth /mxl.
rewrite (nth_map i) ?size_enum_ord // nth_ord_enum.
by rewrite (nth_map j) ?size_enum_ord // nth_ord_enum.
Qed.

Theorem basis_exists (m n : nat) (G : 'M[Z]_(m, n)) (d : Z) : (0 < n)%nat -> d <> 0%Z ->
  exists H : 'M[Z]_n,
    (exists X : 'M[Z]_n, X *m H = d%:M) /\
    forall v : 'rV[Z]_n, (exists c : 'rV[Z]_n, v = c *m H)
                         <-> (exists (c : 'rV[Z]_m) (c' : 'rV[Z]_n), v = c *m G + d *: c').
Proof.
move=> n0 d0.
have n1 : (1 <= n)%coq_nat by apply/leP.
set u := mxl G.
have lu : length u = m := mxl_length G.
have wu : wf n u := mxl_wf G.
have [lp wp] := Round2Lattice.p_rows_shape n d.
set A := List.app u (p_rows n d).
have sA : shape (m + n) n A by split; [rewrite List.app_length lu lp|apply/wf_app].
have mn1 : (1 <= m + n)%coq_nat by apply/leP; rewrite addn_gt0 n0 orbT.
have [h Eh] := hnf_new_total A (m + n) n sA mn1 n1.
have lh : length h = n := Round2W3Det.hnf_full_rank n1 d0 wu Eh.
have [_ [wh sp]] := hnf_new_correct A (m + n) n h sA mn1 n1 Eh.
have eA : zmx (m + n) n A = col_mx G d%:M.
  by rewrite /A (@zmx_cat m n n u (p_rows n d) lu) zmx_mxl Round2W3Det.zmx_p_rows.
have key (v : 'rV[Z]_n) : (exists c : 'rV[Z]_n, v = c *m zmx n n h)
                          <-> (exists (c : 'rV[Z]_m) (c' : 'rV[Z]_n), v = c *m G + d *: c').
  have [z [lz ez]] := IdealW6Full.list_of_rv v.
  split.
    case=> c ec.
    have : In_rowspanZ n z h by apply/(rowspan_mx z wh lh); split=> //; exists c; rewrite ez.
    move/(sp z)/(rowspan_mx z sA.2 sA.1) => [_ [c2 e2]].
    exists (lsubmx c2), (rsubmx c2).
    by rewrite -ez e2 eA -{1}[c2]hsubmxK mul_row_col mul_mx_scalar.
  case=> c [c' e].
  have : In_rowspanZ n z A.
    apply/(rowspan_mx z sA.2 sA.1); split=> //; exists (row_mx c c').
    by rewrite ez eA mul_row_col mul_mx_scalar.
  by move/(sp z)/(rowspan_mx z wh lh) => [_ [c2 e2]]; exists c2; rewrite -ez.
exists (zmx n n h); split; last exact: key.
have hX (i : 'I_n) : exists x : 'rV[Z]_n, d *: delta_mx 0 i = x *m zmx n n h.
  by apply/key; exists 0, (delta_mx 0 i); rewrite mul0mx add0r.
have [xf hxf] := IdealW6Nak.fin_choice_ord hX.
exists (\matrix_(i, j) xf i 0 j).
apply/row_matrixP => i; rewrite row_mul.
have -> : matrix.row i (\matrix_(i0, j) xf i0 0 j) = xf i by apply/rowP => j; rewrite !mxE.
by rewrite -hxf; apply/rowP => j; rewrite !mxE eqxx /= mulr_natr eq_sym.
Qed.
