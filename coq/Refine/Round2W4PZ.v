(** Round 2 step, fourth wave (C06): the Pohst-Zassenhaus theorem for the model.  On an order O and at a prime p,
    [one_step] returns [howmany = 0] if and only if O is p-maximal: p does not divide the index [O'' : O] of any
    lattice O'' containing O on which [Order::get_mult_table] returns (an over-order).
    Assembles: the lattices of the step ([one_step_lattices], [one_step_order_one]: I_p is the p-radical, U_p its
    p-fold multiplier lattice), the algebraic core ([Round2W4Table.pz_table]), the over-order seen from O
    ([Round2W4Index.over_package], [Round2W4Over.inL_mul_list]) and the index of the result
    ([Round2W4Index.index1_h]).  stdlib + lia. *)
From RNT.Model Require Import Base Poly Algebraic LinAlg MultTable Order Round2.
From RNT.Model Require Hnf Elementary.
From RNT.Refine Require Import MatZ HnfOps HnfSpec HnfMain HnfKernel HnfTotal HnfUnique.
From RNT.Refine Require Import Round2Basic Round2Index Round2Lattice Round2Det Round2Fuel.
From RNT.Refine Require Import Round2W3Ip Round2W3Up Round2W3Step Round2W3Total Round2W3Ring Round2W3Order Round2W3Radical Round2W3Driver.
From RNT.Refine Require MultTableOps AlgNormMx Round2W3Mul Round2W3Table PolyZ Round2W4Index Round2W4Over Round2W4Table.
From Coq Require Import Lia Znumtheory QArith Qcanon.
Open Scope Z_scope.

(** [over_order f deg o o2]: [o2] is a deg x deg rational basis of a lattice that is closed under multiplication
    ([Order::get_mult_table] returns on it: the products of its basis elements have integer coordinates) and
    contains the lattice of [o] (every row of [o] is an integer combination of rows of [o2]). *)
Definition over_order (f : list Z) (deg : nat) (o o2 : qmat) : Prop :=
  length o2 = deg /\ Forall (fun r => length r = deg) o2 /\
  (exists T2, get_mult_table o2 f = Done T2) /\
  forall t, (t < deg)%nat -> in_spanQ deg (nth t o []) o2.

(** [p_maximal f deg p o]: p divides the index of [o] in none of its over-orders ([order_index o2 o] is the
    model's [index(&o2, &o)] = det(o) / det(o2), the index [O2 : O]) *)
Definition p_maximal (f : list Z) (deg : nat) (p : Z) (o : qmat) : Prop :=
  forall o2 i, over_order f deg o o2 -> order_index o2 o = Done i -> ~ (p | i).

Lemma pdeg_len (f : list Z) deg : length f = S deg -> pdeg f = Z.of_nat deg.
Proof. intros Lf. unfold pdeg. destruct f as [|a f']; [discriminate|]. rewrite Lf. lia. Qed.

(** ** [P] howmany = 0 => p-maximal *)
Theorem step_zero_p_maximal f deg o p o' :
  PolyZ.canonZ f = true -> length f = S deg -> (1 <= deg)%nat -> prime p ->
  is_order f deg o -> one_step f o p = Done (o', 0) -> p_maximal f deg p o.
Proof.
  intros Cf Lf D1 Pp [LO [One [T0 GT0]]] H o2 i [Lo2 [Wo2 [[T2 GT2] Sub]]] IDX DV.
  assert (P2 : 2 <= p) by (destruct Pp; lia). assert (P0 : p <> 0) by lia.
  destruct (lower_from_shape deg o LO) as [Lo Wo].
  (* the lattices of the step *)
  destruct (one_step_order_one f o p o' 0 deg Cf Lf D1 Pp Lo Wo One H)
    as [T [pow [tbl [tbl2 [i_p [u_p [h [Phi [GT [S1 [S3 [S4 [S5 [S8 [Wh [SPhi [RP [PZh [PL [RAD [ID CL]]]]]]]]]]]]]]]]]]]]].
  destruct (one_step_lattices f o p o' 0 deg Lf D1 P0 H)
    as [pow' [tbl' [tbl2' [i_p' [u_p' [h' [Phi' [S1' [S3' [S4' [S5' [S8' [_ [_ [Wi [_ [PZ [Wu [SpU SpH]]]]]]]]]]]]]]]]]]].
  rewrite S1 in S1'. injection S1' as <-. rewrite S3 in S3'. injection S3' as <- <-.
  rewrite S4 in S4'. injection S4' as <-. rewrite S5 in S5'. injection S5' as <-.
  rewrite S8 in S8'. injection S8' as <-.
  destruct (Round2W3Table.order_table_laws Cf Lf Lo Wo GT) as [CT HC HA].
  destruct (order_has_unit_list f deg o T Cf Lf D1 Lo Wo GT One) as [one [Lone Hone]].
  destruct (mult_tables_exact f o deg p (p * p) tbl tbl2 Lo S3) as [T' [GT' [E2 E1]]].
  rewrite GT in GT'. injection GT' as <-.
  destruct (pow_ge_is_pow _ _ _ S1) as [k Ek].
  assert (Hpow : Z.of_nat deg <= pow).
  { destruct (pow_ge_total (pdeg f) p P2) as [r [Er Hr]]. rewrite S1 in Er. injection Er as <-.
    rewrite (pdeg_len f deg Lf) in Hr. assumption. }
  (* the over-order seen from O *)
  destruct (Round2W4Index.over_package (n := deg) (o := o) (o2 := o2) LO Lo2 Wo2 Sub) as [S [D [SS ES [Dn IDXD] HN CV]]].
  rewrite IDX in IDXD. injection IDXD as <-.
  set (N := Z.abs i) in *.
  assert (Npos : 0 < N) by (unfold N; lia).
  destruct (CV p Pp DV) as [a [c [La Lc Na Ea]]].
  assert (WS : wf deg S) by (destruct SS; assumption).
  pose (L := Round2W4Over.inL deg S N).
  assert (L_N : forall y, length y = deg -> L (vscale N y)).
  { intros y Ly. split; [rewrite vscale_length; assumption|].
    exists (lincomb deg y S). split; [apply lincomb_length; assumption|].
    apply lincomb_scale. assumption. }
  assert (L_mul : forall x y, length x = deg -> length y = deg -> L x -> L y ->
            exists z, ssrbool.and3 (length z = deg) (L z) (AlgNormMx.tmul T deg x y = vscale N z)).
  { intros x y _ _ Lx Ly.
    destruct (Round2W4Over.inL_mul_list (f := f) (n := deg) (o := o) (T := T) (o2 := o2) (T2 := T2) (S := S) (N := N)
                Cf Lf Lo Wo GT Lo2 Wo2 GT2 SS ES HN (a := x) (b := y) Lx Ly) as [z [Lz [LLz Ez]]].
    exists z. split; assumption. }
  (* an element of O'' outside O that p carries into O *)
  assert (DVN : (p | N)).
  { unfold N. destruct DV as [m ->]. destruct (Z_le_gt_dec 0 (m * p)) as [G|G].
    - rewrite Z.abs_eq by assumption. exists m. reflexivity.
    - rewrite Z.abs_neq by lia. exists (- m). lia. }
  destruct DVN as [N' EN].
  assert (N'0 : N' <> 0) by lia.
  pose (w0 := vscale N' a).
  assert (Lw0 : length w0 = deg) by (unfold w0; rewrite vscale_length; assumption).
  assert (LLw0 : L w0).
  { split; [assumption|]. exists c. split; [assumption|].
    unfold w0. rewrite lincomb_scale by assumption. rewrite Ea, vscale_vscale. f_equal. lia. }
  assert (Pw0 : forall j, (N | p * nth j w0 0)).
  { intros j. unfold w0. rewrite nth_vscale. exists (nth j a 0). lia. }
  assert (Nw0 : ~ forall j, (N | nth j w0 0)).
  { intros Hall. apply Na. intros j. destruct (Hall j) as [m Hm]. unfold w0 in Hm. rewrite nth_vscale in Hm.
    exists m. nia. }
  assert (RAD' : forall x, In_rowspanZ deg x i_p <->
            length x = deg /\ exists r, pow_mod_p x (p ^ Z.of_nat k)
              (map (map (map (fun x => Z.rem (Z.rem x (p * p)) p))) T) p = Done r /\
              forall j, (j < deg)%nat -> (p | nth j r 0)).
  { rewrite <- Ek, <- E1. exact RAD. }
  destruct (Round2W4Table.pz_table (deg := deg) (p := p) (T := T) (k := k) (i_p := i_p) (N := N) (Ll := L) (w0 := w0)
              D1 Pp CT HC HA (ex_intro _ one (conj Lone Hone)) ltac:(rewrite <- Ek; exact Hpow) Wi RAD' Npos
              L_N L_mul Lw0 LLw0 Pw0 Nw0) as [u [Lu Nu Mu]].
  (* u lies in U_p *)
  assert (Uone : AlgNormMx.tmul T deg u one = u).
  { rewrite HC by assumption. apply Hone. assumption. }
  assert (Ui : In_rowspanZ deg u i_p).
  { destruct (Mu (vscale p one) (PZ one Lone)) as [z [Hz Ez]].
    rewrite Round2W3Mul.tmul_vscale_r in Ez by assumption. rewrite Uone in Ez.
    apply vscale_inj in Ez; [rewrite Ez; assumption|assumption|].
    rewrite Lu. symmetry. apply (rowspan_length deg i_p); assumption. }
  assert (Uu : In_rowspanZ deg u u_p).
  { apply SpU. split; [assumption|]. intros x Hx.
    assert (Lx : length x = deg) by (apply (rowspan_length deg i_p); assumption).
    apply (pI_congr deg p i_p (AlgNormMx.tmul T deg x u)); try assumption; try apply Round2W3Mul.tmul_length.
    - intros j. rewrite E2. apply (Round2W3Table.tmul_red_congr (p * p) x u j CT).
    - rewrite HC by assumption. destruct (Mu x Hx) as [z [Hz Ez]]. rewrite Ez.
      apply pI_iff; [assumption|]. exists z. split; [assumption|reflexivity]. }
  assert (Uh : In_rowspanZ deg u h).
  { apply SpH. destruct (p_rows_shape deg p) as [Lp Wp].
    apply rowspan_app; [assumption|assumption|].
    exists u, (vzero deg). split; [assumption|]. split; [apply rowspan_zero; assumption|].
    symmetry. apply vadd_vzero_r. assumption. }
  (* the index of the result is 1: the lattice of h is p Z^deg *)
  destruct (one_step_index f o p o' 0 deg Lf D1 LO ltac:(lia) H) as [I1 _].
  rewrite Z.pow_0_r in I1.
  destruct (one_step_stages f o p o' 0 H) as [pow' [deg' [tbl' [tbl2' [i_p' [u_p' [h' [nb [index ST]]]]]]]]].
  destruct ST as [T1 T2' T3 T4 T5 T6 T7 T8 T9 T10 T11 T12 T13].
  rewrite (deg_alloc_len f deg Lf) in T2'. injection T2' as <-.
  rewrite S1 in T1. injection T1 as <-. rewrite S3 in T3. injection T3 as <- <-.
  rewrite S4 in T4. injection T4 as <-. rewrite S5 in T5. injection T5 as <-.
  rewrite S8 in T8. injection T8 as <-.
  apply Nu.
  apply (Round2W4Index.index1_h (deg := deg) (p := p) (o := o) (u := u_p) (h := h) (nb := nb) (o' := o')
           D1 P0 LO Wu S8 T9 T10 T11 I1 (v := u) Uh).
Qed.

(** ** [P] p-maximal => howmany = 0 *)
Theorem p_maximal_step_zero f deg o p o' hh :
  PolyZ.canonZ f = true -> length f = S deg -> (1 <= deg)%nat -> prime p ->
  is_order f deg o -> p_maximal f deg p o -> one_step f o p = Done (o', hh) -> hh = 0.
Proof.
  intros Cf Lf D1 Pp IO PM H.
  pose proof (order_step_order f deg o p o' hh Cf Lf D1 Pp IO H) as [LO' [One' [T' GT']]].
  destruct IO as [LO [One _]].
  destruct (lower_from_shape deg o LO) as [Lo Wo]. destruct (lower_from_shape deg o' LO') as [Lo' Wo'].
  destruct (one_step_contains f o p o' hh deg Lf D1 Lo Wo H) as [_ [_ Cont]].
  assert (P2 : 2 <= p) by (destruct Pp; lia).
  destruct (one_step_index f o p o' hh deg Lf D1 LO ltac:(lia) H) as [I [Hh _]].
  assert (OO : over_order f deg o o').
  { split; [assumption|]. split; [assumption|]. split; [eauto|assumption]. }
  specialize (PM o' (p ^ hh) OO I).
  destruct (Z.eq_dec hh 0) as [E|NE]; [assumption|exfalso].
  apply PM. exists (p ^ (hh - 1)). replace hh with (Z.succ (hh - 1)) at 1 by lia. rewrite Z.pow_succ_r by lia. ring.
Qed.

(** [P] the equivalence *)
Theorem step_zero_iff_p_maximal f deg o p o' hh :
  PolyZ.canonZ f = true -> length f = S deg -> (1 <= deg)%nat -> prime p ->
  is_order f deg o -> one_step f o p = Done (o', hh) ->
  (hh = 0 <-> p_maximal f deg p o).
Proof.
  intros Cf Lf D1 Pp IO H. split.
  - intros ->. apply (step_zero_p_maximal f deg o p o'); assumption.
  - intros PM. apply (p_maximal_step_zero f deg o p o' hh); assumption.
Qed.

(** ** the formulation with over-orders of p-power index
    [p_maximal_pow f deg p o]: [o] has index p^k in no over-order unless k = 0.  Implied by [p_maximal]; and already
    this weaker property forces the step to return 0, so that the three are equivalent on an order. *)
Definition p_maximal_pow (f : list Z) (deg : nat) (p : Z) (o : qmat) : Prop :=
  forall o2 k, over_order f deg o o2 -> 0 <= k -> order_index o2 o = Done (p ^ k) -> k = 0.

Lemma p_maximal_pow_of f deg p o : 2 <= p -> p_maximal f deg p o -> p_maximal_pow f deg p o.
Proof.
  intros P2 PM o2 k OO Hk IDX.
  destruct (Z.eq_dec k 0) as [E|NE]; [assumption|exfalso].
  apply (PM o2 (p ^ k) OO IDX). exists (p ^ (k - 1)).
  replace k with (Z.succ (k - 1)) at 1 by lia. rewrite Z.pow_succ_r by lia. ring.
Qed.

Theorem p_maximal_pow_step_zero f deg o p o' hh :
  PolyZ.canonZ f = true -> length f = S deg -> (1 <= deg)%nat -> prime p ->
  is_order f deg o -> p_maximal_pow f deg p o -> one_step f o p = Done (o', hh) -> hh = 0.
Proof.
  intros Cf Lf D1 Pp IO PM H.
  pose proof (order_step_order f deg o p o' hh Cf Lf D1 Pp IO H) as [LO' [One' [T' GT']]].
  destruct IO as [LO [One _]].
  destruct (lower_from_shape deg o LO) as [Lo Wo]. destruct (lower_from_shape deg o' LO') as [Lo' Wo'].
  destruct (one_step_contains f o p o' hh deg Lf D1 Lo Wo H) as [_ [_ Cont]].
  assert (P2 : 2 <= p) by (destruct Pp; lia).
  destruct (one_step_index f o p o' hh deg Lf D1 LO ltac:(lia) H) as [I [Hh _]].
  assert (OO : over_order f deg o o').
  { split; [assumption|]. split; [assumption|]. split; [eauto|assumption]. }
  exact (PM o' hh OO Hh I).
Qed.

(** [P] on an order, at a prime, for a returning step: howmany = 0 <-> p-maximal <-> no over-order of index p^k, k > 0 *)
Theorem step_zero_equivalences f deg o p o' hh :
  PolyZ.canonZ f = true -> length f = S deg -> (1 <= deg)%nat -> prime p ->
  is_order f deg o -> one_step f o p = Done (o', hh) ->
  (hh = 0 <-> p_maximal f deg p o) /\ (p_maximal f deg p o <-> p_maximal_pow f deg p o).
Proof.
  intros Cf Lf D1 Pp IO H. assert (P2 : 2 <= p) by (destruct Pp; lia).
  split; [apply (step_zero_iff_p_maximal f deg o p o' hh); assumption|].
  split; [apply p_maximal_pow_of; assumption|].
  intros PMP. pose proof (p_maximal_pow_step_zero f deg o p o' hh Cf Lf D1 Pp IO PMP H) as ->.
  apply (step_zero_p_maximal f deg o p o'); assumption.
Qed.
