(** * Facts about [inv], [zmod], [zrem] needed by the ECM proofs (stdlib + lia).
    (The ELEM area proves the full [inv_spec] in parallel; this file keeps the C01 proofs
    self-contained.) *)
From Coq Require Import ZArith List Bool Lia Znumtheory.
From RNT.Model Require Import Base Elementary.
Open Scope Z_scope.

Lemma bind_done {A B} (x : outcome A) (f : A -> outcome B) b :
  bind x f = Done b -> exists a, x = Done a /\ f a = Done b.
Proof. destruct x; simpl; intros H; eauto; discriminate. Qed.

Lemma bind_panic {A B} (x : outcome A) (f : A -> outcome B) t :
  bind x f = Panic t -> x = Panic t \/ exists a, x = Done a /\ f a = Panic t.
Proof. destruct x; simpl; intros H; [right; eauto|left; congruence|discriminate]. Qed.

Lemma zrem_done a b r : zrem a b = Done r -> b <> 0 /\ r = Z.rem a b.
Proof.
  unfold zrem. destruct (b =? 0) eqn:E; intros H; [discriminate|].
  apply Z.eqb_neq in E. inversion H; auto.
Qed.

Lemma zrem_nz a b : b <> 0 -> zrem a b = Done (Z.rem a b).
Proof. intros H. unfold zrem. apply Z.eqb_neq in H. now rewrite H. Qed.

Lemma zquot_done a b r : zquot a b = Done r -> b <> 0 /\ r = Z.quot a b.
Proof.
  unfold zquot. destruct (b =? 0) eqn:E; intros H; [discriminate|].
  apply Z.eqb_neq in E. inversion H; auto.
Qed.

Lemma zrem_not_overflow a b : zrem a b <> Panic POverflow.
Proof. unfold zrem. destruct (b =? 0); discriminate. Qed.

(** [zmod] is the floor remainder for a positive modulus. *)
Lemma zmod_pos x n : 0 < n -> zmod x n = Done (x mod n).
Proof.
  intros Hn. unfold zmod. rewrite zrem_nz by lia. simpl. f_equal.
  pose proof (Z.quot_rem' x n) as Hqr.
  pose proof (Z.rem_bound_abs x n ltac:(lia)) as Hb.
  destruct (Z.ltb_spec (Z.rem x n) 0) as [H|H].
  - apply (Z.mod_unique x n (x ÷ n - 1)); lia.
  - apply (Z.mod_unique x n (x ÷ n)); lia.
Qed.

Lemma zmod_done x n r : zmod x n = Done r -> n <> 0.
Proof.
  unfold zmod. intros H. apply bind_done in H as (a & Ha & _).
  now apply zrem_done in Ha.
Qed.

Lemma zmod_not_overflow x n : zmod x n <> Panic POverflow.
Proof.
  unfold zmod, zrem. destruct (n =? 0); simpl; discriminate.
Qed.

(** ** Extended Euclid *)
Lemma extgcd_division_spec : forall fuel a b g x y,
  extgcd_division fuel a b = Done (g, x, y) -> a * x + b * y = g /\ Z.abs g = Z.gcd a b.
Proof.
  induction fuel as [|f IH]; intros a b g x y H; simpl in H; [discriminate|].
  destruct (b =? 0) eqn:Eb.
  - apply Z.eqb_eq in Eb. subst b. inversion H; subst. split; [ring|].
    now rewrite Z.gcd_0_r.
  - apply Z.eqb_neq in Eb.
    apply bind_done in H as ([[g0 x0] y0] & Hrec & Hd).
    inversion Hd; subst; clear Hd.
    apply IH in Hrec as [Hlin Hg].
    pose proof (Z.quot_rem' a b) as Hqr.
    split.
    + rewrite <- Hlin. rewrite Hqr at 1. ring.
    + rewrite Hg. rewrite (Z.gcd_comm a b).
      rewrite Hqr at 2.
      replace (b * (a ÷ b) + Z.rem a b) with (Z.rem a b + (a ÷ b) * b) by ring.
      now rewrite Z.gcd_add_mult_diag_r.
Qed.

Lemma extgcd_not_panic : forall fuel a b t, extgcd_division fuel a b <> Panic t.
Proof.
  induction fuel as [|f IH]; intros a b t; simpl; [discriminate|].
  destruct (b =? 0); [discriminate|].
  intros H. apply bind_panic in H as [H|([[g x] y] & _ & H)]; [now apply IH in H|discriminate].
Qed.

(** ** [inv] *)
Lemma inv_err a n g : inv a n = Done (InvErr g) -> g = Z.gcd a n /\ g <> 1.
Proof.
  unfold inv, extgcd. intros H.
  apply bind_done in H as ([[g0 x0] y0] & He & H).
  apply extgcd_division_spec in He as [_ Hg].
  destruct (Z.abs g0 =? 1) eqn:E; simpl in H.
  - apply bind_done in H as (r & _ & H). discriminate.
  - apply Z.eqb_neq in E. inversion H; subst. split; auto.
Qed.

Lemma inv_ok a n x : 0 < n -> inv a n = Done (InvOk x) ->
  Z.gcd a n = 1 /\ 0 <= x < n /\ (a * x) mod n = 1 mod n.
Proof.
  unfold inv, extgcd. intros Hn H.
  apply bind_done in H as ([[g0 x0] y0] & He & H).
  apply extgcd_division_spec in He as [Hlin Hg].
  destruct (Z.abs g0 =? 1) eqn:E; simpl in H; [|discriminate].
  apply Z.eqb_eq in E.
  rewrite zmod_pos in H by assumption. simpl in H. inversion H; subst x; clear H.
  split; [congruence|]. split; [apply Z.mod_pos_bound; lia|].
  rewrite Z.mul_mod_idemp_r by lia.
  assert (Hgg : g0 * g0 = 1) by (destruct (Z.abs_spec g0); nia).
  replace (a * (x0 * g0)) with (1 + (- y0 * g0) * n) by (rewrite <- Hgg at 1; rewrite <- Hlin at 1; ring).
  now rewrite Z.mod_add by lia.
Qed.

Lemma inv_not_overflow a n : inv a n <> Panic POverflow.
Proof.
  unfold inv, extgcd. intros H.
  apply bind_panic in H as [H|([[g x] y] & _ & H)]; [now apply extgcd_not_panic in H|].
  destruct (negb (Z.abs g =? 1)); [discriminate|].
  apply bind_panic in H as [H|(r & _ & H)]; [now apply zmod_not_overflow in H|discriminate].
Qed.

(** Divisor candidates produced by a failed inversion modulo n > 1. *)
Lemma gcd_candidate z n g : 1 < n -> g = Z.gcd z n -> g <> 1 -> g <> n -> 1 < g < n /\ (g | n).
Proof.
  intros Hn -> H1 Hnn.
  pose proof (Z.gcd_divide_r z n) as Hd.
  pose proof (Z.gcd_nonneg z n) as H0.
  assert (Z.gcd z n <> 0) by (intros E; apply Z.gcd_eq_0_r in E; lia).
  assert (Z.gcd z n <= n) by (apply Z.divide_pos_le; [lia|assumption]).
  split; [lia|assumption].
Qed.
