(** * PolyZFactorW3Landau: C07, Landau's inequality and the bound on the coefficients of a product of
    linear factors, over a closed field with a norm (MathComp, [numClosedFieldType]).

    [S k f = sum_(i < k) |f_i|^2]; [F rs = prod_(z <- rs) ('X - z)]; [Mb rs = prod_(z <- rs) max(1, |z|)].
    - [landau_gen]: [Mb rs ^ 2 * |lc h| ^ 2 <= S k (h * F rs)]   (Landau: the Mahler measure is at most the
      2-norm; Mignotte's proof: [S ((X - z) g) = S ((z^* X - 1) g)]);
    - [coef_prod_bound]: [|(F rs)_i| <= C(size rs, i) * Mb rs]. *)
From mathcomp Require Import all_ssreflect ssralg ssrnum ssrint poly.
From mathcomp Require Import zify ring.
Set Implicit Arguments.
Unset Strict Implicit.
Unset Printing Implicit Defensive.
Import Order.TTheory GRing.Theory Num.Theory.
Local Open Scope ring_scope.

Section Landau.
Variable C : numClosedFieldType.
Implicit Types (f g h : {poly C}) (z : C) (rs : seq C).

Definition S (k : nat) f : C := \sum_(i < k) `|f`_i| ^+ 2.
Definition F rs : {poly C} := \prod_(z <- rs) ('X - z%:P).
Definition mx z : C := if `|z| <= 1 then 1 else `|z|.
Definition Mb rs : C := \prod_(z <- rs) mx z.

Lemma mx_ge1 z : 1 <= mx z.
Proof.
rewrite /mx; case: ifP => // /negbT h.
by have := real_leVge (normr_real z) (real1 C); rewrite (negPf h).
Qed.

Lemma mx_ge z : `|z| <= mx z.
Proof. by rewrite /mx; case: ifP. Qed.

Lemma mx_ge0 z : 0 <= mx z.
Proof. exact: le_trans ler01 (mx_ge1 z). Qed.

Lemma S_ge0 k f : 0 <= S k f.
Proof. by apply: sumr_ge0 => i _; rewrite exprn_ge0. Qed.

Lemma Mb_ge1 rs : 1 <= Mb rs.
Proof.
rewrite /Mb; elim: rs => [|z rs IH]; first by rewrite big_nil.
rewrite big_cons; apply: le_trans (_ : 1 * 1 <= _); first by rewrite mulr1.
by apply: ler_pmul => //; exact: mx_ge1.
Qed.

Lemma Mb_cat rs1 rs2 : Mb (rs1 ++ rs2) = Mb rs1 * Mb rs2.
Proof. by rewrite /Mb big_cat. Qed.

Lemma F_cat rs1 rs2 : F (rs1 ++ rs2) = F rs1 * F rs2.
Proof. by rewrite /F big_cat. Qed.

Lemma size_F rs : size (F rs) = (size rs).+1.
Proof. exact: size_prod_XsubC. Qed.

(** the shifted sums *)
Lemma sum_shift k g : (size g < k)%N ->
  \sum_(i < k) `|('X * g)`_i| ^+ 2 = \sum_(i < k) `|g`_i| ^+ 2.
Proof.
case: k => [|k] // sg; rewrite big_ord_recl coefXM eqxx normr0 expr0n add0r big_ord_recr /=.
rewrite [g`_k]nth_default // normr0 expr0n addr0.
by apply: eq_bigr => i _; rewrite coefXM.
Qed.

(** Mignotte's identity *)
Lemma S_flip k z g : (size g < k)%N ->
  S k (('X - z%:P) * g) = S k ((z^* *: 'X - 1) * g).
Proof.
move=> sg; rewrite /S.
have e1 i : `|((('X - z%:P) * g)`_i)| ^+ 2
  = `|('X * g)`_i| ^+ 2 + `|z| ^+ 2 * `|g`_i| ^+ 2
    - (('X * g)`_i * (z^* * (g`_i)^*) + (('X * g)`_i)^* * (z * g`_i)).
  rewrite mulrBl coefB mul_polyC coefZ !normCK rmorphB rmorphM.
  move: (('X * g)`_i) (g`_i) => a b; move: (a^*) (b^*) (z^*) => a' b' z'; ring.
have e2 i : `|(((z^* *: 'X - 1) * g)`_i)| ^+ 2
  = `|z| ^+ 2 * `|('X * g)`_i| ^+ 2 + `|g`_i| ^+ 2
    - (('X * g)`_i * (z^* * (g`_i)^*) + (('X * g)`_i)^* * (z * g`_i)).
  rewrite mulrBl mul1r coefB -scalerAl coefZ !normCK rmorphB rmorphM conjCK.
  move: (('X * g)`_i) (g`_i) => a b; move: (a^*) (b^*) (z^*) => a' b' z'; ring.
rewrite (eq_bigr _ (fun (i : 'I_k) _ => e1 i)) (eq_bigr _ (fun (i : 'I_k) _ => e2 i)).
rewrite !sumrB !big_split /= -!mulr_sumr (sum_shift sg).
by congr (_ - _); rewrite addrC.
Qed.

Lemma S_lead k h : (size h <= k)%N -> `|lead_coef h| ^+ 2 <= S k h.
Proof.
move=> sh; have [->|h0] := eqVneq h 0; first by rewrite lead_coef0 normr0 expr0n S_ge0.
have lt : ((size h).-1 < k)%N by rewrite prednK // size_poly_gt0.
rewrite /S (bigD1 (Ordinal lt)) //= -lead_coefE ler_addl.
by apply: sumr_ge0 => i _; rewrite exprn_ge0.
Qed.

(** Landau's inequality, generalised to a multiplier *)
Lemma landau_gen k rs h : (size h + size rs <= k)%N ->
  Mb rs ^+ 2 * `|lead_coef h| ^+ 2 <= S k (h * F rs).
Proof.
elim: rs h => [|z rs IH] h /=.
  by rewrite addn0 /F /Mb !big_nil mulr1 expr1n mul1r; exact: S_lead.
rewrite addnS => sh.
have [->|h0] := eqVneq h 0; first by rewrite lead_coef0 normr0 expr0n mulr0 mul0r S_ge0.
rewrite /F /Mb !big_cons -/(F rs) -/(Mb rs).
case hz: (`|z| <= 1).
- (* a small root stays *)
  rewrite /mx hz mul1r mulrA.
  have -> : `|lead_coef h| = `|lead_coef (h * ('X - z%:P))|.
    by rewrite lead_coefM lead_coefXsubC mulr1.
  by apply: IH; rewrite size_mul ?polyXsubC_eq0 // size_XsubC addn2 /= addSn.
- (* a big root is reflected *)
  rewrite /mx hz [h * _]mulrCA S_flip; last first.
    apply: leq_trans sh; rewrite ltnS; apply: leq_trans (size_mul_leq _ _) _.
    by rewrite size_F addnS.
  have -> : (z^* *: 'X - 1) * (h * F rs) = (h * (z^* *: 'X - 1)) * F rs by rewrite mulrCA mulrA.
  have -> : (`|z| * Mb rs) ^+ 2 * `|lead_coef h| ^+ 2 = Mb rs ^+ 2 * (`|z| ^+ 2 * `|lead_coef h| ^+ 2).
    by rewrite exprMn mulrAC [_ * Mb rs ^+ 2]mulrC.
  have -> : `|z| ^+ 2 * `|lead_coef h| ^+ 2 = `|lead_coef (h * (z^* *: 'X - 1))| ^+ 2.
    have z0 : z^* != 0.
      by rewrite conjC_eq0; apply: contraFneq hz => ->; rewrite normr0 ler01.
    have -> : z^* *: 'X - 1 = z^* *: ('X - (z^*)^-1%:P) :> {poly C}.
      by rewrite scalerBr; congr (_ - _); rewrite -mul_polyC -polyCM mulfV.
    rewrite lead_coefM lead_coefZ lead_coefXsubC mulr1 normrM norm_conjC exprMn mulrC.
    by [].
  apply: IH; apply: leq_trans sh; rewrite -addSn leq_add2r.
  have sA : (size ((z^* *: 'X - 1)%R : {poly C}) <= 2)%N.
    rewrite (leq_trans (size_add _ _)) // geq_max size_opp size_poly1 andbT.
    by rewrite (leq_trans (size_scale_leq _ _)) // size_polyX.
  set A : {poly C} := z^* *: 'X - 1 in sA *.
  have := size_mul_leq h A.
  by move: sA; move: (size A) (size (h * A)%R) (size h) => x y w; lia.
Qed.

(** the coefficients of a product of linear factors *)
Lemma coef_prod_bound rs i : `|(F rs)`_i| <= 'C(size rs, i)%:R * Mb rs.
Proof.
elim: rs i => [|z rs IH] i.
  rewrite /F /Mb !big_nil coef1 /=; case: i => [|i] /=; first by rewrite bin0 mulr1 normr1.
  by rewrite normr0 mulr1 ler0n.
rewrite /F /Mb !big_cons -/(F rs) -/(Mb rs) mulrBl coefB coefXM mul_polyC coefZ.
have M0 : 0 <= Mb rs by apply: le_trans (Mb_ge1 rs).
have mx0 := mx_ge0 z.
case: i => [|i] /=.
- rewrite sub0r normrN normrM bin0 mul1r; apply: ler_pmul => //; first by rewrite mx_ge.
  by have := IH 0%N; rewrite bin0 mul1r.
- apply: (le_trans (ler_norm_sub ((F rs)`_i) (z * (F rs)`_i.+1))).
  rewrite binS natrD mulrDl [X in _ <= X]addrC normrM.
  apply: ler_add.
  + apply: (le_trans (IH i)); rewrite -[X in X <= _]mul1r mulrCA.
    rewrite ler_wpmul2l ?ler0n // ler_wpmul2r // mx_ge1 //.
  + by rewrite mulrCA; apply: ler_pmul => //; rewrite mx_ge.
Qed.

End Landau.
