(** * HnfDet: [HNF::determinant] of a normal form: product of the (positive, diagonal) pivots when
      the form is square (full rank), 0 when it is non-empty and not square, 1 when it is empty. *)
From Coq Require Import ZArith List Lia Bool.
From RNT.Model Require Import Base Hnf.
From RNT.Refine Require Import MatZ HnfOps HnfSteps HnfSpec HnfLoop HnfTerm.
Import ListNotations.
Open Scope Z_scope.

Lemma hnf_rows_length m lo H : hnf_rows m lo H -> (length H = 0 \/ length H + lo <= m)%nat.
Proof. induction 1; simpl; lia. Qed.

(** a square normal form is lower triangular with its pivots on the diagonal *)
Lemma square_pivots m lo H :
  hnf_rows m lo H -> (length H + lo = m)%nat ->
  forall t, (t < length H)%nat ->
    0 < ent H t (lo + t) /\ forall c, (lo + t < c)%nat -> ent H t c = 0.
Proof.
  induction 1 as [|lo p r H Hp Hl Hpos Hz Hbelow HH IH]; intros Hlen t Ht; simpl in *; [lia|].
  pose proof (hnf_rows_length m (S p) H HH) as Hle.
  assert (p = lo) by lia. subst p.
  destruct t as [|t].
  - rewrite Nat.add_0_r. unfold ent, row; simpl. split; auto.
  - destruct (IH ltac:(lia) t ltac:(lia)) as [I1 I2].
    change (ent (r :: H) (S t)) with (ent H t).
    replace (lo + S t)%nat with (S lo + t)%nat by lia. split; auto.
Qed.

Definition diag_prod (H : mat) : Z :=
  fold_left (fun acc t => acc * ent H t t) (seq 0 (length H)) 1.

Lemma det_loop_ok (H : mat) n m : shape n m H -> forall js acc,
  (forall j, In j js -> (j < n)%nat /\ (j < m)%nat) ->
  for_loop js (fun i prod => do x <- get H i i; Done (prod * x)) acc =
  Done (fold_left (fun acc t => acc * ent H t t) js acc).
Proof.
  intros HS. induction js as [|j js IH]; intros acc Hlt; simpl; auto.
  destruct (Hlt j (or_introl eq_refl)) as [Hj1 Hj2].
  rewrite (get_ok H j j n m) by auto. simpl. apply IH. intros j' Hj'. apply Hlt. right; auto.
Qed.

Lemma fold_pos (H : mat) js : (forall j, In j js -> 0 < ent H j j) ->
  forall acc, 0 < acc -> 0 < fold_left (fun acc t => acc * ent H t t) js acc.
Proof.
  induction js as [|j js IH]; intros Hp acc Hacc; simpl; auto.
  apply IH. - intros j' Hj'. apply Hp. right; auto.
  - apply Z.mul_pos_pos; auto. apply Hp. left; auto.
Qed.

Theorem determinant_spec m H :
  hnf_rows m 0 H -> (1 <= m)%nat ->
  hnf_determinant H =
    Done (if (length H =? 0)%nat then 1 else if (length H =? m)%nat then diag_prod H else 0) /\
  (length H = m -> 0 < diag_prod H /\
     forall t, (t < m)%nat -> 0 < ent H t t /\ forall c, (t < c)%nat -> ent H t c = 0).
Proof.
  intros HH Hm. pose proof (hnf_rows_wf m 0 H HH) as Hw. split.
  - unfold hnf_determinant, hnf_dim, hnf_deg, hnf_dim.
    destruct H as [|r H']; [reflexivity|].
    change (length (r :: H')) with (S (length H')). change (hd [] (r :: H')) with r.
    change (S (length H') =? 0)%nat with false. cbv iota.
    apply wf_cons in Hw. destruct Hw as [Hr Hw']. rewrite Hr.
    destruct (Nat.eqb_spec (S (length H')) m) as [E|E]; cbn [negb]; [|reflexivity].
    unfold range. rewrite Nat.sub_0_r.
    rewrite (det_loop_ok (r :: H') m m).
    + reflexivity.
    + split; [simpl; lia|apply wf_cons; auto].
    + intros j Hj. apply in_seq in Hj. simpl in Hj. lia.
  - intros HL.
    assert (Hsq : forall t, (t < m)%nat -> 0 < ent H t t /\ forall c, (t < c)%nat -> ent H t c = 0).
    { intros t Ht. destruct (square_pivots m 0 H HH ltac:(lia) t ltac:(lia)) as [S1 S2]. simpl in *. auto. }
    split; auto. unfold diag_prod. apply fold_pos; [|lia].
    intros j Hj. apply in_seq in Hj. apply Hsq. lia.
Qed.
