(** * Bertrand's postulate, layer 2: the p-adic valuation of the central binomial coefficient (Legendre's formula).
    MathComp style.

    - [central_pow_le]    : p ^ v_p(C(2n,n)) <= 2n            (any p, n >= 1)
    - [central_logn_le1]  : 2n < p^2 -> v_p(C(2n,n)) <= 1
    - [central_logn_eq0]  : p prime, 2 < p, 2n < 3p, p <= n -> v_p(C(2n,n)) = 0
    - [central_logn_big]  : 2n < p -> v_p(C(2n,n)) = 0 *)
From mathcomp Require Import all_ssreflect.
From mathcomp Require Import zify.
Set Implicit Arguments.
Unset Strict Implicit.
Unset Printing Implicit Defensive.

(** Legendre's formula with a wider summation range. *)
Lemma logn_fact_wide p n m : prime p -> n <= m -> logn p n`! = \sum_(1 <= k < m.+1) n %/ p ^ k.
Proof.
move=> pP lenm; rewrite logn_fact // (@big_cat_nat _ _ _ n.+1 1 m.+1) //=.
rewrite [X in _ + X]big_nat_cond [X in _ + X]big1 ?addn0 // => k /andP[/andP[Hk _] _].
rewrite divn_small //; apply: (leq_trans Hk); apply: ltnW; apply: ltn_expl; exact: prime_gt1.
Qed.

Lemma div_double_bounds n q : 0 < q -> (n %/ q).*2 <= n.*2 %/ q <= (n %/ q).*2.+1.
Proof.
move=> q0.
have E : n.*2 = (n %/ q).*2 * q + (n %% q).*2.
  by rewrite [in LHS](divn_eq n q) doubleD doubleMl.
have Hr : (n %% q).*2 %/ q < 2.
  by rewrite ltn_divLR // -[2 * q]/(2 * q) mul2n ltn_double ltn_pmod.
rewrite E divnMDl //; move: ((n %% q).*2 %/ q) Hr (n %/ q) => r Hr a; lia.
Qed.

(** v_p(C(2n,n)) = sum_k ( floor(2n/p^k) - 2 floor(n/p^k) ) *)
Lemma logn_central p n : prime p ->
  logn p 'C(n.*2, n) = \sum_(1 <= k < n.*2.+1) (n.*2 %/ p ^ k - (n %/ p ^ k).*2).
Proof.
move=> pP.
have lenn : n <= n.*2 by rewrite -addnn leq_addr.
have Hs : n.*2 - n = n by rewrite -addnn addnK.
have := bin_fact lenn; rewrite Hs => E.
have := congr1 (logn p) E.
rewrite !lognM ?fact_gt0 ?muln_gt0 ?fact_gt0 ?bin_gt0 //.
rewrite (logn_fact_wide pP lenn) (logn_fact_wide pP (leqnn n.*2)) => H1.
set T := \sum_(1 <= k < _) (_ - _).
have H2 : T + (\sum_(1 <= k < n.*2.+1) n %/ p ^ k + \sum_(1 <= k < n.*2.+1) n %/ p ^ k)
          = \sum_(1 <= k < n.*2.+1) n.*2 %/ p ^ k.
  rewrite /T -!big_split /=; apply: eq_bigr => k _.
  have q0 : 0 < p ^ k by rewrite expn_gt0 prime_gt0.
  by rewrite addnn subnK //; case/andP: (div_double_bounds n q0).
by apply: (addIn (etrans H1 (esym H2))).
Qed.

(** each term of the sum is 0 or 1, and 0 as soon as p^k > 2n *)
Lemma central_term_le p n k : 0 < p ->
  n.*2 %/ p ^ k - (n %/ p ^ k).*2 <= (p ^ k <= n.*2).
Proof.
move=> p0; have q0 : 0 < p ^ k by rewrite expn_gt0 p0.
case: (leqP (p ^ k) n.*2) => [_|lt]; last by rewrite divn_small.
by case/andP: (div_double_bounds n q0); lia.
Qed.

(** p ^ #{k in [1, M] : p^k <= m} <= m *)
Lemma pow_count_le p m M : 1 < p -> 0 < m ->
  p ^ (\sum_(1 <= k < M.+1) (p ^ k <= m)) <= m.
Proof.
move=> p1 m0.
suff: (\sum_(1 <= k < M.+1) (p ^ k <= m) <= M) /\ p ^ (\sum_(1 <= k < M.+1) (p ^ k <= m)) <= m by case.
elim: M => [|M [IH1 IH2]]; first by rewrite big_geq.
rewrite big_nat_recr //=; case: (leqP (p ^ M.+1) m) => [le|_]; last by rewrite addn0; split => //; exact: leqW.
rewrite addn1; split=> //.
by apply: leq_trans le; rewrite leq_exp2l.
Qed.

(** (a) p ^ v_p(C(2n,n)) <= 2n *)
Lemma central_pow_le p n : 0 < n -> p ^ logn p 'C(n.*2, n) <= n.*2.
Proof.
move=> n0; have n20 : 0 < n.*2 by rewrite double_gt0.
case pP: (prime p); last by rewrite lognE pP.
have p1 := prime_gt1 pP.
apply: leq_trans (pow_count_le n.*2 p1 n20).
rewrite leq_exp2l // logn_central //.
by apply: leq_sum => k _; apply: central_term_le; exact: prime_gt0.
Qed.

(** (b) primes above sqrt(2n) divide C(2n,n) at most once *)
Lemma central_logn_le1 p n : 0 < n -> n.*2 < p ^ 2 -> logn p 'C(n.*2, n) <= 1.
Proof.
move=> n0 lt.
case pP: (prime p); last by rewrite lognE pP.
by rewrite -ltnS -(ltn_exp2l _ _ (prime_gt1 pP)); apply: leq_ltn_trans lt; exact: central_pow_le.
Qed.

(** (d) primes above 2n do not divide C(2n,n) *)
Lemma central_logn_big p n : 0 < n -> n.*2 < p -> logn p 'C(n.*2, n) = 0.
Proof.
move=> n0 lt; have := central_pow_le p n0.
case: (logn p _) => // e; rewrite expnS => H.
have : p <= n.*2 by apply: leq_trans H; apply: leq_pmulr; rewrite expn_gt0; lia.
lia.
Qed.

(** (c) primes in (2n/3, n] do not divide C(2n,n) *)
Lemma central_logn_eq0 p n : prime p -> 2 < p -> n.*2 < 3 * p -> p <= n -> logn p 'C(n.*2, n) = 0.
Proof.
move=> pP p2 lt3 lepn; rewrite logn_central // big_nat_cond big1 // => k /andP[/andP[k1 _] _].
have p0 := prime_gt0 pP.
case: k k1 => // [[_|k _]].
- rewrite expn1.
  have -> : n = 1 * p + (n - p) by lia.
  rewrite doubleD doubleMl !divnMDl // !divn_small; lia.
- have lt : n.*2 < p ^ k.+2.
    apply: leq_trans (_ : p ^ 2 <= _); last by rewrite leq_exp2l // prime_gt1.
    rewrite -[p ^ 2]/(p * p) -/(muln p p); nia.
  rewrite !divn_small //; lia.
Qed.
