(** * HnfCanon: canonicity of [HNF::new] and its corollaries (row permutations, unimodular
      re-basing, appended dependent rows, [HNF::union]). *)
From Coq Require Import ZArith List Lia Bool Permutation.
From RNT.Model Require Import Base Hnf.
From RNT.Refine Require Import MatZ HnfOps HnfSteps HnfSpec HnfLoop HnfMain HnfUnique.
Import ListNotations.
Open Scope Z_scope.

(** ** spans are monotone in the generators *)
Lemma rows_in_span_mmul m A B :
  wf m A -> Forall (fun r => In_rowspanZ m r A) B ->
  exists U, wf (length A) U /\ B = mmul m U A.
Proof.
  intros HA HB. induction HB as [|r B [c [Hc Hr]] _ IH].
  - exists []. split; [constructor|reflexivity].
  - destruct IH as [U [HU ->]]. exists (c :: U). split; [apply wf_cons; auto|].
    simpl. rewrite Hr. reflexivity.
Qed.

Lemma span_incl m A B :
  wf m A -> Forall (fun r => In_rowspanZ m r A) B ->
  forall v, In_rowspanZ m v B -> In_rowspanZ m v A.
Proof.
  intros HA HB. destruct (rows_in_span_mmul m A B HA HB) as [U [HU ->]].
  apply (rowspan_sub m (length A) U A); auto.
Qed.

Lemma In_row (A : mat) r : In r A -> exists t, (t < length A)%nat /\ r = row A t.
Proof. intros H. apply (In_nth _ _ []) in H. destruct H as [t [Ht <-]]. eauto. Qed.

Lemma rows_subset_span m A B :
  wf m A -> (forall r, In r B -> In r A) -> forall v, In_rowspanZ m v B -> In_rowspanZ m v A.
Proof.
  intros HA Hsub. apply span_incl; auto. apply Forall_forall. intros r Hr.
  destruct (In_row A r (Hsub r Hr)) as [t [Ht ->]]. apply row_in_span; auto.
Qed.

Lemma span_app_mono m A A' B B' :
  wf m A -> wf m A' -> wf m B -> wf m B' ->
  same_rowspanZ m A A' -> same_rowspanZ m B B' ->
  forall v, In_rowspanZ m v (A ++ B) -> In_rowspanZ m v (A' ++ B').
Proof.
  intros HA HA' HB HB' SA SB.
  assert (HAB' : wf m (A' ++ B')) by (apply wf_app; auto).
  apply span_incl; auto. apply Forall_forall. intros r Hr. apply in_app_or in Hr.
  destruct Hr as [Hr|Hr].
  - apply (rows_subset_span m (A' ++ B') A'); auto. { intros; apply in_or_app; auto. }
    apply SA. destruct (In_row A r Hr) as [t [Ht ->]]. apply row_in_span; auto.
  - apply (rows_subset_span m (A' ++ B') B'); auto. { intros; apply in_or_app; auto. }
    apply SB. destruct (In_row B r Hr) as [t [Ht ->]]. apply row_in_span; auto.
Qed.

Lemma same_span_app m A A' B B' :
  wf m A -> wf m A' -> wf m B -> wf m B' ->
  same_rowspanZ m A A' -> same_rowspanZ m B B' -> same_rowspanZ m (A ++ B) (A' ++ B').
Proof.
  intros HA HA' HB HB' SA SB v. split.
  - apply span_app_mono; auto.
  - apply span_app_mono; auto; intros w; symmetry; [apply SA|apply SB].
Qed.

(** ** hnf_canonical *)
Theorem hnf_canonical A B n n' m HA HB :
  shape n m A -> shape n' m B -> (1 <= n)%nat -> (1 <= n')%nat -> (1 <= m)%nat ->
  same_rowspanZ m A B -> hnf_new A = Done HA -> hnf_new B = Done HB -> HA = HB.
Proof.
  intros SA SB Hn Hn' Hm Hs EA EB.
  destruct (hnf_new_correct A n m HA SA Hn Hm EA) as (H1 & H2 & H3).
  destruct (hnf_new_correct B n' m HB SB Hn' Hm EB) as (H1' & H2' & H3').
  apply (hnf_unique m); auto. intros v. rewrite (H3 v), (H3' v). apply Hs.
Qed.

(** row permutations *)
Corollary hnf_permutation A B n m HA HB :
  shape n m A -> (1 <= n)%nat -> (1 <= m)%nat -> Permutation A B ->
  hnf_new A = Done HA -> hnf_new B = Done HB -> HA = HB.
Proof.
  intros [Hn HA'] Hn1 Hm HP EA EB.
  assert (HB' : wf m B). { unfold wf in *. apply (Permutation_Forall HP); auto. }
  assert (HnB : length B = n) by (rewrite <- (Permutation_length HP); auto).
  apply (hnf_canonical A B n n m); auto; [split; auto|split; auto|].
  intros v. split; apply rows_subset_span; auto; intros r Hr.
  - apply (Permutation_in r HP); auto.
  - apply (Permutation_in r (Permutation_sym HP)); auto.
Qed.

(** unimodular re-basing [T * A] *)
Corollary hnf_rebase A T n m HA HB :
  shape n m A -> (1 <= n)%nat -> (1 <= m)%nat -> shape n n T -> unimodular n T ->
  hnf_new A = Done HA -> hnf_new (mmul m T A) = Done HB -> HA = HB.
Proof.
  intros SA Hn Hm ST HT EA EB.
  apply (hnf_canonical A (mmul m T A) n n m); auto.
  - apply mmul_shape; [apply ST|apply SA].
  - intros v. symmetry. apply (rowspan_unimodular n m T A); auto.
Qed.

(** appended dependent (or zero) rows *)
Corollary hnf_append_dependent A D n m HA HB :
  shape n m A -> (1 <= n)%nat -> (1 <= m)%nat ->
  Forall (fun r => In_rowspanZ m r A) D -> wf m D ->
  hnf_new A = Done HA -> hnf_new (A ++ D) = Done HB -> HA = HB.
Proof.
  intros [Hn HA'] Hn1 Hm HD HDw EA EB.
  apply (hnf_canonical A (A ++ D) n (n + length D) m); auto; try lia.
  - split; auto.
  - split; [rewrite app_length; lia|apply wf_app; auto].
  - intros v. split.
    + apply rows_subset_span; [apply wf_app; auto|]. intros; apply in_or_app; auto.
    + apply span_incl; auto. apply Forall_app. split; auto.
      apply Forall_forall. intros r Hr. destruct (In_row A r Hr) as [t [Ht ->]].
      apply row_in_span; auto.
Qed.

(** ** HNF::union = HNF::new of the stacked generators (non-empty arguments) *)
Lemma check_widths_Done m a : check_widths m a = Done tt -> wf m a.
Proof.
  induction a as [|r a IH]; simpl; intros H; [constructor|].
  destruct (Nat.eqb_spec (length r) m); [|discriminate]. apply wf_cons; auto.
Qed.

Theorem union_spec A B na nb m HA HB R R' :
  shape na m A -> shape nb m B -> (1 <= na)%nat -> (1 <= nb)%nat -> (1 <= m)%nat ->
  hnf_new A = Done HA -> hnf_new B = Done HB -> HA <> [] -> HB <> [] ->
  hnf_union HA HB = Done R -> hnf_new (A ++ B) = Done R' -> R = R'.
Proof.
  intros SA SB Hna Hnb Hm EA EB NA NB EU ES.
  destruct (hnf_new_correct A na m HA SA Hna Hm EA) as (_ & WA & SpA).
  destruct (hnf_new_correct B nb m HB SB Hnb Hm EB) as (_ & WB & SpB).
  destruct HA as [|a0 HA]; [congruence|]. destruct HB as [|b0 HB]; [congruence|].
  unfold hnf_union in EU. ibind EU as t1 E1. ibind EU as t2 E2. ibind EU as t3 E3.
  destruct SA as [LA WA0]. destruct SB as [LB WB0].
  apply (hnf_canonical ((a0 :: HA) ++ (b0 :: HB)) (A ++ B)
           (length ((a0 :: HA) ++ (b0 :: HB))) (na + nb) m); auto.
  - split; auto. apply wf_app; auto.
  - split; [rewrite app_length; lia|apply wf_app; auto].
  - simpl. lia.
  - lia.
  - apply same_span_app; auto.
Qed.
