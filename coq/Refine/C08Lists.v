(** * C08 statements at the level of coefficient lists, for Props/C08.v (ssreflect). *)
From Coq Require Import ZArith List Lia Znumtheory.
From mathcomp Require Import all_ssreflect ssralg poly.
From RNT.Model Require Import Base Poly PolyModP FactorModP.
From RNT.Refine Require Import PolyModPArith PolyModPDivList FermatZ PolyZmod PolyModPDiv MonicZ PolyModPGcd FpPoly HenselProofs FactorNorm FactorProd FpTotal.
From mathcomp Require Import ssrZ zify ring.
Set Implicit Arguments. Unset Strict Implicit. Unset Printing Implicit Defensive.
Import GRing.Theory.
Local Open Scope ring_scope.

(** [poly_divrem_spec] on lists. *)
Theorem poly_divrem_list_spec p a b q r :
  Znumtheory.prime p -> b <> [::] -> ~ (p | List.last b Z0)%ZZ ->
  poly_divrem a b p = Done (q, r) ->
  peqmod p a (padd opsZ (pmul opsZ q b) r) /\ (length r < length b)%coq_nat /\
  canonical q /\ in_range p q /\ (canonical a -> canonical r) /\
  ((length b <= length a)%coq_nat \/ a = [::] -> in_range p r) /\
  ((length a < length b)%coq_nat -> q = [::] /\ r = a).
Proof.
  move=> Hp Hb Hlc H. have Hp2 := prime_ge_2 _ Hp. have Hp0 : p <> Z0 by lia.
  have D := poly_divrem_spec Hp Hb Hlc H.
  have S := divrem_post_short D.
  case: D => D1 [D2 [D3 [D4 [D5 D6]]]].
  split; first by apply/(peqmodP _ _ Hp0); rewrite PZ_padd PZ_pmul.
  split=> //. split=> //. split=> //. split=> //. split=> //.
  move=> Hl. by case: (D5 Hl) => _ [].
Qed.

Theorem poly_divrem_list_total p a b :
  Znumtheory.prime p -> ~ (p | List.last b Z0)%ZZ -> exists q r, poly_divrem a b p = Done (q, r).
Proof. exact: poly_divrem_total. Qed.

(** gcd: reduced, divides both arguments. *)
Theorem poly_gcd_list_spec p a b g :
  Znumtheory.prime p -> canonical a -> in_range p a -> canonical b -> in_range p b ->
  poly_gcd a b p = Done g ->
  canonical g /\ in_range p g /\
  (exists s, peqmod p a (pmul opsZ g s)) /\ (exists t, peqmod p b (pmul opsZ g t)).
Proof.
  move=> Hp Ca Ra Cb Rb H. have Hp2 := prime_ge_2 _ Hp. have Hp0 : p <> Z0 by lia.
  have [[Cg Rg] [[s Hs] [t Ht]]] := poly_gcd_dvd Hp (conj Ca Ra) (conj Cb Rb) H.
  split=> //. split=> //. split.
  - exists (polyseq s). apply/(peqmodP _ _ Hp0). rewrite PZ_pmul /PZ polyseqK. exact: Hs.
  - exists (polyseq t). apply/(peqmodP _ _ Hp0). rewrite PZ_pmul /PZ polyseqK. exact: Ht.
Qed.

(** [normalised]. *)
Theorem factorize_normalised_list md p f pusize r out r' :
  Znumtheory.prime p -> (0 <= pusize)%ZZ ->
  factorize_mod_p md f p pusize r = Done (out, r') ->
  List.Forall (fun ge => lmonic (fst ge) /\ canonical (fst ge) /\ in_range p (fst ge) /\
                         (2 <= length (fst ge))%coq_nat /\ (md = Checked -> (1 <= snd ge)%ZZ)) out.
Proof.
  move=> Hp Hpu H. have := factorize_normalised Hp Hpu H.
  apply: List.Forall_impl => ge [M [[C R] [L E]]]. by [].
Qed.

(** The equal-degree and distinct-degree stages return factorisations of their input. *)
Theorem final_split_product_list p poly d r out r' :
  Znumtheory.prime p -> canonical poly -> in_range p poly -> poly <> [::] ->
  final_split poly p d r = Done (out, r') ->
  peqmod p poly (lprod out) /\
  List.Forall (fun g => canonical g /\ in_range p g /\ g <> [::]) out.
Proof.
  move=> Hp C R N H. have Hp2 := prime_ge_2 _ Hp. have Hp0 : p <> Z0 by lia.
  have [P F] := final_split_product Hp (conj (conj C R) N) H.
  split; first by apply/(peqmodP _ _ Hp0); rewrite PZ_lprod.
  move: F. apply: List.Forall_impl => g [[Cg Rg] Ng]. by [].
Qed.

Theorem degree_product_list p poly out :
  Znumtheory.prime p -> canonical poly -> in_range p poly -> poly <> [::] ->
  degree poly p = Done out ->
  exists c, (0 < c < p)%ZZ /\ peqmod p poly (pmul opsZ [:: c] (lprod (List.map fst out))).
Proof.
  move=> Hp C R N H. have Hp2 := prime_ge_2 _ Hp. have Hp0 : p <> Z0 by lia.
  have [c [[[Cc Rc] Nc] [P L]]] := degree_product Hp (conj (conj C R) N) H.
  have [c0 Ec] : exists c0, c = [:: c0].
  { case: L => [L|->]; last by exists 1%ZZ. case: (c) L Nc => [|c0 [|c1 l]] //= _ _. by exists c0. }
  exists c0. rewrite Ec in Cc Rc P.
  split.
  - have B := last_in_range_aux p [:: c0] ltac:(by []) Rc.
    have N0 := canonical_last _ Cc ltac:(by []). move: B N0 => /=. lia.
  - apply/(peqmodP _ _ Hp0). by rewrite PZ_pmul PZ_lprod.
Qed.

(** Fuel sufficiency of the Euclidean routines; [poly_modpow]. *)
Theorem poly_gcd_list_total p a b :
  Znumtheory.prime p -> canonical a -> in_range p a -> canonical b -> in_range p b ->
  exists g, poly_gcd a b p = Done g.
Proof. move=> Hp Ca Ra Cb Rb. exact: (poly_gcd_total Hp (conj Ca Ra) (conj Cb Rb)). Qed.

Theorem poly_ext_gcd_list_total p a b :
  Znumtheory.prime p -> canonical a -> in_range p a -> canonical b -> in_range p b ->
  exists g u v, poly_ext_gcd a b p = Done (g, u, v).
Proof. move=> Hp Ca Ra Cb Rb. exact: (poly_ext_gcd_total Hp (conj Ca Ra) (conj Cb Rb)). Qed.

Definition lpow (x : list Z) (n : nat) : list Z := lprod (List.repeat x n).

Lemma PZ_lpow x n : PZ (lpow x n) = PZ x ^+ n.
Proof.
  rewrite /lpow PZ_lprod. elim: n => [|n IH] /=; first by rewrite expr0.
  by rewrite IH exprS.
Qed.

Theorem poly_modpow_list_spec p x e g r :
  Znumtheory.prime p -> canonical g -> in_range p g -> (0 < e)%ZZ ->
  poly_modpow x e g p = Done r ->
  (exists k, peqmod p r (padd opsZ (lpow x (Z.to_nat e)) (pmul opsZ g k))) /\
  canonical r /\ in_range p r.
Proof.
  move=> Hp Cg Rg He H. have Hp2 := prime_ge_2 _ Hp. have Hp0 : p <> Z0 by lia.
  have [[k Hk] [Cr Rr]] := poly_modpow_spec Hp (conj Cg Rg) He H.
  split; last by []. exists (polyseq k). apply/(peqmodP _ _ Hp0).
  by rewrite PZ_padd PZ_lpow PZ_pmul /PZ polyseqK.
Qed.
