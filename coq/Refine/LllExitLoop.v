(** C20: the invariant of the main loop of [lll] in exact arithmetic.

    [linv]: shapes, "bstar, mu, b are the Gram-Schmidt data of rows 0..kmax", the |b*_i|^2 are positive,
    the rows of the basis are linearly independent.  [prefix_red s k]: rows 0..k-1 are size-reduced and
    satisfy the Lovasz condition with 3/4.  Both are kept by step 2, RED(k,k-1) / test / SWAP, the
    descending size-reduction loop and k+1, in the order of the code; the loop can only exit with k = n - 1
    and rows 0..n-1 reduced.   (stdlib; lia, ring on Qc, lra/nra on Q.) *)
From RNT.Model Require Import Base Lll.
From RNT.Refine Require Import LllMat LllGS LllSqrt LllShort LllExitStep2 LllExitIndep.
From Coq Require Import Lia QArith Qcanon Qround Lqa.
Open Scope Z_scope.

Local Notation F := arithQ.
Local Notation "x +q y" := (Qcplus x y) (at level 50, left associativity).
Local Notation "x *q y" := (Qcmult x y) (at level 40, left associativity).
Local Notation "x -q y" := (Qcminus x y) (at level 50, left associativity).
Local Notation q0 := (Q2Qc 0).
Local Notation q1 := (Q2Qc 1).

(** ** rounding *)
Lemma this_half : (this Qc_half == 1 # 2)%Q.
Proof. reflexivity. Qed.

Lemma Qc_abs_le a b : Qcle a b -> Qcle (Qcopp a) b -> Qcle (Qc_abs a) b.
Proof. intros H1 H2. unfold Qc_abs. destruct (Qle_bool 0 a); assumption. Qed.

(** |m - floor(m + 1/2)| <= 1/2 *)
Lemma round_half m : Qcle (Qc_abs (m -q Qc_of_Z (Qc_floor (m +q Qc_half)))) Qc_half.
Proof.
  unfold Qc_floor.
  pose proof (Qfloor_le (this (m +q Qc_half))) as L. pose proof (Qlt_floor (this (m +q Qc_half))) as U.
  rewrite inject_Z_plus in U. change (inject_Z 1) with 1%Q in U.
  set (z := Qfloor (this (m +q Qc_half))) in *.
  apply Qc_abs_le; to_Q; to_Q; rewrite this_ofZ; rewrite this_half in *; lra.
Qed.

Lemma Qc_leb_false a b : Qc_leb a b = false -> Qclt b a.
Proof.
  unfold Qc_leb. intros H. apply Qnot_le_lt. intros L. apply Qle_bool_iff in L. congruence.
Qed.

Lemma qc_div_pos a b : Qclt q0 a -> Qclt q0 b -> Qclt q0 (Qcdiv a b).
Proof.
  intros Ha Hb. unfold Qcle, Qclt in *. rewrite this_0 in *.
  assert (E : (this (Qcdiv a b) == this a / this b)%Q).
  { unfold Qcdiv. rewrite this_mult. unfold Qcinv, Q2Qc; cbn [this]. rewrite Qred_correct. reflexivity. }
  rewrite E. apply Qlt_shift_div_l; lra.
Qed.

Lemma qc_swapB_pos N1 N0 mu : Qclt q0 N1 -> Qclt q0 N0 -> Qclt q0 (N1 +q mu *q mu *q N0).
Proof. intros H1 H0. to_Q. nra. Qed.

Lemma qc_mul_pos a b : Qclt q0 a -> Qclt q0 b -> Qclt q0 (a *q b).
Proof. intros H1 H0. to_Q. nra. Qed.

Section Loop.
Variable n : nat.

Record linv (s : lstate (T:=Qc)) : Prop := mkLinv {
  li_wf : wfstate n s;
  li_gs : gs_rel n s;
  li_pos : forall i, (i <= l_kmax s)%nat -> Qclt q0 (Nb s i);
  li_ind : indep n s
}.

Lemma linv_with_k s k : linv s -> linv (with_k s k).
Proof.
  intros [W [G1 G2 G3] P I]. constructor; [exact W| |exact P|exact I].
  constructor; [exact G1|exact G2|exact G3].
Qed.

(** row i is size-reduced; rows i-1, i satisfy the Lovasz condition *)
Definition size_red (s : lstate (T:=Qc)) (i : nat) : Prop :=
  forall j, (j < i)%nat -> Qcle (Qc_abs (Mu s i j)) Qc_half.
Definition lov (s : lstate (T:=Qc)) (i : nat) : Prop :=
  Qcle ((Qc_34 -q Mu s i (i - 1) *q Mu s i (i - 1)) *q Nb s (i - 1)) (Nb s i).
Definition prefix_red (s : lstate (T:=Qc)) (k : nat) : Prop :=
  forall i, (i < k)%nat -> size_red s i /\ ((1 <= i)%nat -> lov s i).

Lemma prefix_red_ext s s' k :
  (forall i j, (i < k)%nat -> (j < i)%nat -> Mu s' i j = Mu s i j) ->
  (forall i, (i < k)%nat -> Nb s' i = Nb s i) ->
  prefix_red s k -> prefix_red s' k.
Proof.
  intros EM EN P i Hi. destruct (P i Hi) as [S L]. split.
  - intros j Hj. rewrite EM by lia. apply S. exact Hj.
  - intros H1. unfold lov. rewrite !EM, !EN by lia. apply L. exact H1.
Qed.

(** ** RED *)
Lemma red_mu_kl s k l s' : wfstate n s -> (l < k)%nat -> (k < n)%nat -> red F n s k l = Done s' ->
  Mu s' k l = if Qc_leb Qc_half (Qc_abs (Mu s k l))
              then Mu s k l -q Qc_of_Z (Qc_floor (Mu s k l +q Qc_half)) else Mu s k l.
Proof.
  intros (WB & WS & WM & Wb & Wk & WH) Hl Hk R. unfold red in R.
  change (fleb F (fhalf F) (fabs F (get2 F (l_mu s) k l))) with (Qc_leb Qc_half (Qc_abs (Mu s k l))) in R.
  destruct (Qc_leb Qc_half (Qc_abs (Mu s k l))).
  2:{ inversion R; subst s'. reflexivity. }
  cbn [to_int ffloor fadd fhalf F arithQ bind] in R.
  assert (Hl' : (l < n)%nat) by lia.
  pose proof (square_row n _ k WB Hk) as Bk. pose proof (square_row n _ l WB Hl') as Bl.
  pose proof (squareZ_row n _ k WH Hk) as Hk'. pose proof (squareZ_row n _ l WH Hl') as Hl''.
  pose proof (square_row n _ k WM Hk) as Mk. pose proof (square_row n _ l WM Hl') as Ml.
  pose proof (proj1 WM) as LM.
  unfold row, rowZ in R.
  rewrite upd_prefix_ok in R by lia. cbn [bind] in R.
  rewrite upd_prefix_ok in R by lia. cbn [bind] in R.
  inversion R; subst s'; clear R. unfold Mu at 1; cbn [l_mu].
  rewrite get2_set_nth by (unfold set2; rewrite length_set_nth; lia). rewrite Nat.eqb_refl.
  rewrite nth_pre_upd_out by lia. unfold set2, row.
  rewrite nth_set_nth_eq by lia. rewrite nth_set_nth_eq by lia.
  cbn [fsub to_real fofZ F arithQ]. reflexivity.
Qed.

Lemma red_facts s k l s' : wfstate n s -> (l < k)%nat -> (k < n)%nat -> red F n s k l = Done s' ->
  l_kmax s' = l_kmax s /\ l_k s' = l_k s /\
  (forall i, Nb s' i = Nb s i) /\
  (forall i j, i <> k -> Mu s' i j = Mu s i j) /\
  (forall j, (l < j)%nat -> Mu s' k j = Mu s k j) /\
  Qcle (Qc_abs (Mu s' k l)) Qc_half.
Proof.
  intros W Hl Hk R.
  pose proof (red_mu_kl s k l s' W Hl Hk R) as Ekl.
  destruct (red_entries n s k l s' W Hl Hk R) as (q & Emax & Ek & _ & Eb & _ & _ & EM).
  split; [exact Emax|]. split; [exact Ek|].
  split; [intros i; unfold Nb; rewrite Eb; reflexivity|].
  split; [|split].
  - intros i j Hne. rewrite EM. destruct (Nat.eqb_spec i k); [congruence|reflexivity].
  - intros j Hj. rewrite EM, Nat.eqb_refl.
    destruct (Nat.ltb_spec j l); [lia|]. destruct (Nat.eqb_spec j l); [lia|]. ring.
  - rewrite Ekl. destruct (Qc_leb Qc_half (Qc_abs (Mu s k l))) eqn:E.
    + apply round_half.
    + apply Qclt_le_weak. apply Qc_leb_false. exact E.
Qed.

Lemma red_linv s k l s' : linv s -> (l < k)%nat -> (k <= l_kmax s)%nat -> red F n s k l = Done s' -> linv s'.
Proof.
  intros [W G P I] Hl Hk R.
  assert (Hkn : (k < n)%nat) by (destruct W as (_ & _ & _ & _ & ? & _); lia).
  destruct (red_preserves_gs n s k l s' W G Hl Hk R) as [W' G'].
  destruct (red_facts s k l s' W Hl Hkn R) as (Emax & _ & EN & _).
  constructor; try assumption.
  - intros i Hi. rewrite EN. apply P. lia.
  - exact (red_indep n s k l s' W Hl Hkn R I).
Qed.

(** ** SWAP *)
Lemma swap_linv s k s' : linv s -> (k + 1 <= l_kmax s)%nat -> swap F n s k = Done s' ->
  linv s' /\ l_kmax s' = l_kmax s /\ l_k s' = l_k s /\
  (forall a b, (a < k)%nat -> (b < a)%nat -> Mu s' a b = Mu s a b) /\
  (forall a, (a < k)%nat -> Nb s' a = Nb s a).
Proof.
  intros [W G P I] Hk R.
  pose proof (P k ltac:(lia)) as P0. pose proof (P (k + 1)%nat Hk) as P1.
  pose proof (qc_swapB_pos _ _ (Mu s (k + 1) k) P1 P0) as PB.
  destruct (swap_preserves_gs n s k s' W G Hk (qc_pos_nz _ PB) R) as [W' G'].
  destruct (swap_entries n s k s' W Hk R) as (Emax & Ek & _ & _ & _ & EN & EM).
  split; [|split; [exact Emax|split; [exact Ek|split]]].
  - constructor; try assumption.
    + intros i Hi. rewrite EN.
      destruct (Nat.eqb_spec i k); [exact PB|].
      destruct (Nat.eqb_spec i (k + 1)).
      * apply qc_div_pos; [apply qc_mul_pos; assumption|exact PB].
      * apply P. lia.
    + exact (swap_indep n s k s' W Hk R I).
  - intros a b Ha Hb. rewrite EM.
    destruct (Nat.leb_spec (k + 2) a); [lia|]. cbn [andb].
    destruct (Nat.eqb_spec a (k + 1)); [lia|]. destruct (Nat.eqb_spec a k); [lia|]. cbn [andb].
    unfold sw. destruct (Nat.eqb_spec a k); [lia|]. destruct (Nat.eqb_spec a (k + 1)); [lia|]. reflexivity.
  - intros a Ha. rewrite EN.
    destruct (Nat.eqb_spec a k); [lia|]. destruct (Nat.eqb_spec a (k + 1)); [lia|]. reflexivity.
Qed.

(** ** step 2 *)
Lemma step2_linv s : linv s -> (1 <= l_k s < n)%nat -> (l_k s <= S (l_kmax s))%nat ->
  let s' := step2 F s in
  linv s' /\ l_k s' = l_k s /\ (l_k s <= l_kmax s')%nat /\
  (forall a b, (a < l_k s)%nat -> Mu s' a b = Mu s a b) /\
  (forall a, (a < l_k s)%nat -> Nb s' a = Nb s a).
Proof.
  intros L Hk Hmax s'. unfold s'.
  destruct (Nat.le_gt_cases (l_k s) (l_kmax s)) as [Hle|Hgt].
  - rewrite (step2_id s Hle). split; [exact L|]. split; [reflexivity|]. split; [exact Hle|]. split; reflexivity.
  - destruct L as [W G P I].
    assert (Ek : l_k s = S (l_kmax s)) by lia.
    destruct (step2_preserves_gs n s W ltac:(lia) G Ek) as [W' G'].
    { intros j Hj. apply qc_pos_nz. apply P. exact Hj. }
    destruct (step2_entries n s W ltac:(lia) Hgt) as (E1 & E2 & EB & _ & _ & _ & EM & EN).
    split; [|split; [exact E1|split; [rewrite E2; lia|split]]].
    + constructor; try assumption.
      * intros i Hi. rewrite E2 in Hi.
        destruct (Nat.eq_dec i (l_k s)) as [->|Hne].
        -- apply (step2_norm_pos n s W G I); [lia|exact Ek].
        -- rewrite EN. destruct (Nat.eqb_spec i (l_k s)); [congruence|]. apply P. lia.
      * apply (indep_ext n s); [|exact I]. intros i p. unfold Bv. rewrite EB. reflexivity.
    + intros a b Ha. rewrite EM. destruct (Nat.eqb_spec a (l_k s)); [lia|]. reflexivity.
    + intros a Ha. rewrite EN. destruct (Nat.eqb_spec a (l_k s)); [lia|]. reflexivity.
Qed.

(** ** the inner loop: RED(k, k-1), Lovasz test, SWAP(k-1), k := max(1, k-1) *)
Lemma lovasz_passes s : lovasz_fails F s = false -> lov s (l_k s).
Proof.
  unfold lovasz_fails, lov. cbn [fltb fmul fsub f34 F arithQ]. intros H.
  apply Qc_ltb_false in H. exact H.
Qed.

Lemma inner_loop_inv : forall fuel s s',
  inner_loop F fuel n s = Done s' ->
  linv s -> (1 <= l_k s <= l_kmax s)%nat -> prefix_red s (l_k s) ->
  linv s' /\ (1 <= l_k s' <= l_kmax s')%nat /\ prefix_red s' (l_k s') /\
  Qcle (Qc_abs (Mu s' (l_k s') (l_k s' - 1))) Qc_half /\ lov s' (l_k s').
Proof.
  induction fuel as [|f IH]; intros s s' H L Hk PR; [discriminate|].
  cbn [inner_loop] in H.
  destruct (red F n s (l_k s) (l_k s - 1)) as [s1| |] eqn:R; cbn [bind] in H; try discriminate.
  pose proof (li_wf s L) as W.
  assert (Hkn : (l_k s < n)%nat) by (destruct W as (_ & _ & _ & _ & ? & _); lia).
  pose proof (red_linv s (l_k s) (l_k s - 1)%nat s1 L ltac:(lia) ltac:(lia) R) as L1.
  destruct (red_facts s (l_k s) (l_k s - 1)%nat s1 W ltac:(lia) Hkn R) as (Emax & Ek & EN & EMo & _ & Ehalf).
  assert (PR1 : prefix_red s1 (l_k s)).
  { apply (prefix_red_ext s); [|intros; apply EN|exact PR]. intros i j Hi Hj. apply EMo. lia. }
  destruct (lovasz_fails F s1) eqn:LF.
  - destruct (swap F n s1 (l_k s1 - 1)) as [s2| |] eqn:SW; cbn [bind] in H; try discriminate.
    rewrite Ek in SW.
    destruct (swap_linv s1 (l_k s - 1)%nat s2 L1 ltac:(lia) SW) as (L2 & Emax2 & Ek2 & EM2 & EN2).
    apply IH in H.
    + exact H.
    + apply linv_with_k. exact L2.
    + cbn [with_k l_k l_kmax]. lia.
    + cbn [with_k l_k]. rewrite Ek2, Ek.
      intros i Hi.
      assert (Hi' : (i < l_k s - 1)%nat \/ (i = 0%nat /\ l_k s = 1%nat)) by lia.
      destruct Hi' as [Hi'|[-> E1]].
      * assert (PR2 : prefix_red s2 (l_k s - 1)).
        { apply (prefix_red_ext s1); [exact EM2|exact EN2|]. intros i' Hi''. apply PR1. lia. }
        exact (PR2 i Hi').
      * split; [intros j Hj; lia|intros; lia].
  - inversion H; subst s'. rewrite Ek.
    split; [exact L1|]. split; [lia|]. split; [exact PR1|]. split; [exact Ehalf|].
    rewrite <- Ek. apply lovasz_passes. exact LF.
Qed.

(** ** the descending size-reduction loop *)
Lemma red_down_inv : forall cnt s s',
  red_down F n s cnt = Done s' ->
  linv s -> (cnt < l_k s)%nat -> (l_k s <= l_kmax s)%nat ->
  prefix_red s (l_k s) ->
  (forall j, (cnt <= j < l_k s)%nat -> Qcle (Qc_abs (Mu s (l_k s) j)) Qc_half) ->
  lov s (l_k s) ->
  linv s' /\ l_k s' = l_k s /\ l_kmax s' = l_kmax s /\ prefix_red s' (S (l_k s)).
Proof.
  induction cnt as [|c IH]; intros s s' H L Hc Hk PR SZ LV; cbn [red_down] in H.
  - inversion H; subst s'. split; [exact L|]. split; [reflexivity|]. split; [reflexivity|].
    intros i Hi. destruct (Nat.eq_dec i (l_k s)) as [->|Hne].
    + split; [intros j Hj; apply SZ; lia|intros _; exact LV].
    + apply PR. lia.
  - destruct (red F n s (l_k s) c) as [s1| |] eqn:R; cbn [bind] in H; try discriminate.
    pose proof (li_wf s L) as W.
    assert (Hkn : (l_k s < n)%nat) by (destruct W as (_ & _ & _ & _ & ? & _); lia).
    pose proof (red_linv s (l_k s) c s1 L ltac:(lia) Hk R) as L1.
    destruct (red_facts s (l_k s) c s1 W ltac:(lia) Hkn R) as (Emax & Ek & EN & EMo & EMk & Ehalf).
    apply IH in H; try assumption; try lia.
    + destruct H as (L' & E1 & E2 & PR'). rewrite Ek in *. rewrite Emax in *. tauto.
    + rewrite Ek. apply (prefix_red_ext s); [|intros; apply EN|exact PR]. intros i j Hi Hj. apply EMo. lia.
    + rewrite Ek. intros j Hj. destruct (Nat.eq_dec j c) as [->|Hne]; [exact Ehalf|].
      rewrite EMk by lia. apply SZ. lia.
    + rewrite Ek. unfold lov. rewrite !EN. rewrite EMk by lia. exact LV.
Qed.

(** ** the outer loop *)
Lemma main_loop_inv : forall fuel s s',
  main_loop F fuel n s = Done s' ->
  linv s -> (1 <= l_k s < n)%nat -> (l_k s <= S (l_kmax s))%nat -> prefix_red s (l_k s) ->
  linv s' /\ S (l_kmax s') = n /\ prefix_red s' n.
Proof.
  induction fuel as [|f IH]; intros s s' H L Hk Hmax PR; [discriminate|].
  cbn [main_loop] in H.
  destruct (step2_linv s L Hk Hmax) as (L0 & Ek0 & Hmax0 & EM0 & EN0).
  destruct (inner_loop F f n (step2 F s)) as [s1| |] eqn:IL; cbn [bind] in H; try discriminate.
  apply inner_loop_inv in IL; [|exact L0|rewrite Ek0; lia|].
  2:{ rewrite Ek0. apply (prefix_red_ext s); [|exact EN0|exact PR]. intros i j Hi Hj. apply EM0. exact Hi. }
  destruct IL as (L1 & Hk1 & PR1 & Half1 & LV1).
  destruct (red_down F n s1 (l_k s1 - 1)) as [s2| |] eqn:RD; cbn [bind] in H; try discriminate.
  apply red_down_inv in RD; try assumption; try lia.
  2:{ intros j Hj. replace j with (l_k s1 - 1)%nat by lia. exact Half1. }
  destruct RD as (L2 & Ek2 & Emax2 & PR2).
  pose proof (li_wf s2 L2) as W2.
  assert (Hkn2 : (l_kmax s2 < n)%nat) by (destruct W2 as (_ & _ & _ & _ & ? & _); lia).
  destruct (Nat.leb_spec n (l_k s2 + 1)) as [Hex|Hgo].
  - inversion H; subst s'. split; [exact L2|].
    assert (E : S (l_k s2) = n) by lia. split; [lia|]. rewrite <- E, Ek2. exact PR2.
  - apply IH in H; try assumption.
    + apply linv_with_k. exact L2.
    + cbn [with_k l_k]. lia.
    + cbn [with_k l_k l_kmax]. lia.
    + cbn [with_k l_k]. rewrite Ek2. replace (l_k s1 + 1)%nat with (S (l_k s1)) by lia. exact PR2.
Qed.

End Loop.
