(** * W8C16Mod (C16, eighth wave): multiplication by an invertible ideal preserves indices -- the ideal-theoretic core.
      Abstract setting: a commutative ring R, "ideals" = predicates closed under 0, + and multiplication by R, the
      product of two predicates ([pprod]: finite sums of products), and an abstract index [lat S k] ("S is a lattice
      of index k") satisfying the axioms listed in the section (instantiated in W8C16Ring by full-rank sublattices of
      Z^n and |det|).  If I * N = (az) with az regular, then for ideals B inside A:
            [I A : I B] = [A : B]      (in the form  idx(I B) * idx(A) = idx(I A) * idx(B)).
      Proof (no prime ideals, constructive): induction on idx(B) - idx(A).  Take a in A \ B.  If B + aR is strictly
      between, use the induction hypothesis twice.  Otherwise A = B + aR; take c in IA \ IB; if IB + cR is strictly
      between IB and IA, pull it back by C = { v : az v in N (IB + cR) } (then I C = IB + cR, B < C < A) and use the
      induction hypothesis twice.  Otherwise IA = IB + cR as well, both quotients are cyclic with the same annihilator
      Q = { r : r a in B } = { r : r c in IB } (multiply by N and cancel az), and [A : B] = [R : Q] = [IA : IB] by the
      isomorphism axiom [lat_iso].
      Style: ssreflect/MathComp. *)
From Coq Require Import ZArith.
From mathcomp Require Import all_ssreflect ssralg.
From mathcomp Require Import ssrZ zify.
Set Implicit Arguments.
Unset Strict Implicit.
Unset Printing Implicit Defensive.
Import GRing.Theory.
Local Open Scope ring_scope.

Section Mod.
Variable R : comRingType.
Implicit Types (S T U X Y : R -> Prop) (x y z r a : R).

Definition subS S T := forall x, S x -> T x.
Definition eqS S T := forall x, S x <-> T x.

Record is_ideal S : Prop := IsIdeal {
  id0 : S 0;
  idD : forall x y, S x -> S y -> S (x + y);
  idM : forall r x, S x -> S (r * x) }.

Inductive pprod S T : R -> Prop :=
| pprod0 : pprod S T 0
| pprodS s t x : S s -> T t -> pprod S T x -> pprod S T (s * t + x).

Definition gen S a : R -> Prop := fun x => exists s r, S s /\ x = s + r * a.
Definition quo S a : R -> Prop := fun r => S (r * a).
Definition princ a : R -> Prop := fun x => exists y, x = a * y.
Definition scaled a X : R -> Prop := fun z => exists x, X x /\ z = a * x.
Definition full : R -> Prop := fun _ => True.

Lemma eqS_sub S T : eqS S T -> subS S T /\ subS T S.
Proof. by move=> e; split=> x /e. Qed.

Lemma sub_eqS S T : subS S T -> subS T S -> eqS S T.
Proof. by move=> h1 h2 x; split; [apply: h1|apply: h2]. Qed.

Lemma pprod_D S T x y : pprod S T x -> pprod S T y -> pprod S T (x + y).
Proof.
move=> hx hy; elim: hx => [|s t x' hs ht _ IH]; first by rewrite add0r.
by rewrite -addrA; apply: pprodS.
Qed.

Lemma pprod_in S T s t : S s -> T t -> pprod S T (s * t).
Proof. by move=> hs ht; rewrite -[s * t]addr0; apply: pprodS => //; apply: pprod0. Qed.

Lemma pprod_map S X Y r : (forall x, X x -> Y (r * x)) -> forall y, pprod S X y -> pprod S Y (r * y).
Proof.
move=> h y; elim=> [|s t x hs ht _ IH]; first by rewrite mulr0; apply: pprod0.
by rewrite mulrDr mulrCA; apply: pprodS => //; apply: h.
Qed.

Lemma pprod_ideal S T : is_ideal T -> is_ideal (pprod S T).
Proof.
move=> iT; split; first exact: pprod0.
  by move=> x y; apply: pprod_D.
by move=> r x; apply: pprod_map => t; apply: idM.
Qed.

Lemma pprod_mono S S' T T' : subS S S' -> subS T T' -> subS (pprod S T) (pprod S' T').
Proof.
move=> hS hT x; elim=> [|s t y hs ht _ IH]; first exact: pprod0.
by apply: pprodS => //; [apply: hS|apply: hT].
Qed.

Lemma pprod_C S T : subS (pprod S T) (pprod T S).
Proof.
move=> x; elim=> [|s t y hs ht _ IH]; first exact: pprod0.
by rewrite mulrC; apply: pprodS.
Qed.

Lemma pprod_sub_r S T : is_ideal T -> subS (pprod S T) T.
Proof.
move=> iT x; elim=> [|s t y hs ht _ IH]; first exact: id0.
by apply: idD => //; apply: idM.
Qed.

Lemma pprod_full_r S : is_ideal S -> eqS (pprod S full) S.
Proof.
move=> iS; apply: sub_eqS; first by move=> x /pprod_C /(pprod_sub_r iS).
by move=> x hx; rewrite -[x]mulr1; apply: pprod_in.
Qed.

Lemma pprod_assoc1 S T U : subS (pprod S (pprod T U)) (pprod (pprod S T) U).
Proof.
move=> x; elim=> [|s w y hs hw _ IH]; first exact: pprod0.
apply: pprod_D => //.
elim: hw => [|t u w' ht hu _ IH']; first by rewrite mulr0; apply: pprod0.
by rewrite mulrDr mulrA; apply: pprodS => //; apply: pprod_in.
Qed.

Lemma pprod_assoc2 S T U : subS (pprod (pprod S T) U) (pprod S (pprod T U)).
Proof.
move=> x; elim=> [|w u y hw hu _ IH]; first exact: pprod0.
apply: pprod_D => //.
elim: hw => [|s t w' hs ht _ IH']; first by rewrite mul0r; apply: pprod0.
by rewrite mulrDl -mulrA; apply: pprodS => //; apply: pprod_in.
Qed.

Lemma gen_ideal S a : is_ideal S -> is_ideal (gen S a).
Proof.
move=> iS; split.
- by exists 0, 0; split; [exact: id0|rewrite mul0r addr0].
- move=> x y [s [r [hs ->]]] [s' [r' [hs' ->]]]; exists (s + s'), (r + r'); split; first exact: idD.
  by rewrite mulrDl addrACA.
- move=> q x [s [r [hs ->]]]; exists (q * s), (q * r); split; first exact: idM.
  by rewrite mulrDr mulrA.
Qed.

Lemma gen_sub S a : is_ideal S -> subS S (gen S a).
Proof. by move=> iS x hx; exists x, 0; rewrite mul0r addr0. Qed.

Lemma gen_mem S a : is_ideal S -> gen S a a.
Proof. by move=> iS; exists 0, 1; split; [exact: id0|rewrite mul1r add0r]. Qed.

Lemma gen_least S T a : is_ideal T -> subS S T -> T a -> subS (gen S a) T.
Proof. by move=> iT hS ha x [s [r [hs ->]]]; apply: (idD iT); [apply: hS|apply: (idM iT)]. Qed.

Lemma quo_ideal S a : is_ideal S -> is_ideal (quo S a).
Proof.
move=> iS; split; rewrite /quo.
- by rewrite mul0r; exact: id0.
- by move=> x y hx hy; rewrite mulrDl; apply: idD.
- by move=> r x hx; rewrite -mulrA; apply: idM.
Qed.

(** ** the invertible ideal *)
Variables (I N : R -> Prop) (az : R).
Hypothesis iI : is_ideal I.
Hypothesis reg : forall x y, az * x = az * y -> x = y.
Hypothesis IN : eqS (pprod I N) (princ az).

Lemma NI : eqS (pprod N I) (princ az).
Proof. by move=> x; split=> [/pprod_C /IN|/IN /pprod_C]. Qed.

Lemma scaled_ideal X : is_ideal X -> is_ideal (scaled az X).
Proof.
move=> iX; split.
- by exists 0; split; [exact: id0|rewrite mulr0].
- by move=> x y [x' [hx ->]] [y' [hy ->]]; exists (x' + y'); split; [exact: idD|rewrite mulrDr].
- by move=> r x [x' [hx ->]]; exists (r * x'); split; [exact: idM|rewrite mulrCA].
Qed.

Section Cancel.
Variables P Q : R -> Prop.
Hypothesis PQ : eqS (pprod P Q) (princ az).

Lemma canc1 X : is_ideal X -> subS (pprod Q (pprod P X)) (scaled az X).
Proof.
move=> iX x /pprod_assoc1 /(pprod_mono (@pprod_C Q P) (fun x h => h)).
have iS := scaled_ideal iX.
elim=> [|w u y /PQ [y0 ->] hu _ IH]; first exact: id0.
by apply: idD => //; exists (y0 * u); split; [exact: idM|rewrite mulrA].
Qed.

Lemma canc2 X : subS (scaled az X) (pprod Q (pprod P X)).
Proof.
move=> z [x [hx ->]].
have haz : pprod P Q az by apply/PQ; exists 1; rewrite mulr1.
elim: haz => [|p q w hp hq _ IH]; first by rewrite mul0r; apply: pprod0.
by rewrite mulrDl -mulrA mulrCA; apply: pprodS => //; apply: pprod_in.
Qed.
End Cancel.

Lemma mul_inj X Y : is_ideal X -> is_ideal Y -> subS (pprod I X) (pprod I Y) -> subS X Y.
Proof.
move=> iX iY h x hx.
have : scaled az X (az * x) by exists x.
move=> /(canc2 IN) /(pprod_mono (fun x h => h) h) /(canc1 IN iY) [y [hy /reg ->]].
exact: hy.
Qed.

(** ** the index *)
Variable lat : (R -> Prop) -> Z -> Prop.
Hypothesis lat_ext : forall S T k, eqS S T -> lat S k -> lat T k.
Hypothesis lat_pos : forall S k, lat S k -> (0 < k)%Z.
Hypothesis lat_sub : forall S T k k', subS S T -> lat S k -> lat T k' -> (k' <= k)%Z /\ (k = k' -> subS T S).
Hypothesis lat_wit : forall S T k k', subS S T -> lat S k -> lat T k' -> k <> k' -> exists x, T x /\ ~ S x.
Hypothesis lat_iso : forall S k a, lat S k -> exists kq kg, [/\ lat (quo S a) kq, lat (gen S a) kg & k = (kq * kg)%Z].
Hypothesis lat_prod : forall S T k k', lat S k -> lat T k' -> exists k'', lat (pprod S T) k''.

Lemma lat_uniq S k k' : lat S k -> lat S k' -> k = k'.
Proof.
move=> h h'.
have [le1 _] := lat_sub (fun x hx => hx) h h'.
have [le2 _] := lat_sub (fun x hx => hx) h' h.
lia.
Qed.

Lemma lat_eq S T k k' : eqS S T -> lat S k -> lat T k' -> k = k'.
Proof. by move=> e /(lat_ext e) h h'; apply: (lat_uniq h h'). Qed.

Variables (kI kN : Z).
Hypothesis lI : lat I kI.
Hypothesis lN : lat N kN.

(** both quotients cyclic: the annihilators agree *)
Lemma ann_eq A B a c : is_ideal A -> is_ideal B -> subS B A ->
  eqS (gen B a) A -> eqS (gen (pprod I B) c) (pprod I A) ->
  eqS (quo B a) (quo (pprod I B) c).
Proof.
move=> iA iB BA eA eIA.
have iIB : is_ideal (pprod I B) by apply: pprod_ideal.
have Aa : A a by apply/eA; apply: gen_mem.
have IAc : pprod I A c by apply/eIA; apply: gen_mem.
move=> r; rewrite /quo; split=> h.
- have hA x : A x -> B (r * x).
    move=> /eA [s [q [hs ->]]]; rewrite mulrDr mulrCA; apply: (idD iB); first exact: (idM iB).
    exact: (idM iB).
  exact: (pprod_map hA).
- have hIA y : pprod I A y -> pprod I B (r * y).
    move=> /eIA [s [q [hs ->]]]; rewrite mulrDr mulrCA; apply: (idD iIB); first exact: (idM iIB).
    exact: (idM iIB).
  have : scaled az A (az * a) by exists a.
  move=> /(canc2 IN) /(pprod_map hIA) /(canc1 IN iB) [b [hb]].
  by rewrite mulrCA => /reg ->.
Qed.

(** the pull-back of an ideal D between I B and I A *)
Section Pull.
Variables (A D : R -> Prop).
Hypothesis iA : is_ideal A.
Hypothesis iD : is_ideal D.
Hypothesis DA : subS D (pprod I A).

Definition pull : R -> Prop := quo (pprod N D) az.

Lemma pull_ideal : is_ideal pull.
Proof. by apply: quo_ideal; apply: pprod_ideal. Qed.

Lemma ND_div z : pprod N D z -> exists v, pull v /\ z = az * v.
Proof.
move=> hz.
have [x [hx e]] := canc1 IN iA (pprod_mono (fun x h => h) DA hz).
by exists x; split=> //; rewrite /pull /quo mulrC -e.
Qed.

Lemma pull_sub : subS pull A.
Proof.
move=> v hv; have [x [hx e]] := canc1 IN iA (pprod_mono (fun x h => h) DA hv).
by move: e; rewrite mulrC => /reg ->.
Qed.

Lemma pull_sup B : subS (pprod I B) D -> subS B pull.
Proof.
move=> BD b hb; rewrite /pull /quo mulrC.
apply: (pprod_mono (fun x h => h) BD).
by apply: (canc2 IN); exists b.
Qed.

Lemma pull_mul : eqS (pprod I pull) D.
Proof.
apply: sub_eqS => x.
- elim=> [|i v y hi hv _ IH]; first exact: id0.
  apply: idD => //.
  have : pprod I (pprod N D) (i * (v * az)) by apply: pprod_in.
  move=> /(canc1 NI iD) [dd [hd]]; rewrite mulrA mulrC => /reg ->.
  exact: hd.
- move=> hx.
  have : scaled az D (az * x) by exists x.
  move=> /(canc2 NI) h.
  suff [u [hu /reg ->]] : exists u, pprod I pull u /\ az * x = az * u by [].
  elim: h => [|i z y hi hz _ [u [hu ->]]]; first by exists 0; split; [exact: pprod0|rewrite mulr0].
  have [v [hv ->]] := ND_div hz.
  by exists (i * v + u); split; [apply: pprodS|rewrite mulrDr mulrCA].
Qed.
End Pull.

(** ** the theorem *)
Lemma index_transport_aux (m : nat) : forall A B kA kB kIA kIB,
  is_ideal A -> is_ideal B -> subS B A -> lat A kA -> lat B kB -> lat (pprod I A) kIA -> lat (pprod I B) kIB ->
  (Z.to_nat (kB - kA) < m)%nat -> (kIB * kA = kIA * kB)%Z.
Proof.
elim: m => [|m IHm] A B kA kB kIA kIB iA iB BA lA lB lIA lIB hm //.
have pA := lat_pos lA; have pB := lat_pos lB.
have [leAB eAB] := lat_sub BA lB lA.
have iIA : is_ideal (pprod I A) by apply: pprod_ideal.
have iIB : is_ideal (pprod I B) by apply: pprod_ideal.
have IBA : subS (pprod I B) (pprod I A) by apply: pprod_mono.
case: (Z.eq_dec kB kA) => [e|ne].
  have eS : eqS A B by apply: sub_eqS => //; apply: eAB.
  have e' : kIA = kIB.
    apply: (lat_eq _ lIA lIB); apply: sub_eqS; apply: pprod_mono => // x; by [move/eS|move/eS].
  by rewrite e e'.
(* a in A \ B *)
have [a [Aa nBa]] := lat_wit BA lB lA ne.
have [kq [kg [lq lg ekB]]] := lat_iso a lB.
have iG := gen_ideal a iB.
have BG := gen_sub a iB.
have GA : subS (gen B a) A by apply: gen_least.
have [leGB eGB] := lat_sub BG lB lg.
have [leAG eAG] := lat_sub GA lg lA.
have neGB : kg <> kB by move=> e; apply: nBa; apply: (eGB (esym e)); apply: gen_mem.
have pG := lat_pos lg.
case: (Z.eq_dec kg kA) => [eGA|neGA]; last first.
  have [kIG lIG] := lat_prod lI lg.
  have h1 : (kIG * kA = kIA * kg)%Z by apply: (IHm A (gen B a)) => //; lia.
  have h2 : (kIB * kg = kIG * kB)%Z by apply: (IHm (gen B a) B) => //; lia.
  have pIG := lat_pos lIG.
  by nia.
have eGA' : eqS (gen B a) A by apply: sub_eqS => //; apply: eAG.
(* c in IA \ IB *)
have [leIAB eIAB] := lat_sub IBA lIB lIA.
have neI : kIB <> kIA.
  move=> e; apply: nBa; apply: (mul_inj iA iB) => //; exact: eIAB.
have [c [IAc nIBc]] := lat_wit IBA lIB lIA neI.
have [kq' [kd [lq' ld ekIB]]] := lat_iso c lIB.
have iD := gen_ideal c iIB.
have IBD := gen_sub c iIB.
have DIA : subS (gen (pprod I B) c) (pprod I A) by apply: gen_least.
have [leDIA eDIA] := lat_sub DIA ld lIA.
case: (Z.eq_dec kd kIA) => [eD|neD].
  have eD' : eqS (gen (pprod I B) c) (pprod I A) by apply: sub_eqS => //; apply: eDIA.
  have eq : kq = kq' by apply: (lat_eq (ann_eq iA iB BA eGA' eD') lq lq').
  by rewrite ekIB ekB eq eD -eGA; lia.
(* the pull-back *)
set D := gen (pprod I B) c in iD IBD DIA leDIA eDIA ld.
have iC := pull_ideal iD.
have CA := pull_sub iA DIA.
have [kND lND] := lat_prod lN ld.
have [kC [kg' [lC _ _]]] := lat_iso az lND.
have BC := pull_sup IBD.
have eIC := pull_mul iA iD DIA.
have lIC : lat (pprod I (pull D)) kd by apply: (lat_ext _ ld) => x; split=> /eIC.
have [leCB eCB] := lat_sub BC lB lC.
have [leAC eAC] := lat_sub CA lC lA.
have neCA : kC <> kA.
  move=> e; apply: neD; apply: (lat_eq _ ld lIA); apply: sub_eqS => // x hx.
  by apply/eIC; apply: (pprod_mono (fun x h => h) (eAC e)).
have neCB : kC <> kB.
  move=> e; apply: nIBc.
  have : pprod I (pull D) c by apply/eIC; apply: gen_mem.
  exact: (pprod_mono (fun x h => h) (eCB (esym e))).
have h1 : (kd * kA = kIA * kC)%Z by apply: (IHm A (pull D)) => //; lia.
have h2 : (kIB * kC = kd * kB)%Z by apply: (IHm (pull D) B) => //; lia.
have pC := lat_pos lC; have pd := lat_pos ld.
by nia.
Qed.

Theorem index_transport A B kA kB kIA kIB :
  is_ideal A -> is_ideal B -> subS B A -> lat A kA -> lat B kB -> lat (pprod I A) kIA -> lat (pprod I B) kIB ->
  (kIB * kA = kIA * kB)%Z.
Proof. by move=> iA iB BA lA lB lIA lIB; apply: (@index_transport_aux (Z.to_nat (kB - kA)).+1 A B). Qed.

(** norm(I J) = norm(I) norm(J) *)
Corollary index_mul J kJ kIJ : lat full 1%Z -> is_ideal J -> lat J kJ -> lat (pprod I J) kIJ -> kIJ = (kI * kJ)%Z.
Proof.
move=> l1 iJ lJ lIJ.
have ifull : is_ideal full by split.
have lIf : lat (pprod I full) kI by apply: (lat_ext _ lI) => x; split=> /(pprod_full_r iI).
have := @index_transport full J 1%Z kJ kI kIJ ifull iJ (fun _ _ => Logic.I) l1 lJ lIf lIJ.
lia.
Qed.
End Mod.
