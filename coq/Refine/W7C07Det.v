(** * W7C07Det: the row-sum bound of a determinant, |det A| <= prod_i sum_j |A i j| (Leibniz formula: the
    sum over the permutations is bounded by the sum over ALL functions, which factors), over any numeric
    domain, and its consequence for resultants: |Res(p, q)| <= ||p||_1^(deg q) * ||q||_1^(deg p)
    (the Sylvester matrix has deg q rows that are shifts of p and deg p rows that are shifts of q). MathComp. *)
From mathcomp Require Import all_ssreflect all_fingroup ssralg ssrnum poly matrix mxpoly.
Set Implicit Arguments.
Unset Strict Implicit.
Unset Printing Implicit Defensive.
Import Order.TTheory GRing.Theory Num.Theory.
Local Open Scope ring_scope.

Section DetRowSum.
Variable R : numDomainType.

Lemma det_row_sum_le n (A : 'M[R]_n) : `|\det A| <= \prod_i \sum_j `|A i j|.
Proof.
rewrite /determinant; apply: le_trans (ler_norm_sum _ _ _) _.
rewrite bigA_distr_bigA /=.
pose h (s : 'S_n) : {ffun 'I_n -> 'I_n} := [ffun i => s i].
have hinj : {in [set: 'S_n] &, injective h}.
  by move=> s t _ _ est; apply/permP => i; move/ffunP/(_ i): est; rewrite !ffunE.
pose G (f : {ffun 'I_n -> 'I_n}) : R := \prod_i `|A i (f i)|.
have G0 f : 0 <= G f by apply: prodr_ge0 => i _; exact: normr_ge0.
have -> : \sum_(s : 'S_n) `|(-1) ^+ s * \prod_i A i (s i)| = \sum_(f in h @: [set: 'S_n]) G f.
  rewrite big_imset //=; apply: eq_big => [s|s _]; first by rewrite inE.
  rewrite normrM normrX normrN1 expr1n mul1r normr_prod /G.
  by apply: eq_bigr => i _; rewrite ffunE.
rewrite [X in _ <= X](bigID (mem (h @: [set: 'S_n]))) /= ler_addl.
by apply: sumr_ge0 => f _; exact: G0.
Qed.

(** the l1 norm of a polynomial *)
Definition norm1 (p : {poly R}) : R := \sum_(i < size p) `|p`_i|.

Lemma norm1_ge0 (p : {poly R}) : 0 <= norm1 p.
Proof. by apply: sumr_ge0 => i _; exact: normr_ge0. Qed.

Lemma norm1_nat (p : {poly R}) m : (size p <= m)%N -> \sum_(0 <= i < m) `|p`_i| = norm1 p.
Proof.
move=> le; rewrite (big_cat_nat _ _ _ (leq0n (size p)) le) /= big_mkord -/(norm1 p).
rewrite big_nat_cond big1 ?addr0 // => i; rewrite andbT => /andP[hi _].
by rewrite nth_default // normr0.
Qed.

Lemma sum_prefix_le (p : {poly R}) m : \sum_(0 <= i < m) `|p`_i| <= norm1 p.
Proof.
rewrite -(norm1_nat (leq_maxr m (size p))).
rewrite [X in _ <= X](big_cat_nat _ _ _ (leq0n m) (leq_maxl m (size p))) /= ler_addl.
by apply: sumr_ge0 => i _; exact: normr_ge0.
Qed.

(** one row of a Sylvester matrix: a shift of the coefficient vector *)
Lemma shift_row_sum_le (p : {poly R}) (m k : nat) :
  \sum_(j < m) `|p`_(j - k) *+ (k <= j)%N| <= norm1 p.
Proof.
rewrite -(big_mkord xpredT (fun j => `|p`_(j - k) *+ (k <= j)%N|)).
case: (leqP k m) => [le|lt].
- rewrite (big_cat_nat _ _ _ (leq0n k) le) /=.
  rewrite big_nat_cond big1 ?add0r; last first.
    by move=> i; rewrite andbT => /andP[_ hi]; rewrite leqNgt hi mulr0n normr0.
  rewrite -{1}[k]add0n big_addn.
  apply: le_trans (sum_prefix_le p (m - k)).
  by rewrite le_eqVlt; apply/orP; left; apply/eqP; apply: eq_bigr => i _; rewrite addnK leq_addl mulr1n.
- rewrite big_nat_cond big1 ?norm1_ge0 // => i; rewrite andbT => /andP[_ hi].
  by rewrite leqNgt (ltn_trans hi lt) mulr0n normr0.
Qed.

Lemma resultant_row_sum_le (p q : {poly R}) :
  `|resultant p q| <= norm1 p ^+ (size q).-1 * norm1 q ^+ (size p).-1.
Proof.
apply: le_trans (det_row_sum_le _) _.
rewrite big_split_ord /=; apply: ler_pmul.
- by apply: prodr_ge0 => i _; apply: sumr_ge0 => j _; exact: normr_ge0.
- by apply: prodr_ge0 => i _; apply: sumr_ge0 => j _; exact: normr_ge0.
- rewrite -[X in _ <= _ ^+ X]card_ord -prodr_const.
  apply: ler_prod => i _; apply/andP; split; first by apply: sumr_ge0 => j _; exact: normr_ge0.
  apply: le_trans (shift_row_sum_le p ((size q).-1 + (size p).-1) i).
  rewrite le_eqVlt; apply/orP; left; apply/eqP; apply: eq_bigr => j _.
  by rewrite Sylvester_mxE (unsplitK (inl i)).
- rewrite -[X in _ <= _ ^+ X]card_ord -prodr_const.
  apply: ler_prod => i _; apply/andP; split; first by apply: sumr_ge0 => j _; exact: normr_ge0.
  apply: le_trans (shift_row_sum_le q ((size q).-1 + (size p).-1) i).
  rewrite le_eqVlt; apply/orP; left; apply/eqP; apply: eq_bigr => j _.
  by rewrite Sylvester_mxE (unsplitK (inr i)).
Qed.

End DetRowSum.
