(** * Scalar facts about the mod-p model: [modpow], [modinv], [poly_mod] (stdlib + lia). *)
From Coq Require Import ZArith List Lia Znumtheory.
From RNT.Model Require Import Base Poly PolyModP.
Import ListNotations.
Open Scope Z_scope.

(** ** modpow *)

(** The truncating remainder is congruent to its argument. *)
Lemma rem_mod_eq a m : m <> 0 -> (Z.rem a m) mod m = a mod m.
Proof.
  intros Hm. rewrite (Z.quot_rem' a m) at 2.
  rewrite Z.add_comm, Z.mul_comm, Z.mod_add by exact Hm. reflexivity.
Qed.

Lemma rem_nonneg_mod a m : 0 <= a -> 0 < m -> Z.rem a m = a mod m.
Proof. intros Ha Hm. apply Z.rem_mod_nonneg; lia. Qed.

Lemma mod_sub_0 a b p : p <> 0 -> (a - b) mod p = 0 -> a mod p = b mod p.
Proof.
  intros Hp H. replace a with (b + (a - b)) at 1 by ring.
  rewrite Z.add_mod, H, Z.add_0_r, Z.mod_mod by exact Hp. reflexivity.
Qed.

Lemma mul_cong m a a' b b' : m <> 0 -> a mod m = a' mod m -> b mod m = b' mod m ->
  (a * b) mod m = (a' * b') mod m.
Proof. intros Hm Ha Hb. rewrite Z.mul_mod, Ha, Hb, <- Z.mul_mod by exact Hm. reflexivity. Qed.

Lemma pow_cong m a a' e : m <> 0 -> 0 <= e -> a mod m = a' mod m -> (a ^ e) mod m = (a' ^ e) mod m.
Proof.
  intros Hm He Ha. pattern e. apply natlike_ind; [reflexivity| |exact He].
  intros k Hk IH. rewrite !Z.pow_succ_r by exact Hk. apply mul_cong; assumption.
Qed.

Lemma modpow_loop_cong e : forall product current m,
  m <> 0 ->
  (modpow_loop e product current m) mod m = (product * current ^ Zpos e) mod m.
Proof.
  induction e as [e IH | e IH |]; intros product current m Hm; cbn [modpow_loop].
  - rewrite IH by exact Hm.
    replace (Zpos e~1) with (2 * Zpos e + 1) by lia.
    rewrite Z.pow_add_r, Z.pow_1_r, Z.pow_mul_r, Z.pow_2_r by lia.
    replace (product * ((current * current) ^ Zpos e * current))
      with ((product * current) * (current * current) ^ Zpos e) by ring.
    apply mul_cong; [exact Hm|apply rem_mod_eq; exact Hm|].
    apply pow_cong; [exact Hm|lia|apply rem_mod_eq; exact Hm].
  - rewrite IH by exact Hm.
    replace (Zpos e~0) with (2 * Zpos e) by lia.
    rewrite Z.pow_mul_r, Z.pow_2_r by lia.
    apply mul_cong; [exact Hm|reflexivity|].
    apply pow_cong; [exact Hm|lia|apply rem_mod_eq; exact Hm].
  - rewrite rem_mod_eq by exact Hm. rewrite Z.pow_1_r. reflexivity.
Qed.

Lemma modpow_loop_nonneg e : forall product current m,
  0 < m -> 0 <= product -> 0 <= current ->
  0 <= modpow_loop e product current m < m.
Proof.
  assert (R : forall a m, 0 <= a -> 0 < m -> 0 <= Z.rem a m < m).
  { intros a m Ha Hm. rewrite rem_nonneg_mod by lia. apply Z.mod_pos_bound; lia. }
  induction e as [e IH | e IH |]; intros product current m Hm Hp Hc; cbn [modpow_loop].
  - apply IH; try lia; apply R; nia.
  - apply IH; try lia; apply R; nia.
  - apply R; nia.
Qed.

(** [P] [modpow] never runs out of fuel and only panics for modulus 0 with e > 0. *)
Lemma modpow_total x e m : m <> 0 -> exists r, modpow x e m = Done r.
Proof.
  intros Hm. unfold modpow. destruct e; try (eexists; reflexivity).
  destruct (Z.eqb_spec m 0); [contradiction|]. eexists; reflexivity.
Qed.

(** [P] congruence, any sign of x and of the modulus. *)
Lemma modpow_cong x e m r : m <> 0 -> 0 <= e -> modpow x e m = Done r -> r mod m = x ^ e mod m.
Proof.
  intros Hm He. unfold modpow. destruct e as [|pe|pe]; try lia.
  - intros H; inversion H; subst. reflexivity.
  - destruct (Z.eqb_spec m 0); [contradiction|]. intros H; inversion H; subst.
    rewrite modpow_loop_cong by exact Hm. f_equal. ring.
Qed.

(** [P] [modpow_spec]: for 0 <= x, 0 <= e, 0 < m the result is x^e mod m, except that
    e = 0 returns 1 unreduced (so for m = 1 the result is 1, not 0). *)
Lemma modpow_spec x e m r :
  0 < m -> 0 <= e -> 0 <= x -> modpow x e m = Done r ->
  r = (if e =? 0 then 1 else x ^ e mod m).
Proof.
  intros Hm He Hx H.
  destruct e as [|pe|pe]; try lia.
  - cbn in H. inversion H. reflexivity.
  - cbn [Z.eqb]. pose proof (modpow_cong x (Zpos pe) m r ltac:(lia) ltac:(lia) H) as C.
    unfold modpow in H. destruct (Z.eqb_spec m 0); [lia|]. inversion H as [E].
    pose proof (modpow_loop_nonneg pe 1 x m Hm ltac:(lia) Hx) as B.
    rewrite <- C. rewrite E in B. rewrite Z.mod_small; lia.
Qed.

(** [modinv]: under Fermat's congruence the result is the inverse. *)
Lemma modinv_spec_cond x p r :
  2 < p -> (x ^ (p - 1)) mod p = 1 -> modinv x p = Done r -> (r * x) mod p = 1.
Proof.
  intros Hp F H. unfold modinv in H.
  pose proof (modpow_cong x (p - 2) p r ltac:(lia) ltac:(lia) H) as C.
  rewrite Z.mul_mod, C, <- Z.mul_mod by lia.
  replace (x ^ (p - 2) * x) with (x ^ (p - 1)); [exact F|].
  replace (p - 1) with (p - 2 + 1) by lia. rewrite Z.pow_add_r by lia. ring.
Qed.

Lemma modinv_total x p : exists r, modinv x p = Done r.
Proof.
  unfold modinv, modpow. destruct (p - 2) eqn:E; try (eexists; reflexivity).
  destruct (Z.eqb_spec p 0); [lia|]. eexists; reflexivity.
Qed.

(** ** Canonical lists and [poly_mod] *)

Definition canonical (l : list Z) : Prop := from_raw opsZ l = l.
Definition in_range (p : Z) (l : list Z) : Prop := Forall (fun c => 0 <= c < p) l.

Lemma strip_nil_iff l : strip opsZ l = [] <-> Forall (fun c => c = 0) l.
Proof.
  induction l as [|x t IH]; cbn [strip]; [split; auto|].
  destruct (strip opsZ t) eqn:E.
  - unfold is0; cbn [reqb r0 opsZ]. destruct (Z.eqb_spec x 0).
    + split; [intros _; constructor; [assumption|apply IH; reflexivity]|reflexivity].
    + split; [discriminate|]. intros H; inversion H; contradiction.
  - split; [discriminate|]. intros H; inversion H; subst.
    assert (z :: l = []) by (apply IH; assumption). discriminate.
Qed.

Lemma strip_cons x t :
  strip opsZ (x :: t) = match strip opsZ t with
                        | [] => if is0 opsZ x then [] else [x]
                        | t' => x :: t'
                        end.
Proof. reflexivity. Qed.

Lemma strip_idem l : strip opsZ (strip opsZ l) = strip opsZ l.
Proof.
  induction l as [|x t IH]; cbn [strip]; [reflexivity|].
  destruct (strip opsZ t) eqn:E.
  - unfold is0; cbn [reqb r0 opsZ]. destruct (Z.eqb_spec x 0); [reflexivity|].
    cbn [strip]. unfold is0; cbn [reqb r0 opsZ]. destruct (Z.eqb_spec x 0); [contradiction|reflexivity].
  - rewrite strip_cons, IH. reflexivity.
Qed.

Lemma from_raw_canonical l : canonical (from_raw opsZ l).
Proof. apply strip_idem. Qed.

Lemma strip_Forall (P : Z -> Prop) l : Forall P l -> Forall P (strip opsZ l).
Proof.
  induction 1 as [|x t Hx Ht IH]; cbn [strip]; [constructor|].
  destruct (strip opsZ t) eqn:E.
  - destruct (is0 opsZ x); constructor; [assumption|constructor].
  - constructor; assumption.
Qed.

Lemma strip_length l : (length (strip opsZ l) <= length l)%nat.
Proof.
  induction l as [|x t IH]; cbn [strip length]; [lia|].
  destruct (strip opsZ t) eqn:E; [destruct (is0 opsZ x); cbn [length]; lia|cbn [length] in *; lia].
Qed.

Lemma strip_nth l i : nth i (strip opsZ l) 0 = nth i l 0.
Proof.
  revert i; induction l as [|x t IH]; intros i; cbn [strip]; [reflexivity|].
  destruct (strip opsZ t) eqn:E.
  - assert (Z0 : Forall (fun c => c = 0) t) by (apply strip_nil_iff; exact E).
    assert (N : forall j, nth j t 0 = 0).
    { intros j. destruct (nth_in_or_default j t 0) as [H|H]; [|exact H].
      rewrite Forall_forall in Z0. apply Z0; exact H. }
    unfold is0; cbn [reqb r0 opsZ]. destruct (Z.eqb_spec x 0).
    + destruct i; cbn [nth]; [symmetry; assumption|symmetry; apply N].
    + destruct i; cbn [nth]; [reflexivity|]. destruct i; symmetry; apply N.
  - destruct i; cbn [nth]; [reflexivity|]. rewrite <- IH. reflexivity.
Qed.

Lemma strip_last l : strip opsZ l <> [] -> last (strip opsZ l) 0 <> 0.
Proof.
  induction l as [|x t IH]; [intros H; exact (False_ind _ (H eq_refl))|].
  rewrite strip_cons. destruct (strip opsZ t) as [|z l'] eqn:E.
  - unfold is0; cbn [reqb r0 opsZ]. destruct (Z.eqb_spec x 0); [intros H; exact (False_ind _ (H eq_refl))|].
    intros _. cbn [last]. assumption.
  - intros _. change (last (x :: z :: l') 0) with (last (z :: l') 0). apply IH. discriminate.
Qed.

Lemma canonical_last l : canonical l -> l <> [] -> last l 0 <> 0.
Proof.
  unfold canonical, from_raw. intros Hc Hn. rewrite <- Hc. apply strip_last. rewrite Hc. exact Hn.
Qed.

Lemma canonical_of_last l : (l <> [] -> last l 0 <> 0) -> canonical l.
Proof.
  unfold canonical, from_raw. induction l as [|x t IH]; [reflexivity|]. intros H.
  rewrite strip_cons. destruct t as [|y t'].
  - cbn [strip]. unfold is0; cbn [reqb r0 opsZ]. destruct (Z.eqb_spec x 0); [|reflexivity].
    exfalso. apply H; [discriminate|]. cbn. assumption.
  - rewrite IH; [reflexivity|]. intros _. apply H. discriminate.
Qed.

(** [P] [poly_mod]: total for p <> 0; the result is canonical with coefficients in [0,p)
    (for p > 0) and coefficientwise congruent to the argument. *)
Lemma poly_mod_total f p : p <> 0 -> exists r, poly_mod f p = Done r.
Proof.
  intros Hp. unfold poly_mod. destruct f; [eexists; reflexivity|].
  destruct (Z.eqb_spec p 0); [contradiction|eexists; reflexivity].
Qed.

Lemma poly_mod_eq f p : p <> 0 -> canonical f ->
  poly_mod f p = Done (from_raw opsZ (map (fun c => c mod p) f)).
Proof.
  intros Hp _. unfold poly_mod. destruct f; [reflexivity|].
  destruct (Z.eqb_spec p 0); [contradiction|reflexivity].
Qed.

Lemma poly_mod_eq' f p : p <> 0 ->
  poly_mod f p = Done (from_raw opsZ (map (fun c => c mod p) f)).
Proof.
  intros Hp. unfold poly_mod. destruct f; [reflexivity|].
  destruct (Z.eqb_spec p 0); [contradiction|reflexivity].
Qed.

Lemma poly_mod_reduced f p r :
  0 < p -> poly_mod f p = Done r -> canonical r /\ in_range p r.
Proof.
  intros Hp H. rewrite poly_mod_eq' in H by lia. inversion H; subst. split.
  - apply from_raw_canonical.
  - apply strip_Forall. apply Forall_forall. intros c Hc.
    apply in_map_iff in Hc. destruct Hc as [c0 [<- _]]. apply Z.mod_pos_bound; lia.
Qed.

Lemma poly_mod_nth f p r i :
  p <> 0 -> poly_mod f p = Done r -> nth i r 0 = (nth i f 0) mod p.
Proof.
  intros Hp H. rewrite poly_mod_eq' in H by lia. inversion H; subst.
  unfold from_raw. rewrite strip_nth.
  change 0 with ((fun c => c mod p) 0) at 1. rewrite map_nth. reflexivity.
Qed.

(** A canonical list with coefficients in [0,p) is a fixed point of [poly_mod]. *)
Lemma poly_mod_id f p : 0 < p -> canonical f -> in_range p f -> poly_mod f p = Done f.
Proof.
  intros Hp Hc Hr. rewrite poly_mod_eq' by lia. f_equal.
  replace (map (fun c => c mod p) f) with f; [exact Hc|].
  clear Hc. induction Hr as [|x t Hx Ht IH]; [reflexivity|].
  cbn [map]. rewrite Z.mod_small by lia. f_equal. exact IH.
Qed.

(** ** num's [extended_gcd] *)

Lemma num_egcd_loop_spec a b fuel : forall r0 r1 s0 s1 t0 t1 g x y,
  r0 = a * s0 + b * t0 -> r1 = a * s1 + b * t1 ->
  num_egcd_loop fuel r0 r1 s0 s1 t0 t1 = Done (g, x, y) ->
  g = a * x + b * y /\ g = Z.gcd r0 r1.
Proof.
  induction fuel as [|f IH]; intros r0 r1 s0 s1 t0 t1 g x y H0 H1; cbn [num_egcd_loop]; [discriminate|].
  destruct (Z.eqb_spec r0 0) as [E|E].
  - rewrite E, Z.gcd_0_l. destruct (Z.leb_spec 0 r1); intros HD; inversion HD; subst g x y; split; lia.
  - intros H. apply IH in H; [|lia|assumption]. destruct H as [G1 G2]. split; [exact G1|].
    rewrite G2. rewrite Z.gcd_comm.
    replace (r1 - Z.quot r1 r0 * r0) with (r1 + (- Z.quot r1 r0) * r0) by ring.
    apply Z.gcd_add_mult_diag_r.
Qed.

(** [P] Bezout identity and gcd of [num_extended_gcd]. *)
Lemma num_extended_gcd_spec a b g x y :
  num_extended_gcd a b = Done (g, x, y) -> g = a * x + b * y /\ g = Z.gcd a b.
Proof.
  unfold num_extended_gcd. intros H.
  apply (num_egcd_loop_spec a b) in H; [|lia|lia]. destruct H as [G1 G2]. split; [exact G1|].
  rewrite G2. apply Z.gcd_comm.
Qed.

(** [deg() == 0] singles out the non-zero constants. *)
Lemma pdeg0_single (g : list Z) : (pdeg g =? 0) = true -> exists g0, g = [g0].
Proof.
  destruct g as [|g0 [|g1 g']]; unfold pdeg, usize_max; intros H.
  - discriminate.
  - eexists; reflexivity.
  - apply Z.eqb_eq in H. cbn [length] in H. lia.
Qed.

Lemma last_in_range_aux p (x : list Z) : x <> [] -> in_range p x -> 0 <= last x 0 < p.
Proof.
  intros Hx Hr. destruct (@exists_last _ x Hx) as [x' [a E]]. subst x.
  rewrite last_last. unfold in_range in Hr. rewrite Forall_forall in Hr. apply Hr.
  apply in_or_app. right. left. reflexivity.
Qed.
