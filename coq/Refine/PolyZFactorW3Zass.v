(** * PolyZFactorW3Zass: C07, the subset recombination returns irreducible polynomials, provided the
    precision [p^e] is large enough for every true factor (MathComp).

    Setting: [p] prime, [e > 0], the current polynomial [a] (primitive divisor of the square-free part)
    with its lifted factors [L]: monic, irreducible and pairwise coprime modulo [p], with
    [a = lc(a) prod L (mod p^e)] and [p] not dividing [lc(a)] ([rinv]).

    [hbound a]: for every factorisation [a = u v] in Z[x], all coefficients of [lc(v) u] are smaller than
    [p^e / 2] in absolute value. This is what the Landau-Mignotte bound is meant to guarantee for the
    [p^e] chosen by [get_factors_of_squarefree]; it is a HYPOTHESIS here.

    Under [rinv] and [hbound], a subset test succeeds on the mask of every true factor
    ([try_subset_complete]), a successful test splits off a polynomial that corresponds to its mask
    ([try_subset_sound]), hence every polynomial returned by [recombine] is irreducible over Q. *)
From Coq Require Import ZArith Lia Znumtheory.
From RNT.Model Require Import Base Poly PolyModP FactorModP Hensel PolyZFactor.
From mathcomp Require Import all_ssreflect ssralg poly polydiv ssrint zmodp.
From RNT.Refine Require Import PolyRefine PolyDiv PolyZ PolyModPArith PolyZmod FmpField.
From RNT.Refine Require Import SubresGaussZ SubresGauss SubresGcdDiv.
From RNT.Refine Require Import PolyZFactorMult PolyZFactorMain PolyZFactorTop PolyZFactorPos PolyZFactorEnum.
From RNT.Refine Require Import PolyZFactorW3Run PolyZFactorW3Unwrap PolyZFactorW3Hensel PolyZFactorW3Subset PolyZFactorW3Masks.
From mathcomp Require Import ssrZ zify ring.
Set Implicit Arguments.
Unset Strict Implicit.
Unset Printing Implicit Defensive.
Import GRing.Theory.
Local Open Scope ring_scope.

(** ** the stages of one subset test *)

Lemma repeat_nseq (T : Type) (x : T) k : repeat x k = nseq k x.
Proof. by elim: k => [|k IH] //=; rewrite IH. Qed.

Lemma subset_prod_spec L idx prod pe prod0 : pe <> Z0 ->
  subset_prod L idx prod pe = Done prod0 ->
  eqpm pe (PZ prod0) (PZ prod * \prod_(i <- idx) PZ (nth [::] L i)).
Proof.
move=> hpe; elim: idx prod => [|i idx IH] prod /=.
  by case=> <-; rewrite big_nil mulr1; exact: eqpm_refl.
rewrite /nth_chk; case en: nth_error => [li|] //=.
case em: poly_mod => [prod'|t|] //= /IH h.
apply: eqpm_trans h _; rewrite big_cons mulrA; apply: eqpm_mulr.
have := PZ_poly_mod hpe em; rewrite PZ_pmul.
by have -> : li = nth [::] L i by rewrite -Lnth_eq; exact: (esym (List.nth_error_nth _ _ _ en)).
Qed.

Lemma symmetric_coef md prod0 pe pe2 prod : (0 < pe)%ZZ ->
  PolyZFactor.symmetric md prod0 pe pe2 = Done prod ->
  forall i, (PZ prod)`_i =
            if (i < size prod0)%N then (((nth Z0 prod0 i) + pe2) mod pe - pe2)%ZZ else ((0 mod pe)%ZZ).
Proof.
move=> hpe; rewrite /PolyZFactor.symmetric.
case: u64_norm => [_|t|] //=.
case em: poly_mod => [t|t|] //= [<-] i.
have hpe0 : pe <> Z0 by lia.
rewrite PZ_psub coefB !coefPZ (poly_mod_nth _ _ _ i hpe0 em) -!coefPZ PZ_padd coefD PZ_from_raw.
have -> : (PZ (repeat pe2 (length prod0)))`_i = if (i < size prod0)%N then pe2 else Z0.
  by rewrite coefPZ Lnth_eq repeat_nseq nth_nseq Llength_eq.
rewrite coefPZ Lnth_eq; case: ltnP => hi //.
by rewrite nth_default // !Z.add_0_r Z.sub_0_r.
Qed.

(** a polynomial over Z with a non-trivial divisor over Q factors in Z[x] *)
Lemma irreducible_of_nosplit (f : seq Z) : (1 < size (Poly f))%N ->
  (forall u v : {poly Z}, Poly f = u * v -> size u = 1%N \/ size v = 1%N) ->
  irreducible_poly (Poly f).
Proof.
move=> sf ns; split=> // w sw wd.
have f0 : Poly f != 0 by rewrite -size_poly_gt0 ltnW.
have w0 : w != 0 by apply: contraTneq wd => ->; rewrite dvd0p.
have cw : canonZ (polyseq w) by exact: canon_poly.
have wn : polyseq w != [::] by rewrite -(canon_Poly_eq0 cw) polyseqK.
have [ec cpp lpp prim _] := cont_pp_main cw wn (surjective_pairing (cont_pp (polyseq w))).
rewrite polyseqK in ec.
set c := (cont_pp w).1 in ec; set pp := (cont_pp w).2 in ec cpp lpp prim.
have ppp : prim_pos pp by split.
have c0 : c != 0 by apply: contraNneq w0 => h; rewrite -ec h scale0r.
have ew : w %= Poly pp by rewrite -ec; exact: eqp_scale.
have [Q eQ] : exists Q, Poly f = Q * Poly pp.
  by apply: dvdZ_of_dvdp => //; rewrite -(eqp_dvdl _ ew).
have spp : size (Poly pp) = size w by rewrite -ec size_scale.
case: (ns _ _ eQ) => [sQ|]; last by rewrite spp => h; rewrite h in sw.
have /size_poly1P [q0 q00 eq0] : size Q == 1%N by rewrite sQ.
apply: eqp_trans ew _; rewrite eQ eq0 mul_polyC eqp_sym; exact: eqp_scale.
Qed.

Section Zassenhaus.
Variable n : nat.
Hypothesis n_prime : prime n.
Variable e : nat.
Hypothesis e_gt0 : (0 < e)%N.
Notation p := (Z.of_nat n).
Notation pe := (p ^+ e).
Notation red := (redp n).

Let n_gt1 : (1 < n)%nat. Proof. exact: prime_gt1. Qed.
Let pe_gt1 : (1 < pe)%ZZ.
Proof.
have h : (2 <= p)%ZZ by lia.
rewrite -(prednK e_gt0) exprS.
have : (1 <= p ^+ e.-1)%ZZ.
  by elim: (e.-1) => [|k IH] //; rewrite exprS; move: IH h; rewrite /GRing.mul /=; nia.
by move: h; rewrite /GRing.mul /=; nia.
Qed.
Let pe_neq0 : pe <> Z0. Proof. by lia. Qed.

Definition hbound (a : seq Z) : Prop :=
  forall u v : {poly Z}, Poly a = u * v -> forall i, (2 * Z.abs (lead_coef v * u`_i) < pe)%ZZ.

Definition rinv (a : seq Z) (L : seq (seq Z)) : Prop :=
  [/\ canonZ a, a != [::], ~ (p | lead_coef (Poly a))%ZZ, lifted_ok n (map PZ L)
    & eqpm pe (Poly a) (lead_coef (Poly a) *: lsprod (map PZ L))].

Definition mindeg (a : seq Z) (L : seq (seq Z)) (d : nat) : Prop :=
  forall (m : bitseq) (u v : {poly Z}), size m = size L -> (0 < count id m < d)%N ->
    Poly a = u * v -> ~ eqpm pe u (lead_coef u *: lsprod (mask m (map PZ L))).

Lemma lead_opsZ (a : seq Z) : canonZ a -> lead opsZ a = lead_coef (Poly a).
Proof. by move=> ca; rewrite opsZ_eq lead_last lead_coef_canon. Qed.

Lemma prod_bits (L : seq (seq Z)) k :
  \prod_(i <- bits_of (size L) k) PZ (nth [::] L i) = lsprod (mask (bmask (size L) k) (map PZ L)).
Proof.
by rewrite /lsprod -map_mask -(map_nth_bits [::]) big_map big_map.
Qed.

Lemma not_dvd_factor (a u v : {poly Z}) : a = u * v -> ~ (p | lead_coef a)%ZZ ->
  ~ (p | lead_coef u)%ZZ /\ ~ (p | lead_coef v)%ZZ.
Proof.
move=> -> nd; rewrite lead_coefM in nd; split=> h; apply: nd.
- exact: Z.divide_mul_l.
- exact: Z.divide_mul_r.
Qed.

(** ** completeness of a subset test *)
Lemma try_subset_complete md (a : seq Z) L k (u v : {poly Z}) : rinv a L -> hbound a ->
  Poly a = u * v ->
  eqpm pe u (lead_coef u *: lsprod (mask (bmask (size L) k) (map PZ L))) ->
  try_subset md a (lead opsZ a) pe (Z.quot pe 2) L (bits_of (size L) k) <> Done None.
Proof.
move=> [ca a0 nda ok ea] hb euv eu; rewrite /try_subset.
case es: subset_prod => [prod0|t|] //=.
case ey: PolyZFactor.symmetric => [prod|t|] //=.
case ed: div_exact => [q|]; first by case: div_exact.
move=> _.
have cprod := symmetric_canon ey.
have Pa0 : Poly a != 0 by rewrite canon_Poly_eq0.
have u0 : u != 0 by apply: contraNneq Pa0 => h; rewrite euv h mul0r.
have v0 : v != 0 by apply: contraNneq Pa0 => h; rewrite euv h mulr0.
have lcuv : lead_coef (Poly a) = lead_coef u * lead_coef v by rewrite euv lead_coefM.
pose T : {poly Z} := lead_coef v *: u.
have T0 : T != 0 by rewrite /T -mul_polyC mulf_neq0 // polyC_eq0 lead_coef_eq0.
(* T is the symmetric residue *)
have eT : eqpm pe T (PZ prod0).
  apply: eqpm_sym; apply: eqpm_trans (subset_prod_spec pe_neq0 es) _.
  rewrite PZ_from_mono prod_bits lead_opsZ // lcuv /T -!mul_polyC polyCM.
  rewrite [_%:P * _%:P]mulrC -mulrA; apply: eqpm_mull; apply: eqpm_sym.
  by rewrite mul_polyC.
have eprod : PZ prod = T.
  apply/polyP => i; rewrite (symmetric_coef (_ : (0 < pe)%ZZ) ey); last by lia.
  have hT : (2 * Z.abs T`_i < pe)%ZZ by have := hb _ _ euv i; rewrite /T coefZ.
  have ex := eqpm_coef eT i; rewrite coefPZ Lnth_eq in ex.
  move: (T`_i) hT ex => x hx ex.
  have hq : (0 <= Z.quot pe 2 /\ pe - 1 <= 2 * Z.quot pe 2 <= pe)%ZZ.
    by have := Z.quot_rem' pe 2; have := Z.rem_bound_pos pe 2; lia.
  case: ltnP => hi.
  - have e1 : ((nth Z0 prod0 i + Z.quot pe 2) mod pe = (x + Z.quot pe 2) mod pe)%ZZ.
      by rewrite Zplus_mod -ex -Zplus_mod.
    rewrite e1 Z.mod_small; lia.
  - move: ex; rewrite nth_default // Z.mod_0_l // => ex.
    have := Z.mod_divide x pe pe_neq0; rewrite ex => -[/(_ erefl) [y hy] _].
    have y0 : y = Z0.
      move: hx; rewrite hy Z.abs_mul (Z.abs_eq pe); last by lia.
      by move: (Z.abs_nonneg y) (Z.abs_0_iff y) => ? ?; nia.
    by rewrite hy y0.
(* so the trial division succeeds *)
have calca : canonZ (PolyModP.poly_mul a (lead opsZ a)).
  by rewrite /PolyModP.poly_mul; case: (a) => [|x s] //; exact: from_rawZ_canon.
have prodn : prod != [::] by rewrite -(canon_Poly_eq0 cprod) -(PZE prod) eprod.
apply: (@div_exact_none _ _ calca cprod prodn ed (lead_coef u *: v)).
rewrite Poly_poly_mul lead_opsZ // -(PZE prod) eprod /T lcuv euv.
rewrite -!mul_polyC polyCM; ring.
Qed.

(** ** soundness of a successful subset test *)
Lemma try_subset_sound md (a : seq Z) L k pp a' : rinv a L ->
  try_subset md a (lead opsZ a) pe (Z.quot pe 2) L (bits_of (size L) k) = Done (Some (pp, a')) ->
  let m := bmask (size L) k in
  [/\ prim_pos pp, canonZ a', Poly a = Poly a' * Poly pp,
      eqpm pe (Poly pp) (lead_coef (Poly pp) *: lsprod (mask m (map PZ L)))
    & eqpm pe (Poly a') (lead_coef (Poly a') *: lsprod (mask (map negb m) (map PZ L)))].
Proof.
move=> [ca a0 nda ok ea] et m.
have [ppp ca' eaa] := try_subset_spec ca et.
move: et; rewrite /try_subset.
case es: subset_prod => [prod0|t|] //=.
case ey: PolyZFactor.symmetric => [prod|t|] //=.
case ed: div_exact => [q|] //.
case ed2: div_exact => [a''|] // [epp _].
have cprod := symmetric_canon ey.
have prodn : prod != [::] by apply: contra_eqN ed => /eqP ->; rewrite div_exact_nil_r.
have [ec _ _ _ _] := cont_pp_main cprod prodn (surjective_pairing (cont_pp prod)).
rewrite epp in ec; set c := (cont_pp prod).1 in ec.
have [hm hi hc] := ok.
set S := lsprod (mask m (map PZ L)).
have hmS : S \is monic by apply: lsprod_monic; apply/allP => l /mem_mask /(allP hm).
(* c * pp = lc(a) * S modulo p^e *)
have e1 : eqpm pe (c *: Poly pp) (lead_coef (Poly a) *: S).
  rewrite ec -!PZE; apply: eqpm_trans (_ : eqpm pe _ (PZ prod0)) _.
    apply: eqpm_of_coef => i; rewrite (symmetric_coef (_ : (0 < pe)%ZZ) ey); last by lia.
    rewrite coefPZ Lnth_eq; case: ltnP => hi'; last by rewrite nth_default.
    by rewrite Zminus_mod Z.mod_mod // -Zminus_mod; congr Z.modulo; lia.
  apply: eqpm_trans (subset_prod_spec pe_neq0 es) _.
  by rewrite PZ_from_mono prod_bits lead_opsZ // mul_polyC; exact: eqpm_refl.
have e1p : red (c *: Poly pp) = red (lead_coef (Poly a) *: S).
  apply/(eqpm_redp n_prime).
  have ep : pe = (p * p ^+ e.-1)%ZZ by rewrite -{1}(prednK e_gt0) exprS.
  by rewrite ep in e1; exact: eqpm_weaken e1.
have [ndpp nda'] : ~ (p | lead_coef (Poly pp))%ZZ /\ ~ (p | lead_coef (Poly a'))%ZZ.
  by have [] := not_dvd_factor (etrans eaa (mulrC _ _)) nda.
(* modulo p: pp = lc(pp) * S *)
have e2 : eqpm p (Poly pp) (lead_coef (Poly pp) *: S).
  apply/(eqpm_redp n_prime).
  move: e1p; rewrite -!mul_polyC !redpM !redpC !mul_polyC => e1p.
  have rS : red S \is monic by exact: red_monic.
  have ca0 : toF n (lead_coef (Poly a)) != 0 by exact: toF_neq0.
  have cc0 : toF n c != 0.
    apply/eqP => h; move: e1p; rewrite h scale0r => /esym/eqP.
    by rewrite scaler_eq0 (negPf ca0) (negPf (monic_neq0 rS)).
  have := congr1 lead_coef e1p; rewrite !lead_coefZ (monicP rS) mulr1 lead_coef_red // => elc.
  apply: (scalerI cc0); rewrite e1p scalerA elc.
  by [].
have sm : size m = size (map PZ L) by rewrite size_bmask size_map.
have eaa' : Poly a = Poly pp * Poly a' by rewrite eaa mulrC.
have [h1 h2] := split_known_mask n_prime e_gt0 ok nda ea eaa' sm e2.
by split.
Qed.

(** the invariant after a split *)
Lemma rinv_split (a : seq Z) L k pp a' : rinv a L -> canonZ a' -> Poly a = Poly a' * Poly pp ->
  eqpm pe (Poly a') (lead_coef (Poly a') *: lsprod (mask (map negb (bmask (size L) k)) (map PZ L))) ->
  rinv a' (remove_indices L 0 (bits_of (size L) k)).
Proof.
move=> [ca a0 nda ok ea] ca' eaa ea'; split=> //.
- have : Poly a != 0 by rewrite canon_Poly_eq0.
  by rewrite eaa -(canon_Poly_eq0 ca'); apply: contraNneq => ->; rewrite mul0r.
- by have [] := not_dvd_factor eaa nda.
- by rewrite remove_bits_mask map_mask; exact: lifted_ok_mask.
- by rewrite remove_bits_mask map_mask.
Qed.

Lemma hbound_split (a a' : seq Z) (w : {poly Z}) : Poly a = Poly a' * w -> a != [::] -> canonZ a ->
  hbound a -> hbound a'.
Proof.
move=> eaa a0 ca hb u v euv i.
have := hb u (v * w) _ i; rewrite eaa euv mulrA => /(_ erefl).
have w0 : lead_coef w != 0.
  rewrite lead_coef_eq0; have : Poly a != 0 by rewrite canon_Poly_eq0.
  by rewrite eaa; apply: contraNneq => ->; rewrite mulr0.
rewrite lead_coefM !ZmulE; move/eqP: w0.
move: (lead_coef w) (lead_coef v) (u`_i) => x y z x0.
have -> : (y * x * z = x * (y * z))%ZZ by lia.
rewrite Z.abs_mul; move: (Z.abs_nonneg (y * z)) (Z.abs_pos x) => h1 [_ h2].
by have := h2 x0; nia.
Qed.

(** masks of a sub-list: [mindeg] is inherited *)
Lemma mindeg_split (a a' : seq Z) L k (w : {poly Z}) d : Poly a = Poly a' * w ->
  mindeg a L d -> mindeg a' (remove_indices L 0 (bits_of (size L) k)) d.
Proof.
move=> eaa hmd m' u v sm' cm' euv.
rewrite remove_bits_mask map_mask.
set m := map negb (bmask (size L) k) in sm' *.
have sm : size m = size (map PZ L) by rewrite /m !size_map size_iota.
have sm'' : size m' = count id m.
  by rewrite sm' remove_bits_mask size_mask // /m !size_map size_iota.
have [m'' [s'' e'' c'']] := mask_comp sm sm''.
rewrite -e''; apply: (hmd m'' u (v * w)); rewrite ?c'' //; first by rewrite s'' size_map.
by rewrite eaa euv mulrA.
Qed.

(** ** a polynomial all of whose factorisations are trivial on the masks is irreducible *)
Lemma size_mask_gt1 (m : bitseq) (Ls : seq {poly Z}) : lifted_ok n Ls -> size m = size Ls ->
  (0 < count id m)%N -> (1 < size (lsprod (mask m Ls)))%N.
Proof.
move=> ok sm cm.
have [hm hi _] := lifted_ok_mask m ok.
have : (0 < size (mask m Ls))%N by rewrite size_mask.
case: (mask m Ls) hm hi => [|l ls] //= /andP [ml hm] hi _.
have mls : lsprod ls \is monic by exact: lsprod_monic.
rewrite lsprod_cons size_mul ?monic_neq0 //.
have : (1 < size l)%N.
  by rewrite -(size_red_monic n_prime ml); have [] := hi l (mem_head _ _).
have : (0 < size (lsprod ls))%N by rewrite size_poly_gt0 monic_neq0.
by move: (size l) (size (lsprod ls)) => x y; lia.
Qed.

Lemma nosplit_of_mindeg (a : seq Z) L d (f : seq Z) (w : {poly Z}) (mf : bitseq) :
  rinv a L -> mindeg a L d -> Poly a = Poly f * w -> size mf = size L ->
  (count id mf <= d)%N \/ (size L < 2 * d)%N /\ mf = nseq (size L) true ->
  ~ (p | lead_coef (Poly f))%ZZ ->
  eqpm pe (Poly f) (lead_coef (Poly f) *: lsprod (mask mf (map PZ L))) ->
  forall u v : {poly Z}, Poly f = u * v -> size u = 1%N \/ size v = 1%N.
Proof.
move=> [ca a0 nda ok ea] hmd eaf smf hd ndf ef u v euv.
have smf' : size mf = size (map PZ L) by rewrite size_map.
have okf := lifted_ok_mask mf ok.
have [m' [sm' hu hv]] := subset_structure n_prime e_gt0 okf ndf ef euv.
have [ndu ndv] := not_dvd_factor euv ndf.
have hmf : all (fun l : {poly Z} => l \is monic) (mask mf (map PZ L)) by case: okf.
have sm'c : size m' = count id mf by rewrite sm' size_mask.
have sn' : size (map negb m') = count id mf by rewrite size_map.
have [m1 [s1 e1 c1]] := mask_comp smf' sm'c.
have [m2 [s2 e2 c2]] := mask_comp smf' sn'.
have hcn := count_negb m'.
(* a factor whose mask is empty is a constant *)
have const0 (x : {poly Z}) (mm : bitseq) : ~ (p | lead_coef x)%ZZ ->
    eqpm pe x (lead_coef x *: lsprod (mask mm (mask mf (map PZ L)))) -> count id mm = 0%N -> size x = 1%N.
  move=> ndx ex c0; move: ex; rewrite (mask_count0 _ c0) => ex.
  by rewrite (size_of_subprod n_prime e_gt0 _ ndx ex) // lsprod_nil size_poly1.
case c1z : (count id m' == 0%N); first by left; apply: (const0 _ m') => //; apply/eqP.
case c2z : (count id (map negb m') == 0%N); first by right; apply: (const0 _ (map negb m')) => //; apply/eqP.
exfalso.
have c1p : (0 < count id m')%N by rewrite lt0n c1z.
have c2p : (0 < count id (map negb m'))%N by rewrite lt0n c2z.
rewrite -e1 in hu; rewrite -e2 in hv.
rewrite size_map in s1 s2.
case: hd => [hd|[hd emf]].
- apply: (hmd m1 u (v * w) s1 _ _ hu); last by rewrite eaf euv mulrA.
  by rewrite c1 c1p /=; move: hcn; rewrite sm'c; lia.
- have cmf : count id mf = size L by rewrite emf count_nseq mul1n.
  case: (ltnP (count id m') d) => lt.
  + apply: (hmd m1 u (v * w) s1 _ _ hu); last by rewrite eaf euv mulrA.
    by rewrite c1 c1p.
  + apply: (hmd m2 v (u * w) s2 _ _ hv); last by rewrite eaf euv mulrCA mulrA.
    by rewrite c2 c2p /=; move: hcn; rewrite sm'c cmf; lia.
Qed.

(** ** the recombination loop *)
Theorem recombine_irreducible fuel md d (a : seq Z) L res out :
  rinv a L -> hbound a -> mindeg a L d -> (0 < d)%N -> (0 < size L)%N ->
  recombine fuel md pe (Z.quot pe 2) d a L res = Done out ->
  exists fs, out = res ++ fs /\ forall f, f \in fs -> irreducible_poly (Poly f).
Proof.
elim: fuel d a L res => [|fuel IH] d a L res inv hb hmd d0 sL //=.
have [ca a0 nda ok ea] := inv.
have eln : length L = size L by [].
rewrite !eln.
case: Nat.leb_spec0 => [/leP le|/leP nle]; last first.
  (* the last polynomial *)
  case=> <-; exists [:: a]; split=> // f; rewrite inE => /eqP ->.
  have emask : mask (nseq (size L) true) (map PZ L) = map PZ L by rewrite -(size_map PZ) mask_true.
  have ns : forall u v : {poly Z}, Poly a = u * v -> size u = 1%N \/ size v = 1%N.
    apply: (@nosplit_of_mindeg a L d a 1 (nseq (size L) true)) => //.
    + by rewrite mulr1.
    + by rewrite size_nseq.
    + by right; split=> //; lia.
    + by rewrite emask.
  apply: irreducible_of_nosplit => //.
  rewrite (size_of_subprod n_prime e_gt0 _ nda ea); last by case: ok.
  rewrite -emask; apply: size_mask_gt1 => //; first by rewrite size_nseq size_map.
  by rewrite count_nseq mul1n.
case: assert_ => [_|t|] //=.
case ef: find_subset => [[[idx [pp a']]|]|t|] //=.
- (* a factor is split off *)
  have [/masksP [k [lt eidx ck]] et] := find_subset_some ef.
  rewrite eidx in et *.
  have [ppp ca' eaa epp ea'] := try_subset_sound inv et.
  have inv' := @rinv_split a L k pp a' inv ca' eaa ea'.
  have hb' := hbound_split eaa a0 ca hb.
  have hmd' := @mindeg_split a a' L k (Poly pp) d eaa hmd.
  have sL' : (0 < size (remove_indices L 0 (bits_of (size L) k)))%N.
    have := @size_remove_mask _ L _ _ (bits_of_in_masks lt); rewrite popcount_bmask ck.
    by move: le; lia.
  move/(IH _ _ _ _ inv' hb' hmd' d0 sL') => [fs [eo hfs]].
  exists (pp :: fs); split; first by rewrite eo -catA.
  move=> f; rewrite inE => /orP [/eqP ->|/hfs //].
  have [ndpp _] := not_dvd_factor (etrans eaa (mulrC _ _)) nda.
  have ns : forall u v : {poly Z}, Poly pp = u * v -> size u = 1%N \/ size v = 1%N.
    apply: (@nosplit_of_mindeg a L d pp (Poly a') (bmask (size L) k)) => //.
    + by rewrite eaa mulrC.
    + by rewrite size_bmask.
    + by left; rewrite ck.
  apply: irreducible_of_nosplit => //.
  rewrite (size_of_subprod n_prime e_gt0 _ ndpp epp); last by case: (lifted_ok_mask (bmask (size L) k) ok).
  by apply: size_mask_gt1 => //; rewrite ?size_bmask ?size_map // ck.
- (* no subset of size d: every true factor has more than d lifted factors *)
  apply: IH => //.
  move=> m u v sm /andP [c0 cd] euv eu.
  case: (ltnP (count id m) d) => lt; first by apply: (hmd m u v sm _ euv eu); rewrite c0 lt.
  have cm : count id m = d by apply/eqP; rewrite eqn_leq lt andbT -ltnS.
  have [k ltk ek] := bmask_realize m; rewrite sm in ltk ek.
  have := find_subset_none ef (_ : bits_of (size L) k \in masks (size L) d).
  rewrite -cm -ek -popcount_bmask => /(_ (bits_of_in_masks ltk)).
  by apply: (try_subset_complete inv hb euv); rewrite ek.
Qed.

End Zassenhaus.
