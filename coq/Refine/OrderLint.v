(** * OrderLint: rationals with denominator dividing l, the lcm of the denominators of a basis,
    and exactness of the scaling [x -> (x * l).to_integer()] used by [hnf_reduce] / [union] (C15).
    Style: stdlib + lia. *)
From RNT.Model Require Import Base Poly Algebraic LinAlg MultTable Order.
From RNT.Refine Require Import LinAlgList OrderIndex.
From Coq Require Import Lia List QArith Qcanon.
Import ListNotations.
Open Scope Z_scope.

Lemma this_Qcmult x y : this (Qcmult x y) = Qred (this x * this y).
Proof. reflexivity. Qed.
Lemma this_Qcplus x y : this (Qcplus x y) = Qred (this x + this y).
Proof. reflexivity. Qed.

Lemma qz_add x y : qz (x + y) = Qcplus (qz x) (qz y).
Proof.
  apply Qc_is_canon. rewrite this_Qcplus, Qred_correct, !this_qz, inject_Z_plus. reflexivity.
Qed.

(** [x * l] is an integer *)
Definition lint (l : Z) (x : Qc) : Prop := exists z, Qcmult x (qz l) = qz z.

Lemma lint_scale l x : lint l x -> qz (scale_to_int l x) = Qcmult x (qz l).
Proof. intros [z E]. unfold scale_to_int. rewrite E, q_to_integer_qz. reflexivity. Qed.

Lemma lint_0 l : lint l q0.
Proof. exists 0. apply Qc_is_canon. rewrite this_Qcmult, Qred_correct. reflexivity. Qed.

Lemma lint_add l x y : lint l x -> lint l y -> lint l (Qcplus x y).
Proof.
  intros [a Ea] [b Eb]. exists (a + b). rewrite qz_add, <- Ea, <- Eb. ring.
Qed.

Lemma lint_mulz l c x : lint l x -> lint l (Qcmult (qz c) x).
Proof. intros [a Ea]. exists (c * a). rewrite qz_mul, <- Ea. ring. Qed.

Lemma scale_add l x y : lint l x -> lint l y ->
  scale_to_int l (Qcplus x y) = scale_to_int l x + scale_to_int l y.
Proof.
  intros Hx Hy. apply qz_inj.
  rewrite qz_add, !lint_scale; auto using lint_add. ring.
Qed.

Lemma scale_mulz l c x : lint l x ->
  scale_to_int l (Qcmult (qz c) x) = c * scale_to_int l x.
Proof.
  intros Hx. apply qz_inj. rewrite qz_mul, !lint_scale; auto using lint_mulz. ring.
Qed.

Lemma scale_0 l : scale_to_int l q0 = 0.
Proof. apply qz_inj. rewrite lint_scale by apply lint_0. apply Qc_is_canon. rewrite this_Qcmult, Qred_correct. reflexivity. Qed.

(** dividing back: [BigRational::new(n, l)] *)
Lemma ratio_scale l x : l <> 0 -> lint l x -> ratio_new (scale_to_int l x) l = x.
Proof.
  intros Hl Hx. unfold ratio_new. rewrite lint_scale by assumption.
  unfold Qcdiv. field. now apply qz_neq0.
Qed.

Lemma scale_ratio l z : l <> 0 -> scale_to_int l (ratio_new z l) = z /\ lint l (ratio_new z l).
Proof.
  intros Hl. assert (E : Qcmult (ratio_new z l) (qz l) = qz z).
  { unfold ratio_new, Qcdiv. field. now apply qz_neq0. }
  split; [|now exists z]. unfold scale_to_int. rewrite E. apply q_to_integer_qz.
Qed.

Lemma scale_inj l x y : l <> 0 -> lint l x -> lint l y -> scale_to_int l x = scale_to_int l y -> x = y.
Proof.
  intros Hl Hx Hy E. rewrite <- (ratio_scale l x), <- (ratio_scale l y) by assumption. now rewrite E.
Qed.

(** ** [lint l x] iff the denominator of [x] divides [l] *)
Lemma lint_den l x : lint l x <-> (q_den x | l).
Proof.
  destruct x as [[a b] c]. unfold lint, q_den. cbn [this Qden].
  assert (G : Z.gcd a (Zpos b) = 1) by (apply Qred_iff in c; exact c).
  split.
  - intros [z E]. apply (f_equal this) in E. rewrite this_Qcmult, !this_qz in E. cbn [this] in E.
    assert (E' : (a # b) * inject_Z l == inject_Z z) by (rewrite <- E, Qred_correct; reflexivity).
    unfold Qeq, Qmult, inject_Z in E'. cbn in E'.
    apply Z.gauss with a; [|now rewrite Z.gcd_comm].
    exists z. lia.
  - intros [k ->]. exists (a * k). apply Qc_is_canon.
    rewrite this_Qcmult, Qred_correct, !this_qz. cbn [this].
    unfold Qeq, Qmult, inject_Z. cbn. lia.
Qed.

(** ** the lcm of the denominators *)
Lemma fold_lcm_divide (row : list Qc) l0 d :
  (fold_left (fun l x => Z.lcm l (q_den x)) row l0 | d) <->
  (l0 | d) /\ Forall (fun x => (q_den x | d)) row.
Proof.
  revert l0; induction row as [|x row IH]; intros l0; cbn [fold_left].
  - split; [intros H; split; [exact H|constructor]|intros [H _]; exact H].
  - rewrite IH, Z.lcm_divide_iff. split.
    + intros [[H1 H2] H3]. split; [exact H1|constructor; assumption].
    + intros [H1 H2]. inversion H2; subst. repeat split; assumption.
Qed.

Lemma lcm_den_divide b l0 d :
  (lcm_den l0 b | d) <-> (l0 | d) /\ Forall (Forall (fun x => (q_den x | d))) b.
Proof.
  unfold lcm_den. revert l0; induction b as [|row b IH]; intros l0; cbn [fold_left].
  - split; [intros H; split; [exact H|constructor]|intros [H _]; exact H].
  - rewrite IH, fold_lcm_divide. split.
    + intros [[H1 H2] H3]. split; [exact H1|constructor; assumption].
    + intros [H1 H2]. inversion H2; subst. repeat split; assumption.
Qed.

Lemma fold_lcm_pos (row : list Qc) l0 : 0 < l0 -> 0 < fold_left (fun l x => Z.lcm l (q_den x)) row l0.
Proof.
  revert l0; induction row as [|x row IH]; intros l0 H; cbn [fold_left]; [exact H|].
  apply IH. pose proof (Z.lcm_nonneg l0 (q_den x)).
  assert (Z.lcm l0 (q_den x) <> 0); [|lia].
  intros E. apply Z.lcm_eq_0 in E. unfold q_den in E. destruct E; [lia|discriminate].
Qed.

Lemma lcm_den_pos b l0 : 0 < l0 -> 0 < lcm_den l0 b.
Proof.
  unfold lcm_den. revert l0; induction b as [|row b IH]; intros l0 H; cbn [fold_left]; [exact H|].
  apply IH. now apply fold_lcm_pos.
Qed.

Definition all_lint (l : Z) (b : qmat) : Prop := Forall (Forall (lint l)) b.

Lemma all_lint_den l b : all_lint l b <-> Forall (Forall (fun x => (q_den x | l))) b.
Proof.
  unfold all_lint. split; intros H; (eapply Forall_impl; [|exact H]); intros r Hr;
    (eapply Forall_impl; [|exact Hr]); intros x Hx; now apply lint_den.
Qed.

(** every entry times the lcm is an integer, and the lcm divides every such multiplier *)
Lemma lcm_den_lint b : all_lint (lcm_den 1 b) b.
Proof. apply all_lint_den. apply (lcm_den_divide b 1 (lcm_den 1 b)). apply Z.divide_refl. Qed.

Lemma lcm_den_least b d : all_lint d b -> (lcm_den 1 b | d).
Proof. intros H. apply lcm_den_divide. split; [apply Z.divide_1_l|now apply all_lint_den]. Qed.

(** [P] lcm_den_invariant: two bases with the same multipliers have the same lcm *)
Lemma lcm_den_eq b1 b2 :
  (forall d, all_lint d b1 <-> all_lint d b2) -> lcm_den 1 b1 = lcm_den 1 b2.
Proof.
  intros H. apply Z.divide_antisym_nonneg.
  - pose proof (lcm_den_pos b1 1). lia.
  - pose proof (lcm_den_pos b2 1). lia.
  - apply lcm_den_least, H, lcm_den_lint.
  - apply lcm_den_least, H, lcm_den_lint.
Qed.
