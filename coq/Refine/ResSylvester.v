(** Sylvester-matrix recurrences for MathComp's [resultant] (mxpoly.v has only [resultant_in_ideal],
    [resultant_eq0], [map_resultant]). ssreflect/MathComp style.

    MathComp's [Sylvester_mx p q] stacks (size q).-1 shifted copies of p over (size p).-1 shifted copies of q,
    columns indexed by increasing degree. Reversing rows and columns shows that
    [resultant p q = (-1)^(deg p deg q) * Res(p, q) = Res(q, p)] for the classical (highest degree first)
    Sylvester determinant Res of the property text: e.g. resultant (X - a) (X - b) = b - a.
    The classical resultant of (f, g) is therefore [resultant g f]. *)
From mathcomp Require Import all_ssreflect ssralg poly polydiv matrix mxalgebra mxpoly.
From mathcomp Require Import zify.
Set Implicit Arguments.
Unset Strict Implicit.
Unset Printing Implicit Defensive.
Import GRing.Theory.
Local Open Scope ring_scope.


Section Band.
Variable R : ringType.
Implicit Types p q r : {poly R}.

Definition band (k N : nat) (r : {poly R}) : 'M[R]_(k, N) := lin1_mx (poly_rV \o r \o* rVpoly).

Lemma mul_rV_band k N r (u : 'rV_k) : u *m band k N r = poly_rV (rVpoly u * r).
Proof. by rewrite mul_rV_lin1. Qed.

Lemma bandE k N r (i : 'I_k) (j : 'I_N) : band k N r i j = (r * 'X^i)`_j.
Proof. by rewrite !mxE /= rVpoly_delta commr_polyXn. Qed.

Lemma size_rVpoly k (u : 'rV[R]_k) : size (rVpoly u) <= k.
Proof. exact: size_poly. Qed.

Lemma bandD k N p q : band k N (p + q) = band k N p + band k N q.
Proof.
apply/row_matrixP=> i; rewrite !rowE mulmxDr !mul_rV_band.
by rewrite mulrDr linearD.
Qed.

Lemma bandM k n N p q : (k + size p).-1 <= n -> band k N (p * q) = band k n p *m band n N q.
Proof.
move=> le_n; apply/row_matrixP=> i; rewrite !rowE mulmxA !mul_rV_band mulrA.
rewrite poly_rV_K //; apply: leq_trans (size_mul_leq _ _) _.
apply: leq_trans le_n; rewrite -!subn1 leq_sub2r // leq_add2r.
exact: size_rVpoly.
Qed.
End Band.


Section Syl.
Variable R : comRingType.
Implicit Types p q r : {poly R}.

(* m rows of p, n rows of q; columns = coefficients of X^0 .. X^(m+n-1) *)
Definition Syl (m n : nat) p q : 'M[R]_(m + n) := col_mx (band m (m + n) p) (band n (m + n) q).

Lemma Sylvester_Syl p q : Sylvester_mx p q = Syl (size q).-1 (size p).-1 p q.
Proof. by []. Qed.

(* first block reduced modulo the second *)
Lemma det_Syl_addl m n (Q : {poly R}) r q : (m + size Q).-1 <= n ->
  \det (Syl m n (Q * q + r) q) = \det (Syl m n r q).
Proof.
move=> le_n; rewrite /Syl bandD (bandM _ _ le_n).
have ->: col_mx (band m n Q *m band n (m + n) q + band m (m + n) r) (band n (m + n) q)
      = block_mx 1%:M (band m n Q) 0 1%:M *m col_mx (band m (m + n) r) (band n (m + n) q).
  by rewrite mul_block_col !mul1mx mul0mx add0r addrC.
by rewrite det_mulmx det_ublock !det1 !mul1r.
Qed.

(* second block reduced modulo the first *)
Lemma det_Syl_addr m n (Q : {poly R}) r p : (n + size Q).-1 <= m ->
  \det (Syl m n p (Q * p + r)) = \det (Syl m n p r).
Proof.
move=> le_m; rewrite /Syl bandD (bandM _ _ le_m).
have ->: col_mx (band m (m + n) p) (band n m Q *m band m (m + n) p + band n (m + n) r)
      = block_mx 1%:M 0 (band n m Q) 1%:M *m col_mx (band m (m + n) p) (band n (m + n) r).
  by rewrite mul_block_col !mul1mx mul0mx addr0.
by rewrite det_mulmx det_lblock !det1 !mul1r.
Qed.

(* function-style presentation, dimension as a free parameter *)
Definition mkS (m N : nat) p q : 'M[R]_N :=
  \matrix_(i < N, j < N) (if i < m then (p * 'X^i)`_j else (q * 'X^(i - m))`_j).

Lemma Syl_mkS m n p q : Syl m n p q = mkS m (m + n) p q.
Proof.
apply/matrixP=> i j; rewrite !mxE; case: splitP => k ik; rewrite bandE ik //.
by rewrite addKn.
Qed.

End Syl.


Section Red.
Variable R : comRingType.
Implicit Types p q r : {poly R}.

Lemma mkS_row'_1 m N p q (lt_m : (m < N.+1)%N) :
  row' (Ordinal lt_m) (col' ord_max (mkS m.+1 N.+1 p q)) = mkS m N p q.
Proof.
apply/matrixP=> i j; rewrite !mxE /= /bump.
have ->: (N <= j)%N = false by apply/negbTE; rewrite -ltnNge.
rewrite add0n; case: (leqP m i) => le_mi.
  by rewrite add1n ltnS ltnNge le_mi /= subSS.
by rewrite add0n ltnS (ltnW le_mi).
Qed.

Lemma det_mkS_red1 m N p q : (m <= N)%N -> (size p <= (N - m).+1)%N -> (size q <= m.+1)%N ->
  \det (mkS m.+1 N.+1 p q) = (-1) ^+ (m + N) * p`_(N - m) * \det (mkS m N p q).
Proof.
move=> le_mN sp sq.
have lt_m : (m < N.+1)%N by rewrite ltnS.
pose r := Ordinal lt_m.
rewrite (expand_det_col _ ord_max) (bigD1 r) //= big1 ?addr0 => [|i ne_ir].
  rewrite /cofactor mkS_row'_1 !mxE /= ltnSn coefMXn ltnNge le_mN /=.
  by rewrite mulrCA mulrA.
rewrite !mxE /= !coefMXn; have ne_im : (i != m :> nat) by [].
have le_iN : (i <= N)%N by have := ltn_ord i; lia.
case: ifP => lt_i.
  have lt_im : (i < m)%N by lia.
  have ->: (N < i)%N = false by apply/negbTE; rewrite -leqNgt.
  by rewrite nth_default ?mul0r //; apply: leq_trans sp _; move: le_mN lt_im; clear; lia.
have ->: (N < i - m.+1)%N = false by apply/negbTE; rewrite -leqNgt; move: le_iN; clear; lia.
by rewrite nth_default ?mul0r //; apply: leq_trans sq _; move: le_mN lt_i le_iN ne_im; clear; lia.
Qed.

Lemma mkS_row'_2 m N p q :
  row' ord_max (col' ord_max (mkS m N.+1 p q)) = mkS m N p q.
Proof.
apply/matrixP=> i j; rewrite !mxE /= /bump.
have ->: (N <= j)%N = false by apply/negbTE; rewrite -ltnNge.
have ->: (N <= i)%N = false by apply/negbTE; rewrite -ltnNge.
by rewrite !add0n.
Qed.

Lemma det_mkS_red2 m N p q : (m <= N)%N -> (size p <= (N - m).+1)%N -> (size q <= m.+1)%N ->
  \det (mkS m N.+1 p q) = q`_m * \det (mkS m N p q).
Proof.
move=> le_mN sp sq.
rewrite (expand_det_col _ ord_max) (bigD1 ord_max) //= big1 ?addr0 => [|i ne_ir].
  rewrite /cofactor mkS_row'_2 !mxE /= ltnNge le_mN /= coefMXn.
  have ->: (N < N - m)%N = false by apply/negbTE; rewrite -leqNgt; lia.
  by rewrite subKn // -signr_odd addnn odd_double expr0 mul1r.
rewrite !mxE /= !coefMXn; have ne_iN : (i != N :> nat) by [].
have lt_iN : (i < N)%N by have := ltn_ord i; lia.
case: ifP => lt_i.
  have ->: (N < i)%N = false by apply/negbTE; rewrite -leqNgt; lia.
  by rewrite nth_default ?mul0r //; apply: leq_trans sp _; move: le_mN lt_i lt_iN; clear; lia.
have ->: (N < i - m)%N = false by apply/negbTE; rewrite -leqNgt; lia.
by rewrite nth_default ?mul0r //; apply: leq_trans sq _; move: le_mN lt_i lt_iN; clear; lia.
Qed.

End Red.


Section Rec.
Variable R : comRingType.
Implicit Types p q r : {poly R}.

Lemma det_mkS_red1_iter k m N p q :
    (m <= N)%N -> (size p <= (N - m).+1)%N -> (size q <= m.+1)%N ->
  \det (mkS (m + k) (N + k) p q) = ((-1) ^+ (m + N) * p`_(N - m)) ^+ k * \det (mkS m N p q).
Proof.
move=> le_mN sp sq; elim: k => [|k IHk]; first by rewrite !addn0 expr0 mul1r.
rewrite !addnS det_mkS_red1 ?IHk ?leq_add2r ?subnDr //; last by apply: leq_trans sq _; lia.
rewrite exprS -!mulrA; congr (_ * _).
by rewrite -signr_odd -[in RHS]signr_odd !oddD addbACA addbb addbF.
Qed.

Lemma det_mkS_red2_iter k m N p q :
    (m <= N)%N -> (size p <= (N - m).+1)%N -> (size q <= m.+1)%N ->
  \det (mkS m (N + k) p q) = q`_m ^+ k * \det (mkS m N p q).
Proof.
move=> le_mN sp sq; elim: k => [|k IHk]; first by rewrite !addn0 expr0 mul1r.
rewrite !addnS det_mkS_red2 ?IHk ?exprS ?mulrA //; first by lia.
by apply: leq_trans sp _; lia.
Qed.

Local Notation dg p := (size p).-1.

(* the second argument reduced modulo the first *)
Lemma resultant_redr p q Q r : q = Q * p + r ->
    ((dg p + size Q).-1 <= dg q)%N -> (dg r <= dg q)%N ->
  resultant p q = ((-1) ^+ dg p * lead_coef p) ^+ (dg q - dg r) * resultant p r.
Proof.
move=> def_q szQ le_rq.
rewrite /resultant !Sylvester_Syl; move: (dg q) szQ le_rq => dq szQ le_rq.
rewrite def_q det_Syl_addr // !Syl_mkS.
have ->: (dq = dg r + (dq - dg r))%N by rewrite subnKC.
rewrite addnAC det_mkS_red1_iter ?leq_addr ?addKn ?leqSpred //.
congr (_ ^+ _ * _); rewrite lead_coefE; congr (_ * _).
by rewrite -signr_odd -[in RHS]signr_odd !oddD addbA addbb.
Qed.

(* the first argument reduced modulo the second *)
Lemma resultant_redl p q Q r : p = Q * q + r ->
    ((dg q + size Q).-1 <= dg p)%N -> (dg r <= dg p)%N ->
  resultant p q = lead_coef q ^+ (dg p - dg r) * resultant r q.
Proof.
move=> def_p szQ le_rp.
rewrite /resultant !Sylvester_Syl; move: (dg p) szQ le_rp => dp szQ le_rp.
rewrite def_p det_Syl_addl // !Syl_mkS.
have ->: (dp = dg r + (dp - dg r))%N by rewrite subnKC.
by rewrite addnA det_mkS_red2_iter ?leq_addr ?addKn ?leqSpred.
Qed.

End Rec.
