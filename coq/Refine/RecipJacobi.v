(** * Jacobi symbol as a product of Legendre symbols over a list of odd primes, and its laws
      (multiplicativity, periodicity, (-1/n), (2/n), reciprocity). stdlib + lia. *)
From Coq Require Import ZArith List Bool Lia Znumtheory.
From RNT.Refine Require Import KroneckerProofs.
From RNT.Refine Require RecipBridge.
Import ListNotations.
Open Scope Z_scope.

Definition oddprime (p : Z) : Prop := prime p /\ 2 < p.

(** (a / p1 ... pk) = prod (a / pi) *)
Definition jl (a : Z) (ps : list Z) : Z := fold_right (fun p acc => legendre a p * acc) 1 ps.
Definition prodl (ps : list Z) : Z := fold_right Z.mul 1 ps.

Lemma oddprime_odd : forall p, oddprime p -> p mod 2 = 1.
Proof.
  intros p [Hp H2]. pose proof (Z.mod_pos_bound p 2 ltac:(lia)) as B.
  destruct (Z.eq_dec (p mod 2) 0) as [E|N]; [|lia].
  apply Zmod_divide in E; [|lia].
  destruct (prime_divisors p Hp 2 E) as [H|[H|[H|H]]]; lia.
Qed.

Lemma legendre_tri : forall a p, tri (legendre a p).
Proof. intros a p. unfold legendre, tri. cbv zeta. destruct (_ =? 0); [lia|]. destruct (_ =? 1); lia. Qed.

Lemma jl_tri : forall a ps, tri (jl a ps).
Proof. induction ps as [|p ps IH]; cbn [jl fold_right]; [unfold tri; lia|]. apply tri_mul; [apply legendre_tri|exact IH]. Qed.

Lemma tri_sq : forall x, tri x -> x <> 0 -> x * x = 1.
Proof. unfold tri. intros x H N. destruct H as [->|[->| ->]]; lia. Qed.

Lemma prodl_odd : forall ps, Forall oddprime ps -> 0 < prodl ps /\ prodl ps mod 2 = 1.
Proof.
  induction 1 as [|p ps Hp _ [IH1 IH2]]; cbn [prodl fold_right]; [split; [lia|reflexivity]|].
  fold (prodl ps). pose proof (oddprime_odd p Hp) as O. destruct Hp as [_ H2]. split; [nia|].
  rewrite Zmult_mod, O, IH2. reflexivity.
Qed.

Lemma jl_mul : forall a b ps, Forall oddprime ps -> jl (a * b) ps = jl a ps * jl b ps.
Proof.
  induction 1 as [|p ps [Hp H2] _ IH]; cbn [jl fold_right]; [reflexivity|]. fold (jl (a * b) ps) (jl a ps) (jl b ps).
  rewrite IH, (RecipBridge.legendre_mul Hp H2). ring.
Qed.

Lemma jl_1 : forall ps, Forall oddprime ps -> jl 1 ps = 1.
Proof.
  induction 1 as [|p ps [Hp H2] _ IH]; cbn [jl fold_right]; [reflexivity|]. fold (jl 1 ps).
  rewrite IH, (RecipBridge.legendre_1 Hp H2). reflexivity.
Qed.

Lemma jl_mod_gen : forall a n ps, 0 < n -> Forall (fun p => oddprime p /\ (p | n)) ps -> jl (a mod n) ps = jl a ps.
Proof.
  intros a n ps Hn. induction 1 as [|p ps HpD _ IH]; cbn [jl fold_right]; [reflexivity|].
  cbv beta in HpD. destruct HpD as [[Hp H2] D].
  fold (jl (a mod n) ps) (jl a ps). rewrite IH. f_equal.
  rewrite <- (RecipBridge.legendre_mod H2 (a mod n)), <- (RecipBridge.legendre_mod H2 a).
  f_equal. symmetry. apply Zmod_div_mod; [lia|lia|exact D].
Qed.

Lemma prodl_divides : forall ps p, In p ps -> (p | prodl ps).
Proof.
  induction ps as [|q ps IH]; intros p I; [destruct I|]. destruct I as [E|I]; cbn [prodl fold_right]; fold (prodl ps).
  - subst. apply Z.divide_factor_l.
  - apply Z.divide_mul_r. apply IH. exact I.
Qed.

Lemma jl_mod : forall a ps, Forall oddprime ps -> jl (a mod prodl ps) ps = jl a ps.
Proof.
  intros a ps H. apply jl_mod_gen; [apply prodl_odd; exact H|].
  apply Forall_forall. intros p I. split; [rewrite Forall_forall in H; apply H; exact I|apply prodl_divides; exact I].
Qed.

(** residues of odd numbers *)
Lemma odd_mod4 : forall n, n mod 2 = 1 -> n mod 4 = 1 \/ n mod 4 = 3.
Proof. intros n H. pose proof (Z.mod_pos_bound n 4 ltac:(lia)). rewrite (Zmod_div_mod 2 4 n) in H by (try lia; exists 2; lia).
  assert (C : n mod 4 = 0 \/ n mod 4 = 1 \/ n mod 4 = 2 \/ n mod 4 = 3) by lia.
  destruct C as [E|[E|[E|E]]]; rewrite E in H; cbn in H; lia. Qed.

Lemma odd_mod8 : forall n, n mod 2 = 1 -> n mod 8 = 1 \/ n mod 8 = 3 \/ n mod 8 = 5 \/ n mod 8 = 7.
Proof. intros n H. pose proof (Z.mod_pos_bound n 8 ltac:(lia)). rewrite (Zmod_div_mod 2 8 n) in H by (try lia; exists 4; lia).
  assert (C : n mod 8 = 0 \/ n mod 8 = 1 \/ n mod 8 = 2 \/ n mod 8 = 3 \/ n mod 8 = 4 \/ n mod 8 = 5 \/ n mod 8 = 6 \/ n mod 8 = 7) by lia.
  destruct C as [E|[E|[E|[E|[E|[E|[E|E]]]]]]]; rewrite E in H; cbn in H; lia. Qed.

(** (-1 / n) *)
Lemma jl_m1 : forall ps, Forall oddprime ps -> jl (-1) ps = if prodl ps mod 4 =? 1 then 1 else -1.
Proof.
  induction 1 as [|p ps Hp Hps IH]; cbn [jl prodl fold_right]; [reflexivity|]. fold (jl (-1) ps) (prodl ps).
  rewrite IH. destruct Hp as [Hp H2]. rewrite (RecipBridge.legendre_m1 Hp H2).
  pose proof (odd_mod4 p (oddprime_odd p (conj Hp H2))) as Cp.
  pose proof (odd_mod4 _ (proj2 (prodl_odd ps Hps))) as Cn.
  rewrite (Zmult_mod p (prodl ps) 4).
  destruct Cp as [-> | ->]; destruct Cn as [-> | ->]; reflexivity.
Qed.

(** (2 / n) *)
Definition two_tab (r : Z) : Z := if (r =? 1) || (r =? 7) then 1 else -1.

Lemma jl_2 : forall ps, Forall oddprime ps -> jl 2 ps = two_tab (prodl ps mod 8).
Proof.
  induction 1 as [|p ps Hp Hps IH]; cbn [jl prodl fold_right]; [reflexivity|]. fold (jl 2 ps) (prodl ps).
  rewrite IH. destruct Hp as [Hp H2]. rewrite (RecipBridge.legendre_2 Hp H2).
  pose proof (odd_mod8 p (oddprime_odd p (conj Hp H2))) as Cp.
  pose proof (odd_mod8 _ (proj2 (prodl_odd ps Hps))) as Cn.
  rewrite (Zmult_mod p (prodl ps) 8). unfold two_tab.
  destruct Cp as [-> |[-> |[-> | ->]]]; destruct Cn as [-> |[-> |[-> | ->]]]; reflexivity.
Qed.

(** reciprocity sign *)
Definition eps (m n : Z) : Z := if (m mod 4 =? 3) && (n mod 4 =? 3) then -1 else 1.

Lemma eps_mul_l : forall m1 m2 n, m1 mod 2 = 1 -> m2 mod 2 = 1 -> eps (m1 * m2) n = eps m1 n * eps m2 n.
Proof.
  intros m1 m2 n H1 H2. unfold eps. rewrite (Zmult_mod m1 m2 4).
  destruct (odd_mod4 _ H1) as [-> | ->]; destruct (odd_mod4 _ H2) as [-> | ->]; cbn; destruct (n mod 4 =? 3); reflexivity.
Qed.

Lemma eps_comm : forall m n, eps m n = eps n m.
Proof. intros. unfold eps. rewrite andb_comm. reflexivity. Qed.

Lemma eps_mul_r : forall m n1 n2, n1 mod 2 = 1 -> n2 mod 2 = 1 -> eps m (n1 * n2) = eps m n1 * eps m n2.
Proof. intros. rewrite !(eps_comm m). apply eps_mul_l; assumption. Qed.

Lemma eps_1_r : forall m, eps m 1 = 1.
Proof. intros. unfold eps. rewrite andb_false_r. reflexivity. Qed.

Lemma tri_recip_solve : forall x y e, tri x -> tri y -> (e = 1 \/ e = -1) -> x * y = e -> x = e * y.
Proof. unfold tri. intros x y e Hx Hy He H. destruct Hx as [->|[->| ->]]; destruct Hy as [->|[->| ->]]; destruct He as [->| ->]; lia. Qed.

Lemma eps_pm : forall m n, eps m n = 1 \/ eps m n = -1.
Proof. intros. unfold eps. destruct (_ && _); lia. Qed.

Lemma jl_recip1 : forall q ps, oddprime q -> Forall oddprime ps ->
  jl q ps = eps (prodl ps) q * legendre (prodl ps) q.
Proof.
  intros q ps [Hq Q2]. induction 1 as [|p ps Hp Hps IH]; cbn [jl prodl fold_right].
  - rewrite (RecipBridge.legendre_1 Hq Q2). unfold eps. cbn. reflexivity.
  - fold (jl q ps) (prodl ps). rewrite IH.
    rewrite (RecipBridge.legendre_mul Hq Q2).
    rewrite (eps_mul_l _ _ _ (oddprime_odd p Hp) (proj2 (prodl_odd ps Hps))).
    destruct Hp as [Hp P2].
    destruct (Z.eq_dec p q) as [->|N].
    + assert (Z0 : legendre q q = 0) by (apply (RecipBridge.legendre_eq0 Hq Q2); apply Z.divide_refl).
      rewrite Z0. ring.
    + pose proof (RecipBridge.legendre_reciprocity Hp Hq P2 Q2 N) as R. fold (eps p q) in R.
      rewrite (tri_recip_solve _ _ _ (legendre_tri q p) (legendre_tri p q) (eps_pm p q) R). ring.
Qed.

(** Reciprocity for products of odd primes (no coprimality needed: both sides vanish together). *)
Lemma jl_recip : forall ps qs, Forall oddprime ps -> Forall oddprime qs ->
  jl (prodl qs) ps = eps (prodl ps) (prodl qs) * jl (prodl ps) qs.
Proof.
  intros ps qs Hps. induction 1 as [|q qs Hq Hqs IH]; cbn [jl prodl fold_right].
  - rewrite jl_1 by exact Hps. rewrite eps_1_r. reflexivity.
  - fold (jl (prodl ps) qs) (prodl qs). rewrite jl_mul by exact Hps. rewrite IH, (jl_recip1 q ps Hq Hps).
    rewrite (eps_mul_r _ _ _ (oddprime_odd q Hq) (proj2 (prodl_odd qs Hqs))). ring.
Qed.

Lemma jl_0 : forall ps, Forall oddprime ps -> jl 0 ps = if prodl ps =? 1 then 1 else 0.
Proof.
  intros ps H. destruct H as [|p ps [Hp P2] Hps]; cbn [jl prodl fold_right]; [reflexivity|].
  fold (prodl ps). assert (Z0 : legendre 0 p = 0) by (apply (RecipBridge.legendre_eq0 Hp P2); apply Z.divide_0_r).
  rewrite Z0. pose proof (prodl_odd ps Hps) as [Pos _].
  destruct (Z.eqb_spec (p * prodl ps) 1); [nia|lia].
Qed.
