(** * Kronecker symbol ([kronecker_symbol_i64], number-theory-elementary/src/kronecker.rs). stdlib + lia. *)
From Coq Require Import ZArith List Bool Lia Znumtheory.
From RNT.Model Require Import Base Elementary.
Open Scope Z_scope.

(** ** Range of the result *)

Definition tri (k : Z) : Prop := k = -1 \/ k = 0 \/ k = 1.

Lemma tri_recip : forall i, tri (recip_table i).
Proof.
  intros i. unfold recip_table, tri.
  repeat match goal with |- context [match ?x with _ => _ end] => destruct x end; lia.
Qed.

Lemma tri_mul : forall a b, tri a -> tri b -> tri (a * b).
Proof. unfold tri. intros a b Ha Hb. nia. Qed.

Lemma tri_opp : forall a, tri a -> tri (- a).
Proof. unfold tri. intros; lia. Qed.

Lemma kron_loop_range : forall fuel m a b k r, tri k -> kron_loop fuel m a b k = Done r -> tri r.
Proof.
  induction fuel as [|f IH]; intros m a b k r Hk H; cbn [kron_loop] in H; [discriminate|].
  destruct (a =? 0).
  - inversion H; subst. destruct (b =? 1); [exact Hk|unfold tri; lia].
  - destruct (strip2 65 0 a) as [[v a1]| |]; cbn [bind] in H; try discriminate.
    destruct (i64_norm m (Z.abs a1)) as [r0| |]; cbn [bind] in H; try discriminate.
    destruct (zrem b r0) as [a2| |]; cbn [bind] in H; try discriminate.
    eapply IH; [|exact H].
    assert (T1 : tri (if Z.rem v 2 =? 1 then k * recip_table (Z.land b 7) else k)).
    { destruct (Z.rem v 2 =? 1); [apply tri_mul; [exact Hk|apply tri_recip]|exact Hk]. }
    destruct (negb (Z.land (Z.land a1 b) 2 =? 0)); [apply tri_opp|]; exact T1.
Qed.

(** The top-level routine with the loop fuel as a parameter (the kernel must not be asked to compare terms
    containing [kron_loop 200] up to conversion). *)
Definition kronecker_f (f2 : nat) (m : mode) (a b : Z) : outcome Z :=
  if b =? 0 then Done (if (a =? 1) || (a =? -1) then 1 else 0)
  else if Z.land (Z.lor a b) 1 =? 0 then Done 0
  else
    do '(v, b1) <- strip2 65 0 b;
    let k := if Z.rem v 2 =? 1 then recip_table (Z.land a 7) else 1 in
    do '(b2, k1) <- (if b1 <? 0
                     then do nb <- i64_norm m (- b1); Done (nb, if a <? 0 then - k else k)
                     else Done (b1, k));
    kron_loop f2 m a b2 k1.

Lemma kronecker_unfold : forall m a b, kronecker m a b = kronecker_f 200 m a b.
Proof. reflexivity. Qed.

Lemma kronecker_f_range : forall f2 m a b r, kronecker_f f2 m a b = Done r -> tri r.
Proof.
  intros f2 m a b r H. unfold kronecker_f in H.
  destruct (b =? 0); [inversion H; destruct ((a =? 1) || (a =? -1)); unfold tri; lia|].
  destruct (Z.land (Z.lor a b) 1 =? 0); [inversion H; unfold tri; lia|].
  destruct (strip2 65 0 b) as [[v b1]| |]; cbn [bind] in H; try discriminate.
  set (k := if Z.rem v 2 =? 1 then recip_table (Z.land a 7) else 1) in *.
  assert (Tk : tri k) by (unfold k; destruct (Z.rem v 2 =? 1); [apply tri_recip|unfold tri; lia]).
  destruct (b1 <? 0).
  - destruct (i64_norm m (- b1)) as [nb| |]; cbn [bind] in H; try discriminate.
    eapply kron_loop_range; [|exact H]. destruct (a <? 0); [apply tri_opp|]; exact Tk.
  - cbn [bind] in H. eapply kron_loop_range; [|exact H]. exact Tk.
Qed.

(** [P] whenever the routine returns, the result is -1, 0 or 1. *)
Lemma kronecker_range : forall m a b r, kronecker m a b = Done r -> r = -1 \/ r = 0 \/ r = 1.
Proof. intros m a b r H. rewrite kronecker_unfold in H. exact (kronecker_f_range _ _ _ _ _ H). Qed.

(** ** The b = 0 clause and the both-even clause *)

Lemma kronecker_b0 : forall m a, kronecker m a 0 = Done (if Z.abs a =? 1 then 1 else 0).
Proof.
  intros m a. unfold kronecker. cbn [Z.eqb]. f_equal.
  destruct (Z.eqb_spec a 1); destruct (Z.eqb_spec a (-1)); destruct (Z.eqb_spec (Z.abs a) 1); cbn [orb]; try reflexivity; lia.
Qed.

Lemma land_1 : forall x, Z.land x 1 = x mod 2.
Proof. intros x. change 1 with (Z.ones 1) at 1. rewrite Z.land_ones by lia. reflexivity. Qed.

Lemma land_1_even : forall x, (Z.land x 1 =? 0) = Z.even x.
Proof.
  intros x. rewrite land_1, Zmod_even. destruct (Z.even x); reflexivity.
Qed.

Lemma kronecker_both_even : forall m a b, Z.even a = true -> Z.even b = true -> kronecker m a b = Done 0.
Proof.
  intros m a b Ha Hb. unfold kronecker.
  destruct (Z.eqb_spec b 0).
  - destruct (Z.eqb_spec a 1) as [->|]; [discriminate|]. destruct (Z.eqb_spec a (-1)) as [->|]; [discriminate|]. reflexivity.
  - rewrite land_1_even.
    assert (E : Z.even (Z.lor a b) = true).
    { rewrite <- Z.negb_odd, <- Z.bit0_odd, Z.lor_spec, !Z.bit0_odd.
      rewrite <- Z.negb_even, Ha. rewrite <- Z.negb_even, Hb. reflexivity. }
    rewrite E. reflexivity.
Qed.

(** ** No panic, no OutOfFuel on the whole i64 range (both build profiles) *)

Lemma strip2_spec : forall fuel v x, x <> 0 -> Z.abs x < 2 ^ Z.of_nat fuel ->
  exists v' x1, strip2 fuel v x = Done (v', x1) /\ Z.odd x1 = true /\
    0 < Z.abs x1 <= Z.abs x /\ Z.sgn x1 = Z.sgn x.
Proof.
  induction fuel as [|f IH]; intros v x Hx Hb.
  - change (2 ^ Z.of_nat 0) with 1 in Hb. lia.
  - cbn [strip2]. rewrite land_1_even. destruct (Z.even x) eqn:Ev.
    + apply Z.even_spec in Ev. destruct Ev as [h Hh].
      assert (Hq : Z.quot x 2 = h) by (subst x; rewrite Z.mul_comm; apply Z.quot_mul; lia).
      rewrite Hq. rewrite Nat2Z.inj_succ, Z.pow_succ_r in Hb by lia.
      destruct (IH (v + 1) h) as (v' & x1 & R & O & B & S); [lia|lia|].
      exists v', x1. split; [exact R|]. split; [exact O|]. split; [lia|]. rewrite S. subst x. lia.
    + exists v, x. split; [reflexivity|]. split; [rewrite <- Z.negb_even, Ev; reflexivity|]. split; [lia|reflexivity].
Qed.

Lemma odd_not_two63 : forall x, Z.odd x = true -> Z.abs x <> two63.
Proof.
  intros x Ho E. assert (C : x = two63 \/ x = - two63) by lia.
  destruct C as [-> | ->]; vm_compute in Ho; discriminate.
Qed.

Lemma kron_step : forall f m a b k, a <> 0 -> - two63 <= a < two63 -> 0 < b ->
  exists b' k', 0 < b' <= Z.abs a /\ b' < two63 /\
    kron_loop (S f) m a b k = kron_loop f m (Z.rem b b') b' k'.
Proof.
  intros f m a b k Ha Hr Hb. cbn [kron_loop]. destruct (Z.eqb_spec a 0); [contradiction|].
  destruct (strip2_spec 65 0 a Ha) as (v & a1 & R & O & B & S).
  { assert (two63 < 2 ^ Z.of_nat 65) by (vm_compute; reflexivity). lia. }
  rewrite R. cbn [bind].
  pose proof (odd_not_two63 a1 O) as N.
  assert (Hn : i64_norm m (Z.abs a1) = Done (Z.abs a1)).
  { unfold i64_norm. assert (two63 = 9223372036854775808) by reflexivity.
    destruct (Z.leb_spec (- two63) (Z.abs a1)); [|lia]. destruct (Z.ltb_spec (Z.abs a1) two63); [reflexivity|lia]. }
  rewrite Hn. cbn [bind]. unfold zrem. destruct (Z.eqb_spec (Z.abs a1) 0); [lia|]. cbn [bind].
  eexists _, _. split; [|split; [|reflexivity]]; lia.
Qed.

Lemma kron_loop_total : forall kk fuel m a b k,
  (2 * kk + 2 <= fuel)%nat -> 0 <= a < b -> b < 2 ^ Z.of_nat kk -> b < two63 ->
  exists r, kron_loop fuel m a b k = Done r.
Proof.
  assert (T63 : two63 = 9223372036854775808) by reflexivity.
  induction kk as [|kk IH]; intros fuel m a b k Hf Ha Hb Hb63.
  - change (2 ^ Z.of_nat 0) with 1 in Hb. lia.
  - destruct fuel as [|[|f]]; try lia.
    destruct (Z.eq_dec a 0) as [->|Ha0]; [cbn [kron_loop Z.eqb]; eauto|].
    destruct (kron_step (S f) m a b k Ha0 ltac:(lia) ltac:(lia)) as (b1 & k1 & B1 & B1' & E1). rewrite E1.
    pose proof (Z.rem_bound_pos b b1 ltac:(lia) ltac:(lia)) as R1.
    pose proof (Z.quot_rem' b b1) as Q1.
    assert (Hq1 : 1 <= Z.quot b b1) by (apply Z.quot_le_lower_bound; lia).
    set (a1 := Z.rem b b1) in *.
    destruct (Z.eq_dec a1 0) as [Ea|Ha1]; [rewrite Ea; cbn [kron_loop Z.eqb]; eauto|].
    destruct (kron_step f m a1 b1 k1 Ha1 ltac:(lia) ltac:(lia)) as (b2 & k2 & B2 & B2' & E2). rewrite E2.
    apply IH; [lia| |  |lia].
    + apply Z.rem_bound_pos; lia.
    + rewrite Nat2Z.inj_succ, Z.pow_succ_r in Hb by lia. nia.
Qed.

Lemma kronecker_f_total : forall f2 m a b, (129 <= f2)%nat -> - two63 <= a < two63 -> - two63 <= b < two63 ->
  exists r, kronecker_f f2 m a b = Done r.
Proof.
  assert (T63 : two63 = 9223372036854775808) by reflexivity.
  intros f2 m a b Hf2 Ha Hb. unfold kronecker_f.
  destruct (Z.eqb_spec b 0); [eauto|]. destruct (Z.land (Z.lor a b) 1 =? 0); [eauto|].
  destruct (strip2_spec 65 0 b ltac:(assumption)) as (v & b1 & R & O & B & S).
  { assert (two63 < 2 ^ Z.of_nat 65) by (vm_compute; reflexivity). lia. }
  rewrite R. cbn [bind]. pose proof (odd_not_two63 b1 O) as N.
  set (k := if Z.rem v 2 =? 1 then recip_table (Z.land a 7) else 1).
  assert (L : forall b2 k1, 0 < b2 < two63 -> exists r, kron_loop f2 m a b2 k1 = Done r).
  { intros b2 k1 Hb2. destruct f2 as [|f]; [lia|].
    destruct (Z.eq_dec a 0) as [->|Ha0]; [cbn [kron_loop Z.eqb]; eauto|].
    destruct (kron_step f m a b2 k1 Ha0 Ha ltac:(lia)) as (b' & k' & B1 & B1' & E). rewrite E.
    apply (kron_loop_total 63); [lia|apply Z.rem_bound_pos; lia| |lia].
    assert (two63 = 2 ^ Z.of_nat 63) by (vm_compute; reflexivity). lia. }
  destruct (Z.ltb_spec b1 0).
  - assert (Hn : i64_norm m (- b1) = Done (- b1)).
    { unfold i64_norm. destruct (Z.leb_spec (- two63) (- b1)); [|lia]. destruct (Z.ltb_spec (- b1) two63); [reflexivity|lia]. }
    rewrite Hn. cbn [bind]. apply L. lia.
  - cbn [bind]. apply L. lia.
Qed.

(** [P] for all a, b in the i64 range and both profiles the routine returns (no overflow panic is reachable:
    [-b] and [a.abs()] are only applied to odd values, so never to i64::MIN; the fuel of the model suffices). *)
Lemma kronecker_total : forall m a b, - two63 <= a < two63 -> - two63 <= b < two63 ->
  exists r, kronecker m a b = Done r.
Proof. intros m a b Ha Hb. rewrite kronecker_unfold. apply kronecker_f_total; [lia|exact Ha|exact Hb]. Qed.

(** ** Reference symbol from the definition, and the bounded comparison *)

(** (a/p) for an odd prime p by Euler's criterion. *)
Definition legendre (a p : Z) : Z :=
  let t := (a mod p) ^ ((p - 1) / 2) mod p in
  if t =? 0 then 0 else if t =? 1 then 1 else -1.
(** (a/2): 0 for even a, 1 for a = +-1 (mod 8), -1 for a = +-3 (mod 8). *)
Definition kron_at_2 (a : Z) : Z :=
  if Z.even a then 0 else if (a mod 8 =? 1) || (a mod 8 =? 7) then 1 else -1.
(** (a/-1): -1 for a < 0, 1 otherwise. *)
Definition kron_at_m1 (a : Z) : Z := if a <? 0 then -1 else 1.
Definition local_symbol (a p : Z) : Z := if p =? 2 then kron_at_2 a else legendre a p.

(** p-adic valuation (n > 0, fuel steps). *)
Fixpoint pval (fuel : nat) (p n : Z) : nat :=
  match fuel with
  | O => O
  | S f => if n mod p =? 0 then S (pval f p (n / p)) else O
  end.

(** The primes up to 128: the model's sieve, proved correct in [ElemProofs.primes_spec]. *)
Definition primes128 : list Z := Eval vm_compute in map Z.of_nat (primes 128).
Lemma primes128_eq : primes128 = map Z.of_nat (primes 128).
Proof. vm_compute. reflexivity. Qed.

(** Kronecker symbol (a/b) for |b| <= 128: (a/0) = [|a| = 1]; otherwise (a/sign b) * prod_p (a/p)^(v_p |b|). *)
Definition kron_ref (a b : Z) : Z :=
  if b =? 0 then (if Z.abs a =? 1 then 1 else 0)
  else (if b <? 0 then kron_at_m1 a else 1) *
       fold_right (fun p acc => match pval 8 p (Z.abs b) with
                                | O => acc
                                | v => local_symbol a p ^ Z.of_nat v * acc
                                end) 1 primes128.

Definition range128 : list Z := map (fun i => Z.of_nat i - 128) (seq 0 257).

Lemma in_range128 : forall x, -128 <= x <= 128 -> In x range128.
Proof.
  intros x Hx. unfold range128. apply in_map_iff. exists (Z.to_nat (x + 128)). split; [lia|].
  apply in_seq. lia.
Qed.

(** sanity of the reference: the factorisation it uses is complete on the box *)
Lemma kron_ref_factorisation_bounded : forall b, 1 <= b <= 128 ->
  fold_right (fun p acc => p ^ Z.of_nat (pval 8 p b) * acc) 1 primes128 = b.
Proof.
  intros b Hb.
  assert (H : forallb (fun b => (b <=? 0) || (fold_right (fun p acc => p ^ Z.of_nat (pval 8 p b) * acc) 1 primes128 =? b)) range128 = true)
    by (vm_compute; reflexivity).
  rewrite forallb_forall in H. specialize (H b (in_range128 b ltac:(lia))).
  destruct (Z.leb_spec b 0); [lia|]. cbn [orb] in H. apply Z.eqb_eq. exact H.
Qed.

Definition kron_check (m : mode) (a b : Z) : bool :=
  match kronecker m a b with Done r => r =? kron_ref a b | _ => false end.

(** [B] on the box |a|, |b| <= 2^7 the routine (both profiles) equals the reference symbol. *)
Lemma kronecker_bounded : forall m a b, -128 <= a <= 128 -> -128 <= b <= 128 ->
  kronecker m a b = Done (kron_ref a b).
Proof.
  intros m a b Ha Hb.
  assert (H : forallb (fun a => forallb (fun b => kron_check Checked a b && kron_check Wrapping a b) range128) range128 = true)
    by (vm_cast_no_check (eq_refl true)).
  rewrite forallb_forall in H. specialize (H a (in_range128 a Ha)).
  rewrite forallb_forall in H. specialize (H b (in_range128 b Hb)).
  apply andb_prop in H. destruct H as [H1 H2]. unfold kron_check in *.
  destruct m.
  - destruct (kronecker Checked a b); try discriminate. apply Z.eqb_eq in H1. subst. reflexivity.
  - destruct (kronecker Wrapping a b); try discriminate. apply Z.eqb_eq in H2. subst. reflexivity.
Qed.
