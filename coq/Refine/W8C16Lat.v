(** * W8C16Lat (C16, eighth wave): full-rank sublattices of Z^n given by square integer matrices, and their indices.
      [inL A x]: x is an integer combination of the rows of A.
      - inclusion of lattices: |det| of the larger divides, equality of |det| gives equality of lattices ([inL_sub]);
      - membership is decidable when det A <> 0 ([inL_dec]: x adj(A) divisible by det A);
      - the first isomorphism theorem in determinant form ([iso_mx]): for any n x n matrix M and B with det B <> 0
        there are bases H of L(B) + Z^n M and K of { x : x M in L(B) } with |det B| = |det K| |det H|
        (the unimodular U of the normal form of the stacked matrix [M; B]: U [[1, M], [0, B]] = [[K, 0], [*, H]]).
      Style: ssreflect/MathComp. *)
From Coq Require Import ZArith List.
From mathcomp Require Import all_ssreflect ssralg zmodp matrix mxalgebra.
From mathcomp Require Import ssrZ zify.
From RNT.Model Require Import Base LinAlg MultTable Ideal.
From RNT.Model Require Hnf.
From RNT.Refine Require Import LinAlgQc MatZ HnfOps HnfSpec HnfMain HnfDet HnfCanon IdealMul IdealSpec DetBridge DetHnf.
From RNT.Refine Require Import IdealW6Core IdealW6Full IdealW6Nak IdealW6Norm.
Set Implicit Arguments.
Unset Strict Implicit.
Unset Printing Implicit Defensive.
Import GRing.Theory.
Local Open Scope ring_scope.

Definition inL m n (A : 'M[Z]_(m, n)) (x : 'rV[Z]_n) : Prop := exists c : 'rV[Z]_m, x = c *m A.

Lemma inL_row m n (A : 'M[Z]_(m, n)) i : inL A (matrix.row i A).
Proof. by exists (delta_mx 0 i); rewrite -rowE. Qed.

Lemma inL0 m n (A : 'M[Z]_(m, n)) : inL A 0.
Proof. by exists 0; rewrite mul0mx. Qed.

Lemma inLD m n (A : 'M[Z]_(m, n)) x y : inL A x -> inL A y -> inL A (x + y).
Proof. by move=> [c ->] [c' ->]; exists (c + c'); rewrite mulmxDl. Qed.

Lemma inLZ m n (A : 'M[Z]_(m, n)) q x : inL A x -> inL A (q *: x).
Proof. by move=> [c ->]; exists (q *: c); rewrite scalemxAl. Qed.

Lemma inL_mul m p n (A : 'M[Z]_(m, n)) (X : 'M[Z]_(p, m)) x : inL (X *m A) x -> inL A x.
Proof. by move=> [c ->]; exists (c *m X); rewrite mulmxA. Qed.

(** a matrix whose rows are in L(A) is a multiple of A *)
Lemma sub_mx m p n (A : 'M[Z]_(m, n)) (B : 'M[Z]_(p, n)) :
  (forall i, inL A (matrix.row i B)) -> exists X : 'M[Z]_(p, m), B = X *m A.
Proof.
move=> h; have [f hf] := fin_choice_ord h.
exists (\matrix_i f i); apply/row_matrixP => i.
by rewrite row_mul rowK; exact: hf.
Qed.

Lemma unimod_inv n (X : 'M[Z]_n) : Z.abs (\det X) = 1%Z -> exists V : 'M[Z]_n, V *m X = 1%:M.
Proof.
move=> h; exists (\det X *: \adj X).
rewrite -scalemxAl mul_adj_mx scale_scalar_mx.
have -> : \det X * \det X = 1 by rewrite -[_ * _]/(Z.mul _ _); lia.
by [].
Qed.

Lemma inL_sub n (A B : 'M[Z]_n) : \det B <> 0%Z -> (forall x, inL B x -> inL A x) ->
  [/\ \det A <> 0%Z, (Z.abs (\det A) <= Z.abs (\det B))%Z
    & Z.abs (\det B) = Z.abs (\det A) -> forall x, inL A x -> inL B x].
Proof.
move=> dB h.
have [X eX] : exists X : 'M[Z]_n, B = X *m A by apply: sub_mx => i; apply: h; apply: inL_row.
have eD : Z.abs (\det B) = (Z.abs (\det X) * Z.abs (\det A))%Z by rewrite eX det_mulmx -Z.abs_mul.
have pB : (0 < Z.abs (\det B))%Z by lia.
have pX := Z.abs_nonneg (\det X); have pA := Z.abs_nonneg (\det A).
have zA : \det A = 0%Z -> Z.abs (\det A) = 0%Z by move=> ->.
move: (Z.abs (\det B)) (Z.abs (\det A)) eD pB pX pA (@unimod_inv _ X) zA => b a.
move: (Z.abs (\det X)) => xx eD pB pX pA hV zA.
have x1 : (1 <= xx)%Z by case: (Z.eq_dec xx 0) => [e0|]; [move: eD pB; rewrite e0; lia|lia].
split; [by move=> /zA e; move: eD pB; rewrite e; lia|by nia|].
move=> e.
have [V eV] : exists V : 'M[Z]_n, V *m X = 1%:M by apply: hV; nia.
move=> x [c ->]; exists (c *m V).
by rewrite eX -mulmxA [V *m _]mulmxA eV mul1mx.
Qed.

(** ** decidability of membership *)
Lemma inL_adj n (A : 'M[Z]_n) (x : 'rV[Z]_n) : \det A <> 0%Z ->
  inL A x <-> forall j, Z.divide (\det A) ((x *m \adj A) 0 j).
Proof.
move=> dA; split.
  move=> [c ->] j; exists (c 0 j).
  by rewrite -mulmxA mul_mx_adj mul_mx_scalar mxE mulrC.
move=> h.
pose c : 'rV[Z]_n := \row_j Z.div ((x *m \adj A) 0 j) (\det A).
have ec : x *m \adj A = \det A *: c.
  apply/rowP => j; have [q eq] := h j.
  by rewrite [RHS]mxE [c 0 j]mxE eq Z.div_mul //; lia.
exists c.
have : \det A *: x = \det A *: (c *m A).
  by rewrite scalemxAl -ec -mulmxA mul_adj_mx mul_mx_scalar.
move=> /rowP e; apply/rowP => j; have := e j; rewrite !mxE.
rewrite -![_ * _]/(Z.mul _ _); move: (x 0 j) => u e'.
by apply: (Z.mul_reg_l _ _ (\det A)).
Qed.

Definition inLb n (A : 'M[Z]_n) (x : 'rV[Z]_n) : bool :=
  [forall j, Z.eqb (Z.modulo ((x *m \adj A) 0 j) (\det A)) 0%Z].

Lemma inLbP n (A : 'M[Z]_n) (x : 'rV[Z]_n) : \det A <> 0%Z -> reflect (inL A x) (inLb A x).
Proof.
move=> dA; apply: (iffP idP).
  move=> /forallP h; apply/(inL_adj x dA) => j.
  by apply/Z.mod_divide => //; apply/Z.eqb_eq; exact: h.
move=> /(inL_adj x dA) h; apply/forallP => j.
by apply/Z.eqb_eq; apply/Z.mod_divide.
Qed.

Lemma inL_dec n (A : 'M[Z]_n) (x : 'rV[Z]_n) : \det A <> 0%Z -> inL A x \/ ~ inL A x.
Proof. by move=> dA; case: (inLbP x dA) => h; [left|right]. Qed.

(** a witness of strict inclusion *)
Lemma inL_witness n (A B : 'M[Z]_n) : \det B <> 0%Z -> (forall x, inL B x -> inL A x) ->
  Z.abs (\det B) <> Z.abs (\det A) -> exists x, inL A x /\ ~ inL B x.
Proof.
move=> dB h ne.
have [dA le _] := inL_sub dB h.
case E: [forall i, inLb B (matrix.row i A)].
  have hA : forall x, inL A x -> inL B x.
    move=> x [c ->].
    have [X ->] : exists X : 'M[Z]_n, A = X *m B.
      by apply: sub_mx => i; apply/(inLbP _ dB); move/forallP: E; apply.
    by exists (c *m X); rewrite mulmxA.
  have [_ le' _] := inL_sub dA hA.
  by case: ne; lia.
move/negbT: E => /forallPn [i /negP hi].
by exists (matrix.row i A); split; [exact: inL_row|move=> /(inLbP _ dB)].
Qed.

(** ** the stacked matrix: a unimodular U with U [M; B] = [0; H] *)
Lemma stack_unimod n (M B : 'M[Z]_n) : (0 < n)%nat -> \det B <> 0%Z ->
  exists (U : 'M[Z]_(n + n)) (H : 'M[Z]_n),
    [/\ \det U = 1%Z \/ \det U = (-1)%Z, (0 < \det H)%Z & U *m col_mx M B = col_mx 0 H].
Proof.
move=> n0 dB.
have n1 : (1 <= n)%coq_nat by apply/leP.
have [lM [sM eM]] := list_of_mx M.
have [lB [sB eB]] := list_of_mx B.
have sS : shape (n + n) n (List.app lM lB).
  by split; [rewrite List.app_length sM.1 sB.1|apply/wf_app; split; [exact: sM.2|exact: sB.2]].
have hnn : (1 <= n + n)%coq_nat by lia.
have [H EH] := hnf_new_total0 (List.app lM lB) n sS.2 n1.
have [U [k EU]] := hnf_new_Done _ _ EH.
have [hrH [sU [uU [eUS ek]]]] := hnf_with_u_correct _ (n + n) n H U k sS hnn n1 EU.
have wH := hnf_rows_wf n 0 H hrH.
have [_ [_ spH]] := hnf_new_correct _ (n + n) n H sS hnn n1 EH.
have lH : length H = n.
  have d0 : \det (zmx n n lB) <> 0%Z by rewrite eB.
  apply: (hnf_full_length hrH d0) => i hi; apply/spH.
  apply: (rows_subset_span n (List.app lM lB) lB sS.2).
    by move=> r hr; apply: List.in_or_app; right.
  exact: (det_scaled_units sB).
have ek' : k = n by lia.
have [dH dHpos] := hnf_square_det hrH n1 lH.
exists (zmx (n + n) (n + n) U), (zmx n n H); split.
- exact: (unimodular_det sU uU).
- by rewrite dH.
- rewrite -eM -eB -(zmx_cat n n lB sM.1) -(zmx_mmul sU.1 sS.2 sS.1) eUS ek'.
  by rewrite (zmx_cat n n H (List.repeat_length _ n)) zmx_zero_rows.
Qed.

Section Iso.
Variable n : nat.
Variables (M B H : 'M[Z]_n) (U : 'M[Z]_(n + n)).
Hypothesis eU : U *m col_mx M B = col_mx 0 H.
Hypothesis dU : \det U = 1%Z \/ \det U = (-1)%Z.
Hypothesis dH : \det H <> 0%Z.

Let U11 := ulsubmx U. Let U12 := ursubmx U. Let U21 := dlsubmx U. Let U22 := drsubmx U.

Lemma iso_blocks : U11 *m M + U12 *m B = 0 /\ U21 *m M + U22 *m B = H.
Proof. by have := eU; rewrite -{1}(submxK U) mul_block_col => /eq_col_mx [e1 e2]. Qed.

Lemma iso_det : Z.abs (\det B) = (Z.abs (\det U11) * Z.abs (\det H))%Z.
Proof.
have [e1 e2] := iso_blocks.
pose G : 'M[Z]_(n + n) := block_mx 1%:M M 0 B.
have eG : U *m G = block_mx U11 0 U21 H.
  by rewrite -{1}(submxK U) mulmx_block !mulmx1 !mulmx0 !addr0 e1 e2.
have dG : \det G = \det B by rewrite det_ublock det1 mul1r.
have := congr1 (fun X => Z.abs (\det X)) eG; rewrite det_mulmx det_lblock /= dG.
rewrite -![(_ * _)%R]/(_ * _)%Z !Z.abs_mul /U11.
by case: dU => -> <-; rewrite Z.mul_1_l.
Qed.

Lemma iso_inv : exists V : 'M[Z]_(n + n), V *m U = 1%:M /\ U *m V = 1%:M.
Proof.
exists (\det U *: \adj U); split.
  by rewrite -scalemxAl mul_adj_mx scale_scalar_mx; case: dU => ->.
by rewrite -scalemxAr mul_mx_adj scale_scalar_mx; case: dU => ->.
Qed.

Lemma iso_ker (x : 'rV[Z]_n) : inL U11 x <-> inL B (x *m M).
Proof.
have [e1 e2] := iso_blocks.
split.
  case=> c ->; exists (- (c *m U12)).
  by rewrite -mulmxA mulNmx -mulmxA -mulmxN; congr (_ *m _); apply/eqP; rewrite -subr_eq0 opprK e1.
case=> y ey.
have [V [VU UV]] := iso_inv.
pose xy : 'rV[Z]_(n + n) := row_mx x (- y).
have k0 : xy *m col_mx M B = 0 by rewrite mul_row_col mulNmx -ey subrr.
pose c := xy *m V.
have ec : c *m U = xy by rewrite -mulmxA VU mulmx1.
have : c *m (U *m col_mx M B) = 0 by rewrite mulmxA ec k0.
rewrite eU -{1}(hsubmxK c) mul_row_col mulmx0 add0r => /(zmx_regular_row dH) c20.
exists (lsubmx c).
have : xy = row_mx (lsubmx c) 0 *m U by rewrite -c20 hsubmxK.
by rewrite -{1}(submxK U) mul_row_block !mul0mx !addr0 => /eq_row_mx [e _].
Qed.

Lemma iso_img (x : 'rV[Z]_n) : inL H x <-> inL (col_mx M B) x.
Proof.
split.
  case=> c ->; exists (row_mx 0 c *m U).
  by rewrite -mulmxA eU mul_row_col mul0mx add0r.
case=> c ->.
have [V [VU UV]] := iso_inv.
exists (rsubmx (c *m V)).
have -> : c *m col_mx M B = (c *m V) *m (U *m col_mx M B) by rewrite mulmxA -[c *m V *m U]mulmxA VU mulmx1.
by rewrite eU -{1}(hsubmxK (c *m V)) mul_row_col mulmx0 add0r.
Qed.
End Iso.

Theorem iso_mx n (M B : 'M[Z]_n) : (0 < n)%nat -> \det B <> 0%Z ->
  exists H K : 'M[Z]_n,
    [/\ \det H <> 0%Z, \det K <> 0%Z,
        forall x, inL H x <-> inL (col_mx M B) x,
        forall x, inL K x <-> inL B (x *m M)
      & Z.abs (\det B) = (Z.abs (\det K) * Z.abs (\det H))%Z].
Proof.
move=> n0 dB.
have [U [H [dU dHpos eU]]] := stack_unimod M n0 dB.
have dH : \det H <> 0%Z by lia.
exists H, (ulsubmx U).
have eD := iso_det eU dU.
split=> //.
- by move=> e; move: eD; rewrite e /=; lia.
- exact: (iso_img eU dU).
- exact: (iso_ker eU dU dH).
Qed.
