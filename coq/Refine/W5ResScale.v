(** * W5ResScale: C04, the scaling law of the rational routine as a statement about two runs of the model:
    resultant_rational (s f) (t g) = s^deg g * t^deg f * resultant_rational f g for canonical non-zero f, g over Q
    and non-zero rationals s, t (from [ResQ.resultant_rational_spec], [ResProofs3.resultant_rational_total] and
    the spec-level [ResEuclid.resultant_scale]). *)
From RNT.Model Require Import Base Poly Resultant.
From Coq Require Import QArith Qcanon.
From mathcomp Require Import all_ssreflect ssralg poly polydiv matrix mxpoly.
From mathcomp Require Import ssrZ zify.
From RNT.Refine Require Import QcRing PolyRefine PolyDiv PolyQ ResSylvester ResEuclid ResQ.
From RNT.Refine Require ResProofs ResProofs3.
Set Implicit Arguments.
Unset Strict Implicit.
Unset Printing Implicit Defensive.
Import GRing.Theory.
Local Open Scope ring_scope.

Lemma PolyQ_map_mull (l : seq Qc) (s : Qc) : Poly (List.map (Qcmult s) l) = s *: Poly l.
Proof.
rewrite Lmap_eq; apply/polyP=> i; rewrite coefZ !coef_Poly.
case: (ltnP i (size l)) => hi; first by rewrite (nth_map 0).
by rewrite !nth_default ?size_map // mulr0.
Qed.

Lemma qcanonb_map_mull (l : seq Qc) (s : Qc) : s != 0 ->
  ResProofs.qcanonb l = true -> ResProofs.qcanonb (List.map (Qcmult s) l) = true.
Proof.
move=> nzs; rewrite !qcanonb_canonQ /canonQ Lmap_eq.
case: l => [|x l] //; rewrite !canon_last //= (last_map (Qcmult s)) => h.
by rewrite -[Qcmult _ _]/(s * _) mulf_neq0.
Qed.

Theorem resultant_rational_scale_model m (f g : seq Qc) (s t : Qc) :
  ResProofs.qcanonb f = true -> ResProofs.qcanonb g = true ->
  ResProofs.len_ok f = true -> ResProofs.len_ok g = true ->
  f <> [::] -> g <> [::] -> s != 0 -> t != 0 ->
  exists v, resultant_rational m f g = Done v /\
    resultant_rational m (List.map (Qcmult s) f) (List.map (Qcmult t) g) =
      Done (s ^+ (size g).-1 * t ^+ (size f).-1 * v).
Proof.
move=> cf cg lf lg nf ng nzs nzt.
have [v ev] := ResProofs3.resultant_rational_total m _ _ cf cg lf lg.
exists v; split=> //.
have cf' := qcanonb_map_mull nzs cf; have cg' := qcanonb_map_mull nzt cg.
have lf' : ResProofs.len_ok (List.map (Qcmult s) f) = true by move: lf; rewrite /ResProofs.len_ok List.map_length.
have lg' : ResProofs.len_ok (List.map (Qcmult t) g) = true by move: lg; rewrite /ResProofs.len_ok List.map_length.
have nf' : List.map (Qcmult s) f <> [::] by case: (f) nf.
have ng' : List.map (Qcmult t) g <> [::] by case: (g) ng.
have [v' ev'] := ResProofs3.resultant_rational_total m _ _ cf' cg' lf' lg'.
rewrite ev'; congr Done.
rewrite (resultant_rational_spec cf' cg' lf' lg' nf' ng' ev') (resultant_rational_spec cf cg lf lg nf ng ev).
rewrite !PolyQ_map_mull -!/(mxpoly.resultant _ _) resultant_scale //.
have cf2 : canonQ f by rewrite -qcanonb_canonQ.
have cg2 : canonQ g by rewrite -qcanonb_canonQ.
by rewrite !canon_size_Poly // [t ^+ _ * _]mulrC.
Qed.
