(** C20: the exact instance's [floor (sqrt t - u)] and [ceil (- sqrt t - u)]:
    for t >= 0, an integer x lies in [Qc_down t u, Qc_up t u] iff (x + u)^2 <= t.
    (stdlib; lia/nia on Z, lra/nra on Q.) *)
From RNT.Model Require Import Base Lll.
From Coq Require Import Lia QArith Qcanon Qround Lqa.
Open Scope Z_scope.

(** ** [this] through the operations of Qc *)
Lemma this_plus a b : (this (Qcplus a b) == this a + this b)%Q.
Proof. unfold Qcplus, Q2Qc; cbn [this]. apply Qred_correct. Qed.
Lemma this_minus a b : (this (Qcminus a b) == this a - this b)%Q.
Proof. unfold Qcminus, Qcplus, Qcopp, Q2Qc; cbn [this]. rewrite !Qred_correct. reflexivity. Qed.
Lemma this_mult a b : (this (Qcmult a b) == this a * this b)%Q.
Proof. unfold Qcmult, Q2Qc; cbn [this]. apply Qred_correct. Qed.
Lemma this_opp a : (this (Qcopp a) == - this a)%Q.
Proof. unfold Qcopp, Q2Qc; cbn [this]. apply Qred_correct. Qed.
Lemma this_ofZ z : (this (Qc_of_Z z) == inject_Z z)%Q.
Proof. unfold Qc_of_Z, Q2Qc; cbn [this]. apply Qred_correct. Qed.
Lemma this_0 : (this (Q2Qc 0) == 0)%Q.
Proof. reflexivity. Qed.

(** ** integer square root of a non-negative rational *)
Lemma isqrt_spec (t : Qc) : (0 <= this t)%Q ->
  0 <= Qc_isqrt t /\
  (inject_Z (Qc_isqrt t) * inject_Z (Qc_isqrt t) <= this t)%Q /\
  (this t < (inject_Z (Qc_isqrt t) + 1) * (inject_Z (Qc_isqrt t) + 1))%Q.
Proof.
  intros Ht. unfold Qc_isqrt. destruct (this t) as [p d] eqn:E. cbn [Qnum Qden].
  assert (Hp : 0 <= p) by (unfold Qle in Ht; cbn in Ht; lia).
  pose proof (Z.sqrt_spec (p * Zpos d) ltac:(lia)) as R. cbv zeta in R.
  pose proof (Z.sqrt_nonneg (p * Zpos d)) as Rn.
  set (r := Z.sqrt (p * Zpos d)) in *.
  set (D := Zpos d) in *. assert (HD : 0 < D) by (unfold D; lia).
  pose proof (Z.div_pos r D Rn HD) as Sn.
  pose proof (Z.mul_div_le r D HD) as S1.
  pose proof (Z.mul_succ_div_gt r D HD) as S2.
  set (s := r / D) in *.
  split; [exact Sn|]. split.
  - unfold Qle, Qmult, inject_Z; cbn [Qnum Qden]. fold D. nia.
  - change 1%Q with (inject_Z 1). rewrite <- inject_Z_plus. unfold Qlt, Qmult, inject_Z; cbn [Qnum Qden]. fold D.
    assert (r + 1 <= D * (s + 1)) by lia. nia.
Qed.

(** ** the test [x + u <= sqrt t] *)
Definition testQ (t u : Q) (x : Z) : Prop :=
  (inject_Z x + u <= 0 \/ (inject_Z x + u) * (inject_Z x + u) <= t)%Q.

Lemma sq_le_iff t u x : sq_le t u x = true <-> testQ (this t) (this u) x.
Proof.
  unfold sq_le, testQ, Qc_leb. rewrite Bool.orb_true_iff, !Qle_bool_iff.
  rewrite this_mult, this_plus, this_ofZ, this_0. reflexivity.
Qed.

Lemma testQ_mono t u x x' : (0 <= t)%Q -> testQ t u x -> x' <= x -> testQ t u x'.
Proof.
  unfold testQ. intros Ht H Hx. rewrite Zle_Qle in Hx.
  destruct (Qlt_le_dec 0 (inject_Z x' + u)) as [Hp|Hn]; [right|left; exact Hn].
  destruct H as [H|H]; [lra|nra].
Qed.

Lemma up_core (t u : Q) (s : Z) : 0 <= s ->
  (inject_Z s * inject_Z s <= t)%Q -> (t < (inject_Z s + 1) * (inject_Z s + 1))%Q ->
  let f := Qfloor (inject_Z s - u) in testQ t u f /\ ~ testQ t u (f + 2).
Proof.
  intros Hs H1 H2 f. rewrite Zle_Qle in Hs.
  pose proof (Qfloor_le (inject_Z s - u)) as F1. pose proof (Qlt_floor (inject_Z s - u)) as F2.
  fold f in F1, F2. rewrite inject_Z_plus in F2. change (inject_Z 1) with 1%Q in F2.
  change (inject_Z 0) with 0%Q in Hs. split.
  - unfold testQ. destruct (Qlt_le_dec 0 (inject_Z f + u)) as [Hp|Hn]; [right; nra|left; exact Hn].
  - unfold testQ. rewrite inject_Z_plus. change (inject_Z 2) with 2%Q. intros [H|H]; [lra|nra].
Qed.

Lemma Qc_up_spec t u : (0 <= this t)%Q ->
  testQ (this t) (this u) (Qc_up t u) /\ ~ testQ (this t) (this u) (Qc_up t u + 1).
Proof.
  intros Ht. destruct (isqrt_spec t Ht) as (Hs & H1 & H2).
  pose proof (up_core (this t) (this u) (Qc_isqrt t) Hs H1 H2) as [A B]. cbv zeta in A, B.
  unfold Qc_up, Qc_floor.
  rewrite (Qfloor_comp _ (inject_Z (Qc_isqrt t) - this u)) by (rewrite this_minus, this_ofZ; reflexivity).
  set (f := Qfloor (inject_Z (Qc_isqrt t) - this u)) in *.
  destruct (sq_le t u (f + 1)) eqn:E.
  - apply sq_le_iff in E. split; [exact E|]. replace (f + 1 + 1) with (f + 2) by lia. exact B.
  - replace (f + 1 - 1) with f by lia. split; [exact A|].
    intros C. apply sq_le_iff in C. congruence.
Qed.

Lemma le_up_iff t u x : (0 <= this t)%Q -> (x <= Qc_up t u <-> testQ (this t) (this u) x).
Proof.
  intros Ht. destruct (Qc_up_spec t u Ht) as [A B]. split.
  - intros H. eapply testQ_mono; eassumption.
  - intros H. destruct (Z_le_gt_dec x (Qc_up t u)) as [L|G]; [exact L|].
    exfalso. apply B. eapply testQ_mono; [exact Ht|exact H|lia].
Qed.

Lemma ge_down_iff t u x : (0 <= this t)%Q ->
  (Qc_down t u <= x <-> (0 <= inject_Z x + this u \/ (inject_Z x + this u) * (inject_Z x + this u) <= this t)%Q).
Proof.
  intros Ht. unfold Qc_down.
  assert (E : - Qc_up t (Qcopp u) <= x <-> - x <= Qc_up t (Qcopp u)) by lia.
  rewrite E, (le_up_iff t (Qcopp u) (- x) Ht). unfold testQ.
  rewrite this_opp, inject_Z_opp. split; intros [H|H]; [left; lra|right; nra|left; lra|right; nra].
Qed.

(** the range of the loop in [dfs] *)
Theorem Qc_range_spec t u x : Qcle (Q2Qc 0) t ->
  (Qc_down t u <= x <= Qc_up t u <->
   Qcle (Qcmult (Qcplus (Qc_of_Z x) u) (Qcplus (Qc_of_Z x) u)) t).
Proof.
  intros Ht. assert (Ht' : (0 <= this t)%Q) by exact Ht.
  rewrite (le_up_iff t u x Ht'), (ge_down_iff t u x Ht'). unfold testQ, Qcle.
  rewrite this_mult, this_plus, this_ofZ.
  split.
  - intros [[A|A] [B|B]]; try assumption. nra.
  - intros H. split; right; exact H.
Qed.
