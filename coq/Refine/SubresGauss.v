(** Gauss's lemma for {poly Z} (transported from MathComp's intdiv.v on {poly int}) and its use for
    [resultant_gcd]: the result divides both inputs in Z[x], with coprime cofactors whose contents are
    coprime. ssreflect/MathComp style. *)
From Coq Require Import ZArith.
From mathcomp Require Import all_ssreflect ssralg ssrnum ssrint poly polydiv intdiv.
From mathcomp Require Import ssrZ zify.
From RNT.Refine Require Import SubresGaussZ.
Set Implicit Arguments.
Unset Strict Implicit.
Unset Printing Implicit Defensive.
Import GRing.Theory.
Import Pdiv.Idomain.
Local Open Scope ring_scope.


Definition toI : {poly Z} -> {poly int} := map_poly int_of_Z.
Definition toZ : {poly int} -> {poly Z} := map_poly Z_of_int.

Lemma toIK : cancel toI toZ.
Proof.
move=> p; rewrite /toZ /toI -map_poly_comp map_poly_id // => x _ /=.
exact: int_of_ZK.
Qed.

Lemma dvdz_divide (a b : Z) : (int_of_Z a %| int_of_Z b)%Z -> Z.divide a b.
Proof.
move/dvdzP => [q E]; exists (Z_of_int q).
by apply: (can_inj int_of_ZK); rewrite E [RHS]rmorphM /= Z_of_intK.
Qed.

Lemma divide_dvdz (a b : Z) : Z.divide a b -> (int_of_Z a %| int_of_Z b)%Z.
Proof. by case=> q ->; rewrite [int_of_Z _]rmorphM dvdz_mull // dvdzz. Qed.

Lemma zprim_contents (P : {poly Z}) : zprim P -> (zcontents (toI P) %| 1)%Z.
Proof.
move=> hP; set u := zcontents _.
have : (u %| zcontents (toI P))%Z by apply: dvdzz.
rewrite dvdz_contents => /polyOverP hu.
have /divide_dvdz : Z.divide (Z_of_int u) 1.
  apply: hP => i; apply: dvdz_divide; rewrite Z_of_intK.
  by have := hu i; rewrite coef_map.
by rewrite Z_of_intK rmorph1.
Qed.

(** Gauss: a primitive polynomial that divides F over Q divides it in Z[x]. *)
Lemma gauss_dvd (F Q P : {poly Z}) (c : Z) : c != 0 -> zprim P -> c *: F = Q * P ->
  exists Q', F = Q' * P.
Proof.
move=> nzc hP E.
have nzc' : int_of_Z c != 0 by rewrite -(rmorph0 [rmorphism of int_of_Z]) (can_eq int_of_ZK).
have E' : int_of_Z c *: toI F = toI Q * toI P by rewrite /toI -map_polyZ E rmorphM.
have /dvdzP [v Hv] := zprim_contents hP.
have dvc : (int_of_Z c %| zcontents (toI Q))%Z.
  have := congr1 zcontents E'; rewrite zcontentsZ zcontentsM => Ec.
  have -> : zcontents (toI Q) = v * (int_of_Z c * zcontents (toI F)).
    by rewrite Ec mulrCA -Hv mulr1.
  by rewrite dvdz_mull // dvdz_mulr // dvdzz.
move: dvc; rewrite dvdz_contents => /polyOverP hc.
pose Q3 : {poly int} := map_poly (divz^~ (int_of_Z c)) (toI Q).
have EQ : toI Q = int_of_Z c *: Q3.
  by apply/polyP=> i; rewrite coefZ [Q3`_i]coef_map_id0 ?div0z // [RHS]mulrC divzK.
have EF : toI F = Q3 * toI P.
  have nzcP : (int_of_Z c)%:P != 0 :> {poly int} by rewrite polyC_eq0.
  by apply: (mulfI nzcP); rewrite !mul_polyC E' EQ scalerAl.
exists (toZ Q3); rewrite -[F]toIK EF /toZ rmorphM /=; congr (_ * _).
exact: toIK.
Qed.


Lemma toZK : cancel toZ toI.
Proof.
move=> p; rewrite /toZ /toI -map_poly_comp map_poly_id // => x _ /=.
exact: Z_of_intK.
Qed.

Lemma toI_eq0 (p : {poly Z}) : (toI p == 0) = (p == 0).
Proof. by rewrite -[0](rmorph0 [rmorphism of map_poly int_of_Z]) (can_eq toIK). Qed.

(** Bezout over Z[x] for coprime polynomials, with a non-zero integer constant on the right *)
Lemma coprimep_bezoutZ (p q : {poly Z}) : coprimep p q ->
  exists u v (c : Z), c != 0 /\ u * p + v * q = c%:P.
Proof.
rewrite /coprimep => /size_poly1P [k nzk Ek].
have [[u v] /=] := Bezoutp p q; rewrite Ek => /eqpP [[c1 c2] /= /andP [nz1 nz2] E].
exists (c1 *: u), (c1 *: v), (c2 * k); split; first by rewrite mulf_neq0.
by rewrite -!scalerAl -scalerDr E -mul_polyC -polyCM.
Qed.

(** the content/primitive-part argument, over int *)
Lemma dvd_of_scaled (D W h qf qg u0 v0 : {poly int}) (c : int) :
    c != 0 -> D != 0 -> c *: D = W * h ->
    qf * D = u0 * h -> qg * D = v0 * h ->
    (gcdz (zcontents qf) (zcontents qg) %| 1)%Z ->
  exists w, D = w * h.
Proof.
move=> nzc nzD E Ef Eg cop.
have nzh : h != 0.
  apply: contraNneq nzD => h0; have /eqP : c%:P * D = 0 by rewrite mul_polyC E h0 mulr0.
  by rewrite mulf_eq0 polyC_eq0 (negPf nzc).
have nzch : zcontents h != 0 by rewrite zcontents_eq0.
(* primitive parts *)
have EP : zprimitive D = zprimitive W * zprimitive h.
  by rewrite -zprimitiveM -E zprimitiveZ.
(* contents *)
have dv : (zcontents h %| zcontents D)%Z.
  have d1 : (zcontents h %| zcontents qf * zcontents D)%Z.
    by rewrite -zcontentsM Ef zcontentsM dvdz_mull // dvdzz.
  have d2 : (zcontents h %| zcontents qg * zcontents D)%Z.
    by rewrite -zcontentsM Eg zcontentsM dvdz_mull // dvdzz.
  have : (zcontents h %| gcdz (zcontents qf * zcontents D) (zcontents qg * zcontents D))%Z.
    by rewrite dvdz_gcd d1 d2.
  rewrite -mulz_gcdl => d3.
  have /dvdzP [t Ht] := cop.
  have -> : zcontents D = t * (gcdz (zcontents qf) (zcontents qg) * zcontents D).
    by rewrite mulrA -Ht mul1r.
  rewrite dvdz_mull //.
  move: d3; rewrite !dvdzE !abszM absz_nat; exact.
have /dvdzP [r Hr] := dv.
exists (r *: zprimitive W).
rewrite {1}[D]zpolyEprim Hr EP {3}[h]zpolyEprim -scalerAl -scalerAr scalerA.
by [].
Qed.

(** every common divisor in Z[x] of F = qf D and G = qg D divides D, when the cofactors are coprime
    polynomials with coprime contents *)
Lemma gcd_greatest_Z (F G D qf qg h : {poly Z}) :
    D != 0 -> F = qf * D -> G = qg * D -> coprimep qf qg ->
    (forall e : Z, (forall i, Z.divide e qf`_i) -> (forall i, Z.divide e qg`_i) -> Z.divide e 1) ->
    (exists u, F = u * h) -> (exists v, G = v * h) ->
  exists w, D = w * h.
Proof.
move=> nzD EF EG cop hcont [u0 Eu] [v0 Ev].
have [u [v [c [nzc Ebz]]]] := coprimep_bezoutZ cop.
have E : c *: D = (u * u0 + v * v0) * h.
  by rewrite -mul_polyC -Ebz mulrDl -!mulrA -EF -EG Eu Ev mulrDl !mulrA.
have nzc' : int_of_Z c != 0 by rewrite -(rmorph0 [rmorphism of int_of_Z]) (can_eq int_of_ZK).
have nzD' : toI D != 0 by rewrite toI_eq0.
have E' : int_of_Z c *: toI D = toI (u * u0 + v * v0) * toI h by rewrite /toI -map_polyZ E rmorphM.
have Ef' : toI qf * toI D = toI u0 * toI h by rewrite /toI -!rmorphM -EF Eu.
have Eg' : toI qg * toI D = toI v0 * toI h by rewrite /toI -!rmorphM -EG Ev.
have cop' : (gcdz (zcontents (toI qf)) (zcontents (toI qg)) %| 1)%Z.
  set e := gcdz _ _.
  have h1 : (e %| zcontents (toI qf))%Z by apply: dvdz_gcdl.
  have h2 : (e %| zcontents (toI qg))%Z by apply: dvdz_gcdr.
  move: h1 h2; rewrite !dvdz_contents => /polyOverP h1 /polyOverP h2.
  have /divide_dvdz : Z.divide (Z_of_int e) 1.
    apply: hcont => i; apply: dvdz_divide; rewrite Z_of_intK.
      by have := h1 i; rewrite coef_map.
    by have := h2 i; rewrite coef_map.
  by rewrite Z_of_intK rmorph1.
have [w Ew] := dvd_of_scaled nzc' nzD' E' Ef' Eg' cop'.
exists (toZ w); rewrite -[D]toIK Ew /toZ rmorphM /=; congr (_ * _).
exact: toIK.
Qed.
