(** Round 2 step, third wave (C06): for monic f the starting order [non_monic_initial_order f] has the lattice of
    the power basis, hence it is an order ([Order::get_mult_table] returns on it): the flag of
    [find_integral_basis_order_partial] holds for every monic f.  stdlib + lia. *)
From RNT.Model Require Import Base Poly Algebraic LinAlg MultTable Order Round2.
From RNT.Model Require Hnf Elementary.
From RNT.Refine Require Import MatZ HnfOps HnfSpec HnfMain HnfKernel HnfTotal HnfUnique.
From RNT.Refine Require Import Round2Basic Round2Index Round2Lattice Round2Det Round2Fuel.
From RNT.Refine Require Import Round2W3Ip Round2W3Up Round2W3Step Round2W3Total Round2W3Ring Round2W3Order Round2W3Radical Round2W3Driver.
From RNT.Refine Require MultTableOps AlgNormMx Round2W3Mul Round2W3Det Round2W3Lift Round2W3Monic PolyZ OrderCanon.
From Coq Require Import Lia Znumtheory QArith Qcanon.
Open Scope Z_scope.

(** ** integer row spans inside rational ones *)
Definition qzm (A : mat) : qmat := map (map qz) A.

Lemma nth_qzm A k j : nth j (nth k (qzm A) []) q0 = qz (nth j (nth k A []) 0).
Proof.
  unfold qzm. destruct (Nat.lt_ge_cases k (length A)) as [Hk|Hk].
  - rewrite nth_indep with (d' := map qz []) by (rewrite map_length; assumption).
    rewrite (map_nth (map qz)). change q0 with (qz 0). apply map_nth.
  - rewrite (nth_overflow (map (map qz) A)) by (rewrite map_length; assumption).
    rewrite (nth_overflow A) by assumption. destruct j; reflexivity.
Qed.

Lemma rowspanZ_spanQ m v A : wf m A -> In_rowspanZ m v A -> in_spanQ m (map qz v) (qzm A).
Proof.
  intros W [c [Lc ->]]. exists c. split; [unfold qzm; rewrite map_length; assumption|].
  intros j Hj. change q0 with (qz 0). rewrite map_nth.
  rewrite <- (comb_entry m (Q2Qc 1) j ltac:(discriminate) Hj c A (qzm A) W).
  - apply Qc_is_canon. unfold Qcdiv, Qcmult, Qcinv, Q2Qc. cbn [this]. rewrite !Qred_correct.
    unfold Qinv, Qmult, Qeq. cbn. lia.
  - unfold qzm. apply map_length.
  - intros k Hk. rewrite nth_qzm. apply Qc_is_canon. unfold Qcdiv, Qcmult, Qcinv, Q2Qc. cbn [this]. rewrite !Qred_correct.
    unfold Qinv, Qmult, Qeq. cbn. lia.
Qed.

Lemma identity_qzm n : identity fopsQc n = qzm (idmat n).
Proof.
  unfold identity, qzm, idmat. rewrite map_map. apply map_ext. intros i.
  unfold unit_from. rewrite map_map. apply map_ext. intros j. destruct (i =? j)%nat; reflexivity.
Qed.

(** ** the generators of the starting order, as integers *)
Definition nmZ (f : list Z) (deg i j : nat) : Z :=
  if (i =? 0)%nat && (j =? 0)%nat then 1
  else if (1 <=? j)%nat && (j <=? i)%nat then coef_at opsZ f (deg - (i - j)) else 0.

Definition nm_rowsZ (f : list Z) (deg : nat) : mat :=
  map (fun i => map (fun j => nmZ f deg i j) (seq 0 deg)) (seq 0 deg).

Lemma nm_rows_qzm f deg :
  map (fun i => map (fun j => nm_entry f deg i j) (seq 0 deg)) (seq 0 deg) = qzm (nm_rowsZ f deg).
Proof.
  unfold qzm, nm_rowsZ. rewrite map_map. apply map_ext. intros i. rewrite map_map. apply map_ext. intros j.
  unfold nm_entry, nmZ. destruct ((i =? 0)%nat && (j =? 0)%nat); [reflexivity|].
  destruct ((1 <=? j)%nat && (j <=? i)%nat); reflexivity.
Qed.

Lemma nm_rowsZ_shape f deg : shape deg deg (nm_rowsZ f deg).
Proof.
  unfold nm_rowsZ. split; [rewrite map_length, seq_length; reflexivity|].
  apply Forall_forall. intros r Hr. apply in_map_iff in Hr. destruct Hr as [i [<- _]].
  rewrite map_length, seq_length. reflexivity.
Qed.

Lemma nm_rowsZ_ent f deg i j : (i < deg)%nat -> (j < deg)%nat ->
  nth j (nth i (nm_rowsZ f deg) []) 0 = nmZ f deg i j.
Proof.
  intros Hi Hj. unfold nm_rowsZ.
  set (g := fun i => map (fun j => nmZ f deg i j) (seq 0 deg)).
  rewrite nth_indep with (d' := g O) by (rewrite map_length, seq_length; assumption).
  rewrite (map_nth g), seq_nth by assumption. cbn [plus]. unfold g.
  set (g2 := fun j => nmZ f deg i j).
  rewrite nth_indep with (d' := g2 O) by (rewrite map_length, seq_length; assumption).
  rewrite (map_nth g2), seq_nth by assumption. reflexivity.
Qed.

Lemma In_firstn {A} (x : A) : forall k l, In x (firstn k l) -> In x l.
Proof.
  induction k as [|k IH]; intros l H; [destruct H|]. destruct l as [|y l]; [destruct H|].
  destruct H as [->|H]; [left; reflexivity|right; apply IH; assumption].
Qed.

Lemma In_skipn {A} (x : A) : forall k l, In x (skipn k l) -> In x l.
Proof.
  induction k as [|k IH]; intros l H; [exact H|]. destruct l as [|y l]; [destruct H|].
  right. apply IH. exact H.
Qed.

(** a vector with entry 1 at [k] and zeros beyond [k] gives the unit vector [k], modulo the earlier ones *)
Lemma unit_from_triangular n (S : mat) k v : wf n S -> (k < n)%nat -> length v = n ->
  (forall j, (j < k)%nat -> In_rowspanZ n (unit_from 0 n j) S) ->
  In_rowspanZ n v S -> nth k v 0 = 1 -> (forall j, (k < j)%nat -> nth j v 0 = 0) ->
  In_rowspanZ n (unit_from 0 n k) S.
Proof.
  intros WS Hk Lv IH Hv V1 V0.
  set (w := firstn k v ++ repeat 0 (n - k)).
  assert (Lw : length w = n) by (unfold w; rewrite app_length, firstn_length, repeat_length; lia).
  assert (Hw : In_rowspanZ n w S).
  { rewrite <- (lincomb_idmat_r n w Lw).
    destruct (idmat_shape n) as [LI WI].
    rewrite <- (firstn_skipn k (idmat n)). unfold w.
    rewrite lincomb_app.
    - apply rowspan_add; [assumption| |].
      + apply rowspan_lincomb; [assumption| |].
        * apply Forall_forall. intros r Hr. apply (wf_In n (idmat n)); [assumption|].
          apply (In_firstn r k). assumption.
        * intros r Hr. destruct (In_nth _ _ [] Hr) as [j [Hj <-]].
          rewrite firstn_length in Hj. rewrite nth_firstn_lt by lia.
          change (nth j (idmat n) []) with (row (idmat n) j). rewrite row_idmat by lia. apply IH. lia.
      + replace (lincomb n (repeat 0 (n - k)) (skipn k (idmat n))) with (vzero n).
        * apply rowspan_zero. assumption.
        * symmetry. apply (lincomb_vzero n (n - k)). apply Forall_forall. intros r Hr.
          apply (wf_In n (idmat n)); [assumption|]. apply (In_skipn r k). assumption.
    - apply Forall_forall. intros r Hr. apply (wf_In n (idmat n)); [assumption|]. apply (In_firstn r k). assumption.
    - apply Forall_forall. intros r Hr. apply (wf_In n (idmat n)); [assumption|]. apply (In_skipn r k). assumption.
    - rewrite !firstn_length. lia. }
  assert (E : unit_from 0 n k = vadd v (vscale (-1) w)).
  { apply vec_ext with n; [apply unit_from_length|rewrite vadd_length; rewrite ?vscale_length; lia|].
    intros j Hj. rewrite nth_vadd by (rewrite vscale_length; lia). rewrite nth_vscale.
    rewrite HnfKernel.nth_unit_from by assumption. cbn [plus]. unfold w.
    destruct (Nat.lt_ge_cases j k) as [Hjk|Hjk].
    - rewrite app_nth1 by (rewrite firstn_length; lia). rewrite nth_firstn_lt by assumption.
      destruct (Nat.eqb_spec k j); lia.
    - rewrite app_nth2 by (rewrite firstn_length; lia). rewrite nth_repeat.
      destruct (Nat.eqb_spec k j) as [->|Ne]; [lia|]. rewrite V0 by lia. lia. }
  rewrite E. apply rowspan_add; [assumption|assumption|]. apply rowspan_scale; assumption.
Qed.

(** for monic f every unit vector is an integer combination of the generators of the starting order *)
Lemma nm_units f deg : coef_at opsZ f deg = 1 ->
  forall k, (k < deg)%nat -> In_rowspanZ deg (unit_from 0 deg k) (nm_rowsZ f deg).
Proof.
  intros Mon. destruct (nm_rowsZ_shape f deg) as [LB WB].
  intros k. induction k as [k IH] using (well_founded_induction Wf_nat.lt_wf). intros Hk.
  apply (unit_from_triangular deg (nm_rowsZ f deg) k (row (nm_rowsZ f deg) k)); try assumption.
  - apply wf_row; [assumption|lia].
  - intros j Hj. apply IH; lia.
  - apply row_in_span; [assumption|lia].
  - unfold row. rewrite nm_rowsZ_ent by assumption. unfold nmZ.
    destruct k as [|k]; [reflexivity|]. cbn [Nat.eqb andb].
    replace ((1 <=? S k)%nat && (S k <=? S k)%nat) with true
      by (symmetry; apply andb_true_iff; split; apply Nat.leb_le; lia).
    rewrite Nat.sub_diag, Nat.sub_0_r. assumption.
  - intros j Hj. unfold row. destruct (Nat.lt_ge_cases j deg) as [Hjd|Hjd].
    + rewrite nm_rowsZ_ent by assumption. unfold nmZ.
      destruct j as [|j]; [lia|]. rewrite andb_false_r.
      replace ((1 <=? S j)%nat && (S j <=? k)%nat) with false; [reflexivity|].
      symmetry. apply andb_false_iff. right. apply Nat.leb_gt. lia.
    + apply nth_overflow. pose proof (wf_row deg (nm_rowsZ f deg) k WB ltac:(lia)) as Lr. unfold row in Lr. lia.
Qed.

(** [P] the starting order of a monic f is closed under multiplication *)
Theorem monic_start_table f deg o0 :
  PolyZ.canonZ f = true -> length f = S deg -> (1 <= deg)%nat -> nth deg f 0 = 1 ->
  non_monic_initial_order f = Done o0 -> exists T0, get_mult_table o0 f = Done T0.
Proof.
  intros Cf Lf D1 Mon N0.
  assert (Mon2 : seq.nth 0 f deg = 1) by (rewrite <- MultTableOps.Lnth_eq''; exact Mon).
  destruct (Round2W3Monic.monic_identity_table (f := f) (n := deg) Cf Lf Mon2) as [T GT].
  pose proof (non_monic_lower f deg o0 Lf D1 N0) as LO0.
  destruct (non_monic_shape f deg o0 Lf D1 N0) as [L0 W0].
  destruct (lower_from_shape deg _ (identity_lower deg)) as [LI WI].
  destruct (idmat_shape deg) as [LId WId].
  destruct (nm_rowsZ_shape f deg) as [LB WB].
  (* the generators *)
  pose proof N0 as N0'. unfold non_monic_initial_order in N0'.
  rewrite (deg_alloc_len f deg Lf) in N0'. cbn [bind] in N0'.
  destruct (deg =? 0)%nat eqn:E0; [apply Nat.eqb_eq in E0; lia|].
  rewrite nm_rows_qzm in N0'.
  set (B := qzm (nm_rowsZ f deg)) in *.
  assert (LBq : length B = deg) by (unfold B, qzm; rewrite map_length; assumption).
  assert (WBq : Forall (fun r => length r = deg) B).
  { apply Forall_forall. intros r Hr. unfold B, qzm in Hr. apply in_map_iff in Hr. destruct Hr as [r' [<- Hr']].
    rewrite map_length. apply (wf_In deg (nm_rowsZ f deg)); assumption. }
  destruct (hnf_reduce_contains deg B o0 D1 LBq WBq N0') as [_ [_ BinO]].
  pose proof (hnf_reduce_span deg B o0 D1 (conj LBq WBq) N0') as OinB.
  assert (Mon' : coef_at opsZ f deg = 1) by exact Mon.
  assert (HC : forall a b, In_rowspanZ deg a (idmat deg) -> In_rowspanZ deg b (idmat deg) ->
                 In_rowspanZ deg (tmul T deg a b) (pI 1 (idmat deg))).
  { (* closure: everything is in Z^deg *)
    intros a b _ _. apply pI_iff; [assumption|].
    exists (tmul T deg a b). split.
    + exists (tmul T deg a b). split; [rewrite Round2W3Mul.tmul_length; lia|].
      symmetry. apply lincomb_idmat_r. apply Round2W3Mul.tmul_length.
    + apply vec_ext with deg; [apply Round2W3Mul.tmul_length|rewrite vscale_length; apply Round2W3Mul.tmul_length|].
      intros k Hk. rewrite nth_vscale. lia. }
  assert (HE : forall t j, (t < deg)%nat -> (j < deg)%nat ->
                 nth j (nth t (identity fopsQc deg) []) q0
                 = Qcdiv (combQ (nth t (idmat deg) []) (identity fopsQc deg) j) (qz 1)).
  { intros t j Ht Hj. change (nth t (idmat deg) []) with (row (idmat deg) t). rewrite row_idmat by assumption.
    unfold unit_from.
    replace (map (fun j0 => if (t =? j0)%nat then 1 else 0) (seq 0 deg))
      with (map (fun t0 => if (t0 =? t)%nat then 1 else 0) (seq 0 deg))
      by (apply map_ext; intros a; rewrite Nat.eqb_sym; reflexivity).
    pose proof (combQ_unit 1 t j (identity fopsQc deg) deg O ltac:(lia)) as U. cbn [skipn] in U.
    rewrite U. change (qz 1) with (Q2Qc 1). field. discriminate. }
  assert (H1 : forall i, (i < deg)%nat -> in_spanQ deg (nth i o0 []) (identity fopsQc deg)).
  { intros i Hi. apply in_spanQ_trans with B; try assumption.
    + apply OinB. assumption.
    + intros k Hk. rewrite identity_qzm.
      replace (nth k B []) with (map qz (row (nm_rowsZ f deg) k)).
      * apply rowspanZ_spanQ; [assumption|]. exists (row (nm_rowsZ f deg) k). split.
        -- rewrite (wf_row deg _ k WB) by lia. lia.
        -- symmetry. apply lincomb_idmat_r. apply wf_row; [assumption|lia].
      * unfold B, qzm, row. rewrite nth_indep with (d' := map qz []) by (rewrite map_length; lia).
        symmetry. apply (map_nth (map qz)). }
  assert (H2 : forall t, (t < deg)%nat -> in_spanQ deg (nth t (identity fopsQc deg) []) o0).
  { intros t Ht. apply in_spanQ_trans with B; try assumption.
    + rewrite identity_qzm.
      replace (nth t (qzm (idmat deg)) []) with (map qz (unit_from 0 deg t)).
      * apply rowspanZ_spanQ; [assumption|]. apply nm_units; assumption.
      * unfold qzm. rewrite nth_indep with (d' := map qz []) by (rewrite map_length; lia).
        rewrite (map_nth (map qz)). change (nth t (idmat deg) []) with (row (idmat deg) t).
        rewrite row_idmat by assumption. reflexivity. }
  assert (HS : forall v : list Qc, length v = deg -> exists x, solve_linear_system fopsQc o0 v = Done (Ok x)).
  { intros v Lv. apply (Round2W3Det.lower_solvable LO0). assumption. }
  assert (P1 : (1 : Z) <> 0) by discriminate.
  exact (Round2W3Lift.lift_table_list (f := f) (n := deg) (o := identity fopsQc deg) (T := T) (p := 1)
           (h := idmat deg) (nb := identity fopsQc deg) (o' := o0)
           Cf Lf LI WI GT P1 (conj LId WId) HC LI WI HE L0 W0 H1 H2 HS).
Qed.

(** [P] find_integral_basis_order_monic: the driver on a monic f of degree >= 1, without any flag *)
Theorem find_integral_basis_order_monic m f deg :
  PolyZ.canonZ f = true -> length f = S deg -> (1 <= deg)%nat -> nth deg f 0 = 1 ->
  match find_integral_basis m f with
  | Done om => is_order f deg om
  | Panic t =>
      non_monic_initial_order f = Panic t \/
      (exists o0, non_monic_initial_order f = Done o0 /\
         (order_disc m o0 f = Panic t \/
          exists disc, order_disc m o0 f = Done disc /\
            (Elementary.trial_factorize (Z.abs disc) = Panic t \/ t = POverflow)))
  | OutOfFuel => True
  end.
Proof.
  intros Cf Lf D1 Mon. apply find_integral_basis_order; try assumption.
  intros o0 N0. apply (monic_start_table f deg o0); assumption.
Qed.
