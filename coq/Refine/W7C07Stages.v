(** * W7C07Stages: C07, the stages of [get_factors_of_squarefree] after the prime search do not panic.

    [find_prime_accept]: a returned prime passed the square-free test of the loop body;
    [accepted_sqfree]: hence the reduction of q modulo p is square-free ([sqfreep]);
    [ones_of_sqfree]: hence every multiplicity returned by [factorize_mod_p] is 1: the
       [assert!(factors.iter().all(|(_, e)| e == 1))]-style check of mod.rs cannot fire;
    [copm_of_coprimep], [pairwise_cop_of]: distinct monic irreducibles modulo p are pairwise coprime with
       Bezout witnesses in Z[x]: the hypothesis of [lift_factorization_total] (C11). *)
From Coq Require Import ZArith List Lia Znumtheory.
From RNT.Model Require Import Base Poly PolyModP FactorModP Hensel PolyZFactor.
From RNT.Model Require Elementary.
From mathcomp Require Import all_ssreflect ssralg poly polydiv ssrint zmodp.
From RNT.Refine Require Import PolyRefine PolyDiv PolyZ PolyModPArith PolyZmod MonicZ FermatZ PolyModPGcd FpPoly FactorNorm FmpField FmpSqf FmpIrred FmpSplit FmpFull FmpProduct FmpLists.
From RNT.Refine Require Import ElemProofs HenselTotal PolyZFactorPos PolyZFactorW3Hensel PolyZFactorW3Zass PolyZFactorW3Irred.
From mathcomp Require Import ssrZ zify ring.
Set Implicit Arguments.
Unset Strict Implicit.
Unset Printing Implicit Defensive.
Import GRing.Theory.
Local Open Scope ring_scope.

(** ** the prime returned by the search passed the tests of the loop body *)
Lemma find_prime_accept fuel a st p pu : find_prime fuel a st = Done (p, pu) ->
  exists am amp g, [/\ poly_mod a p = Done am, differential am p = Done amp,
                       poly_gcd am amp p = Done g & (pdeg g =? 0)%ZZ = true].
Proof.
elim: fuel st => [|fuel IH] st //=.
case en: Elementary.primes_next => [[now st']|t|] //=.
case em: is_multiple_of; first exact: IH.
case e1: poly_mod => [am|t|] //=; case e2: differential => [amp|t|] //=; case e3: poly_gcd => [g|t|] //=.
case: ifP => eg; last exact: IH.
by case=> <- _; exists am, amp, g.
Qed.

Section Prime.
Variable p : Z.
Hypothesis Hp : Znumtheory.prime p.
Let Hp2 := prime_ge_2 _ Hp.
Let Hpp : (0 < p)%ZZ. Proof. lia. Qed.
Let Hp0 : p <> Z0. Proof. lia. Qed.
Notation n := (pnat p).
Notation RP l := (redp n (PZ l)).

Lemma sqfreep_of_coprime (f : {poly 'F_n}) : coprimep f f^`() -> sqfreep f.
Proof.
move=> cop g dv.
have d1 : g %| f by apply: dvdp_trans dv; rewrite expr2; exact: dvdp_mulr.
have d2 : g %| f^`() by have := dvdp_exp_deriv dv; rewrite expr1.
have : g %| gcdp f f^`() by rewrite dvdp_gcd d1 d2.
move: cop; rewrite /coprimep size_poly_eq1 => /eqp_dvdr ->.
by rewrite dvdp1 => /eqP.
Qed.

Lemma accepted_sqfree (q am amp g : list Z) :
  poly_mod q p = Done am -> differential am p = Done amp -> poly_gcd am amp p = Done g ->
  (pdeg g =? 0)%ZZ = true -> sqfreep (RP q).
Proof.
move=> e1 e2 e3 eg; apply: sqfreep_of_coprime.
have Ram := poly_mod_is_reduced Hpp e1.
have Ramp : reduced p amp.
  move: e2; rewrite /differential; case: (am) => [|c f]; first by case=> <-; exact: reduced_nil.
  exact: poly_mod_is_reduced.
have eam : RP am = RP q by apply/(eqpm_RP Hp); exact: PZ_poly_mod e1.
have eamp : RP amp = (RP q)^`() by rewrite (differential_RP Hp e2) eam.
have hg := gcd_RP Hp Ram Ramp e3; rewrite eam eamp in hg.
have [Rg _] := poly_gcd_dvd Hp Ram Ramp e3.
have gn : g <> [::] by move=> g0; move: eg; rewrite g0.
by rewrite /coprimep -(eqp_size hg) -(pdeg_size Hp Rg gn) eg.
Qed.

(** every [g^e] of the list divides the product *)
Lemma FProd_dvd (out : list (list Z * Z)) ge : List.In ge out -> RP ge.1 ^+ Z.to_nat ge.2 %| FProd p out.
Proof.
elim: out => [|x out IH] //= [->|hin]; first exact: dvdp_mulr.
by apply: dvdp_mull; exact: IH.
Qed.

Lemma ones_of_sqfree (q : list Z) (c : 'F_n) (out : list (list Z * Z)) :
  sqfreep (RP q) -> RP q = c%:P * FProd p out ->
  List.Forall (fun ge => lirred p ge.1) out -> List.Forall (fun ge => (1 <= snd ge)%ZZ) out ->
  forallb (fun fe => (snd fe =? 1)%ZZ) out = true.
Proof.
move=> sq eq hirr hpos; apply/forallb_forall => ge hin.
move/List.Forall_forall: hirr => /(_ _ hin) [sg _].
move/List.Forall_forall: hpos => /(_ _ hin) e1.
apply/Z.eqb_eq; case: (Z.eq_dec (snd ge) 1) => // ne.
have e2 : (2 <= Z.to_nat (snd ge))%N by lia.
have dv : RP ge.1 ^+ 2 %| RP q.
  apply: dvdp_trans (dvdp_exp2l _ e2) _; rewrite eq; apply: dvdp_mull; exact: FProd_dvd.
by have := sq _ dv => e; rewrite e in sg.
Qed.

(** Bezout witnesses lift from F_p[x] to Z[x] *)
Lemma copm_of_coprimep (A B : {poly Z}) : coprimep (redp n A) (redp n B) -> copm p A B.
Proof.
move/Bezout_eq1_coprimepP => [[u v] /= e].
exists (liftp u), (liftp v); apply/(eqpm_RP Hp).
have np := n_prime Hp.
by rewrite redpD !redpM !(liftpK np) redp1 -e mulrC [redp n B * _]mulrC.
Qed.

Lemma pairwise_cop_of (fs : list (list Z)) : List.NoDup fs -> List.Forall (mgood p) fs -> pairwise_cop p fs.
Proof.
move=> nd gfs i j ij jl; apply: copm_of_coprimep.
have il : (i < length fs)%coq_nat by lia.
have gi : mgood p (List.nth i fs [::]).
  by move/List.Forall_forall: gfs; apply; exact: List.nth_In.
have gj : mgood p (List.nth j fs [::]).
  by move/List.Forall_forall: gfs; apply; exact: List.nth_In.
apply: (mgood_coprime Hp gi gj) => e.
have := (proj1 (List.NoDup_nth fs [::]) nd) i j il jl e; lia.
Qed.

End Prime.
