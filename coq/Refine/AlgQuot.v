(** * AlgQuot: arithmetic of [Algebraic] is arithmetic in Q[x]/(f) (C14): ring laws,
    binary exponentiation, [a^(s+t) = a^s * a^t].  Style: ssreflect/MathComp. *)
From RNT.Model Require Import Base Poly Algebraic.
From Coq Require Import QArith Qcanon.
From mathcomp Require Import all_ssreflect ssralg poly polydiv.
From mathcomp Require Import ssrZ zify ring.
From RNT.Refine Require Import QcRing PolyRefine PolyDiv PolyZ PolyQ AlgMul.
Set Implicit Arguments.
Unset Strict Implicit.
Unset Printing Implicit Defensive.
Import GRing.Theory.
Local Open Scope ring_scope.

Lemma modp_mul2 (K : fieldType) (p q d : {poly K}) : ((p %% d) * q) %% d = (p * q) %% d.
Proof. by rewrite mulrC modp_mul mulrC. Qed.

Lemma modp_exp (K : fieldType) (p d : {poly K}) k : ((p %% d) ^+ k) %% d = (p ^+ k) %% d.
Proof.
elim: k => [|k IH]; first by rewrite !expr0.
by rewrite !exprS modp_mul2 -modp_mul IH modp_mul.
Qed.

Section Quot.
Variables (f : seq Z) (n : nat).
Hypothesis f_canon : canonZ f.
Hypothesis szf : size f = n.+1.
Let F := Fq f.

(** representatives: canonical coefficient lists of degree < n *)
Definition elem (a : seq Qc) : bool := canonQ a && (size a <= n)%N.

Lemma elem_nil : elem [::].
Proof. by rewrite /elem /canonQ canon_nil. Qed.

Lemma elem_small a : elem a -> Poly a %% F = Poly a.
Proof.
case/andP=> _ sa; apply: modp_small.
by rewrite /F (size_Fq f_canon szf) ltnS (leq_trans (size_Poly _)).
Qed.

Lemma elem_inj a b : elem a -> elem b -> Poly a = Poly b -> a = b.
Proof. by case/andP=> ca _ /andP[cb _]; apply: Poly_inj_canon. Qed.

(** two representatives congruent modulo f are equal *)
Lemma elem_modp_inj a b : elem a -> elem b -> Poly a %% F = Poly b %% F -> a = b.
Proof. by move=> ea eb; rewrite !elem_small //; apply: elem_inj. Qed.

Lemma elem_polyseq (p : {poly Qc}) : (size p <= n)%N -> elem p.
Proof. by move=> sp; rewrite /elem /canonQ canon_poly. Qed.

(** ** multiplication *)
Theorem alg_mul_ok a b : elem a -> elem b ->
  exists2 r, alg_mul f a b = Done r & elem r /\ Poly r = (Poly a * Poly b) %% F.
Proof.
case/andP=> ca sa /andP[cb sb].
have [r [e cr sr er]] := mul_with_mod_main f_canon szf ca cb sa sb.
by exists r => //; rewrite /elem cr sr.
Qed.

(** ** addition, subtraction *)
Lemma alg_add_ok a b : elem a -> elem b ->
  elem (alg_add a b) /\ Poly (alg_add a b) = Poly a + Poly b.
Proof.
case/andP=> ca sa /andP[cb sb]; rewrite /alg_add opsQc_eq; split; last exact: Poly_padd.
rewrite /elem /canonQ canon_padd //= padd_polyseq // (leq_trans (size_add _ _)) //.
by rewrite geq_max !(leq_trans (size_Poly _)).
Qed.

Lemma alg_sub_ok a b : elem a -> elem b ->
  elem (alg_sub a b) /\ Poly (alg_sub a b) = Poly a - Poly b.
Proof.
case/andP=> ca sa /andP[cb sb]; rewrite /alg_sub opsQc_eq; split; last exact: Poly_psub.
rewrite /elem /canonQ canon_psub //= psub_polyseq // (leq_trans (size_add _ _)) //.
by rewrite size_opp geq_max !(leq_trans (size_Poly _)).
Qed.

(** ** ring laws, as equalities of the stored representatives *)
Theorem alg_mul_comm a b : elem a -> elem b ->
  exists2 r, alg_mul f a b = Done r & alg_mul f b a = Done r.
Proof.
move=> ea eb.
have [r -> [er pr]] := alg_mul_ok ea eb; have [r' -> [er' pr']] := alg_mul_ok eb ea.
by exists r => //; congr Done; apply: elem_inj => //; rewrite pr pr' mulrC.
Qed.

Theorem alg_mul_assoc a b c : elem a -> elem b -> elem c ->
  exists ab bc r, [/\ alg_mul f a b = Done ab, alg_mul f ab c = Done r,
                      alg_mul f b c = Done bc & alg_mul f a bc = Done r].
Proof.
move=> ea eb ec.
have [ab e1 [eab pab]] := alg_mul_ok ea eb; have [bc e2 [ebc pbc]] := alg_mul_ok eb ec.
have [r e3 [er pr]] := alg_mul_ok eab ec; have [r' e4 [er' pr']] := alg_mul_ok ea ebc.
exists ab, bc, r; split=> //; rewrite e4; congr Done; apply: elem_inj => //.
by rewrite pr pr' pab pbc modp_mul2 modp_mul mulrA.
Qed.

Theorem alg_mul_distr a b c : elem a -> elem b -> elem c ->
  exists ab ac r, [/\ alg_mul f a b = Done ab, alg_mul f a c = Done ac,
                      alg_mul f a (alg_add b c) = Done r & alg_add ab ac = r].
Proof.
move=> ea eb ec.
have [ab e1 [eab pab]] := alg_mul_ok ea eb; have [ac e2 [eac pac]] := alg_mul_ok ea ec.
have [ebc pbc] := alg_add_ok eb ec.
have [r e3 [er pr]] := alg_mul_ok ea ebc.
have [es ps] := alg_add_ok eab eac.
exists ab, ac, r; split=> //; apply: elem_inj => //.
by rewrite ps pr pab pac pbc mulrDr modpD.
Qed.

Lemma elem_one : (0 < n)%N -> elem (alg_from_int 1).
Proof. by move=> n0; rewrite /elem /canonQ. Qed.

Lemma Poly_one : Poly (alg_from_int 1) = 1 :> {poly Qc}.
Proof. by rewrite /= cons_poly_def mul0r add0r. Qed.

Theorem alg_mul_1l a : (0 < n)%N -> elem a -> alg_mul f (alg_from_int 1) a = Done a.
Proof.
move=> n0 ea; have [r -> [er pr]] := alg_mul_ok (elem_one n0) ea.
by congr Done; apply: elem_inj => //; rewrite pr Poly_one mul1r elem_small.
Qed.

(** ** binary exponentiation *)
Lemma alg_pow_loop_S fu e cur prod :
  alg_pow_loop fu.+1 f e cur prod =
  if (e <=? 0)%Z then Done prod
  else bind (if (Z.rem e 2 =? 1)%Z then alg_mul f prod cur else Done prod) (fun prod' =>
       bind (alg_mul f cur cur) (fun cur' => alg_pow_loop fu f (Z.quot e 2) cur' prod')).
Proof. by []. Qed.

Lemma alg_pow_loop_spec fuel : forall e cur prod, elem cur -> elem prod ->
  (0 <= e < 2 ^ Z.of_nat fuel)%Z ->
  exists2 r, alg_pow_loop fuel.+1 f e cur prod = Done r &
    elem r /\ Poly r = (Poly prod * Poly cur ^+ Z.to_nat e) %% F.
Proof.
elim: fuel => [|fuel IH] e cur prod ec ep he.
  have -> : e = 0%Z by lia.
  by exists prod => //; rewrite expr0 mulr1 elem_small.
rewrite alg_pow_loop_S.
case: Z.leb_spec => h0.
  have -> : e = 0%Z by lia.
  by exists prod => //; rewrite expr0 mulr1 elem_small.
have [c2 -> [ec2 pc2]] := alg_mul_ok ec ec.
have hq : (0 <= Z.quot e 2 < 2 ^ Z.of_nat fuel)%Z.
  rewrite Z.quot_div_nonneg; try lia.
  rewrite Nat2Z.inj_succ Z.pow_succ_r in he; lia.
have eq2 : e = (2 * Z.quot e 2 + Z.rem e 2)%Z by apply: Z.quot_rem'.
case: Z.eqb_spec => hr.
  have [p2 -> [ep2 pp2]] := alg_mul_ok ep ec.
  rewrite /bind.
  have [r -> [er pr]] := IH _ _ _ ec2 ep2 hq.
  exists r => //; split=> //; rewrite pr pp2 pc2.
  have -> : Z.to_nat e = (Z.to_nat (Z.quot e 2)).*2.+1 by lia.
  rewrite modp_mul2 -modp_mul modp_exp modp_mul.
  by rewrite exprS -mul2n exprM expr2 mulrA.
rewrite /bind.
have [r -> [er pr]] := IH _ _ _ ec2 ep hq.
exists r => //; split=> //; rewrite pr pc2.
have hr0 : Z.rem e 2 = 0%Z.
  have := Z.rem_bound_pos e 2; lia.
have -> : Z.to_nat e = (Z.to_nat (Z.quot e 2)).*2 by lia.
by rewrite -modp_mul modp_exp modp_mul -mul2n exprM expr2.
Qed.

Lemma zbits_bound e : (0 <= e)%Z -> (e < 2 ^ Z.of_nat (Z.to_nat (zbits e)))%Z.
Proof.
move=> he; rewrite /zbits; case: Z.leb_spec => h; first by have -> : e = 0%Z by lia.
have [_ h2] := Z.log2_spec e h.
have := Z.log2_nonneg e => h3.
by rewrite Z2Nat.id ?Z.add_1_r //; lia.
Qed.

(** [P] [alg_pow] returns (the supplied fuel suffices) the representative of [a^e] *)
Theorem alg_pow_ok a e : (0 < n)%N -> elem a -> (0 <= e)%Z ->
  exists2 r, alg_pow f a e = Done r & elem r /\ Poly r = (Poly a ^+ Z.to_nat e) %% F.
Proof.
move=> n0 ea he; rewrite /alg_pow.
have -> : (Z.to_nat (zbits e) + 1)%coq_nat = (Z.to_nat (zbits e)).+1 by lia.
have [r -> [er pr]] := alg_pow_loop_spec ea (elem_one n0) (conj he (zbits_bound he)).
by exists r => //; split=> //; rewrite pr Poly_one mul1r.
Qed.

(** [P] [a^(s+t) = a^s * a^t] *)
Theorem alg_pow_add a s t : (0 < n)%N -> elem a -> (0 <= s)%Z -> (0 <= t)%Z ->
  exists ps pt r, [/\ alg_pow f a s = Done ps, alg_pow f a t = Done pt,
                      alg_pow f a (s + t) = Done r & alg_mul f ps pt = Done r].
Proof.
move=> n0 ea hs ht.
have [ps e1 [eps pps]] := alg_pow_ok n0 ea hs; have [pt e2 [ept ppt]] := alg_pow_ok n0 ea ht.
have hst : (0 <= s + t)%Z by lia.
have [r e3 [er pr]] := alg_pow_ok n0 ea hst.
have [r' e4 [er' pr']] := alg_mul_ok eps ept.
exists ps, pt, r; split=> //; rewrite e4; congr Done; apply: elem_inj => //.
rewrite pr pr' pps ppt modp_mul2 modp_mul -exprD.
by congr (_ ^+ _ %% _); lia.
Qed.

End Quot.

(** ** the congruence written with the model's own list operations *)
Theorem alg_mul_congruence (f : seq Z) (n : nat) (a b : seq Qc) :
  canonZ f -> size f = n.+1 -> elem n a -> elem n b ->
  exists r q, [/\ alg_mul f a b = Done r, elem n r &
    pmul opsQc a b = padd opsQc (pmul opsQc q (List.map qz f)) r].
Proof.
move=> cf szf ea eb.
have [r e1 [er pr]] := alg_mul_ok cf szf ea eb.
exists r, (polyseq ((Poly a * Poly b) %/ Fq f)); split=> //.
case/andP: er => cr _.
rewrite opsQc_eq pmul_polyseq padd_polyseq ?canon_pmul // (@Poly_pmul _ Qc_ofZ) polyseqK.
by rewrite pr -/(Fq f) -divp_eq.
Qed.
