(** * IdealW6Nak (C16, sixth wave): Nakayama's lemma by the determinant trick.
      (1) In any commutative ring R: if J is an ideal (a predicate closed under +, 0 and multiplication by R) and the
          column m of r elements satisfies p m = m for a matrix p with entries in J, then d = det(1 - p) is congruent
          to 1 modulo J and d m_k = 0 for all k (adjugate; the Leibniz formula respects the congruence).
      (2) In the ring of coordinate vectors of a commutative associative table with unit (Round2W4Ring): if G
          generates an O-module inside a O, B is a lattice containing l e_0 (l <> 0), and a B is inside G * B,
          then a e_0 is in G.
      Style: ssreflect/MathComp. *)
From Coq Require Import ZArith List.
From mathcomp Require Import all_ssreflect ssralg zmodp matrix mxalgebra perm.
From mathcomp Require Import ssrZ zify.
From RNT.Model Require Import Base LinAlg MultTable Ideal.
From RNT.Refine Require Import MatZ IdealMul IdealSpec IdealLaws MultTableOps AlgNormMx AlgNormFlags DetBridge.
From RNT.Refine Require Import IdealW6Trace IdealW6Dual IdealW6Prod IdealW6Full.
From RNT.Refine Require Round2W4Ring DecompW3Proper.
Set Implicit Arguments.
Unset Strict Implicit.
Unset Printing Implicit Defensive.
Import GRing.Theory.
Local Open Scope ring_scope.

(** ** (1) *)
Section Nakayama.
Variable R : comRingType.
Variable J : R -> Prop.
Hypothesis J0 : J 0.
Hypothesis JD : forall x y, J x -> J y -> J (x + y).
Hypothesis JM : forall x y, J y -> J (x * y).

Lemma JN x : J x -> J (- x).
Proof. by move=> hx; rewrite -mulN1r; apply: JM. Qed.

Lemma JB x y : J x -> J y -> J (x - y).
Proof. by move=> hx hy; apply: JD => //; apply: JN. Qed.

Lemma congr_mul x1 x2 y1 y2 : J (x1 - y1) -> J (x2 - y2) -> J (x1 * x2 - y1 * y2).
Proof.
move=> h1 h2.
have -> : x1 * x2 - y1 * y2 = x1 * (x2 - y2) + y2 * (x1 - y1).
  by rewrite !mulrBr [y2 * x1]mulrC [y2 * y1]mulrC addrA subrK.
by apply: JD; apply: JM.
Qed.

Lemma congr_add x1 x2 y1 y2 : J (x1 - y1) -> J (x2 - y2) -> J (x1 + x2 - (y1 + y2)).
Proof.
move=> h1 h2.
have -> : x1 + x2 - (y1 + y2) = (x1 - y1) + (x2 - y2) by rewrite opprD addrACA.
exact: JD.
Qed.

Lemma congr_det r (A B : 'M[R]_r) : (forall i j, J (A i j - B i j)) -> J (\det A - \det B).
Proof.
move=> h; rewrite /determinant.
apply: (big_ind2 (fun x y => J (x - y))) => [||s _]; first by rewrite subrr.
  by move=> x1 x2 y1 y2; apply: congr_add.
rewrite -mulrBr; apply: JM.
apply: (big_ind2 (fun x y => J (x - y))) => [||i _]; first by rewrite subrr.
  by move=> x1 x2 y1 y2; apply: congr_mul.
exact: h.
Qed.

Variables (r : nat) (m : 'cV[R]_r) (p : 'M[R]_r).
Hypothesis hp : forall i j, J (p i j).
Hypothesis epm : p *m m = m.

Theorem nakayama : exists d : R, J (d - 1) /\ forall k, d * m k 0 = 0.
Proof.
exists (\det (1%:M - p)); split.
  have h : forall i j, J ((1%:M - p) i j - (1%:M : 'M[R]_r) i j).
    by move=> i j; rewrite !mxE addrAC subrr sub0r; apply: JN.
  by have := congr_det h; rewrite det1.
move=> k.
have e0 : (1%:M - p) *m m = 0 by rewrite mulmxBl mul1mx epm subrr.
have : \adj (1%:M - p) *m ((1%:M - p) *m m) = 0 by rewrite e0 mulmx0.
rewrite mulmxA mul_adj_mx mul_scalar_mx => /matrixP /(_ k 0).
by rewrite !mxE.
Qed.
End Nakayama.

(** finite choice over ordinals *)
Lemma fin_choice_ord (X : Type) : forall (r : nat) (P : 'I_r -> X -> Prop),
  (forall i, exists x, P i x) -> exists f : 'I_r -> X, forall i, P i (f i).
Proof.
elim=> [|r IH] P h; first by exists (fun i : 'I_0 => match i with Ordinal _ lt => False_rect X (Bool.diff_false_true lt) end) => -[].
have [x0 h0] := h ord0.
have [f hf] := IH (fun i x => P (lift ord0 i) x) (fun i => h (lift ord0 i)).
exists (fun i => if unlift ord0 i is Some j then f j else x0) => i.
case: unliftP => [j ->|->] //.
Qed.

(** an induction principle for the row lattice *)
Lemma span_ind n (A : list (list Z)) (Q : list Z -> Prop) : wf n A ->
  Q (vzero n) ->
  (forall u v, length u = n -> length v = n -> Q u -> Q v -> Q (MatZ.vadd u v)) ->
  (forall q u, length u = n -> Q u -> Q (MatZ.vscale q u)) ->
  (forall r, List.In r A -> Q r) ->
  forall v, In_rowspanZ n v A -> Q v.
Proof.
move=> wA Q0 QD QS QA v [c [_ ->]].
elim: A c wA QA => [|r A IH] c wA QA; first by rewrite lincomb_nil_r.
case: c => [|c0 c]; first by rewrite lincomb_nil_l.
case/wf_cons: wA => lr wA.
rewrite /= -/(lincomb n c A); apply: QD.
- by rewrite MatZ.vscale_length.
- exact: lincomb_length.
- by apply: QS => //; apply: QA; left.
- by apply: IH => // r' hr'; apply: QA; right.
Qed.

(** ** (2) *)
Section Table.
Variables (d : nat) (t : table).
Local Notation n := d.+1.
Hypothesis ct : cube n t.
Hypothesis hc : tcomm t n.
Hypothesis ha : tassoc t n.
Let one := unit_vec n 0.
Let sone : size one = n := size_unit_vec n 0.
Hypothesis hone : forall x, size x = n -> tmul t n one x = x.

Let lt : length t = n. Proof. by case/andP: ct => /eqP. Qed.
Let ht : tshape t := cube_tshape ct.

Local Notation R := (@Round2W4Ring.A_comRingType d t ha hc one sone hone).
Local Notation vec := (@Round2W4Ring.vec d).

Definition rel (v : list Z) : R := zrow n v.

Lemma vec_rel v : size v = n -> vec (rel v) = v.
Proof. exact: Round2W4Ring.vec_zrow. Qed.

Lemma rel_vec (x : R) : rel (vec x) = x.
Proof. exact: Round2W4Ring.zrow_vec. Qed.

Lemma size_vec (x : R) : size (vec x) = n.
Proof. exact: Round2W4Ring.size_vec. Qed.

Lemma rel_bil u v : size u = n -> size v = n -> rel (bil t u v) = rel u * rel v.
Proof. by move=> su sv; rewrite (bil_tmul ct su sv) Round2W4Ring.mulE !vec_rel. Qed.

Lemma vec_mul (x y : R) : vec (x * y) = bil t (vec x) (vec y).
Proof.
by rewrite (bil_tmul ct (size_vec x) (size_vec y)) Round2W4Ring.mulE Round2W4Ring.vec_zrow // size_tmul.
Qed.

Lemma rel_vadd u v : size u = n -> size v = n -> rel (MatZ.vadd u v) = rel u + rel v.
Proof. exact: Round2W4Ring.zrow_vadd. Qed.

Lemma rel_vzero : rel (vzero n) = 0.
Proof. exact: Round2W4Ring.zrow_vzero. Qed.

(** integer scalars *)
Definition sc (q : Z) (x : R) : R := rel (MatZ.vscale q (vec x)).

Lemma rel_vscale q u : size u = n -> rel (MatZ.vscale q u) = sc q (rel u).
Proof. by move=> su; rewrite /sc vec_rel. Qed.

Lemma vec_sc q (x : R) : vec (sc q x) = MatZ.vscale q (vec x).
Proof. by rewrite /sc vec_rel // -Llength_eq' MatZ.vscale_length Llength_eq' size_vec. Qed.

Lemma sc_mull q (x y : R) : sc q x * y = sc q (x * y).
Proof.
rewrite /sc Round2W4Ring.mulE vec_rel; last by rewrite -Llength_eq' MatZ.vscale_length Llength_eq' size_vec.
by rewrite Round2W3Mul.tmul_vscale_l ?size_vec // -[tmul _ _ _ _]vec_rel ?size_tmul // -Round2W4Ring.mulE rel_vec.
Qed.

Lemma sc_ent q (x : R) (j : 'I_n) : (sc q x : 'rV[Z]_n) 0 j = q * (x : 'rV[Z]_n) 0 j.
Proof. by rewrite /sc /rel mxE -Lnth_nth MatZ.nth_vscale Lnth_nth Round2W4Ring.nth_vec. Qed.

Lemma sc_add q (x y : R) : sc q (x + y) = sc q x + sc q y.
Proof. by apply/rowP => j; rewrite sc_ent [RHS]mxE !sc_ent -mulrDr; congr (_ * _); rewrite mxE. Qed.

Lemma sc_0 q : sc q 0 = 0.
Proof. by apply/rowP => j; rewrite sc_ent [RHS]mxE [X in _ * X]mxE mulr0. Qed.

Lemma sc_sum q (I : Type) (s : list I) (F : I -> R) : sc q (\sum_(i <- s) F i) = \sum_(i <- s) sc q (F i).
Proof.
apply: (big_ind2 (fun x y => sc q x = y)) => [|x1 x2 y1 y2 <- <-|//]; first exact: sc_0.
exact: sc_add.
Qed.

Lemma sc_inj q (x y : R) : q <> 0%Z -> sc q x = sc q y -> x = y.
Proof.
move=> q0 /rowP e; apply/rowP => j; have := e j; rewrite !sc_ent.
by apply: mulfI; apply/eqP.
Qed.

Variables (G B : list (list Z)) (a l : Z).
Hypothesis wG : wf n G.
Hypothesis wB : wf n B.
Hypothesis a0 : a <> 0%Z.
Hypothesis l0 : l <> 0%Z.
Hypothesis cG : closed_mult t G.
Hypothesis dG : forall g, In_rowspanZ n g G -> dvd_vec a g.
Hypothesis aB : forall z, In_rowspanZ n z B -> In_rowspanZ n (MatZ.vscale a z) (prod_rows t G B).
Hypothesis lB : In_rowspanZ n (MatZ.vscale l one) B.

Let r := length B.
Let mB : 'cV[R]_r := \col_k rel (List.nth k B [::]).

Definition JG (x : R) : Prop := In_rowspanZ n (vec x) G.
Definition J' (x : R) : Prop := JG (sc a x).

Lemma JG0 : JG 0.
Proof.
rewrite /JG; have -> : vec (0 : R) = vzero n.
  by rewrite -[vzero n]vec_rel ?rel_vzero // -Llength_eq' vzero_length.
by exists (vzero (length G)); rewrite vzero_length lincomb_vzero.
Qed.

Lemma JGD (x y : R) : JG x -> JG y -> JG (x + y).
Proof.
rewrite /JG => hx hy.
have -> : vec (x + y) = MatZ.vadd (vec x) (vec y).
  rewrite -[MatZ.vadd _ _]vec_rel ?rel_vadd ?rel_vec ?size_vec //.
  by rewrite -Llength_eq' MatZ.vadd_length !Llength_eq' !size_vec.
exact: DecompW3Proper.span_vadd.
Qed.

Lemma JGM (x y : R) : JG y -> JG (x * y).
Proof.
rewrite /JG => hy; rewrite mulrC vec_mul.
by have := cG; rewrite /closed_mult lt; apply=> //; rewrite Llength_eq' size_vec.
Qed.

Lemma JGsc q (x : R) : JG x -> JG (sc q x).
Proof. by rewrite /JG vec_sc => hx; apply: DecompW3Proper.span_vscale. Qed.

Lemma J'0 : J' 0. Proof. by rewrite /J' sc_0; exact: JG0. Qed.
Lemma J'D (x y : R) : J' x -> J' y -> J' (x + y). Proof. by rewrite /J' sc_add; exact: JGD. Qed.
Lemma J'M (x y : R) : J' y -> J' (x * y).
Proof. by rewrite /J' mulrC -sc_mull mulrC; exact: JGM. Qed.

(** every element of JG is a times an element of J' *)
Lemma JG_div (x : R) : JG x -> exists y : R, x = sc a y /\ J' y.
Proof.
move=> hx; have hd := dG hx.
exists (rel [seq Z.div z a | z <- vec x]).
have e : x = sc a (rel [seq Z.div z a | z <- vec x]).
  have sq : size [seq Z.div z a | z <- vec x] = n by rewrite size_map; exact: size_vec.
  rewrite /sc (vec_rel sq).
  by have <- := dvd_vec_quot a (vec x) a0 hd; rewrite rel_vec.
by split=> //; rewrite /J' -e.
Qed.

(** the decomposition: every member of G * B is sum_j P_j b_j with P_j in G *)
Definition decomposed (v : list Z) : Prop :=
  exists P : 'rV[R]_r, (forall j, JG (P 0 j)) /\ rel v = \sum_j P 0 j * mB j 0.

Lemma span_decomposed : forall v, In_rowspanZ n v (prod_rows t G B) -> decomposed v.
Proof.
have wP : wf n (prod_rows t G B) by have := prod_rows_wf t G B ht; rewrite lt.
apply: (span_ind wP).
- exists 0; split=> [j|]; first by rewrite mxE; exact: JG0.
  by rewrite rel_vzero big1 // => j _; rewrite mxE mul0r.
- move=> u v lu lv [Pu [hu eu]] [Pv [hv ev]]; exists (Pu + Pv); split=> [j|].
    by rewrite mxE; exact: JGD.
  rewrite rel_vadd // eu ev -big_split /=; apply: eq_bigr => j _.
  by rewrite [(Pu + Pv) 0 j]mxE mulrDl.
- move=> q u lu [P [hP eP]]; exists (\row_j sc q (P 0 j)); split=> [j|].
    by rewrite mxE; exact: JGsc.
  rewrite rel_vscale // eP sc_sum; apply: eq_bigr => j _.
  by rewrite [(\row_j0 _) 0 j]mxE sc_mull.
- move=> rw /List.in_map_iff [[g b] [<- /List.in_prod_iff [hg hb]]] /=.
  have lg : length g = n by move/List.Forall_forall: wG; apply.
  have lb : length b = n by move/List.Forall_forall: wB; apply.
  have [k [hk ek]] := List.In_nth _ _ [::] hb.
  have /ltP hk' : (k < r)%coq_nat by [].
  pose ko := Ordinal hk'.
  exists (\row_j if j == ko then rel g else 0); split=> [j|].
    rewrite mxE; case: (j == ko); last exact: JG0.
    by rewrite /JG vec_rel //; apply: span_row_in.
  rewrite rel_bil // (bigD1 ko) //= !mxE eqxx ek big1 ?addr0 // => j ne.
  by rewrite mxE (negbTE ne) mul0r.
Qed.

Theorem nakayama_table : In_rowspanZ n (MatZ.vscale a one) G.
Proof.
(* the matrix p *)
have hrow (i : 'I_r) : exists P : 'rV[R]_r, (forall j, J' (P 0 j)) /\ mB i 0 = \sum_j P 0 j * mB j 0.
  have hi : (i < length B)%coq_nat by apply/ltP.
  have hb : In_rowspanZ n (List.nth i B [::]) B by apply: span_row_in => //; apply: List.nth_In.
  have lb : length (List.nth i B [::]) = n by apply: (span_length n _ B).
  have [P [hP eP]] := span_decomposed (aB hb).
  have [Q hQ] := fin_choice_ord (fun j => JG_div (hP j)).
  exists (\row_j Q j); split=> [j|]; first by rewrite mxE; case: (hQ j).
  apply: (sc_inj a0); rewrite mxE -rel_vscale // eP sc_sum; apply: eq_bigr => j _.
  by rewrite mxE -sc_mull; case: (hQ j) => <-.
have [pf hpf] := fin_choice_ord hrow.
pose p : 'M[R]_r := \matrix_(i, j) pf i 0 j.
have hp i j : J' (p i j) by rewrite mxE; case: (hpf i) => h _.
have epm : p *m mB = mB.
  apply/colP => i; rewrite mxE; case: (hpf i) => _ ->.
  by apply: eq_bigr => j _; rewrite mxE.
have [dd [hd1 hdm]] := nakayama J'0 J'D J'M hp epm.
(* dd kills the lattice B, which contains l e_0, so dd = 0 *)
have kill : forall v, In_rowspanZ n v B -> dd * rel v = 0.
  apply: (span_ind (Q := fun v => dd * rel v = 0) wB).
  - by rewrite rel_vzero mulr0.
  - by move=> u w lu lw eu ew; rewrite rel_vadd // mulrDr eu ew addr0.
  - by move=> q u lu eu; rewrite rel_vscale // mulrC sc_mull mulrC eu sc_0.
  - move=> rw /(List.In_nth _ _ [::]) [k [hk <-]].
    have /ltP hk' : (k < r)%coq_nat by [].
    by have := hdm (Ordinal hk'); rewrite mxE.
have d0 : dd = 0.
  have := kill _ lB; rewrite rel_vscale // mulrC sc_mull.
  have -> : rel one = 1 by [].
  by rewrite mul1r => e; apply: (sc_inj l0); rewrite sc_0.
have h1 : J' 1.
  have : J' ((0 - 1) * (dd - 1)) by apply: J'M.
  by rewrite d0 !sub0r mulrNN mulr1.
move: h1; rewrite /J' /JG vec_sc.
have -> : vec (1 : R) = one by exact: (vec_rel sone).
by [].
Qed.
End Table.
