(** * W7MiscInvDiff (C14): totality of [MultTable::get_inv_diff] (mult_table.rs:86-110).

      On an n x n x n table (n >= 1, nothing else assumed) [mt_inv_diff] returns iff the integer
      matrix of the trace form, Tr_ij = trace(w_i w_j) ([DetInvDiff.trace_form]), has a non-zero
      determinant; when det Tr = 0 the outcome is the panic of [unwrap] on
      [Err(MatrixNotInvertible)].  There is no other outcome: no index is out of bounds, the
      Gauss-Jordan inverse returns an n x n matrix, and [HNF::new] returns on every n x n integer
      matrix.  Style: ssreflect/MathComp. *)
From Coq Require Import ZArith List.
From mathcomp Require Import all_ssreflect ssralg zmodp matrix mxalgebra.
From mathcomp Require Import ssrZ zify.
From Coq Require Import QArith Qcanon.
From RNT.Model Require Import Base Poly Algebraic LinAlg MultTable.
From RNT.Model Require Hnf.
From RNT.Refine Require Import QcField LinAlgQc LinAlgList MatZ HnfTotal DetBridge DetInvDiffA DetInvDiff.
From RNT.Refine Require LinAlgTotal MultTableOps.
Set Implicit Arguments.
Unset Strict Implicit.
Unset Printing Implicit Defensive.
Import GRing.Theory.
Local Close Scope Z_scope.
Local Close Scope Q_scope.
Local Close Scope Qc_scope.
Local Open Scope ring_scope.

Import MultTableOps.

(** a loop whose body always returns, returns *)
Lemma for_loop_total (S : Type) (js : list nat) (body : nat -> S -> outcome S) :
  (forall j s, List.In j js -> exists s', body j s = Done s') ->
  forall s, exists s', Hnf.for_loop js body s = Done s'.
Proof.
elim: js => [|j js IH] hb s /=; first by exists s.
have [s1 ->] := hb j s (or_introl erefl); rewrite /bind.
by apply: IH => j' s' hj'; apply: hb; right.
Qed.

(** the matrix of traces is computed without panic on a cube *)
Lemma trace_matrix_total n t : cube n t ->
  exists tr, mapM (fun i => mapM (fun j => bind (nth_chk t i) (fun ti => bind (nth_chk ti j) (fun v =>
          bind (mt_trace t v) (fun x => Done (Algebraic.qz x))))) (List.seq 0 n)) (List.seq 0 n) = Done tr.
Proof.
move=> ct; have st : size t = n by case/andP: ct => /eqP.
apply: mapM_total => i /List.in_seq [_ /= /ltP hi].
apply: mapM_total => j /List.in_seq [_ /= /ltP hj].
rewrite (nth_chk_ok [::]) ?st // /bind (nth_chk_ok [::]) ?(cube_row ct) //.
by rewrite (mt_trace_closed ct) ?(cube_cell ct) //; eexists.
Qed.

Lemma mapM2_shape A (f : nat -> nat -> outcome A) n (r : list (list A)) :
  mapM (fun i => mapM (fun j => f i j) (List.seq 0 n)) (List.seq 0 n) = Done r ->
  length r = n /\ List.Forall (fun x => length x = n) r.
Proof.
move=> E; have [L N] := mapM_inv _ _ _ E; rewrite List.seq_length in L N; split=> //.
apply/List.Forall_forall => x /(List.In_nth _ _ [::]) [i [hi <-]].
rewrite L in hi; have := N i 0%N [::] hi => /mapM_inv [].
by rewrite List.seq_length.
Qed.

(** ** [P] get_inv_diff_total *)
Theorem mt_inv_diff_total n t : cube n t -> (0 < n)%nat ->
  if \det (trace_form t n) == 0 then mt_inv_diff t = Panic PUnwrap
  else exists l N, mt_inv_diff t = Done (l, N).
Proof.
move=> ct n0.
have lt : mt_deg t = n by case/andP: ct => /eqP.
have [tr Etr] := trace_matrix_total ct.
have [ltr etr] := trace_matrix_mx ct Etr.
have [_ wtr] := mapM2_shape Etr.
have sq : LinAlgTotal.rows_len (length tr) tr by rewrite ltr.
have dq : \det (qmx n n tr) = q_of_Z (\det (trace_form t n)) by rewrite etr det_map_mx.
rewrite /mt_inv_diff lt Etr /=.
case: (LinAlgTotal.inv_total_rows fopsQc tr sq) => [[d|e] [Einv Hinv]]; last first.
  rewrite Einv /=.
  have := inv_err Einv; rewrite ltr /= dq => /eqP; rewrite q_of_Z_eq0 => ->.
  by [].
have := inv_ok Einv; rewrite ltr /= => -[I1 _].
have /negbTE -> : \det (trace_form t n) != 0.
  by have := ok_det_neq0 I1; rewrite dq q_of_Z_eq0.
case: Hinv; rewrite ltr => Ld Wd; rewrite Einv /=.
have ent i j : (i < n)%coq_nat -> (j < n)%coq_nat ->
    bind (nth_chk d i) (fun di => nth_chk di j) = Done (qent d i j).
  move=> hi hj; rewrite (nth_chk_lt d i [::]) ?Ld //=.
  have lr : length (List.nth i d [::]) = n.
    by move/List.Forall_forall: Wd; apply; apply: List.nth_In; rewrite Ld.
  by rewrite (nth_chk_lt _ j q0) ?lr.
set lcmloop := Hnf.for_loop _ _ _.
have [l El] : exists l, lcmloop = Done l.
  apply: for_loop_total => i s /List.in_seq [_ hi]; apply: for_loop_total => j s' /List.in_seq [_ hj].
  rewrite Nat.sub_0_r /= in hi hj.
  have := ent i j hi hj; case: (nth_chk d i) => //= di -> /=; by eexists.
rewrite El /=.
set intm := mapM _ _.
have [int Eint] : exists int, intm = Done int.
  apply: mapM_total => i /List.in_seq [_ /= hi].
  apply: mapM_total => j /List.in_seq [_ /= hj].
  have := ent i j hi hj; case: (nth_chk d i) => //= di -> /=; by eexists.
rewrite Eint /=.
have [Li Wi] := mapM2_shape Eint.
have hn : (1 <= n)%coq_nat by apply/leP.
have [h ->] := @hnf_new_total int n n (conj Li Wi) hn hn.
by exists l, h.
Qed.

(** the two cases as implications *)
Theorem mt_inv_diff_total2 n t : cube n t -> (0 < n)%nat ->
  (\det (trace_form t n) <> 0 -> exists l N, mt_inv_diff t = Done (l, N)) /\
  (\det (trace_form t n) = 0 -> mt_inv_diff t = Panic PUnwrap).
Proof.
move=> ct n0; have := mt_inv_diff_total ct n0.
by case: eqP => // d0 H; split.
Qed.

(** it returns exactly when the trace form is non-degenerate *)
Corollary mt_inv_diff_returns_iff n t : cube n t -> (0 < n)%nat ->
  (exists l N, mt_inv_diff t = Done (l, N)) <-> \det (trace_form t n) <> 0.
Proof.
move=> ct n0; have [H1 H2] := mt_inv_diff_total2 ct n0; split=> //.
by case=> l [N E] d0; move: (H2 d0); rewrite E.
Qed.
