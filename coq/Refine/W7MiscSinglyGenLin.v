(** * W7MiscSinglyGenLin (C15): [Order::singly_gen] and the discriminant for a LINEAR minimal
      polynomial f = c1 x + c0 (c1 <> 0; monic or not).

      [Algebraic::new] stores theta = -c0 / c1 as a rational constant (expr of length <= 1), the only
      row built by [singly_gen] is the constant 1, so the stored order is [[1]] = Z; its
      discriminant is the value of [discriminant(min_poly)] (the exponent 2 (deg - 1) is 0, nothing is
      divided), and [discriminant] of a linear polynomial returns 1 (Res(f, f') = c1, divided by
      lc f = c1) with all divisions exact.  So the clause "disc Z[theta] = disc f" holds in degree 1
      as well, and the routine returns for every c0, c1 <> 0, both profiles.  Style: ssreflect. *)
From RNT.Model Require Import Base Poly Algebraic LinAlg MultTable Order.
From RNT.Model Require Resultant Round2.
From Coq Require Import QArith Qcanon.
From mathcomp Require Import all_ssreflect ssralg poly polydiv.
From mathcomp Require Import ssrZ zify.
From RNT.Refine Require Import QcRing PolyRefine PolyDiv PolyZ PolyQ AlgMul AlgQuot.
From RNT.Refine Require OrderIndex.
Set Implicit Arguments.
Unset Strict Implicit.
Unset Printing Implicit Defensive.
Import GRing.Theory.
Local Close Scope Z_scope.
Local Close Scope Q_scope.
Local Open Scope ring_scope.

Section Linear.
Variables c0 c1 : Z.
Hypothesis c1nz : c1 <> 0%Z.
Let f : seq Z := [:: c0; c1].

Lemma lin_canon : canonZ f.
Proof. by rewrite /canonZ /canon /=; apply/eqP. Qed.

Lemma alg_new_lin : canonQ (alg_new f) /\ (size (alg_new f) <= 1)%N.
Proof.
have -> : alg_new f = from_raw opsQc [:: Qcdiv (qz (- c0)) (qz c1)] by [].
rewrite opsQc_eq /from_raw; split; first exact: strip_canon.
by rewrite strip_Poly (leq_trans (size_Poly _)).
Qed.

(** the row loop: one row, the constant 1 *)
Lemma sg_loop_lin : sg_loop 1 1 f (alg_new f) (alg_const (Q2Qc 1)) = Done [:: [:: Q2Qc 1]].
Proof.
have [ct st] := alg_new_lin.
have c1' : canonQ [:: Q2Qc 1] by [].
have [r [Er _ _ _]] := mul_with_mod_main lin_canon (erefl : size f = 2%N) c1' ct (leqnn 1%N) st.
have -> : alg_const (Q2Qc 1) = [:: Q2Qc 1] by [].
have -> : sg_loop 1 1 f (alg_new f) [:: Q2Qc 1] =
    bind (alg_mul f [:: Q2Qc 1] (alg_new f)) (fun _ => Done [:: [:: Q2Qc 1]]).
  by rewrite /sg_loop /=; case: (alg_mul _ _ _).
by rewrite /alg_mul Er.
Qed.

(** [P] Z[theta] for a linear minimal polynomial is Z *)
Theorem singly_gen_linear : singly_gen f (alg_new f) = Done [:: [:: Q2Qc 1]].
Proof.
have -> : singly_gen f (alg_new f) =
    bind (sg_loop 1 1 f (alg_new f) (alg_const (Q2Qc 1))) hnf_reduce by [].
by rewrite sg_loop_lin /=; vm_compute.
Qed.

(** [P] [discriminant_with_min_poly] on it returns the discriminant of the minimal polynomial unchanged *)
Theorem order_discriminant_linear m discf :
  order_discriminant m discf [:: [:: Q2Qc 1]] f = Done discf.
Proof.
rewrite /order_discriminant.
have -> : determinant fopsQc [:: [:: Q2Qc 1]] = Done (Q2Qc 1) by vm_compute.
have -> : pdeg f = 1%Z by [].
have u0 : u64_norm m 0 = Done 0%Z by case: m.
rewrite /bind /assert_ /f [(1 - 1)%Z]/= u0 [(2 * 0)%Z]/= u0 Z.pow_0_r.
have nz1 : Algebraic.qz 1 <> Q2Qc 0 by exact: OrderIndex.qz_neq0.
rewrite (@OrderIndex.div_chk_ok _ _ nz1).
have -> : Qcdiv (Qcmult (Qcmult (Algebraic.qz discf) (Q2Qc 1)) (Q2Qc 1)) (Algebraic.qz 1) = Algebraic.qz discf.
  by rewrite !Qcmult_1_r /Qcdiv -[Qcinv _]/(Q2Qc 1) Qcmult_1_r.
by rewrite OrderIndex.q_is_integer_qz OrderIndex.q_to_integer_qz.
Qed.

(** [P] the discriminant of a linear polynomial is 1, computed without an inexact division *)
Theorem discriminant_linear m : Resultant.discriminant m f = (true, Done 1%Z).
Proof.
have dg : pdiff opsZ f = [:: c1].
  rewrite /pdiff /f /diff_raw /from_raw /strip /= Z.mul_1_r.
  by case: (c1) c1nz.
rewrite /Resultant.discriminant /f -/f /Resultant.resultant /Resultant.resultant_smart dg.
rewrite /f /Resultant.loop_fuel /=.
have -> : Resultant.smart_finish m [:: c0; c1] [:: c1] 1 1 true = (true, Done c1).
  rewrite /Resultant.smart_finish.
  have -> : pdeg [:: c0; c1] = 1%Z by [].
  have -> : pdeg [:: c1] = 0%Z by [].
  have da : debug_assert m true = Done tt by case: (m).
  have u0 : u64_norm m (1 - 1) = Done 0%Z by case: (m).
  by rewrite /= !da /Resultant.flift -[Z.pow_pos c1 1]/(c1 ^ 1)%Z Z.pow_1_r Z.quot_1_r Z.rem_1_r.
rewrite /Resultant.fbind /Resultant.zlast /=.
have -> : (c1 =? 0)%Z = false by apply/Z.eqb_neq.
by rewrite Z.rem_same // Z.quot_same.
Qed.

(** [P] the wired [Order::discriminant] of Z[theta], theta of degree 1, is 1 *)
Theorem order_disc_linear m : Round2.order_disc m [:: [:: Q2Qc 1]] f = Done 1%Z.
Proof.
rewrite /Round2.order_disc discriminant_linear.
have -> : determinant fopsQc [:: [:: Q2Qc 1]] = Done (Q2Qc 1) by vm_compute.
exact: order_discriminant_linear.
Qed.
End Linear.

(** ** the statements in the shape of [singly_gen_disc] (degree n = 1; any non-zero leading coefficient) *)
Theorem singly_gen_disc_linear m (f : list Z) discf :
  length f = 2%N -> List.nth 1 f 0%Z <> 0%Z ->
  singly_gen f (alg_new f) = Done [:: [:: Q2Qc 1]] /\
  order_discriminant m discf [:: [:: Q2Qc 1]] f = Done discf.
Proof.
case: f => [|c0 [|c1 [|x s]]] //= _ c1nz; split.
- exact: singly_gen_linear.
- exact: order_discriminant_linear.
Qed.

Theorem singly_gen_disc_linear_wired m (f : list Z) :
  length f = 2%N -> List.nth 1 f 0%Z <> 0%Z ->
  [/\ singly_gen f (alg_new f) = Done [:: [:: Q2Qc 1]],
      Resultant.discriminant m f = (true, Done 1%Z)
    & Round2.order_disc m [:: [:: Q2Qc 1]] f = Done 1%Z].
Proof.
case: f => [|c0 [|c1 [|x s]]] //= _ c1nz; split.
- exact: singly_gen_linear.
- exact: discriminant_linear.
- exact: order_disc_linear.
Qed.
