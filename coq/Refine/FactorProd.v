(** * C08: the distinct-degree and equal-degree stages return factorisations of their input:
    the product of the returned polynomials is the input modulo p (ssreflect). *)
From Coq Require Import ZArith List Lia Znumtheory.
From mathcomp Require Import all_ssreflect ssralg poly.
From RNT.Model Require Import Base Poly PolyModP FactorModP.
From RNT.Refine Require Import PolyModPArith PolyModPDivList FermatZ PolyZmod PolyModPDiv MonicZ PolyModPGcd FpPoly HenselProofs FactorNorm.
From mathcomp Require Import ssrZ zify ring.
Set Implicit Arguments. Unset Strict Implicit. Unset Printing Implicit Defensive.
Import GRing.Theory.
Local Open Scope ring_scope.

Lemma PZprod_cat a b : PZprod (a ++ b) = PZprod a * PZprod b.
Proof. elim: a => [|f a IH] /=; first by rewrite mul1r. rewrite IH. ring. Qed.

Section Prime.
Variable p : Z.
Hypothesis Hp : Znumtheory.prime p.

(** ** final_split (odd p) *)

Opaque split_retries.
Lemma final_split_odd_prod : forall fuel poly d result r out r',
  rnz p poly ->
  final_split_odd fuel poly p d result r = Done (out, r') ->
  exists new, out = result ++ new /\ eqpm p (PZ poly) (PZprod new).
Proof.
  elim=> [|f IH] poly d result r out r' Rp //=.
  case: (deg_div poly d) => [k| |] //=.
  case: (k =? 0)%ZZ => //. case: (k =? 1)%ZZ.
  - case=> <- _. exists [:: poly]. split=> //. rewrite /= mulr1. exact: eqpm_refl.
  - move: split_retries r => n. elim: n => [|n IHn] r0 //=.
    case: (draw_coeffs _ p r0) => [[raw r1]| |] //=.
    case: (poly_modpow _ _ poly p) => [tpow| |] //=.
    case Es: (poly_mod_sub tpow _ p) => [tpow1| |] //=.
    case Eb: (poly_gcd tpow1 poly p) => [b| |] //=.
    have [Rb [_ [t Ht]]] := gcd_rnz Hp (poly_mod_sub_reduced Hp Es) Rp Eb.
    case: b Eb Rb Ht => [|b0 b'] Eb Rb Ht; first exact: IHn.
    case: ((pdeg (b0 :: b') =? 0)%ZZ || (pdeg (b0 :: b') =? pdeg poly)%ZZ); first exact: IHn.
    case E1: (final_split_odd f (b0 :: b') p d result r1) => [[res1 r2]| |] //=.
    have [n1 [A1 P1]] := IH _ _ _ _ _ _ Rb E1.
    case Ed: (poly_divrem poly (b0 :: b') p) => [[dv rem]| |] //=.
    have [Rdv Edv] := quot_rnz Hp Rp Rb Ht Ed.
    move=> E2. have [n2 [A2 P2]] := IH _ _ _ _ _ _ Rdv E2.
    exists (n1 ++ n2). split; first by rewrite A2 A1 -List.app_assoc.
    rewrite PZprod_cat. apply: eqpm_trans Edv _. rewrite mulrC. exact: eqpm_mul.
Qed.
Transparent split_retries.

(** ** degree *)

Lemma degree_loop_prod : forall fuel x v w d result v' out,
  rnz p v ->
  degree_loop fuel p x v w d result = Done (v', out) ->
  exists new, out = result ++ new /\ eqpm p (PZ v) (PZ v' * PZprod (List.map fst new)).
Proof.
  elim=> [|f IH] x v w d result v' out Rv //=.
  case: (Z.leb_spec (2 * d + 2) (pdeg v)) => _; last first.
  { case=> <- <-. exists [::]. rewrite List.app_nil_r /= mulr1. split=> //. exact: eqpm_refl. }
  case Ew: (poly_modpow w p v p) => [w1| |] //=.
  case Ex: (poly_mod_sub w1 x p) => [wx| |] //=.
  case Ea: (poly_gcd wx v p) => [ad| |] //=.
  have [Rad [_ [t Ht]]] := gcd_rnz Hp (poly_mod_sub_reduced Hp Ex) Rv Ea.
  case: (Z.ltb_spec 0 (pdeg ad)) => _.
  - case Ev: (poly_divrem v ad p) => [[vq rem]| |] //=.
    have [Rvq Evq] := quot_rnz Hp Rv Rad Ht Ev.
    case Ew2: (poly_divrem w1 vq p) => [[q2 w2]| |] //=.
    move=> E. have [new [A P]] := IH _ _ _ _ _ _ _ Rvq E.
    exists ((ad, (d + 1)%ZZ) :: new). split; first by rewrite A -List.app_assoc.
    rewrite [List.map _ _]/= [PZprod _]/=. apply: eqpm_trans Evq _.
    have -> : PZ v' * (PZ ad * PZprod (List.map fst new)) = (PZ v' * PZprod (List.map fst new)) * PZ ad by ring.
    exact: eqpm_mulr.
  - move=> E. exact: (IH _ _ _ _ _ _ _ Rv E).
Qed.

End Prime.

(** ** final_split (p = 2) *)

Lemma final_split_2_prod : forall fuel poly d result out,
  rnz 2 poly ->
  final_split_2 fuel poly d result = Done out ->
  exists new, out = result ++ new /\ eqpm 2 (PZ poly) (PZprod new).
Proof.
  have P2 := prime_2.
  elim=> [|f IH] poly d result out Rp //=.
  case: (deg_div poly d) => [k| |] //=.
  case: (k =? 0)%ZZ => //. case: (k =? 1)%ZZ.
  - case=> <-. exists [:: poly]. split=> //. rewrite /= mulr1. exact: eqpm_refl.
  - have Rx : reduced 2 poly_x.
    { rewrite /poly_x /=. split; first by []. by repeat constructor. }
    move: (length poly + 2)%coq_nat poly_x Rx => n. elim: n => [|n IHn] t Rt //=.
    case Ec: (trace_loop _ t t poly) => [c| |] //=.
    have Rc := trace_loop_reduced Rt (proj1 Rp) Ec.
    case Eb: (poly_gcd poly c 2) => [b| |] //=.
    have [Rb [[s Hs] _]] := gcd_rnz_l P2 Rp Rc Eb.
    case: ((pdeg b =? 0)%ZZ || (pdeg b =? pdeg poly)%ZZ).
    + apply: IHn. exact: mul_x2_reduced.
    + case E1: (final_split_2 f b d result) => [res1| |] //=.
      have [n1 [A1 P1]] := IH _ _ _ _ Rb E1.
      case Ed: (poly_divrem poly b 2) => [[dv rem]| |] //=.
      have [Rdv Edv] := quot_rnz P2 Rp Rb Hs Ed.
      move=> E2. have [n2 [A2 Pr2]] := IH _ _ _ _ Rdv E2.
      exists (n1 ++ n2). split; first by rewrite A2 A1 -List.app_assoc.
      rewrite PZprod_cat. apply: eqpm_trans Edv _. rewrite mulrC. exact: eqpm_mul.
Qed.

(** ** The two stages, as called by [factorize_mod_p] *)

Section Stages.
Variable p : Z.
Hypothesis Hp : Znumtheory.prime p.
Let Hp2 := prime_ge_2 _ Hp.

(** [P] equal-degree stage: for every draw stream, if it returns, the product of the pieces is the input. *)
Theorem final_split_product poly d r out r' :
  rnz p poly -> final_split poly p d r = Done (out, r') ->
  eqpm p (PZ poly) (PZprod out) /\ List.Forall (rnz p) out.
Proof.
  move=> Rp H. split; last exact: (final_split_good Hp Rp H).
  move: H. rewrite /final_split. case Eo: (Z.odd p).
  - move=> H. by have [new [-> P]] := final_split_odd_prod Hp Rp H.
  - have E2 : p = 2%ZZ.
    { have Hev : Z.even p = true by rewrite -Z.negb_odd Eo.
      move/Z.even_spec: Hev => [k Hk].
      have D : (2 | p)%ZZ by exists k; lia.
      case: (prime_divisors _ Hp _ D); lia. }
    case Ef: (final_split_2 _ poly d [::]) => [res| |] //=. case=> <- _.
    rewrite E2 in Rp *. by have [new [-> P]] := final_split_2_prod Rp Ef.
Qed.

(** [P] distinct-degree stage: the product of the parts is the input up to the constant that is left. *)
Theorem degree_product poly out :
  rnz p poly -> degree poly p = Done out ->
  exists c : list Z, rnz p c /\ eqpm p (PZ poly) (PZ c * PZprod (List.map fst out)) /\
                     (length c = 1%nat \/ c = [:: 1%ZZ]).
Proof.
  move=> Rp. rewrite /degree. move: (length poly + 1)%coq_nat => fuel.
  case E: (degree_loop fuel p poly_x poly poly_x 0 [::]) => [[v res]| |] //=.
  have [new [A P]] := degree_loop_prod Hp Rp E. rewrite /= in A. subst res.
  have [Rv _] := degree_loop_good Hp Rp (Z.le_refl 0) (List.Forall_nil _) E.
  case: (Z.ltb_spec 0 (pdeg v)) => Hv; case=> <-.
  - exists [:: 1%ZZ]. split.
    + split; last by []. split; first by []. constructor; [lia|constructor].
    + split; last by right.
      have E1 : PZ [:: 1%ZZ] = 1 by rewrite /PZ /= cons_poly_def mul0r add0r.
      rewrite List.map_app PZprod_cat [List.map fst [:: _]]/= [PZprod [:: _]]/= mulr1 E1.
      rewrite mul1r mulrC. exact: P.
  - exists v. split=> //. split=> //. left.
    case: (v) Rv Hv => [|c0 [|c1 l]] [_ Nv] //. rewrite /pdeg [length _]/=. lia.
Qed.

End Stages.
