(** * PolyZFactorW3Mignotte: C07, the Landau-Mignotte bound for factorisations in Z[x] (MathComp, algC).

    [mignotte_Z]: if [q = u v] in Z[x], [q <> 0], then for every [i]
      [|lc(v) * u_i| <= C(deg u, i) * sum_j |q_j|].
    Proof: over the algebraic numbers [u = lc(u) prod (x - a_i)], [v = lc(v) prod (x - b_j)]; Landau's
    inequality for [q] gives [|lc u| |lc v| prod max(1,|a_i|) prod max(1,|b_j|) <= ||q||_2 <= ||q||_1], and the
    coefficients of [prod (x - a_i)] are at most [C(deg u, i) prod max(1, |a_i|)] (PolyZFactorW3Landau.v). *)
From Coq Require Import ZArith Lia.
From mathcomp Require Import all_ssreflect ssralg ssrnum ssrint poly algC.
From mathcomp Require Import ssrZ zify ring.
From RNT.Refine Require Import PolyZFactorW3Landau.
Set Implicit Arguments.
Unset Strict Implicit.
Unset Printing Implicit Defensive.
Import Order.TTheory GRing.Theory Num.Theory.
Local Open Scope ring_scope.

Definition ZtoC : {rmorphism Z -> algC} := [rmorphism of ( *~%R (1 : algC)) \o int_of_Z].

Lemma ZtoCE (z : Z) : ZtoC z = (int_of_Z z)%:~R. Proof. by []. Qed.

Lemma ZtoC_inj : injective ZtoC.
Proof. by move=> a b /intr_inj /(can_inj int_of_ZK). Qed.

Lemma ZtoC_norm (z : Z) : `|ZtoC z| = ZtoC (Z.abs z).
Proof. by rewrite !ZtoCE -intr_norm; congr (_%:~R); lia. Qed.

Lemma ZtoC_le (a b : Z) : (ZtoC a <= ZtoC b) = Z.leb a b.
Proof. by rewrite !ZtoCE ler_int; lia. Qed.

Lemma ZtoC_nat (m : nat) : ZtoC (Z.of_nat m) = m%:R.
Proof. by rewrite ZtoCE pmulrn; congr (_%:~R); lia. Qed.

Lemma ZtoC_ge0 (z : Z) : 0 <= ZtoC (Z.abs z).
Proof. by rewrite -ZtoC_norm. Qed.

Notation toC := (map_poly ZtoC).

Lemma size_toC (f : {poly Z}) : size (toC f) = size f.
Proof. by rewrite size_map_inj_poly ?rmorph0 //; exact: ZtoC_inj. Qed.

Lemma lead_coef_toC (f : {poly Z}) : lead_coef (toC f) = ZtoC (lead_coef f).
Proof. by rewrite lead_coef_map_inj ?rmorph0 //; exact: ZtoC_inj. Qed.

(** the sum of the squares is at most the square of the sum (non-negative terms) *)
Lemma sum_sq_le (k : nat) (x : nat -> algC) : (forall i, 0 <= x i) ->
  \sum_(i < k) x i ^+ 2 <= (\sum_(i < k) x i) ^+ 2.
Proof.
move=> x0; elim: k => [|k IH]; first by rewrite !big_ord0 expr0n.
rewrite !big_ord_recr /= sqrrD -addrA ler_add // ler_addr.
by rewrite mulrn_wge0 // mulr_ge0 // sumr_ge0.
Qed.

Lemma bin_le_exp2 (m i : nat) : ('C(m, i) <= 2 ^ m)%N.
Proof.
elim: m i => [|m IH] [|i] //; first by rewrite bin0 expn_gt0.
by rewrite binS expnS mul2n -addnn leq_add.
Qed.

(** ** the bound *)
Theorem mignotte_Z (q u v : {poly Z}) : q = u * v -> q != 0 -> forall i,
  Z.le (Z.abs (Z.mul (lead_coef v) u`_i)) (Z.mul (Z.of_nat 'C((size u).-1, i)) (\sum_(j < size q) Z.abs q`_j)).
Proof.
move=> euv q0 i.
have u0 : u != 0 by apply: contraNneq q0 => h; rewrite euv h mul0r.
have v0 : v != 0 by apply: contraNneq q0 => h; rewrite euv h mulr0.
have [ras eu] := closed_field_poly_normal (toC u).
have [rbs ev] := closed_field_poly_normal (toC v).
rewrite !lead_coef_toC in eu ev.
set lu := ZtoC (lead_coef u) in eu; set lv := ZtoC (lead_coef v) in ev.
have lu0 : lu != 0 by rewrite /lu -(rmorph0 ZtoC) (inj_eq ZtoC_inj) lead_coef_eq0.
have lv0 : lv != 0 by rewrite /lv -(rmorph0 ZtoC) (inj_eq ZtoC_inj) lead_coef_eq0.
have eq : toC q = (lu * lv)%:P * F (ras ++ rbs).
  rewrite euv rmorphM /= eu ev F_cat -!mul_polyC polyCM /F.
  set A := \prod_(z <- ras) _; set B := \prod_(z <- rbs) _.
  by rewrite mulrACA.
have sras : size ras = (size u).-1.
  by have := congr1 (fun f : {poly algC} => size f) eu; rewrite size_toC size_scale // -/(F ras) size_F => ->.
(* Landau *)
have sq : size (toC q) = (size (ras ++ rbs)).+1.
  by rewrite eq mul_polyC size_scale ?mulf_neq0 // size_F.
have hl := @landau_gen _ (size (toC q)) (ras ++ rbs) (lu * lv)%:P.
rewrite size_polyC mulf_neq0 // add1n sq ltnSn lead_coefC -eq Mb_cat in hl.
have {}hl := hl isT.
pose N1 : algC := \sum_(j < size q) ZtoC (Z.abs q`_j).
have N10 : 0 <= N1 by apply: sumr_ge0 => j _; exact: ZtoC_ge0.
have hS : S (size (toC q)) (toC q) <= N1 ^+ 2.
  rewrite /S size_toC.
  have -> : \sum_(j < size q) `|(toC q)`_j| ^+ 2 = \sum_(j < size q) (ZtoC (Z.abs q`_j)) ^+ 2.
    by apply: eq_bigr => j _; rewrite coef_map ZtoC_norm.
  by apply: (@sum_sq_le (size q) (fun j => ZtoC (Z.abs q`_j))) => j; exact: ZtoC_ge0.
rewrite sq in hS.
have Ma0 : 0 <= Mb ras by apply: le_trans ler01 (Mb_ge1 ras).
have Mb0 : 0 <= Mb rbs by apply: le_trans ler01 (Mb_ge1 rbs).
have h1 : Mb ras * Mb rbs * `|lu * lv| <= N1.
  rewrite -ler_sqr ?nnegrE ?mulr_ge0 // exprMn.
  exact: le_trans hl hS.
(* the coefficient *)
have hc := coef_prod_bound ras i; rewrite sras in hc.
have ecoef : `|ZtoC (Z.mul (lead_coef v) u`_i)| = `|lv| * (`|lu| * `|(F ras)`_i|).
  have -> : Z.mul (lead_coef v) u`_i = lead_coef v * u`_i by [].
  by rewrite rmorphM normrM -/lv; congr (_ * _); rewrite -(coef_map ZtoC) eu coefZ normrM.
apply/Z.leb_le; rewrite -ZtoC_le -ZtoC_norm ecoef.
have -> : forall a b : Z, Z.mul a b = a * b by [].
rewrite rmorphM ZtoC_nat.
have -> : ZtoC (\sum_(j < size q) Z.abs q`_j) = N1 by rewrite rmorph_sum.
apply: le_trans (_ : 'C((size u).-1, i)%:R * (Mb ras * Mb rbs * `|lu * lv|) <= _); last first.
  by rewrite ler_wpmul2l // ler0n.
have -> : 'C((size u).-1, i)%:R * (Mb ras * Mb rbs * `|lu * lv|)
        = `|lv| * (`|lu| * ('C((size u).-1, i)%:R * Mb ras * Mb rbs)).
  by rewrite normrM; move: (`|lu|) (`|lv|) (Mb ras) (Mb rbs) => a b c d; ring.
rewrite ler_wpmul2l // ler_wpmul2l //.
apply: le_trans hc _; rewrite -[X in X <= _]mulr1 ler_wpmul2l ?Mb_ge1 //.
by rewrite mulr_ge0 // ler0n.
Qed.
