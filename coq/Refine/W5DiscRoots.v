(** * W5DiscRoots: C05, the closed form of the discriminant: for f of degree n >= 1 over Z with
    f = lc * prod (x - r_i) over the algebraic numbers (roots with multiplicity),
       discriminant f = lc^(2n-2) * prod_{i<j} (r_i - r_j)^2.
    From [discriminant_spec] (d * lc = (-1)^(n(n-1)/2) Res(f, f')), the product formula
    [SubresProd.resultant_roots] (Res(f, f') = lc^(n-1) prod f'(r_i)) and
    f'(r_i) = lc prod_{j<>i} (r_i - r_j). MathComp style. *)
From RNT.Model Require Import Base Poly Resultant.
From Coq Require Import ZArith.
From mathcomp Require Import all_ssreflect ssralg ssrnum ssrint poly polydiv matrix mxpoly algC.
From mathcomp Require Import ssrZ zify ring.
From RNT.Refine Require Import ResSylvester ResEuclid ResPRS.
From RNT.Refine Require Import PolyRefine PolyZ ResInt SubresFlag SubresSpec SubresDiscInv SubresProd.
From RNT.Refine Require ResProofs.
Set Implicit Arguments.
Unset Strict Implicit.
Unset Printing Implicit Defensive.
Import GRing.Theory.
Local Open Scope ring_scope.

Section Closed.
Variable F : closedFieldType.
Implicit Types (rs s : seq F).

Definition mprod rs : {poly F} := \prod_(z <- rs) ('X - z%:P).
(** prod_{i<j} (r_i - r_j)^2, by recursion on the list *)
Fixpoint vdm2 rs : F := if rs is x :: s then (\prod_(y <- s) (x - y)) ^+ 2 * vdm2 s else 1.
(** prod_i P'(r_i) for P = prod (x - r_i) *)
Definition dprod rs : F := \prod_(z <- rs) (mprod rs)^`().[z].

Lemma mprod_cons x s : mprod (x :: s) = ('X - x%:P) * mprod s.
Proof. by rewrite /mprod big_cons. Qed.

Lemma horner_mprod s x : (mprod s).[x] = \prod_(y <- s) (x - y).
Proof. by rewrite horner_prod; apply: eq_bigr => y _; rewrite hornerXsubC. Qed.

Lemma dprod_cons x s :
  dprod (x :: s) = \prod_(y <- s) (x - y) * (\prod_(y <- s) (y - x) * dprod s).
Proof.
rewrite /dprod big_cons mprod_cons derivM derivXsubC mul1r.
rewrite hornerD hornerM hornerXsubC subrr mul0r addr0 horner_mprod; congr (_ * _).
rewrite -big_split /= big_seq [RHS]big_seq; apply: eq_bigr => y hy.
rewrite hornerD !hornerM hornerXsubC.
have -> : (mprod s).[y] = 0 by apply/rootP; rewrite /mprod root_prod_XsubC.
by rewrite add0r.
Qed.

Lemma tri_succ n : ((n.+1 * n) %/ 2 = n + (n * n.-1) %/ 2)%N.
Proof. by case: n => // n; rewrite -divnMDl // /=; congr (_ %/ _)%N; lia. Qed.

Lemma dprod_vdm2 rs : dprod rs = (-1) ^+ ((size rs * (size rs).-1) %/ 2) * vdm2 rs.
Proof.
elim: rs => [|x s IH]; first by rewrite /dprod big_nil /= expr0 mulr1.
rewrite dprod_cons IH /= tri_succ exprD.
have -> : \prod_(y <- s) (y - x) = (-1) ^+ size s * \prod_(y <- s) (x - y).
  rewrite -(prod_const_seq s (-1)) -big_split /=; apply: eq_bigr => y _.
  by rewrite mulN1r opprB.
rewrite expr2; move: ((-1) ^+ size s) ((-1) ^+ (_ %/ _)) (\prod_(y <- s) _) (vdm2 s) => a b P V.
by rewrite !mulrA [P * a]mulrC -!mulrA; congr (_ * _); rewrite !mulrA [P * P * b]mulrC !mulrA.
Qed.

Lemma vdm2_index rs :
  vdm2 rs = \prod_(i < size rs) \prod_(j < size rs | (i < j)%N) (rs`_i - rs`_j) ^+ 2.
Proof.
elim: rs => [|x s IH]; first by rewrite big_ord0.
rewrite /= big_ord_recl /=; congr (_ * _).
- rewrite [RHS]big_mkcond big_ord_recl /= mul1r -prodrXl (big_nth 0) big_mkord.
  by apply: eq_bigr => j _.
- rewrite IH; apply: eq_bigr => i _.
  by rewrite [in RHS]big_mkcond big_ord_recl /= mul1r -big_mkcond.
Qed.

End Closed.

(** ** Res(A', A) for A = a prod (x - r_i), when deg A' = n - 1 (characteristic 0) *)
Lemma resultant_deriv_roots (F : closedFieldType) (a : F) (rs : seq F) : a != 0 -> (0 < size rs)%N ->
  size (ofroots a rs)^`() = size rs ->
  resultant (ofroots a rs)^`() (ofroots a rs) =
  a ^+ (2 * size rs).-1 * ((-1) ^+ ((size rs * (size rs).-1) %/ 2) * vdm2 rs).
Proof.
move=> a0 n0 sd.
have nzB : (ofroots a rs)^`() != 0 by rewrite -size_poly_gt0 sd.
rewrite (resultant_roots_eq a0 (erefl _) nzB) sd -dprod_vdm2.
have -> : \prod_(z <- rs) (ofroots a rs)^`().[z] = a ^+ size rs * dprod rs.
  rewrite /dprod -(prod_const_seq rs a) -big_split /=; apply: eq_bigr => z _.
  by rewrite /ofroots derivZ hornerZ.
rewrite mulrA -exprD; congr (_ ^+ _ * _).
by move: (size rs) n0 => n; lia.
Qed.

(** ** the model's discriminant *)
Theorem discriminant_root_differences m (f : seq Z) :
  ResProofs.canonb f = true -> ResProofs.len_ok f = true -> (1 < size f)%N ->
  exists d, discriminant m f = (true, Done d) /\
    forall rs : seq algC,
      map_poly ZtoC (Poly f) = ZtoC (lead_coef (Poly f)) *: \prod_(z <- rs) ('X - z%:P) ->
      size rs = (size f).-1 /\
      ZtoC d = ZtoC (lead_coef (Poly f)) ^+ (2 * size rs - 2)
               * \prod_(i < size rs) \prod_(j < size rs | (i < j)%N) (rs`_i - rs`_j) ^+ 2.
Proof.
move=> cf lf sf; have [d [Ed Hd]] := discriminant_spec m cf lf sf.
exists d; split=> // rs Ers.
have cf' : canonZ f by rewrite -canonb_canonZ.
set Q := Poly f in Hd Ers *.
have sQ : size Q = size f by rewrite /Q canon_size_Poly.
have sQ1 : (1 < size Q)%N by rewrite sQ.
have Q0 : Q != 0 by rewrite -size_poly_gt0; exact: ltn_trans sQ1.
set a := ZtoC (lead_coef Q) in Ers *.
have a0 : a != 0 by rewrite /a ZtoC_eq0 lead_coef_eq0.
have sC : size (map_poly ZtoC Q) = size Q by rewrite size_map_poly_id0 // ZtoC_eq0 lead_coef_eq0.
have srs : size rs = (size f).-1 by rewrite -sQ -sC Ers -/(ofroots a rs) size_ofroots.
split=> //.
have n0 : (0 < size rs)%N by rewrite srs; move: (size f) sf => n; lia.
have sQ' := size_derivZ sQ1.
have lQ' : ZtoC (lead_coef Q^`()) != 0.
  by rewrite ZtoC_eq0 lead_coef_eq0 -size_poly_gt0 sQ' sQ -srs.
have sd : size (ofroots a rs)^`() = size rs.
  by rewrite /ofroots -Ers deriv_map size_map_poly_id0 // sQ' sQ srs.
have := congr1 ZtoC Hd; rewrite !rmorphM rmorphX rmorphN rmorph1 /= -/a.
rewrite -/(resultant _ _) map_resultant_gen // -deriv_map Ers -/(ofroots a rs).
rewrite (resultant_deriv_roots a0 n0 sd) -vdm2_index.
have -> : ((size f).-1 * (size f).-1.-1 %/ 2 = (size rs * (size rs).-1) %/ 2)%N by rewrite srs.
move: ((-1) ^+ _) (sqrr_sign algCnumClosedField ((size rs * (size rs).-1) %/ 2)) (vdm2 rs) => e; rewrite expr2 => e2 V.
have -> : ((2 * size rs).-1 = (2 * size rs - 2).+1)%N by move: (size rs) n0 => n; lia.
rewrite exprS => h; apply: (mulIf a0).
by rewrite h mulrCA [e * (e * V)]mulrA e2 mul1r [a * _]mulrC mulrAC.
Qed.

(** the roots exist (algC is algebraically closed): the closed form with an existential root list *)
Corollary discriminant_root_differences_ex m (f : seq Z) :
  ResProofs.canonb f = true -> ResProofs.len_ok f = true -> (1 < size f)%N ->
  exists d (rs : seq algC),
    [/\ discriminant m f = (true, Done d),
        map_poly ZtoC (Poly f) = ZtoC (lead_coef (Poly f)) *: \prod_(z <- rs) ('X - z%:P),
        size rs = (size f).-1
      & ZtoC d = ZtoC (lead_coef (Poly f)) ^+ (2 * size rs - 2)
                 * \prod_(i < size rs) \prod_(j < size rs | (i < j)%N) (rs`_i - rs`_j) ^+ 2].
Proof.
move=> cf lf sf; have [d [Ed H]] := discriminant_root_differences m cf lf sf.
have [rs Ers] := closed_field_poly_normal (map_poly ZtoC (Poly f)).
have cf' : canonZ f by rewrite -canonb_canonZ.
have Q0 : Poly f != 0 by rewrite -size_poly_gt0 canon_size_Poly //; exact: ltn_trans sf.
rewrite lead_coef_map_id0 ?rmorph0 ?ZtoC_eq0 ?lead_coef_eq0 // in Ers.
by have [s1 s2] := H rs Ers; exists d, rs; split.
Qed.

(** a concrete instance of the hypothesis, for the non-vacuity example: x^2 - 3x + 2 = (x - 1)(x - 2) *)
Lemma roots_ex_poly :
  map_poly ZtoC (Poly [:: Zpos 2; Zneg 3; Zpos 1]) =
  ZtoC (lead_coef (Poly [:: Zpos 2; Zneg 3; Zpos 1])) *: \prod_(z <- [:: 1; 2%:R]) ('X - z%:P).
Proof.
have -> : lead_coef (Poly [:: Zpos 2; Zneg 3; Zpos 1]) = 1 by rewrite -(@zlast_lead [:: Zpos 2; Zneg 3; Zpos 1]).
rewrite rmorph1 scale1r !big_cons big_nil mulr1 /= !cons_poly_def !mul0r !add0r.
rewrite !(rmorphD, rmorphM) /= !map_polyX !map_polyC /=.
have -> : ZtoC (Zpos 1) = 1 by [].
have -> : ZtoC (Zpos 2) = 1 + 1 by [].
have -> : ZtoC (Zneg 3) = - (1 + (1 + 1)).
  by have -> : Zneg 3 = - Zpos 3 :> Z by []; rewrite rmorphN.
rewrite polyCN !polyCD polyC1.
by ring.
Qed.
