(** * DecompW5Max (C17, fifth wave): on a p-maximal order the product of the returned ideals is p O.

    Hypotheses of [prime_above_proper] plus: the stored basis b is an order in the sense of C06 ([is_order]: lower
    triangular stored basis, contains 1, [get_mult_table] returns) and is p-maximal ([p_maximal], C06).  Then for every
    factor g_i with e_i >= 2, g_i does not divide h = (f - prod g_j^e_j)/p modulo p (DecompW5Radical), so
    [DecompW5Top.product_ded_full] applies: prod P_i^e_i = p O.
    Style: ssreflect/MathComp. *)
From Coq Require Import ZArith List Lia Znumtheory.
From Coq Require Import QArith Qcanon.
From mathcomp Require Import all_ssreflect ssralg poly polydiv ssrint zmodp.
From RNT.Model Require Import Base Poly PolyModP LinAlg MultTable Order FactorModP Ideal PrimeDecomp.
From RNT.Model Require Hnf.
From RNT.Refine Require Import PolyModPArith PolyModPDivList FermatZ PolyZmod PolyModPDiv MonicZ PolyModPGcd FpPoly
  HenselProofs FactorNorm FactorProd FpTotal FmpField FmpSqf FmpProduct FmpIrred FmpDegree FmpSplit FmpFull FmpTotal FmpSafe FmpLists
  DecompDegree DecompW3Factors.
From RNT.Refine Require Import MatZ HnfSpec IdealBasic IdealMul IdealSpec IdealLaws IdealCapZ IdealInv.
From RNT.Refine Require Import PolyRefine PolyZ DecompW3Order DecompW3Proper DecompW3Top DecompW5Lattice DecompW5Top DecompW5Radical.
From RNT.Refine Require DecompW3Index DecompW3Solve OrderCanon AlgNormMx AlgNormOrder DecompW5Step Round2W3Driver Round2W4PZ.
From mathcomp Require Import ssrZ zify ring.
Set Implicit Arguments. Unset Strict Implicit. Unset Printing Implicit Defensive.
Import GRing.Theory.
Local Open Scope ring_scope.

Section Prime.
Variable p : Z.
Hypothesis Hp : Znumtheory.prime p.
Let Hp2 := prime_ge_2 _ Hp.
Let Hpp : (0 < p)%ZZ. Proof. lia. Qed.
Let Hp0 : p <> Z0. Proof. lia. Qed.

Notation pn := (pnat p).
Notation RP l := (redp pn (PZ l)).
Notation FP := (FProd p).

Definition PiRb (l : list (list Z * ideal * Z)) : {poly 'F_pn} := \prod_(x <- l) RP x.1.1.
Definition PiRz (l : list (list Z * ideal * Z)) : {poly Z} := \prod_(x <- l) PZ x.1.1.

Lemma redp_PiRz l : redp pn (PiRz l) = PiRb l.
Proof.
rewrite /PiRz /PiRb; elim: l => [|x l IH]; first by rewrite !big_nil redp1.
by rewrite !big_cons redpM IH.
Qed.

Lemma redp_PhiZ l : redp pn (PhiZ l) = FP (List.map factor_of l).
Proof.
rewrite /PhiZ; elim: l => [|[[g P] e] l IH] /=; first by rewrite big_nil redp1.
by rewrite big_cons redpM redpX IH.
Qed.

Lemma PiRb_dvd l : List.Forall (fun x : list Z * ideal * Z => (1 <= x.2)%ZZ) l -> PiRb l %| redp pn (PhiZ l).
Proof.
rewrite /PiRb /PhiZ; elim=> [|x l' e1 _ IH]; first by rewrite !big_nil redp1 dvdpp.
rewrite !big_cons redpM redpX; apply: dvdp_mul => //.
have -> : Z.to_nat x.2 = (Z.to_nat x.2).-1.+1 by lia.
by rewrite exprS dvdp_mulr.
Qed.

Lemma FP_pow_dvd fs g e : List.In (g, e) fs -> RP g ^+ Z.to_nat e %| FP fs.
Proof.
elim: fs => [|[g' e'] fs IH] //= [[-> ->]|inl]; first exact: dvdp_mulr.
by apply: dvdp_mull; apply: IH.
Qed.

(** the list of (irreducible factor, multiplicity) over F_p *)
Definition glist (gs : list (list Z * ideal * Z)) : list ({poly 'F_pn} * nat) :=
  List.map (fun x : list Z * ideal * Z => (RP x.1.1, Z.to_nat x.2)) gs.

Lemma Fprod_glist gs : Fprod (glist gs) = FP (List.map factor_of gs).
Proof.
rewrite /Fprod; elim: gs => [|[[g P] e] l IH] /=; first by rewrite big_nil.
by rewrite big_cons IH.
Qed.

Lemma Rprod_glist gs : Rprod (glist gs) = PiRb gs.
Proof.
rewrite /Rprod /PiRb; elim: gs => [|[[g P] e] l IH] /=; first by rewrite !big_nil.
by rewrite !big_cons IH.
Qed.

(** ** the context of a returned run, n = m + 1 *)
Variables (f : list Z) (m : nat) (b : list (list Qc)) (t : table) (Sl : list (list Z)).
Notation n := m.+1.
Hypothesis Hf : lmonic f.
Hypothesis Hl : (Z.of_nat (length f) <= two64)%ZZ.
Hypothesis Lf : length f = n.+1.
Hypothesis Sb : OrderCanon.qshape n n b.
Hypothesis B0 : List.nth 0 b [::] = Q2Qc 1 :: List.repeat (Q2Qc 0) (n - 1).
Hypothesis gt : get_mult_table b f = Done t.
Hypothesis SS : shape n n Sl.
Hypothesis ES : OrderCanon.qmmul n Sl b = identity fopsQc n.
Hypothesis IO : Round2W3Driver.is_order f n b.
Hypothesis PM : Round2W4PZ.p_maximal f n p b.

Let n0 : (1 <= n)%coq_nat. Proof. lia. Qed.
Let cf : canonZ f.
Proof.
rewrite /canonZ /canon; move: Hf; rewrite /lmonic Llast_eq.
by case: (f) Lf => [|c f'] //= _ ->.
Qed.
Let szf : size f = n.+1 := Lf.
Let monf : seq.nth 0%Z f n = 1%Z.
Proof.
by have := lmonic_nth Hf; rewrite Lf Lnth_eq subn1.
Qed.
Let sb : size b = n := proj1 Sb.
Let rb : forall i, (i < n)%nat -> size (seq.nth [::] b i) = n.
Proof.
move=> i hi; have [lb wb] := Sb.
move/List.Forall_forall: wb; apply; rewrite -Lnth_eq; apply: List.nth_In.
by rewrite lb; apply/ltP.
Qed.
Let w0 : first_is_one b.
Proof. by apply: (@first_row_one b (n - 1)); rewrite -Lnth_eq. Qed.
Let sS : forall k, (k < n)%nat -> size (seq.nth [::] Sl k) = n.
Proof.
move=> k hk; have [lS wS] := SS.
move/List.Forall_forall: wS; apply; rewrite -Lnth_eq; apply: List.nth_In.
by rewrite lS; apply/ltP.
Qed.
Let HS : forall k, (k < n)%nat ->
  OrderCanon.qlincomb n (seq.nth [::] Sl k) b = seq.nth [::] (identity fopsQc n) k.
Proof.
move=> k hk; rewrite -ES /OrderCanon.qmmul (nth_map [::]) //.
by have [lS _] := SS; rewrite -[size Sl]/(length Sl) lS.
Qed.

Notation pe0 := (p :: List.repeat 0%Z (n - 1)).

Lemma size_RPf' : size (RP f) = n.+1.
Proof. by rewrite (RP_monic_size p Hf) Lf. Qed.

(** [P] on a p-maximal order: every repeated factor is prime to h modulo p *)
Theorem pmax_ded md r gs r' :
  decompose_full md f b t p r = Done (gs, r') ->
  forall x, List.In x gs -> (2 <= x.2)%ZZ -> ded p (PZ (ded_h p f (List.map factor_of gs))) x.1.1.
Proof.
move=> E x ix ex.
have EF := run_product Hp Hf Hl E.
have [d [A [Hscale nd ND Fa]]] := run_specs Hp Hf Hl Lf n0 Sb B0 gt SS ES E.
have Fa' := (List.Forall_forall _ _).1 Fa.
have /factors_of_full Ef := E.
have [_ G Pos _ _] := factor_facts Hp Hf Hl Ef.
have Pos' : List.Forall (fun y : list Z * ideal * Z => (1 <= y.2)%ZZ) gs.
  apply/List.Forall_forall => y iy.
  by move/List.Forall_forall: Pos => /(_ (factor_of y) (List.in_map _ _ _ iy)).
have eF := run_h Hp EF.
have [T [k [i_p [GT [Hpow [wip [RAD MP]]]]]]] := DecompW5Step.pmax_multiplier f n b p cf Lf n0 Hp IO PM.
have eT : T = t by move: GT; rewrite gt => -[].
rewrite eT in RAD MP.
(* the radical polynomial *)
have f0 : RP f != 0 by rewrite -size_poly_gt0 size_RPf'.
have ele y : List.In y gs -> (Z.to_nat y.2 <= n)%nat.
  move=> iy; have [Ly [My Ry] Iy _ _] := Fa' _ iy.
  have := FP_pow_dvd (List.in_map factor_of _ _ iy); rewrite EF /= => /(dvdp_leq f0).
  rewrite size_RPf' => le1.
  have := size_exp (RP y.1.1) (Z.to_nat y.2); rewrite (reduced_size Hp Ry).
  move: le1; move: (size (RP y.1.1 ^+ Z.to_nat y.2)) => s1 le1 es.
  have : ((length y.1.1).-1 * Z.to_nat y.2 <= n)%nat by rewrite -es; move: le1; clear; lia.
  move: Ly; move: (length y.1.1) (Z.to_nat y.2) => a c La; clear -La; nia.
pose pp := Z.to_nat p.
have nq : (n <= expn pp k)%nat.
  apply/leP; move: Hpow; rewrite FermatBridge.expn_pow.
  have -> : (p ^ Z.of_nat k)%ZZ = Z.of_nat (Nat.pow pp k) by rewrite Nat2Z.inj_pow /pp; congr Z.pow; lia.
  by lia.
have HR1 : RP f %| PiRb gs ^+ expn pp k.
  rewrite -EF -Fprod_glist -Rprod_glist; apply: Fprod_dvd_Rpow => z /List.in_map_iff [y [<- iy]] /=.
  exact: leq_trans (ele _ iy) nq.
have HP : List.ForallOrdPairs (fun x y : list Z * ideal * Z => coprimep (RP x.1.1) (RP y.1.1)) gs.
  apply: ForallOrdPairs_of ND => a c /Fa' [La [Ma Ra] Ia _ _] /Fa' [Lc [Mc Rc] Ic _ _] ne.
  apply: irred_coprime; first exact: Ia.
  apply/negP => dv; apply: ne.
  exact: (dvd_same Hp Lf n0 Sb SS ES Ma Ra La Mc Rc Ic dv).
have HR2 : forall X : {poly 'F_pn}, RP f %| X ^+ expn pp k -> PiRb gs %| X.
  move=> X; rewrite -EF -Fprod_glist -Rprod_glist; apply: Rprod_dvd.
    move=> z /List.in_map_iff [y [<- iy]] /=; have [_ _ Iy _ _] := Fa' _ iy; split; first exact: Iy.
    by move/List.Forall_forall: Pos' => /(_ _ iy); move=> h1; apply/ltP; lia.
  rewrite /glist; elim: HP => [|a l Ha _ IH]; first exact: List.FOP_nil.
  by apply: List.FOP_cons => //; apply/List.Forall_forall => z /List.in_map_iff [y [<- iy]] /=;
     move/List.Forall_forall: Ha; apply.
(* split the list at x *)
have [l1 [l2 egs]] := List.in_split _ _ ix.
have [Lx [Mx Rx] Ix _ _] := Fa' _ ix.
pose e := (Z.to_nat x.2 - 2)%nat.
have ee : Z.to_nat x.2 = e.+2 by rewrite /e; lia.
have Pos1 : List.Forall (fun y : list Z * ideal * Z => (1 <= y.2)%ZZ) l1.
  by apply/List.Forall_forall => y iy; move/List.Forall_forall: Pos'; apply; rewrite egs; apply/List.in_or_app; left.
have Pos2 : List.Forall (fun y : list Z * ideal * Z => (1 <= y.2)%ZZ) l2.
  by apply/List.Forall_forall => y iy; move/List.Forall_forall: Pos'; apply; rewrite egs; apply/List.in_or_app; right; right.
have eF' : PZ f = PZ x.1.1 ^+ e.+2 * (PhiZ l1 * PhiZ l2) + p%:P * PZ (ded_h p f (List.map factor_of gs)).
  rewrite {1}eF; congr (_ + _).
  rewrite /PhiZ egs -[l1 ++ x :: l2]/(l1 ++ x :: l2)%SEQ big_cat big_cons /= ee.
  by ring.
have eR : PiRb gs = RP x.1.1 * redp pn (PiRz l1 * PiRz l2).
  rewrite redpM !redp_PiRz /PiRb egs -[l1 ++ x :: l2]/(l1 ++ x :: l2)%SEQ big_cat big_cons /=.
  by ring.
have RC : redp pn (PiRz l1 * PiRz l2) %| redp pn (PhiZ l1 * PhiZ l2).
  by rewrite !redpM !redp_PiRz; apply: dvdp_mul; apply: PiRb_dvd.
have sg : (1 < size (RP x.1.1))%nat by rewrite (reduced_size Hp Rx); apply/ltP; lia.
apply: irred_coprime; first exact: Ix.
exact: (multiplier_not_dvd Hp cf szf monf sb rb w0 gt Hscale nd sS HS Hpow wip RAD HR1 HR2 eF' eR RC sg MP).
Qed.

(** [P] Dedekind's criterion is necessary: on a p-maximal order the boolean flag is true *)
Theorem pmax_flag md r gs r' :
  decompose_full md f b t p r = Done (gs, r') -> dedekind_flag p f (List.map factor_of gs) = true.
Proof.
move=> E; apply/forallb_forall => ge /List.in_map_iff [x [<- ix]] /=.
case: Z.ltb_spec => // ex /=.
have [d [A [Hscale nd ND Fa]]] := run_specs Hp Hf Hl Lf n0 Sb B0 gt SS ES E.
have [Lx [Mx Rx] Ix _ _] := (List.Forall_forall _ _).1 Fa _ ix.
apply: (ded_test_of_ndvd Hp Mx).
have := pmax_ded E ix ex; rewrite /ded => cop.
apply/negP => dv.
rewrite coprimep_sym in cop.
have := coprimep_dvdr dv cop; rewrite coprimepp (reduced_size Hp Rx) => /eqP sz.
by move: Lx; rewrite sz; lia.
Qed.

(** [P] on a p-maximal order the product of the returned ideals is p O *)
Theorem product_pmax_full md r gs r' md' :
  decompose_full md f b t p r = Done (gs, r') ->
  exists I, [/\ ideal_product md' t (List.map proj_full gs) = Done I, principal md' t pe0 = Done I,
                norm I = Done (p ^ Z.of_nat n)%ZZ
              & forall v, In_rowspanZ n v (i_hnf I) <-> exists2 w, length w = n & v = vscale p w].
Proof.
move=> E.
exact: (product_ded_full Hp Hf Hl Lf n0 Sb B0 gt SS ES md' E (pmax_ded E)).
Qed.

End Prime.

(** ** the statement about [decompose] (list vocabulary, for Props/C17.v) *)
(** [P] on a p-maximal order the Dedekind flag is true *)
Theorem pmax_flag_std md f b t Sl p r gs r' :
  Znumtheory.prime p -> lmonic f -> (Z.of_nat (length f) <= two64)%ZZ ->
  let n := length b in
  length f = S n -> (1 <= n)%coq_nat -> OrderCanon.qshape n n b ->
  List.nth 0 b [::] = Q2Qc 1 :: List.repeat (Q2Qc 0) (n - 1) ->
  get_mult_table b f = Done t -> shape n n Sl -> OrderCanon.qmmul n Sl b = identity fopsQc n ->
  Round2W3Driver.is_order f n b -> Round2W4PZ.p_maximal f n p b ->
  decompose_full md f b t p r = Done (gs, r') -> dedekind_flag p f (List.map factor_of gs) = true.
Proof.
move=> Hp Hf Hl n; clearbody n; case: n => [|m] Lf n0 Sb B0 gt SS ES IO PM; first by lia.
exact: (pmax_flag Hp Hf Hl Lf Sb B0 gt SS ES IO PM).
Qed.

Theorem product_pmax_std md f b t Sl p r res r' md' :
  Znumtheory.prime p -> lmonic f -> (Z.of_nat (length f) <= two64)%ZZ ->
  let n := length b in
  length f = S n -> (1 <= n)%coq_nat -> OrderCanon.qshape n n b ->
  List.nth 0 b [::] = Q2Qc 1 :: List.repeat (Q2Qc 0) (n - 1) ->
  get_mult_table b f = Done t -> shape n n Sl -> OrderCanon.qmmul n Sl b = identity fopsQc n ->
  Round2W3Driver.is_order f n b -> Round2W4PZ.p_maximal f n p b ->
  decompose md f b t p r = Done (res, r') ->
  exists I,
    ideal_product md' t res = Done I /\ principal md' t (p :: List.repeat 0%Z (n - 1)) = Done I /\
    norm I = Done (p ^ Z.of_nat n)%ZZ /\
    forall v, In_rowspanZ n v (i_hnf I) <-> exists w, length w = n /\ v = vscale p w.
Proof.
move=> Hp Hf Hl n; clearbody n; case: n => [|m] Lf n0 Sb B0 gt SS ES IO PM; first by lia.
move=> /decompose_of_full [gs E ->].
have [I [EI PI NI SI]] := product_pmax_full Hp Hf Hl Lf Sb B0 gt SS ES IO PM md' E.
exists I; split=> //; split=> //; split=> // v; split.
  by move=> /SI [w lw ->]; exists w.
by move=> [w [lw ->]]; apply/SI; exists w.
Qed.
