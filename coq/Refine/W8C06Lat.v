(** * W8C06Lat (C06, eighth wave): lattices in K[x]/(F), K the fraction field of Z; the maximal order is unique.

      A lattice is given by an invertible n x n matrix B over K (rows = basis vectors in the power basis):
      [inL B v]: v is an integer combination of the rows of B; [sub_lat A B]: L(A) is inside L(B).
      [closedF B]: L(B) is closed under the product of K[x]/(F); [has_one B]: 1 is in L(B);
      [maximalF B]: every full-rank closed lattice that contains L(B) is inside L(B).
      The product module L(B1) L(B2) (integer combinations of the products b1_i b2_j) of two closed lattices
      containing 1 contains both, is closed (commutativity), is finitely generated and of full rank, hence has a basis
      (W8C06Hnf.basis_exists after clearing denominators).  So a maximal B1 contains every closed B2 containing 1
      ([max_contains]) and two maximal ones are equal ([maximal_unique]).
      Style: ssreflect/MathComp; K an arbitrary field with an injective ring morphism from Z such that every element
      is a quotient of two images (instantiated with Qc in W8C06Bridge). *)
From Coq Require Import ZArith.
From mathcomp Require Import all_ssreflect ssralg zmodp poly polydiv matrix mxalgebra mxpoly.
From mathcomp Require Import ssrZ zify.
From RNT.Refine Require Import W8C06Alg.
From RNT.Refine Require W8C06Hnf IdealW6Nak.
Set Implicit Arguments.
Unset Strict Implicit.
Unset Printing Implicit Defensive.
Import GRing.Theory.
Local Close Scope Z_scope.
Local Open Scope ring_scope.

Section Lat.
Variable K : fieldType.
Variable iota : {rmorphism Z -> K}.
Hypothesis iota_inj : injective iota.
Hypothesis frac : forall x : K, exists2 d : Z, d != 0 & exists z : Z, iota d * x = iota z.
Variables (F : {poly K}) (n : nat).
Hypothesis szF : size F = n.+1.
Hypothesis n0 : (0 < n)%N.

Notation zr := (map_mx iota).

Lemma iota_eq0 (z : Z) : (iota z == 0) = (z == 0).
Proof. by rewrite -(rmorph0 iota) (inj_eq iota_inj). Qed.

Definition inL (B : 'M[K]_n) (v : 'rV[K]_n) : Prop := exists c : 'rV[Z]_n, v = zr c *m B.
Definition sub_lat (A B : 'M[K]_n) : Prop := exists U : 'M[Z]_n, A = zr U *m B.

Lemma inL0 B : inL B 0.
Proof. by exists 0; rewrite map_mx0 mul0mx. Qed.

Lemma inLD B u v : inL B u -> inL B v -> inL B (u + v).
Proof. by move=> [c ->] [c' ->]; exists (c + c'); rewrite map_mxD mulmxDl. Qed.

Lemma inLZ B z v : inL B v -> inL B (iota z *: v).
Proof. by move=> [c ->]; exists (z *: c); rewrite map_mxZ -scalemxAl. Qed.

Lemma inL_sum B (I : Type) (r : seq I) (P : pred I) (E : I -> 'rV[K]_n) :
  (forall i, inL B (E i)) -> inL B (\sum_(i <- r | P i) E i).
Proof. by move=> h; elim/big_ind: _ => //; [exact: inL0 | exact: inLD]. Qed.

Lemma inL_row B i : inL B (row i B).
Proof. by exists (delta_mx 0 i); rewrite map_delta_mx -rowE. Qed.

Lemma zr_sum_row m (c : 'rV[Z]_m) (A : 'M[K]_(m, n)) : zr c *m A = \sum_k iota (c 0 k) *: row k A.
Proof. by rewrite mulmx_sum_row; apply: eq_bigr => k _; rewrite mxE. Qed.

Lemma inL_expand B v : inL B v -> exists c : 'rV[Z]_n, v = \sum_i iota (c 0 i) *: row i B.
Proof. by move=> [c ->]; exists c; exact: zr_sum_row. Qed.

Lemma sub_lat_inL A B v : sub_lat A B -> inL A v -> inL B v.
Proof. by move=> [U ->] [c ->]; exists (c *m U); rewrite mulmxA -map_mxM. Qed.

Lemma sub_lat_rows A B : (forall i, inL B (row i A)) -> sub_lat A B.
Proof.
move=> h; have [cf hcf] := IdealW6Nak.fin_choice_ord h.
exists (\matrix_(i < n) cf i); apply/row_matrixP => i.
by rewrite row_mul -map_row rowK -hcf.
Qed.

Lemma sub_lat_row A B i : sub_lat A B -> inL B (row i A).
Proof. by move=> h; apply: (sub_lat_inL h); exact: inL_row. Qed.

Lemma sub_lat_refl A : sub_lat A A.
Proof. by exists 1%:M; rewrite map_scalar_mx rmorph1 mul1mx. Qed.

Lemma sub_lat_mulr A B (P : 'M[K]_n) : sub_lat A B -> sub_lat (A *m P) (B *m P).
Proof. by move=> [U ->]; exists U; rewrite mulmxA. Qed.

Lemma inL_mulr B (P : 'M[K]_n) v : inL B v -> inL (B *m P) (v *m P).
Proof. by move=> [c ->]; exists c; rewrite mulmxA. Qed.

(** two lattices inside each other: the squares of the determinants agree *)
Lemma sub_lat_antisym_det A B : A \in unitmx -> sub_lat A B -> sub_lat B A -> \det A ^+ 2 = \det B ^+ 2.
Proof.
move=> uA [U eA] [V eB].
have eUV : zr (U *m V) = 1%:M.
  by apply: (can_inj (mulmxK uA)); rewrite mul1mx map_mxM -mulmxA -eB -eA.
have dUV : \det U * \det V = 1.
  apply: iota_inj; rewrite -det_mulmx -det_map_mx eUV det1 rmorph1.
  by [].
have d2 : (\det U) ^+ 2 = 1.
  have [->|->] : \det U = 1%Z \/ \det U = (-1)%Z by apply: (Z.mul_eq_1 _ (\det V)); exact: dUV.
    by rewrite expr1n.
  by [].
by rewrite eA det_mulmx det_map_mx exprMn -rmorphX d2 rmorph1 mul1r.
Qed.

(** ** closed lattices *)
Definition closedF (B : 'M[K]_n) : Prop := forall i j, inL B (mulF F (row i B) (row j B)).
Definition has_one (B : 'M[K]_n) : Prop := inL B (oneF K n).
Definition maximalF (B : 'M[K]_n) : Prop :=
  forall B' : 'M[K]_n, B' \in unitmx -> closedF B' -> sub_lat B B' -> sub_lat B' B.

Lemma closedF_inL B u v : closedF B -> inL B u -> inL B v -> inL B (mulF F u v).
Proof.
move=> cB /inL_expand [c ->] /inL_expand [c' ->].
rewrite mulF_suml; apply: inL_sum => i; rewrite mulFZl; apply: inLZ.
by rewrite mulF_sumr; apply: inL_sum => j; rewrite mulFZr; apply: inLZ; exact: cB.
Qed.

(** ** integer span of a finite family *)
Definition zspan m (g : 'I_m -> 'rV[K]_n) (v : 'rV[K]_n) : Prop :=
  exists c : 'rV[Z]_m, v = \sum_k iota (c 0 k) *: g k.

Lemma zspan0 m (g : 'I_m -> 'rV[K]_n) : zspan g 0.
Proof. by exists 0; rewrite big1 // => k _; rewrite mxE rmorph0 scale0r. Qed.

Lemma zspanD m (g : 'I_m -> 'rV[K]_n) u v : zspan g u -> zspan g v -> zspan g (u + v).
Proof.
move=> [c ->] [c' ->]; exists (c + c'); rewrite -big_split /=; apply: eq_bigr => k _.
by rewrite mxE rmorphD scalerDl.
Qed.

Lemma zspanZ m (g : 'I_m -> 'rV[K]_n) z v : zspan g v -> zspan g (iota z *: v).
Proof.
move=> [c ->]; exists (z *: c); rewrite scaler_sumr; apply: eq_bigr => k _.
by rewrite mxE rmorphM scalerA.
Qed.

Lemma zspan_sum m (g : 'I_m -> 'rV[K]_n) (I : Type) (r : seq I) (P : pred I) (E : I -> 'rV[K]_n) :
  (forall i, zspan g (E i)) -> zspan g (\sum_(i <- r | P i) E i).
Proof. by move=> h; elim/big_ind: _ => //; [exact: zspan0 | exact: zspanD]. Qed.

Lemma zspan_gen m (g : 'I_m -> 'rV[K]_n) k : zspan g (g k).
Proof.
exists (delta_mx 0 k); rewrite (bigD1 k) //= mxE !eqxx rmorph1 scale1r big1 ?addr0 // => j ne.
by rewrite mxE eqxx (negbTE ne) rmorph0 scale0r.
Qed.

(** ** clearing denominators *)
Lemma denoms (s : seq K) : exists2 d : Z, d != 0 & forall x, x \in s -> exists z, iota d * x = iota z.
Proof.
elim: s => [|x s [d d0 hd]]; first by exists 1.
have [e e0 [z ez]] := frac x.
exists (e * d); first by rewrite mulf_neq0.
move=> y; rewrite inE => /orP[/eqP->|/hd [w ew]].
  by exists (z * d); rewrite !rmorphM mulrAC ez.
by exists (e * w); rewrite !rmorphM -mulrA ew.
Qed.

Lemma denoms_mx m (X : 'M[K]_(m, n)) :
  exists2 d : Z, d != 0 & exists X' : 'M[Z]_(m, n), iota d *: X = zr X'.
Proof.
have [d d0 hd] := denoms [seq X ij.1 ij.2 | ij <- enum [finType of 'I_m * 'I_n]].
exists d => //.
have h i j : {z | iota d * X i j == iota z}.
  apply: sigW; have [|z ez] := hd (X i j); last by exists z; apply/eqP.
  by apply/mapP; exists (i, j) => //; rewrite mem_enum.
exists (\matrix_(i, j) sval (h i j)); apply/matrixP => i j; rewrite !mxE.
exact/eqP/(svalP (h i j)).
Qed.

(** ** the product module of two closed lattices *)
Section Product.
Variables B1 B2 : 'M[K]_n.
Hypothesis uB1 : B1 \in unitmx.
Hypothesis cB1 : closedF B1.
Hypothesis cB2 : closedF B2.
Hypothesis one1 : has_one B1.
Hypothesis one2 : has_one B2.

Let I := [finType of 'I_n * 'I_n].
Let m := #|I|.
Definition pgen (k : 'I_m) : 'rV[K]_n := mulF F (row (enum_val k).1 B1) (row (enum_val k).2 B2).
Definition Sp := zspan pgen.

Lemma Sp_double (a : 'M[Z]_n) :
  Sp (\sum_i \sum_j iota (a i j) *: mulF F (row i B1) (row j B2)).
Proof.
exists (\row_k a (enum_val k).1 (enum_val k).2).
rewrite pair_bigA /= (reindex (@enum_val I I)); last by apply: onW_bij; exact: enum_val_bij.
by apply: eq_bigr => k _; rewrite mxE.
Qed.

Lemma Sp_mul_lat x y : inL B1 x -> inL B2 y -> Sp (mulF F x y).
Proof.
move=> /inL_expand [c ->] /inL_expand [c' ->].
have -> : mulF F (\sum_i iota (c 0 i) *: row i B1) (\sum_j iota (c' 0 j) *: row j B2)
        = \sum_i \sum_j iota ((\matrix_(i, j) (c 0 i * c' 0 j)) i j) *: mulF F (row i B1) (row j B2).
  rewrite mulF_suml; apply: eq_bigr => i _; rewrite mulFZl mulF_sumr scaler_sumr; apply: eq_bigr => j _.
  by rewrite mulFZr scalerA mxE rmorphM.
exact: Sp_double.
Qed.

Lemma Sp_closed u v : Sp u -> Sp v -> Sp (mulF F u v).
Proof.
move=> [a ->] [b ->].
rewrite mulF_suml; apply: zspan_sum => k; rewrite mulFZl; apply: zspanZ.
rewrite mulF_sumr; apply: zspan_sum => l; rewrite mulFZr; apply: zspanZ.
rewrite /pgen mulFACA //; apply: Sp_mul_lat; [exact: cB1 | exact: cB2].
Qed.

Lemma Sp_lat1 x : inL B1 x -> Sp x.
Proof. by move=> hx; rewrite -[x](mul1F szF n0) mulFC; exact: Sp_mul_lat. Qed.

Lemma Sp_lat2 y : inL B2 y -> Sp y.
Proof. by move=> hy; rewrite -[y](mul1F szF n0); exact: Sp_mul_lat. Qed.

(** [P] the product module has a basis *)
Theorem product_basis :
  exists B' : 'M[K]_n, B' \in unitmx /\ forall v, inL B' v <-> Sp v.
Proof.
pose Gq : 'M[K]_(m, n) := \matrix_(k < m) (pgen k *m invmx B1).
have [d d0 [Gz eGz]] := denoms_mx Gq.
have id0 : iota d != 0 by rewrite iota_eq0.
have rowG k : zr (row k Gz) *m B1 = iota d *: pgen k.
  by rewrite map_row -eGz linearZ /= rowK -scalemxAl mulmxKV.
have comb (c : 'rV[Z]_m) : zr c *m (zr Gz *m B1) = iota d *: \sum_k iota (c 0 k) *: pgen k.
  rewrite zr_sum_row scaler_sumr; apply: eq_bigr => k _.
  by rewrite row_mul -map_row rowG !scalerA mulrC.
have dz : d <> 0%Z by apply/eqP.
have [H [[X eX] hH]] := W8C06Hnf.basis_exists Gz n0 dz.
pose B' : 'M[K]_n := (iota d)^-1 *: (zr H *m B1).
have dH : \det H != 0.
  apply/eqP => e0; have := congr1 (fun A : 'M[Z]_n => \det A) eX.
  rewrite det_mulmx e0 mulr0 det_scalar => /esym/eqP.
  by rewrite expf_eq0 (negbTE d0) andbF.
have uB' : B' \in unitmx.
  rewrite unitmxE unitfE detZ det_mulmx det_map_mx !mulf_neq0 ?expf_neq0 ?invr_eq0 ?iota_eq0 //.
  by rewrite -unitfE -unitmxE.
have eB' (c0 : 'rV[Z]_n) : zr c0 *m B' = (iota d)^-1 *: (zr (c0 *m H) *m B1).
  by rewrite /B' -scalemxAr mulmxA -map_mxM.
exists B'; split=> // v; split.
  move=> [c0 ->]; rewrite eB'.
  have [h1 _] := hH (c0 *m H).
  have [c [c' e]] : exists (c : 'rV[Z]_m) (c' : 'rV[Z]_n), c0 *m H = c *m Gz + d *: c' by apply: h1; exists c0.
  have -> : zr (c0 *m H) *m B1 = iota d *: (\sum_k iota (c 0 k) *: pgen k + zr c' *m B1).
    by rewrite e map_mxD mulmxDl map_mxM -mulmxA comb map_mxZ -scalemxAl scalerDr.
  rewrite scalerA mulVf // scale1r; apply: zspanD; first by exists c.
  by apply: Sp_lat1; exists c'.
move=> [c ->].
have [_ h2] := hH (c *m Gz).
have [c0 e] : exists c0 : 'rV[Z]_n, c *m Gz = c0 *m H by apply: h2; exists c, 0; rewrite scaler0 addr0.
exists c0; rewrite eB' -e map_mxM -mulmxA comb scalerA mulVf // scale1r.
by [].
Qed.

End Product.

(** ** [P] a maximal closed lattice containing 1 contains every closed lattice containing 1 *)
Theorem max_contains (B1 B2 : 'M[K]_n) :
  B1 \in unitmx -> closedF B1 -> closedF B2 -> has_one B1 -> has_one B2 -> maximalF B1 -> sub_lat B2 B1.
Proof.
move=> uB1 cB1 cB2 o1 o2 mx.
have [B' [uB' hB']] := product_basis uB1 o2.
have cB' : closedF B'.
  move=> i j; apply/hB'; apply: Sp_closed => //; apply/hB'; exact: inL_row.
have s1 : sub_lat B1 B'.
  by apply: sub_lat_rows => i; apply/hB'; apply: Sp_lat1 => //; exact: inL_row.
have s' := mx B' uB' cB' s1.
apply: sub_lat_rows => i; apply: (sub_lat_inL s'); apply/hB'; apply: Sp_lat2 => //.
exact: inL_row.
Qed.

Theorem maximal_unique (B1 B2 : 'M[K]_n) :
  B1 \in unitmx -> B2 \in unitmx -> closedF B1 -> closedF B2 -> has_one B1 -> has_one B2 ->
  maximalF B1 -> maximalF B2 -> sub_lat B1 B2 /\ sub_lat B2 B1.
Proof. by move=> u1 u2 c1 c2 o1 o2 m1 m2; split; exact: max_contains. Qed.

End Lat.
