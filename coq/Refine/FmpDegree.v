(** * C08 (second wave): correctness of the distinct-degree stage [degree] (ssreflect).

    For a square-free input over F_p every returned pair (a, d) has all its irreducible factors of
    degree exactly d. Loop invariant: v is square-free, all irreducible factors of v have degree > d,
    and w = X^(p^d) modulo v. Uses: an irreducible g divides X^(p^deg g) - X, and an irreducible
    divisor of X^(p^d) - X has degree <= d ([FmpIrred]). Without the square-free hypothesis:
    every a_d produced by the loop divides X^(p^d) - X. *)
From Coq Require Import ZArith List Lia Znumtheory.
From mathcomp Require Import all_ssreflect ssralg poly polydiv ssrint zmodp.
From RNT.Model Require Import Base Poly PolyModP FactorModP.
From RNT.Refine Require Import PolyModPArith PolyModPDivList FermatZ PolyZmod PolyModPDiv MonicZ PolyModPGcd FpPoly FactorNorm FpTotal FmpField FmpSqf FmpIrred.
From mathcomp Require Import ssrZ zify ring.
Set Implicit Arguments. Unset Strict Implicit. Unset Printing Implicit Defensive.
Import GRing.Theory.
Local Open Scope ring_scope.

Lemma lt_neq_succ (a b : nat) : (a < b)%nat -> b <> a.+1 -> (a.+1 < b)%nat.
Proof. lia. Qed.

Section Prime.
Variable p : Z.
Hypothesis Hp : Znumtheory.prime p.
Let Hp2 := prime_ge_2 _ Hp.
Let Hpp : (0 < p)%ZZ. Proof. lia. Qed.
Let Hp0 : p <> Z0. Proof. lia. Qed.

Notation n := (pnat p).
Notation RP l := (redp n (PZ l)).
Let n_prime := n_prime Hp.
Let n_gt1 : (1 < n)%nat. Proof. exact: prime_gt1 n_prime. Qed.

Implicit Types (f g h : {poly 'F_n}).

(** every irreducible divisor has degree d / degree > d *)
Definition degs_all f (d : nat) : Prop :=
  forall g, irreducible_poly g -> g %| f -> (size g).-1 = d.
Definition degs_gt f (d : nat) : Prop :=
  forall g, irreducible_poly g -> g %| f -> (d < (size g).-1)%nat.

Lemma degs_all_dvd f f' d : f' %| f -> degs_all f d -> degs_all f' d.
Proof. move=> D H g I G. apply: H I _. exact: dvdp_trans G D. Qed.

Lemma degs_gt_dvd f f' d : f' %| f -> degs_gt f d -> degs_gt f' d.
Proof. move=> D H g I G. apply: H I _. exact: dvdp_trans G D. Qed.

Lemma degs_all_unit f d : f %= 1 -> degs_all f d.
Proof.
  move=> U g [S _] G. exfalso. have : g %| 1 by rewrite -(eqp_dvdr _ U).
  rewrite dvdp1 => /eqP E. by rewrite E in S.
Qed.

(** A non-constant polynomial all of whose irreducible factors have degree > d, of degree
    < 2 d + 2, is irreducible. *)
Lemma degs_gt_irred f d :
  (1 < size f)%nat -> degs_gt f d -> ((size f).-1 < 2 * d + 2)%nat -> irreducible_poly f.
Proof.
  move=> S G L. have [g Ig Dg] := irred_dvd_exists S.
  have Nf : f != 0 by rewrite -size_poly_gt0; lia.
  have /dvdpP [h Eh] := Dg.
  have Nh : h != 0 by apply: contraNneq Nf => E; rewrite Eh E mul0r.
  have Ng := irredp_neq0 Ig.
  have Sg := G g Ig Dg.
  have Sm := size_mul Nh Ng. rewrite -Eh in Sm.
  apply: (irred_eqp _ Ig). rewrite Eh -{1}[g]mul1r. apply: eqp_mulr. rewrite eqp_sym -size_poly_eq1.
  apply/negPn/negP => S1.
  have Sh : (1 < size h)%nat.
  { move: Nh S1. rewrite -size_poly_gt0. move: (size h) => sh. by case: sh => [|[|sh]]. }
  have [g' Ig' Dg'] := irred_dvd_exists Sh.
  have Dg'f : g' %| f by rewrite Eh; exact: dvdp_mulr.
  have Sg' := G g' Ig' Dg'f.
  have L' := dvdp_leq Nh Dg'.
  move: Sm L Sg Sg' L'. move: (size f) (size h) (size g) (size g') => sf sh sg sg'. lia.
Qed.

Lemma RP_poly_x : RP poly_x = 'X.
Proof.
  have -> : poly_x = [:: Z0; 1%ZZ] by [].
  rewrite !PZ_cons PZ_nil mul0r add0r polyC0 addr0 polyC1 mul1r. exact: map_polyX.
Qed.

Lemma dvdp_sub_exp (v a b : {poly 'F_n}) k : v %| a - b -> v %| a ^+ k - b ^+ k.
Proof. move=> D. rewrite subrXX. exact: dvdp_mulr. Qed.

(** one division of reduced polynomials: the remainder is congruent to the dividend *)
Lemma divrem_RP a b q r :
  reduced p a -> rnz p b -> poly_divrem a b p = Done (q, r) ->
  reduced p r /\ RP b %| RP r - RP a.
Proof.
  move=> Ra [Rb Nb] E.
  have [q' [r' [E' [Rr [_ [_ D]]]]]] := divrem_reduced_total Hp Ra Rb.
  rewrite E in E'. case: E' => Eq Er. subst q' r'. split=> //.
  move/(eqpm_RP Hp): D. rewrite redpD redpM => ->.
  have -> : RP r - (RP q * RP b + RP r) = - RP q * RP b by ring.
  exact: dvdp_mull.
Qed.

(** ** The loop *)

Definition dpair_ok (ad : list Z * Z) : Prop :=
  rnz p ad.1 /\ (1 <= ad.2)%ZZ /\ degs_all (RP ad.1) (Z.to_nat ad.2).

(** Without square-freeness: divisibility of X^(p^d) - X. *)
Definition dpair_dvd (ad : list Z * Z) : Prop :=
  (1 <= ad.2)%ZZ /\ RP ad.1 %| 'X^(expn n (Z.to_nat ad.2)) - 'X.

Lemma degree_loop_dvd : forall fuel v w d result v' out,
  rnz p v -> (0 <= d)%ZZ ->
  RP v %| RP w - 'X^(expn n (Z.to_nat d)) ->
  degree_loop fuel p poly_x v w d result = Done (v', out) ->
  exists new, out = result ++ new /\ List.Forall dpair_dvd new.
Proof.
  elim=> [|f IH] v w d result v' out Rv Hd Dw //=.
  case: (Z.leb_spec (2 * d + 2) (pdeg v)) => _; last first.
  { case=> _ <-. exists [::]. by rewrite List.app_nil_r. }
  case Ew: (poly_modpow w p v p) => [w1| |] //=.
  have [[k Hk] Rw1] := poly_modpow_spec Hp (proj1 Rv) Hpp Ew.
  move/(eqpm_RP Hp): Hk. rewrite redpD redpM redpX -/(pnat p) => Ek.
  have D1 : Z.to_nat (d + 1) = (Z.to_nat d).+1 by lia.
  have Hd1 : (0 <= d + 1)%ZZ by lia.
  have Hd1' : (1 <= d + 1)%ZZ by lia.
  have Dw1 : RP v %| RP w1 - 'X^(expn n (Z.to_nat d).+1).
  { rewrite expnS mulnC exprM.
    have -> : RP w1 - ('X^(expn n (Z.to_nat d))) ^+ n = (RP w ^+ n - ('X^(expn n (Z.to_nat d))) ^+ n) + RP v * redp n k by rewrite Ek; ring.
    apply: dvdp_add; first exact: dvdp_sub_exp. exact: dvdp_mulr. }
  case Ex: (poly_mod_sub w1 poly_x p) => [wx| |] //=.
  have Ewx : RP wx = RP w1 - 'X.
  { have := PZ_poly_mod Hp0 Ex. move/(eqpm_RP Hp) => ->. by rewrite PZ_psub redpB RP_poly_x. }
  case Ea: (poly_gcd wx v p) => [ad| |] //=.
  have [Rad [[s Hs] [t Ht]]] := gcd_rnz Hp (poly_mod_sub_reduced Hp Ex) Rv Ea.
  have Dadv : RP ad %| RP v by move/(eqpm_RP Hp): Ht; rewrite redpM => ->; exact: dvdp_mulr.
  have Dadw : RP ad %| RP w1 - 'X by rewrite -Ewx; move/(eqpm_RP Hp): Hs; rewrite redpM => ->; exact: dvdp_mulr.
  have Dad : RP ad %| 'X^(expn n (Z.to_nat d).+1) - 'X.
  { have -> : 'X^(expn n (Z.to_nat d).+1) - 'X = (RP w1 - 'X) - (RP w1 - 'X^(expn n (Z.to_nat d).+1)) :> {poly 'F_n} by ring.
    apply: dvdp_sub => //. exact: dvdp_trans Dadv Dw1. }
  case: (Z.ltb_spec 0 (pdeg ad)) => _.
  - case Ev: (poly_divrem v ad p) => [[vq rem]| |] //=.
    have [Rvq Evq] := quot_RP Hp Rv Rad Ht Ev.
    case Ew2: (poly_divrem w1 vq p) => [[q2 w2]| |] //= H.
    have [Rw2 Dw2] := divrem_RP Rw1 Rvq Ew2.
    have Dvq : RP vq %| RP v by rewrite Evq; exact: dvdp_mulr.
    have Dw2' : RP vq %| RP w2 - 'X^(expn n (Z.to_nat (d + 1))).
    { rewrite D1.
      have -> : RP w2 - 'X^(expn n (Z.to_nat d).+1) = (RP w2 - RP w1) + (RP w1 - 'X^(expn n (Z.to_nat d).+1)) by ring.
      apply: dvdp_add => //. exact: dvdp_trans Dvq Dw1. }
    have [new [A F]] := IH _ _ _ _ _ _ Rvq Hd1 Dw2' H.
    exists ((ad, (d + 1)%ZZ) :: new). split; first by rewrite A -List.app_assoc.
    constructor=> //. by rewrite /dpair_dvd /= D1.
  - move=> H. apply: (IH _ _ _ _ _ _ Rv Hd1 _ H). by rewrite D1.
Qed.

Lemma degree_loop_ok : forall fuel v w d result v' out,
  rnz p v -> sqfreep (RP v) -> (0 <= d)%ZZ -> degs_gt (RP v) (Z.to_nat d) ->
  RP v %| RP w - 'X^(expn n (Z.to_nat d)) ->
  degree_loop fuel p poly_x v w d result = Done (v', out) ->
  exists new dfin, out = result ++ new /\ List.Forall dpair_ok new /\
    rnz p v' /\ degs_gt (RP v') dfin /\ (pdeg v' < Z.of_nat (dfin + dfin + 2))%ZZ.
Proof.
  elim=> [|f IH] v w d result v' out Rv Sv Hd Gv Dw //=.
  case: (Z.leb_spec (2 * d + 2) (pdeg v)) => Hlt; last first.
  { case=> <- <-. exists [::], (Z.to_nat d). rewrite List.app_nil_r. split=> //. split=> //. split=> //. split=> //. lia. }
  case Ew: (poly_modpow w p v p) => [w1| |] //=.
  have [[k Hk] Rw1] := poly_modpow_spec Hp (proj1 Rv) Hpp Ew.
  move/(eqpm_RP Hp): Hk. rewrite redpD redpM redpX -/(pnat p) => Ek.
  have D1 : Z.to_nat (d + 1) = (Z.to_nat d).+1 by lia.
  have Hd1 : (0 <= d + 1)%ZZ by lia.
  have Hd1' : (1 <= d + 1)%ZZ by lia.
  set d1 := (Z.to_nat d).+1 in D1.
  have Dw1 : RP v %| RP w1 - 'X^(expn n d1).
  { rewrite /d1 expnS mulnC exprM.
    have -> : RP w1 - ('X^(expn n (Z.to_nat d))) ^+ n = (RP w ^+ n - ('X^(expn n (Z.to_nat d))) ^+ n) + RP v * redp n k by rewrite Ek; ring.
    apply: dvdp_add; first exact: dvdp_sub_exp. exact: dvdp_mulr. }
  case Ex: (poly_mod_sub w1 poly_x p) => [wx| |] //=.
  have Ewx : RP wx = RP w1 - 'X.
  { have := PZ_poly_mod Hp0 Ex. move/(eqpm_RP Hp) => ->. by rewrite PZ_psub redpB RP_poly_x. }
  case Ea: (poly_gcd wx v p) => [ad| |] //=.
  have [Rad [[s Hs] [t Ht]]] := gcd_rnz Hp (poly_mod_sub_reduced Hp Ex) Rv Ea.
  have Gad := gcd_RP Hp (poly_mod_sub_reduced Hp Ex) (proj1 Rv) Ea. rewrite Ewx in Gad.
  have Dadv : RP ad %| RP v by rewrite (eqp_dvdl _ Gad); exact: dvdp_gcdr.
  have Dadw : RP ad %| RP w1 - 'X by rewrite (eqp_dvdl _ Gad); exact: dvdp_gcdl.
  have Dad : RP ad %| 'X^(expn n d1) - 'X.
  { have -> : 'X^(expn n d1) - 'X = (RP w1 - 'X) - (RP w1 - 'X^(expn n d1)) :> {poly 'F_n} by ring.
    apply: dvdp_sub => //. exact: dvdp_trans Dadv Dw1. }
  (* every common divisor of v and X^(p^d1) - X divides ad *)
  have Great g : g %| RP v -> g %| 'X^(expn n d1) - 'X -> g %| RP ad.
  { move=> G1 G2. rewrite (eqp_dvdr _ Gad) dvdp_gcd G1 andbT.
    have -> : RP w1 - 'X = ('X^(expn n d1) - 'X) + (RP w1 - 'X^(expn n d1)) :> {poly 'F_n} by ring.
    apply: dvdp_add => //. exact: dvdp_trans G1 Dw1. }
  (* the irreducible factors of ad have degree exactly d1 *)
  have Aad : degs_all (RP ad) d1.
  { move=> g Ig Dg.
    have L1 := Gv g Ig (dvdp_trans Dg Dadv).
    have L2 := irred_deg_le n_prime Ig (ltn0Sn _) (dvdp_trans Dg Dad).
    apply/eqP. by rewrite eqn_leq L2. }
  (* an irreducible factor of v of degree d1 divides ad *)
  have Deg1 g : irreducible_poly g -> g %| RP v -> (size g).-1 = d1 -> g %| RP ad.
  { move=> Ig Dg Sg. apply: Great => //. rewrite -Sg. exact: irred_dvd_Xq. }
  case: (Z.ltb_spec 0 (pdeg ad)) => Hpd.
  - case Ev: (poly_divrem v ad p) => [[vq rem]| |] //=.
    have [Rvq Evq] := quot_RP Hp Rv Rad Ht Ev.
    case Ew2: (poly_divrem w1 vq p) => [[q2 w2]| |] //= H.
    have [Rw2 Dw2] := divrem_RP Rw1 Rvq Ew2.
    have Dvq : RP vq %| RP v by rewrite Evq; exact: dvdp_mulr.
    have Dw2' : RP vq %| RP w2 - 'X^(expn n (Z.to_nat (d + 1))).
    { rewrite D1.
      have -> : RP w2 - 'X^(expn n d1) = (RP w2 - RP w1) + (RP w1 - 'X^(expn n d1)) by ring.
      apply: dvdp_add => //. exact: dvdp_trans Dvq Dw1. }
    have Gvq : degs_gt (RP vq) (Z.to_nat (d + 1)).
    { rewrite D1. move=> g Ig Dg.
      have L1 := Gv g Ig (dvdp_trans Dg Dvq).
      have [S1 _] := Ig.
      apply: (lt_neq_succ L1) => Sg. have Dga := Deg1 g Ig (dvdp_trans Dg Dvq) Sg.
      have : g ^+ 2 %| RP v by rewrite expr2 Evq; exact: dvdp_mul.
      move/Sv => E1. by rewrite E1 in S1. }
    have [new [dfin [A [F Rest]]]] := IH _ _ _ _ _ _ Rvq (sqfreep_dvd Sv Dvq) Hd1 Gvq Dw2' H.
    exists ((ad, (d + 1)%ZZ) :: new), dfin. split; first by rewrite A -List.app_assoc.
    split=> //. constructor=> //. split=> //=. split=> //. by rewrite D1.
  - move=> H.
    have Uad : RP ad %= 1.
    { apply: (unit_eqp1 Hp Rad). apply/Z.eqb_eq. move: Hpd (proj2 Rad). rewrite /pdeg. case: (ad) => [|c l] // Hq _.
      move: Hq. rewrite [length _]/=. lia. }
    have Gv' : degs_gt (RP v) (Z.to_nat (d + 1)).
    { rewrite D1. move=> g Ig Dg. have L1 := Gv g Ig Dg. have [S1 _] := Ig.
      apply: (lt_neq_succ L1) => Sg. have := Deg1 g Ig Dg Sg. rewrite (eqp_dvdr _ Uad) dvdp1 => /eqP E1. by rewrite E1 in S1. }
    apply: (IH _ _ _ _ _ _ Rv Sv Hd1 Gv' _ H). by rewrite D1.
Qed.

(** [P] the distinct-degree stage on a square-free input. *)
Theorem degree_ok poly out :
  rnz p poly -> sqfreep (RP poly) -> degree poly p = Done out -> List.Forall dpair_ok out.
Proof.
  move=> Rp Sp. rewrite /degree. move: (length poly + 1)%coq_nat => fuel.
  case E: (degree_loop fuel p poly_x poly poly_x 0 [::]) => [[v res]| |] //=.
  have G0 : degs_gt (RP poly) (Z.to_nat 0).
  { move=> g [S1 _] _. by case: (size g) S1 => [|[|sg]]. }
  have D0 : RP poly %| RP poly_x - 'X^(expn n (Z.to_nat 0)) by rewrite /= expn0 expr1 RP_poly_x subrr dvdp0.
  have [new [dfin [A [F [Rv [Gv Lv]]]]]] := degree_loop_ok Rp Sp (Z.le_refl 0) G0 D0 E.
  rewrite /= in A. subst res.
  case: (Z.ltb_spec 0 (pdeg v)) => Hv; case=> <- //.
  apply/List.Forall_app; split=> //. constructor; last by constructor.
  split=> //=. split; first lia.
  have Sz := reduced_size Hp (proj1 Rv).
  have Lv' : pdeg v = (Z.of_nat (length v) - 1)%ZZ by move: (proj2 Rv); rewrite /pdeg; case: (v).
  have Iv : irreducible_poly (RP v).
  { apply: (@degs_gt_irred _ dfin) => //; rewrite Sz; lia. }
  move=> g Ig Dg. have [_ Hi] := Iv. have [S1 _] := Ig.
  have E1 := Hi g ltac:(lia) Dg. rewrite (eqp_size E1) Sz. lia.
Qed.

(** [P] without any hypothesis on the input: every a_d found by the loop divides X^(p^d) - X. *)
Theorem degree_dvd poly out :
  rnz p poly -> degree poly p = Done out ->
  exists loop last, out = loop ++ last /\ List.Forall dpair_dvd loop /\ (length last <= 1)%coq_nat.
Proof.
  move=> Rp. rewrite /degree. move: (length poly + 1)%coq_nat => fuel.
  case E: (degree_loop fuel p poly_x poly poly_x 0 [::]) => [[v res]| |] //=.
  have D0 : RP poly %| RP poly_x - 'X^(expn n (Z.to_nat 0)) by rewrite /= expn0 expr1 RP_poly_x subrr dvdp0.
  have [new [A F]] := degree_loop_dvd Rp (Z.le_refl 0) D0 E.
  rewrite /= in A. subst res.
  case: (Z.ltb_spec 0 (pdeg v)) => Hv; case=> <-.
  - exists new, [:: (v, pdeg v)]. split; [by []|split; [exact: F|rewrite /=; lia]].
  - exists new, [::]. rewrite List.app_nil_r. split; [by []|split; [exact: F|rewrite /=; lia]].
Qed.

End Prime.
