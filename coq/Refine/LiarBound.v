(** * Bounded Rabin-Monier: strong liars of small odd composites, by enumeration. *)
From Coq Require Import ZArith List Bool Lia Znumtheory Zpow_facts FinFun.
From RNT.Model Require Import Base Elementary.
From RNT.Refine Require Import ElemProofs MillerRabinProofs.
Open Scope Z_scope.

(** ** [B] the proportion of strong liars for small odd composites *)

Definition zrange (lo n : nat) : list Z := map Z.of_nat (seq lo n).

Definition liars (n : Z) : list Z :=
  let '(d, c) := mr_decomp n in filter (mr_round n d (Z.to_nat c)) (zrange 1 (Z.to_nat n - 1)).

Definition liar_ok (n : Z) : bool :=
  match td_is_prime n with
  | Done false => if Z.odd n then 4 * Z.of_nat (length (liars n)) <=? n - 1 else true
  | _ => true
  end.

Lemma in_zrange : forall lo n x, In x (zrange lo n) <-> Z.of_nat lo <= x < Z.of_nat lo + Z.of_nat n.
Proof.
  intros lo n x. unfold zrange. rewrite in_map_iff. split.
  - intros (i & <- & Hi). apply in_seq in Hi. lia.
  - intros H. exists (Z.to_nat x). split; [lia|]. apply in_seq. lia.
Qed.

Lemma NoDup_zrange : forall lo n, NoDup (zrange lo n).
Proof.
  intros lo n. unfold zrange. apply FinFun.Injective_map_NoDup; [|apply seq_NoDup].
  intros x y H. lia.
Qed.

(** [B] for every odd composite n < 2^10 the strong liars in [1, n) number at most (n - 1) / 4: one round of the
    test accepts such an n with probability <= 1/4 under a uniform base (Rabin-Monier on that range, by enumeration). *)
Lemma liar_bound_small : forall n d c, 2 < n < 1024 -> Z.odd n = true -> ~ prime n -> mr_decomp n = (d, c) ->
  exists l, NoDup l /\ (forall a, In a l <-> 1 <= a < n /\ strong_liar n d c a) /\ 4 * Z.of_nat (length l) <= n - 1.
Proof.
  intros n d c Hn Ho Hc E.
  assert (H : forallb liar_ok (zrange 0 1024) = true) by (vm_cast_no_check (eq_refl true)).
  rewrite forallb_forall in H. specialize (H n (proj2 (in_zrange 0 1024 n) ltac:(lia))).
  unfold liar_ok in H. destruct (td_is_prime_spec n) as (b & T & Hb). rewrite T in H.
  destruct b; [exfalso; apply Hc, Hb; reflexivity|]. rewrite Ho in H. apply Z.leb_le in H.
  exists (liars n). unfold liars in *. rewrite E in *.
  destruct (mr_decomp_spec n d c ltac:(lia) E) as (_ & Hd & Hc0 & _).
  split; [apply NoDup_filter, NoDup_zrange|]. split; [|exact H].
  intros a. rewrite filter_In, in_zrange, mr_round_spec by lia. rewrite Z2Nat.id by lia.
  split; intros [H1 H2]; (split; [lia|exact H2]).
Qed.

Example liars_9 : liars 9 = [1; 8] /\ liars 561 = [1; 50; 101; 103; 256; 305; 458; 460; 511; 560].
Proof. vm_compute. auto. Qed.
