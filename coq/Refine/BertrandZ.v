(** * Bertrand's postulate on [Z] with [Znumtheory.prime] (bridge from the MathComp statement). *)
From Coq Require Import ZArith Znumtheory Lia.
From mathcomp Require Import all_ssreflect.
From mathcomp Require Import zify.
From RNT.Refine Require Import BertrandMain.
Set Implicit Arguments.
Unset Strict Implicit.
Unset Printing Implicit Defensive.

(** MathComp primality of a natural number gives [Znumtheory.prime] of its image in Z. *)
Lemma prime_nat_Z : forall q : nat, prime q -> Znumtheory.prime (Z.of_nat q).
Proof.
move=> q qP; have q1 := prime_gt1 qP.
apply/prime_alt; split; first by lia.
move=> x Hx [c Hc].
have c0 : (0 < c)%Z by nia.
have E : q = (Z.to_nat c * Z.to_nat x)%N.
  by apply: Nat2Z.inj; rewrite Nat2Z.inj_mul !Z2Nat.id; lia.
have D : (Z.to_nat x %| q)%N by apply/dvdnP; exists (Z.to_nat c).
by have /primeP[_ /(_ _ D) /orP[/eqP|/eqP]] := qP; lia.
Qed.

(** Bertrand's postulate: for every n >= 1 there is a prime p with n < p <= 2n. *)
Theorem bertrand_Z : forall n : Z, (1 <= n)%Z -> exists p, Znumtheory.prime p /\ (n < p <= 2 * n)%Z.
Proof.
move=> n Hn.
have n0 : (0 < Z.to_nat n)%N by lia.
have [p [pP /andP[H1 H2]]] := bertrand_nat n0.
by exists (Z.of_nat p); split; [exact: prime_nat_Z | lia].
Qed.

Arguments prime_nat_Z : clear implicits.
Arguments bertrand_Z : clear implicits.
