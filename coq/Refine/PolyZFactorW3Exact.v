(** * PolyZFactorW3Exact: C07, third wave: exact multiplicities, and the statements of Props/C07.v
    about the entry point [factorize_full] (MathComp). *)
From RNT.Model Require Import Base Poly PolyModP FactorModP Hensel PolyZFactor.
From RNT.Model Require Resultant.
From mathcomp Require Import all_ssreflect ssralg ssrnum poly polydiv separable.
From mathcomp Require Import ssrZ zify.
From RNT.Refine Require Import PolyRefine PolyDiv PolyZ ResInt SubresGaussZ SubresGauss SubresGcdDiv SubresSpec.
From RNT.Refine Require Import PolyZFactorBasic PolyZFactorMult PolyZFactorMain PolyZFactorTop PolyZFactorPos.
From RNT.Refine Require Import PolyZFactorW3Sqf PolyZFactorW3Run PolyZFactorW3Top.
Set Implicit Arguments.
Unset Strict Implicit.
Unset Printing Implicit Defensive.
Import GRing.Theory.
Import Pdiv.Idomain.
Local Open Scope ring_scope.

(** ** pairwise coprime lists *)
Lemma coprime_seq_in (fs : seq (seq Z)) f g : coprime_seq fs -> f \in fs -> g \in fs -> f != g ->
  coprimep (Poly f) (Poly g).
Proof.
rewrite /coprime_seq; elim: fs => [|h fs IH] //= /andP [/allP hh hp].
rewrite !inE => /orP [/eqP ->|hf] /orP [/eqP ->|hg] ne.
- by rewrite eqxx in ne.
- exact: hh.
- by rewrite coprimep_sym; exact: hh.
- exact: IH.
Qed.

Lemma maximal_split (C : {poly Z}) l1 fe l2 : maximal C (l1 ++ fe :: l2) ->
  fe.1 != [::] -> forall Q : {poly Z}, C * fprod l2 <> Q * Poly fe.1.
Proof. by elim: l1 => [|x l1 IH] /= [h1 h2] //; exact: IH. Qed.

Lemma coprimep_fprod (u : {poly Z}) (l : seq (seq Z * Z)) :
  (forall fe, fe \in l -> coprimep u (Poly fe.1)) -> coprimep u (fprod l).
Proof.
rewrite /fprod; elim: l => [|fe l IH] h; first by rewrite big_nil coprimep1.
rewrite big_cons coprimepMr IH ?andbT; last by move=> fe' hfe'; apply: h; rewrite inE hfe' orbT.
by rewrite /fpow coprimep_expr // h // mem_head.
Qed.

(** ** [P] the exponent is the exact multiplicity: [f^k] divides the primitive part (over Q, equivalently
    in Z[x] since [f] is primitive) iff [k <= e] *)
Theorem factorize_full_exact_mult md (a : seq Z) r c l cof r' f e : canonZ a ->
  factorize_full md a r = Done (c, l, cof, r') -> (f, e) \in l ->
  forall k : nat, (Poly f ^+ k %| Poly (cont_pp a).2) = (k <= Z.to_nat e)%N.
Proof.
move=> ca ef hin k.
have [_ ccof epp [_ hmax] _] := factorize_full_spec ca ef.
have [hl hc hu] := factorize_full_factors ca ef.
have [pf sf e1] := hl _ hin; rewrite /= in pf sf e1.
have [l1 [l2 el]] := in_split hin.
have f0 : Poly f != 0 by exact: prim_pos_Poly_neq0.
set M := Poly cof * (fprod l1 * fprod l2).
have eM : Poly (cont_pp a).2 = M * Poly f ^+ Z.to_nat e by rewrite epp el fprod_split mulrA.
(* f is coprime to the other returned polynomials *)
have hcop fe : fe \in l1 ++ l2 -> coprimep (Poly f) (Poly fe.1).
  move=> hfe; apply: (coprime_seq_in hc).
  - by apply/mapP; exists (f, e).
  - by apply/mapP; exists fe => //; move: hfe; rewrite el !mem_cat inE => /orP [->|->]; rewrite ?orbT.
  - move: hu; rewrite el map_cat /= cat_uniq /= negb_or => /and3P [_ /andP [h1 _] /andP [h2 _]].
    move: hfe; rewrite mem_cat => /orP [hfe|hfe].
    + by apply: contraNneq h1 => ->; apply/mapP; exists fe.
    + by apply: contraNneq h2 => ->; apply/mapP; exists fe.
(* f does not divide M *)
have nfM : ~~ (Poly f %| M).
  apply/negP; rewrite /M mulrCA Gauss_dvdpr; last first.
    by apply: coprimep_fprod => fe hfe; apply: hcop; rewrite mem_cat hfe.
  move=> /(dvdZ_of_dvdp pf) [Q eQ].
  move: hmax; rewrite el => /maximal_split /(_ (prim_pos_neq0 pf) Q); exact.
rewrite eM; case: (leqP k (Z.to_nat e)) => hk.
  by rewrite dvdp_mull // dvdp_exp2l.
apply/negP => hd; case/negP: nfM.
have : Poly f ^+ (Z.to_nat e).+1 %| M * Poly f ^+ Z.to_nat e.
  by apply: dvdp_trans hd; rewrite dvdp_exp2l.
by rewrite exprS dvdp_mul2r // expf_neq0.
Qed.

(** the same for the input itself (a non-zero constant multiple of its primitive part) *)
Theorem factorize_full_exact_mult_input md (a : seq Z) r c l cof r' f e : canonZ a ->
  factorize_full md a r = Done (c, l, cof, r') -> (f, e) \in l ->
  forall k : nat, (Poly f ^+ k %| Poly a) = (k <= Z.to_nat e)%N.
Proof.
move=> ca ef hin k; rewrite -(factorize_full_exact_mult ca ef hin).
case: (leqP (size a) 1) => sa.
  by have [el _] := factorize_full_small ca sa ef; rewrite el in hin.
have a0 : a != [::] by case: (a) sa.
have [ea _ _ _ _] := cont_pp_main ca a0 (surjective_pairing (cont_pp a)).
apply: eqp_dvdr; rewrite -ea; apply: eqp_scale.
by apply/eqP => c0; move: ea; rewrite c0 scale0r => /esym/eqP; rewrite canon_Poly_eq0 // (negPf a0).
Qed.

(** ** the statements of Props/C07.v *)

(** [P] G1 *)
Theorem factors_primitive_positive md (a : seq Z) r c l cof r' : canonZ a ->
  factorize_full md a r = Done (c, l, cof, r') -> forall fe, fe \in l -> prim_pos fe.1.
Proof. by move=> ca ef fe; have [h _ _] := factorize_full_factors ca ef; move/h => []. Qed.

(** [P] G3 *)
Theorem multiplicities_positive md (a : seq Z) r c l cof r' : canonZ a ->
  factorize_full md a r = Done (c, l, cof, r') ->
  forall fe, fe \in l -> (1 <= fe.2)%Z /\ (1 < size fe.1)%N.
Proof. by move=> ca ef fe; have [h _ _] := factorize_full_factors ca ef; move/h => []. Qed.

(** [P] G5 *)
Theorem factors_pairwise_distinct md (a : seq Z) r c l cof r' : canonZ a ->
  factorize_full md a r = Done (c, l, cof, r') ->
  uniq (map fst l) /\
  forall fe fe', fe \in l -> fe' \in l -> fe.1 <> fe'.1 -> coprimep (Poly fe.1) (Poly fe'.1).
Proof.
move=> ca ef; have [_ hc hu] := factorize_full_factors ca ef; split=> // fe fe' h h' ne.
by apply: (coprime_seq_in hc); [apply/mapP; exists fe | apply/mapP; exists fe' | apply/eqP].
Qed.

(** [P] G2: the square-free part, and the [expect] that cannot fire *)
Theorem squarefree_part_spec md (a : seq Z) r : canonZ a -> (1 < size a)%N ->
  let pp := (cont_pp a).2 in
  exists g q : seq Z,
    [/\ (Resultant.resultant_gcd pp (pdiff opsZ pp)).2 = Done g /\ div_exact pp g = Some q,
        Poly pp = Poly q * Poly g /\ Poly g %= gcdp (Poly pp) (Poly pp)^`(),
        separable_poly (Poly q),
        forall u : {poly Z}, u %| Poly pp -> coprimep u (Poly q) -> size u = 1%N
      & factorize_full md a r =
        (do '(factors, r1) <- get_factors_of_squarefree md q r;
         do '(cof, result) <- extract_all factors pp [::];
         Done ((cont_pp a).1, result, cof, r1))].
Proof.
move=> ca sa pp.
have [g [q [eg ed e erun]]] := factorize_full_reaches_sqfree md r ca sa.
rewrite -/pp in eg ed e erun.
have a0 : a != [::] by case: (a) sa.
have [_ cpp lpp prim _] := cont_pp_main ca a0 (surjective_pairing (cont_pp a)).
have ppp : prim_pos pp by split.
have [g' [q' [eg' [pg hg ed' _ _]]]] := sqfree_part ppp.
move: eg'; rewrite eg => -[eg']; rewrite -{g'}eg' in pg hg ed'.
have [sep hu] := sqfree_part_sep ppp hg e.
by exists g, q; split.
Qed.

(** a square-free input, recognised by the run itself: the computed gcd is the constant 1 *)
Lemma separable_of_gcd1 (a : seq Z) : canonZ a -> a != [::] ->
  (Resultant.resultant_gcd (cont_pp a).2 (pdiff opsZ (cont_pp a).2)).2 = Done [:: 1%Z] ->
  separable_poly (Poly a).
Proof.
move=> ca a0 eg.
have [ea cpp lpp prim _] := cont_pp_main ca a0 (surjective_pairing (cont_pp a)).
have ppp : prim_pos (cont_pp a).2 by split.
have [g' [q' [eg' [_ hg _ _ _]]]] := sqfree_part ppp.
move: eg'; rewrite eg => -[eg']; rewrite -{g'}eg' in hg.
have c0 : (cont_pp a).1 != 0.
  by apply/eqP => c0; move: ea; rewrite c0 scale0r => /esym/eqP; rewrite canon_Poly_eq0 // (negPf a0).
rewrite -ea (eqp_separable (eqp_scale _ c0)) /separable_poly /coprimep.
by rewrite -(eqp_size hg) Poly1 size_poly1.
Qed.

(** a linear polynomial is irreducible over Q *)
Lemma linear_irreducible (f : seq Z) : canonZ f -> size f = 2%N -> irreducible_poly (Poly f).
Proof.
move=> cf sf; split; first by rewrite canon_size_Poly // sf.
move=> u su ud.
have f0 : Poly f != 0 by rewrite canon_Poly_eq0 //; case: (f) sf.
have := dvdp_leq f0 ud; rewrite canon_size_Poly // sf.
have u0 : u != 0 by apply: contraTneq ud => ->; rewrite dvd0p.
move: su; rewrite -size_poly_gt0 in u0.
case es: (size u) u0 => [|[|[|n]]] // _ _ _.
by rewrite -(dvdp_size_eqp ud) es canon_size_Poly // sf.
Qed.
