(** * IdealW6Over (C16, sixth wave): the multiplier ring of N = a (O : I) as an explicit over-order.
      With J = I * N (inside a O), a2 = cap_z J = a k and N2 = a2 (O : J) (what [Ideal::inv] returns on J), the
      lattice R = N2 / k is the ring { x : x N inside N }; it contains O.  Hence, if O has no proper over-order
      ([no_over_order]), every x = v / d with x N inside N lies in O: [mult_ring_trivial_at t N].
      Stdlib + lia. *)
From Coq Require Import ZArith List Lia Bool Znumtheory.
From RNT.Model Require Import Base LinAlg MultTable Ideal.
From RNT.Model Require Hnf.
From RNT.Refine Require Import MatZ HnfSpec HnfUnique HnfCanon IdealMul IdealSpec IdealLaws.
From RNT.Refine Require Import IdealW6Dual IdealW6Prod IdealW6Colon.
From RNT.Refine Require IdealW6Nak DecompW3Proper IdealInv.
Import ListNotations.
Open Scope Z_scope.

(** [no_over_order t]: every lattice (1/p) h (h an n x n integer matrix, p <> 0) that contains O = Z^n and is closed
    under the product of t is O itself: "O has no proper over-order". *)
Definition no_over_order (t : table) : Prop :=
  forall (h : list (list Z)) (p : Z), p <> 0 -> shape (length t) (length t) h ->
    (forall u, length u = length t -> In_rowspanZ (length t) (vscale p u) h) ->
    (forall x y, In_rowspanZ (length t) x h -> In_rowspanZ (length t) y h ->
       exists z, In_rowspanZ (length t) z h /\ bil t x y = vscale p z) ->
    forall w, In_rowspanZ (length t) w h -> dvd_vec p w.

Lemma dvd_vec_cancel_l k a v : k <> 0 -> dvd_vec (k * a) (vscale k v) -> dvd_vec a v.
Proof.
  intros Hk H j. specialize (H j). rewrite nth_vscale in H. destruct H as [q Hq]. exists q. nia.
Qed.

Lemma vscale_inj_nz k u v : k <> 0 -> length u = length v -> vscale k u = vscale k v -> u = v.
Proof.
  intros Hk Hl E. apply vec_ext with (length u); auto. intros i _.
  apply (f_equal (fun l => nth i l 0)) in E. rewrite !nth_vscale in E. nia.
Qed.

Lemma vscale_comp q p u : vscale q (vscale p u) = vscale (q * p) u.
Proof. unfold vscale. rewrite map_map. apply map_ext. intros x. lia. Qed.

Lemma dvd_vec_mul k a v : dvd_vec a v -> dvd_vec (k * a) (vscale k v).
Proof. intros H j. rewrite nth_vscale. destruct (H j) as [q ->]. exists q. lia. Qed.

Section Over.
Variable t : table.
Let n := length t.
Hypothesis Ht : tshape t.
Hypothesis Hc : table_comm t = true.
Hypothesis Has : table_assoc t = true.
Hypothesis Hn : (1 <= n)%nat.
Hypothesis Hu : forall y, length y = n -> bil t y (unit_vec n 0) = y.
Hypothesis Hno : no_over_order t.

(* I, N = a (O : I) *)
Variables (HI HN : list (list Z)) (a : Z).
Hypothesis WI : wf n HI.
Hypothesis WN : wf n HN.
Hypothesis Ha : a <> 0.
Hypothesis HNspec : forall v, In_rowspanZ n v HN <-> in_colon t a HI v.
Hypothesis HaI : In_rowspanZ n (scalar_vec n a) HI.
(* J = I * N with basis HP, N2 = a2 (O : J) *)
Variables (HP HN2 : list (list Z)) (a2 : Z).
Hypothesis WP : wf n HP.
Hypothesis SP : forall v, In_rowspanZ n v HP <-> In_rowspanZ n v (prod_rows t HI HN).
Hypothesis WN2 : wf n HN2.
Hypothesis LN2 : length HN2 = n.
Hypothesis Ha2 : a2 <> 0.
Hypothesis HN2spec : forall v, In_rowspanZ n v HN2 <-> in_colon t a2 HP v.
Hypothesis Ha2P : In_rowspanZ n (scalar_vec n a2) HP.

Let L := fun x y => bil_length t x y Ht.
Let PR := prod_rows t HI HN.
Let WPR : wf n PR := prod_rows_wf t HI HN Ht.

Let J_dvd v : In_rowspanZ n v HP -> dvd_vec a v.
Proof. intros H. apply (prod_rows_dvd t Ht Hc HI HN a WI WN HNspec). apply SP. exact H. Qed.

Let J_closed : closed_mult t HP.
Proof.
  apply (closed_congr t PR); [intros v; symmetry; apply SP|].
  apply (product_closed t Ht Hc Has HI HN a); auto.
Qed.

Let J_len v : In_rowspanZ n v HP -> length v = n.
Proof. apply span_length; auto. Qed.

Let one_l y : length y = n -> bil t (unit_vec n 0) y = y.
Proof. apply (unit_l t Ht Hc Hu). Qed.

(** a divides a2: a2 = a k *)
Lemma a_divides_a2 : exists k, a2 = a * k /\ k <> 0.
Proof.
  pose proof (J_dvd _ Ha2P 0%nat) as D. rewrite scalar_vec_scale, nth_vscale in D.
  assert (E : nth 0 (unit_vec n 0) 0 = 1).
  { change (unit_vec n 0) with (unit_from 0 n 0). rewrite IdealInv.nth_unit_from by lia. reflexivity. }
  rewrite E in D. destruct D as [k Hk]. exists k. split; [lia|]. intros ->. lia.
Qed.

(** products i * z of members of I and N are in J *)
Let J_prod i z : In_rowspanZ n i HI -> In_rowspanZ n z HN -> In_rowspanZ n (bil t i z) HP.
Proof. intros Hi Hz. apply SP. apply prod_rows_member; auto. Qed.

(** a property of vectors j that is additive, homogeneous and holds for the products i * z holds on J *)
Lemma J_ind (Q : list Z -> Prop) :
  Q (vzero n) ->
  (forall u v, length u = n -> length v = n -> Q u -> Q v -> Q (vadd u v)) ->
  (forall q u, length u = n -> Q u -> Q (vscale q u)) ->
  (forall i z, In_rowspanZ n i HI -> In_rowspanZ n z HN -> Q (bil t i z)) ->
  forall j, In_rowspanZ n j HP -> Q j.
Proof.
  intros Q0 QD QS QG j Hj. apply SP in Hj. revert j Hj.
  apply (IdealW6Nak.span_ind (n := n) (A := PR) (Q := Q)); auto.
  intros r Hr. apply in_map_iff in Hr. destruct Hr as [[i z] [<- Hiz]]. apply in_prod_iff in Hiz.
  destruct Hiz as [Hi Hz]. cbn [fst snd]. apply QG; apply span_row_in; auto.
Qed.

Section WithK.
Variable k : Z.
Hypothesis Ek : a2 = a * k.
Hypothesis Hk : k <> 0.

(** Claim A: for w in N2 and z in N, k divides w * z and the quotient is in N *)
Lemma claimA w z : In_rowspanZ n w HN2 -> In_rowspanZ n z HN ->
  exists z', In_rowspanZ n z' HN /\ bil t w z = vscale k z'.
Proof.
  intros Hw Hz. apply HN2spec in Hw. destruct Hw as [Lw Hw].
  assert (Lz : length z = n) by (apply (span_length n z HN); auto).
  assert (P : forall i, In_rowspanZ n i HI -> dvd_vec a2 (bil t (bil t w z) i)).
  { intros i Hi. assert (Li : length i = n) by (apply (span_length n i HI); auto).
    rewrite bil_assoc; auto. rewrite (bil_comm t z i); auto. intros j. apply Hw. apply J_prod; auto. }
  assert (D : dvd_vec k (bil t w z)).
  { specialize (P _ HaI). rewrite scalar_vec_scale, bil_scale_r in P by auto.
    rewrite Hu in P by (apply L). rewrite Ek in P. apply (dvd_vec_cancel_l a k); auto. }
  exists (map (fun x => x / k) (bil t w z)). split; [|apply dvd_vec_quot; auto].
  apply HNspec. split; [rewrite map_length; apply L|]. intros i Hi. specialize (P i Hi).
  rewrite (dvd_vec_quot k (bil t w z)) in P by auto. rewrite bil_scale_l in P by auto.
  rewrite Ek, (Z.mul_comm a k) in P. fold (dvd_vec a (bil t (map (fun x => x / k) (bil t w z)) i)).
  apply (dvd_vec_cancel_l k a); auto.
Qed.

(** O is inside R = N2 / k *)
Lemma over_contains u : length u = n -> In_rowspanZ n (vscale k u) HN2.
Proof.
  intros Lu. apply HN2spec. split; [rewrite vscale_length; auto|]. intros j Hj.
  rewrite bil_scale_l by auto. fold (dvd_vec a2 (vscale k (bil t u j))).
  rewrite Ek, (Z.mul_comm a k). apply dvd_vec_mul. apply J_dvd.
  rewrite bil_comm; auto; try (apply J_len; auto).
Qed.

(** R is closed under multiplication *)
Lemma over_ring w1 w2 : In_rowspanZ n w1 HN2 -> In_rowspanZ n w2 HN2 ->
  exists w3, In_rowspanZ n w3 HN2 /\ bil t w1 w2 = vscale k w3.
Proof.
  intros H1 H2.
  assert (L1 : length w1 = n) by (apply (span_length n w1 HN2); auto).
  assert (L2 : length w2 = n) by (apply (span_length n w2 HN2); auto).
  pose proof (proj1 (HN2spec w1) H1) as [_ C1].
  (* a2 k divides (w1 w2) j for all j in J *)
  assert (S : forall j, In_rowspanZ n j HP -> dvd_vec (k * a2) (bil t (bil t w1 w2) j)).
  { apply J_ind.
    - rewrite bil_zero_r by auto. intros j. rewrite nth_vzero. apply Z.divide_0_r.
    - intros u v Lu Lv Qu Qv. rewrite bil_add_r by (auto; lia). intros j.
      rewrite nth_vadd by (rewrite !L; auto). apply Z.divide_add_r; [apply Qu|apply Qv].
    - intros q u Lu Qu. rewrite bil_scale_r by auto. apply dvd_vec_scale_r. exact Qu.
    - intros i z Hi Hz.
      assert (Li : length i = n) by (apply (span_length n i HI); auto).
      assert (Lz : length z = n) by (apply (span_length n z HN); auto).
      destruct (claimA w2 z H2 Hz) as [z' [Hz' Ez']].
      assert (Lz' : length z' = n) by (apply (span_length n z' HN); auto).
      (* (w1 w2)(i z) = w1 ((w2 z) i) = k w1 (z' i) *)
      replace (bil t (bil t w1 w2) (bil t i z)) with (vscale k (bil t w1 (bil t i z'))).
      + apply dvd_vec_mul. intros j. apply C1. apply J_prod; auto.
      + rewrite (bil_comm t i z'), (bil_comm t i z); auto.
        rewrite (bil_assoc t w1 w2); auto; try (rewrite L; auto).
        rewrite <- (bil_assoc t w2 z i); auto. rewrite Ez'.
        rewrite bil_scale_l, bil_scale_r by auto. reflexivity. }
  (* k divides w1 w2 *)
  assert (D : dvd_vec k (bil t w1 w2)).
  { specialize (S _ Ha2P). rewrite scalar_vec_scale, bil_scale_r in S by auto.
    rewrite Hu in S by (apply L). rewrite (Z.mul_comm k a2) in S. apply (dvd_vec_cancel_l a2 k); auto. }
  exists (map (fun x => x / k) (bil t w1 w2)). split; [|apply dvd_vec_quot; auto].
  apply HN2spec. split; [rewrite map_length; apply L|]. intros j Hj. specialize (S j Hj).
  rewrite (dvd_vec_quot k (bil t w1 w2)) in S by auto. rewrite bil_scale_l in S by auto.
  fold (dvd_vec a2 (bil t (map (fun x => x / k) (bil t w1 w2)) j)).
  apply (dvd_vec_cancel_l k a2); auto.
Qed.

(** [P] the multiplier ring of N is O *)
Theorem mult_ring_at_N : mult_ring_trivial_at t HN.
Proof.
  intros v d Hd Lv Hv. fold n in Lv.
  (* v J inside d J *)
  assert (VJ : forall j, In_rowspanZ n j HP -> exists j', In_rowspanZ n j' HP /\ bil t v j = vscale d j').
  { apply J_ind.
    - exists (vzero n). split; [apply (span_lincomb n [] HP); auto|].
      rewrite bil_zero_r by auto. symmetry. apply vscale_vzero.
    - intros u w Lu Lw [u' [Hu' Eu]] [w' [Hw' Ew]]. exists (vadd u' w'). split.
      + apply DecompW3Proper.span_vadd; auto.
      + rewrite bil_add_r by (auto; lia). rewrite Eu, Ew.
        apply vec_ext with n.
        * rewrite vadd_length; rewrite !vscale_length; rewrite (J_len u'), ?(J_len w'); auto.
        * rewrite vscale_length, vadd_length; rewrite (J_len u'), ?(J_len w'); auto.
        * intros i _. rewrite nth_vadd by (rewrite !vscale_length, (J_len u'), (J_len w'); auto).
          rewrite !nth_vscale, nth_vadd by (rewrite (J_len u'), (J_len w'); auto). lia.
    - intros q u Lu [u' [Hu' Eu]]. exists (vscale q u'). split.
      + apply DecompW3Proper.span_vscale; auto.
      + rewrite bil_scale_r by auto. rewrite Eu, !vscale_comp. f_equal. lia.
    - intros i z Hi Hz.
      assert (Li : length i = n) by (apply (span_length n i HI); auto).
      assert (Lz : length z = n) by (apply (span_length n z HN); auto).
      destruct (Hv z Hz) as [u [Hu' Eu]]. exists (bil t i u). split; [apply J_prod; auto|].
      assert (Lu : length u = n) by (apply (span_length n u HN); auto).
      rewrite (bil_comm t i z), (bil_comm t i u); auto.
      rewrite <- bil_assoc; auto. rewrite Eu. apply bil_scale_l; auto. }
  (* w0 = k v / d *)
  destruct (VJ _ Ha2P) as [j' [Hj' Ej']].
  rewrite scalar_vec_scale, bil_scale_r in Ej' by auto. rewrite Hu in Ej' by auto.
  pose proof (J_dvd j' Hj') as Dj'.
  set (w0 := map (fun x => x / a) j').
  assert (Ew0 : j' = vscale a w0) by (apply dvd_vec_quot; auto).
  assert (Lj' : length j' = n) by (apply J_len; auto).
  assert (Lw0 : length w0 = n) by (unfold w0; rewrite map_length; auto).
  assert (Kw : vscale k v = vscale d w0).
  { apply (vscale_inj_nz a); auto; [rewrite !vscale_length; lia|].
    rewrite !vscale_comp. rewrite <- Ek. rewrite Ej', Ew0, vscale_comp. f_equal. lia. }
  (* w0 is in N2 *)
  assert (Hw0 : In_rowspanZ n w0 HN2).
  { apply HN2spec. split; auto. intros j Hj.
    destruct (VJ j Hj) as [j2 [Hj2 Ej2]].
    (* d (w0 j) = k (v j) = k d j2 *)
    assert (E : vscale d (bil t w0 j) = vscale d (vscale k j2)).
    { rewrite <- bil_scale_l by auto. rewrite <- Kw. rewrite bil_scale_l by auto. rewrite Ej2.
      rewrite !vscale_comp. f_equal. lia. }
    apply vscale_inj_nz in E; [|lia|rewrite vscale_length, L, (J_len j2); auto].
    rewrite E. fold (dvd_vec a2 (vscale k j2)). rewrite Ek, (Z.mul_comm a k). apply dvd_vec_mul. apply J_dvd; auto. }
  (* no proper over-order: k divides w0 *)
  assert (Dk : dvd_vec k w0).
  { apply (Hno HN2 k Hk); auto.
    - split; auto.
    - apply over_contains.
    - intros x y Hx Hy. apply over_ring; auto. }
  rewrite (dvd_vec_quot k w0 Hk Dk) in Kw. rewrite vscale_comp in Kw.
  replace (d * k) with (k * d) in Kw by lia. rewrite <- vscale_comp in Kw.
  apply vscale_inj_nz in Kw; auto; [|rewrite vscale_length, map_length; lia].
  rewrite Kw. apply dvd_vec_vscale.
Qed.
End WithK.
End Over.
