(** * W5TraceLoop: C08, the fuel supplied to [final_split_2] (p = 2) suffices: on a square-free input whose
    irreducible factors all have degree d, the trace-map loop [t = x, x^3, x^5, ...] finds a proper divisor within
    [length poly + 2] attempts (in fact within deg / 2 + 1, spec level: W5Trace.v), and the recursion depth
    [length poly + 1] is enough (both pieces of a split have smaller degree). (ssreflect) *)
From Coq Require Import ZArith List Lia Znumtheory.
From mathcomp Require Import all_ssreflect ssralg poly polydiv ssrint zmodp.
From RNT.Model Require Import Base Poly PolyModP FactorModP.
From RNT.Refine Require Import PolyModPArith PolyModPDivList FermatZ PolyZmod PolyModPDiv MonicZ PolyModPGcd FpPoly HenselProofs FactorNorm FactorProd FpTotal FmpField FmpSqf FmpProduct FmpIrred FmpDegree FmpSplit FmpFull FmpTotal FmpSafe.
From RNT.Refine Require Import W5Trace.
From mathcomp Require Import ssrZ zify ring.
Set Implicit Arguments. Unset Strict Implicit. Unset Printing Implicit Defensive.
Import GRing.Theory.
Local Open Scope ring_scope.

Notation RP2 l := (redp (pnat 2) (PZ l)).

Lemma iter_trk (R : ringType) (u : R) k : ssrnat.iter k (fun y => y ^+ 2 + u) u = trk k.+1 u.
Proof. by elim: k => [|k IH]; rewrite /= ?expr0n /= ?add0r // IH. Qed.

Lemma iter_congr (f u a a' : {poly 'F_(pnat 2)}) k : f %| a - a' ->
  f %| ssrnat.iter k (fun y => y ^+ 2 + u) a - ssrnat.iter k (fun y => y ^+ 2 + u) a'.
Proof.
move=> h; elim: k => [|k IH] //=.
by rewrite opprD addrACA subrr addr0; exact: (dvdp_sub_exp 2 IH).
Qed.

(** ** the inner loop computes the trace map modulo poly *)
Lemma trace_loop_spec : forall k c t poly out,
  reduced 2 c -> rnz 2 poly -> trace_loop k c t poly = Done out ->
  reduced 2 out /\ RP2 poly %| RP2 out - ssrnat.iter k (fun y => y ^+ 2 + RP2 t) (RP2 c).
Proof.
have P2 := prime_2. have H2 : (0 < 2)%ZZ by []. have H20 : 2%ZZ <> Z0 by [].
elim=> [|k IH] c t poly out Rc Rp; first by case=> <-; rewrite subrr dvdp0.
rewrite [trace_loop _ _ _ _]/=.
case E1: poly_mod => [c1| |] //=.
have R1 := poly_mod_is_reduced H2 E1.
have e1 : RP2 c1 = RP2 c ^+ 2 + RP2 t.
  have /(eqpm_RP P2) := PZ_poly_mod H20 E1.
  by rewrite PZ_padd PZ_pmul redpD redpM expr2.
case E2: poly_divrem => [[q c2]| |] //= E3.
have [R2 D2] := divrem_RP P2 R1 Rp E2.
have [Ro Do] := IH _ _ _ _ R2 Rp E3; split=> //.
rewrite -[X in _ - X]/(ssrnat.iter k.+1 (fun y => y ^+ 2 + RP2 t) (RP2 c)) iterSr -e1.
have := dvdp_add Do (iter_congr (RP2 t) k D2).
by rewrite addrA subrK.
Qed.

Lemma RP2_x2 : RP2 (from_raw opsZ [:: Z0; Z0; 1%ZZ]) = 'X^2.
Proof.
have -> : from_raw opsZ [:: Z0; Z0; 1%ZZ] = [:: Z0; Z0; 1%ZZ] by [].
rewrite /PZ /= !cons_poly_def !mul0r !add0r !addr0 polyC1 mul1r -expr2.
by rewrite /redp rmorphX /= map_polyX.
Qed.

Lemma next_odd (m j : nat) : odd m -> (j.*2.+1 <= m)%nat -> j.*2.+1 <> m ->
  (j.+1.*2.+1 <= m)%nat /\ (j < m./2)%nat.
Proof.
move=> om le ne; have e := odd_double_half m; rewrite om /= in e.
by split; lia.
Qed.

(** ** [P] the fuel of [final_split_2] suffices *)
Theorem final_split_2_total : forall fuel poly d result,
  rnz 2 poly -> (1 <= d)%ZZ -> degs_all (RP2 poly) (Z.to_nat d) -> sqfreep (RP2 poly) ->
  (pdeg poly =? 0)%ZZ = false -> (length poly <= fuel)%coq_nat ->
  exists out, final_split_2 fuel poly d result = Done out.
Proof.
have P2 := prime_2.
elim=> [|f IH] poly d result Rp Hd A Sq Nc Lf.
  by case: Rp => _; case: (poly) Lf => [|x l] //= Lf; lia.
rewrite /= /deg_div. have -> : (d =? 0)%ZZ = false by apply/Z.eqb_neq; lia.
rewrite /= (deg_div_nz P2 Rp Hd A Nc).
case E1: (pdeg poly / d =? 1)%ZZ; first by eexists.
set N := (size (RP2 poly)).-1.
have sP0 : (0 < size (RP2 poly))%nat by rewrite size_poly_gt0; exact: (rnz_RP P2 Rp).
have pdN : pdeg poly = Z.of_nat N.
  by rewrite (pdeg_rnz P2 Rp) /N; move: (size _) sP0 => x; lia.
have big : (Z.to_nat d < N)%nat.
  have /Z.eqb_neq E0 := deg_div_nz P2 Rp Hd A Nc. move/Z.eqb_neq: E1 => E1'.
  have h1 := Z.div_mod (pdeg poly) d ltac:(lia). have h2 := Z.mod_pos_bound (pdeg poly) d ltac:(lia).
  have h3 := Nat2Z.is_nonneg N.
  move: E0 E1' h1 h2 h3; rewrite pdN.
  move: (Z.of_nat N / d)%ZZ (Z.of_nat N mod d)%ZZ => q r E0 E1' h1 h2 h3.
  have q2 : (2 <= q)%ZZ by nia.
  by nia.
have [m [om ltm nco ndv]] := trace_split_spec (n_prime P2) (erefl _) Sq A big.
have Rx : reduced 2 poly_x.
{ rewrite /poly_x /=. split; first by []. by repeat constructor. }
have Ex : RP2 poly_x = 'X^(0.*2.+1) by rewrite (RP_poly_x 2) expr1.
have lpN : length poly = N.+1 by rewrite -(reduced_size P2 (proj1 Rp)) /N prednK.
have lej : (0.*2.+1 <= m)%nat by case: (m) om.
move: {-1}(length poly + 2)%coq_nat (erefl (length poly + 2)%coq_nat) => lf elf.
have ltl : (m./2 - 0 < lf)%nat by rewrite -elf lpN; move: ltm; rewrite -/N; lia.
move: poly_x 0%nat Rx Ex lej ltl {elf}.
elim: lf => [|lf IHl] t j Rt Et lej ltl /=; first by [].
have [c Ec] := trace_loop_total (Z.to_nat (d - 1)) t t (proj1 Rp). rewrite Ec /=.
have [Rc Dc] := trace_loop_spec Rt Rp Ec.
rewrite iter_trk Et in Dc.
have ed : (Z.to_nat (d - 1)).+1 = Z.to_nat d by lia.
rewrite ed in Dc.
have [b Eb] := poly_gcd_total P2 (proj1 Rp) Rc. rewrite Eb /=.
have [Rb [[s Hs] _]] := gcd_rnz_l P2 Rp Rc Eb.
have Gb := gcd_RP P2 (proj1 Rp) Rc Eb.
have Db : RP2 b %| RP2 poly.
{ move/(eqpm_RP P2): Hs. rewrite redpM => ->. exact: dvdp_mulr. }
have sb0 : (0 < size (RP2 b))%nat by rewrite size_poly_gt0; exact: (rnz_RP P2 Rb).
set T := trk (Z.to_nat d) 'X^(j.*2.+1) in Dc.
have cont : (pdeg b =? 0)%ZZ || (pdeg b =? pdeg poly)%ZZ -> j.*2.+1 <> m.
  move=> tst e; rewrite -e -/T in nco ndv; case/orP: tst => /Z.eqb_eq.
  - rewrite (pdeg_rnz P2 Rb) => sb.
    have sb1 : size (RP2 b) = 1%nat by move: (size _) sb0 sb => x; lia.
    move/negP: nco; apply.
    have cop : coprimep (RP2 poly) (RP2 c) by rewrite /coprimep -(eqp_size Gb) sb1.
    have /dvdpP [k ek] := Dc.
    have -> : T = (- k) * RP2 poly + RP2 c by rewrite mulNr -ek opprB subrK.
    by rewrite coprimep_addl_mul.
  - rewrite (pdeg_rnz P2 Rb) (pdeg_rnz P2 Rp) => se.
    have eqb : RP2 b %= RP2 poly.
      by rewrite -dvdp_size_eqp //; apply/eqP; move: (size _) (size _) sb0 sP0 se => x y; lia.
    move/negP: ndv; apply.
    have pc : RP2 poly %| RP2 c by rewrite -(eqp_dvdl _ eqb) (eqp_dvdl _ Gb) dvdp_gcdr.
    by have := dvdp_sub pc Dc; rewrite opprB addrCA subrr addr0.
case tst: ((pdeg b =? 0)%ZZ || (pdeg b =? pdeg poly)%ZZ).
  have [le' ltj] := next_odd om lej (cont tst).
  apply: (IHl _ j.+1 (mul_x2_reduced Rt)) => //.
  - rewrite PZ_pmul redpM Et RP2_x2 -exprD; congr ('X^_).
    by rewrite doubleS; lia.
  - by move: ltl ltj; move: (m./2) => x; lia.
move/negbT: tst; rewrite negb_or => /andP [/negbTE Eb0 /negbTE Ebp].
have lb : (length b <= f)%coq_nat.
  have := dvdp_leq (rnz_RP P2 Rp) Db.
  move/Z.eqb_neq: Ebp; rewrite (pdeg_rnz P2 Rb) (pdeg_rnz P2 Rp).
  rewrite -(reduced_size P2 (proj1 Rb)); move: Lf; rewrite lpN /N.
  by move: (size _) (size _) sb0 sP0 => x y; lia.
have [res1 ->] := IH b d result Rb Hd (degs_all_dvd Db A) (sqfreep_dvd Sq Db) Eb0 lb.
rewrite /=.
have [dv [rem [Ed _]]] := divrem_reduced_total P2 (proj1 Rp) (proj1 Rb). rewrite Ed /=.
have [Rdv Edv] := quot_RP P2 Rp Rb Hs Ed.
have Ddv : RP2 dv %| RP2 poly by rewrite Edv; exact: dvdp_mulr.
apply: IH => //; first exact: (degs_all_dvd Ddv A).
- exact: sqfreep_dvd Sq Ddv.
- exact: (quot_nonconst P2 Rp Rb Rdv Edv Ebp).
- have := size_mul (rnz_RP P2 Rdv) (rnz_RP P2 Rb); rewrite -Edv.
  move/Z.eqb_neq: Eb0; rewrite (pdeg_rnz P2 Rb).
  rewrite -(reduced_size P2 (proj1 Rdv)); move: Lf; rewrite lpN /N.
  have sd0 : (0 < size (RP2 dv))%nat by rewrite size_poly_gt0; exact: (rnz_RP P2 Rdv).
  by move: (size _) (size _) (size _) sb0 sP0 sd0 => x y z; lia.
Qed.

(** ** the equal-degree stage for p = 2 *)
Theorem final_split_total_2 poly d r :
  rnz 2 poly -> (1 <= d)%ZZ -> degs_all (RP2 poly) (Z.to_nat d) -> sqfreep (RP2 poly) ->
  (pdeg poly =? 0)%ZZ = false ->
  exists out, final_split poly 2 d r = Done (out, r).
Proof.
move=> Rp Hd A Sq Nc; rewrite /final_split /=.
have Lf : (length poly <= length poly + 1)%coq_nat by lia.
by have [out ->] := final_split_2_total [::] Rp Hd A Sq Nc Lf; exists out.
Qed.

(** ** every polynomial output by the distinct-degree stage divides its input *)
Section Divides.
Variable p : Z.
Hypothesis Hp : Znumtheory.prime p.
Let Hp2 := prime_ge_2 _ Hp.
Let Hpp : (0 < p)%ZZ. Proof. lia. Qed.
Notation n := (pnat p).
Notation RP l := (redp n (PZ l)).

Lemma degree_loop_divides : forall fuel v w d result v' out,
  rnz p v -> degree_loop fuel p poly_x v w d result = Done (v', out) ->
  exists new, [/\ out = result ++ new, List.Forall (fun ad : list Z * Z => RP ad.1 %| RP v) new
                & RP v' %| RP v].
Proof.
elim=> [|f IH] v w d result v' out Rv //=.
case: (Z.leb_spec (2 * d + 2) (pdeg v)) => _; last first.
  by case=> <- <-; exists [::]; rewrite List.app_nil_r; split.
case Ew: (poly_modpow w p v p) => [w1| |] //=.
have [_ Rw1] := poly_modpow_spec Hp (proj1 Rv) Hpp Ew.
case Ex: (poly_mod_sub w1 poly_x p) => [wx| |] //=.
case Ea: (poly_gcd wx v p) => [ad| |] //=.
have [Rad [[s Hs] [t Ht]]] := gcd_rnz Hp (poly_mod_sub_reduced Hp Ex) Rv Ea.
have Dadv : RP ad %| RP v by move/(eqpm_RP Hp): Ht; rewrite redpM => ->; exact: dvdp_mulr.
case: (Z.ltb_spec 0 (pdeg ad)) => _; last exact: IH.
case Ev: (poly_divrem v ad p) => [[vq rem]| |] //=.
have [Rvq Evq] := quot_RP Hp Rv Rad Ht Ev.
case Ew2: (poly_divrem w1 vq p) => [[q2 w2]| |] //= H.
have Dvq : RP vq %| RP v by rewrite Evq; exact: dvdp_mulr.
have [new [A F Dv']] := IH _ _ _ _ _ _ Rvq H.
exists ((ad, (d + 1)%ZZ) :: new); split; first by rewrite A -List.app_assoc.
- constructor=> //; apply/List.Forall_forall => x hx.
  by apply: dvdp_trans Dvq; move/List.Forall_forall: F; apply.
- exact: dvdp_trans Dv' Dvq.
Qed.

Lemma degree_divides poly out : rnz p poly -> degree poly p = Done out ->
  List.Forall (fun ad : list Z * Z => RP ad.1 %| RP poly) out.
Proof.
move=> Rp; rewrite /degree; move: (length poly + 1)%coq_nat => fuel.
case E: (degree_loop fuel p poly_x poly poly_x 0 [::]) => [[v res]| |] //=.
have [new [A F Dv]] := degree_loop_divides Rp E; rewrite /= in A; subst res.
case: (Z.ltb_spec 0 (pdeg v)) => _ [<-] //.
by apply/List.Forall_app; split=> //; constructor.
Qed.

End Divides.

(** ** [P] for p = 2 the whole factorisation terminates: no fuel runs out, for every input and both profiles *)
Section Top2.
Let P2 := prime_2.

Opaque final_split.
Lemma split_degrees_total_2 : forall degrees e result r,
  List.Forall (dpair_ok 2) degrees ->
  List.Forall (fun ad : list Z * Z => sqfreep (RP2 ad.1)) degrees ->
  exists out, split_degrees degrees 2 e result r = Done out.
Proof.
elim=> [|[prod d] rest IH] e result r Fd Fs /=; first by eexists.
have [[Rp /= [Hd A]] Frest] : dpair_ok 2 (prod, d) /\ List.Forall (dpair_ok 2) rest
  by move: Fd => /List.Forall_cons_iff.
have [/= Sp Srest] : sqfreep (RP2 prod) /\ List.Forall (fun ad : list Z * Z => sqfreep (RP2 ad.1)) rest
  by move: Fs => /List.Forall_cons_iff.
case E0: (pdeg prod =? 0)%ZZ; first exact: IH.
have [spl Ef] := final_split_total_2 r Rp Hd A Sp E0. rewrite Ef /=.
have [res' ->] := normalise_total P2 e result (final_split_pieces P2 Rp Hd A Ef).
by rewrite /=; exact: IH.
Qed.
Transparent final_split.

Lemma split_sqfree_total_2 md : forall sq result r,
  List.Forall (sqgood 2 md) sq -> sqfreep (Rad 2 sq) ->
  exists out, split_sqfree sq 2 result r = Done out.
Proof.
elim=> [|[s e] rest IH] result r Fs S /=; first by eexists.
have [[Rs [_ /= He]] Frest] : sqgood 2 md (s, e) /\ List.Forall (sqgood 2 md) rest
  by move: Fs => /List.Forall_cons_iff.
rewrite /= in S.
have Ss : sqfreep (RP2 s) by apply: sqfreep_dvd S _; exact: dvdp_mulr.
have Srest : sqfreep (Rad 2 rest) by apply: sqfreep_dvd S _; exact: dvdp_mull.
have [degrees Ed] := degree_total P2 Rs. rewrite Ed /=.
have Fd := degree_ok P2 Rs Ss Ed.
have Fq : List.Forall (fun ad : list Z * Z => sqfreep (RP2 ad.1)) degrees.
  apply/List.Forall_forall => ad had.
  by apply: sqfreep_dvd Ss _; move/List.Forall_forall: (degree_divides P2 Rs Ed); apply.
have [[res' r1] ->] := split_degrees_total_2 e result r Fd Fq.
by rewrite /=; exact: IH.
Qed.

Theorem factorize_total_2 md poly poly1 pusize r :
  (Z.of_nat (length poly) <= two64)%ZZ ->
  pusize = 2%ZZ \/ (Z.of_nat (length poly) <= 2)%ZZ ->
  poly_mod poly 2 = Done poly1 -> poly1 <> [::] ->
  exists out r', factorize_mod_p md poly 2 pusize r = Done (out, r').
Proof.
move=> Hl Hpu Em N1.
have H2 : (0 < 2)%ZZ by [].
have -> : factorize_mod_p md poly 2 pusize r = factorize_mod_p md poly 2 2 r.
{ case: Hpu => [->|Hlp] //. rewrite /factorize_mod_p Em. cbn [bind].
  rewrite (@squarefree_pu 2 P2 md poly1 pusize 2) //. have := poly_mod_length P2 Em. lia. }
rewrite /factorize_mod_p Em. cbn [bind].
have [C1 R1] := poly_mod_is_reduced H2 Em.
have Em1 : poly_mod poly1 2 = Done poly1 by apply: poly_mod_id.
have Hl1 : (Z.of_nat (length poly1) <= two64)%ZZ by have := poly_mod_length P2 Em; lia.
have [sq Es] := squarefree_total P2 md Hl1 (or_introl (erefl 2%ZZ)) Em1 N1. rewrite Es. cbn [bind].
have Fs := squarefree_good P2 (Z.lt_le_incl _ _ H2) Es.
have Ss := squarefree_rad P2 Es.
by have [[out r'] ->] := split_sqfree_total_2 [::] r Fs Ss; exists out, r'.
Qed.

End Top2.
