(** * OrderW3DiscInt (C15): the discriminant of an order is the determinant of its trace form --
      in particular an integer: [discriminant_with_min_poly] does not hit
      [assert!(value.is_integer())].

      If [get_mult_table b f = Done t] (the lattice spanned by the rows of b is closed under
      multiplication and its structure constants are integers), f canonical of degree n >= 1 with
      2n < 2^64, then [Order::discriminant] returns det (Tr(w_i w_j)) ([DetInvDiff.trace_form]).
      The mathematics (Euler's trace formula, no roots) is in OrderW3Trace.v / OrderW3TraceTable.v
      (polynomial world, [QcRing]); this file is the matrix world ([QcField]) and the model.
      The two field structures on Qc have the same operations by conversion.
      Style: ssreflect/MathComp. *)
From Coq Require Import ZArith List.
From mathcomp Require Import all_ssreflect ssralg zmodp poly matrix mxalgebra mxpoly.
From mathcomp Require Import ssrZ zify.
From Coq Require Import QArith Qcanon.
From RNT.Model Require Import Base Poly Algebraic LinAlg MultTable Order.
From RNT.Model Require Resultant Round2.
From RNT.Refine Require Import QcField LinAlgQc DetBridge.
From RNT.Refine Require OrderIndex PolyRefine PolyZ AlgMul AlgNormRes DetInvDiff OrderW3Trace OrderW3TraceTable OrderW3Disc.
From RNT.Refine Require ResProofs SubresSpec.
Set Implicit Arguments.
Unset Strict Implicit.
Unset Printing Implicit Defensive.
Import GRing.Theory.
Local Close Scope Z_scope.
Local Close Scope Q_scope.
Local Close Scope Qc_scope.
Local Open Scope ring_scope.

Import Round2.
Local Close Scope Z_scope.
Local Close Scope Q_scope.
Local Close Scope Qc_scope.
Local Open Scope ring_scope.

(** the two views of the basis matrix, and of the trace form *)
Lemma qmx_bmx n (b : list (list Qc)) : qmx n n b = AlgNormRes.bmx n b.
Proof. by apply/matrixP => i j; rewrite !mxE !Lnth_nth. Qed.

Lemma trace_form_trZ t n : DetInvDiff.trace_form t n = OrderW3TraceTable.trZ t n.
Proof. by []. Qed.

Lemma canonZ_canonb (f : list Z) n : PolyZ.canonZ f -> size f = n.+1 -> ResProofs.canonb f = true.
Proof.
move=> cf sf; apply/ResProofs.canonb_spec; right.
move: cf; rewrite /PolyZ.canonZ /PolyRefine.canon PolyRefine.Llast_eq.
case: (f) sf => // x s _ /=.
by rewrite (last_nth 0%Z) /= => /eqP.
Qed.

Section DiscInt.
Variables (m : mode) (f : list Z) (n : nat).
Hypothesis cf : PolyZ.canonZ f.
Hypothesis szf : size f = n.+1.
Hypothesis n0 : (0 < n)%nat.
Hypothesis small : (2 * Z.of_nat n < two64)%Z.
Variable b : list (list Qc).
Hypothesis sb : size b = n.
Hypothesis rb : forall i, (i < n)%nat -> size (seq.nth [::] b i) = n.
Variable t : table.
Hypothesis gt : get_mult_table b f = Done t.

Let lc : Z := lead_coef (Poly f).

Lemma lc_nth : List.nth n f 0%Z = lc.
Proof.
by rewrite /lc lead_coefE (PolyRefine.canon_size_Poly cf) szf /= coef_Poly Lnth_nth.
Qed.

Lemma lc_neq0 : lc <> 0%Z.
Proof.
apply/eqP; rewrite /lc lead_coef_eq0 -size_poly_eq0 (PolyRefine.canon_size_Poly cf) szf.
by [].
Qed.

Lemma square_b : square b.
Proof.
apply/List.Forall_forall => r /(List.In_nth _ _ [::]) [i [hi <-]].
move: hi; rewrite -[length b]/(size b) sb => /ltP hi.
by rewrite Lnth_nth -[length _]/(size _) rb.
Qed.

(** [P] if d * lc f = (-1)^(n(n-1)/2) Res(f', f) (C05: the value of [discriminant f]), the rest of
    [discriminant_with_min_poly] returns det Tr *)
Theorem order_discriminant_trace_form (d : Z) :
  d * lc = (-1) ^+ ((n * n.-1) %/ 2) * resultant (Poly f)^`() (Poly f) ->
  order_discriminant m d b f = Done (\det (DetInvDiff.trace_form t n)).
Proof.
move=> Hd.
have H := @OrderW3TraceTable.disc_value_neutral f n cf szf n0 b sb rb t gt d Hd.
rewrite -qmx_bmx -trace_form_trZ in H.
have [dt Edet] := determinant_total square_b.
have := determinant_ok Edet; rewrite /= -[length b]/(size b) sb => edt.
have pf : pdeg f = Z.of_nat n.
  rewrite /pdeg; case: (f) szf => [|y s] // [ls].
  by rewrite -[length (y :: s)]/((size s).+1) ls; lia.
rewrite /order_discriminant Edet /bind pf.
have -> : assert_ (match f with [::] => false | _ => true end) = Done tt by case: (f) szf.
have u1 : u64_norm m (Z.of_nat n - 1) = Done (Z.of_nat n - 1)%Z.
  rewrite /u64_norm; have -> // : ((0 <=? Z.of_nat n - 1) && (Z.of_nat n - 1 <? two64))%Z = true.
  by apply/andP; split; [apply/Z.leb_le|apply/Z.ltb_lt]; move: small n0; clear; lia.
have u2 : u64_norm m (2 * (Z.of_nat n - 1)) = Done (2 * (Z.of_nat n - 1))%Z.
  rewrite /u64_norm; have -> // : ((0 <=? 2 * (Z.of_nat n - 1)) && (2 * (Z.of_nat n - 1) <? two64))%Z = true.
  by apply/andP; split; [apply/Z.leb_le|apply/Z.ltb_lt]; move: small n0; clear; lia.
rewrite u1 u2 Nat2Z.id.
have -> : coef_at opsZ f n = lc by exact: lc_nth.
have epow : (lc ^ (2 * (Z.of_nat n - 1)))%Z = lc ^+ (n.-1).*2.
  by rewrite -PolyZ.Zpow_exp; congr (lc ^ _)%Z; move: n0; clear; lia.
rewrite epow.
have pw0 : lc ^+ (n.-1).*2 <> 0%Z by apply/eqP; rewrite expf_neq0 //; apply/eqP; exact: lc_neq0.
have q0 : qz (lc ^+ (n.-1).*2) <> Q2Qc 0.
  by move=> e; apply: pw0; apply: q_of_Z_inj; exact: e.
rewrite OrderIndex.div_chk_ok //.
have -> : Qcdiv (Qcmult (Qcmult (qz d) dt) dt) (qz (lc ^+ (n.-1).*2)) = qz (\det (DetInvDiff.trace_form t n)).
  have q0' : q_of_Z (lc ^+ (n.-1).*2) != 0 :> Qc by rewrite q_of_Z_eq0; apply/eqP.
  by rewrite edt H; exact: (mulfK q0' _).
by rewrite OrderIndex.q_is_integer_qz OrderIndex.q_to_integer_qz.
Qed.

(** [P] T5: [Order::discriminant] of an order with an integral multiplication table returns the determinant
    of the trace form: the integrality assertion holds *)
Theorem order_disc_trace_form :
  order_disc m b f = Done (\det (DetInvDiff.trace_form t n)).
Proof.
have cb := canonZ_canonb cf szf.
have lenf : ResProofs.len_ok f = true.
  rewrite /ResProofs.len_ok -[length f]/(size f) szf; apply/Z.leb_le; move: small; rewrite /two64; lia.
have sf : (1 < size f)%nat by rewrite szf.
have [d [D S]] := SubresSpec.discriminant_spec m cb lenf sf.
apply: (@OrderW3Disc.order_disc_intro m b f d); first by rewrite D.
apply: order_discriminant_trace_form.
by move: S; rewrite szf /= /lc.
Qed.

End DiscInt.
