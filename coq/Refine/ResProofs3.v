(** Totality of [resultant_rational], discriminant special cases and partial correctness,
    the sign rule, gcd(f, 0). (stdlib + lia style) *)
From RNT.Model Require Import Base Poly Resultant.
From RNT.Refine Require Import ResLists ResProofs ResProofs2.
From Coq Require Import Lia QArith Qcanon.
Open Scope Z_scope.

(** ** [resultant_rational] returns on canonical inputs *)

Definition qcanon (p : list Qc) : Prop := p = [] \/ qlast p <> qc0.

Lemma qcanonb_qcanon p : qcanonb p = true <-> qcanon p.
Proof.
  unfold qcanonb, qcanon, qlast, qc0. destruct p as [|x t]; [intuition|].
  rewrite Bool.negb_true_iff. split.
  - intros H. right. intros E. rewrite E in H. discriminate.
  - intros [H|H]; [discriminate|]. destruct (qc_is0 (last (x :: t) (Q2Qc 0))) eqn:E; [|reflexivity].
    exfalso. apply H. apply Qc_is_canon. apply Qeq_bool_iff. exact E.
Qed.

Lemma qcanon_from_raw l : qcanon (from_raw opsQc l).
Proof.
  unfold from_raw. destruct (strip opsQc l) eqn:E; [left; reflexivity|right].
  rewrite <- E. pose proof (strip_last_nz opsQc l (Q2Qc 0)) as H. rewrite E in H.
  specialize (H ltac:(congruence)). rewrite <- E in H.
  intros E0. unfold qlast, qc0 in E0. rewrite E0 in H. discriminate.
Qed.

Lemma qrem_chk_canon a b :
  qcanon a -> qcanon b -> a <> [] -> b <> [] ->
  exists r, qrem_chk a b = Done r /\ qcanon r /\
            ((r = a /\ (length a < length b)%nat) \/ ((length r < length b)%nat /\ (length b <= length a)%nat)).
Proof.
  intros Ha Hb Hna Hnb. unfold qrem_chk.
  destruct (length a <? length b)%nat eqn:E.
  - apply Nat.ltb_lt in E. exists a. split; [reflexivity|]. split; [exact Ha|]. left. auto.
  - apply Nat.ltb_ge in E. destruct Hb as [Hb|Hb]; [congruence|].
    destruct (qc_is0 (qlast b)) eqn:E0.
    + exfalso. apply Hb. apply Qc_is_canon. apply Qeq_bool_iff. exact E0.
    + eexists. split; [reflexivity|]. split.
      * unfold div_rem_q. destruct a as [|a0 a']; [congruence|]. destruct b as [|b0 b']; [congruence|].
        destruct (length (a0 :: a') <? length (b0 :: b'))%nat; [exact Ha|].
        match goal with |- context [qdiv_loop ?i ?d ?l ?bb ?t ?q] => destruct (qdiv_loop i d l bb t q) as [q' r'] end.
        cbn [snd]. apply qcanon_from_raw.
      * right. split; [|exact E]. apply q_rem_length; auto.
Qed.

Lemma pdeg_ne {A} (p : list A) : p <> [] -> pdeg p = Z.of_nat (length p) - 1.
Proof. destruct p; [congruence|reflexivity]. Qed.

Lemma rr_total m N fuel : forall a b,
  Z.of_nat N <= two64 -> (mu a b < fuel)%nat -> qcanon a -> qcanon b ->
  (length a <= N)%nat -> (length b <= N)%nat ->
  exists v, resultant_rational_fuel m fuel a b = Done v.
Proof.
  induction fuel as [|k IH]; intros a b HN Hmu Ha Hb Hla Hlb; [lia|].
  rewrite rr_S. destruct a as [|a0 a'] eqn:Ea; [eauto|]. rewrite <- Ea in *.
  destruct b as [|b0 b'] eqn:Eb; [eauto|]. rewrite <- Eb in *.
  assert (Hna : a <> []) by (subst a; congruence).
  assert (Hnb : b <> []) by (subst b; congruence).
  destruct (pdeg b =? 0); [eauto|].
  destruct (qrem_chk_canon a b Ha Hb Hna Hnb) as (r & -> & Hr & Hcase). cbn [bind].
  destruct r as [|r0 r'] eqn:Er; [eauto|]. rewrite <- Er in *.
  assert (Hnr : r <> []) by (subst r; congruence).
  assert (Hmu' : (mu b r < k)%nat).
  { unfold mu in *. destruct Hcase as [[-> Hlt]|[Hlt Hle]].
    - destruct (length b <? length a)%nat eqn:E1; [apply Nat.ltb_lt in E1; lia|].
      destruct (length a <? length b)%nat eqn:E2; [lia|apply Nat.ltb_ge in E2; lia].
    - destruct (length b <? length r)%nat eqn:E1; [apply Nat.ltb_lt in E1; lia|].
      destruct (length a <? length b)%nat; lia. }
  assert (Hlr : (length r <= N)%nat) by (destruct Hcase as [[-> _]|[? ?]]; lia).
  destruct (IH b r HN Hmu' Hb Hr Hlb Hlr) as (sub & ->). cbn [bind].
  assert (Hd : 0 <= pdeg a - pdeg r < two64).
  { rewrite (pdeg_ne a Hna), (pdeg_ne r Hnr).
    assert (0 < length r)%nat by (destruct r; [congruence|cbn [length]; lia]).
    destruct Hcase as [[E _]|[? ?]]; [rewrite E|]; lia. }
  rewrite u64_norm_ok by exact Hd. cbn [bind]. eauto.
Qed.

(** [P] for canonical inputs [resultant_rational] returns a value (no panic, enough fuel). *)
Lemma resultant_rational_total m a b :
  qcanonb a = true -> qcanonb b = true -> len_ok a = true -> len_ok b = true ->
  exists v, resultant_rational m a b = Done v.
Proof.
  intros Ha Hb Hla Hlb. apply qcanonb_qcanon in Ha, Hb. apply len_ok_spec in Hla, Hlb.
  unfold resultant_rational.
  apply (rr_total m (Nat.max (length a) (length b))); auto using mu_loop_fuel; lia.
Qed.

(** ** Discriminant *)

(** [P] sign rule: the flip condition of the code is the parity of m(m-1)/2. *)
Lemma sign_rule m : 0 <= m ->
  ((m mod 4 =? 2) || (m mod 4 =? 3))%bool = Z.odd (m * (m - 1) / 2).
Proof.
  intros Hm. pose proof (Z.div_mod m 4 ltac:(lia)) as E. pose proof (Z.mod_pos_bound m 4 ltac:(lia)) as Hb.
  set (q := m / 4) in *. set (r := m mod 4) in *.
  assert (Hr : r = 0 \/ r = 1 \/ r = 2 \/ r = 3) by lia.
  destruct Hr as [Hr|[Hr|[Hr|Hr]]]; rewrite Hr in *; cbn [Z.eqb orb Pos.eqb].
  - replace (m * (m - 1)) with ((8 * q * q - 2 * q) * 2) by (rewrite E; ring).
    rewrite Z.div_mul by lia. replace (8 * q * q - 2 * q) with (0 + 2 * (4 * q * q - q)) by ring.
    rewrite Z.odd_add_mul_2. reflexivity.
  - replace (m * (m - 1)) with ((8 * q * q + 2 * q) * 2) by (rewrite E; ring).
    rewrite Z.div_mul by lia. replace (8 * q * q + 2 * q) with (0 + 2 * (4 * q * q + q)) by ring.
    rewrite Z.odd_add_mul_2. reflexivity.
  - replace (m * (m - 1)) with ((8 * q * q + 6 * q + 1) * 2) by (rewrite E; ring).
    rewrite Z.div_mul by lia. replace (8 * q * q + 6 * q + 1) with (1 + 2 * (4 * q * q + 3 * q)) by ring.
    rewrite Z.odd_add_mul_2. reflexivity.
  - replace (m * (m - 1)) with ((8 * q * q + 10 * q + 3) * 2) by (rewrite E; ring).
    rewrite Z.div_mul by lia. replace (8 * q * q + 10 * q + 3) with (1 + 2 * (4 * q * q + 5 * q + 1)) by ring.
    rewrite Z.odd_add_mul_2. reflexivity.
Qed.

(** [P] a non-zero constant has discriminant 0 (outside the property, as coded). *)
Lemma discriminant_const m c : c <> 0 -> discriminant m [c] = (true, Done 0).
Proof.
  intros Hc. unfold discriminant. change (pdiff opsZ [c]) with (@nil Z).
  rewrite resultant_zero_r. cbn [fbind]. change (zlast [c]) with c.
  destruct (c =? 0) eqn:E; [apply Z.eqb_eq in E; congruence|].
  change (pdeg [c]) with 0. cbn [Z.modulo Z.div_eucl Z.eqb orb snd].
  rewrite Z.rem_0_l, Z.quot_0_l by exact Hc. reflexivity.
Qed.

(** [P] degree 1: the discriminant is 1, flag true, no panic in either mode. *)
Lemma discriminant_linear m b0 a1 : a1 <> 0 -> discriminant m [b0; a1] = (true, Done 1).
Proof.
  intros Ha. unfold discriminant.
  assert (Ed : pdiff opsZ [b0; a1] = [a1]).
  { unfold pdiff, from_raw. cbn [diff_raw strip rmul opsZ rofZ]. rewrite Z.mul_1_r.
    unfold is0. cbn [reqb opsZ r0]. destruct (a1 =? 0) eqn:E; [apply Z.eqb_eq in E; congruence|reflexivity]. }
  rewrite Ed. rewrite resultant_const_r by (cbn; reflexivity || lia). cbn [fbind].
  change (pdeg [b0; a1]) with 1. change (zlast [b0; a1]) with a1.
  destruct (a1 =? 0) eqn:E; [apply Z.eqb_eq in E; congruence|].
  rewrite Z.pow_1_r. cbn [Z.modulo Z.div_eucl Z.eqb orb snd Pos.eqb].
  rewrite Z.rem_same, Z.quot_same by exact Ha. reflexivity.
Qed.

Lemma diff_raw_length k p : length (diff_raw opsZ k p) = length p.
Proof. revert k. induction p; intros k; cbn [diff_raw length]; auto. Qed.

Lemma pdiff_length p : (length (pdiff opsZ p) <= length p)%nat.
Proof.
  unfold pdiff. destruct p as [|x t]; [cbn; lia|]. unfold from_raw.
  pose proof (strip_length_le opsZ (diff_raw opsZ 1 t)) as H. rewrite diff_raw_length in H. cbn [length]. lia.
Qed.

Lemma pdiff_canon p : canonb (pdiff opsZ p) = true.
Proof. unfold pdiff. destruct p; [reflexivity|apply from_raw_canon]. Qed.

(** [C] for canonical non-zero input: flag true => [discriminant] returned a value. *)
Lemma discriminant_flag_no_panic m f o :
  f <> [] -> canonb f = true -> len_ok f = true ->
  discriminant m f = (true, o) -> exists v, o = Done v.
Proof.
  intros Hf Hc Hl H. unfold discriminant in H.
  destruct f as [|f0 f'] eqn:Ef; [congruence|]. rewrite <- Ef in *.
  destruct (resultant m f (pdiff opsZ f)) as [e1 o1] eqn:Er.
  assert (Hl' : len_ok (pdiff opsZ f) = true).
  { apply len_ok_intro. apply len_ok_spec in Hl. pose proof (pdiff_length f). lia. }
  destruct o1 as [res|t|]; cbn [fbind] in H.
  - destruct (zlast f =? 0) eqn:E.
    + apply canonb_canon in Hc. destruct Hc as [Hc|Hc]; [congruence|]. apply Z.eqb_eq in E. congruence.
    + injection H as _ <-. eauto.
  - injection H as -> <-.
    destruct (resultant_flag_no_panic m f (pdiff opsZ f) _ Hc (pdiff_canon f) Hl Hl' Er) as [v Hv]. discriminate.
  - injection H as -> <-.
    destruct (resultant_flag_no_panic m f (pdiff opsZ f) _ Hc (pdiff_canon f) Hl Hl' Er) as [v Hv]. discriminate.
Qed.

(** [C] when the run returns [d] with flag true, [d] times the leading coefficient is exactly
    the signed value returned by [resultant f f'] (whose flag was true as well). *)
Lemma discriminant_partial m f d :
  discriminant m f = (true, Done d) ->
  exists r, resultant m f (pdiff opsZ f) = (true, Done r) /\
            d * zlast f = (if Z.odd (pdeg f * (pdeg f - 1) / 2) then - r else r).
Proof.
  intros H. unfold discriminant in H. destruct f as [|f0 f'] eqn:Ef; [discriminate|]. rewrite <- Ef in *.
  destruct (resultant m f (pdiff opsZ f)) as [e1 o1] eqn:Er.
  destruct o1 as [res|t|]; cbn [fbind] in H; try discriminate.
  destruct (zlast f =? 0) eqn:E; [discriminate|]. apply Z.eqb_neq in E.
  injection H as He Hd. apply Bool.andb_true_iff in He as [-> Hrem]. apply Z.eqb_eq in Hrem.
  exists res. split; [reflexivity|].
  rewrite <- sign_rule by apply pdeg_nonneg.
  set (res' := if ((pdeg f mod 4 =? 2) || (pdeg f mod 4 =? 3))%bool then - res else res) in *.
  pose proof (Z.quot_rem' res' (zlast f)) as Eq. rewrite Hrem, Hd in Eq. lia.
Qed.

(** ** gcd(f, 0) *)

Lemma strip_id l : l <> [] -> last l 0 <> 0 -> strip opsZ l = l.
Proof.
  induction l as [|x t IH]; [congruence|]. intros _ Hl. cbn [strip].
  destruct t as [|y t'].
  - cbn [strip]. unfold is0. cbn [reqb opsZ r0]. cbn [last] in Hl.
    destruct (x =? 0) eqn:E; [apply Z.eqb_eq in E; congruence|reflexivity].
  - rewrite IH by (congruence || exact Hl). reflexivity.
Qed.

Lemma last_map {A B} (f : A -> B) l d : l <> [] -> last (map f l) (f d) = f (last l d).
Proof.
  induction l as [|x t IH]; [congruence|]. intros _. destruct t as [|y t']; [reflexivity|].
  change (map f (x :: y :: t')) with (f x :: map f (y :: t')).
  change (last (x :: y :: t') d) with (last (y :: t') d). rewrite <- IH by congruence. reflexivity.
Qed.

Lemma fold_gcd_nonneg p : forall acc, 0 <= acc -> 0 <= fold_left Z.gcd p acc.
Proof. induction p as [|y t IH]; intros acc H; cbn [fold_left]; [exact H|apply IH, Z.gcd_nonneg]. Qed.

Lemma fold_gcd_greatest p d : forall acc, (d | acc) -> (forall x, In x p -> (d | x)) -> (d | fold_left Z.gcd p acc).
Proof.
  induction p as [|y t IH]; intros acc Ha Hp; cbn [fold_left]; [exact Ha|].
  apply IH; [apply Z.gcd_greatest; [exact Ha|apply Hp; left; reflexivity]|intros x Hx; apply Hp; right; exact Hx].
Qed.

(** the coefficient gcd of [map (/c) p] is 1 when [c] is (plus or minus) the coefficient gcd of p *)
Lemma fold_gcd_div p c :
  c <> 0 -> Z.abs c = fold_left Z.gcd p 0 -> fold_left Z.gcd (map (fun x => x / c) p) 0 = 1.
Proof.
  intros Hc Habs.
  destruct (fold_gcd_divides p 0) as [_ Hdiv].
  set (p' := map (fun x => x / c) p).
  set (g' := fold_left Z.gcd p' 0).
  assert (Hg0 : 0 <= g') by (apply fold_gcd_nonneg; lia).
  assert (Hcd : forall x, In x p -> (c | x)).
  { intros x Hx. apply Z.divide_abs_l. rewrite Habs. apply Hdiv. exact Hx. }
  (* c * g' divides every coefficient of p, hence divides |c| *)
  assert (H1 : (c * g' | fold_left Z.gcd p 0)).
  { apply fold_gcd_greatest; [apply Z.divide_0_r|]. intros x Hx.
    destruct (Hcd x Hx) as [w Hw]. subst x.
    assert (Hin : In w p').
    { unfold p'. apply in_map_iff. exists (w * c). split; [apply Z.div_mul; exact Hc|exact Hx]. }
    destruct (fold_gcd_divides p' 0) as [_ Hd']. destruct (Hd' w Hin) as [u Hu]. fold g' in Hu.
    exists u. rewrite Hu. ring. }
  rewrite <- Habs in H1. apply Z.divide_abs_r in H1. destruct H1 as [w Hw].
  rewrite Z.abs_involutive in Hw.
  assert (Hk : w * g' = 1 \/ w * g' = -1).
  { destruct (Z.abs_spec c) as [[Hs Ea]|[Hs Ea]]; rewrite Ea in Hw.
    - left. assert (H0 : c * (w * g' - 1) = 0).
      { rewrite Z.mul_sub_distr_l. replace (c * (w * g')) with (w * (c * g')) by ring. lia. }
      apply Z.mul_eq_0 in H0. lia.
    - right. assert (H0 : c * (w * g' + 1) = 0).
      { rewrite Z.mul_add_distr_l. replace (c * (w * g')) with (w * (c * g')) by ring. lia. }
      apply Z.mul_eq_0 in H0. lia. }
  apply Z.divide_1_r_nonneg; [exact Hg0|].
  destruct Hk as [Hk|Hk]; [exists w|exists (- w)]; lia.
Qed.

Lemma content_ne p : p <> [] ->
  content p = (if last p 0 <? 0 then - fold_left Z.gcd p 0 else fold_left Z.gcd p 0).
Proof. destruct p; [congruence|reflexivity]. Qed.

(** [P] gcd(f, 0) for canonical non-zero f: f itself when its leading coefficient is positive,
    its negation otherwise (no exact division is involved: the flag is true). *)
Lemma resultant_gcd_zero_r f :
  f <> [] -> canonb f = true ->
  resultant_gcd f [] = (true, Done (if 0 <? zlast f then f else pneg opsZ f)).
Proof.
  intros Hf Hc. apply canonb_canon in Hc. destruct Hc as [Hc|Hl]; [congruence|].
  unfold resultant_gcd, resultant_smart_gcd. destruct f as [|f0 f'] eqn:Ef; [congruence|]. rewrite <- Ef in *.
  set (G := fold_left Z.gcd f 0).
  assert (HG0 : 0 <= G) by (apply fold_gcd_nonneg; lia).
  assert (HGnz : G <> 0).
  { pose proof (content_nz f Hf Hl) as H. rewrite (content_ne f Hf) in H.
    fold G in H. destruct (last f 0 <? 0); lia. }
  set (c := if zlast f <? 0 then - G else G).
  assert (Ec : content f = c) by (rewrite (content_ne f Hf); reflexivity).
  assert (Hcnz : c <> 0) by (unfold c; destruct (zlast f <? 0); lia).
  assert (Habs : Z.abs c = G) by (unfold c; destruct (zlast f <? 0); lia).
  destruct (fold_gcd_divides f 0) as [_ Hdiv]. fold G in Hdiv.
  assert (Hcd : forall x, In x f -> (c | x)).
  { intros x Hx. apply Z.divide_abs_l. rewrite Habs. apply Hdiv. exact Hx. }
  unfold content_chk at 1. rewrite Ef. rewrite <- Ef. rewrite Ec.
  destruct (c =? 0) eqn:E0; [apply Z.eqb_eq in E0; congruence|]. cbn [flift content_chk].
  rewrite Z.gcd_0_r, Habs.
  unfold poly_div at 1. rewrite Ef. rewrite <- Ef. rewrite E0. cbn [flift poly_div].
  set (f1 := map (fun x => x / c) f).
  assert (Hf1n : f1 <> []) by (unfold f1; rewrite Ef; cbn; congruence).
  assert (Hl1 : last f1 0 = zlast f / c).
  { unfold f1. change 0 with ((fun x => x / c) 0) at 1. rewrite last_map by exact Hf. reflexivity. }
  assert (Hlc : zlast f / c * c = zlast f).
  { destruct (Hcd (zlast f) (last_In f 0 Hf)) as [w Hw]. rewrite Hw, Z.div_mul by exact Hcnz. reflexivity. }
  assert (Hl1pos : 0 < last f1 0).
  { rewrite Hl1. unfold c in *. destruct (zlast f <? 0) eqn:Es.
    - apply Z.ltb_lt in Es. nia.
    - apply Z.ltb_ge in Es. nia. }
  assert (Es1 : from_raw opsZ f1 = f1) by (apply strip_id; [exact Hf1n|lia]).
  rewrite Es1.
  replace (loop_fuel (@nil Z)) with 3%nat by reflexivity. cbn [gcd_loop fbind].
  (* content of the primitive part is 1 *)
  assert (Ec1 : content f1 = 1).
  { rewrite (content_ne f1 Hf1n).
    unfold f1 at 2 3. rewrite (fold_gcd_div f c Hcnz Habs).
    destruct (last f1 0 <? 0) eqn:E; [apply Z.ltb_lt in E; lia|reflexivity]. }
  unfold content_chk. destruct f1 as [|y t] eqn:Ef1; [congruence|]. rewrite <- Ef1 in *.
  rewrite Ec1. cbn [Z.eqb flift].
  unfold poly_div. rewrite Ef1. rewrite <- Ef1. cbn [Z.eqb flift].
  assert (Em1 : map (fun x => x / 1) f1 = f1).
  { rewrite <- (map_id f1) at 2. apply map_ext. intros x. apply Z.div_1_r. }
  rewrite Em1, Es1. unfold poly_mul. rewrite Ef1. rewrite <- Ef1.
  (* multiply back by |content| *)
  assert (Emul : map (fun x => x * G) f1 = if 0 <? zlast f then f else pneg opsZ f).
  { unfold f1. rewrite map_map.
    assert (Hsg : (0 <? zlast f) = negb (zlast f <? 0)).
    { destruct (0 <? zlast f) eqn:A, (zlast f <? 0) eqn:B; try reflexivity.
      - apply Z.ltb_lt in A, B. lia.
      - apply Z.ltb_ge in A, B. lia. }
    rewrite Hsg. unfold c in *. destruct (zlast f <? 0); cbn [negb].
    - unfold pneg. cbn [ropp opsZ]. apply map_ext_in. intros x Hx.
      destruct (Hcd x Hx) as [w Hw]. rewrite Hw, Z.div_mul by exact Hcnz. lia.
    - rewrite <- (map_id f) at 2. apply map_ext_in. intros x Hx.
      destruct (Hcd x Hx) as [w Hw]. rewrite Hw, Z.div_mul by exact Hcnz. reflexivity. }
  rewrite Emul. f_equal. f_equal. apply strip_id.
  - destruct (0 <? zlast f); [exact Hf|]. unfold pneg. rewrite Ef. cbn. congruence.
  - destruct (0 <? zlast f); [exact Hl|]. unfold pneg. cbn [ropp opsZ].
    change 0 with (- 0) at 1. rewrite last_map by exact Hf. fold (zlast f). lia.
Qed.
