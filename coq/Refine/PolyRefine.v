(** * PolyRefine: the list model of [Model/Poly.v] refines MathComp's [{poly R}] (C09).

    Style: ssreflect/MathComp. The abstract specification of a coefficient list [s] is
    [Poly s : {poly R}]; a list is canonical when its last entry is non-zero
    ([canon s := last 1 s != 0], MathComp's own invariant of [polyseq]). *)
From RNT.Model Require Import Base Poly.
From mathcomp Require Import all_ssreflect ssralg poly.
Set Implicit Arguments.
Unset Strict Implicit.
Unset Printing Implicit Defensive.
Import GRing.Theory.
Local Open Scope ring_scope.

(** The record of operations of a MathComp ring; [ofZ] plays [Int::from(i32)]. *)
Definition ops_of (R : ringType) (ofZ : Z -> R) : ring_ops R :=
  mkOps R 0 1 +%R (fun x y => x - y) *%R -%R eq_op ofZ.

(** ** stdlib list functions used by the model = their ssreflect counterparts *)
Lemma Lmap_eq A B (f : A -> B) l : List.map f l = map f l.
Proof. by []. Qed.
Lemma Llength_eq A (l : list A) : length l = size l.
Proof. by []. Qed.
Lemma Lnth_eq A (d : A) l i : List.nth i l d = nth d l i.
Proof. by elim: l i => [|x l IH] [|i] /=. Qed.
Lemma Llast_eq A (d : A) l : List.last l d = last d l.
Proof.
elim: l d => [|x l IH] d //=.
by case: l IH => [|y l] IH //; rewrite IH.
Qed.
Lemma Lfoldr_eq A B (f : A -> B -> B) z l : List.fold_right f z l = foldr f z l.
Proof. by []. Qed.
Lemma Lforallb_eq A (p : A -> bool) l : List.forallb p l = all p l.
Proof. by elim: l => //= x l ->. Qed.

Section Generic.
Variable R : ringType.
Variable ofZ : Z -> R.
Hypothesis ofZ_nat : forall n : nat, ofZ (Z.of_nat n) = n%:R.
Let O := ops_of ofZ.

Implicit Types (s a b d : seq R) (x y c : R).

Definition canon s : bool := last 1 s != 0.

Lemma canon_nil : canon [::]. Proof. exact: oner_neq0. Qed.

Lemma canon_poly (p : {poly R}) : canon p.
Proof. by case: p. Qed.

(** ** [from_raw] computes MathComp's normal form *)
Lemma strip_Poly s : strip O s = Poly s.
Proof.
elim: s => [|x s IH] /=; first by rewrite polyseq0.
rewrite IH polyseq_cons /is0 /=.
case: (polyseq (Poly s)) => [|y t] //=.
by rewrite polyseqC; case: (x == 0).
Qed.

Lemma Poly_strip s : Poly (strip O s) = Poly s.
Proof. by rewrite strip_Poly polyseqK. Qed.

Lemma strip_canon s : canon (strip O s).
Proof. by rewrite strip_Poly canon_poly. Qed.

Lemma canon_PolyK s : canon s -> Poly s = s :> seq R.
Proof. exact: PolyK. Qed.

Lemma strip_id s : canon s -> strip O s = s.
Proof. by move=> cs; rewrite strip_Poly canon_PolyK. Qed.

Lemma strip_idP s : reflect (strip O s = s) (canon s).
Proof. by apply: (iffP idP) => [/strip_id|<-] //; apply: strip_canon. Qed.

Lemma strip_idem s : strip O (strip O s) = strip O s.
Proof. by rewrite strip_id ?strip_canon. Qed.

(** Equal polynomials are stored equal. *)
Lemma Poly_inj_canon a b : canon a -> canon b -> Poly a = Poly b -> a = b.
Proof. by move=> ca cb e; rewrite -(canon_PolyK ca) -(canon_PolyK cb) e. Qed.

Lemma canon_eqP a b : canon a -> canon b -> reflect (a = b) (Poly a == Poly b).
Proof. by move=> ca cb; apply: (iffP eqP) => [|->] //; apply: Poly_inj_canon. Qed.

Lemma canon_size_Poly s : canon s -> size (Poly s) = size s.
Proof. by move=> cs; rewrite canon_PolyK. Qed.

Lemma canon_Poly_eq0 s : canon s -> (Poly s == 0) = (s == [::]).
Proof. by move=> cs; rewrite -size_poly_eq0 canon_size_Poly // size_eq0. Qed.

Lemma canon_cons x s : canon (x :: s) -> canon s.
Proof.
rewrite /canon /=; case: s => [|y s] //= _; exact: oner_neq0.
Qed.

Lemma canon_last s : s != [::] -> canon s = (last 0 s != 0).
Proof. by case: s. Qed.

Lemma lead_last s : lead O s = last 0 s.
Proof. by rewrite /lead Llast_eq. Qed.

Lemma coef_at_nth s i : coef_at O s i = s`_i.
Proof. by rewrite /coef_at Lnth_eq. Qed.

Lemma coef_at_Poly s i : coef_at O s i = (Poly s)`_i.
Proof. by rewrite coef_at_nth coef_Poly. Qed.

(** [deg]: [usize::MAX] exactly for the zero polynomial, [size - 1] otherwise. *)
Lemma pdeg_spec s : canon s ->
  pdeg s = if Poly s == 0 then usize_max else (Z.of_nat (size (Poly s)) - 1)%Z.
Proof.
move=> cs; rewrite canon_Poly_eq0 // canon_size_Poly //.
by case: s {cs}.
Qed.

(** ** pointwise combination *)
Lemma nth_zip_pad (f : R -> R -> R) a b i : f 0 0 = 0 ->
  (zip_pad O f a b)`_i = f a`_i b`_i.
Proof.
move=> f0; elim: a b i => [|x a IH] [|y b] [|i] //=; rewrite ?nth_nil ?f0 //.
- by elim: b i => [|z b IHb] [|i] //=; rewrite ?nth_nil ?f0.
- by elim: a i {IH} => [|z a IHa] [|i] //=; rewrite ?nth_nil ?f0.
Qed.

Lemma Poly_zip_add a b : Poly (zip_pad O +%R a b) = Poly a + Poly b.
Proof. by apply/polyP => i; rewrite coefD !coef_Poly nth_zip_pad ?addr0. Qed.

Lemma Poly_zip_sub a b : Poly (zip_pad O (fun x y => x - y) a b) = Poly a - Poly b.
Proof. by apply/polyP => i; rewrite coefB !coef_Poly nth_zip_pad ?subr0. Qed.

(** ** add, neg, sub: refinement for arbitrary lists, canonical results for canonical arguments *)
Lemma Poly_padd a b : Poly (padd O a b) = Poly a + Poly b.
Proof.
case: a b => [|x a] [|y b]; rewrite /padd ?add0r ?addr0 //.
by rewrite /from_raw Poly_strip Poly_zip_add.
Qed.

Lemma canon_padd a b : canon a -> canon b -> canon (padd O a b).
Proof. by case: a b => [|x a] [|y b] // _ _; apply: strip_canon. Qed.

Lemma Poly_pneg a : Poly (pneg O a) = - Poly a.
Proof.
apply/polyP => i; rewrite coefN !coef_Poly /pneg Lmap_eq.
case: (ltnP i (size a)) => h; first by rewrite (nth_map 0).
by rewrite !nth_default ?size_map // oppr0.
Qed.

Lemma canon_pneg a : canon a -> canon (pneg O a).
Proof.
rewrite /pneg Lmap_eq; case: a => [|x a] //.
by rewrite /canon /= last_map oppr_eq0.
Qed.

Lemma Poly_psub a b : Poly (psub O a b) = Poly a - Poly b.
Proof.
case: a b => [|x a] [|y b]; rewrite /psub.
- by rewrite /= subr0.
- by rewrite Poly_pneg [Poly [::]]/= sub0r.
- by rewrite [Poly [::]]/= subr0.
by rewrite /from_raw Poly_strip Poly_zip_sub.
Qed.

Lemma canon_psub a b : canon a -> canon b -> canon (psub O a b).
Proof.
case: a b => [|x a] [|y b] // ca cb; rewrite /psub; try exact: strip_canon.
exact: canon_pneg.
Qed.

(** ** multiplication *)
Lemma Poly_pscale c a : Poly (pscale O c a) = c *: Poly a.
Proof.
apply/polyP => i; rewrite coefZ !coef_Poly /pscale Lmap_eq.
case: (ltnP i (size a)) => h; first by rewrite (nth_map 0).
by rewrite !nth_default ?size_map // mulr0.
Qed.

Lemma Poly_pmul_raw a b : Poly (pmul_raw O a b) = Poly a * Poly b.
Proof.
elim: a => [|x a IH] /=; first by rewrite mul0r.
rewrite Poly_zip_add Poly_pscale /= !cons_poly_def IH addr0 mulrDl addrC.
by rewrite mul_polyC -mulrA -mulrA commr_polyX.
Qed.

Lemma Poly_pmul a b : Poly (pmul O a b) = Poly a * Poly b.
Proof.
case: a b => [|x a] [|y b]; rewrite /pmul ?mul0r ?mulr0 //.
by rewrite /from_raw Poly_strip Poly_pmul_raw.
Qed.

(** The product is canonical whatever the arguments. *)
Lemma canon_pmul a b : canon (pmul O a b).
Proof. by case: a b => [|x a] [|y b]; rewrite /pmul ?canon_nil //; apply: strip_canon. Qed.

(** Stored results as normal forms of the abstract operations. *)
Lemma padd_polyseq a b : canon a -> canon b -> padd O a b = Poly a + Poly b :> seq R.
Proof. by move=> ca cb; rewrite -Poly_padd canon_PolyK ?canon_padd. Qed.
Lemma psub_polyseq a b : canon a -> canon b -> psub O a b = Poly a - Poly b :> seq R.
Proof. by move=> ca cb; rewrite -Poly_psub canon_PolyK ?canon_psub. Qed.
Lemma pneg_polyseq a : canon a -> pneg O a = - Poly a :> seq R.
Proof. by move=> ca; rewrite -Poly_pneg canon_PolyK ?canon_pneg. Qed.
Lemma pmul_polyseq a b : pmul O a b = Poly a * Poly b :> seq R.
Proof. by rewrite -Poly_pmul canon_PolyK ?canon_pmul. Qed.

(** ** ring laws as equalities of stored vectors *)
Ltac by_inj := apply: Poly_inj_canon;
  rewrite ?canon_padd ?canon_psub ?canon_pneg ?canon_pmul ?canon_nil //.

Lemma padd_comm a b : canon a -> canon b -> padd O a b = padd O b a.
Proof. by move=> ca cb; by_inj; rewrite !Poly_padd addrC. Qed.
Lemma padd_assoc a b d : canon a -> canon b -> canon d ->
  padd O a (padd O b d) = padd O (padd O a b) d.
Proof. by move=> ca cb cd; by_inj; rewrite !Poly_padd addrA. Qed.
Lemma padd_0l a : padd O [::] a = a. Proof. by []. Qed.
Lemma padd_0r a : padd O a [::] = a. Proof. by case: a. Qed.
Lemma padd_negl a : canon a -> padd O (pneg O a) a = [::].
Proof. by move=> ca; by_inj; rewrite Poly_padd Poly_pneg addNr. Qed.
Lemma psub_addN a b : canon a -> canon b -> psub O a b = padd O a (pneg O b).
Proof. by move=> ca cb; by_inj; rewrite Poly_padd Poly_psub Poly_pneg. Qed.
Lemma psub_self a : canon a -> psub O a a = [::].
Proof. by move=> ca; by_inj; rewrite Poly_psub subrr. Qed.
Lemma pmul_assoc a b d : pmul O a (pmul O b d) = pmul O (pmul O a b) d.
Proof. by by_inj; rewrite !Poly_pmul mulrA. Qed.
Lemma pmul_1l a : canon a -> pmul O [:: 1] a = a.
Proof. by move=> ca; by_inj; rewrite Poly_pmul /= cons_poly_def mul0r add0r mul1r. Qed.
Lemma pmul_1r a : canon a -> pmul O a [:: 1] = a.
Proof. by move=> ca; by_inj; rewrite Poly_pmul /= cons_poly_def mul0r add0r mulr1. Qed.
Lemma pmul_0l a : pmul O [::] a = [::]. Proof. by []. Qed.
Lemma pmul_0r a : pmul O a [::] = [::]. Proof. by case: a. Qed.
Lemma pmul_addl a b d : canon a -> canon b -> canon d ->
  pmul O (padd O a b) d = padd O (pmul O a d) (pmul O b d).
Proof. by move=> ca cb cd; by_inj; rewrite !(Poly_pmul, Poly_padd) mulrDl. Qed.
Lemma pmul_addr a b d : canon a -> canon b -> canon d ->
  pmul O a (padd O b d) = padd O (pmul O a b) (pmul O a d).
Proof. by move=> ca cb cd; by_inj; rewrite !(Poly_pmul, Poly_padd) mulrDr. Qed.

(** ** Horner evaluation *)
Lemma pof_horner a x : pof O a x = (Poly a).[x].
Proof.
rewrite /pof /Poly.horner Lfoldr_eq.
by elim: a => [|c a IH] /=; rewrite ?horner0 // horner_cons IH.
Qed.

Lemma pof_nil x : pof O [::] x = 0. Proof. by []. Qed.
Lemma pof_padd a b x : pof O (padd O a b) x = pof O a x + pof O b x.
Proof. by rewrite !pof_horner Poly_padd hornerD. Qed.
Lemma pof_psub a b x : pof O (psub O a b) x = pof O a x - pof O b x.
Proof. by rewrite !pof_horner Poly_psub hornerD hornerN. Qed.
Lemma pof_pneg a x : pof O (pneg O a) x = - pof O a x.
Proof. by rewrite !pof_horner Poly_pneg hornerN. Qed.
Lemma pof_const c x : pof O [:: c] x = c.
Proof. by rewrite /pof /= mul0r add0r. Qed.

(** ** derivative *)
Lemma nth_diff_raw (n : nat) s i :
  (diff_raw O (Z.of_nat n) s)`_i = s`_i *+ (n + i).
Proof.
elim: s n i => [|c s IH] n [|i] /=; rewrite ?nth_nil ?mul0rn //.
- by rewrite ofZ_nat addn0 mulr_natr.
- have -> : (Z.of_nat n + 1)%Z = Z.of_nat n.+1 by rewrite Nat2Z.inj_succ.
  by rewrite IH addSnnS.
Qed.

Lemma Poly_pdiff a : Poly (pdiff O a) = (Poly a)^`().
Proof.
case: a => [|c a]; first by rewrite /= deriv0.
rewrite /pdiff /from_raw Poly_strip.
apply/polyP => i; rewrite coef_deriv !coef_Poly /=.
by rewrite (nth_diff_raw 1) add1n.
Qed.

Lemma canon_pdiff a : canon (pdiff O a).
Proof. by case: a => [|c a]; rewrite ?canon_nil //; apply: strip_canon. Qed.

Lemma pdiff_pmul a b :
  pdiff O (pmul O a b) = padd O (pmul O (pdiff O a) b) (pmul O a (pdiff O b)).
Proof.
apply: Poly_inj_canon; rewrite ?canon_pdiff ?canon_padd ?canon_pmul //.
by rewrite Poly_pdiff Poly_padd !Poly_pmul !Poly_pdiff derivM.
Qed.

Lemma pdiff_padd a b : canon a -> canon b ->
  pdiff O (padd O a b) = padd O (pdiff O a) (pdiff O b).
Proof.
move=> ca cb; apply: Poly_inj_canon; rewrite ?canon_pdiff ?canon_padd ?canon_pdiff //.
by rewrite Poly_pdiff !Poly_padd !Poly_pdiff derivD.
Qed.

End Generic.

(** ** commutative coefficient rings *)
Section GenericCom.
Variable R : comRingType.
Variable ofZ : Z -> R.
Let O := ops_of ofZ.

Lemma pmul_comm (a b : seq R) : pmul O a b = pmul O b a.
Proof. by apply: Poly_inj_canon; rewrite ?canon_pmul // !Poly_pmul mulrC. Qed.

Lemma pof_pmul (a b : seq R) x : pof O (pmul O a b) x = pof O a x * pof O b x.
Proof. by rewrite !pof_horner Poly_pmul hornerM. Qed.

End GenericCom.
