(** Round 2 step, third wave (C06): the power map x -> x^(p^k) of the model ([pow_mod_p] with the table
    mod p) is additive modulo p on an order (the "freshman's dream"), so that the lattice I_p computed
    by [compute_i_p] is { x : x^pow = 0 mod p }, and it is an ideal of the order.
    Method: the regular representation x -> Mrep x (AlgNormMx) reduced modulo p is a ring morphism into
    the matrices over F_p with commuting values (the table is associative and commutative);
    [Frobenius_autD_comm] in that ring of characteristic p; the representation is faithful modulo p
    because the order has a unit.  Style: ssreflect/MathComp. *)
From Coq Require Import ZArith List Znumtheory.
From mathcomp Require Import all_ssreflect ssralg ssrint intdiv zmodp matrix mxalgebra finfield.
From mathcomp Require Import ssrZ zify.
From RNT.Model Require Import Base Poly Algebraic LinAlg MultTable Order Round2.
From RNT.Model Require Hnf.
From RNT.Refine Require Import MatZ HnfOps HnfKernel MultTableOps MultTableNorm AlgNormMx DetBridge FermatBridge Round2W3Mul.
Set Implicit Arguments.
Unset Strict Implicit.
Unset Printing Implicit Defensive.
Import GRing.Theory.
Local Close Scope Z_scope.
Local Open Scope ring_scope.
Ltac Zify.zify_post_hook ::= Z.to_euclidean_division_equations.

Section Frob.
Variables (d p : nat) (T : table).
Let n := d.+1.
Hypothesis pr : prime p.
Hypothesis ct : cube n T.
Hypothesis ha : tassoc T n.
Hypothesis hc : tcomm T n.

(** reduction modulo p as a ring morphism Z -> F_p *)
Definition phi (z : Z) : 'F_p := (int_of_Z z)%:~R.

Fact phi_is_rmorphism : rmorphism phi.
Proof.
split=> [x y|]; first by rewrite /phi rmorphB /= rmorphB.
by split=> [x y|]; rewrite /phi ?rmorphM /= ?rmorphM // rmorph1 /= rmorph1.
Qed.
Canonical phi_additive := Additive phi_is_rmorphism.
Canonical phi_rmorphism := RMorphism phi_is_rmorphism.

Lemma phi_eq0 (z : Z) : (phi z == 0) = (p %| `|int_of_Z z|)%N.
Proof.
rewrite /phi (dvdn_charf (char_Fp pr)); case: (int_of_Z z) => m.
  by rewrite -pmulrn.
by rewrite NegzE -[(- _)%:~R]/(- (m.+1%:~R) : 'F_p) oppr_eq0 -pmulrn.
Qed.

Lemma dvdz_Zdivide (z : Z) : (p %| `|int_of_Z z|)%N <-> (Z.of_nat p | z)%Z.
Proof.
split.
  move=> /dvdnP [k e].
  case: (Z_le_gt_dec 0 z) => hz; [exists (Z.of_nat k) | exists (- Z.of_nat k)%Z]; lia.
case=> q ->; apply/dvdnP; exists (Z.to_nat (Z.abs q)); nia.
Qed.

Lemma phi_eqP (x y : Z) : phi x = phi y <-> (Z.of_nat p | x - y)%Z.
Proof.
have e : phi (x - y)%Z = phi x - phi y by rewrite -[(x - y)%Z]/(x - y) rmorphB.
split=> [exy|/dvdz_Zdivide]; first by apply/dvdz_Zdivide; rewrite -phi_eq0 e exy subrr.
by rewrite -phi_eq0 e subr_eq0 => /eqP.
Qed.

Lemma p_gt0 : (0 < Z.of_nat p)%Z.
Proof. by have := prime_gt0 pr; lia. Qed.

(** ** the regular representation modulo p *)
Definition M (x : list Z) : 'M['F_p]_d.+1 := map_mx phi (Mrep T n x).

Lemma M_tmul a b : size a = n -> size b = n -> M (tmul T n a b) = M a * M b.
Proof. by move=> sa sb; rewrite /M hc // Mrep_tmul // map_mxM. Qed.

Lemma M_comm a b : size a = n -> size b = n -> GRing.comm (M a) (M b).
Proof. by move=> sa sb; rewrite /GRing.comm -!M_tmul // hc. Qed.

Lemma M_congr x y : (forall k, (Z.of_nat p | List.nth k x 0%Z - List.nth k y 0%Z)%Z) -> M x = M y.
Proof.
move=> h; apply/matrixP => j k; rewrite !mxE /rep_coef !rmorph_sum; apply: eq_bigr => i _.
by rewrite !rmorphM; congr (_ * _); apply/phi_eqP; rewrite -!Lnth_nth.
Qed.

(** ** the model's product with a table that is T modulo p *)
Variable tbl : table.
Hypothesis ctb : cube n tbl.
Hypothesis htb : forall i j k, (i < n)%nat -> (j < n)%nat -> (k < n)%nat ->
  (Z.of_nat p | T3 T i j k - T3 tbl i j k)%Z.

Lemma M_mul_mod_p a b r : size a = n -> size b = n -> mul_mod_p a b tbl (Z.of_nat p) = Done r ->
  size r = n /\ M r = M a * M b.
Proof.
move=> sa sb; have p0 : Z.of_nat p <> 0%Z by have := p_gt0; lia.
rewrite (mul_mod_p_closed ctb sa sb p0) => e.
have {e} <- : List.map (fun x => Z.rem x (Z.of_nat p)) (tmul tbl n a b) = r by case: e.
split; first by rewrite -Llength_eq' List.map_length tmul_length.
rewrite -M_tmul //; apply: M_congr => k.
rewrite (@nth_map_Z (fun x => Z.rem x (Z.of_nat p))) //.
have [q hq] := @tmul_congr_table _ _ _ _ a b htb k.
set v := List.nth k (tmul tbl n a b) 0%Z in hq *.
exists (- q - Z.quot v (Z.of_nat p))%Z; have := Z.quot_rem' v (Z.of_nat p); lia.
Qed.

(** ** square-and-multiply: the representation of [pow_mod_p x e] is the e-th power *)
Lemma M_pow_loop fuel : forall (e : Z) prod cur r, size prod = n -> size cur = n ->
  pow_loop fuel e prod cur tbl (Z.of_nat p) = Done r ->
  size r = n /\ M r = M prod * M cur ^+ (Z.to_nat e).
Proof.
elim: fuel => [|fu IH] e prod cur r sp sc //=.
case: ifP => he; last first.
  move=> [<-]; split=> //; have -> : Z.to_nat e = 0%N by lia.
  by rewrite expr0 mulr1.
case E1 : (if (Z.rem e 2 =? 1)%Z then _ else _) => [prod'| |] //=.
case E2 : (mul_mod_p cur cur tbl _) => [cur'| |] //= E3.
have [sc' Mc'] := M_mul_mod_p sc sc E2.
have [sp' Mp'] : size prod' = n /\ M prod' = M prod * M cur ^+ (Z.to_nat (Z.rem e 2)).
  move: E1; case: ifP => h1.
    move=> /(M_mul_mod_p sp sc) [? ->]; split=> //.
    by have -> : Z.to_nat (Z.rem e 2) = 1%N by lia.
  move=> [<-]; split=> //; have -> : Z.to_nat (Z.rem e 2) = 0%N by lia.
  by rewrite expr0 mulr1.
have [sr ->] := IH _ _ _ _ sp' sc' E3; split=> //.
rewrite Mp' Mc' -mulrA -expr2 -exprM -exprD; congr (_ * _ ^+ _).
lia.
Qed.

Lemma M_pow_mod_p x (e : Z) r : size x = n -> (1 <= e)%Z ->
  pow_mod_p x e tbl (Z.of_nat p) = Done r -> size r = n /\ M r = M x ^+ (Z.to_nat e).
Proof.
move=> sx he /(M_pow_loop sx sx) [sr ->]; split=> //.
by rewrite -exprS; congr (_ ^+ _); lia.
Qed.

(** ** Frobenius in the matrix ring over F_p *)
Lemma charM : p \in [char 'M['F_p]_d.+1].
Proof. exact: (rmorph_char (scalar_mx_rmorphism _ d) (char_Fp pr)). Qed.

Lemma frobD k (A B : 'M['F_p]_d.+1) : GRing.comm A B ->
  (A + B) ^+ (expn p k) = A ^+ (expn p k) + B ^+ (expn p k).
Proof.
elim: k A B => [|k IH] A B cAB; first by rewrite expn0 !expr1.
rewrite expnSr !exprM IH // -!(Frobenius_autE charM) Frobenius_autD_comm //.
by apply: commrX; apply/commr_sym/commrX/commr_sym.
Qed.

Lemma Fp_expk (c : 'F_p) k : c ^+ (expn p k) = c.
Proof.
elim: k => [|k IH]; first by rewrite expn0 expr1.
by rewrite expnSr exprM IH; have := expf_card c; rewrite (card_Fp pr).
Qed.

Lemma frobZ k (c : 'F_p) (A : 'M['F_p]_d.+1) : (c *: A) ^+ (expn p k) = c *: A ^+ (expn p k).
Proof. by rewrite exprZn Fp_expk. Qed.

Lemma expr0pk k : (0 : 'M['F_p]_d.+1) ^+ (expn p k) = 0.
Proof. by rewrite expr0n expn_eq0 (gtn_eqF (prime_gt0 pr)). Qed.

(** ** the representation is additive and homogeneous *)
Lemma M_vadd a b : size a = n -> size b = n -> M (MatZ.vadd a b) = M a + M b.
Proof.
move=> sa sb; apply/matrixP => j k; rewrite !mxE /rep_coef -rmorphD -big_split /=.
congr (phi _); apply: eq_bigr => i _.
rewrite -mulrDl -!Lnth_nth MatZ.nth_vadd //.
exact: (etrans sa (esym sb)).
Qed.

Lemma M_vscale (c : Z) a : M (MatZ.vscale c a) = phi c *: M a.
Proof.
apply/matrixP => j k; rewrite !mxE /rep_coef -rmorphM mulr_sumr.
congr (phi _); apply: eq_bigr => i _.
by rewrite -!Lnth_nth MatZ.nth_vscale mulrA.
Qed.

Lemma M_vzero : M (vzero n) = 0.
Proof.
apply/matrixP => j k; rewrite !mxE /rep_coef big1 ?rmorph0 // => i _.
by rewrite -Lnth_nth nth_vzero mul0r.
Qed.

(** the power of a combination *)
Lemma M_lincomb_pow k (c : list Z) (U U' : list (list Z)) :
  wf n U -> wf n U' -> length U = length U' ->
  (forall i, (i < length U)%coq_nat -> M (List.nth i U' [::]) = M (List.nth i U [::]) ^+ (expn p k)) ->
  M (lincomb n c U') = M (lincomb n c U) ^+ (expn p k).
Proof.
elim: c U U' => [|c0 c IH] U U' wU wU' lU h.
  by rewrite !lincomb_nil_l M_vzero expr0pk.
case: U U' wU wU' lU h => [|u U] [|u' U'] wU wU' // lU h.
  by rewrite !lincomb_nil_r M_vzero expr0pk.
case: lU => lU.
have lc m' x r A : lincomb m' (x :: c) (r :: A) = MatZ.vadd (MatZ.vscale x r) (lincomb m' c A) by [].
have [su wU1] := proj1 (wf_cons _ _ _) wU.
have [su' wU1'] := proj1 (wf_cons _ _ _) wU'.
rewrite !lc !M_vadd -?Llength_eq' ?MatZ.vscale_length ?lincomb_length // !M_vscale.
rewrite frobD ?frobZ; last first.
  apply: commr_sym; rewrite /GRing.comm -scalerAl -scalerAr; congr (_ *: _).
  by apply: M_comm; rewrite // -Llength_eq' lincomb_length.
rewrite (h 0%N) /=; last by lia.
by rewrite (IH U U') // => i hi; apply: (h i.+1); rewrite /=; lia.
Qed.

(** ** faithfulness modulo p: the order has a unit *)
Variable one : list Z.
Hypothesis sone : size one = n.
Hypothesis hone : forall x, size x = n -> tmul T n one x = x.

Lemma M_inj z z' : size z = n -> size z' = n -> M z = M z' ->
  forall k, (Z.of_nat p | List.nth k z 0%Z - List.nth k z' 0%Z)%Z.
Proof.
move=> sz sz' e k.
have rowM y : size y = n -> map_mx phi (zrow n y) = map_mx phi (zrow n one) *m M y.
  by move=> sy; rewrite /M -map_mxM -zrow_tmul hc // hone.
case: (ltnP k n) => hk; last first.
  have /leP hk' := hk.
  by rewrite !List.nth_overflow; [exists 0%Z| |]; rewrite // Llength_eq' ?sz ?sz'.
have := rowM z sz; rewrite e -(rowM z' sz') => /matrixP /(_ 0 (Ordinal hk)).
by rewrite !mxE => /phi_eqP; rewrite -!Lnth_nth.
Qed.

Lemma unit_vecE i : Round2.unit_vec n i = unit_from 0 n i.
Proof.
rewrite /Round2.unit_vec /unit_from; apply: List.map_ext => j.
by rewrite Nat.eqb_sym.
Qed.

Lemma q_ge1 k : (1 <= Z.of_nat (expn p k))%Z.
Proof. by have := expn_gt0 p k; rewrite (prime_gt0 pr) /=; lia. Qed.

(** [P] the power map is additive modulo p: x^(p^k) = sum_i x_i e_i^(p^k) (mod p) *)
Theorem pow_additive k x (Phi : list (list Z)) r :
  size x = n -> shape n n Phi ->
  (forall i, (i < n)%coq_nat ->
     pow_mod_p (Round2.unit_vec n i) (Z.of_nat (expn p k)) tbl (Z.of_nat p) = Done (List.nth i Phi [::])) ->
  pow_mod_p x (Z.of_nat (expn p k)) tbl (Z.of_nat p) = Done r ->
  forall j, (Z.of_nat p | List.nth j r 0%Z - List.nth j (lincomb n x Phi) 0%Z)%Z.
Proof.
move=> sx [lP wP] hP hr.
have [sr Mr] := M_pow_mod_p sx (@q_ge1 k) hr.
apply: M_inj => //; first by rewrite -Llength_eq' lincomb_length.
rewrite Mr Nat2Z.id -[in LHS](lincomb_idmat_r n x sx).
have [lI wI] := idmat_shape n.
apply/esym; apply: M_lincomb_pow => //; first by rewrite lI lP.
rewrite lI => i hi.
have su : size (Round2.unit_vec n i) = n by rewrite unit_vecE -Llength_eq' unit_from_length.
have [_ ->] := M_pow_mod_p su (@q_ge1 k) (hP i hi).
by rewrite Nat2Z.id -/(MatZ.row _ _) row_idmat // unit_vecE.
Qed.

(** [P] if x^(p^k) = 0 (mod p) then (y x)^(p^k) = 0 (mod p) *)
Theorem pow_ideal k x y rx r :
  size x = n -> size y = n ->
  pow_mod_p x (Z.of_nat (expn p k)) tbl (Z.of_nat p) = Done rx ->
  (forall j, (Z.of_nat p | List.nth j rx 0%Z)%Z) ->
  pow_mod_p (tmul T n y x) (Z.of_nat (expn p k)) tbl (Z.of_nat p) = Done r ->
  forall j, (Z.of_nat p | List.nth j r 0%Z)%Z.
Proof.
move=> sx sy hrx drx hr j.
have [srx Mrx] := M_pow_mod_p sx (@q_ge1 k) hrx.
have [sr Mr] := M_pow_mod_p (size_tmul T n y x) (@q_ge1 k) hr.
have Mrx0 : M rx = 0.
  rewrite -M_vzero; apply: M_congr => i; rewrite nth_vzero.
  by have [q ->] := drx i; exists q; lia.
have Mr0 : M r = M (vzero n).
  by rewrite Mr M_tmul // exprMn_comm; [rewrite -Mrx Mrx0 mulr0 M_vzero|apply: M_comm].
have := @M_inj r (vzero n) sr (vzero_length n) Mr0 j.
by rewrite nth_vzero; case=> q hq; exists q; lia.
Qed.
End Frob.

(** ** packaged for users of [length], [Z] primes and [Z.pow] *)
From RNT.Refine Require Round2W3Table.

Lemma red_table_congr n (T : table) (p : Z) i j k : cube n T -> (i < n)%nat -> (j < n)%nat -> (k < n)%nat ->
  (p | T3 T i j k
       - T3 (List.map (List.map (List.map (fun x => Z.rem (Z.rem x (p * p)) p))) T) i j k)%Z.
Proof.
move=> ct hi hj hk; rewrite (Round2W3Table.T3_map3 _ ct) //.
set x := T3 T i j k.
exists (p * Z.quot x (p * p) + Z.quot (Z.rem x (p * p)) p)%Z.
have := Z.quot_rem' x (p * p)%Z; have := Z.quot_rem' (Z.rem x (p * p)) p.
move: (Z.quot x (p * p)) (Z.rem x (p * p)) => a b.
move: (Z.quot b p) (Z.rem b p) => c e; nia.
Qed.

Theorem frobenius_pack (deg : nat) (p : Z) (T : table) (one : list Z) (k : nat) :
  (1 <= deg)%coq_nat -> Znumtheory.prime p ->
  cube deg T -> tcomm T deg -> tassoc T deg ->
  length one = deg -> (forall x, length x = deg -> tmul T deg one x = x) ->
  let tbl := List.map (List.map (List.map (fun x => Z.rem (Z.rem x (p * p)) p))) T in
  let q := Z.pow p (Z.of_nat k) in
  (forall x (Phi : list (list Z)) r, length x = deg -> shape deg deg Phi ->
     (forall i, (i < deg)%coq_nat -> pow_mod_p (Round2.unit_vec deg i) q tbl p = Done (List.nth i Phi [::])) ->
     pow_mod_p x q tbl p = Done r ->
     forall j, (p | List.nth j r 0%Z - List.nth j (lincomb deg x Phi) 0%Z)%Z) /\
  (forall x y rx r, length x = deg -> length y = deg ->
     pow_mod_p x q tbl p = Done rx -> (forall j, (p | List.nth j rx 0%Z)%Z) ->
     pow_mod_p (tmul T deg y x) q tbl p = Done r -> forall j, (p | List.nth j r 0%Z)%Z).
Proof.
case: deg => [|d] hd pp ct hc ha sone hone tbl q; first by lia.
have pr := prime_Z_nat pp.
have p1 : (1 < p)%Z by case: pp.
have ep : Z.of_nat (Z.to_nat p) = p by lia.
have eq : q = Z.of_nat (expn (Z.to_nat p) k).
  by rewrite /q expn_pow Nat2Z.inj_pow ep.
have ctb : cube d.+1 tbl.
  have [lt [r1 r2]] := cube_elim ct.
  apply: cube_intro; first by rewrite List.map_length.
  - move=> i hi.
    rewrite (List.nth_indep _ [::] (List.map (List.map (fun x => Z.rem (Z.rem x (p * p)) p)) [::])).
      by rewrite List.map_nth List.map_length r1.
    by rewrite List.map_length lt.
  - move=> i j hi hj.
    rewrite (List.nth_indep _ [::] (List.map (List.map (fun x => Z.rem (Z.rem x (p * p)) p)) [::])).
      rewrite List.map_nth (List.nth_indep _ [::] (List.map (fun x => Z.rem (Z.rem x (p * p)) p) [::])).
        by rewrite List.map_nth List.map_length r2.
      by rewrite List.map_length r1.
    by rewrite List.map_length lt.
have htb : forall i j k0, (i < d.+1)%nat -> (j < d.+1)%nat -> (k0 < d.+1)%nat ->
    (Z.of_nat (Z.to_nat p) | T3 T i j k0 - T3 tbl i j k0)%Z.
  by move=> i j k0 hi hj hk; rewrite ep; apply: (red_table_congr _ ct).
split.
- move=> x Phi r sx sP hP hr j.
  have := @pow_additive d (Z.to_nat p) T pr ha hc tbl ctb htb one sone hone k x Phi r sx sP.
  by rewrite ep -eq; apply.
- move=> x y rx r sx sy hrx drx hr j.
  have := @pow_ideal d (Z.to_nat p) T pr ha hc tbl ctb htb one sone hone k x y rx r sx sy.
  by rewrite ep -eq; apply.
Qed.
