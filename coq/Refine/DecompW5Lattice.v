(** * DecompW5Lattice (C17, fifth wave): the lattices L(D) = { v in O : D divides (d v)(x) modulo p }.

    Setting of DecompW3Proper: f monic of degree n, the order O with stored basis b (w_0 = 1), table
    t = get_mult_table b f, an integer d prime to p with d * b integral, Z[theta] inside O (rows of Sl).
    For a divisor D of f modulo p, [inLD D v] says that the integer polynomial V with V(theta) = d * v
    ([repr]) is divisible by D modulo p.  Facts:
      - the ideal P = (g(theta)) + (p) returned by [decompose] for the factor g is L(g)      ([factor_inLD]);
      - L(D) is closed under sums and integer multiples, L(D1) * L(D2) is inside L(D1 D2)   ([inLD_mul]);
      - L(f mod p) = p O                                                                    ([inLD_f]).
    Elements are written x = X(theta) with [el x X] (X any integer polynomial, reduced modulo f).
    Style: ssreflect/MathComp. *)
From Coq Require Import ZArith List Lia Znumtheory.
From Coq Require Import QArith Qcanon.
From mathcomp Require Import all_ssreflect ssralg poly polydiv ssrint zmodp.
From RNT.Model Require Import Base Poly PolyModP LinAlg MultTable Order FactorModP Ideal PrimeDecomp.
From RNT.Model Require Hnf.
From RNT.Refine Require Import PolyModPArith PolyModPDivList FermatZ PolyZmod PolyModPDiv MonicZ PolyModPGcd FpPoly
  HenselProofs FactorNorm FactorProd FpTotal FmpField FmpSqf FmpProduct FmpIrred FmpDegree FmpSplit FmpFull FmpTotal FmpSafe FmpLists
  DecompDegree DecompW3Factors.
From RNT.Refine Require Import MatZ HnfSpec HnfKernel HnfCanon HnfUnique IdealBasic IdealMul IdealSpec IdealLaws IdealCapZ IdealInv.
From RNT.Refine Require Import PolyRefine PolyZ DecompW3Order DecompW3Lead DecompW3Proper.
From RNT.Refine Require DecompW3Index AlgNormMx AlgNormOrder DetIdeal OrderCanon.
From RNT.Refine Require Import QcRing ResAgree.
From mathcomp Require Import ssrZ zify ring.
Set Implicit Arguments. Unset Strict Implicit. Unset Printing Implicit Defensive.
Import GRing.Theory Pdiv.CommonRing Pdiv.RingMonic.
Local Open Scope ring_scope.

(** ** the product of the returned ideals, computed with the model's [principal] and [ideal_mul]:
    ((O * P_1) * .. * P_1) * P_2 ..., every P_i taken e_i times, starting from the unit ideal O = (1).
    (A definition of the proof development: the code has no such function; each step is the model's [Mul].) *)
Fixpoint mul_list (md : mode) (acc : ideal) (l : list ideal) : outcome ideal :=
  match l with
  | nil => Done acc
  | P :: l' => do a <- ideal_mul md acc P; mul_list md a l'
  end.

Definition expand_ideals (res : list (ideal * Z)) : list ideal :=
  List.flat_map (fun Pe : ideal * Z => List.repeat (fst Pe) (Z.to_nat (snd Pe))) res.

Definition ideal_product (md : mode) (t : table) (res : list (ideal * Z)) : outcome ideal :=
  do one <- principal md t (unit_vec (length t) 0);
  mul_list md one (expand_ideals res).

Definition expand (gs : list (list Z * ideal * Z)) : list (list Z * ideal) :=
  List.flat_map (fun x : list Z * ideal * Z => List.repeat x.1 (Z.to_nat x.2)) gs.

Lemma expand_proj gs : List.map snd (expand gs) = expand_ideals (List.map proj_full gs).
Proof.
elim: gs => [|[[g P] e] gs IH] //=; rewrite List.map_app IH; congr (_ ++ _).
by elim: (Z.to_nat e) => [|k IHk] //=; rewrite IHk.
Qed.

Section Lattice.
Variable p : Z.
Hypothesis Hp : Znumtheory.prime p.
Let Hp2 := prime_ge_2 _ Hp.
Let Hpp : (0 < p)%ZZ. Proof. lia. Qed.
Let Hp0 : p <> Z0. Proof. lia. Qed.

Notation pn := (pnat p).
Notation RP l := (redp pn (PZ l)).

Variables (f : list Z) (n : nat).
Hypothesis cf : canonZ f.
Hypothesis szf : size f = n.+1.
Hypothesis monf : seq.nth 0%Z f n = 1%Z.
Variable b : list (list Qc).
Hypothesis sb : size b = n.
Hypothesis rb : forall i, (i < n)%nat -> size (seq.nth [::] b i) = n.
Hypothesis w0 : first_is_one b.
Variable t : table.
Hypothesis gt : get_mult_table b f = Done t.
Variables (d : Z) (A : nat -> nat -> Z).
Hypothesis Hscale : forall i j, (i < n)%nat -> (j < n)%nat ->
  Qcmult (Algebraic.qz d) (List.nth j (List.nth i b [::]) (Q2Qc 0)) = Algebraic.qz (A i j).
Hypothesis n0 : (0 < n)%nat.
Hypothesis Hd : ~ (p | d)%ZZ.
Variable Sl : list (list Z).
Hypothesis sS : forall k, (k < n)%nat -> size (seq.nth [::] Sl k) = n.
Hypothesis HS : forall k, (k < n)%nat ->
  OrderCanon.qlincomb n (seq.nth [::] Sl k) b = seq.nth [::] (identity fopsQc n) k.

Notation Fz := (PZ f).
Notation tm := (AlgNormMx.tmul t n).
Notation pe0 := (p :: List.repeat 0%Z (n - 1)).
Notation ze := (zelem n b).
Notation rp := (repr n b d).

Let Fmon : Fz \is monic := Fz_monic cf szf monf.
Let sFz : size Fz = n.+1 := size_Fz cf szf.
Let tsh' := tsh cf szf sb rb gt.
Let ts : tshape t := tsh'.1.
Let lt : length t = n := tsh'.2.

Lemma RPf_monic : RP f \is monic.
Proof. exact: monic_map. Qed.

Lemma size_RPf : size (RP f) = n.+1.
Proof. by rewrite /redp size_map_poly_id0 ?sFz // (monicP Fmon) rmorph1 oner_eq0. Qed.

(** ** elements as integer polynomials in theta *)
Definition el (x : list Z) (X : {poly Z}) : Prop := ze x (rmodp X Fz).

Lemma el_ex X : exists x, el x X.
Proof. exact: (zex cf szf monf sb rb sS HS). Qed.

Lemma el_size x X : el x X -> size x = n.
Proof. exact: zelem_size. Qed.

Lemma rmodp_mul_mod (X Y : {poly Z}) : rmodp (rmodp X Fz * rmodp Y Fz) Fz = rmodp (X * Y) Fz.
Proof. by rewrite (rmodp_mulmr Fmon) mulrC (rmodp_mulmr Fmon) mulrC. Qed.

Lemma el_mul x X y Y : el x X -> el y Y -> el (tm x y) (X * Y).
Proof.
move=> ex ey; rewrite /el -rmodp_mul_mod.
exact: (zelem_tmul cf szf monf sb rb gt ex ey).
Qed.

Lemma vadd_nth' (u v : list Z) k : size u = size v ->
  seq.nth 0%Z (vadd u v) k = (seq.nth 0%Z u k + seq.nth 0%Z v k)%ZZ.
Proof. by move=> e; rewrite -!Lnth_eq nth_vadd. Qed.

Lemma size_vadd (u v : list Z) : size u = n -> size v = n -> size (vadd u v) = n.
Proof. by move=> su sv; rewrite -[size _]/(length _) vadd_length -?[length _]/(size _) ?su ?sv. Qed.

Lemma el_add x X y Y : el x X -> el y Y -> el (vadd x y) (X + Y).
Proof.
move=> ex ey; rewrite /el (rmodpD Fmon).
have sx := el_size ex; have sy := el_size ey.
apply: (zelem_add (size_vadd sx sy) _ ex ey) => k.
by rewrite vadd_nth' // sx sy.
Qed.

Lemma el_cong x X Y : el x X -> rmodp X Fz = rmodp Y Fz -> el x Y.
Proof. by rewrite /el => ex <-. Qed.

Lemma el_inj x y X Y : el x X -> el y Y -> rmodp X Fz = rmodp Y Fz -> x = y.
Proof. by rewrite /el => ex ey e; rewrite e in ex; exact: (zelem_inj sb gt ex ey). Qed.

Lemma rmodp_addQ (X Q : {poly Z}) : rmodp (X + Q * Fz) Fz = rmodp X Fz.
Proof. by rewrite (rmodpD Fmon) (rmodp_mull Fmon) addr0. Qed.

Lemma el_pe0 : el pe0 p%:P.
Proof.
rewrite /el rmodp_small; first exact: (zelem_p0 w0 n0 p).
by rewrite sFz ltnS (leq_trans (size_polyC_leq1 _)).
Qed.

Lemma el_ze x X : ze x X -> (size X <= n)%nat -> el x X.
Proof. by move=> zx sX; rewrite /el rmodp_small // sFz ltnS. Qed.

Lemma tm_pe0 y : size y = n -> tm pe0 y = [seq Z.mul p x | x <- y].
Proof. exact: (tmul_p0 cf szf sb rb w0 gt n0 p). Qed.

(** ** [repr] of integer multiples *)
Lemma repr_scale q v V : rp v V -> rp [seq Z.mul q x | x <- v] (q *: V).
Proof.
move=> [sv ev]; split; first by rewrite size_map.
rewrite (E_scale n b q v) -mul_polyC rmorphM /= map_polyC /= mul_polyC ev !scalerA; congr (_ *: _).
by rewrite mulrC.
Qed.

Lemma repr_small v V : rp v V -> (size V <= n)%nat.
Proof.
move=> rv; have [V' rv' eV'] := repr_exists rb Hscale (repr_size rv).
by rewrite (repr_fun rv rv') eV'; apply: size_poly.
Qed.

Lemma redp_p : redp pn p%:P = 0.
Proof.
rewrite redpC; have -> : toF pn p = 0; last by rewrite polyC0.
by apply/(toF_eq0 (n_prime Hp)); rewrite (En Hp) Z_mod_same_full.
Qed.

Lemma toF_d : toF pn d != 0.
Proof.
apply/eqP => /(toF_eq0 (n_prime Hp)); rewrite (En Hp) => /Zmod_divide.
by move=> h; apply: Hd; apply: h.
Qed.

(** ** the lattice L(D) *)
Definition inLD (D : {poly 'F_pn}) (v : list Z) : Prop := exists2 V, rp v V & D %| redp pn V.

Lemma inLD_size D v : inLD D v -> size v = n.
Proof. by case=> V /repr_size. Qed.

Lemma inLD_weaken D D' v : D' %| D -> inLD D v -> inLD D' v.
Proof. by move=> dv [V rv dV]; exists V => //; apply: dvdp_trans dV. Qed.

Lemma inLD_one v : size v = n -> inLD 1 v.
Proof. by move=> sv; have [V rv _] := repr_exists rb Hscale sv; exists V => //; rewrite dvd1p. Qed.

Lemma inLD_add D u v : inLD D u -> inLD D v -> inLD D (vadd u v).
Proof.
move=> [U ru dU] [V rv dV]; have su := repr_size ru; have sv := repr_size rv.
exists (U + V); last by rewrite redpD dvdp_add.
apply: (repr_add (size_vadd su sv) _ ru rv) => k.
by rewrite vadd_nth' // su sv.
Qed.

Lemma inLD_scale D q v : inLD D v -> inLD D (vscale q v).
Proof.
move=> [V rv dV]; exists (q *: V); first exact: repr_scale.
by rewrite -mul_polyC redpM dvdp_mull.
Qed.

Lemma inLD_zero D : inLD D (vzero n).
Proof.
exists (d%:P * 0); first exact: (zelem_repr d (zelem_zero n b)).
by rewrite mulr0 redp0 dvdp0.
Qed.

Lemma inLD_lincomb D (Aa : list (list Z)) c : (forall r, List.In r Aa -> inLD D r) -> inLD D (lincomb n c Aa).
Proof.
elim: c Aa => [|c0 c IH] [|r Aa] H /=; try exact: inLD_zero.
apply: inLD_add; first by apply: inLD_scale; apply: H; left.
by apply: IH => r' ir'; apply: H; right.
Qed.

Lemma inLD_span D (Aa : list (list Z)) v :
  (forall r, List.In r Aa -> inLD D r) -> In_rowspanZ n v Aa -> inLD D v.
Proof. by move=> H [c [_ ->]]; apply: inLD_lincomb. Qed.

(** every multiple of p is in every L(D) *)
Lemma inLD_p D w : size w = n -> inLD D [seq Z.mul p x | x <- w].
Proof.
move=> sw; have [W rw _] := repr_exists rb Hscale sw.
exists (p *: W); first exact: repr_scale.
by rewrite -mul_polyC redpM redp_p mul0r dvdp0.
Qed.

(** the element X(theta) is in L(D) when D divides X modulo p (D a divisor of f modulo p) *)
Lemma el_inLD D x X : D %| RP f -> el x X -> D %| redp pn X -> inLD D x.
Proof.
move=> DF ex DX; exists (d%:P * rmodp X Fz); first exact: (zelem_repr d ex).
rewrite redpM; apply: dvdp_mull.
exact: (dvd_rmodp cf szf monf DF DX).
Qed.

(** products *)
Lemma inLD_mul D1 D2 x y : D1 * D2 %| RP f -> inLD D1 x -> inLD D2 y -> inLD (D1 * D2) (tm x y).
Proof.
move=> DF [X rX dX] [Y rY dY].
have sxy : size (tm x y) = n by exact: AlgNormMx.size_tmul.
have [Zp rZ _] := repr_exists rb Hscale sxy; exists Zp => //.
have eM := repr_mul cf szf monf sb rb gt rX rY rZ.
have eXY : X * Y = rdivp (X * Y) (Poly f) * Poly f + rmodp (X * Y) (Poly f) := rdivp_eq Fmon (X * Y).
have : D1 * D2 %| redp pn (d%:P * Zp).
  rewrite eM.
  have -> : rmodp (X * Y) (Poly f) = X * Y - rdivp (X * Y) (Poly f) * Poly f.
    by rewrite {2}eXY; ring.
  rewrite redpB !redpM; apply: dvdp_sub; first exact: dvdp_mul.
  exact: dvdp_mull.
by rewrite redpM redpC mul_polyC dvdpZr ?toF_d.
Qed.

(** L(f mod p) = p O *)
Lemma inLD_f v : inLD (RP f) v -> exists2 w, size w = n & v = [seq Z.mul p x | x <- w].
Proof.
move=> [V rv dV]; have sv := repr_size rv.
have V0 : redp pn V = 0.
  apply/eqP/negPn/negP => N0; have := dvdp_leq N0 dV; rewrite size_RPf.
  have := leq_trans (size_poly _ _) (repr_small rv) : (size (redp pn V) <= n)%nat.
  by move: (size (redp pn V)) => sz; clear; lia.
have [W eW] : eqpm p V 0 by apply/(eqpm_RP Hp); rewrite V0 redp0.
have {}eW : V = p%:P * W by rewrite eW add0r.
have sW : (size W <= n)%nat.
  have := repr_small rv; rewrite eW mul_polyC size_scale //.
  by apply/eqP.
have [w zw] := zelem_exists sb rb sS HS sW.
have sw := zelem_size zw.
have zpw := zelem_scale p zw; rewrite -mul_polyC -eW in zpw.
have edv : [seq Z.mul d x | x <- v] = [seq Z.mul p x | x <- w] := zelem_inj sb gt (repr_zelem rv) zpw.
have [u1 u2 eb] : Bezout p d 1 by apply: rel_prime_bezout; apply: prime_rel_prime.
exists (vadd (vscale u2 w) (vscale u1 v)).
  by apply: size_vadd; rewrite -[size _]/(length _) vscale_length.
apply: (@vec_ext n) => //.
  by rewrite -[length _]/(size _) size_map; apply: size_vadd; rewrite -[size _]/(length _) vscale_length.
move=> i hi.
have lw : length w = n := sw. have lv : length v = n := sv.
have -> : List.nth i [seq Z.mul p x | x <- vadd (vscale u2 w) (vscale u1 v)] 0%Z
          = (p * List.nth i (vadd (vscale u2 w) (vscale u1 v)) 0)%ZZ by exact: nth_vscale.
rewrite nth_vadd ?vscale_length ?lw ?lv // !nth_vscale.
have : List.nth i [seq Z.mul d x | x <- v] 0%Z = List.nth i [seq Z.mul p x | x <- w] 0%Z by rewrite edv.
have -> : List.nth i [seq Z.mul d x | x <- v] 0%Z = (d * List.nth i v 0)%ZZ by exact: nth_vscale.
have -> : List.nth i [seq Z.mul p x | x <- w] 0%Z = (p * List.nth i w 0)%ZZ by exact: nth_vscale.
move: (List.nth i v 0%Z) (List.nth i w 0%Z) => vi wi E.
have -> : (p * (u2 * wi + u1 * vi) = u2 * (p * wi) + (u1 * p) * vi)%ZZ by clear; lia.
rewrite -E.
have -> : (u2 * (d * vi) + u1 * p * vi = (u1 * p + u2 * d) * vi)%ZZ by clear; lia.
by rewrite eb Z.mul_1_l.
Qed.

(** the ideal returned for the factor g is L(g) *)
Lemma factor_inLD g P elem Ez v : RP g %| RP f -> factor_spec p f n b t g P elem Ez ->
  In_rowspanZ n v (i_hnf P) <-> inLD (RP g) v.
Proof.
move=> Dg S; split.
  move=> vP; have sv : size v = n := span_length n v _ (fs_wf S) vP.
  have [V rV _] := repr_exists rb Hscale sv; exists V => //.
  have [c [c' [sc sc' ev]]] := fs_split S vP.
  exact: (member_dvd Hp cf szf monf sb rb w0 gt Hscale n0 Dg (fs_dvd S) (fs_elem S) sc sc' ev rV).
move=> [V rV dV].
exact: (member_conv Hp cf szf monf sb rb w0 gt Hscale n0 Hd sS HS S rV dV).
Qed.

(** lifting a divisibility modulo p to Z[x] *)
Lemma lift_dvd (G V : {poly Z}) : redp pn G %| redp pn V -> exists K W, V = G * K + p%:P * W.
Proof.
move=> /dvdpP [K' eK].
have /(eqpm_RP Hp) [W ->] : redp pn V = redp pn (G * liftp K').
  by rewrite redpM (liftpK (n_prime Hp)) mulrC.
by exists (liftp K'), W.
Qed.

(** ** membership from d v and p v *)
Lemma bezout_mem (H : list (list Z)) v : wf n H -> size v = n ->
  In_rowspanZ n (vscale d v) H -> In_rowspanZ n (vscale p v) H -> In_rowspanZ n v H.
Proof.
move=> wH sv dvH pvH.
have [u1 u2 eb] : Bezout p d 1 by apply: rel_prime_bezout; apply: prime_rel_prime.
have -> : v = vadd (vscale u2 (vscale d v)) (vscale u1 (vscale p v)).
  apply: (@vec_ext n) => //.
    by rewrite vadd_length !vscale_length.
  move=> i hi; rewrite nth_vadd ?vscale_length // !nth_vscale.
  move: (List.nth i v 0%Z) => vi.
  have -> : (u2 * (d * vi) + u1 * (p * vi))%ZZ = ((u1 * p + u2 * d) * vi)%ZZ by lia.
  by rewrite eb Z.mul_1_l.
by apply: span_vadd => //; apply: span_vscale.
Qed.

(** ** ideals inside / equal to a lattice L(D) *)
Let tas : table_assoc t = true.
Proof. by have [_ _ ->] := AlgNormOrder.order_table_flags cf szf sb rb gt. Qed.
Let hn : (1 <= n)%coq_nat. Proof. exact/leP. Qed.

Record sub_spec (I : ideal) (D : {poly 'F_pn}) : Prop := SubSpec {
  ss_table : i_table I = t;
  ss_hnf : is_hnf (i_hnf I) = true;
  ss_wf : wf n (i_hnf I);
  ss_closed : closed_mult t (i_hnf I);
  ss_sub : forall v, In_rowspanZ n v (i_hnf I) -> inLD D v
}.

Definition lat_spec (I : ideal) (D : {poly 'F_pn}) : Prop :=
  sub_spec I D /\ forall v, inLD D v -> In_rowspanZ n v (i_hnf I).

Lemma factor_lat g P elem Ez : RP g %| RP f -> factor_spec p f n b t g P elem Ez -> lat_spec P (RP g).
Proof.
move=> Dg S; split; last by move=> v /(factor_inLD v Dg S).
split; [exact: (fs_table S) | exact: (fs_hnf S) | exact: (fs_wf S) | exact: (fs_closed S) |].
by move=> v /(factor_inLD v Dg S).
Qed.

Lemma bil_tm' x y : size x = n -> size y = n -> bil t x y = tm x y.
Proof. exact: (bil_tm cf szf sb rb gt). Qed.

Lemma unit_lat md one : principal md t (unit_vec n 0) = Done one -> lat_spec one 1.
Proof.
move=> E.
have lu : length (unit_vec n 0) = length t by rewrite lt unit_vec_length.
have ht : (1 <= length t)%coq_nat by rewrite lt.
have [T1 [H1 [W1 S1]]] := principal_spec md t _ one ts lu ht E.
have C1 := principal_closed md t _ one ts tas lu ht E.
rewrite lt in W1 S1.
split; first by split=> // v /(span_length n v _ W1) /inLD_one.
move=> v /inLD_size sv; apply/S1; exists v; split=> //.
by rewrite bil_tm' ?AlgNormMx.size_unit_vec // (tmul_unit_l cf szf sb rb w0 gt n0 sv).
Qed.

Lemma mul_facts md I J K D1 D2 : sub_spec I D1 -> sub_spec J D2 -> ideal_mul md I J = Done K ->
  [/\ i_table K = t, is_hnf (i_hnf K) = true, wf n (i_hnf K), closed_mult t (i_hnf K)
    & forall v, In_rowspanZ n v (i_hnf K) <-> In_rowspanZ n v (prod_rows t (i_hnf I) (i_hnf J))] /\
  forall x y, In_rowspanZ n x (i_hnf I) -> In_rowspanZ n y (i_hnf J) -> In_rowspanZ n (tm x y) (i_hnf K).
Proof.
move=> SI SJ EK.
have := mul_spec md I J K; rewrite /= (ss_table SI) lt.
move=> /(_ ts (ss_wf SI) (ss_wf SJ) hn EK) [TK [HK [WK SK]]].
have CK : closed_mult t (i_hnf K).
  have := mul_closed md I J K; rewrite /= (ss_table SI) lt.
  by move=> /(_ ts tas (ss_wf SI) (ss_wf SJ) hn EK (ss_closed SJ)).
split=> // x y xI yJ.
have sx : size x = n := span_length n x _ (ss_wf SI) xI.
have sy : size y = n := span_length n y _ (ss_wf SJ) yJ.
rewrite -bil_tm' //.
have := mul_products md I J K x y; rewrite /= (ss_table SI) lt.
by apply=> //; [exact: (ss_wf SI) | exact: (ss_wf SJ)].
Qed.

Lemma mul_total' md I J D1 D2 : sub_spec I D1 -> sub_spec J D2 -> exists K, ideal_mul md I J = Done K.
Proof.
move=> SI SJ.
have := mul_total md I J; rewrite /= (ss_table SI) lt.
by apply=> //; [exact: (ss_wf SI) | exact: (ss_wf SJ) | exact: (ss_table SJ)].
Qed.

(** G1 core: L(D1) L(D2) is inside L(D1 D2) *)
Lemma mul_sub md I J K D1 D2 : D1 * D2 %| RP f ->
  sub_spec I D1 -> sub_spec J D2 -> ideal_mul md I J = Done K -> sub_spec K (D1 * D2).
Proof.
move=> DF SI SJ EK; have [[TK HK WK CK SK] _] := mul_facts SI SJ EK.
split=> // v /SK; apply: inLD_span => r /List.in_map_iff [[x y] [<- /List.in_prod_iff [ix iy]]] /=.
have xI : In_rowspanZ n x (i_hnf I) by apply: span_row_in => //; exact: (ss_wf SI).
have yJ : In_rowspanZ n y (i_hnf J) by apply: span_row_in => //; exact: (ss_wf SJ).
have sx : size x = n := span_length n x _ (ss_wf SI) xI.
have sy : size y = n := span_length n y _ (ss_wf SJ) yJ.
rewrite bil_tm' //; apply: inLD_mul => //; [exact: (ss_sub SI) | exact: (ss_sub SJ)].
Qed.

Lemma pe0_unit : pe0 = [seq Z.mul p x | x <- unit_vec n 0].
Proof. exact: pe0_scale. Qed.

Lemma pe0_in I D : lat_spec I D -> In_rowspanZ n pe0 (i_hnf I).
Proof. by move=> [_ SI]; apply: SI; rewrite pe0_unit; apply: inLD_p; rewrite AlgNormMx.size_unit_vec. Qed.

Lemma pmul_in I D w : lat_spec I D -> size w = n -> In_rowspanZ n [seq Z.mul p x | x <- w] (i_hnf I).
Proof. by move=> [_ SI] sw; apply: SI; apply: inLD_p. Qed.

(** p is in L(D1) L(g) when D1 and g are coprime modulo p *)
Lemma p_in_coprime md I J K (Az : {poly Z}) g :
  redp pn Az * RP g %| RP f -> coprimep (redp pn Az) (RP g) ->
  lat_spec I (redp pn Az) -> lat_spec J (RP g) -> ideal_mul md I J = Done K ->
  In_rowspanZ n pe0 (i_hnf K).
Proof.
move=> DF /Bezout_eq1_coprimepP [[u1 u2] /= eu] LI LJ EK.
have [[_ _ WK _ _] PK] := mul_facts LI.1 LJ.1 EK.
have DA : redp pn Az %| RP f by apply: dvdp_trans DF; apply: dvdp_mulr.
have Dg : RP g %| RP f by apply: dvdp_trans DF; apply: dvdp_mull.
pose X1 := liftp u1 * Az; pose X2 := liftp u2 * PZ g.
have [W eW] : eqpm p (X1 + X2) 1.
  by apply/(eqpm_RP Hp); rewrite redpD !redpM !(liftpK (n_prime Hp)) eu redp1.
have [x1 e1] := el_ex X1; have [x2 e2] := el_ex X2; have [w ew] := el_ex (- W).
have x1I : In_rowspanZ n x1 (i_hnf I).
  by apply: LI.2; apply: (el_inLD DA e1); rewrite redpM dvdp_mull.
have x2J : In_rowspanZ n x2 (i_hnf J).
  by apply: LJ.2; apply: (el_inLD Dg e2); rewrite redpM dvdp_mull.
have sw := el_size ew.
have epw : el (tm pe0 w) (p%:P * - W) := el_mul el_pe0 ew.
have pwJ : In_rowspanZ n (tm pe0 w) (i_hnf J) by rewrite tm_pe0 //; apply: pmul_in LJ sw.
have T1 := PK _ _ x1I (pe0_in LJ); have E1 := el_mul e1 el_pe0.
have T2 := PK _ _ (pe0_in LI) x2J; have E2 := el_mul el_pe0 e2.
have T3 := PK _ _ (pe0_in LI) pwJ; have E3 := el_mul el_pe0 epw.
have -> : pe0 = vadd (vadd (tm x1 pe0) (tm pe0 x2)) (tm pe0 (tm pe0 w)).
  apply: (el_inj el_pe0 (el_add (el_add E1 E2) E3)); congr (rmodp _ _).
  have -> : X1 * p%:P + p%:P * X2 + p%:P * (p%:P * - W) = p%:P * (X1 + X2 - p%:P * W) by ring.
  by rewrite eW; ring.
by apply: span_vadd => //; apply: span_vadd.
Qed.

(** p is in L(Az) L(g) when f = Az g Cz + p h with g and h coprime modulo p (Dedekind's criterion at g) *)
Lemma p_in_dedekind md I J K (Az Cz h : {poly Z}) g :
  Fz = Az * PZ g * Cz + p%:P * h -> coprimep (RP g) (redp pn h) ->
  lat_spec I (redp pn Az) -> lat_spec J (RP g) -> ideal_mul md I J = Done K ->
  In_rowspanZ n pe0 (i_hnf K).
Proof.
move=> eF /Bezout_eq1_coprimepP [[u1 u2] /= eu] LI LJ EK.
have [[_ _ WK _ _] PK] := mul_facts LI.1 LJ.1 EK.
have eRF : RP f = redp pn Az * RP g * redp pn Cz.
  by rewrite eF redpD !redpM redp_p mul0r addr0.
have DA : redp pn Az %| RP f by rewrite eRF -mulrA dvdp_mulr.
have Dg : RP g %| RP f by rewrite eRF; apply: dvdp_mulr; apply: dvdp_mull.
pose U := liftp u1; pose Wh := liftp u2.
have [S eS] : eqpm p (U * PZ g + Wh * h) 1.
  by apply/(eqpm_RP Hp); rewrite redpD !redpM !(liftpK (n_prime Hp)) eu redp1.
have [u eu'] := el_ex U; have [gx eg] := el_ex (PZ g); have [a ea] := el_ex Az.
have [c ec] := el_ex (- (PZ g * Cz * Wh)); have [s es] := el_ex (- S).
have su := el_size eu'; have ss := el_size es.
have epu : el (tm pe0 u) (p%:P * U) := el_mul el_pe0 eu'.
have eps : el (tm pe0 s) (p%:P * - S) := el_mul el_pe0 es.
have puI : In_rowspanZ n (tm pe0 u) (i_hnf I) by rewrite tm_pe0 //; apply: pmul_in LI su.
have psJ : In_rowspanZ n (tm pe0 s) (i_hnf J) by rewrite tm_pe0 //; apply: pmul_in LJ ss.
have gJ : In_rowspanZ n gx (i_hnf J) by apply: LJ.2; apply: (el_inLD Dg eg).
have aI : In_rowspanZ n a (i_hnf I) by apply: LI.2; apply: (el_inLD DA ea).
have cJ : In_rowspanZ n c (i_hnf J).
  by apply: LJ.2; apply: (el_inLD Dg ec); rewrite redpN dvdpNr !redpM -mulrA dvdp_mulr.
have T1 := PK _ _ puI gJ; have E1 := el_mul epu eg.
have T2 := PK _ _ aI cJ; have E2 := el_mul ea ec.
have T3 := PK _ _ (pe0_in LI) psJ; have E3 := el_mul el_pe0 eps.
have -> : pe0 = vadd (vadd (tm (tm pe0 u) gx) (tm a c)) (tm pe0 (tm pe0 s)).
  apply: (el_inj el_pe0 (el_add (el_add E1 E2) E3)).
  have -> : p%:P * U * PZ g + Az * - (PZ g * Cz * Wh) + p%:P * (p%:P * - S)
            = p%:P + (- Wh) * Fz.
    have -> : p%:P * U * PZ g + Az * - (PZ g * Cz * Wh) + p%:P * (p%:P * - S)
              = p%:P * (U * PZ g + Wh * h - p%:P * S) - Wh * (Az * PZ g * Cz + p%:P * h) by ring.
    by rewrite -eF eS; ring.
  by rewrite rmodp_addQ.
by apply: span_vadd => //; apply: span_vadd.
Qed.

(** G2 core: when p is in the product, L(Az) L(g) = L(Az g) *)
Lemma mul_lat md I J K (Az : {poly Z}) g :
  redp pn Az * RP g %| RP f ->
  lat_spec I (redp pn Az) -> lat_spec J (RP g) -> ideal_mul md I J = Done K ->
  In_rowspanZ n pe0 (i_hnf K) -> lat_spec K (redp pn (Az * PZ g)).
Proof.
move=> DF LI LJ EK pK; rewrite redpM.
have SK := mul_sub DF LI.1 LJ.1 EK; split=> // v [V rv dV].
have [[_ _ WK CK _] PK] := mul_facts LI.1 LJ.1 EK.
have DA : redp pn Az %| RP f by apply: dvdp_trans DF; apply: dvdp_mulr.
have Dg : RP g %| RP f by apply: dvdp_trans DF; apply: dvdp_mull.
have sv := repr_size rv.
have pmul y : size y = n -> In_rowspanZ n [seq Z.mul p x | x <- y] (i_hnf K).
  move=> sy; rewrite -tm_pe0 // -bil_tm' //; last by rewrite /= size_Lrepeat; move: n0; clear; lia.
  by have := CK pe0 y; rewrite lt; apply.
apply: bezout_mem => //; last exact: pmul.
rewrite -redpM in dV; have [K' [W eV]] := lift_dvd dV.
have edv : el [seq Z.mul d x | x <- v] V := el_ze (repr_zelem rv) (repr_small rv).
have [a ea] := el_ex Az; have [c ec] := el_ex (PZ g * K'); have [w ew] := el_ex W.
have aI : In_rowspanZ n a (i_hnf I) by apply: LI.2; apply: (el_inLD DA ea).
have cJ : In_rowspanZ n c (i_hnf J) by apply: LJ.2; apply: (el_inLD Dg ec); rewrite redpM dvdp_mulr.
have T1 := PK _ _ aI cJ; have E1 := el_mul ea ec.
have E2 := el_mul el_pe0 ew.
have T2 : In_rowspanZ n (tm pe0 w) (i_hnf K) by rewrite tm_pe0 ?(el_size ew) //; apply: pmul; exact: (el_size ew).
rewrite vscale_map.
have -> : [seq Z.mul d x | x <- v] = vadd (tm a c) (tm pe0 w).
  by apply: (el_inj edv (el_add E1 E2)); rewrite eV; congr (rmodp _ _); ring.
exact: span_vadd.
Qed.

(** ** folding the product *)
Definition PiF (l : list (list Z * ideal)) : {poly 'F_pn} := \prod_(x <- l) RP x.1.
Definition PiZ (l : list (list Z * ideal)) : {poly Z} := \prod_(x <- l) PZ x.1.

Lemma redp_PiZ l : redp pn (PiZ l) = PiF l.
Proof.
rewrite /PiZ /PiF; elim: l => [|x l IH]; first by rewrite !big_nil redp1.
by rewrite !big_cons redpM IH.
Qed.

(** G1: the product lies in L(prod g) *)
Lemma mul_list_sub md l : forall acc D, sub_spec acc D ->
  (forall x, List.In x l -> sub_spec x.2 (RP x.1)) -> D * PiF l %| RP f ->
  exists2 I, mul_list md acc (List.map snd l) = Done I & sub_spec I (D * PiF l).
Proof.
elim: l => [|x l IH] acc D SA SL DF.
  by exists acc => //; rewrite /PiF big_nil mulr1.
rewrite /PiF big_cons -/(PiF l) mulrA in DF *.
have Sx : sub_spec x.2 (RP x.1) by apply: SL; left.
have [K EK] := mul_total' md SA Sx.
have DF' : D * RP x.1 %| RP f by apply: dvdp_trans DF; apply: dvdp_mulr.
have SK := mul_sub DF' SA Sx EK.
have [I EI SI] := IH K (D * RP x.1) SK (fun y iy => SL y (or_intror iy)) DF.
by exists I => //=; rewrite EK.
Qed.

(** G2: the product is L(prod g) when at every step p is in the product *)
Variable h : {poly Z}.
Definition ded (g : list Z) : Prop := coprimep (RP g) (redp pn h).

Fixpoint good_list (Az : {poly Z}) (l : list (list Z * ideal)) : Prop :=
  if l is x :: l' then
    [/\ lat_spec x.2 (RP x.1), coprimep (redp pn Az) (RP x.1) \/ ded x.1 & good_list (Az * PZ x.1) l']
  else True.

Lemma mul_list_lat md l : forall acc Az, lat_spec acc (redp pn Az) ->
  Fz = Az * PiZ l + p%:P * h -> good_list Az l ->
  exists2 I, mul_list md acc (List.map snd l) = Done I & lat_spec I (redp pn (Az * PiZ l)).
Proof.
elim: l => [|x l IH] acc Az LA eF G.
  by exists acc => //; rewrite /PiZ big_nil mulr1.
move: G => /= [Lx Cx G].
rewrite /PiZ big_cons -/(PiZ l) mulrA in eF *.
have [K EK] := mul_total' md LA.1 Lx.1.
have DF : redp pn Az * RP x.1 %| RP f.
  by rewrite eF redpD !redpM redp_p mul0r addr0 dvdp_mulr.
have pK : In_rowspanZ n pe0 (i_hnf K).
  case: Cx => [cop|dd]; first exact: (p_in_coprime DF cop LA Lx EK).
  exact: (p_in_dedekind eF dd LA Lx EK).
have LK := mul_lat DF LA Lx EK pK.
have [I EI LI] := IH K (Az * PZ x.1) LK eF G.
by exists I => //=; rewrite EK.
Qed.

(** the expansion of a list of triples (g, P, e) *)
Lemma PiF_repeat x k l : PiF (List.repeat x k ++ l) = RP x.1 ^+ k * PiF l.
Proof. by elim: k => [|k IH] /=; rewrite ?expr0 ?mul1r // /PiF big_cons -/(PiF _) IH exprS mulrA. Qed.

Lemma PiZ_repeat x k l : PiZ (List.repeat x k ++ l) = PZ x.1 ^+ k * PiZ l.
Proof. by elim: k => [|k IH] /=; rewrite ?expr0 ?mul1r // /PiZ big_cons -/(PiZ _) IH exprS mulrA. Qed.

Lemma PiF_expand gs : PiF (expand gs) = FProd p (List.map factor_of gs).
Proof.
elim: gs => [|[[g P] e] gs IH] /=; first by rewrite /PiF big_nil.
by rewrite PiF_repeat IH.
Qed.

Definition PhiZ (gs : list (list Z * ideal * Z)) : {poly Z} := \prod_(x <- gs) PZ x.1.1 ^+ Z.to_nat x.2.

Lemma PiZ_expand gs : PiZ (expand gs) = PhiZ gs.
Proof.
elim: gs => [|[[g P] e] gs IH] /=; first by rewrite /PiZ /PhiZ !big_nil.
by rewrite PiZ_repeat IH /PhiZ big_cons.
Qed.

Lemma good_block Az g P k rest : lat_spec P (RP g) ->
  ((1 <= k)%coq_nat -> coprimep (redp pn Az) (RP g) \/ ded g) -> ((2 <= k)%coq_nat -> ded g) ->
  good_list (Az * PZ g ^+ k) rest -> good_list Az (List.repeat (g, P) k ++ rest).
Proof.
move=> LP; elim: k Az => [|k IH] Az H1 H2; first by rewrite expr0 mulr1.
rewrite exprS mulrA => G /=; split=> //; first by apply: H1; lia.
apply: IH => // hk; last by apply: H2; lia.
by right; apply: H2; lia.
Qed.

Lemma good_expand gs : forall Az,
  (forall x, List.In x gs -> lat_spec x.1.2 (RP x.1.1) /\ ((2 <= x.2)%ZZ -> ded x.1.1)) ->
  (forall x, List.In x gs -> coprimep (redp pn Az) (RP x.1.1)) ->
  List.ForallOrdPairs (fun x y : list Z * ideal * Z => coprimep (RP x.1.1) (RP y.1.1)) gs ->
  good_list Az (expand gs).
Proof.
elim: gs => [|[[g P] e] gs IH] Az HL HC HP //=.
have [LP Dd] := HL _ (or_introl erefl); rewrite /= in LP Dd.
apply: good_block => //.
- by move=> _; left; apply: (HC _ (or_introl erefl)).
- by move=> hk; apply: Dd; lia.
have [HP1 HP2] : List.Forall (fun y : list Z * ideal * Z => coprimep (RP g) (RP y.1.1)) gs /\
    List.ForallOrdPairs (fun x y : list Z * ideal * Z => coprimep (RP x.1.1) (RP y.1.1)) gs.
  by inversion HP.
apply: IH => //; first by move=> x ix; apply: HL; right.
move=> x ix; rewrite redpM redpX coprimepMl (HC _ (or_intror ix)) /=.
apply: coprimep_expl.
by move/List.Forall_forall: HP1; apply.
Qed.

(** ** p O *)
Definition is_pO (I : ideal) : Prop :=
  forall v, In_rowspanZ n v (i_hnf I) <-> exists2 w, size w = n & v = [seq Z.mul p x | x <- w].

Lemma lat_f_pO I : lat_spec I (RP f) -> is_pO I.
Proof.
move=> [SI LI] v; split; first by move/(ss_sub SI)/inLD_f.
by move=> [w sw ->]; apply: LI; apply: inLD_p.
Qed.

Lemma pO_facts md I : i_table I = t -> is_hnf (i_hnf I) = true -> wf n (i_hnf I) -> is_pO I ->
  principal md t pe0 = Done I /\ norm I = Done (p ^ Z.of_nat n)%ZZ.
Proof.
move=> TI HI WI pI.
have lp : length pe0 = length t by rewrite lt /= List.repeat_length; move: n0; clear; lia.
have ht : (1 <= length t)%coq_nat by rewrite lt.
have [I' E'] := principal_total md t pe0 ts lp ht.
have [T' [H' [W' S']]] := principal_spec md t pe0 I' ts lp ht E'.
rewrite lt in W' S'.
have eH : i_hnf I = i_hnf I'.
  apply: (hnf_unique n) => // v; split.
    move=> /pI [w sw ->]; apply/S'; exists w; split=> //.
    by rewrite bil_tm' ?tm_pe0 //= size_Lrepeat; move: n0; clear; lia.
  move=> /S' [c [lc ->]]; apply/pI; exists c => //.
  by rewrite bil_tm' ?tm_pe0 //= size_Lrepeat; move: n0; clear; lia.
split.
  by rewrite E'; congr Done; case: (I) (I') TI T' eH => [h1 t1] [h2 t2] /= -> -> ->.
have HH := is_hnf_hnf_rows n _ WI HI.
have pej j : (j < n)%nat -> In_rowspanZ n [seq Z.mul p x | x <- unit_vec n j] (i_hnf I).
  by move=> hj; apply/pI; exists (unit_vec n j) => //; rewrite AlgNormMx.size_unit_vec.
have HL : length (i_hnf I) = n.
  apply: (@DecompW3Index.full_rank_scalar n (i_hnf I) p hn) => //.
  move=> j hj; exists [seq Z.mul p x | x <- unit_vec n j]; split; first exact: pej.
  move=> k hk; rewrite Lnth_eq (nth_map 0%Z) ?AlgNormMx.size_unit_vec // AlgNormMx.nth_unit_vec //.
  by rewrite eq_sym; case: (k == j); rewrite /= ?Z.mul_1_r ?Z.mul_0_r.
apply: (norm_p_power n I p n HH HL hn (le_n n)) => j /ltP hj.
have -> : Nat.ltb j n = true by apply/Nat.ltb_lt/ltP.
apply: (lead_is_p n (i_hnf I) j p HH HL) => //; first exact/ltP.
  move=> z [v [/pI [w sw ->] [<- _]]].
  rewrite Lnth_eq; case: (ltnP j (size w)) => hjw; first by rewrite (nth_map 0%Z) //; apply: Z.divide_factor_l.
  by rewrite seq.nth_default ?size_map //; apply: Z.divide_0_r.
exists [seq Z.mul p x | x <- unit_vec n j]; split; [exact: pej | split].
- by rewrite Lnth_eq (nth_map 0%Z) ?AlgNormMx.size_unit_vec // AlgNormMx.nth_unit_vec // eqxx /= Z.mul_1_r.
- move=> c /ltP hc; rewrite Lnth_eq; case: (ltnP c n) => hcn; last first.
    by rewrite seq.nth_default // size_map AlgNormMx.size_unit_vec.
  rewrite (nth_map 0%Z) ?AlgNormMx.size_unit_vec // AlgNormMx.nth_unit_vec //.
  by rewrite (ltn_eqF hc) /= Z.mul_0_r.
Qed.

(** ** the product of the ideals of a run: triples (g, P, e) with P = L(g) *)
Lemma in_expand gs x : List.In x (expand gs) -> exists2 y, List.In y gs & x = y.1.
Proof.
move=> /List.in_flat_map [y [iy ir]]; exists y => //.
exact: (List.repeat_spec _ _ _ ir).
Qed.

Lemma product_start md : exists2 one, principal md t (unit_vec (length t) 0) = Done one & lat_spec one 1.
Proof.
have lu : length (unit_vec n 0) = length t by rewrite lt unit_vec_length.
have ht : (1 <= length t)%coq_nat by rewrite lt.
have [one E] := principal_total md t _ ts lu ht.
by exists one; rewrite ?lt //; apply: unit_lat E.
Qed.

(** G1: the product is inside p O *)
Theorem product_sub md gs :
  (forall x, List.In x gs -> RP x.1.1 %| RP f /\ exists elem Ez, factor_spec p f n b t x.1.1 x.1.2 elem Ez) ->
  FProd p (List.map factor_of gs) = RP f ->
  exists2 I, ideal_product md t (List.map proj_full gs) = Done I &
    [/\ i_table I = t, is_hnf (i_hnf I) = true, wf n (i_hnf I)
      & forall v, In_rowspanZ n v (i_hnf I) -> exists2 w, size w = n & v = [seq Z.mul p x | x <- w]].
Proof.
move=> HF EF; have [one E1 L1] := product_start md.
have SL : forall x, List.In x (expand gs) -> sub_spec x.2 (RP x.1).
  move=> x /in_expand [y /HF [Dy [elem [Ez S]]] ->].
  exact: (factor_lat Dy S).1.
have DF : 1 * PiF (expand gs) %| RP f by rewrite mul1r PiF_expand EF.
have [I EI SI] := mul_list_sub md L1.1 SL DF.
exists I; first by rewrite /ideal_product E1 /= -expand_proj.
split; [exact: (ss_table SI) | exact: (ss_hnf SI) | exact: (ss_wf SI) |].
by move=> v /(ss_sub SI); rewrite mul1r PiF_expand EF => /inLD_f.
Qed.

(** G2: the product is p O when, in Z[x], f = prod g^e + p h and h is prime to every repeated factor
    modulo p (Dedekind's criterion); no condition when no factor is repeated *)
Theorem product_eq md gs :
  (forall x, List.In x gs -> RP x.1.1 %| RP f /\ exists elem Ez, factor_spec p f n b t x.1.1 x.1.2 elem Ez) ->
  List.ForallOrdPairs (fun x y : list Z * ideal * Z => coprimep (RP x.1.1) (RP y.1.1)) gs ->
  Fz = PhiZ gs + p%:P * h ->
  (forall x, List.In x gs -> (2 <= x.2)%ZZ -> ded x.1.1) ->
  exists2 I, ideal_product md t (List.map proj_full gs) = Done I &
    [/\ i_table I = t, is_hnf (i_hnf I) = true, wf n (i_hnf I) & is_pO I].
Proof.
move=> HF HP eF HD; have [one E1 L1] := product_start md.
have G : good_list 1 (expand gs).
  apply: good_expand => //; last by move=> x _; rewrite redp1 coprime1p.
  move=> x ix; split; last exact: HD.
  by have [Dx [elem [Ez S]]] := HF _ ix; apply: (factor_lat Dx S).
have L1' : lat_spec one (redp pn 1) by rewrite redp1.
have eF' : Fz = 1 * PiZ (expand gs) + p%:P * h by rewrite mul1r PiZ_expand.
have [I EI LI] := mul_list_lat md L1' eF' G.
exists I; first by rewrite /ideal_product E1 /= -expand_proj.
have eR : redp pn (1 * PiZ (expand gs)) = RP f.
  by rewrite eF' redpD [redp pn (p%:P * h)]redpM redp_p mul0r addr0.
rewrite eR in LI.
split; [exact: (ss_table LI.1) | exact: (ss_hnf LI.1) | exact: (ss_wf LI.1) | exact: lat_f_pO].
Qed.

End Lattice.
