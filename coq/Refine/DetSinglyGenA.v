(** * DetSinglyGenA (C15): the rows built by [Order::singly_gen] for the root theta of a monic
      minimal polynomial of degree n >= 2 are the unit vectors (the powers 1, x, ..., x^(n-1) are
      already reduced).  Polynomial world ([QcRing], AlgQuot); the result is stated with plain lists
      so that the matrix world ([QcField]) can use it.  Style: ssreflect. *)
From RNT.Model Require Import Base Poly Algebraic LinAlg MultTable Order.
From Coq Require Import QArith Qcanon.
From mathcomp Require Import all_ssreflect ssralg poly polydiv.
From mathcomp Require Import ssrZ zify.
From RNT.Refine Require Import QcRing PolyRefine PolyDiv PolyZ PolyQ AlgMul AlgQuot.
Set Implicit Arguments.
Unset Strict Implicit.
Unset Printing Implicit Defensive.
Import GRing.Theory.
Local Close Scope Z_scope.
Local Close Scope Q_scope.
Local Open Scope ring_scope.

(** the i-th unit vector of length n over BigRational *)
Definition unit_row (n i : nat) : list Qc :=
  List.app (List.repeat q0 i) (Q2Qc 1 :: List.repeat q0 (n - i - 1)).

Section PowerBasis.
Variables (f : seq Z) (n : nat).
Hypothesis szf : size f = n.+1.
Hypothesis n2 : (2 <= n)%N.
Hypothesis monic : seq.nth 0%Z f n = 1%Z.

Lemma monic_canon : canonZ f.
Proof. by rewrite /canonZ /canon (last_nth 0%Z) szf /= monic. Qed.

Let theta : seq Qc := [:: qz 0; qz 1].

Lemma theta_elem : elem n theta.
Proof. by apply/andP; split. Qed.

Lemma Poly_theta : Poly theta = 'X.
Proof. by rewrite /theta /= !cons_poly_def mul0r add0r addr0 -[qz 1]/(1 : Qc) mul1r. Qed.

Lemma alg_new_theta : alg_new f = theta.
Proof.
rewrite /alg_new (pdeg_f szf).
have -> : (Z.of_nat n =? 1)%Z = false by apply/Z.eqb_neq; lia.
by [].
Qed.

Lemma Xn_elem i : (i < n)%N -> elem n (polyseq ('X^i : {poly Qc})).
Proof. by move=> hi; apply: elem_polyseq; rewrite size_polyXn. Qed.

Lemma unit_row_Xn i : (i < n)%N ->
  List.app (polyseq ('X^i : {poly Qc})) (List.repeat q0 (n - i.+1)%coq_nat) = unit_row n i.
Proof.
move=> hi; rewrite /unit_row polyseqXn -cats1 !Lapp_eq !Lrepeat_eq -catA /=.
by congr (_ ++ _ :: nseq _ _); lia.
Qed.

Lemma sg_loop_power cnt : forall i, (i + cnt = n)%N ->
  sg_loop cnt n f theta (polyseq ('X^i : {poly Qc})) = Done (List.map (unit_row n) (iota i cnt)).
Proof.
elim: cnt => [|c IH] i hic //.
have hi : (i < n)%N by lia.
rewrite [sg_loop _ _ _ _ _]/= Llength_eq size_polyXn.
have -> : (i.+1 <=? n)%nat = true by apply/Nat.leb_le; lia.
have [r E [er pr]] := alg_mul_ok monic_canon szf (Xn_elem hi) theta_elem.
rewrite (unit_row_Xn hi) E /bind.
case: c IH hic => [|c] IH hic //.
have hi1 : (i.+1 < n)%N by lia.
have -> : r = polyseq ('X^i.+1 : {poly Qc}).
  apply: (elem_inj er (Xn_elem hi1)); rewrite pr polyseqK Poly_theta polyseqK -exprSr.
  by rewrite modp_small // (size_Fq monic_canon szf) size_polyXn ltnS.
have := IH i.+1; rewrite addSnnS => /(_ hic) ->.
by [].
Qed.

Theorem singly_gen_power_basis :
  singly_gen f (alg_new f) = hnf_reduce (List.map (unit_row n) (List.seq 0 n)).
Proof.
have da : deg_alloc f = Done n by rewrite /deg_alloc (pdeg_f szf) Nat2Z.id; case: (f) szf.
rewrite alg_new_theta /singly_gen da /bind.
have -> : alg_const (Q2Qc 1) = polyseq ('X^0 : {poly Qc}) by rewrite expr0 polyseq1.
by rewrite sg_loop_power // Lseq_eq.
Qed.

End PowerBasis.
