(** "Exactness flag true => the run did not panic" for the sub-resultant routines, totality of
    [resultant_rational] on canonical inputs, discriminant special cases, sign rule, gcd(f, 0).
    (stdlib + lia style) *)
From RNT.Model Require Import Base Poly Resultant.
From RNT.Refine Require Import ResLists ResProofs.
From Coq Require Import Lia QArith Qcanon.
Open Scope Z_scope.

Definition canon (p : list Z) : Prop := p = [] \/ zlast p <> 0.

Lemma canonb_canon p : canonb p = true <-> canon p.
Proof. apply canonb_spec. Qed.

Lemma canon_from_raw l : canon (from_raw opsZ l).
Proof. apply canonb_canon, from_raw_canon. Qed.

Lemma pseudo_rem_canon f g : canon f -> canon (snd (pseudo_div_rem f g)).
Proof.
  intros Hf. unfold pseudo_div_rem.
  destruct f as [|f0 f']; [left; reflexivity|].
  destruct g as [|g0 g']; [exact Hf|].
  destruct (length (f0 :: f') <? length (g0 :: g'))%nat; [exact Hf|].
  match goal with |- context [zdiv_loop ?q ?i ?d ?b ?t ?qq] => destruct (zdiv_loop q i d b t qq) as [[q' r']|] end.
  - cbn [snd]. apply canon_from_raw.
  - left; reflexivity.
Qed.

Lemma last_map_quot h d : h <> [] -> zlast (map (fun c => Z.quot c d) h) = Z.quot (zlast h) d.
Proof.
  unfold zlast. induction h as [|x t IH]; [congruence|]. intros _.
  destruct t as [|y t']; [reflexivity|].
  change (map (fun c => c ÷ d) (x :: y :: t')) with (x ÷ d :: map (fun c => c ÷ d) (y :: t')).
  change (last (x :: y :: t') 0) with (last (y :: t') 0).
  rewrite <- IH by congruence. reflexivity.
Qed.

Lemma last_In {A} (l : list A) d : l <> [] -> In (last l d) l.
Proof.
  induction l as [|x t IH]; [congruence|]. intros _.
  destruct t as [|y t']; [left; reflexivity|].
  right. change (last (x :: y :: t') d) with (last (y :: t') d). apply IH. congruence.
Qed.

Lemma quot_exact_nz x d : x <> 0 -> Z.rem x d = 0 -> Z.quot x d <> 0.
Proof.
  intros Hx Hr Hq. pose proof (Z.quot_rem' x d) as E. rewrite Hr, Hq in E. lia.
Qed.

(** [div_coeffs]: never panics for a non-zero factor; a true flag means the input flag was
    true and the quotient list is again canonical. *)
Lemma div_coeffs_spec h factor ex :
  canon h -> factor <> 0 ->
  exists e1 g1, div_coeffs h factor ex = (e1, Done g1) /\ length g1 = length h /\
                (e1 = true -> ex = true /\ canon g1).
Proof.
  intros Hh Hf. unfold div_coeffs. destruct h as [|h0 h'] eqn:Eh.
  - do 2 eexists. split; [reflexivity|]. split; [reflexivity|]. intros ->. split; [reflexivity|left; reflexivity].
  - rewrite <- Eh in *. assert (Hne : h <> []) by (subst h; congruence).
    destruct (factor =? 0) eqn:E; [apply Z.eqb_eq in E; congruence|].
    do 2 eexists. split; [reflexivity|]. split; [apply map_length|].
    intros He. apply Bool.andb_true_iff in He as [He1 He2]. split; [exact He1|].
    right. rewrite last_map_quot by exact Hne.
    destruct Hh as [Hh|Hh]; [congruence|].
    apply quot_exact_nz; [exact Hh|].
    rewrite forallb_forall in He2. apply Z.eqb_eq. apply He2. apply last_In. exact Hne.
Qed.

Lemma div_coeffs_mono h factor ex e1 o : div_coeffs h factor ex = (e1, o) -> e1 = true -> ex = true.
Proof.
  unfold div_coeffs. destruct h.
  - intros [= <- _]. auto.
  - destruct (factor =? 0); intros [= <- _]; auto. intros H. apply Bool.andb_true_iff in H. tauto.
Qed.

Lemma sub_step_mono f g a b ex e1 o : sub_step f g a b ex = (e1, o) -> e1 = true -> ex = true.
Proof.
  unfold sub_step. destruct (pseudo_rem_chk f g) as [h|t|]; cbn [flift]; try (intros [= <- _]; auto; fail).
  destruct (div_coeffs h (a * b ^ (pdeg f - pdeg g)) ex) as [e0 o0] eqn:Ed.
  pose proof (div_coeffs_mono _ _ _ _ _ Ed) as Hm.
  destruct o0 as [g1|t|]; cbn [fbind]; try (intros [= <- _]; auto; fail).
  destruct (b ^ (pdeg f - pdeg g) =? 0); intros [= <- _]; auto.
  intros H. apply Bool.andb_true_iff in H. tauto.
Qed.

Lemma sub_step_inv f g a b ex o :
  canon f -> g <> [] -> zlast g <> 0 -> a <> 0 -> b <> 0 -> pdeg g <= pdeg f ->
  sub_step f g a b ex = (true, o) ->
  exists g1 a1 b1, o = Done (g, g1, a1, b1) /\ canon g1 /\ a1 <> 0 /\ b1 <> 0 /\ (length g1 < length g)%nat.
Proof.
  intros Hf Hg Hl Ha Hb Hd. unfold sub_step, pseudo_rem_chk.
  destruct (zlast g =? 0) eqn:El; [apply Z.eqb_eq in El; congruence|]. cbn [flift].
  set (delta := pdeg f - pdeg g). assert (Hdelta : 0 <= delta) by (unfold delta; lia).
  set (h := snd (pseudo_div_rem f g)).
  assert (Hh : canon h) by (apply pseudo_rem_canon; exact Hf).
  assert (Hlen : (length h < length g)%nat) by (apply pseudo_rem_length; assumption).
  assert (Hbd : b ^ delta <> 0) by (apply Z.pow_nonzero; assumption).
  assert (Hfac : a * b ^ delta <> 0) by (apply Z.neq_mul_0; split; assumption).
  destruct (div_coeffs_spec h (a * b ^ delta) ex Hh Hfac) as (e1 & g1 & -> & Hl1 & He1).
  cbn [fbind]. destruct (b ^ delta =? 0) eqn:E; [apply Z.eqb_eq in E; congruence|].
  intros [= He <-]. apply Bool.andb_true_iff in He as [He Hr]. destruct (He1 He) as [_ Hg1].
  do 3 eexists. split; [reflexivity|]. split; [exact Hg1|]. split; [exact Hl|]. split; [|lia].
  apply quot_exact_nz; [|apply Z.eqb_eq; exact Hr].
  apply Z.neq_mul_0. split; [apply Z.pow_nonzero; assumption|exact Hb].
Qed.

(** *** [resultant_smart] *)

Lemma flift_inv {A B} e (x : outcome A) (k : A -> flagged B) e' o :
  flift e x k = (e', o) ->
  (exists a, x = Done a /\ k a = (e', o)) \/ (e' = e /\ ((exists t, x = Panic t /\ o = Panic t) \/ (x = OutOfFuel /\ o = OutOfFuel))).
Proof.
  destruct x as [a|t|]; cbn [flift].
  - intros H. left. eauto.
  - intros [= <- <-]. right. split; [reflexivity|left; eauto].
  - intros [= <- <-]. right. split; [reflexivity|right; eauto].
Qed.

Lemma smart_finish_mono m f g b s ex e o : smart_finish m f g b s ex = (e, o) -> e = true -> ex = true.
Proof.
  unfold smart_finish. intros H He.
  apply flift_inv in H as [(_ & _ & H)|[-> _]]; [|exact He].
  destruct (pdeg f =? 0); [injection H as <- _; exact He|].
  apply flift_inv in H as [(_ & _ & H)|[-> _]]; [|exact He].
  destruct g as [|g0 g']; [injection H as <- _; exact He|].
  apply flift_inv in H as [(e0 & _ & H)|[-> _]]; [|exact He].
  destruct (b ^ e0 =? 0); injection H as <- _; [exact He|].
  apply Bool.andb_true_iff in He. tauto.
Qed.

Lemma len_ok_spec {A} (p : list A) : len_ok p = true -> Z.of_nat (length p) <= two64.
Proof. unfold len_ok. apply Z.leb_le. Qed.

Lemma len_ok_intro {A} (p : list A) : Z.of_nat (length p) <= two64 -> len_ok p = true.
Proof. unfold len_ok. apply Z.leb_le. Qed.

Lemma pdeg_bound {A} (p : list A) : p <> [] -> len_ok p = true -> 0 <= pdeg p < two64.
Proof.
  intros Hp Hl. apply len_ok_spec in Hl. destruct p as [|x t]; [congruence|].
  rewrite pdeg_cons. cbn [length] in Hl. lia.
Qed.

Lemma smart_finish_no_panic m f g b s ex e o :
  f <> [] -> len_ok f = true -> g <> [] -> pdeg g = 0 -> b <> 0 ->
  smart_finish m f g b s ex = (e, o) -> forall t, o <> Panic t.
Proof.
  intros Hf Hl Hg Hgd Hb. unfold smart_finish.
  assert (E0 : debug_assert m (pdeg g =? 0) = Done tt) by (rewrite Hgd; destruct m; reflexivity).
  rewrite E0. cbn [flift].
  pose proof (pdeg_bound f Hf Hl) as Hp.
  generalize dependent (pdeg f). intros d Hd.
  destruct (d =? 0) eqn:E1; [intros [= _ <-]; congruence|]. apply Z.eqb_neq in E1.
  assert (E2 : debug_assert m (1 <=? d) = Done tt).
  { destruct m; cbn [debug_assert assert_]; [|reflexivity].
    destruct (1 <=? d) eqn:E; [reflexivity|apply Z.leb_gt in E; lia]. }
  rewrite E2. cbn [flift]. destruct g as [|g0 g']; [congruence|].
  assert (Hb2 : 0 <= d - 1 < two64) by lia.
  rewrite (u64_norm_ok m _ Hb2). cbn [flift].
  generalize dependent (d - 1). intros ee Hee.
  generalize (g0 ^ d). intros rr.
  assert (E3: b ^ ee <> 0) by (apply Z.pow_nonzero; [exact Hb|lia]).
  apply Z.eqb_neq in E3. cbv zeta. rewrite E3.
  intros [= _ <-]. congruence.
Qed.

Lemma smart_loop_mono m fuel : forall f g a b s ex e o,
  smart_loop m fuel f g a b s ex = (e, o) -> e = true -> ex = true.
Proof.
  induction fuel as [|k IH]; intros f g a b s ex e o H He; [injection H as <- _; exact He|].
  rewrite smart_loop_S in H. destruct g as [|g0 g'] eqn:Eg; [injection H as <- _; exact He|]. rewrite <- Eg in *.
  destruct (pdeg g =? 0); [eapply smart_finish_mono; eauto|].
  destruct (pdeg f <? pdeg g); [eapply IH; eauto|].
  destruct (sub_step f g a b ex) as [e1 o1] eqn:Es.
  destruct o1 as [[[[f1 g1] a1] b1]|t|]; cbn [fbind] in H.
  - eapply sub_step_mono; [exact Es|]. eapply IH; eauto.
  - injection H as <- _. eapply sub_step_mono; eauto.
  - injection H as <- _. eapply sub_step_mono; eauto.
Qed.

Lemma smart_loop_flag m N fuel : forall f g a b s ex o,
  Z.of_nat N <= two64 ->
  canon f -> f <> [] -> canon g -> a <> 0 -> b <> 0 -> (length f <= N)%nat -> (length g <= N)%nat ->
  smart_loop m fuel f g a b s ex = (true, o) -> forall t, o <> Panic t.
Proof.
  induction fuel as [|k IH]; intros f g a b s ex o HN Hf Hfn Hg Ha Hb Hlf Hlg H; [injection H as _ <-; congruence|].
  rewrite smart_loop_S in H. destruct g as [|g0 g'] eqn:Eg; [injection H as _ <-; congruence|]. rewrite <- Eg in *.
  assert (Hgn : g <> []) by (subst g; congruence).
  assert (Hlast : zlast g <> 0) by (destruct Hg; [congruence|assumption]).
  destruct (pdeg g =? 0) eqn:E0.
  - apply Z.eqb_eq in E0.
    assert (Hok : len_ok f = true) by (apply len_ok_intro; lia).
    exact (smart_finish_no_panic m f g b _ ex true o Hfn Hok Hgn E0 Hb H).
  - destruct (pdeg f <? pdeg g) eqn:E1.
    + exact (IH g f a b _ ex o HN Hg Hgn Hf Ha Hb Hlg Hlf H).
    + apply Z.ltb_ge in E1.
      destruct (sub_step f g a b ex) as [e1 o1] eqn:Es.
      assert (He1 : e1 = true).
      { destruct o1 as [[[[f1 g1] a1] b1]|t|]; cbn [fbind] in H.
        - eapply smart_loop_mono; eauto.
        - injection H as -> _. reflexivity.
        - injection H as -> _. reflexivity. }
      subst e1.
      destruct (sub_step_inv f g a b ex o1 Hf Hgn Hlast Ha Hb E1 Es) as (g1 & a1 & b1 & -> & Hg1 & Ha1 & Hb1 & Hl1).
      cbn [fbind] in H.
      exact (IH g g1 a1 b1 _ true o HN Hg Hgn Hg1 Ha1 Hb1 Hlg ltac:(lia) H).
Qed.

(** [C] for canonical inputs: if the exactness flag of the run is true, the run did not panic
    (and by [resultant_no_outoffuel] returned a value). *)
Lemma resultant_flag_no_panic m f g o :
  canonb f = true -> canonb g = true -> len_ok f = true -> len_ok g = true ->
  resultant m f g = (true, o) -> exists v, o = Done v.
Proof.
  intros Hf Hg Hlf Hlg H.
  pose proof (resultant_no_outoffuel m f g) as Hoof. rewrite H in Hoof. cbn [snd] in Hoof.
  assert (Hp : forall t, o <> Panic t).
  { unfold resultant, resultant_smart in H.
    destruct f as [|f0 f'] eqn:Ef; [injection H as <-; congruence|]. rewrite <- Ef in *.
    apply len_ok_spec in Hlf, Hlg.
    eapply (smart_loop_flag m (Nat.max (length f) (length g))); try exact H;
      try (apply canonb_canon; assumption); try lia. subst f; congruence. }
  destruct o as [v|t|]; [eauto|exfalso; eapply Hp; reflexivity|congruence].
Qed.

(** *** [resultant_smart_gcd] *)

Lemma gcd_loop_mono fuel : forall f g a b ex e o,
  gcd_loop fuel f g a b ex = (e, o) -> e = true -> ex = true.
Proof.
  induction fuel as [|k IH]; intros f g a b ex e o H He; [injection H as <- _; exact He|].
  rewrite gcd_loop_S in H. destruct g as [|g0 g'] eqn:Eg; [injection H as <- _; exact He|]. rewrite <- Eg in *.
  destruct (pdeg g =? 0); [injection H as <- _; exact He|].
  destruct (pdeg f <? pdeg g); [eapply IH; eauto|].
  destruct (sub_step f g a b ex) as [e1 o1] eqn:Es.
  destruct o1 as [[[[f1 g1] a1] b1]|t|]; cbn [fbind] in H.
  - eapply sub_step_mono; [exact Es|]. eapply IH; eauto.
  - injection H as <- _. eapply sub_step_mono; eauto.
  - injection H as <- _. eapply sub_step_mono; eauto.
Qed.

Lemma gcd_loop_flag fuel : forall f g a b ex o,
  canon f -> canon g -> a <> 0 -> b <> 0 ->
  gcd_loop fuel f g a b ex = (true, o) ->
  o = OutOfFuel \/ exists ff, o = Done ff /\ canon ff.
Proof.
  induction fuel as [|k IH]; intros f g a b ex o Hf Hg Ha Hb H; [injection H as _ <-; auto|].
  rewrite gcd_loop_S in H. destruct g as [|g0 g'] eqn:Eg; [injection H as _ <-; eauto|]. rewrite <- Eg in *.
  assert (Hgn : g <> []) by (subst g; congruence).
  assert (Hlast : zlast g <> 0) by (destruct Hg; [congruence|assumption]).
  destruct (pdeg g =? 0) eqn:E0.
  - injection H as _ <-. right. eexists. split; [reflexivity|]. right. cbn. lia.
  - destruct (pdeg f <? pdeg g) eqn:E1.
    + exact (IH g f a b ex o Hg Hf Ha Hb H).
    + apply Z.ltb_ge in E1.
      destruct (sub_step f g a b ex) as [e1 o1] eqn:Es.
      assert (He1 : e1 = true).
      { destruct o1 as [[[[f1 g1] a1] b1]|t|]; cbn [fbind] in H.
        - eapply gcd_loop_mono; eauto.
        - injection H as -> _. reflexivity.
        - injection H as -> _. reflexivity. }
      subst e1.
      destruct (sub_step_inv f g a b ex o1 Hf Hgn Hlast Ha Hb E1 Es) as (g1 & a1 & b1 & -> & Hg1 & Ha1 & Hb1 & Hl1).
      cbn [fbind] in H. exact (IH g g1 a1 b1 true o Hg Hg1 Ha1 Hb1 H).
Qed.

(** the gcd of the stored coefficients of a canonical non-zero polynomial is not zero *)
Lemma fold_gcd_divides p : forall acc, (fold_left Z.gcd p acc | acc) /\ forall x, In x p -> (fold_left Z.gcd p acc | x).
Proof.
  induction p as [|y t IH]; intros acc; cbn [fold_left].
  - split; [apply Z.divide_refl|intros x []].
  - destruct (IH (Z.gcd acc y)) as [H1 H2]. split.
    + eapply Z.divide_trans; [exact H1|apply Z.gcd_divide_l].
    + intros x [<-|Hx]; [eapply Z.divide_trans; [exact H1|apply Z.gcd_divide_r]|apply H2; exact Hx].
Qed.

Lemma content_nz p : p <> [] -> zlast p <> 0 -> content p <> 0.
Proof.
  intros Hp Hl. unfold content, cont_pp. destruct p as [|p0 p'] eqn:Ep; [congruence|]. rewrite <- Ep in *.
  cbn [fst].
  assert (Hg : fold_left Z.gcd p 0 <> 0).
  { intros E. destruct (fold_gcd_divides p 0) as [_ H]. specialize (H (zlast p) (last_In p 0 Hp)).
    rewrite E in H. apply Z.divide_0_l in H. congruence. }
  destruct (last p 0 <? 0); lia.
Qed.

Lemma content_chk_canon p : canon p -> exists c, content_chk p = Done c /\ (p <> [] -> c <> 0).
Proof.
  intros [->|Hl]; [exists 0; split; [reflexivity|congruence]|].
  unfold content_chk. destruct p as [|p0 p'] eqn:Ep; [exists 0; split; [reflexivity|congruence]|]. rewrite <- Ep in *.
  assert (Hp : p <> []) by (subst p; congruence).
  pose proof (content_nz p Hp Hl) as Hc.
  destruct (content p =? 0) eqn:E; [apply Z.eqb_eq in E; congruence|]. eauto.
Qed.

Lemma poly_div_ok p c : (p <> [] -> c <> 0) -> exists q, poly_div p c = Done q /\ canon q.
Proof.
  intros H. unfold poly_div. destruct p as [|p0 p'] eqn:Ep; [exists []; split; [reflexivity|left; reflexivity]|].
  destruct (c =? 0) eqn:E; [apply Z.eqb_eq in E; exfalso; apply H; congruence|].
  eexists. split; [reflexivity|apply canon_from_raw].
Qed.

(** [C] for canonical inputs: if the exactness flag is true, [resultant_gcd] returned a polynomial. *)
Lemma resultant_gcd_flag_no_panic f g o :
  canonb f = true -> canonb g = true ->
  resultant_gcd f g = (true, o) -> exists d, o = Done d.
Proof.
  intros Hf Hg H. apply canonb_canon in Hf, Hg.
  assert (H10 : 1 <> 0) by lia.
  pose proof (resultant_gcd_no_outoffuel f g) as Hoof. rewrite H in Hoof. cbn [snd] in Hoof.
  unfold resultant_gcd, resultant_smart_gcd in H.
  destruct f as [|f0 f'] eqn:Ef; [injection H as <-; eauto|]. rewrite <- Ef in *.
  destruct (content_chk_canon f Hf) as (cf & Ecf & Hcf). rewrite Ecf in H. cbn [flift] in H.
  destruct (content_chk_canon g Hg) as (cg & Ecg & Hcg). rewrite Ecg in H. cbn [flift] in H.
  destruct (poly_div_ok f cf Hcf) as (f1 & Ef1 & Hf1). rewrite Ef1 in H. cbn [flift] in H.
  destruct (poly_div_ok g cg Hcg) as (g1 & Eg1 & Hg1). rewrite Eg1 in H. cbn [flift] in H.
  destruct (gcd_loop (loop_fuel g1) f1 g1 1 1 true) as [e1 o1] eqn:El.
  destruct o1 as [ff|t|]; cbn [fbind] in H.
  - assert (He : e1 = true).
    { destruct (content_chk ff) as [c|t|]; cbn [flift] in H; [|injection H as -> _; reflexivity|injection H as -> _; reflexivity].
      destruct (poly_div ff c) as [q|t|]; cbn [flift] in H; injection H as -> _; reflexivity. }
    subst e1.
    destruct (gcd_loop_flag _ _ _ _ _ _ _ Hf1 Hg1 H10 H10 El) as [E|(ff' & [= <-] & Hff)]; [discriminate|].
    destruct (content_chk_canon ff Hff) as (c' & Ec' & Hc'). rewrite Ec' in H. cbn [flift] in H.
    destruct (poly_div_ok ff c' Hc') as (q & Eq & _). rewrite Eq in H. cbn [flift] in H.
    injection H as <-. eauto.
  - injection H as -> <-.
    destruct (gcd_loop_flag _ _ _ _ _ _ _ Hf1 Hg1 H10 H10 El) as [E|(ff' & E & _)]; discriminate.
  - injection H as _ <-. congruence.
Qed.
