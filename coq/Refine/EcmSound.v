(** * [ecm_divisor_sound]: whatever [ecm] returns is a proper divisor (sequential and batched).
    The only source of an [RErr g] is a failed [inv z n], where g = gcd(z, n); no property of
    the group law is used. *)
From Coq Require Import ZArith List Bool Lia Znumtheory.
From RNT.Model Require Import Base Elementary Ecm EcmParallel.
From RNT.Refine Require Import EcmInv.
Open Scope Z_scope.

Definition err_gcd {A} (n : Z) (r : res A) : Prop :=
  match r with RErr g => exists z, g = Z.gcd z n | ROk _ => True end.

Lemma rbind_done {A B} (e : outcome (res A)) (f : A -> outcome (res B)) r :
  rbind e f = Done r ->
  (exists a, e = Done (ROk a) /\ f a = Done r) \/ (exists g, e = Done (RErr g) /\ r = RErr g).
Proof.
  unfold rbind. intros H. apply bind_done in H as ([a|g] & Ha & H).
  - left; eauto.
  - right. inversion H; eauto.
Qed.

Lemma rbind_err {A B} n (e : outcome (res A)) (f : A -> outcome (res B)) r :
  (forall r', e = Done r' -> err_gcd n r') ->
  (forall a, f a = Done r -> err_gcd n r) ->
  rbind e f = Done r -> err_gcd n r.
Proof.
  intros He Hf H. apply rbind_done in H as [(a & Ha & H)|(g & Ha & ->)].
  - eauto.
  - apply (He _ Ha).
Qed.

Lemma done_ok_err {A} n (a : A) r : Done (ROk a) = Done r -> err_gcd n r.
Proof. intros H; inversion H; exact I. Qed.

(** ** Sequential *)
Lemma simplify_err p c r : simplify p c = Done r -> err_gcd (en c) r.
Proof.
  unfold simplify. destruct (pz p =? 0); [apply done_ok_err|].
  intros H. apply bind_done in H as ([x|g] & Hi & H).
  - apply bind_done in H as (? & _ & H). apply bind_done in H as (? & _ & H).
    revert H. apply done_ok_err.
  - inversion H; subst. apply inv_err in Hi as [-> _]. simpl. eauto.
Qed.

Lemma add_err p q c r : add p q c = Done r -> err_gcd (en c) r.
Proof.
  unfold add. destruct (is_inf p); [apply done_ok_err|].
  destruct (is_inf q); [apply done_ok_err|].
  intros H. apply bind_done in H as ([s|] & _ & H).
  - now apply simplify_err in H.
  - revert H. apply done_ok_err.
Qed.

Lemma mul_loop_err : forall fuel sum cur e c r,
  mul_loop fuel sum cur e c = Done r -> err_gcd (en c) r.
Proof.
  induction fuel as [|f IH]; intros sum cur e c r; cbn [mul_loop]; [discriminate|].
  destruct (0 <? e); [|apply done_ok_err].
  apply rbind_err.
  - intros r'. destruct (Z.rem e 2 =? 1); [apply add_err|apply done_ok_err].
  - intros sum1. destruct (Z.quot e 2 =? 0); [apply done_ok_err|].
    apply rbind_err; [intros r'; apply add_err|intros cur1; apply IH].
Qed.

Lemma mul_err p e c r : mul p e c = Done r -> err_gcd (en c) r.
Proof. apply mul_loop_err. Qed.

Lemma stage1_err : forall cnt k pt c r, stage1 cnt k pt c = Done r -> err_gcd (en c) r.
Proof.
  induction cnt as [|cnt IH]; intros k pt c r; cbn [stage1]; [apply done_ok_err|].
  apply rbind_err; [intros r'; apply mul_err|].
  intros pt1. destruct (is_inf pt1); [apply done_ok_err|apply IH].
Qed.

Lemma stage2_loop_err : forall fuel m cur_e b2 pt p6 c r,
  stage2_loop fuel m cur_e b2 pt p6 c = Done r -> err_gcd (en c) r.
Proof.
  induction fuel as [|f IH]; intros m cur_e b2 pt p6 c r; cbn [stage2_loop]; [discriminate|].
  destruct (cur_e <=? b2); [|apply done_ok_err].
  intros H. apply bind_done in H as (cur1 & _ & H). revert H.
  apply rbind_err; [intros r'; apply add_err|].
  intros pt1. destruct (is_inf pt1); [apply done_ok_err|apply IH].
Qed.

Lemma stage2_one_err m init b2 pt c r : stage2_one m init b2 pt c = Done r -> err_gcd (en c) r.
Proof.
  unfold stage2_one.
  apply rbind_err; [intros r'; apply add_err|intros p2].
  apply rbind_err; [intros r'; apply add_err|intros p4].
  apply rbind_err; [intros r'; apply add_err|intros p6].
  apply rbind_err; [intros r'; apply mul_err|intros pt1].
  destruct (is_inf pt1); [apply done_ok_err|apply stage2_loop_err].
Qed.

Lemma ecm_oneshot_err m pt c b1 b2 r : ecm_oneshot m pt c b1 b2 = Done r -> err_gcd (en c) r.
Proof.
  unfold ecm_oneshot. intros H. apply bind_done in H as (hi & _ & H). revert H.
  apply rbind_err; [intros r'; apply stage1_err|].
  intros [pt1|]; [|apply done_ok_err].
  intros H. apply bind_done in H as ([i1 i2] & _ & H). revert H.
  apply rbind_err; [intros r'; apply stage2_one_err|].
  intros [pt2|]; [|apply done_ok_err].
  apply rbind_err; [intros r'; apply stage2_one_err|].
  intros s3. apply done_ok_err.
Qed.

Lemma ecm_loop_sound : forall fuel m n b1 b2 count r d c r',
  1 < n -> ecm_loop fuel m n b1 b2 count r = Done (d, c, r') -> 1 < d < n /\ (d | n).
Proof.
  induction fuel as [|f IH]; intros m n b1 b2 count r d c r' Hn H; cbn [ecm_loop] in H; [discriminate|].
  apply bind_done in H as ([a r1] & _ & H).
  apply bind_done in H as ([x r2] & _ & H).
  apply bind_done in H as ([y r3] & _ & H).
  apply bind_done in H as (o & Ho & H).
  destruct o as [u|fac]; [now apply IH in H|].
  destruct ((fac =? 1) || (fac =? n)) eqn:E; [now apply IH in H|].
  apply bind_done in H as (rm & _ & H). apply bind_done in H as (u & _ & H).
  inversion H; subst; clear H.
  apply ecm_oneshot_err in Ho. destruct Ho as [z Hz]. cbn [en] in Hz.
  apply orb_false_elim in E as [E1 E2]. apply Z.eqb_neq in E1, E2.
  now apply (gcd_candidate z).
Qed.

(** [P] The sequential [ecm] returns only proper divisors. *)
Theorem ecm_divisor_sound : forall fuel m n b1 b2 r d c r',
  1 < n -> Ecm.ecm fuel m n b1 b2 r = Done (d, c, r') -> 1 < d < n /\ (d | n).
Proof.
  intros fuel m n b1 b2 r d c r' Hn H. unfold Ecm.ecm in H.
  apply bind_done in H as (r0 & _ & H). now apply ecm_loop_sound in H.
Qed.

(** ** Batched *)
Definition res_all {A} (P : A -> Prop) (n : Z) (r : res A) : Prop :=
  match r with RErr g => exists z, g = Z.gcd z n | ROk a => P a end.

Lemma res_all_err {A} (P : A -> Prop) n r : res_all P n r -> err_gcd n r.
Proof. destruct r; simpl; auto. Qed.

Lemma rbind_all {A B} (P : A -> Prop) (Q : B -> Prop) n (e : outcome (res A)) (f : A -> outcome (res B)) r :
  (forall r', e = Done r' -> res_all P n r') ->
  (forall a, P a -> f a = Done r -> res_all Q n r) ->
  rbind e f = Done r -> res_all Q n r.
Proof.
  intros He Hf H. apply rbind_done in H as [(a & Ha & H)|(g & Ha & ->)].
  - apply (Hf a); auto. apply (He _ Ha).
  - apply (He _ Ha).
Qed.

Definition curves_ok {X} (n : Z) (l : list (X * Ell)) : Prop := Forall (fun t => en (snd t) = n) l.

Lemma many_simplify_err pts n r : many_simplify pts n = Done r -> err_gcd n r.
Proof.
  unfold many_simplify. intros H.
  apply bind_done in H as (ls & _ & H). apply bind_done in H as (rs & _ & H).
  apply bind_done in H as ([x|g] & Hi & H).
  - apply bind_done in H as (o & _ & H). revert H. apply done_ok_err.
  - inversion H; subst. apply inv_err in Hi as [-> _]. simpl. eauto.
Qed.

Lemma many_adds_err n pts r : curves_ok n pts -> many_adds pts = Done r -> err_gcd n r.
Proof.
  unfold many_adds. intros Hc H. apply bind_done in H as (points & _ & H).
  destruct pts as [|[[p q] c] t]; [discriminate|].
  apply Forall_inv in Hc. cbn [snd] in Hc. subst n.
  now apply many_simplify_err in H.
Qed.

Lemma zip_sum_ok n : forall cur sum dat, curves_ok n cur -> zip_sum sum cur = Done dat -> curves_ok n dat.
Proof.
  induction cur as [|[p c] ct IH]; intros sum dat Hc H; cbn [zip_sum] in H.
  - inversion H. constructor.
  - destruct sum as [|s st]; [discriminate|].
    apply bind_done in H as (r & Hr & H). inversion H; subst.
    apply Forall_cons_iff in Hc as [Hh Ht]. constructor; [exact Hh|]. eapply IH; eauto.
Qed.

Lemma set_fst_ok n : forall cur tmp cur1, curves_ok n cur -> set_fst cur tmp = Done cur1 -> curves_ok n cur1.
Proof.
  induction cur as [|[p c] ct IH]; intros tmp cur1 Hc H; cbn [set_fst] in H.
  - inversion H. constructor.
  - destruct tmp as [|s st]; [discriminate|].
    apply bind_done in H as (r & Hr & H). inversion H; subst.
    apply Forall_cons_iff in Hc as [Hh Ht]. constructor; [exact Hh|]. eapply IH; eauto.
Qed.

Lemma set_fst3_ok n : forall cur tmp cur1, curves_ok n cur -> set_fst3 cur tmp = Done cur1 -> curves_ok n cur1.
Proof.
  induction cur as [|[[p q] c] ct IH]; intros tmp cur1 Hc H; cbn [set_fst3] in H.
  - inversion H. constructor.
  - destruct tmp as [|s st]; [discriminate|].
    apply bind_done in H as (r & Hr & H). inversion H; subst.
    apply Forall_cons_iff in Hc as [Hh Ht]. constructor; [exact Hh|]. eapply IH; eauto.
Qed.

Lemma zip_pq_ok n : forall joint ps qs t, curves_ok n joint -> zip_pq ps qs joint = Done t -> curves_ok n t.
Proof.
  induction joint as [|[p0 c] jt IH]; intros ps qs t Hc H; cbn [zip_pq] in H.
  - inversion H. constructor.
  - destruct ps as [|p pt]; [discriminate|]. destruct qs as [|q qt]; [discriminate|].
    apply bind_done in H as (r & Hr & H). inversion H; subst.
    apply Forall_cons_iff in Hc as [Hh Ht]. constructor; [exact Hh|]. eapply IH; eauto.
Qed.

Lemma dup_fst_ok n cur : curves_ok n cur -> curves_ok n (dup_fst cur).
Proof.
  unfold curves_ok, dup_fst. intros H. apply Forall_map.
  eapply Forall_impl; [|exact H]. intros [p c]; auto.
Qed.

Lemma many_muls_loop_err n : forall fuel sum cur e r,
  curves_ok n cur -> many_muls_loop fuel sum cur e = Done r -> err_gcd n r.
Proof.
  induction fuel as [|f IH]; intros sum cur e r Hc; cbn [many_muls_loop]; [discriminate|].
  destruct (0 <? e); [|apply done_ok_err].
  apply rbind_err.
  - intros r'. destruct (Z.rem e 2 =? 1); [|apply done_ok_err].
    intros H. apply bind_done in H as (dat & Hd & H).
    eapply many_adds_err; [|exact H]. eapply zip_sum_ok; eauto.
  - intros sum1. destruct (Z.quot e 2 =? 0); [apply done_ok_err|].
    apply rbind_err; [intros r'; apply many_adds_err, dup_fst_ok, Hc|].
    intros tmp H. apply bind_done in H as (cur1 & Hs & H).
    eapply IH; [|exact H]. eapply set_fst_ok; eauto.
Qed.

Lemma many_muls_err n pts e r : curves_ok n pts -> many_muls pts e = Done r -> err_gcd n r.
Proof. apply many_muls_loop_err. Qed.

Lemma done_ok_all {A} (P : A -> Prop) n (a : A) r : P a -> Done (ROk a) = Done r -> res_all P n r.
Proof. intros Hp H; inversion H; exact Hp. Qed.

Lemma err_all {A B} (P : A -> Prop) n (r : res A) (r' : res B) :
  err_gcd n r' -> (forall a, r = ROk a -> P a) -> (forall g, r = RErr g -> r' = RErr g) -> res_all P n r.
Proof. destruct r; simpl; intros H1 H2 H3; auto. rewrite (H3 g eq_refl) in H1. exact H1. Qed.

Lemma pstage1_ok n : forall cnt k joint r,
  curves_ok n joint -> pstage1 cnt k joint = Done r -> res_all (curves_ok n) n r.
Proof.
  induction cnt as [|cnt IH]; intros k joint r Hc; cbn [pstage1].
  - now apply done_ok_all.
  - apply (rbind_all (fun _ => True)).
    + intros r' H. apply (many_muls_err n) in H; [|exact Hc]. destruct r'; simpl in *; auto.
    + intros tmp _ H. apply bind_done in H as (j1 & Hs & H).
      eapply IH; [|exact H]. eapply set_fst_ok; eauto.
Qed.

Lemma pstage2_loop_err n : forall fuel m cur_e b2 tmp r,
  curves_ok n tmp -> pstage2_loop fuel m cur_e b2 tmp = Done r -> err_gcd n r.
Proof.
  induction fuel as [|f IH]; intros m cur_e b2 tmp r Hc; cbn [pstage2_loop]; [discriminate|].
  destruct (cur_e <=? b2); [|apply done_ok_err].
  intros H. apply bind_done in H as (cur1 & _ & H). revert H.
  apply rbind_err; [intros r'; apply many_adds_err, Hc|].
  intros result H. apply bind_done in H as (tmp1 & Hs & H).
  eapply IH; [|exact H]. eapply set_fst3_ok; eauto.
Qed.

Lemma err_to_all {A} n (r : res A) : err_gcd n r -> res_all (fun _ => True) n r.
Proof. destruct r; simpl; auto. Qed.

Lemma pstage2_one_ok n m init b2 joint r :
  curves_ok n joint -> pstage2_one m init b2 joint = Done r -> res_all (curves_ok n) n r.
Proof.
  intros Hc. unfold pstage2_one.
  apply (rbind_all (fun _ => True)); [intros r' H; apply err_to_all; revert H; apply many_adds_err, dup_fst_ok, Hc|].
  intros p2 _ H. apply bind_done in H as (t2 & Ht2 & H). revert H.
  apply (rbind_all (fun _ => True)); [intros r' H; apply err_to_all; revert H; apply many_adds_err; eapply zip_pq_ok; eauto|].
  intros p4 _ H. apply bind_done in H as (t4 & Ht4 & H). revert H.
  apply (rbind_all (fun _ => True)); [intros r' H; apply err_to_all; revert H; apply many_adds_err; eapply zip_pq_ok; eauto|].
  intros p6 _.
  apply (rbind_all (fun _ => True)); [intros r' H; apply err_to_all; revert H; apply many_muls_err, Hc|].
  intros tmp _ H. apply bind_done in H as (joint1 & Hj & H).
  assert (Hc1 : curves_ok n joint1) by (eapply set_fst_ok; eauto).
  apply bind_done in H as (t & Ht & H). revert H.
  apply (rbind_all (fun _ => True)).
  - intros r' H. apply err_to_all. revert H. apply pstage2_loop_err. eapply zip_pq_ok; eauto.
  - intros u _. now apply done_ok_all.
Qed.

Lemma ecm_oneshot_parallel_err n m joint b1 b2 r :
  curves_ok n joint -> ecm_oneshot_parallel m joint b1 b2 = Done r -> err_gcd n r.
Proof.
  intros Hc. unfold ecm_oneshot_parallel. intros H. apply bind_done in H as (hi & _ & H).
  apply (res_all_err (fun _ => True)). revert H.
  apply (rbind_all (curves_ok n)); [intros r'; now apply pstage1_ok|].
  intros j1 Hj1 H. apply bind_done in H as ([i1 i2] & _ & H). revert H.
  apply (rbind_all (curves_ok n)); [intros r'; now apply pstage2_one_ok|].
  intros j2 Hj2.
  apply (rbind_all (curves_ok n)); [intros r'; now apply pstage2_one_ok|].
  intros j3 _. now apply done_ok_all.
Qed.

Lemma draw_curves_ok : forall k n r cs r', draw_curves k n r = Done (cs, r') -> Forall (fun c => en c = n) cs.
Proof.
  induction k as [|k IH]; intros n r cs r' H; cbn [draw_curves] in H.
  - inversion H. constructor.
  - apply bind_done in H as ([a r1] & _ & H). apply bind_done in H as ([rest r2] & Hr & H).
    inversion H; subst. constructor; [reflexivity|]. eapply IH; eauto.
Qed.

Lemma combine_curves_ok n : forall (ps : list Point) cs, Forall (fun c => en c = n) cs -> curves_ok n (combine ps cs).
Proof.
  induction ps as [|p ps IH]; intros cs H; cbn [combine]; [constructor|].
  destruct cs as [|c cs]; [constructor|]. inversion H; subst. constructor; [reflexivity|]. now apply IH.
Qed.

Lemma pecm_loop_sound : forall fuel m n b1 b2 pc count r d c r',
  1 < n -> pecm_loop fuel m n b1 b2 pc count r = Done (d, c, r') -> 1 < d < n /\ (d | n).
Proof.
  induction fuel as [|f IH]; intros m n b1 b2 pc count r d c r' Hn H; cbn [pecm_loop] in H; [discriminate|].
  apply bind_done in H as ([curves r1] & Hcs & H).
  apply bind_done in H as ([points r2] & _ & H).
  apply bind_done in H as (o & Ho & H).
  destruct o as [u|fac]; [now apply IH in H|].
  destruct ((fac =? 1) || (fac =? n)) eqn:E; [now apply IH in H|].
  apply bind_done in H as (rm & _ & H). apply bind_done in H as (u & _ & H).
  inversion H; subst; clear H.
  apply (ecm_oneshot_parallel_err n) in Ho; [|apply combine_curves_ok; eapply draw_curves_ok; eauto].
  destruct Ho as [z Hz].
  apply orb_false_elim in E as [E1 E2]. apply Z.eqb_neq in E1, E2.
  now apply (gcd_candidate z).
Qed.

(** [P] The batched [ecm] returns only proper divisors. *)
Theorem ecm_parallel_divisor_sound : forall fuel m n b1 b2 r d c r',
  1 < n -> EcmParallel.ecm fuel m n b1 b2 r = Done (d, c, r') -> 1 < d < n /\ (d | n).
Proof.
  intros fuel m n b1 b2 r d c r' Hn H. unfold EcmParallel.ecm in H.
  apply bind_done in H as (r0 & _ & H). now apply pecm_loop_sound in H.
Qed.
