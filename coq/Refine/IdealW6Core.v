(** * IdealW6Core (C16, sixth wave): integer-matrix facts behind [Ideal::inv].
      T the (symmetric) matrix of the trace form, Int with Int T = T Int = l (the scaled inverse computed by
      [get_inv_diff]), C a basis matrix of I * numer(D^-1), TRD the matrix returned by
      [mul_inv_from_right_exact] (TRD (T C^T) = a l).  Pure MathComp matrices over [Z]; no model function here. *)
From Coq Require Import ZArith.
From mathcomp Require Import all_ssreflect ssralg zmodp matrix mxalgebra.
From mathcomp Require Import ssrZ zify.
Set Implicit Arguments.
Unset Strict Implicit.
Unset Printing Implicit Defensive.
Import GRing.Theory.
Local Open Scope ring_scope.

(** ** over Z a one-sided scalar inverse is two-sided *)
Lemma zmx_regular n (B X : 'M[Z]_n) : \det B <> 0%Z -> X *m B = 0 -> X = 0.
Proof.
move=> d0 e.
have : X *m (B *m \adj B) = 0 by rewrite mulmxA e mul0mx.
rewrite mul_mx_adj mul_mx_scalar => /matrixP h.
apply/matrixP => i j; have := h i j; rewrite !mxE => /eqP.
by rewrite mulf_eq0 => /orP[/eqP|/eqP].
Qed.

Lemma zmx_regular_row n (B : 'M[Z]_n) (x : 'rV[Z]_n) : \det B <> 0%Z -> x *m B = 0 -> x = 0.
Proof.
move=> d0 e.
have : x *m (B *m \adj B) = 0 by rewrite mulmxA e mul0mx.
rewrite mul_mx_adj mul_mx_scalar => /matrixP h.
apply/matrixP => i j; have := h i j; rewrite !mxE => /eqP.
by rewrite mulf_eq0 => /orP[/eqP|/eqP].
Qed.

Lemma scalar_det_neq0 n (A B : 'M[Z]_n) (s : Z) : s <> 0%Z -> A *m B = s%:M -> \det A <> 0%Z /\ \det B <> 0%Z.
Proof.
move=> s0 e.
have := congr1 (@determinant _ n) e; rewrite det_mulmx det_scalar => h.
have sn : s ^+ n <> 0%Z by apply/eqP; rewrite expf_neq0 //; apply/eqP.
by split=> d0; apply: sn; rewrite -h d0 ?mul0r ?mulr0.
Qed.

Lemma scalar_mx_commute n (A B : 'M[Z]_n) (s : Z) : s <> 0%Z -> A *m B = s%:M -> B *m A = s%:M.
Proof.
move=> s0 e; have [_ dB] := scalar_det_neq0 s0 e.
apply/eqP; rewrite -subr_eq0; apply/eqP; apply: (zmx_regular dB).
by rewrite mulmxBl -mulmxA e mul_mx_scalar mul_scalar_mx subrr.
Qed.

(** ** row lattice of TRD = scaled dual of the rows of C *)
Section Dual.
Variables (n : nat) (G TRD : 'M[Z]_n) (s : Z).
Hypothesis s0 : s <> 0%Z.
Hypothesis eG : TRD *m G = s%:M.

Lemma rowlat_scaled_dual (v : 'rV[Z]_n) :
  (exists c : 'rV[Z]_n, v = c *m TRD) <-> (exists c : 'rV[Z]_n, v *m G = s *: c).
Proof.
have eG' := scalar_mx_commute s0 eG.
split=> [[c ->]|[c ec]]; exists c; first by rewrite -mulmxA eG mul_mx_scalar.
have : v *m G *m TRD = s *: c *m TRD by rewrite ec.
rewrite -mulmxA eG' mul_mx_scalar -scalemxAl => /matrixP h.
apply/matrixP => i j; have := h i j; rewrite !mxE.
by apply: mulfI; apply/eqP.
Qed.
End Dual.

(** ** the dual of the dual of O is O: with Int T = l and T symmetric,
       x T (u Int)^T = l (x u^T) *)
Section DualDual.
Variables (n : nat) (T Int : 'M[Z]_n) (l : Z).
Hypothesis Tsym : T^T = T.
Hypothesis IT : Int *m T = l%:M.

Lemma trf_int (x u : 'rV[Z]_n) : x *m T *m (u *m Int)^T = l *: (x *m u^T).
Proof.
rewrite trmx_mul mulmxA -[x *m T *m _]mulmxA.
have -> : T *m Int^T = l%:M.
  by rewrite -{1}Tsym -trmx_mul IT tr_scalar_mx.
by rewrite mul_mx_scalar scalemxAl.
Qed.

Lemma dual_dual (lpos : (0 < l)%Z) (x : 'rV[Z]_n) (d : Z) :
  (forall u : 'rV[Z]_n, Z.divide (d * l) ((x *m T *m (u *m Int)^T) 0 0)) <->
  (forall j, Z.divide d (x 0 j)).
Proof.
split=> h.
  move=> j; have := h (delta_mx 0 j); rewrite trf_int mxE.
  have -> : (x *m (delta_mx 0 j : 'rV[Z]_n)^T) 0 0 = x 0 j.
    rewrite trmx_delta mxE (bigD1 j) //= mxE !eqxx mulr1 big1 ?addr0 // => k ne.
    by rewrite mxE (negbTE ne) mulr0.
  case=> q eq; exists q.
  move: (x 0 j) eq => y; rewrite -[(l * y)%R]/(l * y)%Z => eq.
  by apply: (Z.mul_reg_l _ _ l); lia.
move=> u; rewrite trf_int mxE.
have [q eq] : Z.divide d ((x *m u^T) 0 0).
  rewrite mxE; elim/big_ind: _ => [|a b [qa ->] [qb ->]|j _]; first by exists 0%Z.
    by exists (qa + qb)%Z; rewrite -[(_ + _)%R]/(_ + _)%Z; lia.
  by move: (u^T j 0) => z; case: (h j) => q ->; exists (q * z)%Z; rewrite -[(_ * _)%R]/(_ * _)%Z; lia.
by exists q; rewrite eq -[(l * _)%R]/(l * _)%Z; lia.
Qed.
End DualDual.

(** ** a lattice U Int inside Int whose scaled dual is trivial is a Int:
       if (a d | v U^T  ->  d | v) for all v, d then a = W U for an integer W *)
Section Unimod.
Variables (n : nat) (U : 'M[Z]_n) (a : Z).
Hypothesis dU : \det U <> 0%Z.
Hypothesis a0 : a <> 0%Z.
Hypothesis hyp : forall (v : 'rV[Z]_n) (d : Z), (0 < d)%Z ->
  (forall j, Z.divide (a * d) ((v *m U^T) 0 j)) -> forall j, Z.divide d (v 0 j).

Lemma colon_trivial_contains : exists W : 'M[Z]_n, W *m U = a%:M.
Proof.
have := dU; set dl := \det U => dl0.
pose d := Z.abs dl.
have dpos : (0 < d)%Z by rewrite /d; lia.
(* V = a adj(U)^T : V U^T = a det U *)
pose V : 'M[Z]_n := a *: (\adj U)^T.
have eV : V *m U^T = (a * dl)%:M.
  by rewrite /V -scalemxAl -trmx_mul mul_mx_adj tr_scalar_mx -/dl scale_scalar_mx.
have dv i j : Z.divide d (V i j).
  have := @hyp (row i V) d dpos.
  have h j' : Z.divide (a * d) ((row i V *m U^T) 0 j').
    rewrite -row_mul eV !mxE.
    case: (i == j'); rewrite ?mulr1n ?mulr0n; last by exists 0%Z.
    rewrite /d -[(a * dl)%R]/(a * dl)%Z.
    by case: (Z.abs_eq_or_opp dl) => ->; [exists 1%Z|exists (-1)%Z]; lia.
  by move/(_ h j); rewrite mxE.
pose W0 : 'M[Z]_n := \matrix_(i, j) Z.div (V i j) dl.
have eW0 : V = dl *: W0.
  apply/matrixP => i j; rewrite [RHS]mxE [W0 i j]mxE.
  have [q eq] : Z.divide dl (V i j).
    case: (dv i j) => q ->; rewrite /d.
    by case: (Z.abs_eq_or_opp dl) => ->; [exists q|exists (- q)%Z]; lia.
  by rewrite eq Z.div_mul // -[(dl * q)%R]/(dl * q)%Z; lia.
(* dl W0 U^T = a dl  =>  W0 U^T = a  => U W0^T = a => W0^T... *)
have e1 : W0 *m U^T = a%:M.
  have : dl *: (W0 *m U^T) = dl *: a%:M.
    by rewrite scalemxAl -eW0 eV scale_scalar_mx mulrC.
  move=> /matrixP h; apply/matrixP => i j; have := h i j; rewrite !mxE.
  by apply: mulfI; apply/eqP.
exists (W0^T)^T^T; rewrite trmxK.
have : (W0 *m U^T)^T = (a%:M)^T by rewrite e1.
rewrite trmx_mul trmxK tr_scalar_mx => e2.
by apply: scalar_mx_commute.
Qed.
End Unimod.
