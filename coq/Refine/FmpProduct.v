(** * C08 (second wave): the product clause of [factorize_mod_p]: the returned pairs multiply back
    to f / lc(f mod p) over F_p, for every draw stream (ssreflect). Combines [squarefree_prod]
    with [degree_product], [final_split_product] and the normalisation step. *)
From Coq Require Import ZArith List Lia Znumtheory.
From mathcomp Require Import all_ssreflect ssralg poly polydiv ssrint zmodp.
From RNT.Model Require Import Base Poly PolyModP FactorModP.
From RNT.Refine Require Import PolyModPArith PolyModPDivList FermatZ PolyZmod PolyModPDiv MonicZ PolyModPGcd FpPoly HenselProofs FactorNorm FactorProd FmpField FmpSqf.
From mathcomp Require Import ssrZ zify ring.
Set Implicit Arguments. Unset Strict Implicit. Unset Printing Implicit Defensive.
Import GRing.Theory.
Local Open Scope ring_scope.

Section Prime.
Variable p : Z.
Hypothesis Hp : Znumtheory.prime p.
Let Hp2 := prime_ge_2 _ Hp.
Let Hpp : (0 < p)%ZZ. Proof. lia. Qed.
Let Hp0 : p <> Z0. Proof. lia. Qed.

Notation n := (pnat p).
Notation RP l := (redp n (PZ l)).
Notation FP := (FProd p).

Lemma eqp_mul2 (a a' b b' : {poly 'F_n}) : a %= a' -> b %= b' -> a * b %= a' * b'.
Proof. move=> Ha Hb. apply: eqp_trans (eqp_mulr _ Ha) _. exact: eqp_mull. Qed.

Lemma eqp1_exp (a : {poly 'F_n}) k : a %= 1 -> a ^+ k %= 1.
Proof. move=> H. rewrite -(expr1n _ k). exact: eqp_exp. Qed.

(** ** normalise_factors *)

Lemma normalise_prod : forall spl d e result out,
  List.Forall (rnz p) spl ->
  normalise_factors spl p d e result = Done out ->
  FP out %= FP result * redp n (PZprod spl) ^+ Z.to_nat e.
Proof.
  elim=> [|factor rest IH] d e result out Fs /=.
  - case=> <-. by rewrite redp1 expr1n mulr1 eqpxx.
  - have [[Rf Nf] Frest] : rnz p factor /\ List.Forall (rnz p) rest by move: Fs => /List.Forall_cons_iff.
    case: (Z.eqb_spec (pdeg factor) d) => Hdeg //=.
    case Ei: (modinv _ p) => [inv| |] //=.
    case Em: (poly_mod _ p) => [factor'| |] //= H.
    apply: eqp_trans (IH _ _ _ _ Frest H) _.
    rewrite FProd_rcons redpM exprMn mulrA. apply: eqp_mulr. apply: eqp_mull. apply: eqp_exp.
    have Ld : Z.to_nat d = (length factor - 1)%coq_nat.
    { move: Hdeg. rewrite /pdeg. case: (factor) Nf => [|c l] // _. lia. }
    have Elast : coef_at opsZ factor (Z.to_nat d) = List.last factor Z0 by rewrite /coef_at Ld -last_nth_len.
    have Glc : ~ (p | List.last factor Z0)%ZZ := reduced_good Hpp Rf Nf.
    rewrite Elast in Ei. have Hinv := modinv_spec Hp Glc Ei.
    have := PZ_poly_mod Hp0 Em. move/(eqpm_RP Hp) => ->.
    rewrite PZ_pmul PZ_from_mono redpM redpC mulrC mul_polyC. apply: eqp_scale.
    apply/eqP => E0.
    have : toF n (Z.mul inv (List.last factor Z0)) = 0.
    { have -> : Z.mul inv (List.last factor Z0) = (inv * List.last factor Z0)%R by [].
      by rewrite rmorphM E0 mul0r. }
    move/(toF_eq0 (n_prime Hp)). rewrite (En Hp) Hinv. by [].
Qed.

(** ** split_degrees *)

Lemma split_degrees_prod : forall degrees e result r out r',
  List.Forall (dgood p) degrees ->
  split_degrees degrees p e result r = Done (out, r') ->
  FP out %= FP result * redp n (PZprod (List.map fst degrees)) ^+ Z.to_nat e.
Proof.
  elim=> [|[prod d] rest IH] e result r out r' Fd /=.
  - case=> <- _. by rewrite redp1 expr1n mulr1 eqpxx.
  - have [[Rp /= Hd] Frest] : dgood p (prod, d) /\ List.Forall (dgood p) rest by move: Fd => /List.Forall_cons_iff.
    rewrite redpM exprMn mulrA.
    case E0: (pdeg prod =? 0)%ZZ.
    + move=> H. apply: eqp_trans (IH _ _ _ _ _ Frest H) _. apply: eqp_mulr.
      rewrite -{1}[FP result]mulr1. apply: eqp_mull. rewrite eqp_sym. apply: eqp1_exp. exact: (unit_eqp1 Hp).
    + case Ef: (final_split prod p d r) => [[spl r1]| |] //=.
      have [Ps Fs] := final_split_product Hp Rp Ef.
      case En: (normalise_factors spl p d e result) => [result'| |] //= H.
      apply: eqp_trans (IH _ _ _ _ _ Frest H) _. apply: eqp_mulr.
      apply: eqp_trans (normalise_prod Fs En) _.
      move/(eqpm_RP Hp): Ps => ->. exact: eqpxx.
Qed.

(** ** split_sqfree *)

Lemma split_sqfree_prod md : forall sq result r out r',
  List.Forall (sqgood p md) sq ->
  split_sqfree sq p result r = Done (out, r') ->
  FP out %= FP result * FP sq.
Proof.
  elim=> [|[s e] rest IH] result r out r' Fs /=.
  - case=> <- _. by rewrite mulr1 eqpxx.
  - have [[Rs [_ /= He]] Frest] : sqgood p md (s, e) /\ List.Forall (sqgood p md) rest by move: Fs => /List.Forall_cons_iff.
    case Ed: (degree s p) => [degrees| |] //=.
    have Fd := degree_good Hp Rs Ed.
    have [c [Rc [Pc Lc]]] := degree_product Hp Rs Ed.
    case Es: (split_degrees degrees p e result r) => [[result' r1]| |] //= H.
    apply: eqp_trans (IH _ _ _ _ Frest H) _. rewrite mulrA. apply: eqp_mulr.
    apply: eqp_trans (split_degrees_prod Fd Es) _. apply: eqp_mull. apply: eqp_exp.
    move/(eqpm_RP Hp): Pc => ->. rewrite redpM -{1}[redp n (PZprod _)]mul1r. apply: eqp_mulr.
    rewrite eqp_sym. apply: (unit_eqp1 Hp Rc).
    case: Lc => [L|->] //. case: (c) L (proj2 Rc) => [|c0 [|c1 l]] //=.
Qed.

(** ** factorize_mod_p *)

Lemma poly_mod_length f f1 : poly_mod f p = Done f1 -> (length f1 <= length f)%coq_nat.
Proof.
  rewrite poly_mod_eq' // => -[<-]. rewrite /from_raw.
  have := strip_length (List.map (fun c0 : Z => Z.modulo c0 p) f). by rewrite List.map_length.
Qed.

Theorem factorize_prod_eqp md poly poly1 r out r' :
  md = Checked \/ (Z.of_nat (length poly) <= two64)%ZZ ->
  poly_mod poly p = Done poly1 -> poly1 <> [::] ->
  factorize_mod_p md poly p p r = Done (out, r') -> FP out %= RP poly1.
Proof.
  move=> Hmd Em N1. rewrite /factorize_mod_p Em /=.
  case Es: (squarefree md poly1 p p) => [sq| |] //= H.
  have [C1 R1] := poly_mod_is_reduced Hpp Em.
  have Em1 : poly_mod poly1 p = Done poly1 by apply: poly_mod_id.
  have Hmd1 : md = Checked \/ (Z.of_nat (length poly1) <= two64)%ZZ.
  { case: Hmd => [->|Hl]; first by left. right. have := poly_mod_length Em. lia. }
  have P1 := squarefree_prod Hp Hmd1 Em1 N1 Es.
  have Fs := squarefree_good Hp (Z.lt_le_incl _ _ Hpp) Es.
  apply: eqp_trans P1. have := split_sqfree_prod Fs H. by rewrite /= mul1r.
Qed.

Lemma FProd_monic md out :
  List.Forall (ngood p md) out -> FP out \is monic.
Proof.
  elim: out => [|[g e] out IH] /= F; first exact: monic1.
  have [[M _] Fr] : ngood p md (g, e) /\ List.Forall (ngood p md) out by move: F => /List.Forall_cons_iff.
  rewrite monicMl; first exact: IH. apply: monic_exp. apply: monic_map. exact: lmonic_monic.
Qed.

(** [P] f = lc(f mod p) * prod g_i^e_i over F_p. *)
Theorem factorize_prod md poly poly1 r out r' :
  md = Checked \/ (Z.of_nat (length poly) <= two64)%ZZ ->
  poly_mod poly p = Done poly1 -> poly1 <> [::] ->
  factorize_mod_p md poly p p r = Done (out, r') ->
  redp n (PZ poly) = (toF n (List.last poly1 Z0))%:P * FP out.
Proof.
  move=> Hmd Em N1 H.
  have E := factorize_prod_eqp Hmd Em N1 H.
  have M := FProd_monic (factorize_normalised Hp (Z.lt_le_incl _ _ Hpp) H).
  have R1 := poly_mod_is_reduced Hpp Em.
  have := PZ_poly_mod Hp0 Em. move/(eqpm_RP Hp) => <-.
  have := eqp_eq E. rewrite (monicP M) scale1r => <-. rewrite mul_polyC. congr (_ *: _).
  rewrite /redp lead_coef_map_eq (canonical_lead (proj1 R1)) //.
  apply/eqP => /(toF_eq0 (n_prime Hp)). rewrite (En Hp) => E0.
  have B := last_in_range_aux p _ N1 (proj2 R1). have L := canonical_last _ (proj1 R1) N1.
  rewrite Z.mod_small in E0; lia.
Qed.

End Prime.
