(** Primitive integer polynomials (no ssrint here: [%Z] is Coq's Z_scope). ssreflect/MathComp style. *)
From Coq Require Import ZArith.
From mathcomp Require Import all_ssreflect ssralg poly.
From mathcomp Require Import ssrZ zify.
Set Implicit Arguments.
Unset Strict Implicit.
Unset Printing Implicit Defensive.
Import GRing.Theory.
Local Open Scope ring_scope.

(** primitive: no integer other than +-1 divides all coefficients *)
Definition zprim (P : {poly Z}) : Prop := forall d : Z, (forall i, (d | P`_i)%Z) -> (d | 1)%Z.

(** a primitive polynomial times k: every common divisor of the coefficients divides k *)
Lemma zprim_scale_dvd (Q : {poly Z}) (k e : Z) : zprim Q -> (forall i, (e | (k *: Q)`_i)%Z) -> (e | k)%Z.
Proof.
move=> hQ he.
have [e0|nze] := eqVneq e 0.
  rewrite e0 in he *.
  (* 0 | k Q_i for all i: k = 0 since Q <> 0 *)
  have [->|nzk] := eqVneq k 0; first exact: Z.divide_0_r.
  have h0 : forall i, (0 | Q`_i)%Z.
    move=> i; have [z Hz] := he i.
    have /eqP : k * Q`_i = 0 by rewrite -coefZ Hz; exact: Z.mul_0_r.
    by rewrite mulf_eq0 (negPf nzk) /= => /eqP ->; exact: Z.divide_0_r.
  by have [z Hz] := hQ 0 h0; exists 0%Z; move: Hz; lia.
pose g := Z.gcd e k.
have nzg : g <> 0%Z by move=> /Z.gcd_eq_0_l /eqP; rewrite (negPf nze).
have [e' He'] : (g | e)%Z by apply: Z.gcd_divide_l.
have [k' Hk'] : (g | k)%Z by apply: Z.gcd_divide_r.
have cop : Z.gcd e' k' = 1%Z.
  have := Z.gcd_div_gcd e k g nzg erefl.
  by rewrite {1}He' {1}Hk' !Z.div_mul.
have he' : forall i, (e' | Q`_i)%Z.
  move=> i; apply: (Z.gauss _ k') => //.
  have [z Hz] := he i; exists z; move: Hz; rewrite coefZ.
  rewrite {1}Hk' {1}He' => Hz.
  apply: (Z.mul_reg_r _ _ g nzg); move: Hz.
  rewrite -![(_ * _)%R]/(Z.mul _ _); lia.
have [z Hz] := hQ e' he'.
exists (k' * z)%Z; rewrite Hk' He'.
have -> : (k' * z * (e' * g) = k' * (z * e') * g)%Z by lia.
by rewrite -Hz; lia.
Qed.
