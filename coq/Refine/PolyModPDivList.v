(** * Index-level facts about the inner loops of [poly_divrem] (stdlib + lia). *)
From Coq Require Import ZArith List Lia.
From RNT.Model Require Import Base Poly PolyModP.
From RNT.Refine Require Import PolyModPArith.
Import ListNotations.
Open Scope Z_scope.

Lemma sub_scaled_mod_length tmp c b p : length (sub_scaled_mod tmp c b p) = length tmp.
Proof.
  revert b; induction tmp as [|t tmp IH]; intros [|y b]; cbn [sub_scaled_mod length]; try reflexivity.
  rewrite IH. reflexivity.
Qed.

Lemma ssma_0 tmp c b p : sub_scaled_mod_at tmp 0 c b p = sub_scaled_mod tmp c b p.
Proof. destruct tmp; reflexivity. Qed.
Lemma ssma_S t tmp i c b p : sub_scaled_mod_at (t :: tmp) (S i) c b p = t :: sub_scaled_mod_at tmp i c b p.
Proof. reflexivity. Qed.
Lemma ssma_S_nil i c b p : sub_scaled_mod_at [] (S i) c b p = [].
Proof. reflexivity. Qed.

Lemma sub_scaled_mod_at_length tmp i c b p : length (sub_scaled_mod_at tmp i c b p) = length tmp.
Proof.
  revert tmp; induction i as [|i IH]; intros tmp.
  - rewrite ssma_0. apply sub_scaled_mod_length.
  - destruct tmp as [|t tmp]; [reflexivity|]. rewrite ssma_S. cbn [length]. rewrite IH. reflexivity.
Qed.

Lemma sub_scaled_mod_nth tmp c b p k :
  (length b <= length tmp)%nat ->
  nth k (sub_scaled_mod tmp c b p) 0 =
  if (k <? length b)%nat then (nth k tmp 0 - c * nth k b 0) mod p else nth k tmp 0.
Proof.
  revert b k; induction tmp as [|t tmp IH]; intros [|y b] k Hl; cbn [sub_scaled_mod length] in *.
  - destruct k; reflexivity.
  - lia.
  - destruct k; reflexivity.
  - destruct k as [|k]; cbn [nth]; [reflexivity|].
    rewrite IH by lia. change (S k <? S (length b))%nat with (k <? length b)%nat. reflexivity.
Qed.

Lemma sub_scaled_mod_at_nth tmp i c b p k :
  (i + length b <= length tmp)%nat ->
  nth k (sub_scaled_mod_at tmp i c b p) 0 =
  if ((i <=? k) && (k <? i + length b))%nat
  then (nth k tmp 0 - c * nth (k - i) b 0) mod p else nth k tmp 0.
Proof.
  revert tmp k; induction i as [|i IH]; intros tmp k Hl.
  - rewrite ssma_0. rewrite sub_scaled_mod_nth by lia. rewrite Nat.sub_0_r. reflexivity.
  - destruct tmp as [|t tmp]; cbn [length] in Hl; [lia|]. rewrite ssma_S.
    destruct k as [|k]; cbn [nth]; [reflexivity|].
    rewrite IH by lia.
    change (S i <=? S k)%nat with (i <=? k)%nat.
    change (S k <? S i + length b)%nat with (k <? i + length b)%nat.
    reflexivity.
Qed.

(** The loop keeps the length of [tmp], produces [i + 1] new quotient coefficients. *)
Lemma divrem_loop_length i : forall bdeg b invlc p tmp quo q r,
  divrem_loop i bdeg b invlc p tmp quo = (q, r) ->
  length r = length tmp /\ length q = (length quo + i + 1)%nat.
Proof.
  induction i as [|i IH]; intros bdeg b invlc p tmp quo q r; cbn [divrem_loop].
  - intros H; inversion H; subst. rewrite sub_scaled_mod_at_length. cbn [length]. lia.
  - intros H. apply IH in H. rewrite sub_scaled_mod_at_length in H. cbn [length] in H. lia.
Qed.

Lemma clear_coef t invlc lc p : 0 < p -> (lc * invlc) mod p = 1 -> (t - ((t * invlc) mod p) * lc) mod p = 0.
Proof.
  intros Hp Hinv.
  rewrite Zminus_mod, Z.mul_mod_idemp_l by lia.
  replace (t * invlc * lc) with (t * (lc * invlc)) by ring.
  rewrite <- Z.mul_mod_idemp_r, Hinv, Z.mul_1_r, <- Zminus_mod, Z.sub_diag by lia.
  apply Z.mod_0_l; lia.
Qed.

(** One step of the loop at index [i]: position [i + bdeg] becomes 0, the positions above
    are unchanged, the positions [i .. i + bdeg] are reduced. *)
Lemma divrem_step_nth b invlc p tmp i k :
  0 < p -> b <> [] -> ((nth (length b - 1) b 0) * invlc) mod p = 1 ->
  (i + length b <= length tmp)%nat ->
  let coef := (nth (i + (length b - 1)) tmp 0 * invlc) mod p in
  let tmp' := sub_scaled_mod_at tmp i coef b p in
  ((i + length b <= k)%nat -> nth k tmp' 0 = nth k tmp 0) /\
  (k = (i + (length b - 1))%nat -> nth k tmp' 0 = 0) /\
  ((i <= k < i + length b)%nat -> 0 <= nth k tmp' 0 < p).
Proof.
  intros Hp Hb Hinv Hl coef tmp'. unfold tmp'.
  assert (Lb : (1 <= length b)%nat) by (destruct b; [congruence|cbn [length]; lia]).
  rewrite sub_scaled_mod_at_nth by lia.
  destruct (Nat.leb_spec i k); destruct (Nat.ltb_spec k (i + length b)); cbn [andb];
    (split; [intros; try lia; reflexivity|split; [intros ->|intros; try lia]]); try lia.
  - replace (i + (length b - 1) - i)%nat with (length b - 1)%nat by lia.
    unfold coef. apply clear_coef; assumption.
  - apply Z.mod_pos_bound; lia.
Qed.

(** Zero top: once position [i + bdeg] is cleared it stays cleared; after the loop every
    position >= bdeg is 0 and every position is in [0,p). *)
Lemma divrem_loop_top i : forall b invlc p tmp quo q r,
  0 < p -> b <> [] -> ((nth (length b - 1) b 0) * invlc) mod p = 1 ->
  (i + length b <= length tmp)%nat ->
  (forall k, (i + length b <= k)%nat -> nth k tmp 0 = 0) ->
  divrem_loop i (length b - 1) b invlc p tmp quo = (q, r) ->
  (forall k, (length b - 1 <= k)%nat -> nth k r 0 = 0) /\
  (forall k, (k < length b - 1)%nat -> 0 <= nth k r 0 < p).
Proof.
  induction i as [|i IH]; intros b invlc p tmp quo q r Hp Hb Hinv Hl Hz; cbn [divrem_loop].
  - intros H; inversion H; subst; clear H.
    assert (Lb : (1 <= length b)%nat) by (destruct b; [congruence|cbn [length]; lia]).
    split; intros k Hk.
    + pose proof (divrem_step_nth b invlc p tmp 0 k Hp Hb Hinv Hl) as S0. cbn [Nat.add] in S0.
      destruct S0 as [A [B C]].
      destruct (Nat.eq_dec k (length b - 1)) as [E|E].
      * apply B. lia.
      * rewrite A by lia. apply Hz. lia.
    + pose proof (divrem_step_nth b invlc p tmp 0 k Hp Hb Hinv Hl) as S0. cbn [Nat.add] in S0.
      destruct S0 as [A [B C]].
      apply C. lia.
  - intros H.
    assert (Lb : (1 <= length b)%nat) by (destruct b; [congruence|cbn [length]; lia]).
    eapply IH in H; try eassumption.
    + rewrite sub_scaled_mod_at_length. lia.
    + intros k Hk.
      destruct (divrem_step_nth b invlc p tmp (S i) k Hp Hb Hinv Hl) as [A [B C]].
      destruct (Nat.eq_dec k (S i + (length b - 1))) as [E|E].
      * apply B. exact E.
      * rewrite A by lia. apply Hz. lia.
Qed.

(** Quotient coefficients are reduced. *)
Lemma divrem_loop_quo_range i : forall bdeg b invlc p tmp quo q r,
  0 < p -> Forall (fun c => 0 <= c < p) quo ->
  divrem_loop i bdeg b invlc p tmp quo = (q, r) -> Forall (fun c => 0 <= c < p) q.
Proof.
  induction i as [|i IH]; intros bdeg b invlc p tmp quo q r Hp Hq; cbn [divrem_loop].
  - intros H; inversion H; subst. constructor; [apply Z.mod_pos_bound; lia|assumption].
  - intros H. eapply IH in H; try eassumption. constructor; [apply Z.mod_pos_bound; lia|assumption].
Qed.

Lemma last_nth_len (l : list Z) : last l 0 = nth (length l - 1) l 0.
Proof.
  induction l as [|x t IH]; [reflexivity|].
  destruct t as [|y t']; [reflexivity|].
  change (last (x :: y :: t') 0) with (last (y :: t') 0). rewrite IH.
  cbn [length]. replace (S (S (length t')) - 1)%nat with (S (length t')) by lia.
  cbn [nth]. replace (S (length t') - 1)%nat with (length t') by lia. reflexivity.
Qed.

(** A list whose positions >= n are 0 strips to at most n entries. *)
Lemma strip_short l n : (forall k, (n <= k)%nat -> nth k l 0 = 0) -> (length (strip opsZ l) <= n)%nat.
Proof.
  revert n; induction l as [|x t IH]; intros n H; [cbn; lia|].
  rewrite strip_cons. destruct n as [|n].
  - assert (E : strip opsZ t = []).
    { apply strip_nil_iff. apply Forall_forall. intros c Hc.
      destruct (In_nth _ _ 0 Hc) as [k [Hk <-]]. apply (H (S k)). lia. }
    rewrite E. unfold is0; cbn [reqb r0 opsZ].
    pose proof (H 0%nat ltac:(lia)) as H0. cbn [nth] in H0. rewrite H0. cbn. lia.
  - assert (L : (length (strip opsZ t) <= n)%nat).
    { apply IH. intros k Hk. apply (H (S k)). lia. }
    destruct (strip opsZ t) eqn:E; [destruct (is0 opsZ x); cbn [length]; lia|cbn [length] in *; lia].
Qed.

Lemma Forall_nth_range (P : Z -> Prop) l : (forall k, (k < length l)%nat -> P (nth k l 0)) -> Forall P l.
Proof.
  intros H. apply Forall_forall. intros c Hc. destruct (In_nth _ _ 0 Hc) as [k [Hk <-]]. apply H; exact Hk.
Qed.
