(** The exactness flag of the model of the integer sub-resultant routines is always true
    (sub-resultant structure theorem, via SubresDet.v / SubresInv.v): every truncating division
    performed by [resultant_smart], [resultant_smart_gcd] and [discriminant] on canonical inputs has
    remainder zero. ssreflect/MathComp style. *)
From RNT.Model Require Import Base Poly Resultant.
From Coq Require Import ZArith.
From mathcomp Require Import all_ssreflect ssralg poly polydiv matrix mxpoly.
From mathcomp Require Import ssrZ zify.
From RNT.Refine Require Import PolyRefine PolyDiv PolyZ ResInt ResGcd SubresDet SubresInv.
From RNT.Refine Require ResProofs ResProofs2 ResProofs3.
Set Implicit Arguments.
Unset Strict Implicit.
Unset Printing Implicit Defensive.
Import GRing.Theory.
Local Open Scope ring_scope.

Local Notation dg p := (size p).-1.

Lemma rem_mull (x d : Z) : d != 0 -> (Z.rem (d * x) d =? 0)%Z.
Proof. by move=> /eqP nz; apply/Z.eqb_eq; rewrite Z.mul_comm; apply: Z.rem_mul. Qed.

Lemma rem_scale (h : seq Z) (phi : Z) (S : {poly Z}) : phi != 0 -> Poly h = phi *: S ->
  List.forallb (fun c => (Z.rem c phi =? 0)%Z) h.
Proof.
move=> nz E; rewrite Lforallb_eq; apply/allP=> c /(nthP 0) [i hi <-].
have -> : nth 0 h i = phi * S`_i by rewrite -coefZ -E coef_Poly.
exact: rem_mull.
Qed.

Lemma div_coeffs_exact (h : seq Z) (phi : Z) (S : {poly Z}) : phi != 0 -> Poly h = phi *: S ->
  div_coeffs h phi true = (true, Done (List.map (fun c => Z.quot c phi) h)).
Proof.
move=> nz E; rewrite /div_coeffs; case eh: h => [|h0 h'] //; rewrite -eh.
by move/eqP/Z.eqb_neq: (nz) => ->; rewrite (rem_scale nz E).
Qed.

Lemma pmeq_scale_exists (phi : Z) (S P : {poly Z}) : pmeq (phi *: S) P -> exists S', P = phi *: S'.
Proof.
case=> k E; exists ((-1) ^+ k * S).
by rewrite scalerAr E signrMK.
Qed.

Section Run.
Variables A0 B0 : {poly Z}.

(** One step: both flagged divisions are exact, and the invariant is re-established. *)
Lemma sub_step_next (f g : seq Z) (a b : Z) :
    canonZ f -> canonZ g -> (1 < size g)%N -> (size g <= size f)%N -> a != 0 -> b != 0 ->
    sinv A0 B0 (Poly f) (Poly g) a b ->
  exists g1 a1 b1,
    [/\ sub_step f g a b true = (true, Done (g, g1, a1, b1)), canonZ g1, (size g1 < size g)%N,
        a1 != 0 & b1 != 0] /\ (g1 != [::] -> sinv A0 B0 (Poly g) (Poly g1) a1 b1).
Proof.
move=> cf cg sg le_gf nza nzb HI.
have ng : g != [::] by case: (g) sg.
have nf : f != [::] by case: (f) (g) ng le_gf => [|? ?] [|? ?].
have szF : size (Poly f) = size f by rewrite canon_size_Poly.
have szG : size (Poly g) = size g by rewrite canon_size_Poly.
have nzF : Poly f != 0 by rewrite canon_Poly_eq0.
have nzG : Poly g != 0 by rewrite canon_Poly_eq0.
have zl : zlast g = lead_coef (Poly g) by apply: zlast_lead.
set c := lead_coef (Poly g) in zl.
have nzc : c != 0 by rewrite lead_coef_eq0.
have G1 : (1 < size (Poly g))%N by rewrite szG.
have leGF : (size (Poly g) <= size (Poly f))%N by rewrite szF szG.
pose d := (size f - size g)%N.
have dE' : (dg (Poly f) - dg (Poly g))%N = d by rewrite szF szG /d; move: le_gf sg; clear; lia.
have dE : (pdeg f - pdeg g)%Z = Z.of_nat d by rewrite !pdeg_sizeZ // /d; move: le_gf; clear; lia.
case E: (pseudo_div_rem f g) => [q h].
have [cq ch defA szh] := pseudo_div_rem_ok cf cg ng le_gf E.
have cE : last 0 g = c by rewrite -zl /zlast Llast_eq.
rewrite cE -/d -dE' in defA.
have ltPh : (size (Poly h) < size (Poly g))%N by rewrite szG canon_size_Poly.
have Hprem := step_prem nzF nzG leGF G1 nza nzb defA ltPh HI.
have Hh := step_h G1 HI.
have Hinv := step_inv nzF nzG leGF G1 nza nzb defA ltPh HI.
rewrite dE' in Hprem Hh Hinv defA.
have [S' ES] := pmeq_scale_exists Hprem.
have nzbd : b ^+ d != 0 by rewrite expf_neq0.
have nzphi : a * b ^+ d != 0 by rewrite mulf_neq0.
have Hsec : (Z.rem (c ^+ d * b) (b ^+ d) =? 0)%Z.
  case: (posnP d) => [->|d0]; first by rewrite !expr0 Z.rem_1_r.
  by have [k Hk] := Hh d0; rewrite -[Z.mul _ _]/(c ^+ d * b)%R /c Hk mulrCA; apply: rem_mull.
have S : sub_step f g a b true =
         (true, Done (g, List.map (fun x => Z.quot x (a * b ^+ d)) h, c, Z.quot (c ^+ d * b) (b ^+ d))).
  rewrite /sub_step /pseudo_rem_chk zl.
  move/eqP/Z.eqb_neq: (nzc) => -> /=; rewrite E /= dE !Zpow_exp (div_coeffs_exact nzphi ES) /=.
  by move/eqP/Z.eqb_neq: (nzbd) => ->; rewrite Hsec.
set g1 := List.map _ h in S; set b1 := Z.quot _ _ in S.
exists g1, c, b1.
have cf' : ResProofs2.canon f by apply/canon_canonZ.
have ng' : g <> [::] by apply/eqP.
have zl' : zlast g <> 0%Z by rewrite zl; apply/eqP.
have nza' : a <> 0%Z by apply/eqP.
have nzb' : b <> 0%Z by apply/eqP.
have dle : (pdeg g <= pdeg f)%Z by rewrite !pdeg_sizeZ //; move: le_gf; clear; lia.
have [g2 [a2 [b2 [[eg1 ea1 eb1] [cg1 [nza1 [nzb1 ltg1]]]]]]] :=
  ResProofs2.sub_step_inv f g a b true _ cf' ng' zl' nza' nzb' dle S.
rewrite -eg1 -ea1 -eb1 in cg1 nza1 nzb1 ltg1.
have [_ b1E [Q [P [defA2 szP defP]]]] := sub_step_poly cf cg ng le_gf S.
have cg1' : canonZ g1 by apply/canon_canonZ.
split; first split=> //; try exact/eqP.
  by rewrite -!Llength_eq; apply/ltP.
move=> ng1; have nzH : Poly g1 != 0 by rewrite canon_Poly_eq0.
apply: Hinv nzH _ b1E.
have: Poly h = (a * b ^+ d) *: Poly g1.
  by apply: Poly_div_coeffs; apply: rem_scale ES.
by [].
Qed.


(** The last division of [resultant_smart]. *)
Lemma smart_finish_true m (f : seq Z) (g0 a b s : Z) :
    canonZ f -> f != [::] -> (Z.of_nat (size f) <= two64)%Z -> b != 0 -> g0 != 0 ->
    sinv A0 B0 (Poly f) (Poly [:: g0]) a b ->
  fst (smart_finish m f [:: g0] b s true) = true.
Proof.
move=> cf nf hN nzb nzg HI; rewrite /smart_finish.
have hf : (0 < size f)%N by rewrite lt0n size_eq0.
case: (debug_assert _ _) => //= _.
rewrite pdeg_sizeZ //; case: ifP => [//|/Z.eqb_neq h0].
case: (debug_assert _ _) => //= _.
rewrite ResProofs.u64_norm_ok /=; last by move: h0 hf hN; rewrite /two64; clear; move: (size f) => n; lia.
have -> : (Z.of_nat (size f) - 1 - 1 = Z.of_nat (dg f).-1)%Z by move: h0 hf; clear; move: (size f) => n; lia.
have -> : (Z.of_nat (size f) - 1 = Z.of_nat (dg f))%Z by move: hf; clear; move: (size f) => n; lia.
rewrite !Zpow_exp; case: ifP => // _ /=.
have cg : canonZ [:: g0] by [].
have sG : size (Poly [:: g0]) = 1%N by rewrite canon_size_Poly.
have sF : (1 < size (Poly f))%N by rewrite canon_size_Poly //; move: h0 hf; clear; move: (size f) => n; lia.
have [k] := finish_exact HI sG sF.
rewrite canon_size_Poly // coef_Poly /= => ->.
by rewrite mulrCA; apply: rem_mull; rewrite expf_neq0.
Qed.

Lemma smart_loop_true m fuel : forall (f g : seq Z) (a b s : Z),
    canonZ f -> f != [::] -> canonZ g -> (size g <= size f)%N -> (Z.of_nat (size f) <= two64)%Z ->
    a != 0 -> b != 0 -> (g != [::] -> sinv A0 B0 (Poly f) (Poly g) a b) ->
  fst (smart_loop m fuel f g a b s true) = true.
Proof.
elim: fuel => // k IH f g a b s cf nf cg le_gf hN nza nzb HI.
case eg: g => [|g0 g'] //; rewrite -eg.
have ng : g != [::] by rewrite eg. have ng' : g <> [::] by apply/eqP.
have hg : (0 < size g)%N by rewrite eg.
rewrite (ResProofs.smart_loop_S' m k f g a b s true ng') !pdeg_sizeZ //.
case: ifP => [/Z.eqb_eq g1 | /Z.eqb_neq g1].
  have sg1 : size g = 1%N by move: g1 hg; clear; lia.
  have eg1 : g = [:: g0] by move: sg1; rewrite eg; case: (g').
  have nzg0 : g0 != 0 by move: cg; rewrite eg1 /canonZ /canon /=.
  have HI' := HI ng; rewrite eg1 in HI'.
  by rewrite [in smart_finish _ _ _ _ _ _]eg1; apply: smart_finish_true HI'.
case: ifP => [/Z.ltb_lt ltfg | _]; first by move: ltfg le_gf; clear; lia.
have sg2 : (1 < size g)%N by move: g1 hg; clear; lia.
have [g1' [a1 [b1 [[S cg1 ltg1 nza1 nzb1] HI1]]]] := sub_step_next cf cg sg2 le_gf nza nzb (HI ng).
rewrite S /=; apply: IH => //; first exact: ltnW.
by move: (leq_trans le_gf (leqnn _)) hN; clear; lia.
Qed.

Lemma gcd_loop_true fuel : forall (f g : seq Z) (a b : Z),
    canonZ f -> f != [::] -> canonZ g -> (size g <= size f)%N ->
    a != 0 -> b != 0 -> (g != [::] -> sinv A0 B0 (Poly f) (Poly g) a b) ->
  fst (gcd_loop fuel f g a b true) = true.
Proof.
elim: fuel => // k IH f g a b cf nf cg le_gf nza nzb HI.
rewrite ResProofs.gcd_loop_S; case eg: g => [|g0 g'] //; rewrite -eg.
have ng : g != [::] by rewrite eg.
have hg : (0 < size g)%N by rewrite eg.
rewrite !pdeg_sizeZ //; case: ifP => [//| /Z.eqb_neq g1].
case: ifP => [/Z.ltb_lt ltfg | _]; first by move: ltfg le_gf; clear; lia.
have sg2 : (1 < size g)%N by move: g1 hg; clear; lia.
have [g1' [a1 [b1 [[S cg1 ltg1 nza1 nzb1] HI1]]]] := sub_step_next cf cg sg2 le_gf nza nzb (HI ng).
by rewrite S /=; apply: IH => //; exact: ltnW.
Qed.

End Run.

Lemma loop_fuel_S A (g : seq A) : loop_fuel g = (2 * size g + 2).+1.
Proof. by rewrite /loop_fuel -Llength_eq; lia. Qed.

(** [P] The exactness flag of [resultant] is true for all canonical inputs. *)
Theorem resultant_flag_true m (f g : seq Z) :
  ResProofs.canonb f = true -> ResProofs.canonb g = true ->
  ResProofs.len_ok f = true -> ResProofs.len_ok g = true ->
  fst (Resultant.resultant m f g) = true.
Proof.
rewrite !canonb_canonZ => cf cg /Z.leb_le lf /Z.leb_le lg.
rewrite /Resultant.resultant /resultant_smart; case ef: f => [|f0 f'] //; rewrite -ef.
have nf : f != [::] by rewrite ef.
have one0 : (1 : Z) != 0 by [].
rewrite loop_fuel_S.
case: (leqP (size g) (size f)) => [le_gf | lt_fg].
  by apply: (@smart_loop_true (Poly f) (Poly g)) => // _; exact: sinv_init.
have ng : g != [::] by case: (g) lt_fg. have ng' : g <> [::] by apply/eqP.
have hf : (0 < size f)%N by rewrite lt0n size_eq0.
rewrite (ResProofs.smart_loop_S' m _ f g _ _ _ true ng') !pdeg_sizeZ //.
have -> : (Z.of_nat (size g) - 1 =? 0)%Z = false by apply/Z.eqb_neq; move: lt_fg hf; clear; lia.
have -> : (Z.of_nat (size f) - 1 <? Z.of_nat (size g) - 1)%Z = true by apply/Z.ltb_lt; move: lt_fg hf; clear; lia.
by apply: (@smart_loop_true (Poly g) (Poly f)) => //; [exact: ltnW | move=> _; exact: sinv_init].
Qed.

(** [P] The exactness flag of [resultant_gcd] is true for all canonical inputs. *)
Theorem gcd_flag_true (f g : seq Z) :
  ResProofs.canonb f = true -> ResProofs.canonb g = true -> fst (resultant_gcd f g) = true.
Proof.
rewrite !canonb_canonZ => cf cg; rewrite /resultant_gcd /resultant_smart_gcd.
case ef: f => [|f0 f'] //; rewrite -ef.
have nf : f != [::] by rewrite ef.
have one0 : (1 : Z) != 0 by [].
have [cf0 [f1 [E1 E2 nzcf [Hf cf1 nf1 _]]]] := content_pp cf nf.
have [cg0 [g1 [Hcg Hdg cg1]]] : exists cg0 g1,
    [/\ content_chk g = Done cg0, poly_div g cg0 = Done g1 & canonZ g1].
  case eg: g cg => [|g0 g'] cg; first by exists 0, [::]; split.
  rewrite -eg in cg *; have ng : g != [::] by rewrite eg.
  have [c [pp [Ec Ep nzc [H cpp _ _]]]] := content_pp cg ng.
  by exists c, pp; split.
rewrite E1 /= Hcg /= E2 /= Hdg /= loop_fuel_S.
have: fst (gcd_loop (2 * size g1 + 2).+1 f1 g1 1 1 true) = true.
  case: (leqP (size g1) (size f1)) => [le_gf | lt_fg].
    by apply: (@gcd_loop_true (Poly f1) (Poly g1)) => // _; exact: sinv_init.
  have ng : g1 != [::] by case: (g1) lt_fg. have ng' : g1 <> [::] by apply/eqP.
  have hf : (0 < size f1)%N by rewrite lt0n size_eq0.
  rewrite (ResProofs.gcd_loop_S' _ f1 g1 1 1 true ng') !pdeg_sizeZ //; case: ifP => // _.
  have -> : (Z.of_nat (size f1) - 1 <? Z.of_nat (size g1) - 1)%Z = true by apply/Z.ltb_lt; move: lt_fg hf; clear; lia.
  by apply: (@gcd_loop_true (Poly g1) (Poly f1)) => //; [exact: ltnW | move=> _; exact: sinv_init].
case: (gcd_loop _ _ _ _ _ _) => e1 [ff|t|] /= -> //=.
by case: (content_chk ff) => //= c; case: (poly_div ff c).
Qed.

(** ** The last division of [discriminant]: lc f divides Res(f, f') *)
From RNT.Refine Require Import ResSylvester.
From mathcomp Require Import ssrnum.

Lemma det_col_factor (R : comRingType) N (M : 'M[R]_N) (j0 : 'I_N) (c : R) (V : 'I_N -> R) :
  (forall i, M i j0 = c * V i) -> \det M = c * \sum_i V i * cofactor M i j0.
Proof.
move=> h; rewrite (expand_det_col M j0) big_distrr /=.
by apply: eq_bigr => i _; rewrite h mulrA.
Qed.

Lemma size_derivZ (p : {poly Z}) : (1 < size p)%N -> size p^`() = (size p).-1.
Proof.
move=> sp; have nzp : p != 0 by rewrite -size_poly_gt0; move: sp; clear; slia.
have h1 := lt_size_deriv nzp.
have h2 : ((size p).-2 < size p^`())%N.
  rewrite ltnNge; apply/negP => le; have /eqP := nth_default 0 le.
  rewrite coef_deriv Num.Theory.mulrn_eq0 /=.
  have -> : (size p).-2.+1 = (size p).-1 by move: sp; clear; slia.
  by rewrite -lead_coefE lead_coef_eq0 (negPf nzp).
by move: sp h1 h2; clear; move: (size p^`()) => x; slia.
Qed.

Lemma resultant_deriv_lead (p : {poly Z}) : (1 < size p)%N ->
  exists t, resultant p^`() p = lead_coef p * t.
Proof.
move=> sp; rewrite /resultant Sylvester_Syl Syl_mkS size_derivZ //.
set n := (size p).-1; set N := (n + _)%N.
have n_gt0 : (0 < n)%N by rewrite /n; move: sp; clear; slia.
have N_gt0 : (N.-1 < N)%N by rewrite /N; move: n_gt0; clear; lia.
pose j0 := Ordinal N_gt0.
pose V (i : 'I_N) : Z := if (i < n)%N then (if (N.-1 - i).+1 == n then n%:R else 0)
                          else (if (N.-1 - (i - n))%N == n then 1 else 0).
eexists; apply: (@det_col_factor _ _ _ j0 _ V) => i.
have lt_iN := ltn_ord i.
rewrite mxE /V /=; case: ifP => lt_in; rewrite coefMXn.
  have -> : (N.-1 < i)%N = false.
    by apply/negbTE; rewrite -leqNgt /N; move: lt_in; move: (n) (nat_of_ord i) => x y; clear; lia.
  rewrite coef_deriv; case: eqP => [->|ne].
    by rewrite -/n -lead_coefE mulr_natr.
  rewrite nth_default ?mul0rn ?mulr0 // -/n.+1 -/(size p).
  have -> : size p = n.+1 by rewrite /n; move: sp; clear; slia.
  by move: ne lt_in; rewrite /N; move: (n) (nat_of_ord i) => x y; clear; lia.
have -> : (N.-1 < i - n)%N = false.
  by apply/negbTE; rewrite -leqNgt; move: lt_iN; move: (n) (N) (nat_of_ord i) => x y z; clear; lia.
case: eqP => [->|ne]; first by rewrite -lead_coefE mulr1.
rewrite nth_default ?mulr0 //.
have -> : size p = n.+1 by rewrite /n; move: sp; clear; slia.
by move: ne lt_in lt_iN; rewrite /N; move: (n) (nat_of_ord i) => x y; clear; lia.
Qed.

(** [P] The exactness flag of [discriminant] is true for all canonical inputs. *)
Theorem discriminant_flag_true m (f : seq Z) :
  ResProofs.canonb f = true -> ResProofs.len_ok f = true -> fst (discriminant m f) = true.
Proof.
move=> cbf lf; rewrite /discriminant; case ef: f => [|f0 f'] //; rewrite -ef.
have nf : f != [::] by rewrite ef. have nf' : f <> [::] by apply/eqP.
have cf : canonZ f by rewrite -canonb_canonZ.
have cd : ResProofs.canonb (pdiff opsZ f) = true by apply: ResProofs3.pdiff_canon.
have ld : ResProofs.len_ok (pdiff opsZ f) = true.
  apply: ResProofs2.len_ok_intro; have := ResProofs2.len_ok_spec _ lf.
  by have /leP := ResProofs3.pdiff_length f; rewrite !Llength_eq; lia.
have := resultant_flag_true m cbf cd lf ld.
case R: (Resultant.resultant m f (pdiff opsZ f)) => [e [res|t|]] /= e1 //; rewrite e1 in R *.
case: ifP => // /Z.eqb_neq/eqP nzl /=.
have [t Ht] : exists t, res = zlast f * t.
  case: (leqP (size f) 1) => [le1 | sf].
    have ef1 : f = [:: f0] by move: le1; rewrite ef; case: (f').
    move: R; rewrite ef1; have -> : pdiff opsZ [:: f0] = [::] by [].
    rewrite ResProofs.resultant_zero_r => -[<-].
    by exists 0; rewrite mulr0.
  have nd : pdiff opsZ f <> [::] by apply/eqP/pdiff_nz.
  have := resultant_int_partial cbf cd lf ld nf' nd R.
  rewrite opsZ_eq (Poly_pdiff ofZ_natZ) zlast_lead // => ->.
  have sF : (1 < size (Poly f))%N by rewrite canon_size_Poly.
  by have [t Ht] := resultant_deriv_lead sF; exists t.
by case: ifP => _; rewrite Ht; [rewrite -[Z.opp _]/(- (zlast f * t))%R -mulrN|]; apply: rem_mull.
Qed.
