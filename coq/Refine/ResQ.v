(** [resultant_rational] (model, lists over Qc) = MathComp's resultant of the refined polynomials.
    ssreflect/MathComp style. Uses the Qc field structure and the list <-> {poly} refinement of
    QcRing.v / PolyRefine.v / PolyQ.v (C09) and the Sylvester recurrences of ResSylvester.v/ResEuclid.v. *)
From RNT.Model Require Import Base Poly Resultant.
From Coq Require Import QArith Qcanon.
From mathcomp Require Import all_ssreflect ssralg poly polydiv matrix mxpoly.
From mathcomp Require Import ssrZ zify.
From RNT.Refine Require Import QcRing PolyRefine PolyDiv PolyQ ResSylvester ResEuclid.
From RNT.Refine Require ResProofs ResProofs3.
Set Implicit Arguments.
Unset Strict Implicit.
Unset Printing Implicit Defensive.
Import GRing.Theory.
Local Open Scope ring_scope.

Local Notation dg p := (size p).-1.

Lemma Qcpower_exp (x : Qc) n : Qcpower x n = x ^+ n.
Proof. by elim: n => //= n ->; rewrite exprS. Qed.

Lemma qcanonb_canonQ (p : seq Qc) : ResProofs.qcanonb p = canonQ p.
Proof.
rewrite /ResProofs.qcanonb /canonQ /canon; case: p => [|x p]; first by symmetry; apply: (oner_neq0 Qc_ringType).
by rewrite Llast_eq /=.
Qed.

Lemma canonQ_nz_Poly (a : seq Qc) : canonQ a -> a != [::] -> Poly a != 0.
Proof. by move=> ca; rewrite canon_Poly_eq0. Qed.

Lemma pdeg_size (a : seq Qc) : a != [::] -> pdeg a = (Z.of_nat (size a) - 1)%Z.
Proof. by case: a. Qed.

Lemma zodd_nat (n : nat) : zodd (Z.of_nat n) = odd n.
Proof.
rewrite /zodd -{1}[n]odd_double_half -muln2; move: (n./2) => k.
case: (odd n); [apply/Z.eqb_eq|apply/Z.eqb_neq]; rewrite [nat_of_bool _]/= ?add0n ?add1n.
  by rewrite Nat2Z.inj_succ Nat2Z.inj_mul -Z.add_1_r Z.add_comm Z.mod_add.
by rewrite Nat2Z.inj_mul Z.mod_mul.
Qed.

Lemma lead_coef_Poly (b : seq Qc) : canonQ b -> b != [::] -> lead_coef (Poly b) = qlast b.
Proof.
move=> cb nb; rewrite lead_coefE canon_size_Poly // coef_Poly /qlast Llast_eq.
by rewrite nth_last.
Qed.

(** The remainder step of the model is [%%]. *)
Lemma qrem_chk_modp (a b r : seq Qc) : canonQ a -> canonQ b -> a != [::] -> b != [::] ->
  qrem_chk a b = Done r -> canonQ r /\ Poly r = Poly a %% Poly b.
Proof.
move=> ca cb na nb; rewrite /qrem_chk !Llength_eq.
case: Nat.ltb_spec => [/ltP lt_ab [<-]|/leP le_ba].
  by split=> //; rewrite modp_small // !canon_size_Poly.
case: ifP => // _ [<-].
case E: (div_rem_q a b) => [q r'] /=.
have [cq cr defA szr] := div_rem_q_main ca cb nb E.
split=> //; rewrite defA modp_addl_mul_small // !canon_size_Poly //.
Qed.

Section Spec.
Variable m : mode.
Variable N : nat.
Hypothesis HN : (Z.of_nat N <= two64)%Z.

Lemma rr_spec fuel (a b : seq Qc) v : canonQ a -> canonQ b ->
  (size a <= N)%N -> (size b <= N)%N ->
  resultant_rational_fuel m fuel a b = Done v -> v = res_euclid fuel (Poly a) (Poly b).
Proof.
elim: fuel a b v => // k IHk a b v ca cb la lb; rewrite ResProofs.rr_S.
case: a ca la => [|a0 a'] ca la; first by case=> <-; rewrite /= eqxx.
case: b cb lb => [|b0 b'] cb lb; first by case=> <-; rewrite /= eqxx orbT.
move: ca la cb lb; set a := a0 :: a'; set b := b0 :: b' => ca la cb lb.
have na : a != [::] by []. have nb : b != [::] by []. have hb0 : b`_0 = b0 by [].
clearbody a b.
have nzA := canonQ_nz_Poly ca na; have nzB := canonQ_nz_Poly cb nb.
rewrite [res_euclid _ _ _]/= (negPf nzA) (negPf nzB) /= !canon_size_Poly //.
have -> : (pdeg b =? 0)%Z = (size b == 1%N).
  by rewrite pdeg_size //; apply/idP/idP => [/Z.eqb_eq|/eqP] h; [apply/eqP|apply/Z.eqb_eq]; lia.
case: ifP => [_ [<-] | szb].
  by rewrite /qcpow Qcpower_exp coef_Poly hb0 pdeg_size //=; congr (_ ^+ _); lia.
case E: (qrem_chk a b) => [r| |] //=.
have [cr defR] := qrem_chk_modp ca cb na nb E; rewrite -defR.
have szr : (size r <= size a)%N.
  move: E; rewrite /qrem_chk !Llength_eq; case: Nat.ltb_spec => [_ [<-] //|/leP le_ba].
  case: ifP => // _ [<-]; case E': (div_rem_q a b) => [q r'] /=.
  by have [_ _ _ ltr] := div_rem_q_main ca cb nb E'; apply: leq_trans (ltnW ltr) le_ba.
case: r cr defR szr E => [|r0 r'] cr defR szr E; first by case=> <-; rewrite /= eqxx.
move: cr defR szr E; set r := r0 :: r' => cr defR szr E; have nr : r != [::] by [].
clearbody r.
rewrite (negPf (canonQ_nz_Poly cr nr)) canon_size_Poly //.
case E2: (resultant_rational_fuel m k b r) => [sub| |] //=.
have lr : (size r <= N)%N by apply: leq_trans szr la.
rewrite (IHk b r sub cb cr lb lr E2) ResProofs.u64_norm_ok; last first.
  have r_gt0 : (0 < size r)%N by rewrite lt0n size_eq0.
  by rewrite !pdeg_size //; move: r_gt0 szr la HN; rewrite /two64 /=; lia.
case=> <-; rewrite /qcpow Qcpower_exp lead_coef_Poly // !pdeg_size //.
have a_gt0 : (0 < size a)%N by rewrite lt0n size_eq0.
have b_gt0 : (0 < size b)%N by rewrite lt0n size_eq0.
have r_gt0 : (0 < size r)%N by rewrite lt0n size_eq0.
have -> : Z.to_nat (Z.of_nat (size a) - 1 - (Z.of_nat (size r) - 1)) = (dg a - dg r)%N.
  by move: a_gt0 r_gt0; clear; lia.
have -> : (Z.of_nat (size a) - 1 = Z.of_nat (dg a))%Z by move: a_gt0; clear; lia.
have -> : (Z.of_nat (size b) - 1 = Z.of_nat (dg b))%Z by move: b_gt0; clear; lia.
rewrite !zodd_nat -oddM -signr_odd.
case: (odd _); rewrite /= ?expr1 ?expr0.
  by rewrite mulN1r mulNr mulrC.
by rewrite mul1r mulrC.
Qed.

End Spec.

(** [P] [resultant_rational_spec]: on canonical non-zero inputs the value returned by the model of
    [resultant_rational] is the determinant of the Sylvester matrix. With MathComp's layout of
    [Sylvester_mx] (see ResSylvester.v) the classical Res(a, b) of the property is [resultant (Poly b) (Poly a)]. *)
Theorem resultant_rational_spec m (a b : seq Qc) v :
  ResProofs.qcanonb a = true -> ResProofs.qcanonb b = true ->
  ResProofs.len_ok a = true -> ResProofs.len_ok b = true ->
  a <> [::] -> b <> [::] ->
  resultant_rational m a b = Done v ->
  v = \det (Sylvester_mx (Poly b) (Poly a)).
Proof.
rewrite !qcanonb_canonQ => ca cb /Z.leb_le la /Z.leb_le lb /eqP na /eqP nb.
rewrite /resultant_rational => E.
have HN : (Z.of_nat (maxn (size a) (size b)) <= two64)%Z by rewrite -!Llength_eq in la lb *; lia.
rewrite (rr_spec HN ca cb (leq_maxl _ _) (leq_maxr _ _) E).
have [|-> _] := @res_euclid_correct _ (loop_fuel b) (Poly a) (Poly b)
  (canonQ_nz_Poly ca na) (canonQ_nz_Poly cb nb); last by [].
rewrite /emu /loop_fuel !canon_size_Poly // Llength_eq.
by qs; case: (size a < size b)%N; rewrite /= ?addn0 ?addn1; lia.
Qed.
