(** * IdealLaws: distributivity and associativity of the ideal product as equalities of normal
      forms, and closure of sums / products / principal ideals under multiplication by the
      order (stdlib + lia).  Associativity of the table is the boolean flag [table_assoc]. *)
From Coq Require Import ZArith List Lia Bool.
From RNT.Model Require Import Base LinAlg MultTable Ideal.
From RNT.Model Require Hnf.
From RNT.Refine Require Import MatZ HnfOps HnfSteps HnfSpec HnfLoop HnfMain HnfUnique HnfCanon HnfTerm HnfTotal
     IdealMul IdealSpec.
Import ListNotations.
Open Scope Z_scope.

(** ** the span of the pairwise products only depends on the spans of the factors *)
Lemma prod_rows_sub t A B A' B' :
  tshape t -> wf (length t) A -> wf (length t) B -> wf (length t) A' -> wf (length t) B' ->
  (forall v, In_rowspanZ (length t) v A -> In_rowspanZ (length t) v A') ->
  (forall v, In_rowspanZ (length t) v B -> In_rowspanZ (length t) v B') ->
  forall v, In_rowspanZ (length t) v (prod_rows t A B) -> In_rowspanZ (length t) v (prod_rows t A' B').
Proof.
  intros H WA WB WA' WB' SA SB. apply span_incl; [apply prod_rows_wf; auto|].
  apply Forall_forall. intros r Hr. apply in_map_iff in Hr. destruct Hr as [[a b] [<- Hab]].
  apply in_prod_iff in Hab. destruct Hab as [Ha Hb]. cbn [fst snd].
  apply prod_rows_member; auto; [apply SA|apply SB]; apply span_row_in; auto.
Qed.

Lemma prod_rows_congr t A B A' B' :
  tshape t -> wf (length t) A -> wf (length t) B -> wf (length t) A' -> wf (length t) B' ->
  same_rowspanZ (length t) A A' -> same_rowspanZ (length t) B B' ->
  same_rowspanZ (length t) (prod_rows t A B) (prod_rows t A' B').
Proof.
  intros H WA WB WA' WB' SA SB v. split; apply prod_rows_sub; auto; intros w Hw;
    try (apply SA; auto); try (apply SB; auto).
Qed.

Lemma same_span_refl m A : same_rowspanZ m A A.
Proof. intros v; reflexivity. Qed.

Lemma same_span_sym m A B : same_rowspanZ m A B -> same_rowspanZ m B A.
Proof. intros H v; symmetry; apply H. Qed.

Lemma same_span_trans m A B C : same_rowspanZ m A B -> same_rowspanZ m B C -> same_rowspanZ m A C.
Proof. intros H1 H2 v. rewrite (H1 v). apply H2. Qed.

Lemma same_members_span m A B : wf m A -> wf m B ->
  (forall r, In r A <-> In r B) -> same_rowspanZ m A B.
Proof. intros WA WB H v. split; apply rows_subset_span; auto; intros r Hr; apply H; auto. Qed.

(** ** distributivity: I (J + K) = I J + I K *)
Theorem mul_add_distr m I J K S P1 P2 :
  let t := i_table I in let n := length t in
  tshape t -> wf n (i_hnf I) -> wf n (i_hnf J) -> wf n (i_hnf K) -> (1 <= n)%nat ->
  i_table J = t -> i_table K = t ->
  ideal_add m J K = Done S -> ideal_mul m I J = Done P1 -> ideal_mul m I K = Done P2 ->
  ideal_mul m I S = ideal_add m P1 P2.
Proof.
  intros t n H WI WJ WK Hn TJ TK ES E1 E2.
  destruct (add_spec m J K S n WJ WK Hn ES) as (TS & IS & WS & SS).
  destruct (mul_spec m I J P1 H WI WJ Hn E1) as (T1 & I1 & W1 & S1).
  destruct (mul_spec m I K P2 H WI WK Hn E2) as (T2 & I2 & W2 & S2).
  fold t in T1, T2, S1, S2. fold n in W1, W2, S1, S2.
  rewrite mul_unfold; auto. fold t. rewrite TS, TJ, table_eqb_refl, debug_assert_true. cbn [bind].
  unfold ideal_add, Hnf.hnf_as_vecs. rewrite T1, T2, table_eqb_refl, debug_assert_true. cbn [bind].
  rewrite (hnf_new_canon0 (prod_rows t (i_hnf I) (i_hnf S)) (i_hnf P1 ++ i_hnf P2) n); auto.
  - apply prod_rows_wf; auto.
  - apply wf_app; auto.
  - assert (WJK : wf n (i_hnf J ++ i_hnf K)) by (apply wf_app; auto).
    apply same_span_trans with (prod_rows t (i_hnf I) (i_hnf J ++ i_hnf K)).
    { apply prod_rows_congr; auto. apply same_span_refl. }
    apply same_span_trans with (prod_rows t (i_hnf I) (i_hnf J) ++ prod_rows t (i_hnf I) (i_hnf K)).
    + apply same_members_span; [apply prod_rows_wf; auto|apply wf_app; split; apply prod_rows_wf; auto|].
      intros r. unfold prod_rows. rewrite in_app_iff, !in_map_iff. split.
      * intros [[a b] [<- Hab]]. apply in_prod_iff in Hab. destruct Hab as [Ha Hb].
        apply in_app_or in Hb. destruct Hb as [Hb|Hb]; [left|right]; exists (a, b); split; auto; apply in_prod; auto.
      * intros [[[a b] [<- Hab]]|[[a b] [<- Hab]]]; apply in_prod_iff in Hab; destruct Hab as [Ha Hb];
          exists (a, b); split; auto; apply in_prod; auto; apply in_or_app; auto.
    + apply same_span_app; auto; try (apply prod_rows_wf; auto); apply same_span_sym; intros v; [apply S1|apply S2].
Qed.

(** ** associativity of the table *)
Definition table_assoc (t : table) : bool :=
  let n := length t in
  forallb (fun i => forallb (fun j => forallb (fun k =>
    Hnf.list_eqb Z.eqb (bil t (table_entry t i j) (unit_vec n k)) (bil t (unit_vec n i) (table_entry t j k)))
    (seq 0 n)) (seq 0 n)) (seq 0 n).

Lemma table_assoc_units t : tshape t -> table_assoc t = true ->
  forall i j k, (i < length t)%nat -> (j < length t)%nat -> (k < length t)%nat ->
  bil t (bil t (unit_vec (length t) i) (unit_vec (length t) j)) (unit_vec (length t) k) =
  bil t (unit_vec (length t) i) (bil t (unit_vec (length t) j) (unit_vec (length t) k)).
Proof.
  intros H Ha i j k Hi Hj Hk. unfold table_assoc in Ha. rewrite forallb_forall in Ha.
  specialize (Ha i ltac:(apply in_seq; lia)). rewrite forallb_forall in Ha.
  specialize (Ha j ltac:(apply in_seq; lia)). rewrite forallb_forall in Ha.
  specialize (Ha k ltac:(apply in_seq; lia)).
  rewrite !bil_units; auto. revert Ha. apply list_eqb_eq. intros x y. apply Z.eqb_eq.
Qed.

(** a map that commutes with linear combinations is determined by its values on the unit vectors *)
Lemma linear_ext n (F G : list Z -> list Z) :
  (forall c A, wf n A -> F (lincomb n c A) = lincomb n c (map F A)) ->
  (forall c A, wf n A -> G (lincomb n c A) = lincomb n c (map G A)) ->
  (forall i, (i < n)%nat -> F (unit_vec n i) = G (unit_vec n i)) ->
  forall a, length a = n -> F a = G a.
Proof.
  intros HF HG HU a Ha. rewrite <- (lincomb_idmat n a Ha).
  rewrite HF, HG by apply idmat_shape. f_equal.
  unfold idmat. rewrite !map_map. apply map_ext_in. intros i Hi. apply in_seq in Hi. apply HU. lia.
Qed.

Lemma wf_map_bil_l t b A : tshape t -> wf (length t) (map (fun x => bil t x b) A).
Proof. intros H. apply wf_map. intros; apply bil_length; auto. Qed.

Lemma wf_map_bil_r t a A : tshape t -> wf (length t) (map (fun x => bil t a x) A).
Proof. intros H. apply wf_map. intros; apply bil_length; auto. Qed.

Theorem bil_assoc t a b c : tshape t -> table_assoc t = true ->
  length a = length t -> length b = length t -> length c = length t ->
  bil t (bil t a b) c = bil t a (bil t b c).
Proof.
  intros H Has Ha Hb Hc. set (n := length t).
  (* reduce a to unit vectors *)
  revert a Ha. apply (linear_ext n (fun a => bil t (bil t a b) c) (fun a => bil t a (bil t b c))).
  { intros d A WA. unfold n. rewrite bil_lincomb_l; auto. rewrite bil_lincomb_l; auto; [|apply wf_map_bil_l; auto].
    rewrite map_map. reflexivity. }
  { intros d A WA. unfold n. rewrite bil_lincomb_l; auto. }
  intros i Hi.
  (* reduce b *)
  revert b Hb. apply (linear_ext n (fun b => bil t (bil t (unit_vec n i) b) c) (fun b => bil t (unit_vec n i) (bil t b c))).
  { intros d A WA. unfold n. rewrite bil_lincomb_r; auto. rewrite bil_lincomb_l; auto; [|apply wf_map_bil_r; auto].
    rewrite map_map. reflexivity. }
  { intros d A WA. unfold n. rewrite bil_lincomb_l; auto. rewrite bil_lincomb_r; auto; [|apply wf_map_bil_l; auto].
    rewrite map_map. reflexivity. }
  intros j Hj.
  (* reduce c *)
  revert c Hc. apply (linear_ext n (fun c => bil t (bil t (unit_vec n i) (unit_vec n j)) c)
                                    (fun c => bil t (unit_vec n i) (bil t (unit_vec n j) c))).
  { intros d A WA. unfold n. rewrite bil_lincomb_r; auto. }
  { intros d A WA. unfold n. rewrite bil_lincomb_r; auto. rewrite bil_lincomb_r; auto; [|apply wf_map_bil_r; auto].
    rewrite map_map. reflexivity. }
  intros k Hk. apply table_assoc_units; auto.
Qed.

(** ** associativity: (I J) K = I (J K) *)
Theorem mul_assoc m I J K P Q :
  let t := i_table I in let n := length t in
  tshape t -> table_assoc t = true ->
  wf n (i_hnf I) -> wf n (i_hnf J) -> wf n (i_hnf K) -> (1 <= n)%nat ->
  i_table J = t -> i_table K = t ->
  ideal_mul m I J = Done P -> ideal_mul m J K = Done Q ->
  ideal_mul m P K = ideal_mul m I Q.
Proof.
  intros t n H Has WI WJ WK Hn TJ TK EP EQ.
  destruct (mul_spec m I J P H WI WJ Hn EP) as (TP & IP & WP & SP). fold t in TP, SP. fold n in WP, SP.
  assert (H' : tshape (i_table J)) by (rewrite TJ; auto).
  assert (WJ' : wf (length (i_table J)) (i_hnf J)) by (rewrite TJ; auto).
  assert (WK' : wf (length (i_table J)) (i_hnf K)) by (rewrite TJ; auto).
  assert (Hn' : (1 <= length (i_table J))%nat) by (rewrite TJ; auto).
  destruct (mul_spec m J K Q H' WJ' WK' Hn' EQ) as (TQ & IQ & WQ & SQ). rewrite TJ in TQ, WQ, SQ. fold n in WQ, SQ.
  pose proof (mul_unfold m P K) as EU. cbv zeta in EU. rewrite TP in EU. rewrite EU; auto. clear EU.
  rewrite (mul_unfold m I Q); auto. fold t. rewrite TK, TQ.
  destruct (debug_assert m (table_eqb t t)); cbn [bind]; auto.
  rewrite (hnf_new_canon0 (prod_rows t (i_hnf P) (i_hnf K)) (prod_rows t (i_hnf I) (i_hnf Q)) n); auto;
    try (apply prod_rows_wf; auto).
  set (A := i_hnf I) in *. set (B := i_hnf J) in *. set (C := i_hnf K) in *.
  assert (WAB : wf n (prod_rows t A B)) by (apply prod_rows_wf; auto).
  assert (WBC : wf n (prod_rows t B C)) by (apply prod_rows_wf; auto).
  apply same_span_trans with (prod_rows t (prod_rows t A B) C).
  { apply prod_rows_congr; auto. apply same_span_refl. }
  apply same_span_trans with (prod_rows t A (prod_rows t B C)).
  2:{ apply prod_rows_congr; auto. { apply same_span_refl. } apply same_span_sym. exact SQ. }
  unfold wf in WI, WJ, WK. rewrite Forall_forall in WI, WJ, WK.
  apply same_members_span; try (apply prod_rows_wf; auto).
  intros r. unfold prod_rows. rewrite !in_map_iff. split.
  - intros [[rab rc] [<- Hp]]. apply in_prod_iff in Hp. destruct Hp as [Hab Hc].
    apply in_map_iff in Hab. destruct Hab as [[ra rb] [<- Hab]]. apply in_prod_iff in Hab. destruct Hab as [Ha Hb].
    cbn [fst snd]. exists (ra, bil t rb rc). cbn [fst snd]. split.
    + symmetry. apply bil_assoc; auto.
    + apply in_prod; auto. apply in_map_iff. exists (rb, rc). split; auto. apply in_prod; auto.
  - intros [[ra rbc] [<- Hp]]. apply in_prod_iff in Hp. destruct Hp as [Ha Hbc].
    apply in_map_iff in Hbc. destruct Hbc as [[rb rc] [<- Hbc]]. apply in_prod_iff in Hbc. destruct Hbc as [Hb Hc].
    cbn [fst snd]. exists (bil t ra rb, rc). cbn [fst snd]. split.
    + apply bil_assoc; auto.
    + apply in_prod; auto. apply in_map_iff. exists (ra, rb). split; auto. apply in_prod; auto.
Qed.

(** ** closure under multiplication by the order ("is an ideal") *)
Lemma closed_gen t A : tshape t -> wf (length t) A ->
  (forall r c, In r A -> length c = length t -> In_rowspanZ (length t) (bil t r c) A) ->
  closed_mult t A.
Proof.
  intros H WA HA v c [d [_ ->]] Hc. rewrite bil_lincomb_l; auto.
  apply span_lincomb_of_members; auto. apply Forall_forall. intros r Hr.
  apply in_map_iff in Hr. destruct Hr as [a [<- Ha]]. apply HA; auto.
Qed.

Lemma closed_congr t A B : same_rowspanZ (length t) A B -> closed_mult t A -> closed_mult t B.
Proof. intros S HA v c Hv Hc. apply S. apply HA; auto. apply S; auto. Qed.

Theorem add_closed m I J K :
  let t := i_table I in let n := length t in
  tshape t -> wf n (i_hnf I) -> wf n (i_hnf J) -> (1 <= n)%nat -> ideal_add m I J = Done K ->
  closed_mult t (i_hnf I) -> closed_mult t (i_hnf J) -> closed_mult t (i_hnf K).
Proof.
  intros t n H WI WJ Hn E CI CJ. destruct (add_spec m I J K n WI WJ Hn E) as (_ & _ & _ & S).
  assert (W : wf n (i_hnf I ++ i_hnf J)) by (apply wf_app; auto).
  apply (closed_congr t (i_hnf I ++ i_hnf J)); [apply same_span_sym; exact S|].
  apply closed_gen; auto. intros r c Hr Hc. apply in_app_or in Hr. destruct Hr as [Hr|Hr].
  - apply (rows_subset_span n (i_hnf I ++ i_hnf J) (i_hnf I)); auto. { intros; apply in_or_app; auto. }
    apply CI; auto. apply span_row_in; auto.
  - apply (rows_subset_span n (i_hnf I ++ i_hnf J) (i_hnf J)); auto. { intros; apply in_or_app; auto. }
    apply CJ; auto. apply span_row_in; auto.
Qed.

Theorem mul_closed m I J K :
  let t := i_table I in let n := length t in
  tshape t -> table_assoc t = true -> wf n (i_hnf I) -> wf n (i_hnf J) -> (1 <= n)%nat ->
  ideal_mul m I J = Done K -> closed_mult t (i_hnf J) -> closed_mult t (i_hnf K).
Proof.
  intros t n H Has WI WJ Hn E CJ. destruct (mul_spec m I J K H WI WJ Hn E) as (_ & _ & _ & S).
  apply (closed_congr t (prod_rows t (i_hnf I) (i_hnf J))); [apply same_span_sym; exact S|].
  apply closed_gen; auto; [apply prod_rows_wf; auto|]. intros r c Hr Hc.
  apply in_map_iff in Hr. destruct Hr as [[a b] [<- Hab]]. apply in_prod_iff in Hab. destruct Hab as [Ha Hb].
  cbn [fst snd]. unfold wf in WI, WJ. pose proof WI as WI'. pose proof WJ as WJ'. rewrite Forall_forall in WI', WJ'.
  rewrite bil_assoc; auto. apply prod_rows_member; auto.
  - apply span_row_in; auto.
  - apply CJ; auto. apply span_row_in; auto.
Qed.

Theorem principal_closed m t a I :
  tshape t -> table_assoc t = true -> length a = length t -> (1 <= length t)%nat ->
  principal m t a = Done I -> closed_mult t (i_hnf I).
Proof.
  intros H Has Ha Hn E. destruct (principal_spec m t a I H Ha Hn E) as (_ & _ & _ & S).
  intros v c Hv Hc. apply S in Hv. destruct Hv as [d [Hd ->]]. apply S.
  exists (bil t d c). split; [apply bil_length; auto|]. apply bil_assoc; auto.
Qed.
