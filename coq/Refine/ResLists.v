(** List-level facts about the frozen polynomial model (Model/Poly.v) needed for the
    termination and no-panic arguments of the resultant routines (stdlib + lia style). *)
From RNT.Model Require Import Base Poly.
From Coq Require Import Lia QArith Qcanon.
Open Scope Z_scope.

(** ** [strip] *)
Section StripGeneric.
Context {T : Type} (R : ring_ops T).

Lemma strip_length_le (l : list T) : (length (strip R l) <= length l)%nat.
Proof.
  induction l as [|x t IH]; cbn [strip length]; [lia|].
  destruct (strip R t) eqn:E.
  - destruct (is0 R x); cbn [length]; lia.
  - cbn [length] in *. lia.
Qed.

(** the last stored coefficient of a normalised polynomial is not (boolean-)zero *)
Lemma strip_last_nz (l : list T) d : strip R l <> [] -> is0 R (last (strip R l) d) = false.
Proof.
  induction l as [|x t IH]; cbn [strip]; [congruence|].
  destruct (strip R t) as [|y t'] eqn:E.
  - destruct (is0 R x) eqn:Ex; [congruence|]. intros _. exact Ex.
  - intros _. change (last (x :: y :: t') d) with (last (y :: t') d).
    apply IH. congruence.
Qed.

(** if every coefficient from index [n] on is zero, the normalised list has length <= n *)
Lemma strip_length_bound (l : list T) (n : nat) :
  (forall k, (n <= k)%nat -> (k < length l)%nat -> is0 R (nth k l (r0 R)) = true) ->
  (length (strip R l) <= n)%nat.
Proof.
  revert n. induction l as [|x t IH]; intros n H; cbn [strip]; [cbn; lia|].
  destruct n as [|n].
  - assert (Ht : (length (strip R t) <= 0)%nat).
    { apply IH. intros k _ Hk. apply (H (S k)); cbn [length]; lia. }
    destruct (strip R t); [|cbn [length] in Ht; lia].
    assert (H0 : is0 R x = true) by (apply (H 0%nat); cbn [length]; lia).
    rewrite H0. cbn [length]. lia.
  - assert (Ht : (length (strip R t) <= n)%nat).
    { apply IH. intros k Hk1 Hk2. apply (H (S k)); cbn [length]; lia. }
    destruct (strip R t) eqn:E.
    + destruct (is0 R x); cbn [length]; lia.
    + cbn [length] in *. lia.
Qed.

(** ** [sub_scaled_at]: pointwise description *)
Lemma sub_scaled_length (tmp : list T) c b : length (sub_scaled R tmp c b) = length tmp.
Proof.
  revert b. induction tmp as [|t tmp IH]; intros [|y b]; cbn [sub_scaled length]; auto.
Qed.

Lemma sub_scaled_nth (tmp : list T) c b k :
  nth k (sub_scaled R tmp c b) (r0 R) =
  if ((k <? length b)%nat && (k <? length tmp)%nat)%bool
  then rsub R (nth k tmp (r0 R)) (rmul R c (nth k b (r0 R)))
  else nth k tmp (r0 R).
Proof.
  revert b k. induction tmp as [|t tmp IH]; intros [|y b] k; cbn [sub_scaled length].
  - destruct k; reflexivity.
  - destruct k; cbn [nth]; rewrite ?Bool.andb_false_r; reflexivity.
  - destruct k; reflexivity.
  - destruct k as [|k]; cbn [nth]; [reflexivity|]. rewrite IH.
    change (S k <? S (length b))%nat with (k <? length b)%nat.
    change (S k <? S (length tmp))%nat with (k <? length tmp)%nat. reflexivity.
Qed.

Lemma sub_scaled_at_length (tmp : list T) i c b : length (sub_scaled_at R tmp i c b) = length tmp.
Proof.
  revert tmp. induction i as [|i IH]; intros tmp.
  - destruct tmp; apply sub_scaled_length.
  - destruct tmp; simpl; auto.
Qed.

Lemma sub_scaled_at_nth (tmp : list T) i c b k :
  nth k (sub_scaled_at R tmp i c b) (r0 R) =
  if ((i <=? k)%nat && (k <? i + length b)%nat && (k <? length tmp)%nat)%bool
  then rsub R (nth k tmp (r0 R)) (rmul R c (nth (k - i) b (r0 R)))
  else nth k tmp (r0 R).
Proof.
  revert tmp k. induction i as [|i IH]; intros tmp k.
  - replace (sub_scaled_at R tmp 0 c b) with (sub_scaled R tmp c b) by (destruct tmp; reflexivity).
    rewrite sub_scaled_nth. cbn [Nat.leb Nat.add andb]. rewrite Nat.sub_0_r. reflexivity.
  - destruct tmp as [|t tmp].
    + change (sub_scaled_at R [] (S i) c b) with (@nil T).
      destruct k; cbn [nth length]; rewrite ?Bool.andb_false_r; reflexivity.
    + change (sub_scaled_at R (t :: tmp) (S i) c b) with (t :: sub_scaled_at R tmp i c b).
      destruct k as [|k]; cbn [nth]; [reflexivity|]. rewrite IH.
      change (S i <=? S k)%nat with (i <=? k)%nat.
      change (S k <? S i + length b)%nat with (k <? i + length b)%nat.
      change (S k <? length (t :: tmp))%nat with (k <? length tmp)%nat.
      change (S k - S i)%nat with (k - i)%nat. reflexivity.
Qed.
End StripGeneric.

Lemma last_nth {A} (l : list A) d : last l d = nth (length l - 1) l d.
Proof.
  induction l as [|x t IH]; [reflexivity|].
  destruct t as [|y t']; [reflexivity|].
  change (last (x :: y :: t') d) with (last (y :: t') d). rewrite IH.
  cbn [length]. replace (S (S (length t')) - 1)%nat with (S (length t' - 0)) by lia.
  cbn [nth]. replace (S (length t') - 1)%nat with (length t' - 0)%nat by lia. reflexivity.
Qed.

(** ** The remainder of [pseudo_div_rem] is shorter than the divisor *)

Section PseudoRem.
Variables (b : list Z) (lcb : Z) (bdeg : nat).
Hypothesis Hlen : length b = S bdeg.
Hypothesis Hlcb : nth bdeg b 0 = lcb.
Hypothesis Hnz : lcb <> 0.

Let quotf := fun t : Z => Some (Z.quot t lcb).

(** Invariant of the division loop at index [i]: everything above [i + bdeg] is already
    zero and every entry is still divisible by [lcb^(i+1)], so the next quotient is exact. *)
Definition pinv (i : nat) (tmp : list Z) : Prop :=
  (forall k, (i + bdeg < k)%nat -> nth k tmp 0 = 0) /\
  (forall k, (lcb ^ (Z.of_nat i + 1) | nth k tmp 0)).

Lemma zdiv_loop_rem i tmp quo q r :
  pinv i tmp ->
  zdiv_loop quotf i bdeg b tmp quo = Some (q, r) ->
  length r = length tmp /\ forall k, (bdeg <= k)%nat -> nth k r 0 = 0.
Proof.
  revert tmp quo. induction i as [|i IH]; intros tmp quo [Hz Hd] H; cbn [zdiv_loop] in H; unfold quotf in H.
  - injection H as _ Hr. subst r.
    split; [apply (sub_scaled_at_length opsZ)|].
    intros k Hk. change 0 with (r0 opsZ) at 2. rewrite (sub_scaled_at_nth opsZ).
    cbn [r0 opsZ rsub rmul].
    destruct ((0 <=? k)%nat && (k <? 0 + length b)%nat && (k <? length tmp)%nat)%bool eqn:C.
    + assert (k = bdeg) by (apply Bool.andb_true_iff in C as [C _]; apply Bool.andb_true_iff in C as [_ C];
                           apply Nat.ltb_lt in C; lia).
      subst k. rewrite Nat.sub_0_r, Hlcb. cbn [Nat.add].
      destruct (Hd bdeg) as [w Hw]. cbn [Z.of_nat Z.add] in Hw. rewrite Z.pow_1_r in Hw.
      rewrite Hw, Z.quot_mul by exact Hnz. lia.
    + destruct (Nat.eq_dec k bdeg) as [->|Hne].
      * (* k = bdeg but out of range of tmp: the entry is the default 0 *)
        rewrite Hlen in C. cbn [Nat.add Nat.leb andb] in C.
        assert (Hlt : (bdeg <? S bdeg)%nat = true) by (apply Nat.ltb_lt; lia). rewrite Hlt in C.
        cbn [andb] in C. apply Nat.ltb_ge in C. apply nth_overflow. lia.
      * apply Hz. lia.
  - set (c := Z.quot (nth (S i + bdeg) tmp 0) lcb) in *.
    eapply IH in H; [rewrite (sub_scaled_at_length opsZ) in H; exact H|].
    assert (Hc : nth (S i + bdeg) tmp 0 = c * lcb /\ (lcb ^ (Z.of_nat i + 1) | c)).
    { destruct (Hd (S i + bdeg)%nat) as [w Hw].
      replace (Z.of_nat (S i) + 1) with (Z.succ (Z.of_nat i + 1)) in Hw by lia.
      rewrite Z.pow_succ_r in Hw by lia.
      unfold c. rewrite Hw. replace (w * (lcb * lcb ^ (Z.of_nat i + 1))) with (w * lcb ^ (Z.of_nat i + 1) * lcb) by ring.
      rewrite Z.quot_mul by exact Hnz. split; [ring|]. exists w. ring. }
    destruct Hc as [Hc1 Hc2].
    split.
    + intros k Hk. pose proof (sub_scaled_at_nth opsZ tmp (S i) c b k) as E.
      cbn [r0 opsZ rsub rmul] in E. rewrite E. clear E.
      destruct ((S i <=? k)%nat && (k <? S i + length b)%nat && (k <? length tmp)%nat)%bool eqn:C.
      * assert (k = (S i + bdeg)%nat).
        { apply Bool.andb_true_iff in C as [C _]. apply Bool.andb_true_iff in C as [_ C].
          apply Nat.ltb_lt in C. lia. }
        subst k. replace (S i + bdeg - S i)%nat with bdeg by lia. rewrite Hlcb, Hc1. ring.
      * destruct (Nat.eq_dec k (S i + bdeg)) as [->|Hne]; [|apply Hz; lia].
        rewrite Hlen in C.
        assert (H1 : (S i <=? S i + bdeg)%nat = true) by (apply Nat.leb_le; lia).
        assert (H2 : (S i + bdeg <? S i + S bdeg)%nat = true) by (apply Nat.ltb_lt; lia).
        rewrite H1, H2 in C. cbn [andb] in C. apply Nat.ltb_ge in C. apply nth_overflow. lia.
    + intros k. pose proof (sub_scaled_at_nth opsZ tmp (S i) c b k) as E.
      cbn [r0 opsZ rsub rmul] in E. rewrite E. clear E.
      assert (Hk : (lcb ^ (Z.of_nat i + 1) | nth k tmp 0)).
      { destruct (Hd k) as [w Hw]. replace (Z.of_nat (S i) + 1) with (Z.succ (Z.of_nat i + 1)) in Hw by lia.
        rewrite Z.pow_succ_r in Hw by lia. exists (w * lcb). rewrite Hw. ring. }
      destruct ((S i <=? k)%nat && (k <? S i + length b)%nat && (k <? length tmp)%nat)%bool; [|exact Hk].
      apply Z.divide_sub_r; [exact Hk|]. apply Z.divide_mul_l. exact Hc2.
Qed.
End PseudoRem.

Lemma pseudo_rem_length (f g : list Z) :
  g <> [] -> last g 0 <> 0 -> (length (snd (pseudo_div_rem f g)) < length g)%nat.
Proof.
  intros Hg Hl. unfold pseudo_div_rem.
  destruct f as [|f0 f']; [cbn [snd length]; destruct g; [congruence|cbn [length]; lia]|].
  destruct g as [|g0 g']; [congruence|].
  set (f := f0 :: f') in *. set (g := g0 :: g') in *.
  destruct (length f <? length g)%nat eqn:Hlt; [apply Nat.ltb_lt in Hlt; exact Hlt|].
  apply Nat.ltb_ge in Hlt.
  set (bdeg := (length g - 1)%nat). set (diff := (length f - length g)%nat).
  set (lcb := last g 0) in *. set (factor := lcb ^ (Z.of_nat diff + 1)).
  set (tmp := map (fun c => c * factor) f).
  assert (Hlen : length g = S bdeg) by (unfold bdeg, g; cbn [length]; lia).
  assert (Hlcb : nth bdeg g 0 = lcb) by (unfold lcb, bdeg; symmetry; apply last_nth).
  destruct (zdiv_loop (fun t => Some (Z.quot t lcb)) diff bdeg g tmp []) as [[q r]|] eqn:E.
  - cbn [snd]. eapply (zdiv_loop_rem g lcb bdeg Hlen Hlcb Hl) in E.
    + destruct E as [Hr Hz].
      assert (length (strip opsZ r) <= bdeg)%nat; [|unfold from_raw; lia].
      apply strip_length_bound. intros k Hk _. change (r0 opsZ) with 0. rewrite (Hz k Hk). reflexivity.
    + split.
      * intros k Hk. apply nth_overflow. unfold tmp. rewrite map_length. unfold diff in Hk. lia.
      * intros k. unfold tmp.
        destruct (Nat.lt_ge_cases k (length f)) as [Hk|Hk].
        -- rewrite (nth_indep _ 0 (0 * factor)) by (rewrite map_length; exact Hk).
           rewrite (map_nth (fun c => c * factor) f 0 k). apply Z.divide_mul_r. unfold factor. reflexivity.
        -- rewrite nth_overflow by (rewrite map_length; exact Hk). apply Z.divide_0_r.
  - cbn [snd length]. lia.
Qed.

(** ** The remainder of [div_rem_q] is shorter than the divisor *)

Lemma Qc_is0_true (x : Qc) : is0 opsQc x = true <-> x = Q2Qc 0.
Proof.
  unfold is0. cbn [reqb opsQc r0]. split; intros H.
  - apply Qc_is_canon. apply Qeq_bool_iff. exact H.
  - subst x. reflexivity.
Qed.

Section QRem.
Variables (b : list Qc) (lc : Qc) (bdeg : nat).
Hypothesis Hlen : length b = S bdeg.
Hypothesis Hlc : nth bdeg b (Q2Qc 0) = lc.
Hypothesis Hnz : lc <> Q2Qc 0.

Lemma qdiv_loop_rem i tmp quo :
  (forall k, (i + bdeg < k)%nat -> nth k tmp (Q2Qc 0) = Q2Qc 0) ->
  length (snd (qdiv_loop i bdeg lc b tmp quo)) = length tmp /\
  forall k, (bdeg <= k)%nat -> nth k (snd (qdiv_loop i bdeg lc b tmp quo)) (Q2Qc 0) = Q2Qc 0.
Proof.
  revert tmp quo. induction i as [|i IH]; intros tmp quo Hz; cbn [qdiv_loop].
  - cbn [snd]. split; [apply (sub_scaled_at_length opsQc)|].
    intros k Hk. pose proof (sub_scaled_at_nth opsQc tmp 0 (Qcdiv (nth (0 + bdeg) tmp (Q2Qc 0)) lc) b k) as E.
    cbn [r0 opsQc rsub rmul] in E. rewrite E. clear E.
    destruct ((0 <=? k)%nat && (k <? 0 + length b)%nat && (k <? length tmp)%nat)%bool eqn:C.
    + assert (k = bdeg) by (apply Bool.andb_true_iff in C as [C _]; apply Bool.andb_true_iff in C as [_ C];
                           apply Nat.ltb_lt in C; lia).
      subst k. rewrite Nat.sub_0_r, Hlc. cbn [Nat.add]. field. exact Hnz.
    + destruct (Nat.eq_dec k bdeg) as [->|Hne]; [|apply Hz; lia].
      rewrite Hlen in C. cbn [Nat.add Nat.leb andb] in C.
      assert (Hlt : (bdeg <? S bdeg)%nat = true) by (apply Nat.ltb_lt; lia). rewrite Hlt in C.
      cbn [andb] in C. apply Nat.ltb_ge in C. apply nth_overflow. lia.
  - set (c := Qcdiv (nth (S i + bdeg) tmp (Q2Qc 0)) lc).
    destruct (IH (sub_scaled_at opsQc tmp (S i) c b) (c :: quo)) as [H1 H2].
    + intros k Hk. pose proof (sub_scaled_at_nth opsQc tmp (S i) c b k) as E.
      cbn [r0 opsQc rsub rmul] in E. rewrite E. clear E.
      destruct ((S i <=? k)%nat && (k <? S i + length b)%nat && (k <? length tmp)%nat)%bool eqn:C.
      * assert (k = (S i + bdeg)%nat).
        { apply Bool.andb_true_iff in C as [C _]. apply Bool.andb_true_iff in C as [_ C].
          apply Nat.ltb_lt in C. lia. }
        subst k. replace (S i + bdeg - S i)%nat with bdeg by lia. rewrite Hlc. unfold c. field. exact Hnz.
      * destruct (Nat.eq_dec k (S i + bdeg)) as [->|Hne]; [|apply Hz; lia].
        rewrite Hlen in C.
        assert (E1 : (S i <=? S i + bdeg)%nat = true) by (apply Nat.leb_le; lia).
        assert (E2 : (S i + bdeg <? S i + S bdeg)%nat = true) by (apply Nat.ltb_lt; lia).
        rewrite E1, E2 in C. cbn [andb] in C. apply Nat.ltb_ge in C. apply nth_overflow. lia.
    + rewrite (sub_scaled_at_length opsQc) in H1. split; assumption.
Qed.
End QRem.

Lemma q_rem_length (a b : list Qc) :
  b <> [] -> last b (Q2Qc 0) <> Q2Qc 0 -> (length b <= length a)%nat ->
  (length (snd (div_rem_q a b)) < length b)%nat.
Proof.
  intros Hb Hl Hle. unfold div_rem_q.
  destruct a as [|a0 a']; [destruct b; [congruence|cbn [length] in Hle; lia]|].
  destruct b as [|b0 b']; [congruence|].
  set (a := a0 :: a') in *. set (b := b0 :: b') in *.
  destruct (length a <? length b)%nat eqn:Hlt; [apply Nat.ltb_lt in Hlt; lia|].
  set (bdeg := (length b - 1)%nat). set (lc := last b (Q2Qc 0)) in *.
  assert (Hlen : length b = S bdeg) by (unfold bdeg, b; cbn [length]; lia).
  assert (Hlc : nth bdeg b (Q2Qc 0) = lc) by (unfold lc, bdeg; symmetry; apply last_nth).
  pose proof (qdiv_loop_rem b lc bdeg Hlen Hlc Hl (length a - length b) a []) as H.
  destruct (qdiv_loop (length a - length b) bdeg lc b a []) as [q r] eqn:E.
  cbn [snd] in *. destruct H as [Hr Hz].
  - intros k Hk. apply nth_overflow. lia.
  - assert (length (strip opsQc r) <= bdeg)%nat; [|unfold from_raw; lia].
    apply strip_length_bound. intros k Hk _. change (r0 opsQc) with (Q2Qc 0). rewrite (Hz k Hk). reflexivity.
Qed.
