(** * Bounded [B] facts about [factorize_mod_p] / [squarefree], closed by [vm_compute].

    The reference arithmetic in F_2[x] is independent of the model: polynomials are
    bitmasks (bit i = coefficient of x^i), remainder by shift-and-xor, carry-less product,
    irreducibility by exhaustive search over all divisors of degree 1 .. deg/2. *)
From Coq Require Import ZArith List Lia Bool.
From RNT.Model Require Import Base Poly PolyModP FactorModP.
Import ListNotations.
Open Scope Z_scope.

(** ** F_2[x] on bitmasks *)

Fixpoint brem (fuel : nat) (a b : Z) : Z :=
  match fuel with
  | O => a
  | S f => if (a =? 0) || (Z.log2 a <? Z.log2 b) then a
           else brem f (Z.lxor a (Z.shiftl b (Z.log2 a - Z.log2 b))) b
  end.

Fixpoint bmul (fuel : nat) (a b acc : Z) : Z :=
  match fuel with
  | O => acc
  | S f => if a =? 0 then acc
           else bmul f (Z.shiftr a 1) (Z.shiftl b 1) (if Z.odd a then Z.lxor acc b else acc)
  end.

Fixpoint bpow (g : Z) (e : nat) : Z :=
  match e with O => 1 | S e' => bmul 64 g (bpow g e') 0 end.

(** no divisor d with 1 <= deg d <= deg g / 2, i.e. 2 <= d < 2^(deg g / 2 + 1) *)
Definition birred (g : Z) : bool :=
  (2 <=? g) &&
  forallb (fun d => negb (brem 64 g d =? 0))
          (map Z.of_nat (seq 2 (Z.to_nat (2 ^ (Z.log2 g / 2 + 1)) - 2))).

(** coefficient list (entries 0/1) -> bitmask; [None] if an entry is not 0 or 1 *)
Fixpoint mask_of (l : list Z) : option Z :=
  match l with
  | [] => Some 0
  | c :: t => match mask_of t with
              | Some m => if (c =? 0) || (c =? 1) then Some (c + 2 * m) else None
              | None => None
              end
  end.

Fixpoint bits (len : nat) (n : Z) : list Z :=
  match len with O => [] | S l => (n mod 2) :: bits l (n / 2) end.

Fixpoint nodupb (l : list Z) : bool :=
  match l with [] => true | x :: t => negb (existsb (Z.eqb x) t) && nodupb t end.

(** The clauses of C08 for p = 2, decided: every factor has 0/1 coefficients, is monic of
    degree >= 1 (mask >= 2; the top bit of a mask is always 1), irreducible, multiplicities
    >= 1, factors pairwise distinct, and the product is f mod 2. *)
Definition check2 (f : list Z) (res : list (list Z * Z)) : bool :=
  match mask_of (map (fun c => c mod 2) f) with
  | None => false
  | Some mf =>
    let masks := map (fun ge => (mask_of (fst ge), snd ge)) res in
    forallb (fun me => match fst me with
                       | Some m => birred m && (1 <=? snd me)
                       | None => false
                       end) masks
    && nodupb (map (fun me => match fst me with Some m => m | None => 0 end) masks)
    && forallb (fun ge => match last (fst ge) 0 with 1 => true | _ => false end) res
    && (fold_right (fun me acc => match fst me with
                                   | Some m => bmul 64 (bpow m (Z.to_nat (snd me))) acc 0
                                   | None => 0
                                   end) 1 masks =? mf)
  end.

Definition fact2_ok (n : nat) : bool :=
  let f := bits 9 (Z.of_nat n) in
  match factorize_mod_p Checked f 2 2 (rng_of []) with
  | Done (res, _) => check2 f res
  | _ => false
  end.

Lemma fact2_all : forallb fact2_ok (seq 1 511) = true.
Proof. vm_compute. reflexivity. Qed.

(** [B] every non-zero f over F_2 of degree <= 8 (bitmask n, 1 <= n <= 511): the model returns,
    without panic and without using a single random byte, a list that passes [check2]. *)
Lemma factorize_mod_2_small (n : nat) :
  (1 <= n <= 511)%nat ->
  exists res r, factorize_mod_p Checked (bits 9 (Z.of_nat n)) 2 2 (rng_of []) = Done (res, r) /\
                check2 (bits 9 (Z.of_nat n)) res = true.
Proof.
  intros Hn. pose proof fact2_all as H. rewrite forallb_forall in H.
  specialize (H n ltac:(apply in_seq; lia)). unfold fact2_ok in H.
  destruct (factorize_mod_p Checked (bits 9 (Z.of_nat n)) 2 2 (rng_of [])) as [[res r]| |]; try discriminate.
  exists res, r. split; [reflexivity|exact H].
Qed.

(** ** pusize is irrelevant when p > deg f *)

(** all coefficient vectors of length [len] with entries in [0, p): index n in base p *)
Fixpoint digits (len : nat) (p n : Z) : list Z :=
  match len with O => [] | S l => (n mod p) :: digits l p (n / p) end.

Definition same_outcome (a b : outcome (list (list Z * Z))) : bool :=
  match a, b with
  | Done x, Done y =>
    (fix eqb (x y : list (list Z * Z)) : bool :=
       match x, y with
       | [], [] => true
       | (g, e) :: x', (h, k) :: y' => zlist_eqb g h && (e =? k) && eqb x' y'
       | _, _ => false
       end) x y
  | _, _ => false
  end.

Definition pusizes_tried : list Z := [0; 1; 2; 7; 18446744073709551615].

Definition sqf_ok (p : Z) (len : nat) (n : nat) : bool :=
  let f := digits len p (Z.of_nat n) in
  forallb (fun pu => same_outcome (squarefree Checked f p pu) (squarefree Checked f p p)) pusizes_tried.

Lemma sqf5_all : forallb (sqf_ok 5 5) (seq 1 3124) = true.
Proof. vm_compute. reflexivity. Qed.

Lemma sqf7_all : forallb (sqf_ok 7 4) (seq 1 2400) = true.
Proof. vm_compute. reflexivity. Qed.

Definition pbig : Z := 18446744073709551629.
Definition pusizes_big : list Z := [0; 1; 7].
Lemma sqfbig_all : forallb (fun n => let f := digits 3 3 (Z.of_nat n) in
                                     forallb (fun pu => same_outcome (squarefree Checked f pbig pu) (squarefree Checked f pbig 0))
                                             pusizes_big) (seq 1 26) = true.
Proof. vm_compute. reflexivity. Qed.

(** [B] for every non-zero f over F_5 of degree <= 4 (resp. F_7, degree <= 3), so p > deg f,
    and every pusize tried (including 0): [squarefree] returns, and returns what pusize = p gives. *)
Lemma pusize_irrelevant_small p len (n : nat) pu :
  (p = 5 /\ len = 5%nat /\ (1 <= n <= 3124)%nat) \/ (p = 7 /\ len = 4%nat /\ (1 <= n <= 2400)%nat) ->
  In pu pusizes_tried ->
  exists res, squarefree Checked (digits len p (Z.of_nat n)) p pu = Done res /\
              same_outcome (squarefree Checked (digits len p (Z.of_nat n)) p pu)
                           (squarefree Checked (digits len p (Z.of_nat n)) p p) = true.
Proof.
  intros H Hpu.
  assert (K : sqf_ok p len n = true).
  { destruct H as [[-> [-> Hn]]|[-> [-> Hn]]].
    - pose proof sqf5_all as A. rewrite forallb_forall in A. apply A. apply in_seq; lia.
    - pose proof sqf7_all as A. rewrite forallb_forall in A. apply A. apply in_seq; lia. }
  unfold sqf_ok in K. rewrite forallb_forall in K. specialize (K pu Hpu).
  destruct (squarefree Checked (digits len p (Z.of_nat n)) p pu) as [res| |] eqn:E; try discriminate.
  exists res. split; [reflexivity|exact K].
Qed.

(** [B] the same beyond a machine word: p = nextprime(2^64), f with coefficients in {0,1,2},
    degree <= 2, pusize in {0, 1, 7}. *)
Lemma pusize_irrelevant_big (n : nat) pu :
  (1 <= n <= 26)%nat -> In pu pusizes_big ->
  exists res, squarefree Checked (digits 3 3 (Z.of_nat n)) pbig pu = Done res /\
              same_outcome (squarefree Checked (digits 3 3 (Z.of_nat n)) pbig pu)
                           (squarefree Checked (digits 3 3 (Z.of_nat n)) pbig 0) = true.
Proof.
  intros Hn Hpu. pose proof sqfbig_all as A. rewrite forallb_forall in A.
  specialize (A n ltac:(apply in_seq; lia)). cbv zeta in A. rewrite forallb_forall in A. specialize (A pu Hpu).
  destruct (squarefree Checked (digits 3 3 (Z.of_nat n)) pbig pu) as [res| |] eqn:E; try discriminate.
  exists res. split; [reflexivity|exact A].
Qed.
