(** First facts about the quotient-ring model (stdlib style). *)
From RNT.Model Require Import Base Poly Algebraic.
From Coq Require Import QArith Qcanon.
Open Scope Z_scope.

(** [P] the zero element absorbs: [mul_with_mod] returns before looking at the modulus. *)
Lemma alg_mul_zero_l f b : alg_mul f [] b = Done [].
Proof. reflexivity. Qed.

Lemma alg_mul_zero_r f a : alg_mul f a [] = Done [].
Proof. destruct a; reflexivity. Qed.
