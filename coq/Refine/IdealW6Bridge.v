(** * IdealW6Bridge (C16, sixth wave): from the maximality theorem of C06 to the table-level hypotheses of C16.
      For an order O of f in the sense of C06 ([is_order]: stored basis, contains 1, [get_mult_table] returns T) that has
      no proper over-order in the sense of [find_integral_basis_maximal_all] (every over-order has its rows in the
      lattice of O): T is n x n x n, commutative, associative, e_0 is its unit, and [no_over_order T] holds: a lattice
      (1/p) h containing Z^n and closed under the product of T gives the over-order (1/p) h O of C06
      (Round2W3Lift.lift_table_list: [get_mult_table] returns on it), whose rows are then integer combinations of the
      rows of O, i.e. p divides h.  Style: ssreflect/MathComp. *)
From Coq Require Import ZArith List.
From mathcomp Require Import all_ssreflect ssralg zmodp matrix mxalgebra poly.
From mathcomp Require Import ssrZ zify.
From Coq Require Import QArith Qcanon.
From RNT.Model Require Import Base Poly Algebraic LinAlg MultTable Order Ideal.
From RNT.Refine Require Import QcField LinAlgQc MatZ IdealMul IdealSpec IdealLaws MultTableOps AlgNormMx AlgNormFlags DetBridge.
From RNT.Refine Require Import IdealW6Core IdealW6Trace IdealW6Dual IdealW6Prod IdealW6Full IdealW6Nak IdealW6Over.
From RNT.Refine Require PolyZ Round2Lattice Round2Det Round2W3Det Round2W3Lift Round2W3Up Round2W3Table Round2W3Driver Round2W4PZ.
From RNT.Refine Require DecompW3Order DecompW5Pipeline.
Set Implicit Arguments.
Unset Strict Implicit.
Unset Printing Implicit Defensive.
Import GRing.Theory.
Local Close Scope Z_scope.
Local Close Scope Q_scope.
Local Close Scope Qc_scope.
Local Open Scope ring_scope.

(** the C06 notion: every over-order of O lies in the lattice of O *)
Definition maximal_order (f : list Z) (deg : nat) (O : qmat) : Prop :=
  forall o2, Round2W4PZ.over_order f deg O o2 ->
  forall t, (t < deg)%coq_nat -> Round2Lattice.in_spanQ deg (List.nth t o2 [::]) O.

Lemma Poly_first_row m : @Poly QcRing.Qc_ringType (Q2Qc 1 :: List.repeat (Q2Qc 0) m) = 1.
Proof.
apply/polyP => j; rewrite coef_Poly coef1; case: j => [|j] //=.
by rewrite -Lnth_nth List.nth_repeat.
Qed.

Section Bridge.
Variables (f : list Z) (n : nat) (O : qmat) (T : table).
Hypothesis cf : PolyZ.canonZ f = true.
Hypothesis Lf : length f = n.+1.
Hypothesis n1 : (1 <= n)%coq_nat.
Hypothesis IO : Round2W3Driver.is_order f n O.
Hypothesis GT : get_mult_table O f = Done T.

Let LO : Round2Det.lower_from n 0 O. Proof. by case: IO. Qed.
Let lO : length O = n. Proof. by case: (Round2Det.lower_from_shape n O LO). Qed.
Let wO : List.Forall (fun r => length r = n) O. Proof. by case: (Round2Det.lower_from_shape n O LO). Qed.

Lemma order_table_flags :
  [/\ cube n T, length T = n, tshape T, table_comm T = true /\ table_assoc T = true
    & forall y, length y = n -> bil T y (unit_vec n 0) = y].
Proof.
have [ct hc ha] := Round2W3Table.order_table_laws cf Lf lO wO GT.
have lT : length T = n by case/andP: ct => /eqP.
split=> //; [exact: (cube_tshape ct)|split; [exact: (tcomm_flag ct hc)|exact: (tassoc_flag ct ha)]|].
move=> y ly.
have n0 : (0 < n)%nat by apply/ltP.
have rb : forall i, (i < n)%nat -> size (seq.nth [::] O i) = n.
  by move=> i /ltP hi; rewrite -Lnth_nth; move/List.Forall_forall: wO; apply; apply: List.nth_In; rewrite lO.
have w0 : @Poly QcRing.Qc_ringType (seq.nth [::] O 0) = 1.
  by rewrite -Lnth_nth (DecompW5Pipeline.order_first_row cf Lf n1 IO) Poly_first_row.
rewrite (bil_tmul ct ly (size_unit_vec n 0)).
exact: (DecompW3Order.tmul_unit cf Lf lO rb w0 GT n0 ly).
Qed.

Hypothesis Hmax : maximal_order f n O.

Theorem maximal_no_over_order : no_over_order T.
Proof.
have [ct lT hts [fc fa] hu] := order_table_flags.
rewrite /no_over_order lT => h p p0 sh Hcont Hring w Hw.
have [lh wh] := sh.
have n0 : (0 < n)%nat by apply/ltP.
(* the new basis (1/p) h O *)
pose nb : qmat := [seq [seq Qcdiv (Round2Lattice.combQ (List.nth t h [::]) O j) (qz p) | j <- List.seq 0 n] | t <- List.seq 0 n].
have lnb : length nb = n by rewrite /nb List.map_length List.seq_length.
have enb t j : (t < n)%coq_nat -> (j < n)%coq_nat ->
    List.nth j (List.nth t nb [::]) q0 = Qcdiv (Round2Lattice.combQ (List.nth t h [::]) O j) (qz p).
  move=> ht hj; rewrite /nb.
  set g := fun t0 : nat => _.
  rewrite (List.nth_indep _ [::] (g 0%nat)) ?List.map_length ?List.seq_length //.
  rewrite (List.map_nth g) List.seq_nth // /g.
  set g2 := fun j0 : nat => _.
  rewrite (List.nth_indep _ q0 (g2 0%nat)) ?List.map_length ?List.seq_length //.
  by rewrite (List.map_nth g2) List.seq_nth.
have wnb : List.Forall (fun r => length r = n) nb.
  apply/List.Forall_forall => r /List.in_map_iff [t [<- _]].
  by rewrite List.map_length List.seq_length.
(* as matrices over Q *)
set H := zmx n n h.
set Oq := qmx n n O.
have enbm : qmx n n nb = (q_of_Z p)^-1 *: (map_mx q_of_Z H *m Oq).
  apply/matrixP => t j; rewrite !mxE.
  have /ltP ht := ltn_ord t; have /ltP hj := ltn_ord j.
  rewrite (enb t j ht hj) Round2W3Det.combQ_sum lO -[Qcdiv _ _]/(_ / q_of_Z p) mulrC; congr (_ * _).
  by apply: eq_bigr => i _; rewrite !mxE.
have dO : \det Oq != 0 := Round2W3Det.lower_det_neq0 LO.
have p0q : q_of_Z p != 0 by rewrite q_of_Z_eq0; apply/eqP.
(* h contains p Z^n: X H = p *)
have hX (i : 'I_n) : exists x : 'rV[Z]_n, p *: delta_mx 0 i = x *m H.
  have := Hcont (unit_vec n i) (unit_vec_length n i) => /(rowspan_mx _ wh lh) [_ [x ex]].
  by exists x; rewrite -ex zrv_vscale zrv_unit_vec.
have [xf hxf] := fin_choice_ord hX.
pose X : 'M[Z]_n := \matrix_(i, j) xf i 0 j.
have eX : X *m H = p%:M.
  apply/row_matrixP => i; rewrite row_mul.
  have -> : matrix.row i X = xf i by apply/rowP => j; rewrite !mxE.
  by rewrite -hxf; apply/rowP => j; rewrite !mxE eqxx /= mulr_natr eq_sym.
have [_ dH] := scalar_det_neq0 p0 eX.
have dnb : \det (qmx n n nb) != 0.
  rewrite enbm detZ det_mulmx det_map_mx !mulf_neq0 ?expf_neq0 ?invr_eq0 //.
  by rewrite q_of_Z_eq0; apply/eqP.
(* get_mult_table returns on nb *)
have solv (v : list Qc) : size v = n -> exists x, solve_linear_system fopsQc nb v = Done (Ok x).
  move=> sv; apply: solve_complete; rewrite ?lnb //.
  by rewrite /square lnb.
have closed a b : In_rowspanZ n a h -> In_rowspanZ n b h ->
    In_rowspanZ n (tmul T n a b) (Round2W3Up.pI p h).
  move=> ha hb; have [z [hz ez]] := Hring a b ha hb.
  have la : length a = n by apply: (span_length n a h).
  have lb : length b = n by apply: (span_length n b h).
  by apply/(Round2W3Up.pI_iff n p h _ wh); exists z; split=> //; rewrite -(bil_tmul ct la lb).
have refl1 i : (i < n)%coq_nat -> Round2Lattice.in_spanQ n (List.nth i nb [::]) nb.
  by move=> hi; apply: Round2Lattice.in_spanQ_refl.
have [T' GT'] := @Round2W3Lift.lift_table_list f n O T p h nb nb cf Lf lO wO GT p0 sh closed lnb wnb enb lnb wnb
   refl1 refl1 solv.
(* nb is an over-order *)
have OO : Round2W4PZ.over_order f n O nb.
  split=> //; split=> //; split; first by exists T'.
  move=> t ht; have /ltP ht' := ht.
  pose c : list Z := [seq xf (Ordinal ht') 0 i | i <- enum 'I_n].
  have lc : length c = n by rewrite -[length c]/(size c) size_map size_enum_ord.
  exists c; split; first by rewrite lc lnb.
  move=> j hj; have /ltP hj' := hj.
  rewrite Round2W3Det.combQ_sum lnb.
  have -> : \sum_(i < n) q_of_Z (List.nth i c 0%Z) * (List.nth j (List.nth i nb [::]) (Q2Qc 0) : Qc)
          = (map_mx q_of_Z (xf (Ordinal ht')) *m qmx n n nb) 0 (Ordinal hj').
    rewrite mxE; apply: eq_bigr => i _; rewrite !mxE; congr (q_of_Z _ * _).
    by rewrite Lnth_nth (nth_map i) ?size_enum_ord // nth_ord_enum.
  rewrite enbm -scalemxAr mulmxA -map_mxM -(hxf (Ordinal ht')) mxE.
  have -> : map_mx q_of_Z (p *: delta_mx 0 (Ordinal ht')) = q_of_Z p *: (delta_mx 0 (Ordinal ht') : 'rV[Qc_fieldType]_n).
    apply/rowP => k; rewrite !mxE eqxx /=.
    by case: (k == _); rewrite ?mulr1n ?mulr0n ?mulr1 ?mulr0 ?(rmorph0 q_of_Z_rmorphism).
  by rewrite -scalemxAl mxE mulrA mulVf // mul1r -rowE !mxE.
(* maximality: the rows of nb are integer combinations of the rows of O, so p divides h *)
have rows t : (t < n)%coq_nat -> dvd_vec p (List.nth t h [::]).
  move=> ht; have /ltP ht' := ht.
  have [c [lc ec]] := Hmax OO ht.
  rewrite lO in lc.
  have e1 : matrix.row (Ordinal ht') (qmx n n nb) = map_mx q_of_Z (zrv n c) *m Oq.
    apply/rowP => j; have /ltP hj := ltn_ord j.
    rewrite mxE [LHS]mxE (ec j hj) Round2W3Det.combQ_sum lO mxE.
    by apply: eq_bigr => i _; rewrite !mxE.
  have e2 : map_mx q_of_Z (matrix.row (Ordinal ht') H) = q_of_Z p *: map_mx q_of_Z (zrv n c).
    have uO : Oq \in unitmx by rewrite unitmxE unitfE.
    apply: (can_inj (mulmxK uO)).
    rewrite -scalemxAl -e1 enbm linearZ /= scalerA mulfV // scale1r row_mul.
    by congr (_ *m _); apply/rowP => j; rewrite !mxE.
  move=> j; case: (ltnP j n) => hj; last first.
    rewrite List.nth_overflow; first by exists 0%Z.
    have -> : length (List.nth t h [::]) = n.
      by move/List.Forall_forall: wh; apply; apply: List.nth_In; rewrite lh.
    exact/leP.
  exists (List.nth j c 0%Z).
  have := congr1 (fun r : 'rV[Qc_fieldType]_n => r 0 (Ordinal hj)) e2.
  rewrite !mxE -(rmorphM q_of_Z_rmorphism) => /q_of_Z_inj ->.
  by rewrite mulrC.
apply: (@span_dvd_vec n p h w wh _ Hw) => r /(List.In_nth _ _ [::]) [t [ht <-]].
by apply: rows; rewrite -lh.
Qed.
End Bridge.

(** ** [P] inv_spec_maximal_order: ideals of a maximal order (C06) are invertible and [Ideal::inv] computes the inverse *)
From RNT.Refine Require Import HnfSpec IdealW6Total IdealW6NoOver.

Theorem inv_spec_maximal_order m (f : list Z) (n : nat) (O : qmat) (T : table) (I : ideal) (D : frac_ideal) :
  PolyZ.canonZ f = true -> length f = n.+1 -> (1 <= n)%coq_nat ->
  Round2W3Driver.is_order f n O -> get_mult_table O f = Done T -> maximal_order f n O ->
  i_table I = T -> wf n (i_hnf I) -> is_hnf (i_hnf I) = true -> length (i_hnf I) = n ->
  get_inv_diff T = Done D ->
  exists a N,
    [/\ ideal_inv m I D = Done (a, N),
        [/\ i_table N = T, wf n (i_hnf N) & is_hnf (i_hnf N) = true],
        cap_z I = Done a /\ (0 < a)%Z,
        (forall v, In_rowspanZ n v (prod_rows T (i_hnf I) (i_hnf N)) <->
                   exists c, length c = n /\ v = bil T (scalar_vec n a) c)
      & inv_flag m I (a, N) = Done true].
Proof.
move=> cf Lf n1 IO GT Hmax.
have [ct lT hts [fc fa] hu] := order_table_flags cf Lf n1 IO GT.
have Hno := maximal_no_over_order cf Lf n1 IO GT Hmax.
case: I => HI tI /= -> WI II LI ED.
have hn : (1 <= length T)%coq_nat by rewrite lT.
have hu' : forall y, length y = length T -> bil T y (unit_vec (length T) 0) = y by rewrite lT.
have WI' : wf (length T) HI by rewrite lT.
have LI' : length HI = length T by rewrite lT.
have [a [N EN]] := @inv_total m (mkIdeal HI T) D hts fc fa hn hu' WI' II LI' ED.
have := @inv_spec_no_over_order m (mkIdeal HI T) D a N hts fc fa hn hu' Hno WI' II LI' ED EN.
rewrite /= lT => -[TN WN IN CZ [Sp Fl]].
by exists a, N; split.
Qed.

(** ** the order returned by the driver of C06 is a [maximal_order] *)
From RNT.Model Require Round2.
From RNT.Refine Require Round2W5Driver.

Theorem driver_maximal_order m (f : list Z) (deg : nat) :
  PolyZ.canonZ f = true -> length f = deg.+1 -> (1 <= deg)%coq_nat -> (2 * Z.of_nat deg < two64)%Z ->
  (forall o0 d0, non_monic_initial_order f = Done o0 -> Round2.order_disc m o0 f = Done d0 ->
     d0 <> 0%Z /\ (Z.log2 (Z.abs d0) < two64)%Z) ->
  exists O, [/\ Round2.find_integral_basis m f = Done O, Round2W3Driver.is_order f deg O & maximal_order f deg O].
Proof.
move=> cf Lf h1 h2 hd.
have [O [E [IO M]]] := Round2W5Driver.find_integral_basis_maximal_all m f deg cf Lf h1 h2 hd.
by exists O; split=> // o2 /M [].
Qed.
