(** Polynomial subresultants as determinants over [{poly R}] and the effect of one (pseudo-)division
    step on them (the "fundamental theorem of polynomial remainder sequences", one-step form).
    ssreflect/MathComp style; everything over a commutative ring, no division.

    [SR j m n p q] is the determinant of the (m+n) x (m+n) matrix over {poly R} whose rows are
    indexed by the polynomials  p, X p, ..., X^(m-1) p, q, X q, ..., X^(n-1) q,  whose column 0 holds the
    row polynomial itself and whose column c >= 1 holds its coefficient of X^(j+c). With
    m = deg q - j, n = deg p - j this is the j-th polynomial subresultant of p and q (subtracting
    X^(j+c) times column c from column 0 truncates the entries of column 0 to degree <= j). *)
From mathcomp Require Import all_ssreflect fingroup perm ssralg poly matrix.
From mathcomp Require Import zify.
Set Implicit Arguments.
Unset Strict Implicit.
Unset Printing Implicit Defensive.
Import GRing.Theory.
Local Open Scope ring_scope.

Section DetPol.
Variable R : comRingType.
Implicit Types (p q r : {poly R}) (rho : nat -> {poly R}).

Definition colf (j c : nat) (r : {poly R}) : {poly R} := if c == 0%N then r else (r`_(j + c))%:P.

Lemma colf_is_linear j c : linear (colf j c).
Proof.
move=> a u v; rewrite /colf; case: eqP => // _.
by rewrite coefD coefZ polyCD polyCM mul_polyC.
Qed.
Canonical colf_additive j c := Additive (colf_is_linear j c).
Canonical colf_linear j c := Linear (colf_is_linear j c).

Definition DM (j N : nat) rho : 'M[{poly R}]_N := \matrix_(i < N, c < N) colf j c (rho i).

(** rows that are R-linear combinations of other rows *)
Lemma det_DM_lin j N (U : 'M[R]_N) rho rho' :
    (forall i : 'I_N, rho' i = \sum_(l < N) U i l *: rho l) ->
  \det (DM j N rho') = (\det U)%:P * \det (DM j N rho).
Proof.
move=> h; rewrite -det_map_mx -det_mulmx; congr (\det _).
apply/matrixP=> i c; rewrite !mxE h linear_sum; apply: eq_bigr => l _.
by rewrite !mxE linearZ /= mul_polyC.
Qed.

Lemma eq_DM j N rho rho' : (forall i, (i < N)%N -> rho i = rho' i) -> DM j N rho = DM j N rho'.
Proof. by move=> h; apply/matrixP=> i c; rewrite !mxE h. Qed.

(** the two-block row family *)
Definition srows (m : nat) p q (i : nat) : {poly R} :=
  if (i < m)%N then p * 'X^i else q * 'X^(i - m).

Definition SR (j m n : nat) p q : {poly R} := \det (DM j (m + n) (srows m p q)).

(** removing the last row and the last column *)
Lemma det_DM_red j m N p q :
    (m <= N)%N -> (0 < N)%N -> (size p + m <= (j + N).+1)%N -> (size q <= (j + m).+1)%N ->
  \det (DM j N.+1 (srows m p q)) = (q`_(j + m))%:P * \det (DM j N (srows m p q)).
Proof.
move=> le_mN N_gt0 sp sq.
rewrite (expand_det_col _ ord_max) (bigD1 ord_max) //= big1 ?addr0 => [|i ne_iN].
  rewrite /cofactor -signr_odd addnn odd_double expr0 mul1r; congr (_ * _).
    rewrite mxE /colf /= /srows (gtn_eqF N_gt0) ltnNge le_mN /= coefMXn.
    have ->: (j + N < N - m)%N = false by apply/negbTE; rewrite -leqNgt; lia.
    by congr (nth _ _ _)%:P; lia.
  congr (\det _); apply/matrixP=> k c; rewrite !mxE /= /bump.
  have ->: (N <= k)%N = false by apply/negbTE; rewrite -ltnNge.
  have ->: (N <= c)%N = false by apply/negbTE; rewrite -ltnNge.
  by rewrite !add0n.
have lt_iN : (i < N)%N by have := ltn_ord i; have : (i != N :> nat) by []; lia.
rewrite mxE /colf /= (gtn_eqF N_gt0) /srows; case: ifP => lt_im; rewrite coefMXn.
  have ->: (j + N < i)%N = false by apply/negbTE; rewrite -leqNgt; lia.
  by rewrite nth_default ?polyC0 ?mul0r //; move: sp lt_im; clear; move: (size p) => sz; lia.
have ->: (j + N < i - m)%N = false by apply/negbTE; rewrite -leqNgt; lia.
by rewrite nth_default ?polyC0 ?mul0r //; move: sq lt_im lt_iN le_mN; clear; move: (size q) => sz; lia.
Qed.

Lemma SR_red k j m n p q :
    (0 < m + n)%N -> (size p <= (j + n).+1)%N -> (size q <= (j + m).+1)%N ->
  SR j m (n + k) p q = (q`_(j + m) ^+ k)%:P * SR j m n p q.
Proof.
move=> mn_gt0 sp sq; rewrite /SR.
elim: k => [|k IHk]; first by rewrite addn0 expr0 mul1r.
rewrite !addnS det_DM_red ?IHk ?exprS ?polyCM ?mulrA //; try lia.
Qed.


(** *** instances of [det_DM_lin] *)

Lemma poly_sum_coef n (t : {poly R}) : (size t <= n)%N -> t = \sum_(l < n) t`_l *: 'X^l.
Proof.
move=> h; rewrite -poly_def; apply/polyP=> i; rewrite coef_poly; case: ltnP => // le_ni.
by rewrite nth_default // (leq_trans h).
Qed.

Lemma sum_diag N (d : 'I_N -> R) rho (i : 'I_N) :
  \sum_(l < N) (if i == l then d i else 0) *: rho l = d i *: rho i.
Proof.
rewrite (bigD1 i) //= eqxx big1 ?addr0 // => l ne_li.
by rewrite eq_sym (negPf ne_li) scale0r.
Qed.

Lemma prod_block m n (a b : R) :
  \prod_(i < m + n) (if (i < m)%N then a else b) = a ^+ m * b ^+ n.
Proof.
rewrite big_split_ord /=; congr (_ * _).
  by rewrite (eq_bigr (fun=> a)) ?prodr_const ?card_ord // => i _; rewrite ltn_ord.
rewrite (eq_bigr (fun=> b)) ?prodr_const ?card_ord // => i _.
by rewrite ltnNge leq_addr.
Qed.

(** scaling one block *)
Lemma SR_scale j m n (a b : R) p q :
  SR j m n (a *: p) (b *: q) = (a ^+ m * b ^+ n)%:P * SR j m n p q.
Proof.
pose d (i : 'I_(m + n)) := if (i < m)%N then a else b.
pose U : 'M[R]_(m + n) := \matrix_(i, l) (if i == l then d i else 0).
have detU : \det U = a ^+ m * b ^+ n.
  rewrite det_trig; last first.
    by apply/is_trig_mxP=> i l lt_il; rewrite mxE; case: eqP lt_il => // ->; rewrite ltnn.
  by rewrite -prod_block; apply: eq_bigr => i _; rewrite mxE eqxx.
rewrite -detU /SR; apply: det_DM_lin => i.
rewrite (eq_bigr (fun l : 'I_(m + n) => (if i == l then d i else 0) *: srows m p q l)); last first.
  by move=> l _; rewrite mxE.
by rewrite sum_diag /d /srows; case: ifP => _; rewrite scalerAl.
Qed.

Lemma SR_scaler j m n (b : R) p q : SR j m n p (b *: q) = (b ^+ n)%:P * SR j m n p q.
Proof. by rewrite -{1}[p]scale1r SR_scale expr1n mul1r. Qed.

(** the first block reduced modulo the second: a p = t q + r *)
Lemma SR_redl j m n (a : R) p q t r :
    a *: p = t * q + r -> (size t + m <= n.+1)%N ->
  (a ^+ m)%:P * SR j m n p q = SR j m n r q.
Proof.
move=> def_p sz_t.
pose d (i : 'I_(m + n)) := if (i < m)%N then a else 1.
pose W (i l : 'I_(m + n)) : R := if (i < m)%N && (m <= l)%N then - (t * 'X^i)`_(l - m) else 0.
pose U : 'M[R]_(m + n) := \matrix_(i, l) ((if i == l then d i else 0) + W i l).
have detU : \det U = a ^+ m.
  rewrite -det_tr det_trig; last first.
    apply/is_trig_mxP=> i l lt_il; rewrite !mxE /W; case: eqP lt_il => [->|_ lt_il]; first by rewrite ltnn.
    by rewrite add0r; case: ifP => // /andP[h1 h2]; move: lt_il h1 h2; clear; lia.
  rewrite -[RHS]mulr1 -[X in _ = _ * X](expr1n _ n) -prod_block; apply: eq_bigr => i _; rewrite !mxE eqxx /W.
  by case: ifP => [/andP[h1 h2]|_]; rewrite ?addr0 //; move: h1 h2; clear; lia.
rewrite -detU /SR; symmetry; apply: det_DM_lin => i.
rewrite (eq_bigr (fun l : 'I_(m + n) =>
   (if i == l then d i else 0) *: srows m p q l + W i l *: srows m p q l)); last first.
  by move=> l _; rewrite mxE scalerDl.
rewrite big_split /= sum_diag big_split_ord /= [X in _ + (X + _)]big1 ?add0r; last first.
  by move=> l _; rewrite /W /= [(m <= l)%N]leqNgt ltn_ord andbF scale0r.
rewrite /d /srows; case: ifP => lt_im; last first.
  by rewrite big1 ?addr0 ?scale1r // => l _; rewrite /W lt_im scale0r.
rewrite (eq_bigr (fun l : 'I_n => - ((t * 'X^i)`_l *: 'X^l * q))); last first.
  move=> l _; rewrite /W lt_im leq_addr /= addKn ltnNge leq_addr /=.
  by rewrite scaleNr -scalerAl [q * _]mulrC.
rewrite sumrN -mulr_suml -poly_sum_coef; last first.
  apply: leq_trans (size_mul_leq _ _) _; rewrite size_polyXn.
  by move: sz_t lt_im; clear; move: (size t) => s; lia.
by rewrite scalerAl def_p mulrDl [t * q * _]mulrAC addrC addKr.
Qed.

(** exchanging the two blocks (the sign is not tracked) *)
Lemma SR_swap j m n p q : exists k : nat, SR j m n p q = (-1) ^+ k * SR j n m q p.
Proof.
have bnd (i : 'I_(m + n)) : ((if i < m then i + n else i - m) < m + n)%N.
  by case: ifP => h; have := ltn_ord i; move: h; clear; lia.
pose sg (i : 'I_(m + n)) := Ordinal (bnd i).
have sg_inj : injective sg.
  move=> i1 i2 /(congr1 val) /=; have := ltn_ord i1; have := ltn_ord i2 => h2 h1 h.
  by apply: val_inj => /=; move: h h1 h2; do 2![case: ifP]; clear; lia.
pose s := perm sg_inj; exists (s : bool).
rewrite /SR [in RHS](addnC n m).
have -> : (-1) ^+ (s : bool) = ((\det (perm_mx s))%:P : {poly R}).
  by rewrite det_perm rmorphX rmorphN1.
apply: det_DM_lin => i.
rewrite (eq_bigr (fun l : 'I_(m + n) => (if s i == l then 1 else 0) *: srows n q p l)); last first.
  by move=> l _; rewrite !mxE; case: eqP.
rewrite (sum_diag (fun=> 1)) scale1r permE /srows /=; case: ifP => lt_im.
  by rewrite ltnNge leq_addl /= addnK.
by have := ltn_ord i; rewrite -[(i - m < n)%N](ltn_add2r m) => h; rewrite subnK ?[(n + m)%N]addnC ?h //; lia.
Qed.

(** only rows of q: a triangular matrix *)
Lemma SR_tri j n p q : (size q <= j.+1)%N -> SR j 0 n.+1 p q = (q`_j ^+ n)%:P * q.
Proof.
move=> sq.
have -> : SR j 0 n.+1 p q = SR j 0 n.+1 0 q by rewrite /SR; congr (\det _); apply: eq_DM.
rewrite -add1n (@SR_red n j 0 1) ?size_poly0 ?addn0 //; congr (_ * _).
by rewrite /SR det_mx11 mxE /colf /= /srows /= subn0 expr0 mulr1.
Qed.

(** One division step: a A = T B + C with m + n' + k columns, where the k top coefficients of the
    rows of C vanish. *)
Lemma SR_step j m n' k (a : R) (A B T C : {poly R}) :
    a *: A = T * B + C -> (size T + m <= (n' + k).+1)%N -> (0 < m + n')%N ->
    (size C <= (j + n').+1)%N -> (size B <= (j + m).+1)%N ->
  exists e : nat,
    (a ^+ m)%:P * SR j m (n' + k) A B = (-1) ^+ e * (B`_(j + m) ^+ k)%:P * SR j n' m B C.
Proof.
move=> defA szT mn szC szB; have [e He] := SR_swap j m n' C B; exists e.
by rewrite (SR_redl j defA szT) SR_red // He mulrCA mulrA.
Qed.

End DetPol.
