(** * IdealCapZ: for a lattice of full rank in normal form, [cap_z] (the top-left entry) is the
      positive generator of { z : z e_0 in the lattice } (stdlib + lia). *)
From Coq Require Import ZArith List Lia Bool Znumtheory.
From RNT.Model Require Import Base MultTable Ideal.
From RNT.Model Require Hnf.
From RNT.Refine Require Import MatZ HnfOps HnfSteps HnfSpec HnfLoop HnfUnique HnfTerm HnfDet IdealMul IdealSpec IdealInv.
Import ListNotations.
Open Scope Z_scope.

Lemma nth_ze0 z d i : nth i (z :: repeat 0 d) 0 = if (i =? 0)%nat then z else 0.
Proof. destruct i as [|i]; cbn [nth Nat.eqb]; auto. apply nth_repeat. Qed.

Theorem square_hnf_cap n (H : mat) :
  hnf_rows n 0 H -> length H = n -> (1 <= n)%nat ->
  0 < ent H 0 0 /\
  forall z, In_rowspanZ n (z :: repeat 0 (n - 1)) H <-> (ent H 0 0 | z).
Proof.
  intros HH HL Hn. pose proof (hnf_rows_wf n 0 H HH) as HW.
  assert (Hsq : forall t, (t < n)%nat -> 0 < ent H t t /\ forall c, (t < c)%nat -> ent H t c = 0).
  { intros t Ht. destruct (square_pivots n 0 H HH ltac:(lia) t ltac:(lia)) as [S1 S2]. simpl in *. auto. }
  destruct (Hsq 0%nat ltac:(lia)) as [Hpos Hz0]. split; auto.
  intros z. split.
  - intros [c [Hc Hv]].
    pose proof (echelon n 0 H HH c Hc) as E.
    destruct (last_nz c) as [t|] eqn:Et.
    + destruct E as (p & Hp & _ & Hent & Hpp & Hzz).
      assert (Ht : (t < n)%nat) by (rewrite <- HL, <- Hc; apply last_nz_lt; auto).
      destruct (Hsq t Ht) as [Hpt Hzt].
      assert (Hpe : last_nz (row H t) = Some t).
      { apply last_nz_intro; [change (ent H t t <> 0); lia|]. intros col Hcol. apply (Hzt col Hcol). }
      rewrite Hpe in Hp. inversion Hp; subst p; clear Hp.
      rewrite <- Hv in Hent. rewrite nth_ze0 in Hent.
      destruct (last_nz_Some c t Et) as (_ & Hnz & Hafter).
      destruct t as [|t].
      * cbn [Nat.eqb] in Hent. exists (nth 0 c 0). exact Hent.
      * cbn [Nat.eqb] in Hent. change (nth (S t) (row H (S t)) 0) with (ent H (S t) (S t)) in Hent. nia.
    + rewrite E in Hv. assert (Hz : z = 0).
      { apply (f_equal (fun l => nth 0 l 0)) in Hv. rewrite nth_vzero in Hv. exact Hv. }
      subst z. apply Z.divide_0_r.
  - intros [k ->].
    assert (Hrow : k * ent H 0 0 :: repeat 0 (n - 1) = vscale k (row H 0)).
    { apply vec_ext with n.
      - simpl. rewrite repeat_length. lia.
      - rewrite vscale_length. apply (wf_row n H); auto. lia.
      - intros i Hi. rewrite nth_ze0, nth_vscale. destruct i as [|i]; cbn [Nat.eqb]; [reflexivity|].
        change (nth (S i) (row H 0) 0) with (ent H 0 (S i)). rewrite Hz0 by lia. lia. }
    rewrite Hrow. destruct (row_in_span n H 0 HW ltac:(lia)) as [c [Hc Hr]].
    exists (vscale k c). split; [rewrite vscale_length; auto|]. rewrite lincomb_scale; auto. rewrite <- Hr. reflexivity.
Qed.

Theorem cap_z_spec I n :
  wf n (i_hnf I) -> is_hnf (i_hnf I) = true -> length (i_hnf I) = n -> (1 <= n)%nat ->
  exists d, cap_z I = Done d /\ 0 < d /\
            forall z, In_rowspanZ n (z :: repeat 0 (n - 1)) (i_hnf I) <-> (d | z).
Proof.
  intros HW HI HL Hn. pose proof (is_hnf_hnf_rows n (i_hnf I) HW HI) as HH.
  destruct (square_hnf_cap n (i_hnf I) HH HL Hn) as [Hpos Hz].
  exists (ent (i_hnf I) 0 0). split; [|split; auto].
  unfold cap_z. apply (get_ok (i_hnf I) 0 0 n n); [split; auto|lia|lia].
Qed.
