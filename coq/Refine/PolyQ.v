(** * PolyQ: instantiation of the polynomial refinement at Qc (BigRational) and the
    rational division [div_rem_bigrational] (C09). *)
From RNT.Model Require Import Base Poly.
From Coq Require Import QArith Qcanon.
From mathcomp Require Import all_ssreflect ssralg poly.
From mathcomp Require Import zify.
From RNT.Refine Require Import QcRing PolyRefine PolyDiv.
Set Implicit Arguments.
Unset Strict Implicit.
Unset Printing Implicit Defensive.
Import GRing.Theory.
Local Open Scope ring_scope.

Lemma opsQc_eq : opsQc = ops_of Qc_ofZ.
Proof. by []. Qed.

Definition canonQ (s : seq Qc) : bool := canon s.

Ltac qs := change (GRing.Ring.sort Qc_ringType) with Qc in *.

Lemma qdiv_loop_eq i bdeg lc b tmp quo :
  gdiv_loop opsQc (fun t => Some (Qcdiv t lc)) i bdeg b tmp quo
  = Some (qdiv_loop i bdeg lc b tmp quo).
Proof. by elim: i tmp quo => [|i IH] tmp quo /=. Qed.

Lemma div_rem_q_early a b :
  a = [::] \/ b = [::] \/ (size a < size b)%N -> div_rem_q a b = ([::], a).
Proof.
rewrite /div_rem_q; case: a => [|x a]; first by [].
case: b => [|y b]; first by [].
case=> // -[] // h; rewrite !Llength_eq.
by have -> : (size (x :: a) <? size (y :: b))%N = true by apply/Nat.ltb_lt/ltP.
Qed.

Theorem div_rem_q_main a b q r : canonQ a -> canonQ b -> b != [::] ->
  div_rem_q a b = (q, r) ->
  [/\ canonQ q, canonQ r, Poly a = Poly q * Poly b + Poly r & (size r < size b)%N].
Proof.
move=> ca cb b0.
case: (leqP (size b) (size a)) => hab; last first.
  rewrite div_rem_q_early; last by right; right.
  by case=> <- <-; split=> //; rewrite /= mul0r add0r.
have a0 : a != [::].
  by rewrite -size_eq0 -lt0n (leq_trans _ hab) // lt0n size_eq0.
rewrite /div_rem_q; case ea: a a0 => [|x a'] // _; case eb: b b0 => [|y b'] // _.
rewrite -ea -eb !Llength_eq.
have -> : (size a <? size b)%N = false by apply/Nat.ltb_ge/leP.
have lc0 : last 0 b != 0 by move: cb; rewrite /canonQ canon_last // eb.
have e1 : (size b - 1)%coq_nat = (size b).-1 by lia.
rewrite e1 Llast_eq; set L := qdiv_loop _ _ _ _ _ _.
have run : gdiv_loop (ops_of Qc_ofZ) (fun t => Some (t / last 0 b))
              (size a - size b) (size b).-1 b a [::] = Some L.
  by rewrite /L -qdiv_loop_eq.
case: L run => q' r' run [<- <-].
have bn : b != [::] by rewrite eb.
have Iex : forall i tmp c, True -> (fun t => Some (t / last 0 b)) tmp`_(i + (size b).-1) = Some c ->
    c * last 0 b = tmp`_(i + (size b).-1).
  by move=> i tmp c _ [<-]; rewrite divfK.
have h1 : (size a - size b + size b <= size a)%N by qs; move: hab; clear; lia.
have h2 : (size (Poly a) <= size a - size b + size b)%N.
  by rewrite (leq_trans (size_Poly _)) //; qs; move: hab; clear; lia.
have [qs eqq [szq eqA szr _]] :=
  @gdiv_loop_sound _ Qc_ofZ b cb bn _ (fun _ _ => True) (fun _ _ _ _ _ => I) Iex
     (size a - size b)%N a [::] q' r' I h1 h2 run.
rewrite /from_raw; split; try exact: strip_canon.
  by rewrite !Poly_strip eqq cats0 -eqA.
by rewrite strip_Poly.
Qed.
