(** * PolyZFactorW3Top: C07, third wave: what every completed run of [factorize_full] guarantees,
    without conditions on the run (MathComp).

    - every returned polynomial (the last one included) is primitive with positive leading coefficient;
    - every returned polynomial is non-constant and its exponent is at least 1;
    - the returned polynomials are pairwise coprime over Q, hence pairwise distinct;
    - the ghost cofactor is primitive with positive leading coefficient, and
      [gcd(pp, pp') = cof * prod f_i^(e_i - 1)]; in particular the cofactor is 1 (the product clause
      holds) whenever the input is square-free, and whenever the returned polynomials are irreducible. *)
From RNT.Model Require Import Base Poly PolyModP FactorModP Hensel PolyZFactor.
From RNT.Model Require Resultant.
From mathcomp Require Import all_ssreflect ssralg ssrnum poly polydiv separable.
From mathcomp Require Import ssrZ zify.
From RNT.Refine Require Import PolyRefine PolyDiv PolyZ ResInt SubresGaussZ SubresGauss SubresGcdDiv SubresSpec.
From RNT.Refine Require Import PolyZFactorBasic PolyZFactorMult PolyZFactorMain PolyZFactorTop PolyZFactorPos.
From RNT.Refine Require Import PolyZFactorW3Sqf PolyZFactorW3Run.
Set Implicit Arguments.
Unset Strict Implicit.
Unset Printing Implicit Defensive.
Import GRing.Theory.
Import Pdiv.Idomain.
Local Open Scope ring_scope.

(** pairwise coprime over Q *)
Definition coprime_seq (fs : seq (seq Z)) : bool :=
  pairwise (fun f g => coprimep (Poly f) (Poly g)) fs.

Definition lprod (fs : seq (seq Z)) : {poly Z} := \prod_(f <- fs) Poly f.

Lemma dvdp_lprod (fs : seq (seq Z)) f : f \in fs -> Poly f %| lprod fs.
Proof.
rewrite /lprod; elim: fs => [|g fs IH] //; rewrite inE big_cons => /orP [/eqP ->|/IH h].
  exact: dvdp_mulIl.
exact: dvdp_mull.
Qed.

Lemma separable_coprime_seq (fs : seq (seq Z)) : separable_poly (lprod fs) -> coprime_seq fs.
Proof.
rewrite /lprod /coprime_seq; elim: fs => [|f fs IH] //.
rewrite big_cons separable_mul => /and3P [_ /IH h cop]; rewrite /= h andbT.
by apply/allP => g hg; apply: coprimep_dvdl cop; exact: dvdp_lprod.
Qed.

Lemma lprod_neq0 (fs : seq (seq Z)) : (forall f, f \in fs -> prim_pos f) -> lprod fs != 0.
Proof.
move=> h; rewrite /lprod prodf_seq_neq0; apply/allP => f hf /=.
exact/prim_pos_Poly_neq0/h.
Qed.

(** the list returned by [get_factors_of_squarefree] on a primitive polynomial *)
Lemma get_factors_lprod md (q : seq Z) r fs r' : prim_pos q ->
  get_factors_of_squarefree md q r = Done (fs, r') ->
  Poly q = lprod fs /\ forall f, f \in fs -> prim_pos f.
Proof.
move=> pq egf; have [cq lq primq] := pq; split; last exact: (get_factors_all_prim_pos cq lq primq egf).
have [pps [lastf [-> _ -> _]]] := get_factors_spec cq egf.
by rewrite /lprod big_cat big_seq1 mulrC.
Qed.

(** ** the multiplicity loops on pairwise coprime primitive divisors: every exponent is at least 1,
    every divisor is non-constant *)
Lemma extract_all_pos fs (a : seq Z) res cof l : canonZ a -> a != [::] ->
  (forall f, f \in fs -> prim_pos f) -> coprime_seq fs ->
  (forall f, f \in fs -> Poly f %| Poly a) ->
  extract_all fs a res = Done (cof, l) ->
  exists l', [/\ l = res ++ l', map fst l' = fs
               & forall fe, fe \in l' -> (1 <= fe.2)%Z /\ (1 < size fe.1)%N].
Proof.
elim: fs a res => [|f fs IH] a res ca a0 hp hc hd /=.
  by case=> _ <-; exists [::]; rewrite cats0.
case em: mult_loop => [[a1 e]|t|] //=.
have pf : prim_pos f by apply: hp; rewrite inE eqxx.
have [cf lf _] := pf.
have f0 := prim_pos_neq0 pf.
have [ca1 le ea dn] := mult_loop_spec ca cf em.
have nd := div_exact_none ca1 cf f0 dn.
have Pa0 : Poly a != 0 by rewrite canon_Poly_eq0.
have a10 : a1 != [::].
  by rewrite -(canon_Poly_eq0 ca1); apply: contraNneq Pa0 => h; rewrite ea h mul0r.
(* e >= 1: f divides a in Z[x] *)
have e1 : (1 <= e)%Z.
  case: (Z.leb_spec 1 e) => // lt1.
  have e0 : Z.to_nat (e - 0) = 0%N by lia.
  move: ea; rewrite e0 expr0 mulr1 => ea.
  have [Q eQ] := dvdZ_of_dvdp pf (hd f (mem_head _ _)).
  by case: (nd Q); rewrite -ea.
(* f is not constant: 1 divides everything *)
have sf : (1 < size f)%N.
  rewrite ltnNge; apply/negP => /(prim_pos_const pf) ef.
  by case: (nd (Poly a1)); rewrite ef Poly1 mulr1.
move: (hc); rewrite /coprime_seq /= => /andP [/allP hcf hc'].
move/(IH _ _ ca1 a10) => [|||l'' [el emap hl]] //.
- by move=> g hg; apply: hp; rewrite inE hg orbT.
- move=> g hg; have := hd g; rewrite inE hg orbT ea => /(_ isT).
  by rewrite Gauss_dvdpl // coprimep_expr // coprimep_sym; exact: hcf.
exists ((f, e) :: l''); split=> //=.
- by rewrite el -catA.
- by rewrite emap.
- by move=> fe; rewrite inE => /orP [/eqP ->|/hl].
Qed.

(** ** a constant or zero input *)
Lemma factorize_full_small md (a : seq Z) r c l cof r' : canonZ a -> (size a <= 1)%N ->
  factorize_full md a r = Done (c, l, cof, r') -> l = [::] /\ cof = [:: 1%Z].
Proof.
case: a => [|x [|y s]] // ca _.
  by rewrite factorize_full_zero => -[_ <- <- _].
have x0 : x <> 0%Z by apply/eqP; move: ca; rewrite /canonZ /canon /=.
by rewrite (@factorize_full_const md x r x0) => -[_ <- <- _].
Qed.

(** ** [P] all returned polynomials: primitive, positive leading coefficient, non-constant,
    exponent at least 1, pairwise coprime over Q, pairwise distinct *)
Theorem factorize_full_factors md (a : seq Z) r c l cof r' : canonZ a ->
  factorize_full md a r = Done (c, l, cof, r') ->
  [/\ forall fe, fe \in l -> [/\ prim_pos fe.1, (1 < size fe.1)%N & (1 <= fe.2)%Z],
      coprime_seq (map fst l) & uniq (map fst l)].
Proof.
move=> ca ef; case: (leqP (size a) 1) => sa.
  by have [-> _] := factorize_full_small ca sa ef.
have [g [q [fs [[_ ppp spp] [eg [pg hg ed e pq]] egf ee]]]] := factorize_full_run ca sa ef.
set pp := (cont_pp a).2 in ppp spp eg hg ed e ee.
have [eq hpf] := get_factors_lprod pq egf.
have [sepq _] := sqfree_part_sep ppp hg e.
have hc : coprime_seq fs by apply: separable_coprime_seq; rewrite -eq.
have [cpp _ _] := ppp.
have hd f : f \in fs -> Poly f %| Poly pp.
  by move=> hf; rewrite e eq dvdp_mulr // dvdp_lprod.
have [l' [-> emap hl]] := extract_all_pos cpp (prim_pos_neq0 ppp) hpf hc hd ee.
rewrite cat0s emap.
have hall fe : fe \in l' -> [/\ prim_pos fe.1, (1 < size fe.1)%N & (1 <= fe.2)%Z].
  move=> hfe; have [? ?] := hl _ hfe; split=> //.
  by apply: hpf; rewrite -emap; apply/mapP; exists fe.
split=> //.
(* pairwise coprime and non-constant: pairwise distinct *)
have hs f : f \in fs -> (1 < size f)%N.
  by rewrite -emap => /mapP [fe hfe ->]; have [] := hall _ hfe.
move: hc hs hpf; rewrite /coprime_seq; elim: (fs) => [|f t IH] //= /andP [/allP hf ht] hs hpf.
rewrite IH // ?andbT; last 2 first.
- by move=> f' hf'; apply: hs; rewrite inE hf' orbT.
- by move=> f' hf'; apply: hpf; rewrite inE hf' orbT.
apply/negP => /hf; rewrite coprimepp.
have [cf _ _] : prim_pos f by apply: hpf; rewrite inE eqxx.
by rewrite canon_size_Poly //; have := hs f (mem_head _ _); case: (size f) => [|[|n]].
Qed.

(** ** the cofactor *)

Definition fprod_pred (l : seq (seq Z * Z)) : {poly Z} :=
  \prod_(fe <- l) Poly fe.1 ^+ (Z.to_nat fe.2).-1.

Lemma fprod_split_pred (l : seq (seq Z * Z)) : (forall fe, fe \in l -> (1 <= fe.2)%Z) ->
  fprod l = lprod (map fst l) * fprod_pred l.
Proof.
rewrite /fprod /lprod /fprod_pred; elim: l => [|fe l IH] h; first by rewrite !big_nil mulr1.
rewrite /= !big_cons IH; last by move=> fe' hfe'; apply: h; rewrite inE hfe' orbT.
have h1 := h fe (mem_head _ _).
have en : Z.to_nat fe.2 = (Z.to_nat fe.2).-1.+1 by move: (fe.2) h1 => z h1; lia.
by rewrite /fpow {1}en exprS /= -!mulrA; congr (_ * _); rewrite mulrCA.
Qed.

Lemma lead_coef_fprod_pos (l : seq (seq Z * Z)) : (forall fe, fe \in l -> prim_pos fe.1) ->
  (0 < lead_coef (fprod l))%Z.
Proof.
rewrite /fprod; elim: l => [|fe l IH] h; first by rewrite big_nil lead_coef1.
rewrite big_cons lead_coefM /fpow lead_coef_exp.
have [cf lf _] : prim_pos fe.1 by apply: h; rewrite inE eqxx.
have hl : (0 < lead_coef (\prod_(j <- l) fpow j))%Z.
  by apply: IH => fe' hfe'; apply: h; rewrite inE hfe' orbT.
rewrite (lead_coef_canon cf); apply: Z.mul_pos_pos => //.
rewrite -Zpow_exp; apply: Z.pow_pos_nonneg => //; lia.
Qed.

(** [P] the final cofactor is primitive with positive leading coefficient, divides [gcd(pp, pp')]
    with quotient [prod f_i^(e_i - 1)], and every divisor of it coprime to all [f_i] is constant *)
Theorem factorize_full_cofactor md (a : seq Z) r c l cof r' : canonZ a -> (1 < size a)%N ->
  factorize_full md a r = Done (c, l, cof, r') ->
  let pp := (cont_pp a).2 in
  [/\ prim_pos cof, Poly a = c *: (Poly cof * fprod l),
      exists g, [/\ (Resultant.resultant_gcd pp (pdiff opsZ pp)).2 = Done g,
                    Poly g %= gcdp (Poly pp) (Poly pp)^`() & Poly g = Poly cof * fprod_pred l]
    & forall u : {poly Z}, u %| Poly cof -> coprimep u (lprod (map fst l)) -> size u = 1%N].
Proof.
move=> ca sa ef pp.
have [ec ccof epp _ _] := factorize_full_spec ca ef.
have [hl hc hu] := factorize_full_factors ca ef.
have [g [q [fs [[_ ppp spp] [eg [pg hg ed e pq]] egf ee]]]] := factorize_full_run ca sa ef.
rewrite -/pp in ppp spp eg hg ed e ee epp.
have [cpp lpp primpp] := ppp.
have [eq hpf] := get_factors_lprod pq egf.
have a0 : a != [::] by case: (a) sa.
have ea : Poly a = c *: Poly pp.
  by have [<- _ _ _ _] := cont_pp_main ca a0 (surjective_pairing (cont_pp a)); rewrite ec.
have hpl fe : fe \in l -> prim_pos fe.1 by move/hl => [].
have emap : map fst l = fs.
  have cfs f : f \in fs -> canonZ f by move/hpf => [].
  by have [l' [-> -> _ _ _]] := extract_all_spec cpp cfs ee.
have pcof : prim_pos cof.
  split=> //.
  - have := lead_coef_fprod_pos hpl.
    move: lpp; rewrite -(lead_coef_canon cpp) epp lead_coefM (lead_coef_canon ccof).
    rewrite /GRing.mul /GRing.zero /=.
    by move: (last _ cof) (lead_coef _) => u v; nia.
  - exact: (primitive_factor epp primpp).
split=> //.
- by rewrite ea epp.
- exists g; split=> //.
  have q0 : Poly q != 0 by exact: prim_pos_Poly_neq0.
  apply: (mulfI q0); rewrite -e epp fprod_split_pred; last by move=> fe /hl [].
  by rewrite emap -eq mulrCA.
- move=> u ucof cop.
  have [_ h] := sqfree_part_sep ppp hg e; apply: h.
    by apply: dvdp_trans ucof _; rewrite epp dvdp_mulIl.
  by rewrite eq -emap.
Qed.

(** [P] the product clause for square-free inputs: if the input has no repeated factor
    ([coprimep a a']) then the cofactor is 1, every exponent is 1 and [a = c * prod f_i] *)
Theorem factorize_full_squarefree md (a : seq Z) r c l cof r' : canonZ a ->
  separable_poly (Poly a) ->
  factorize_full md a r = Done (c, l, cof, r') ->
  [/\ cof = [:: 1%Z], forall fe, fe \in l -> fe.2 = 1%Z & Poly a = c *: fprod l].
Proof.
move=> ca sepa ef; case: (leqP (size a) 1) => sa.
  have [el ecof] := factorize_full_small ca sa ef; split=> //; first by rewrite el.
  by rewrite ecof in ef; have [] := factorize_product ca ef.
have [pcof ea [g [eg hg egc]] _] := factorize_full_cofactor ca sa ef.
have [hl _ _] := factorize_full_factors ca ef.
have [g' [q [fs [[ec ppp spp] [eg' [pg _ _ _ _]] _ _]]]] := factorize_full_run ca sa ef.
move: eg'; rewrite eg => -[eg']; rewrite -{g'}eg' in pg.
set pp := (cont_pp a).2 in ppp spp eg hg.
have a0 : a != [::] by case: (a) sa.
have eapp : Poly a %= Poly pp.
  have [<- _ _ _ _] := cont_pp_main ca a0 (surjective_pairing (cont_pp a)).
  apply: eqp_scale; apply/eqP => c0.
  by move: ea; rewrite ec c0 scale0r => /eqP; rewrite canon_Poly_eq0 // (negPf a0).
have seppp : separable_poly (Poly pp) by rewrite -(eqp_separable eapp).
have sg : (size g <= 1)%N.
  have [cg _ _] := pg; rewrite -(canon_size_Poly cg) (eqp_size hg).
  by move: seppp; rewrite /separable_poly /coprimep => /eqP ->.
have eg1 := prim_pos_const pg sg.
have s1 : size (Poly cof * fprod_pred l) == 1%N by rewrite -egc eg1 Poly1 size_poly1.
move: s1; rewrite size_mul_eq1 => /andP [/eqP scof _].
have [ccof _ _] := pcof.
have ecof : cof = [:: 1%Z] by apply: prim_pos_const => //; rewrite -(canon_size_Poly ccof) scof.
split=> //; last by rewrite ea ecof Poly1 mul1r.
move=> fe hfe; have [pf sf e1] := hl _ hfe.
case: (Z.leb_spec fe.2 1) => [|lt1]; first by lia.
have [cf _ _] := pf.
have hin : (fe.1, fe.2) \in l by rewrite -surjective_pairing.
have [_ [Q eQ]] := factor_power_divides ca ef hin.
have k2 : (1 < Z.to_nat fe.2)%N by move: (fe.2) lt1 => z; lia.
have sf1 : size (Poly fe.1) != 1%N.
  by rewrite canon_size_Poly //; case: (size fe.1) sf => [|[|n]].
have := separable_nosquare seppp k2 sf1.
by rewrite -/pp in eQ; rewrite eQ dvdp_mulIr.
Qed.

(** [C] the product clause follows from irreducibility: if every returned polynomial is irreducible
    over Q then the cofactor is 1 and [a = c * prod f_i^e_i] *)
Theorem factorize_full_irreducible_product md (a : seq Z) r c l cof r' : canonZ a ->
  factorize_full md a r = Done (c, l, cof, r') ->
  (forall fe, fe \in l -> irreducible_poly (Poly fe.1)) ->
  cof = [:: 1%Z] /\ Poly a = c *: fprod l.
Proof.
move=> ca ef hirr; case: (leqP (size a) 1) => sa.
  have [el ecof] := factorize_full_small ca sa ef; split=> //.
  by rewrite ecof in ef; have [] := factorize_product ca ef.
have [pcof ea _ hu] := factorize_full_cofactor ca sa ef.
have [hl _ _] := factorize_full_factors ca ef.
have [_ ccof _ [_ hmax] _] := factorize_full_spec ca ef.
suff ecof : cof = [:: 1%Z] by split=> //; rewrite ea ecof Poly1 mul1r.
apply: prim_pos_const => //; rewrite -(canon_size_Poly ccof).
have -> // : size (Poly cof) = 1%N.
apply: hu (dvdpp _) _.
(* cof is coprime to every f_i: otherwise the irreducible f_i divides cof, against maximality *)
rewrite /lprod big_map.
elim: l hmax hirr hl {ef ea} => [|fe l IH] /= hmax hirr hl; first by rewrite big_nil coprimep1.
case: hmax => hm1 hmax.
rewrite big_cons coprimepMr IH ?andbT //; last 2 first.
- by move=> fe' hfe'; apply: hirr; rewrite inE hfe' orbT.
- by move=> fe' hfe'; apply: hl; rewrite inE hfe' orbT.
have [pf sf e1] := hl fe (mem_head _ _).
have irr := hirr fe (mem_head _ _).
rewrite /coprimep; apply/negPn/negP => ncop.
have /(irr _ ncop) : gcdp (Poly cof) (Poly fe.1) %| Poly fe.1 by exact: dvdp_gcdr.
rewrite /eqp dvdp_gcdr /= dvdp_gcd dvdpp andbT => fcof.
have [Q eQ] := dvdZ_of_dvdp pf fcof.
by case: (hm1 (prim_pos_neq0 pf) (Q * fprod l)); rewrite eQ mulrAC.
Qed.
