(** * LinAlgIim: the three phases of subspace::iim (column elimination, triangular solve, check of the
    extra columns) described entry by entry. Style: stdlib + lia. *)
From RNT.Model Require Import Base Poly LinAlg.
From RNT.Refine Require Import LinAlgList LinAlgStep.
From Coq Require Import Lia List Arith.
Import ListNotations.

Section Field.
Context {T : Type} (F : field_ops T).
Notation R := (fr F).
Notation zero := (r0 (fr F)).
Notation ent := (ent F).

Lemma nth_repeat_zero (m k : nat) : nth k (repeat zero m) zero = zero.
Proof. revert k; induction m; intros [|k]; cbn; auto. Qed.

Lemma iim_row_inv j m c row row' :
  iim_row F j m c row = Done row' ->
  length row' = length row /\
  forall k, nth k row' zero =
    if ((j <? k) && (k <? m))%nat then rsub R (nth k row zero) (rmul R (nth k c zero) (nth j row zero))
    else nth k row zero.
Proof.
  unfold iim_row. intros H. apply zip_range_inv in H as (_ & L & N). split; auto.
  intros k. rewrite N.
  destruct (Nat.leb_spec (S j) k), (Nat.ltb_spec j k); try lia; cbn [andb]; auto.
  destruct (Nat.ltb_spec k (S j + (m - S j))), (Nat.ltb_spec k m); auto; lia.
Qed.

(** the multipliers [c] of step [j] *)
Definition iim_c (j m i : nat) (mmat : list (list T)) (k : nat) : T :=
  if ((j <? k) && (k <? m))%nat then rmul R (finv F (ent mmat j i)) (ent mmat j (swp i j k)) else zero.

Lemma swp_same i k : swp i i k = k.
Proof. unfold swp. destruct (Nat.eqb_spec k i); auto. Qed.

Lemma iim_elim_step cnt j n m mmat bmat res :
  iim_elim F (S cnt) j n m mmat bmat = Done res -> length mmat = n -> (j < n)%nat ->
  (res = None /\ forall k, (j <= k < m)%nat -> is0 R (ent mmat j k) = true)
  \/ exists i mm' bm',
       (j <= i < m)%nat /\ is0 R (ent mmat j i) = false /\
       (forall k, (j <= k < i)%nat -> is0 R (ent mmat j k) = true) /\
       length mm' = n /\ length bm' = length bmat /\
       iim_elim F cnt (S j) n m mm' bm' = Done res /\
       (forall l k, (l < n)%nat ->
          ent mm' l k = if ((j <? l) && (j <? k) && (k <? m))%nat
                        then rsub R (ent mmat l (swp i j k)) (rmul R (iim_c j m i mmat k) (ent mmat l i))
                        else ent mmat l (swp i j k)) /\
       (forall l k, (l < length bmat)%nat ->
          ent bm' l k = if ((j <? k) && (k <? m))%nat
                        then rsub R (ent bmat l (swp i j k)) (rmul R (iim_c j m i mmat k) (ent bmat l i))
                        else ent bmat l (swp i j k)).
Proof.
  intros H La Hj. cbn [iim_elim] in H.
  bind_inv H as mj Emj. bind_inv H as o Eo.
  apply nth_chk_inv in Emj as [_ Emj].
  apply find_in_row_inv in Eo. destruct o as [i|].
  2:{ injection H as <-. left. split; auto. intros k Hk. destruct Eo as [_ Zs].
      specialize (Zs (k - j)%nat). rewrite nth_skipn in Zs.
      replace (j + (k - j))%nat with k in Zs by lia. unfold LinAlgStep.ent. rewrite (Emj []). apply Zs. lia. }
  destruct Eo as (B & _ & NZ & Zs). rewrite nth_skipn in NZ.
  replace (j + (i - j))%nat with i in NZ by lia.
  right.
  bind_inv H as mb Esw. destruct mb as [mm1 bm1].
  assert (Sw : length mm1 = length mmat /\ length bm1 = length bmat /\
               (forall l k, (l < length mmat)%nat -> ent mm1 l k = ent mmat l (swp i j k)) /\
               (forall l k, (l < length bmat)%nat -> ent bm1 l k = ent bmat l (swp i j k))).
  { destruct (Nat.ltb_spec j i).
    - bind_inv Esw as mm2 E1. bind_inv Esw as bm2 E2. injection Esw as <- <-.
      destruct (swap_rows_ent F _ _ _ _ E1) as [L1 N1]. destruct (swap_rows_ent F _ _ _ _ E2) as [L2 N2]. auto.
    - injection Esw as <- <-. assert (i = j) by lia. subst i.
      repeat split; auto; intros; now rewrite swp_same. }
  clear Esw. destruct Sw as (Lm1 & Lb1 & Nm1 & Nb1).
  bind_inv H as mj1 Emj1. bind_inv H as p Ep. bind_inv H as d Ed. bind_inv H as c Ec.
  bind_inv H as rest Erest. bind_inv H as bm' Ebm.
  apply nth_chk_inv in Emj1 as [_ Emj1]. apply nth_chk_inv in Ep as [_ Ep]. apply inv_chk_inv in Ed as [_ ->].
  assert (Swj : swp i j j = i).
  { unfold swp. destruct (Nat.eqb_spec j i); auto. now rewrite Nat.eqb_refl. }
  assert (Pv : p = ent mmat j i).
  { rewrite <- (Ep zero), <- (Emj1 []). fold (ent mm1 j j). rewrite Nm1 by lia. now rewrite Swj. }
  assert (Cv : forall k, nth k c zero = iim_c j m i mmat k).
  { intros k. apply zip_range_inv in Ec as (_ & _ & N). rewrite N. unfold iim_c.
    rewrite nth_repeat_zero, <- (Emj1 []). fold (ent mm1 j k). rewrite Nm1 by lia. rewrite Pv.
    destruct (Nat.leb_spec (S j) k), (Nat.ltb_spec j k); try lia; cbn [andb]; auto.
    destruct (Nat.ltb_spec k (S j + (m - S j))), (Nat.ltb_spec k m); auto; lia. }
  apply ent_mapM in Erest as [Lrest Nrest]. rewrite skipn_length in Lrest, Nrest.
  apply ent_mapM in Ebm as [Lbm Nbm].
  exists i, (firstn (S j) mm1 ++ rest), bm'.
  repeat split; try lia; auto.
  - unfold LinAlgStep.ent. now rewrite (Emj []).
  - intros k Hk. specialize (Zs (k - j)%nat). rewrite nth_skipn in Zs.
    replace (j + (k - j))%nat with k in Zs by lia. unfold LinAlgStep.ent. rewrite (Emj []). apply Zs. lia.
  - rewrite app_length, firstn_length. lia.
  - intros l k Hl. unfold LinAlgStep.ent at 1. rewrite nth_firstn_app by lia.
    destruct (Nat.ltb_spec l (S j)), (Nat.ltb_spec j l); try lia; cbn [andb].
    + fold (ent mm1 l k). apply Nm1. lia.
    + specialize (Nrest (l - S j)%nat ltac:(lia)). rewrite nth_skipn in Nrest.
      replace (S j + (l - S j))%nat with l in Nrest by lia.
      apply iim_row_inv in Nrest as [_ Nrest]. rewrite Nrest, Cv.
      fold (ent mm1 l k) (ent mm1 l j). rewrite !Nm1 by lia. now rewrite Swj.
  - intros l k Hl. specialize (Nbm l ltac:(lia)).
    apply iim_row_inv in Nbm as [_ Nbm]. unfold LinAlgStep.ent at 1. rewrite Nbm, Cv.
    fold (ent bm1 l k) (ent bm1 l j). rewrite !Nb1 by lia. now rewrite Swj.
Qed.


(** ** step 6: triangular solve *)
Lemma iim_dot_ext cnt : forall j i mm xk xk' tmp,
  (forall q, (j <= q)%nat -> nth_error xk q = nth_error xk' q) ->
  iim_dot F cnt j i mm xk tmp = iim_dot F cnt j i mm xk' tmp.
Proof.
  induction cnt as [|c IH]; intros j i mm xk xk' tmp H; cbn [iim_dot]; auto.
  destruct (nth_chk mm j) as [mj| |]; cbn [bind]; auto.
  destruct (nth_chk mj i) as [mji| |]; cbn [bind]; auto.
  unfold nth_chk. rewrite (H j (le_n j)).
  destruct (nth_error xk' j); cbn [bind]; auto. apply IH. intros q Hq. apply H. lia.
Qed.

(** entry [x[k][i]] solves its equation: [x[k][i] = (b[k][i] - sum_{j > i} m[j][i] * x[k][j]) / m[i][i]] *)
Definition iim_solved (n : nat) (mm bm X : list (list T)) (k i : nat) : Prop :=
  exists t, iim_dot F (n - S i) (S i) i mm (nth k X []) (ent bm k i) = Done t /\
            is0 R (ent mm i i) = false /\ ent X k i = fdiv F t (ent mm i i).

Lemma iim_solve_col_inv i n mm : forall bm x x1,
  iim_solve_col F i n mm bm x = Done x1 ->
  length x = length bm /\ length x1 = length x /\
  forall k, (k < length bm)%nat ->
    exists t, iim_dot F (n - S i) (S i) i mm (nth k x []) (ent bm k i) = Done t /\
              is0 R (ent mm i i) = false /\
              nth k x1 [] = upd (nth k x []) i (fdiv F t (ent mm i i)).
Proof.
  induction bm as [|bk bs IH]; intros [|xk xs] x1 H; cbn [iim_solve_col] in H; try discriminate.
  - injection H as <-. repeat split; auto. cbn. intros; lia.
  - bind_inv H as t0 Et0. bind_inv H as t Et. bind_inv H as mi Emi. bind_inv H as mii Emii.
    bind_inv H as q Eq. bind_inv H as xs' Exs. injection H as <-.
    apply IH in Exs as (L1 & L2 & N). cbn [length]. repeat split; try lia.
    apply nth_chk_inv in Et0 as [_ Et0]. apply nth_chk_inv in Emi as [_ Emi].
    apply nth_chk_inv in Emii as [_ Emii]. apply div_chk_inv in Eq as [NZ ->].
    assert (Mii : mii = ent mm i i) by (unfold LinAlgStep.ent; now rewrite (Emi []), (Emii zero)).
    intros [|k] Hk; cbn [nth].
    + exists t. unfold LinAlgStep.ent at 1. cbn [nth]. rewrite (Et0 zero), <- Mii. auto.
    + apply N. cbn in Hk. lia.
Qed.

Lemma nth_error_upd_neq (l : list T) i k x : k <> i -> nth_error (upd l i x) k = nth_error l k.
Proof. revert i k; induction l as [|y t IH]; intros [|i] [|k] H; cbn; auto; try lia. Qed.

Lemma iim_solve_inv n mm bm : forall cnt x X,
  iim_solve F cnt n mm bm x = Done X -> (cnt <= n)%nat ->
  (forall k, (k < length bm)%nat -> length (nth k x []) = n) ->
  length x = length bm ->
  length X = length x /\
  (forall k, (k < length bm)%nat -> length (nth k X []) = n) /\
  (forall k i, (k < length bm)%nat -> (cnt <= i)%nat -> nth_error (nth k X []) i = nth_error (nth k x []) i) /\
  (forall k i, (k < length bm)%nat -> (i < cnt)%nat -> iim_solved n mm bm X k i).
Proof.
  induction cnt as [|i IH]; intros x X H Hc Hrows Lx; cbn [iim_solve] in H.
  - injection H as <-. repeat split; auto. intros; lia.
  - bind_inv H as x1 E1. apply iim_solve_col_inv in E1 as (_ & L1 & N1).
    assert (Hrows1 : forall k, (k < length bm)%nat -> length (nth k x1 []) = n).
    { intros k Hk. destruct (N1 k Hk) as (t & _ & _ & ->). rewrite upd_length. auto. }
    apply IH in H as (LX & RX & Same & Sol); auto; try lia.
    repeat split; auto; try lia.
    + intros k i' Hk Hi'. rewrite Same by lia. destruct (N1 k Hk) as (t & _ & _ & ->).
      apply nth_error_upd_neq. lia.
    + intros k i' Hk Hi'. destruct (Nat.eq_dec i' i) as [->|Hne]; [|apply Sol; lia].
      destruct (N1 k Hk) as (t & Et & NZ & Ex). exists t. repeat split; auto.
      * rewrite <- Et. apply iim_dot_ext. intros q Hq. rewrite Same by lia. rewrite Ex.
        apply nth_error_upd_neq. lia.
      * unfold LinAlgStep.ent. assert (E := Same k i Hk (le_n i)).
        rewrite Ex in E. rewrite (nth_error_nth' _ zero) in E by (rewrite RX; auto; lia).
        rewrite (nth_error_nth' _ zero) in E by (rewrite upd_length, Hrows; auto; lia).
        injection E as ->. apply nth_upd_eq. rewrite Hrows; auto; lia.
Qed.

(** ** step 7: the extra columns *)
Lemma iim_check_col_inv k : forall bm ok,
  iim_check_col F k bm = Done ok ->
  if ok then forall l, (l < length bm)%nat -> is0 R (ent bm l k) = true
  else exists l, (l < length bm)%nat /\ is0 R (ent bm l k) = false.
Proof.
  induction bm as [|b bs IH]; intros ok H; cbn [iim_check_col] in H.
  - injection H as <-. cbn. intros; lia.
  - bind_inv H as x Ex. apply nth_chk_inv in Ex as [_ Ex]. destruct (is0 R x) eqn:Z.
    + apply IH in H. destruct ok.
      * intros [|l] Hl; [unfold LinAlgStep.ent; cbn [nth]; now rewrite (Ex zero)|]. apply H. cbn in Hl. lia.
      * destruct H as (l & Hl & NZ). exists (S l). split; [cbn; lia|auto].
    + injection H as <-. exists 0%nat. split; [cbn; lia|]. unfold LinAlgStep.ent. cbn [nth]. now rewrite (Ex zero).
Qed.

Lemma iim_check_inv bm : forall cnt k ok,
  iim_check F cnt k bm = Done ok ->
  if ok then forall c l, (k <= c < k + cnt)%nat -> (l < length bm)%nat -> is0 R (ent bm l c) = true
  else exists c l, (k <= c < k + cnt)%nat /\ (l < length bm)%nat /\ is0 R (ent bm l c) = false.
Proof.
  induction cnt as [|cn IH]; intros k ok H; cbn [iim_check] in H.
  - injection H as <-. intros; lia.
  - bind_inv H as ok1 E1. apply iim_check_col_inv in E1. destruct ok1.
    + apply IH in H. destruct ok.
      * intros c l Hc Hl. destruct (Nat.eq_dec c k) as [->|]; [now apply E1|]. apply H; lia.
      * destruct H as (c & l & Hc & Hl & NZ). exists c, l. repeat split; auto; lia.
    + injection H as <-. destruct E1 as (l & Hl & NZ). exists k, l. repeat split; auto; lia.
Qed.

End Field.
