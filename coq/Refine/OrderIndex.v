(** * OrderIndex: [index] and [discriminant_with_min_poly] as quotients of determinants (C15):
    index of a lattice in itself, multiplicativity in chains, disc(B) = (A:B)^2 disc(A).
    These follow from the outcomes of the calls alone (no matrix theory).  Style: stdlib. *)
From RNT.Model Require Import Base Poly Algebraic LinAlg MultTable Order.
From RNT.Refine Require Import LinAlgList.
From Coq Require Import Lia List QArith Qcanon.
Import ListNotations.
Open Scope Z_scope.

(** ** integers among the rationals *)
Lemma this_qz z : this (qz z) = inject_Z z.
Proof.
  unfold qz, Q2Qc; cbn [this]. apply Qred_identity. cbn. apply Z.gcd_1_r.
Qed.

Lemma q_is_integer_qz z : q_is_integer (qz z) = true.
Proof. unfold q_is_integer. now rewrite this_qz. Qed.

Lemma q_to_integer_qz z : q_to_integer (qz z) = z.
Proof. unfold q_to_integer. rewrite this_qz. cbn. apply Z.quot_1_r. Qed.

Lemma qz_q_to_integer x : q_is_integer x = true -> qz (q_to_integer x) = x.
Proof.
  unfold q_is_integer, q_to_integer. intros H. apply Pos.eqb_eq in H.
  apply Qc_is_canon. rewrite this_qz. destruct x as [[a d] c]; cbn in *. subst d.
  rewrite Z.quot_1_r. reflexivity.
Qed.

Lemma qz_mul x y : qz (x * y) = Qcmult (qz x) (qz y).
Proof.
  apply Qc_is_canon.
  change (this (Qcmult (qz x) (qz y))) with (Qred (this (qz x) * this (qz y))).
  rewrite Qred_correct, !this_qz, inject_Z_mult. reflexivity.
Qed.

Lemma qz_inj x y : qz x = qz y -> x = y.
Proof. intros H. apply (f_equal this) in H. rewrite !this_qz in H. now injection H. Qed.

Lemma qz_neq0 z : z <> 0 -> qz z <> Q2Qc 0.
Proof. intros H E. apply H. now apply qz_inj. Qed.

(** ** [div_chk] over [fopsQc] *)
Lemma is0_false (x : Qc) : is0 opsQc x = false <-> x <> Q2Qc 0.
Proof.
  unfold is0; cbn. split.
  - intros H E. subst x. discriminate H.
  - intros H. destruct (Qeq_bool _ _) eqn:E; [|reflexivity].
    exfalso. apply H. apply Qc_is_canon. now apply Qeq_bool_iff.
Qed.

Lemma div_chk_inv (x y q : Qc) : div_chk fopsQc x y = Done q -> y <> Q2Qc 0 /\ q = Qcdiv x y.
Proof.
  unfold div_chk. cbn [fr fopsQc fdiv]. destruct (is0 opsQc y) eqn:E; [discriminate|].
  intros [= <-]. split; [now apply is0_false|reflexivity].
Qed.

Lemma div_chk_ok (x y : Qc) : y <> Q2Qc 0 -> div_chk fopsQc x y = Done (Qcdiv x y).
Proof.
  intros H. unfold div_chk. cbn [fr fopsQc fdiv]. apply is0_false in H. now rewrite H.
Qed.

(** ** [index] *)
Lemma order_index_inv a b i : order_index a b = Done i ->
  exists da db, determinant fopsQc a = Done da /\ determinant fopsQc b = Done db /\
    da <> Q2Qc 0 /\ Qcdiv db da = qz i.
Proof.
  unfold order_index. intros H.
  bind_inv H as db Eb. bind_inv H as da Ea. bind_inv H as q Eq.
  apply div_chk_inv in Eq. destruct Eq as [Hda ->].
  destruct (q_is_integer (Qcdiv db da)) eqn:Ei; [|discriminate].
  injection H as <-. exists da, db. repeat split; auto.
  symmetry. now apply qz_q_to_integer.
Qed.

Lemma order_index_intro a b da db i :
  determinant fopsQc a = Done da -> determinant fopsQc b = Done db ->
  da <> Q2Qc 0 -> Qcdiv db da = qz i -> order_index a b = Done i.
Proof.
  intros Ea Eb Hda Hq. unfold order_index. rewrite Eb, Ea. cbn [bind].
  rewrite (div_chk_ok _ _ Hda). cbn [bind]. rewrite Hq, q_is_integer_qz, q_to_integer_qz.
  reflexivity.
Qed.

(** [P] the index of a lattice in itself is 1 *)
Theorem order_index_self a d :
  determinant fopsQc a = Done d -> d <> Q2Qc 0 -> order_index a a = Done 1.
Proof.
  intros Ea Hd. apply (order_index_intro a a d d 1 Ea Ea Hd).
  change (qz 1) with (Q2Qc 1). unfold Qcdiv. now apply Qcmult_inv_r.
Qed.

(** [P] index_chain: (A:C) = (A:B) (B:C) *)
Theorem order_index_chain a b c i1 i2 :
  order_index a b = Done i1 -> order_index b c = Done i2 -> order_index a c = Done (i1 * i2).
Proof.
  intros H1 H2.
  apply order_index_inv in H1. destruct H1 as (da & db & Ea & Eb & Hda & Q1).
  apply order_index_inv in H2. destruct H2 as (db' & dc & Eb' & Ec & Hdb & Q2).
  rewrite Eb in Eb'. injection Eb' as <-.
  apply (order_index_intro a c da dc (i1 * i2) Ea Ec Hda).
  rewrite qz_mul, <- Q1, <- Q2. unfold Qcdiv. field. split; assumption.
Qed.

(** ** [discriminant_with_min_poly] *)
Lemma order_discriminant_inv m discf b f d : order_discriminant m discf b f = Done d ->
  exists det e, determinant fopsQc b = Done det /\ f <> [] /\
    (do d1 <- u64_norm m (pdeg f - 1); u64_norm m (2 * d1)) = Done e /\
    let lc := coef_at opsZ f (Z.to_nat (pdeg f)) in
    qz (lc ^ e) <> Q2Qc 0 /\
    Qcdiv (Qcmult (Qcmult (qz discf) det) det) (qz (lc ^ e)) = qz d.
Proof.
  unfold order_discriminant. intros H.
  bind_inv H as det Ed. bind_inv H as u Ea. destruct f as [|f0 f']; [discriminate|].
  bind_inv H as d1 E1. bind_inv H as e E2. bind_inv H as v Ev. bind_inv H as u2 Ei.
  injection H as <-. apply div_chk_inv in Ev. destruct Ev as [Hlc ->].
  exists det, e. split; [reflexivity|]. split; [discriminate|]. split.
  { cbn [bind]. exact E2. }
  split; [exact Hlc|].
  symmetry. apply qz_q_to_integer. now destruct (q_is_integer _); [|discriminate].
Qed.

(** [P] disc_index: disc(B) = (A:B)^2 disc(A) -- in particular the integrality assertion for B
    passes whenever it passes for A and the index is an integer *)
Theorem disc_index m discf a b f i dA :
  order_index a b = Done i -> order_discriminant m discf a f = Done dA ->
  order_discriminant m discf b f = Done (i * i * dA).
Proof.
  intros HI HD.
  apply order_index_inv in HI. destruct HI as (da & db & Ea & Eb & Hda & Q).
  apply order_discriminant_inv in HD. destruct HD as (da' & e & Ea' & Hf & He & Hlc & V).
  rewrite Ea in Ea'. injection Ea' as <-.
  unfold order_discriminant. rewrite Eb. cbn [bind].
  destruct f as [|f0 f']; [congruence|]. cbn [assert_ bind].
  destruct (u64_norm m (pdeg (f0 :: f') - 1)) as [d1| |]; cbn [bind] in He |- *; try discriminate.
  rewrite He. cbn [bind].
  rewrite (div_chk_ok _ _ Hlc). cbn [bind].
  set (lcq := qz (coef_at opsZ (f0 :: f') (Z.to_nat (pdeg (f0 :: f'))) ^ e)) in *.
  assert (E : Qcdiv (Qcmult (Qcmult (qz discf) db) db) lcq = qz (i * i * dA)).
  { rewrite !qz_mul, <- V, <- Q. unfold Qcdiv. field. split; assumption. }
  rewrite E, q_is_integer_qz, q_to_integer_qz. reflexivity.
Qed.
